import Glom.Model.Interp
/-
  C03 — reference semantics for evaluators *with effects*: the sub-specs may log calls, write
  ScopeVars and raise.  "Each sub-spec is evaluated once, left to right": a list spec runs its
  sub-spec on the items in order, threading the state; a dict spec runs its value specs in order;
  a tuple / Pipe runs its steps in order, each on the result of the previous one.  An exception
  ends the evaluation with the state reached so far.  These are the accumulator-free ("as a user
  would say it") forms; `Glom/Props/C03.lean` proves the interpreter's loops equal to them.
-/
namespace Glom.Interp

/-- list spec over an effectful sub-spec `g`: items in order, SKIP omits, STOP ends -/
def listRefM (g : V → M V) : List V → M (List V)
  | [] => pure []
  | x :: xs => do
    let v ← g x
    match v with
    | .stop => pure []
    | .skip => listRefM g xs
    | v => do
      let r ← listRefM g xs
      pure (v :: r)

/-- dict spec with literal keys over effectful value specs: every value spec runs once, in order;
    a SKIP result omits the entry -/
def dictRefM (p : Prims) (t : V) : List (V × (V → M V)) → List (V × V) → M (List (V × V))
  | [], acc => pure acc
  | (k, g) :: rest, acc => do
    let v ← g t
    match v with
    | .skip => dictRefM p t rest acc
    | v => dictRefM p t rest (dictSet p acc k v)

/-- tuple / Pipe over effectful steps: each result feeds the next step, SKIP omits the step, STOP
    ends the chain with the value reached so far -/
def chainRefM : List (V → M V) → V → M V
  | [], t => pure t
  | g :: gs, t => do
    let v ← g t
    match v with
    | .skip => chainRefM gs t
    | .stop => pure t
    | v => chainRefM gs v

/-- Coalesce over effectful alternatives: in order, each evaluated once; an exception in `skip_exc`
    or a skipped value passes on to the next alternative (keeping the state the failed one left),
    any other exception propagates, the first non-skipped success wins and nothing after it runs -/
def coalesceRefM (p : Prims) (sk : Skip) (skipExc : List String) : List (V → M V) → V → M (Option V)
  | [], _ => pure Option.none
  | g :: gs, t => do
    match ← M.attempt (g t) with
    | .error e => if caught p skipExc e then coalesceRefM p sk skipExc gs t else M.throw e
    | .ok v => do
      match ← M.attempt (skipFunc p sk v) with
      | .error e => if caught p skipExc e then coalesceRefM p sk skipExc gs t else M.throw e
      | .ok true => coalesceRefM p sk skipExc gs t
      | .ok false => pure (some v)

/-- the items of a list target whose sub-spec evaluation runs: up to and including the first one
    that yields STOP -/
def evaluatedItems (f : V → V) : List V → List V
  | [] => []
  | x :: xs => match f x with
    | .stop => [x]
    | _ => x :: evaluatedItems f xs

/-! ### the checker: the composite recomputed from separately observed sub-results

The property: "the output of a dict, list or tuple spec is determined only by the outputs of its
sub-specs".  `composeRef` recomputes the outcome (value or exception) and the call log of a spec
from the outcomes of its *leaves* — the sub-specs that are not themselves an AUTO-mode tuple,
Pipe, dict, list, Val, Spec, Auto or Coalesce — each observed by a **separate** top-level evaluation (`leaf pos s t`: the
outcome of evaluating leaf `s`, which stands at position `pos` of the spec tree, on target `t`),
with the rules of the property text and nothing else: a tuple / Pipe feeds each result to the
next step, SKIP omits the step, STOP ends the chain; a dict spec holds the sub-results under the
same keys in the same order (value before a computed key; SKIP omits the entry); a list spec maps
its sub-spec over the target's iteration in order, SKIP omits, STOP ends; an exception ends the
evaluation; the log is the concatenation of the leaves' logs in evaluation order.  `none` = a leaf
observation is missing.  `checkC03` compares that with the observed outcome of the whole spec. -/

/-- outcome of one evaluation: value or exception, and the events it logged -/
abbrev Outcome := Except Err V × List Ev

abbrev LeafFn := List Nat → Spec → V → Option Outcome

/-- an AUTO-mode container spec (everything else is a leaf of the composition) -/
def Spec.isAutoContainer : Spec → Bool
  | .tuple _ | .pipe _ | .dict .. | .list (_ :: _) | .val _ | .specW _ [] | .auto _ | .coalesce .. => true
  | _ => false

/-- an outcome after the events `l` -/
def Outcome.after (l : List Ev) (o : Outcome) : Outcome := (o.1, l ++ o.2)

def chainC (rec : List Nat → Spec → V → Option Outcome) (pos : List Nat) :
    Nat → List Spec → V → Option Outcome
  | _, [], t => some (.ok t, [])
  | i, s :: rest, t =>
    match rec (pos ++ [i]) s t with
    | Option.none => Option.none
    | some (.error e, l) => some (.error e, l)
    | some (.ok v, l) =>
      match v with
      | .skip => (chainC rec pos (i + 1) rest t).map (Outcome.after l)
      | .stop => some (.ok t, l)
      | v => (chainC rec pos (i + 1) rest v).map (Outcome.after l)

def listC (rec : List Nat → Spec → V → Option Outcome) (pos : List Nat) (sub : Spec) :
    List V → List V → Option Outcome
  | [], acc => some (.ok (.list acc), [])
  | item :: rest, acc =>
    match rec (pos ++ [0]) sub item with
    | Option.none => Option.none
    | some (.error e, l) => some (.error e, l)
    | some (.ok v, l) =>
      match v with
      | .skip => (listC rec pos sub rest acc).map (Outcome.after l)
      | .stop => some (.ok (.list acc), l)
      | v => (listC rec pos sub rest (acc ++ [v])).map (Outcome.after l)

def dictC (p : Prims) (rec : List Nat → Spec → V → Option Outcome) (pos : List Nat) (o : Bool) (t : V) :
    Nat → List (Spec × Spec) → List (V × V) → Option Outcome
  | _, [], acc => some (.ok (.dict o acc), [])
  | i, (field, sub) :: rest, acc =>
    match rec (pos ++ [i, 1]) sub t with
    | Option.none => Option.none
    | some (.error e, l) => some (.error e, l)
    | some (.ok v, l) =>
      match v with
      | .skip => (dictC p rec pos o t (i + 1) rest acc).map (Outcome.after l)
      | v =>
        if field.isComputedKey then
          match rec (pos ++ [i, 0]) field t with
          | Option.none => Option.none
          | some (.error e, l2) => some (.error e, l ++ l2)
          | some (.ok k, l2) =>
            if p.hashable k then (dictC p rec pos o t (i + 1) rest (dictSet p acc k v)).map (Outcome.after (l ++ l2))
            else some (.error ⟨"TypeError"⟩, l ++ l2)
        else
          match reify field with
          | some k => (dictC p rec pos o t (i + 1) rest (dictSet p acc k v)).map (Outcome.after l)
          | Option.none => some (.error ⟨"Unsupported"⟩, l)

/-! the same rules over *outcome functions* of the sub-specs (what a sub-spec yields and logs on a
   target): the accumulator-free reference the theorems relate the interpreter's loops to -/

def chainF : List (V → Outcome) → V → Outcome
  | [], t => (.ok t, [])
  | f :: fs, t =>
    match f t with
    | (.error e, l) => (.error e, l)
    | (.ok v, l) =>
      match v with
      | .skip => (chainF fs t).after l
      | .stop => (.ok t, l)
      | v => (chainF fs v).after l

def listF (f : V → Outcome) : List V → List V → Outcome
  | [], acc => (.ok (.list acc), [])
  | item :: rest, acc =>
    match f item with
    | (.error e, l) => (.error e, l)
    | (.ok v, l) =>
      match v with
      | .skip => (listF f rest acc).after l
      | .stop => (.ok (.list acc), l)
      | v => (listF f rest (acc ++ [v])).after l

/-- dict spec: the value first; then a computed key (`some kf`) or the literal one (`k`) -/
def dictF (p : Prims) (o : Bool) (t : V) : List (V × Option (V → Outcome) × (V → Outcome)) → List (V × V) → Outcome
  | [], acc => (.ok (.dict o acc), [])
  | (k, kf, f) :: rest, acc =>
    match f t with
    | (.error e, l) => (.error e, l)
    | (.ok v, l) =>
      match v with
      | .skip => (dictF p o t rest acc).after l
      | v =>
        match kf with
        | some g =>
          match g t with
          | (.error e, l2) => (.error e, l ++ l2)
          | (.ok k', l2) =>
            if p.hashable k' then (dictF p o t rest (dictSet p acc k' v)).after (l ++ l2)
            else (.error ⟨"TypeError"⟩, l ++ l2)
        | Option.none => (dictF p o t rest (dictSet p acc k v)).after l

/-- positions of the auxiliary observations of a Coalesce at `pos`: its skip predicate applied to a
    value, its default evaluated in argument position, its default factory called -/
def posSkipPred (pos : List Nat) : List Nat := pos ++ [1000]
def posDefault (pos : List Nat) : List Nat := pos ++ [2000]
def posFactory (pos : List Nat) : List Nat := pos ++ [2001]

/-- is a value skipped?  a tuple of values / a single value by `==`; a predicate by a separately
    observed call (`leaf` on the bare callable with the value as target) -/
def skipC (p : Prims) (leaf : LeafFn) (pos : List Nat) (sk : Skip) (v : V) : Option (Except Err Bool × List Ev) :=
  match sk with
  | .never => some (.ok false, [])
  | .anyOf vs => some (.ok (vs.any (fun x => p.eq x v)), [])
  | .eq x => some (.ok (p.eq v x), [])
  | .pred n k =>
    match leaf (posSkipPred pos) (.fn n k) v with
    | Option.none => Option.none
    | some (.ok r, l) => some (.ok (p.truthy r), l)
    | some (.error e, l) => some (.error e, l)

/-- Coalesce: the alternatives in order; an exception in `skip_exc` (raised by the alternative or by
    the skip predicate) or a skipped value passes on to the next; anything else propagates; the
    first non-skipped success wins -/
def coalC (p : Prims) (leaf : LeafFn) (rec : List Nat → Spec → V → Option Outcome) (pos : List Nat) (t : V)
    (sk : Skip) (se : List String) : Nat → List Spec → Option (Except Err (Option V) × List Ev)
  | _, [] => some (.ok Option.none, [])
  | i, s :: rest =>
    let next (l : List Ev) := (coalC p leaf rec pos t sk se (i + 1) rest).map (fun o => (o.1, l ++ o.2))
    match rec (pos ++ [i]) s t with
    | Option.none => Option.none
    | some (.error e, l) => if caught p se e then next l else some (.error e, l)
    | some (.ok v, l) =>
      match skipC p leaf pos sk v with
      | Option.none => Option.none
      | some (.error e, l2) => if caught p se e then next (l ++ l2) else some (.error e, l ++ l2)
      | some (.ok true, l2) => next (l ++ l2)
      | some (.ok false, l2) => some (.ok (some v), l ++ l2)

/-- the composite from the leaves (fuel bounds the nesting depth of containers) -/
def composeRef (p : Prims) (leaf : LeafFn) : Nat → List Nat → Spec → V → Option Outcome
  | 0, _, _, _ => Option.none
  | fuel + 1, pos, spec, t =>
    match spec with
    | .tuple xs => chainC (composeRef p leaf fuel) pos 0 xs t
    | .pipe xs => chainC (composeRef p leaf fuel) pos 0 xs t
    | .dict o es => dictC p (composeRef p leaf fuel) pos o t 0 es []
    | .list (sub :: _) =>
      match p.iterate t with
      | .error e => some (.error e, [])
      | .ok items => listC (composeRef p leaf fuel) pos sub items []
    | .val v => some (.ok v, [])
    | .specW s [] => composeRef p leaf fuel (pos ++ [0]) s t
    | .auto s => composeRef p leaf fuel (pos ++ [0]) s t
    | .coalesce subs dflt fac sk se =>
      match coalC p leaf (composeRef p leaf fuel) pos t sk se 0 subs with
      | Option.none => Option.none
      | some (.error e, l) => some (.error e, l)
      | some (.ok (some v), l) => some (.ok v, l)
      | some (.ok Option.none, l) =>
        match dflt, fac with
        | some d, _ =>
          (leaf (posDefault pos) (.coalesce [] (some d) Option.none .never []) t).map (fun o => (o.1, l ++ o.2))
        | Option.none, some (n, k) =>
          (leaf (posFactory pos) (.invoke (.fn n k) false []) t).map (fun o => (o.1, l ++ o.2))
        | Option.none, Option.none => some (.error ⟨"CoalesceError"⟩, l)
    | s => leaf pos s t

/-- **C03 checker**: the observed outcome of the whole spec is the one composed from the separately
    observed outcomes of its leaves (`eqV`: equality of canonical values) -/
def checkC03 (p : Prims) (eqO : Outcome → Outcome → Bool) (leaf : LeafFn) (fuel : Nat) (spec : Spec) (t : V)
    (whole : Outcome) : Bool :=
  match composeRef p leaf fuel [] spec t with
  | some o => eqO o whole
  | Option.none => false

/-- no construct that reads or writes the scope, no lazy stream, no Vars: the specs whose leaves can
    be observed by separate top-level calls -/
def scopeFreeF : Nat → Spec → Bool
  | 0, _ => false
  | fuel + 1, s =>
    let n := scopeFreeF fuel
    match s with
    | .sRead .. | .sGlobRead _ | .sVarRead .. | .sBind _ | .aBind _ | .aGlob _ | .aVar .. | .letB _
    | .ref .. | .vars _ | .iter .. | .probe _ | .rprobe .. => false
    | .specW s sc => sc.isEmpty && n s
    | .tuple xs | .list xs | .set _ xs | .pipe xs => xs.all n
    | .dict _ es => es.all (fun e => n e.1 && n e.2)
    | .coalesce subs d _ _ _ => subs.all n && (match d with | some x => n x | Option.none => true)
    | .call f as kw => n f && n as && n kw
    | .invoke f _ blocks => n f && blocks.all (fun b => b.2.1.all n && b.2.2.all (fun kv => n kv.2))
    | .auto s | .fill s | .group s | .not s | .inspect s _ _ | .reqKey s | .reenter _ s => n s
    | .mtch s d => n s && (match d with | some x => n x | Option.none => true)
    | .and cs d | .or cs d => cs.all n && (match d with | some x => n x | Option.none => true)
    | .switch cases d => cases.all (fun e => n e.1 && n e.2) && (match d with | some x => n x | Option.none => true)
    | _ => true

end Glom.Interp
