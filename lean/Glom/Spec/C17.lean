import Glom.Model.C17
/-
  C17 — reference semantics and the decidable checker.

  Three readings of the property, from the user's side:

  1. **What a pipeline yields** (`composeE`): the composition of the list
     functions `map, filter, takeWhile, dropWhile, slice, chunked, windowed,
     split, unique, join`, applied in chaining order to the list of source items
     — "what `list(<the itertools composition>)` returns" (`Except`: it raises if
     anything raises).
  2. **What is determined by a prefix of the source** (`pipeTr` on `Src.pfx n`):
     the items that are already fixed once the first `n` source items are known,
     and whether the stream is known to have ended (`eof` / `err`) or not
     (`more`).  Stages are composed as functions on such traces.  This is the
     notion of "needed" in the laziness clause: obtaining `k` outputs *needs*
     the first `n` items when no shorter prefix determines `k` outputs or the end.
  3. **Builders**: a spec observed before and after other specs were derived
     from it is the same spec.
-/
namespace Glom.C17

/-! ### 1. list functions -/

def filterE (key : Fn) : List V → Except Err (List V)
  | [] => .ok []
  | x :: xs => do
    let y ← key x
    let r ← filterE key xs
    return if y.truthy then x :: r else r

def takeWhileE (key : Fn) : List V → Except Err (List V)
  | [] => .ok []
  | x :: xs => do
    let y ← key x
    if y.truthy then do let r ← takeWhileE key xs; return x :: r else return []

def dropWhileE (key : Fn) : List V → Except Err (List V)
  | [] => .ok []
  | x :: xs => do
    let y ← key x
    if y.truthy then dropWhileE key xs else return x :: xs

/-- keep one item, skip `step - 1`; `c` items are skipped first -/
def stepAux (step : Nat) : Nat → List V → List V
  | _, [] => []
  | 0, x :: xs => x :: stepAux step (step - 1) xs
  | c + 1, _ :: xs => stepAux step c xs

/-- `xs[start:stop:step]` -/
def sliceL (start : Nat) (stop : Option Nat) (step : Nat) (xs : List V) : List V :=
  stepAux step start (match stop with | some s => xs.take s | none => xs)

/-- chunks of `size`, the last one padded with `fill` when given (`n`: recursion bound) -/
def chunkedAux (size : Nat) (fill : Option V) : Nat → List V → List V
  | 0, _ => []
  | n + 1, xs =>
    if xs.isEmpty then []
    else .list (padTo size fill (xs.take size)) :: chunkedAux size fill n (xs.drop size)

def chunkedL (size : Nat) (fill : Option V) (xs : List V) : List V :=
  chunkedAux size fill xs.length xs

/-- every run of `size` adjacent items, as a tuple -/
def windowedL (size : Nat) : List V → List V
  | [] => []
  | x :: xs => if (x :: xs).length ≥ size then .tup ((x :: xs).take size) :: windowedL size xs else []

def consHead (x : V) : List (List V) → List (List V)
  | g :: gs => (x :: g) :: gs
  | [] => [[x]]

/-- `split`: cut at separators, at most `m` times.  `grouping` (`sep=None`, like
    `str.split()`): separators met while the current group is still empty (`atStart`)
    are skipped and an empty last group is not produced. -/
def splitL (isSep : V → Bool) (grouping : Bool) : Bool → Option Nat → List V → List (List V)
  | atStart, _, [] => if grouping && atStart then [] else [[]]
  | atStart, m, x :: xs =>
    if (m != some 0) && isSep x then
      if grouping && atStart then splitL isSep grouping true m xs
      else [] :: splitL isSep grouping true (m.map (· - 1)) xs
    else consHead x (splitL isSep grouping false m xs)

/-- is `x` a separator?  (`sep_func(x)` taken for its truth value; `false` where it raises —
    then `splitE` raises) -/
def sepFn (sep : Sep) (x : V) : Bool :=
  match isSepE sep x with
  | .ok b => b
  | .error _ => false

/-- the first exception the separator test raises on the items (an unhashable item against a
    set of separators, a callable separator that raises, an item whose `==` raises) -/
def sepErr (sep : Sep) : List V → Option Err
  | [] => none
  | x :: xs => match isSepE sep x with | .error e => some e | .ok _ => sepErr sep xs

def splitE (sep : Sep) (m : Option Nat) (xs : List V) : Except Err (List V) :=
  match sepErr sep xs with
  | some e => .error e
  | none => .ok ((splitL (sepFn sep) (match sep with | .none => true | _ => false) true m xs).map V.list)

/-- an item is kept iff its key is not (as a set sees it: `V.key`) the key of an earlier item -/
def uniqueAux (before : List V) : List (V × V) → List V
  | [] => []
  | (x, k) :: r => (if before.contains k then [] else [x]) ++ uniqueAux (before ++ [k]) r

def uniqueE (key : Fn) (xs : List V) : Except Err (List V) := do
  let ks ← xs.mapM key
  if ks.all V.hashable then return uniqueAux [] (xs.zip (ks.map V.key)) else throw "TypeError"

/-- `iter(x)` or `TypeError` -/
def iterE (x : V) : Except Err (List V) :=
  match x.asIter with
  | some l => .ok l
  | none => .error "TypeError"

def flattenE (xs : List V) : Except Err (List V) := do
  let ys ← xs.mapM iterE
  return ys.flatten

/-- `Iter(subspec, sentinel=…)` itself: apply `subspec`, drop `SKIP`s, end at `STOP` / the sentinel.
    The sentinel is an *object*: the stream ends when that very object turns up (`is`), not at
    an item that merely compares equal to it (`1.0` / `True` when the sentinel is `1`, an equal
    string or tuple built elsewhere, an object whose `__eq__` says yes to everything). -/
def baseE (sub : BaseFn) (sentinel : Option V) : List V → Except Err (List V)
  | [] => .ok []
  | x :: xs => do
    match ← sub x with
    | .skip => baseE sub sentinel xs
    | .stop => return []
    | .val v =>
      if (match sentinel with | some s => v.is s | none => false) then return []      -- THE sentinel object
      else do let r ← baseE sub sentinel xs; return v :: r

def refE : Kind → List V → Except Err (List V)
  | .base sub s, xs => baseE sub s xs
  | .map f, xs => xs.mapM f
  | .filter key, xs => filterE key xs
  | .takewhile key, xs => takeWhileE key xs
  | .dropwhile key, xs => dropWhileE key xs
  | .slice a b c, xs => .ok (sliceL a b c xs)
  | .chunked n fill, xs => .ok (chunkedL n fill xs)
  | .windowed n, xs => .ok (windowedL n xs)
  | .split sep m, xs => splitE sep m xs
  | .unique key, xs => uniqueE key xs
  | .flatten, xs => flattenE xs
  | .raises e _, _ => .error e
  | .wrapIter, _ => .ok [.list [.gen]]

/-- the composition, stages applied in the order they were chained -/
def composeE : List Kind → List V → Except Err (List V)
  | [], xs => .ok xs
  | k :: ks, xs => do let ys ← refE k xs; composeE ks ys

/-! ### 2. traces: what a prefix of the input determines -/

inductive Term where
  | eof                    -- the stream has ended
  | more                   -- not known yet: more input is needed
  | err (e : Err)          -- the stream ends by raising `e`
  deriving Repr, DecidableEq, Inhabited

structure Tr where
  items : List V
  term : Term
  deriving Inhabited

def Tr.prepend (o : List V) (t : Tr) : Tr := ⟨o ++ t.items, t.term⟩

/-- a stage as a function on traces: feed the items one at a time -/
def foldCore (c : Core) : List V → Term → Tr
  | [], .eof => ⟨c.flush, .eof⟩
  | [], t => ⟨[], t⟩
  | u :: us, t =>
    match c.push u with
    | (o, c', .go) => (foldCore c' us t).prepend o
    | (o, _, .stop) => ⟨o, .eof⟩
    | (o, _, .fail e) => ⟨o, .err e⟩

def stageTr (k : Kind) (d : Tr) : Tr :=
  if k.initStopped then ⟨k.initOut, match k.initErr with | some e => .err e | none => .eof⟩
  else foldCore (Core.init k) d.items d.term

/-- the pipeline as a function on traces, `kinds` in chaining order -/
def pipeTr : List Kind → Tr → Tr
  | [], d => d
  | k :: ks, d => pipeTr ks (stageTr k d)

/-- the first `n` items of a source, and what is known about its end -/
def Src.pfx (s : Src) (n : Nat) : Tr :=
  match s with
  | .fin xs tail =>
    if n ≥ xs.length then ⟨xs, match tail with | some e => .err e | none => .eof⟩
    else ⟨xs.take n, .more⟩
  | .inf f => ⟨(List.range n).map f, .more⟩

/-- outputs determined by the first `n` source items -/
def det (kinds : List Kind) (src : Src) (n : Nat) : Tr := pipeTr kinds (src.pfx n)

def Term.isMore : Term → Bool
  | .more => true
  | _ => false

/-- a request for `k` outputs can be answered: `k` items are determined, or the end is -/
def Tr.answers (d : Tr) (k : Nat) : Bool := d.items.length ≥ k || !d.term.isMore

/-- least `n ≥ start` that satisfies `p` or reaches `bound` (`fuel` bounds the search) -/
def leastFrom (p : Nat → Bool) (bound : Nat) : Nat → Nat → Nat
  | 0, n => n
  | fuel + 1, n => if n ≥ bound || p n then n else leastFrom p bound fuel (n + 1)

/-- number of source items needed for `k` outputs, given that `start` were pulled already -/
def needFrom (kinds : List Kind) (src : Src) (bound k start : Nat) : Nat :=
  leastFrom (fun n => (det kinds src n).answers k) bound (bound + 1) start

/-- number of source items needed until the end of the stream is determined -/
def needEndFrom (kinds : List Kind) (src : Src) (bound start : Nat) : Nat :=
  leastFrom (fun n => !(det kinds src n).term.isMore) bound (bound + 1) start

/-- source items `glomit` itself pulls: each `windowed(size)` stage, when it is built, asks
    the chain below it (`before`) for `size - 1` items -/
def primeScan (src : Src) (bound : Nat) : List Kind → List Kind → Nat → Nat
  | _, [], p => p
  | before, k :: after, p =>
    primeScan src bound (before ++ [k]) after
      (if k.primeCount = 0 then p else needFrom before src bound k.primeCount p)

def primeNeed (kinds : List Kind) (src : Src) (bound : Nat) : Nat := primeScan src bound [] kinds 0

/-- exceptions `glomit` itself may raise: a `windowed` stage, advancing its tees, meets an
    error of the chain below it before it has its `size - 1` items -/
def primeErrs (src : Src) (bound : Nat) : List Kind → List Kind → List Err
  | _, [] => []
  | before, k :: after =>
    (if (det before src bound).items.length < k.primeCount then
      (match (det before src bound).term with | .err e => [e] | _ => []) else []) ++
    primeErrs src bound (before ++ [k]) after

/-! ### 3. observations and the checker -/

structure TakeObs where
  items : List V
  fin : Fin
  pulls : Nat

def TakeObs.beq (a b : TakeObs) : Bool := a.items == b.items && a.fin == b.fin && a.pulls == b.pulls
instance : BEq TakeObs := ⟨TakeObs.beq⟩

def finOfTerm : Term → Fin
  | .eof => .exhausted
  | .err e => .raised e
  | .more => .oof

/-- the source of a checked case is finite (an infinite one is cut by the harness's pull
    budget into a finite one whose generator then raises) -/
def srcLen : Src → Nat
  | .fin xs _ => xs.length
  | .inf _ => 0

/-- **the property on one `take k` observation**: the items are the first `k` of the
    composition, the iterator ends / raises exactly when the composition does, and no more
    source items were pulled than `k` outputs (or `glomit`'s window priming) need -/
def checkTake (kinds : List Kind) (src : Src) (k : Nat) (o : TakeObs) : Bool :=
  let n := srcLen src
  let full := det kinds src n
  (o.items == full.items.take k &&
    o.fin == (if full.items.length ≥ k then .gotK else finOfTerm full.term) &&
    o.pulls ≤ needFrom kinds src n k (primeNeed kinds src n))
  || (o.items.isEmpty && o.pulls ≤ primeNeed kinds src n &&
    (match o.fin with | .raised e => (primeErrs src n [] kinds).contains e | _ => false))

/-- `Iter.all()`: every item, then the end -/
def checkAll (kinds : List Kind) (src : Src) (o : TakeObs) : Bool :=
  let n := srcLen src
  let full := det kinds src n
  (o.fin == finOfTerm full.term &&
    (o.fin != .exhausted || o.items == full.items) &&
    o.pulls ≤ needEndFrom kinds src n (primeNeed kinds src n))
  || (o.pulls ≤ primeNeed kinds src n &&
    (match o.fin with | .raised e => (primeErrs src n [] kinds).contains e | _ => false))

inductive FirstObs where
  | found (v : V)
  | default
  | raised (e : Err)
  | oof
  deriving Inhabited

def FirstObs.beq : FirstObs → FirstObs → Bool
  | .found a, .found b => a == b
  | .default, .default => true
  | .raised a, .raised b => a == b
  | .oof, .oof => true
  | _, _ => false
instance : BEq FirstObs := ⟨FirstObs.beq⟩

def firstObsOf : FirstOut → FirstObs
  | .found v => .found v
  | .default => .default
  | .raised e => .raised e
  | .oof => .oof

/-- how `first(key, default)` ends on a stream: at the `i`-th item (its key is truthy, or
    raises), or at the end of the stream -/
inductive FirstRef where
  | found (v : V) (examined : Nat)
  | keyRaised (e : Err) (examined : Nat)
  | atEnd (t : Term)

/-- the first item whose key is truthy, else the default -/
def firstRef (key : Fn) : List V → Term → Nat → FirstRef
  | [], t, _ => .atEnd t
  | x :: xs, t, i =>
    match key x with
    | .error e => .keyRaised e (i + 1)
    | .ok y => if y.truthy then .found x (i + 1) else firstRef key xs t (i + 1)

/-- `Iter.first(key, default)`: the first item with a truthy key (pulling no more than that
    item needs), the default when the stream ends, an exception when the stream or the key
    raises.  (The class of an exception raised *by the key* is not compared: C17 does not
    speak about it, and `First` re-raises it through a nested `glom` call — see C04/C20.) -/
def checkFirst (kinds : List Kind) (src : Src) (key : Fn) (o : FirstObs) (pulls : Nat) : Bool :=
  let n := srcLen src
  let full := det kinds src n
  let pn := primeNeed kinds src n
  (match firstRef key full.items full.term 0 with
    | .found v i => o == .found v && pulls ≤ needFrom kinds src n i pn
    | .keyRaised _ i => (match o with | .raised _ => true | _ => false) && pulls ≤ needFrom kinds src n i pn
    | .atEnd t =>
      o == (match t with | .eof => .default | .err e => .raised e | .more => .oof) &&
      pulls ≤ needEndFrom kinds src n pn)
  || (pulls ≤ pn && (match o with | .raised e => (primeErrs src n [] kinds).contains e | _ => false))

def SrcAfter.beq (a b : SrcAfter) : Bool := a.rest == b.rest && a.ended == b.ended && a.closed == b.closed
instance : BEq SrcAfter := ⟨SrcAfter.beq⟩

/-- **the property on the caller's source after a run** (observed on a source that is its own
    iterator: a generator, an object with `__next__` and possibly `close()`).  When the run
    pulled `pulls` items, `next()` on the source goes on with item number `pulls`: the source
    is left exactly where the itertools composition over the same iterator leaves it — no
    item lost, none pushed back — and glom did not call `close()` on it.  `r`: number of
    items the harness asks for. -/
def checkSource (src : Src) (pulls r : Nat) (o : SrcAfter) : Bool :=
  !o.closed && o.rest == (src.after pulls r).rest && o.ended == (src.after pulls r).ended

/-! #### several pipelines over one source object -/

inductive StepObs where
  | run (o : TakeObs)                      -- take / all
  | first (o : FirstObs) (pulls : Nat)

def StepObs.pulls : StepObs → Nat
  | .run o => o.pulls
  | .first _ p => p

def StepObs.raised : StepObs → Bool
  | .run o => (match o.fin with | .raised _ => true | _ => false)
  | .first o _ => (match o with | .raised _ => true | _ => false)

def StepObs.oof : StepObs → Bool
  | .run o => o.fin == .oof
  | .first o _ => (match o with | .oof => true | _ => false)

def StepOut.obs : StepOut → StepObs
  | .run o => .run ⟨o.items, o.fin, o.pulls⟩
  | .first o p => .first (firstObsOf o) p

/-- what the checker remembers about the suspended iterator of a pipe: the source items it
    pulled so far, the number of items asked of it, the items it yielded -/
structure Resumed where
  started : Bool := false
  pulled : List V := []
  asked : Nat := 0
  items : List V := []

/-- **the property, step by step, on the implementation's observations.**  A step that starts
    an iterator when the source is at position `pos` must behave like the composition over
    the remaining items `xs.drop pos` (`checkTake` / `checkAll` / `checkFirst` on that source,
    pulls counted from `pos`).  A step that resumes a suspended iterator must, together with
    the earlier steps of that iterator, behave like ONE `take` of the composition over the
    items this iterator pulled followed by the items remaining now — a pipeline sees the
    items it pulls itself, whoever else reads the same object in between. -/
def checkSteps (xs : List V) (tail : Option Err) (pipes : List (List Kind)) :
    List Step → List StepObs → Nat → List Resumed → Bool
  | [], [], _, _ => true
  | [], _ :: _, _, _ => false
  | _ :: _, [], _, _ => false            -- (a sequence cut short by an exception is handled below)
  | st :: rest, o :: os, pos, mem =>
    let kinds := pipes.getD st.pipe []
    let p' := o.pulls
    if p' < pos then false else
    let delta := p' - pos
    let here := (match st.mode, o with
      | .take k, .run t =>
        let m := mem.getD st.pipe {}
        if m.started && k == 0 then t.items.isEmpty && t.fin == .gotK && delta == 0
        else checkTake kinds (.fin (m.pulled ++ xs.drop pos) tail) (m.asked + k)
          ⟨m.items ++ t.items, t.fin, m.pulled.length + delta⟩
      | .all, .run t => checkAll kinds (.fin (xs.drop pos) tail) ⟨t.items, t.fin, delta⟩
      | .first key, .first f _ => checkFirst kinds (.fin (xs.drop pos) tail) key f delta
      | _, _ => false)
    let mem' := (match st.mode, o with
      | .take k, .run t =>
        let m := mem.getD st.pipe {}
        setAt mem st.pipe { started := true, pulled := m.pulled ++ (xs.drop pos).take delta,
                            asked := m.asked + k, items := m.items ++ t.items }
      | _, _ => mem)
    here && (if o.raised then os.isEmpty else checkSteps xs tail pipes rest os p' mem')

/-- builder purity, on observations of the implementation alone: the re-used prefix spec
    has the same repr and the same behaviour before and after specs were derived from it,
    and a spec derived from the re-used prefix behaves like the same chain built afresh -/
def checkReuse (reprSame : Bool) (before after reused fresh : TakeObs) : Bool :=
  reprSame && before == after && reused == fresh

/-! ### well-formedness of the extracted facts -/

structure Facts where
  iterSelfWrites : List (String × String)     -- (method, statement) writing `self` in class Iter
  invokeSelfWrites : List (String × String)
  addOpNewList : Bool                         -- `_iter_stack=[entry] + self._iter_stack`
  addOpForwardsSentinel : Bool
  invokeCopies : List (String × Bool)         -- method → `ret._cur_kwargs = dict(self._cur_kwargs)`
  iterateSkipContinues : Bool                 -- `if yld is SKIP: continue`
  iterateStopReturns : Bool                   -- `elif yld is self.sentinel or yld is STOP: return`
  iterateOnlyNexts : Bool                     -- `iterator` is used as the iterable of the `for` loop and nowhere else;
                                              -- `target` only in `get_handler(…)`, `iterate(target)` and the error message
  glomitReversed : Bool                       -- `for … in reversed(self._iter_stack)`
  callbacks : List (String × String)          -- builder method → iterator function its callback calls
  callbackArgs : List (String × String)       -- builder method → the call that builds its iterator, in normal form
  iterateExtra : List (String × String)       -- statements of `_iterate` that are none of the model's
  addOpTypeSelf : Bool                        -- `_add_op` builds `type(self)(…)`: a subclass stays a subclass
  allIsPipeList : Bool                        -- `all()` is `return Pipe(self, list)`
  firstShape : Bool                           -- `first(key, default)` is `return (self, First(key=key, default=default))`
  callbackWrites : List (String × String)     -- (method, statement): a stage callback (or a function nested in a builder
                                              -- method) writes a variable of the method's frame — state per SPEC, not per stream

def expectedCallbacks : List (String × String) :=
  [("map", "imap"), ("filter", "ifilter"), ("chunked", "chunked_iter"), ("windowed", "windowed_iter"),
   ("split", "split_iter"), ("flatten", "chain.from_iterable"), ("unique", "unique_iter"),
   ("slice", "islice"), ("limit", "islice"), ("takewhile", "takewhile"), ("dropwhile", "dropwhile")]

/-- the iterator-building call of every stage callback, in the extractor's normal form: `IT` is the
    iterator handed in, `G(x)` is `t ↦ scope[glom](t, x, scope)`, `NOTSKIP(G(x))` is `t ↦ … is not SKIP` -/
def expectedCallbackArgs : List (String × String) :=
  [("map", "imap(G(subspec), IT)"), ("filter", "ifilter(NOTSKIP(G(check_spec)), IT)"),
   ("chunked", "chunked_iter(IT, **kw)"), ("windowed", "windowed_iter(IT, size)"),
   ("split", "split_iter(IT, sep=sep, maxsplit=maxsplit)"), ("flatten", "chain.from_iterable(IT)"),
   ("unique", "unique_iter(IT, key=G(key))"), ("slice", "islice(IT, *args)"), ("limit", "islice(IT, count)"),
   ("takewhile", "takewhile(G(key), IT)"), ("dropwhile", "dropwhile(G(key), IT)")]

def Facts.WF (f : Facts) : Bool :=
  f.iterSelfWrites.isEmpty && f.invokeSelfWrites.isEmpty && f.addOpNewList && f.addOpForwardsSentinel &&
  f.invokeCopies == [("constants", true), ("specs", true), ("star", true)] &&
  f.iterateSkipContinues && f.iterateStopReturns && f.iterateOnlyNexts && f.glomitReversed &&
  f.callbacks == expectedCallbacks && f.callbackWrites.isEmpty &&
  f.callbackArgs == expectedCallbackArgs && f.iterateExtra.isEmpty && f.addOpTypeSelf && f.allIsPipeList && f.firstShape

end Glom.C17
