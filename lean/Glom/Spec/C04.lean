import Glom.Model.C04Shape
/-
  C04 — reference semantics, observation and the decidable checker.

  The property as a caller would state it:
    * whatever leaves `glom()` is an instance of the class of the exception that
      was originally raised and has the same `.args`;
    * if that class is an `Exception` subclass that can be rebuilt from its args
      (or already is a GlomError) the raised object is also a GlomError
      (`glom_debug` off);
    * with `default` and/or `skip_exc` given, exactly the errors that match
      `skip_exc` (documented default: GlomError; documented default of `default`:
      None) at their origin are replaced by the default object itself;
    * `glom_debug=True` propagates the original exception object.
  Nothing here refers to how `glom()` achieves it.
-/
namespace Glom.C04

/-- documented defaulting of `default`: `None` when only `skip_exc` is given -/
def refDefault (s : Settings) : Option DefV :=
  match s.default with
  | some d => some (.given d)
  | none => if s.skipExc.isSome then some .none_ else none

/-- documented defaulting of `skip_exc`: `GlomError` when only `default` is given -/
def refSkip (s : Settings) : List String :=
  match s.skipExc with
  | some l => l
  | none => if s.default.isSome then ["GlomError"] else []

/-- the caller asked for errors to be replaced, and this one matches at its origin -/
def selected (s : Settings) (e : ExcObj) : Bool :=
  (refDefault s).isSome && matchesAny e (refSkip s)

/-- the class can be rebuilt from the args: `cls(*e.args)` succeeds with the same args -/
def rebuildable (e : ExcObj) : Bool := e.cls.ctor e.args == some e.args

/-- a subclass of the class can be created, its instances accept new attributes and their traceback can
    be formatted (otherwise no object can be both an instance of the class and a finalized GlomError) -/
def extensible (e : ExcObj) : Bool := !e.cls.sealed && !e.cls.frozen && !e.cls.boolRaises

inductive RetKind where
  | value        -- some other object
  | defaultObj   -- `ret is default` for the object passed as `default=`
  | noneObj      -- `ret is None` (the documented default of `default`)
  deriving DecidableEq, Repr

structure RaisedObs where
  mro : List String      -- class-name chain of the exception that left glom()
  args : Args
  same : Bool            -- `out is e`
  instOrig : Bool        -- `isinstance(out, type(e))`
  instGlom : Bool        -- `isinstance(out, GlomError)`
  causeKept : Bool       -- `out.__cause__ is e.__cause__`
  contextKept : Bool     -- `out.__context__ is e.__context__`
  reachesOrig : Bool     -- `out is e or out._GlomError__wrapped is e`
  deriving DecidableEq, Repr

inductive Obs where
  | returned (k : RetKind)
  | raised (r : RaisedObs)
  deriving DecidableEq, Repr

/-- observation of a model result, relative to the exception `e` at the origin -/
def observe (origin : Option ExcObj) (r : Res) : Obs :=
  match r with
  | .value => .returned .value
  | .dflt .none_ => .returned .noneObj
  | .dflt (.given _) => .returned .defaultObj
  | .exc out =>
    .raised { mro := out.cls.mro, args := out.args,
              same := (match origin with | some e => out.id == e.id | none => false),
              instOrig := (match origin with | some e => out.cls.mro.contains e.cls.name | none => false),
              instGlom := out.cls.mro.contains "GlomError",
              causeKept := (match origin with | some e => out.cause == e.cause | none => false),
              contextKept := (match origin with | some e => out.context == e.context | none => false),
              reachesOrig := (match origin with
                | some e => out.id == e.id || out.wrapped == some e.id | none => false) }

/-- The property evaluated on an observation (the model's or the implementation's).
    `debug` is the effective `glom_debug` (documented default: off). -/
def checkC04 (s : Settings) (origin : Option ExcObj) (obs : Obs) : Bool :=
  let debug := s.debug.getD false
  match origin with
  | none => obs == .returned .value
  | some e =>
    if selected s e then
      match refDefault s with
      | some (.given _) => obs == .returned .defaultObj
      | _ => obs == .returned .noneObj
    else
      match obs with
      | .raised r =>
        r.instOrig && r.args == e.args &&
        (!debug || (r.same && r.causeKept && r.contextKept)) &&
        (debug || !(isInst e "Exception") || !(isInst e "GlomError" || rebuildable e) || !(extensible e) || r.instGlom)
      | .returned _ => false

/-! ### well-formedness of the extracted facts -/

def tmeMroDoc : List String :=
  ["TypeMatchError", "MatchError", "GlomError", "TypeError", "Exception", "BaseException", "object"]

/-- the DOCUMENTED shape of `glom()`, `GlomError.wrap`, `_glom`, `Coalesce`, the conversions:
    the reference evaluation of the correspondence driver uses these values, whatever was extracted -/
def docFacts (attrGuarded : Bool) : Facts :=
  { shapeOk := true, defIfSkip := some .none_, defElse := none, skipIfMissing := [], skipElse := ["GlomError"],
    debugDefault := false, outerCatch := ["Exception"], copyArgsCheck := true, copyFallback := true,
    wrapArgsCheck := true, wrapFallback := true, wrapTypeInTry := true, attrGuarded := attrGuarded,
    errTestTruthy := false, tmeCopyFixed := false, tmeMro := tmeMroDoc,
    frameCatch := ["Exception"], coalesceSkipDefault := ["GlomError"],
    iterCatch := ["Exception"], iterRaises := "TypeError",
    getitemCatch := ["KeyError", "IndexError", "TypeError", "ValueError"],
    getattrCatch := ["AttributeError"], pathCatch := ["Exception"] }

/-- the shape of `glom()` the theorems are about: the documented defaulting, an outer
    `except Exception`, both guards (`args` comparison, fall back to the original)
    around both re-constructions, `raise err` decided by identity, a `__copy__`
    that keeps the class, `_glom` catching `Exception` only, the documented conversions, the
    `type(…)` call of `wrap` inside its `try` (repair 205945c).
    (Whether `_set_wrapped` / `_finalize` are guarded is NOT demanded — they are not, a known finding —:
    the theorems carry it as a hypothesis on the class, see `Tame`.) -/
def WF (F : Facts) : Bool :=
  F == docFacts F.attrGuarded

/-- `c04_internal_subtypes`: every `raise X(…)` in glom's own modules names either one of
    glom's exception classes — whose MRO then contains GlomError — or a builtin `Exception`
    class that stores its arguments unchanged (so it leaves `glom()` wrapped as a
    GlomError); every raise was resolved except the three that re-raise a stored
    object; the documented multiple bases are present. -/
def internalWF (excTable : List (String × List String)) (ctorRows : List (String × Nat × Int × String))
    (raises : List (String × String × Nat)) (unresolved : List (String × String × String))
    (storeAll : List (String × Bool)) : Bool :=
  let mro := fun c => (excTable.find? (·.1 == c)).map (·.2) |>.getD []
  let glomOwn := ctorRows.map (·.1)
  raises.all (fun r =>
    let c := r.2.1
    if glomOwn.contains c then (mro c).contains "GlomError"
    else (mro c).contains "Exception" && storeAll.contains (c, true)) &&
  glomOwn.all (fun c => (mro c).contains "GlomError") &&
  ctorRows.all (fun r => r.2.2.2 == "all" || r.2.2.2 == "tme") &&
  unresolved.all (fun u =>
    [("core", "glom", "err"), ("matching", "_glom_match", "last_error"),
     ("matching", "glomit", "self._ValidationError")].contains u) &&
  ["GlomError", "KeyError", "IndexError", "AttributeError"].all ((mro "PathAccessError").contains ·) &&
  ["GlomError", "TypeError"].all ((mro "BadSpec").contains ·) &&
  ["GlomError", "MatchError", "TypeError"].all ((mro "TypeMatchError").contains ·) &&
  ["PathAccessError", "CoalesceError", "UnregisteredTarget", "BadSpec", "MatchError", "TypeMatchError",
   "CheckError", "PathAssignError", "PathDeleteError", "FoldError"].all
    (fun c => raises.any (fun r => r.2.1 == c))

end Glom.C04
