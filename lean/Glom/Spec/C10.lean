import Glom.Model.C10
/-
  C10 (and the match rules C09 builds on) — reference semantics, observation
  type, decidable checker, well-formedness of the extracted facts.

  `denote` is the property as a user would state it: every spec *decides* a
  target — it passes with a result, rejects, or faults — compositionally:

    M <op> c           passes (with the target) iff Python's `target <op> c` is true;
                       a comparison that raises is a fault, not a rejection
    M(T…) <op> c       the same on the value the T expression reads; a failing
                       access rejects and stays a PathAccessError
    And(c₁…cₙ)         Python's `all` with short-circuit: passes iff every child
                       passes, result = the last child's result; the first
                       non-passing child's outcome is the outcome
    Or(c₁…cₙ)          Python's `any` with short-circuit: the first passing
                       child's result; nothing after it runs; if every child
                       rejects, the rejection is the last child's
    Not(c)             passes (with the target) iff c rejects
    Switch(cases)      the value spec of the first case whose key passes, on the
                       same target; nothing else runs; no key passes → rejection
    default=d          a rejection becomes `arg_val(d)` (And, Or, Switch with no
                       matching case, Match, Check)
    Check(...)         type (exact) / one_of, equal_to (`in`) / validate / instance_of

  and the match-mode rules for the leaves (types by isinstance, containers
  recursively, callables by truthiness of their result, everything else by ==).
  No fact table is consulted here: who rejected is recorded as an `Origin`
  (a match rule / a type rule / a T access / Check), and the observation must
  carry the exception class the property promises for that origin.
-/
namespace Glom.C10
open Glom Glom.MV

inductive Origin where
  | comb        -- a rule of M / And / Or / Not / Switch / Match: MatchError
  | typ         -- a type rule of Match: TypeMatchError (also a TypeError)
  | access      -- a failing T access: PathAccessError
  | check       -- Check: CheckError
  deriving Repr, DecidableEq

inductive Verdict where
  | pass (v : V)
  | reject (o : Origin)
  | fault (cls : String)         -- a comparison / constructor raised: not a rejection
  deriving Repr, DecidableEq

abbrev D := Verdict × Log

def vpass (v : V) : D := (.pass v, [])
def vreject (o : Origin) : D := (.reject o, [])
def vcond (b : Bool) (t : V) : D := if b then vpass t else vreject .comb

/-- read a T expression, then continue -/
def vaccess (e : TExpr) (t : V) (k : V → D) : D :=
  match tGet e t with
  | some v => k v
  | none => vreject .access

/-- the items of a list / tuple argument, left to right; `none`: a T access failed -/
def ofItems : List ArgItem → V → Option (List V)
  | [], _ => some []
  | .const v :: r, t => (ofItems r t).map (v :: ·)
  | .t e :: r, t => (tGet e t).bind (fun v => (ofItems r t).map (v :: ·))

def ofArg (a : Arg) (t : V) : Verdict :=
  match a with
  | .const v => .pass v
  | .t e => match tGet e t with | some v => .pass v | none => .reject .access
  | .val v => .pass v
  | .seq tup items =>
    match ofItems items t with
    | some vs => .pass (if tup then V.tuple vs else V.list vs)
    | none => .reject .access

/-- `default=`: a rejection (never a fault) is replaced by the default's value -/
def withDefault (dflt : Option Arg) (t : V) (d : D) : D :=
  match d.1, dflt with
  | .reject _, some a => (ofArg a t, d.2)
  | _, _ => d

def sideRef (s : Side) (t : V) (k : V → D) : D :=
  match s with
  | .m => k t
  | .const v => k v
  | .sub e => vaccess e t k

def msideRef (s : MSide) (t : V) (k : V → D) : D :=
  match s with
  | .m => k t
  | .sub e => vaccess e t k

/-! ### Check, declaratively: a list of conditions on the subject, in the order
    type, one_of/equal_to, validators, instance_of -/

inductive Cond where
  | holds                    -- the condition is met
  | fails                    -- not met (a validator that returned False, or that raised, included)
  deriving Repr, DecidableEq

/-- a validator fails the check when it returns `False` or raises -/
def validatorCond (f : Fn) (x : V) : Cond :=
  match predApply f.2 x with
  | .ret (.bool false) => .fails
  | .ret _ => .holds
  | .raise _ => .fails

/-- the conditions of a Check on subject `x`, each with the callable it runs -/
def checkConds (ct : ClassTable) (o : CheckObj) (x : V) : List (Cond × Log) :=
  (if o.types.isEmpty then [] else [(if o.types.contains x.cls then Cond.holds else .fails, [])]) ++
  (if o.vals.isEmpty then [] else [(if pyIn x o.vals then Cond.holds else .fails, [])]) ++
  o.validators.map (fun f => (validatorCond f x, fnLog f)) ++
  (if o.instanceOf.isEmpty then [] else
    [(if o.instanceOf.any (fun c => isInst ct x c) then Cond.holds else .fails, [])])

/-- every condition given to the Check is met by subject `x` -/
def allHold (ct : ClassTable) (o : CheckObj) (x : V) : Bool :=
  (o.types.isEmpty || o.types.contains x.cls) &&
  (o.vals.isEmpty || pyIn x o.vals) &&
  o.validators.all (fun f => validatorCond f x == .holds) &&
  (o.instanceOf.isEmpty || o.instanceOf.any (fun c => isInst ct x c))

/-- with a default: the first unmet condition — whichever kind — ends the check with the default,
    evaluated (`arg_val`) against the subject; nothing after it runs -/
def checkWithDefault (d : Arg) (x t0 : V) : List (Cond × Log) → D
  | [] => vpass t0
  | (c, l) :: rest =>
    match c with
    | .holds => let r := checkWithDefault d x t0 rest; (r.1, l ++ r.2)
    | .fails => (ofArg d x, l)

/-- without a default every condition is evaluated; any unmet one → CheckError -/
def checkNoDefault (t0 : V) (cs : List (Cond × Log)) : D :=
  (if cs.all (fun c => c.1 == Cond.holds) then .pass t0 else .reject .check, cs.flatMap (·.2))

/-! #### what `Check(spec, **kw)` is, from the documentation of its arguments — written
   independently of the model's `checkInit` (which transcribes `Check.__init__` statement by
   statement); `checkObjRef_eq` proves that the two agree -/

def omList {α} : Option (OneOrMany α) → List α
  | some (.one a) => [a]
  | some (.many l) => l
  | none => []

def omEmpty {α} : Option (OneOrMany α) → Bool
  | some (.many []) => true
  | _ => false

/-- the argument errors, in the order the arguments are examined: `instance_of` / `type` given
    as an empty sequence (ValueError), `equal_to` together with `one_of` (TypeError), an empty
    `one_of` (ValueError) -/
def checkArgErrors (a : CheckArgs) : List (Bool × String) :=
  [(omEmpty a.instanceOf, "ValueError"), (omEmpty a.type_, "ValueError"),
   (a.equalTo.isSome && a.oneOf.isSome, "TypeError"),
   ((match a.oneOf with | some [] => true | _ => false), "ValueError")]

/-- the Check the arguments describe: `type` / `instance_of` a type or a sequence of types,
    `equal_to=v` the one-element `one_of`, `validate` a callable or a sequence of callables —
    and the plain truthiness test exactly when no condition at all was given -/
def checkObjRef (a : CheckArgs) : Except String CheckObj :=
  match (checkArgErrors a).find? (·.1) with
  | some e => .error e.2
  | none => .ok
    { spec := a.spec
      types := omList a.type_
      vals := (match a.equalTo with | some v => [v] | none => a.oneOf.getD [])
      validators :=
        (match a.validate with
         | some v => v.toList
         | none =>
           if a.type_.isNone && a.instanceOf.isNone && a.equalTo.isNone && a.oneOf.isNone then [builtinTruthy]
           else [])
      instanceOf := omList a.instanceOf
      default := a.default }

def checkRef (ct : ClassTable) (a : CheckArgs) (t0 : V) : D :=
  match checkObjRef a with
  | .error e => (.fault e, [])
  | .ok o =>
    let go := fun (x : V) =>
      match o.default with
      | some d => checkWithDefault d x t0 (checkConds ct o x)
      | none => checkNoDefault t0 (checkConds ct o x)
    match o.spec with
    | none => go t0
    | some e => vaccess e t0 go

/-! ### sequencing helpers for the container rules (plain recursion over the target) -/

/-- every item must pass `f`; results collected in order -/
def allItems (f : V → D) : List V → (Except Verdict (List V)) × Log
  | [] => (.ok [], [])
  | x :: xs =>
    let r := f x
    match r.1 with
    | .pass v =>
      let r2 := allItems f xs
      (r2.1.map (v :: ·), r.2 ++ r2.2)
    | other => (.error other, r.2)

def finish (mk : List V → Verdict) (r : (Except Verdict (List V)) × Log) : D :=
  match r.1 with
  | .ok vs => (mk vs, r.2)
  | .error v => (v, r.2)

def mkSetRef (frozen : Bool) (xs : List V) : Verdict :=
  if xs.all V.hashable then .pass (if frozen then .fset (dedupEq [] xs) else .set (dedupEq [] xs))
  else .fault "TypeError"

/- equality keys ("matched via ==") are required unless Optional -/
mutual
def isEqKey : Spec → Bool
  | .lit _ => true
  | .tuple ps => isEqKeyL ps
  | .fset ps => isEqKeyL ps
  | _ => false
def isEqKeyL : List Spec → Bool
  | [] => true
  | p :: ps => isEqKey p && isEqKeyL ps
end

def requiredRef : List (KeyKind × Spec × Spec) → Nat → List Nat
  | [], _ => []
  | (k, ks, _) :: es, i =>
    (match k with
     | .plain => if isEqKey ks then [i] else []
     | .opt _ => []
     | .req => [i]) ++ requiredRef es (i + 1)

inductive KeyHit where
  | hit (idx : Nat) (k v : V)
  | noKey
  | stop (v : Verdict)
  deriving Repr, DecidableEq

/-- every target entry must be claimed by a spec key (the first one, in spec
    order, that its key matches) and its value must match that key's pattern -/
def dictRef (find : V → V → KeyHit × Log) :
    List (V × V) → List (V × V) → List Nat → (Except Verdict (List (V × V) × List Nat)) × Log
  | [], result, seen => (.ok (result, seen), [])
  | (k, v) :: rest, result, seen =>
    let r := find k v
    match r.1 with
    | .hit i k' v' =>
      let r2 := dictRef find rest (dictSet result k' v') (i :: seen)
      (r2.1, r.2 ++ r2.2)
    | .noKey => (.error (.reject .comb), r.2)
    | .stop x => (.error x, r.2)

/-- Optional defaults for the keys the result does not have -/
def defaultsRef (target : V) : List (V × Arg) → List (V × V) → Except Verdict (List (V × V))
  | [], result => .ok result
  | (k, d) :: ds, result =>
    if dictHas result k then defaultsRef target ds result
    else match ofArg d target with
      | .pass v => defaultsRef target ds (dictSet result k v)
      | other => .error other

/-! ### the denotation -/

mutual
def denote (ct : ClassTable) : Spec → V → D
  | .t e, t => vaccess e t vpass
  | .val v, _ => vpass v
  | .mtype, t => vcond (truthy t) t
  | .msub e, t => vaccess e t (fun m => vcond (truthy m) t)
  | .mexpr l op r, t =>
    msideRef l t (fun lv => sideRef r t (fun rv =>
      match pyCmp op lv rv with
      | some b => vcond b t
      | none => (.fault "TypeError", [])))
  | .and cs d, t => withDefault d t (denAll ct cs t t)
  | .or cs d, t => withDefault d t (denAny ct cs t)
  | .not c, t =>
    let r := denote ct c t
    (match r.1 with
     | .pass _ => (.reject .comb, r.2)
     | .reject _ => (.pass t, r.2)
     | .fault c => (.fault c, r.2))
  | .switch cases d, t => denCases ct cases d t
  | .check a, t => checkRef ct a t
  | .regex items f, t =>
    (match t with
     | .str s => vcond (reMatches items f s) t
     | _ => vreject .comb)
  | .matchS s d, t => withDefault d t (denote ct s t)
  | .ty n, t => if isInst ct t n then vpass t else vreject .typ
  | .lit v, t => vcond (pyEq t v) t
  | .pred id fn, t =>
    (match predApply fn t with
     | .ret v => if truthy v then (.pass t, [id]) else (.reject .comb, [id])
     | .raise _ => (.reject .comb, [id]))
  | .list alts, t =>
    (match t.unsub with
     | .list items => finish (fun vs => .pass (.list vs)) (allItems (denAlt ct alts) items)
     | _ => vreject .typ)
  | .set alts, t =>
    (match t.unsub with
     | .set items => finish (mkSetRef false) (allItems (denAlt ct alts) items)
     | _ => vreject .typ)
  | .fset alts, t =>
    (match t.unsub with
     | .fset items => finish (mkSetRef true) (allItems (denAlt ct alts) items)
     | _ => vreject .typ)
  | .tuple ps, t =>
    (match t.unsub with
     | .tuple items =>
       if items.length != ps.length then vreject .comb
       else finish (fun vs => .pass (.tuple vs)) (denZip ct ps items)
     | _ => vreject .typ)
  | .dict es, t =>
    (match t.unsub with
     | .dict items =>
       let r := dictRef (denKey ct es 0) items [] []
       (match r.1 with
        | .error v => (v, r.2)
        | .ok (result, seen) =>
          match defaultsRef t (dictDefaults es) result with
          | .error v => (v, r.2)
          | .ok result' =>
            if (requiredRef es 0).all (fun i => seen.contains i) then (.pass (.dict result'), r.2)
            else (.reject .comb, r.2))
     | _ => vreject .typ)

/-- `all`, left to right, keeping the last result -/
def denAll (ct : ClassTable) : List Spec → V → V → D
  | [], _, last => vpass last
  | c :: cs, t, _ =>
    let r := denote ct c t
    match r.1 with
    | .pass v => let r2 := denAll ct cs t v; (r2.1, r.2 ++ r2.2)
    | _ => r

/-- `any`, left to right: the first passing child; the last rejection otherwise -/
def denAny (ct : ClassTable) : List Spec → V → D
  | [], _ => vreject .comb
  | [c], t => denote ct c t
  | c :: c' :: cs, t =>
    let r := denote ct c t
    match r.1 with
    | .reject _ => let r2 := denAny ct (c' :: cs) t; (r2.1, r.2 ++ r2.2)
    | _ => r

def denCases (ct : ClassTable) : List (Spec × Spec) → Option Arg → V → D
  | [], d, t => withDefault d t (vreject .comb)
  | (k, v) :: rest, d, t =>
    let r := denote ct k t
    match r.1 with
    | .pass _ => let r2 := denote ct v t; (r2.1, r.2 ++ r2.2)
    | .reject _ => let r2 := denCases ct rest d t; (r2.1, r.2 ++ r2.2)
    | .fault c => (.fault c, r.2)

/-- an item against the alternatives: the first that passes -/
def denAlt (ct : ClassTable) : List Spec → V → D
  | [], _ => vreject .comb
  | [c], x => denote ct c x
  | c :: c' :: cs, x =>
    let r := denote ct c x
    match r.1 with
    | .reject _ => let r2 := denAlt ct (c' :: cs) x; (r2.1, r.2 ++ r2.2)
    | _ => r

def denZip (ct : ClassTable) : List Spec → List V → (Except Verdict (List V)) × Log
  | [], _ => (.ok [], [])
  | _ :: _, [] => (.ok [], [])
  | p :: ps, x :: xs =>
    let r := denote ct p x
    match r.1 with
    | .pass v => let r2 := denZip ct ps xs; (r2.1.map (v :: ·), r.2 ++ r2.2)
    | other => (.error other, r.2)

/-- the first spec key (in spec order) the target key matches claims the entry -/
def denKey (ct : ClassTable) : List (KeyKind × Spec × Spec) → Nat → V → V → KeyHit × Log
  | [], _, _, _ => (.noKey, [])
  | (kind, ks, vs) :: es, i, key, val =>
    let kr : D :=
      match optKey kind ks with
      | some k => vcond (pyEq key k) key
      | none => denote ct ks key
    match kr.1 with
    | .pass k' =>
      let vr := denote ct vs val
      (match vr.1 with
       | .pass v' => (.hit i k' v', kr.2 ++ vr.2)
       | other => (.stop other, kr.2 ++ vr.2))
    | .reject _ => let r2 := denKey ct es (i + 1) key val; (r2.1, kr.2 ++ r2.2)
    | .fault c => (.stop (.fault c), kr.2)
end

/-! ### the boolean reading (two-valued; for targets on which nothing faults) -/

def passes (ct : ClassTable) (s : Spec) (t : V) : Bool :=
  match (denote ct s t).1 with
  | .pass _ => true
  | _ => false

def faults (ct : ClassTable) (s : Spec) (t : V) : Bool :=
  match (denote ct s t).1 with
  | .fault _ => true
  | _ => false

/-! ### observations -/

inductive Obs where
  | ok (v : V) (log : Log)
  | exc (cls : String) (isGlom isMatch isTypeMatch isTypeError isPAE isCheck : Bool) (log : Log)
  | ctor (cls : String)             -- the spec could not be constructed
  deriving Repr, DecidableEq

def observe (env : Env) (o : Out) : Obs :=
  match o.1 with
  | .ok v => .ok v o.2
  | .error e =>
    let sub := fun b => env.exc.isSub e.cls b
    .exc e.cls (sub "GlomError") (sub "MatchError") (sub "TypeMatchError") (sub "TypeError")
      (sub "PathAccessError") (sub "CheckError") o.2

/-- order-insensitive comparison of results (sets, dict entries), strict on scalar kinds -/
def looseEqF : Nat → V → V → Bool
  | 0, _, _ => false
  | n + 1, a, b =>
    match a, b with
    | .list x, .list y => listAll2 (looseEqF n) x y
    | .tuple x, .tuple y => listAll2 (looseEqF n) x y
    | .set x, .set y | .fset x, .fset y =>
      x.length == y.length && x.all (fun e => y.any (looseEqF n e))
    | .dict x, .dict y =>
      x.length == y.length && x.all (fun e => y.any (fun e' => looseEqF n e.1 e'.1 && looseEqF n e.2 e'.2))
    | a, b => V.beq a b

def valEq (a b : V) : Bool := V.beq a b || looseEqF (a.depth + 1) a b

/-- does an observation carry what the property promises for a verdict? -/
def obsSat (v : Verdict) (log : Log) (obs : Obs) : Bool :=
  match v, obs with
  | .pass a, .ok b l => valEq a b && l == log
  | .reject o, .exc _ g m tm te p c l =>
    g && l == log &&
    (match o with
     | .comb => m
     | .typ => m && tm && te
     | .access => p
     | .check => c)
  | .fault cls, .exc cls' g _ _ _ _ _ l => cls == cls' && !g && l == log
  | _, _ => false

/-- The property on an observation of `glom(target, Match(spec))`: a spec that
    cannot be constructed raises its constructor error; otherwise the outcome is
    the denoted verdict, with the promised exception class, and exactly the
    instrumented callables the boolean reading evaluates ran, in order. -/
def checkC10 (ct : ClassTable) (s : Spec) (t : V) (obs : Obs) : Bool :=
  match ctorErr s with
  | some e => obs == .ctor e.cls
  | none => let d := denote ct s t; obsSat d.1 d.2 obs

/-- class rows of the user classes a case declares (`class K1(K0)`), prepended to the table -/
def worldRows (ct : ClassTable) : List (String × String) → ClassTable
  | [] => ct
  | (k, base) :: r => worldRows ((k, k :: ct.mro base) :: ct) r

/-! ### well-formedness of the extracted facts -/

def expectedBoolOps : OpTable :=
  [("_Bool", "__and__", "And(self,other)"), ("_Bool", "__invert__", "Not(self)"),
   ("_Bool", "__or__", "Or(self,other)"), ("And", "__and__", "default?And(self,other):And(*children,other)"),
   ("Or", "__or__", "default?Or(self,other):Or(*children,other)"), ("_MExpr", "__and__", "And(self,other)"),
   ("_MExpr", "__invert__", "Not(self)"), ("_MExpr", "__or__", "Or(self,other)"),
   ("_MExpr", "__rand__", "And(self,other)"), ("_MType", "__and__", "And(self,other)"),
   ("_MType", "__invert__", "Not(self)"), ("_MType", "__or__", "Or(self,other)"),
   ("_MType", "__rand__", "And(self,other)")]

/-- The property on an operator-built tree: `a & b`, `a | b`, `~a` decide like
    the nested constructor expression `And(a, b)`, `Or(a, b)`, `Not(a)` they
    denote (operands in the order Python dispatches the operator: a reflected
    `x & m` is `m.__rand__(x)`); an operand pair without an overload is a TypeError. -/
def checkOps (ct : ClassTable) (e : OpExpr) (t : V) (obs : Obs) : Bool :=
  match build expectedBoolOps false e with
  | .error x => obs == .ctor x.cls
  | .ok s => checkC10 ct s t obs

/-! ### programs over spec objects (operands that exist — and have been evaluated — already) -/

/-- what one executed statement shows: nothing for a `bind` that succeeded, the constructor /
    operator error for one that raised (the program ends there), the observation of a `glom` call -/
inductive StepObs where
  | bound
  | obs (o : Obs)
  deriving Repr, DecidableEq

/-- the model of a program run: the heap of spec objects grows with every `bind`; an
    evaluation reads the object and leaves the heap as it is -/
def runProg (env : Env) : List Step → List Spec → List StepObs
  | [], _ => []
  | .bind e :: rest, objs =>
    (match bindObj env.boolOps objs e with
     | .error x => [.obs (.ctor x.cls)]
     | .ok s =>
       match ctorErr s with
       | some x => [.obs (.ctor x.cls)]
       | none => .bound :: runProg env rest (objs ++ [s]))
  | .eval i t :: rest, objs =>
    .obs (observe env (eval env (objAt objs i) t)) :: runProg env rest objs

/-- the error `x_n = e` must raise, if any: `e` with the earlier definitions inlined, read as the
    nested constructor expression -/
def bindErr (e : OpExpr) : Option String :=
  match build expectedBoolOps false e with
  | .error x => some x.cls
  | .ok s => (ctorErr s).map (·.cls)

/-- The property on a program: whatever was evaluated before, and whichever other trees an
    object is part of, every `glom(t, Match(x_i))` decides `t` like the constructor-built tree
    that the definition of `x_i` denotes (earlier definitions inlined); a `bind` raises exactly
    when that constructor expression does.  `defs`: the inlined definitions so far. -/
def checkProg (ct : ClassTable) : List Step → List OpExpr → List StepObs → Bool
  | [], _, os => os.isEmpty
  | .bind e :: rest, defs, o :: os =>
    let e' := e.subst (defAt defs)
    (match bindErr e', o with
     | some c, .obs (.ctor c') => c == c' && os.isEmpty
     | none, .bound => checkProg ct rest (defs ++ [e']) os
     | _, _ => false)
  | .eval i t :: rest, defs, .obs o :: os => checkOps ct (defAt defs i) t o && checkProg ct rest defs os
  | _, _, _ => false

/-- every name a statement mentions is bound by an earlier statement -/
def progWF : List Step → Nat → Bool
  | [], _ => true
  | .bind e :: rest, n => e.uses.all (· < n) && progWF rest (n + 1)
  | .eval i _ :: rest, n => decide (i < n) && progWF rest n


/-- Markers compared by identity whose copies may be *other* objects:
    * `T`: `Check.glomit` tests `self.spec is not T` only to skip a `glom(target, T)` that would
      return the target anyway — a copy of `T` takes the other branch with the same result.
    `M` was the second one in the pinned glom (`_MExpr.glomit` resolves its operands with
    `lhs is M` / `rhs is M`; a deep copy of `M > 3` held a second `_MType` instance and let every
    target pass: defect F43, repaired by `_MType.__reduce__`, /repo 8acd988).  Since the repair
    `M` must survive every way of copying like `_MISSING` and `RAISE`. -/
def identityExempt : List String := ["T"]

/-- **copies** (facts): the markers the matching code recognises by identity survive `copy.copy`,
    `copy.deepcopy` and a pickle round trip as the very same object — `_MISSING` ("no default
    given" in Match / And / Or / Switch / Optional) and `RAISE` (Check) in particular; the only
    marker that need not is the one of `identityExempt`. -/
def markersOK (ids : List (String × String × Bool)) : Bool :=
  ["copy", "deepcopy", "pickle"].all (fun how =>
    markerKept ids "_MISSING" how && markerKept ids "RAISE" how && markerKept ids "M" how) &&
  ids.all (fun r => r.2.2 || identityExempt.contains r.1)

def classOK (env : Env) (o : Origin) (c : String) : Bool :=
  env.exc.isSub c "GlomError" &&
  (match o with
   | .comb => env.exc.isSub c "MatchError"
   | .typ => env.exc.isSub c "MatchError" && env.exc.isSub c "TypeMatchError" && env.exc.isSub c "TypeError"
   | .access => env.exc.isSub c "PathAccessError"
   | .check => env.exc.isSub c "CheckError")

/-- the raise sites the model uses, with the origin the property assigns them -/
def siteOrigins : List (String × Nat × Origin) :=
  [("_MType.glomit", 0, .comb), ("_MSubspec.glomit", 0, .comb), ("_MExpr.glomit", 0, .comb),
   ("Not.glomit", 0, .comb), ("Switch.glomit", 0, .comb), ("Optional.glomit", 0, .comb),
   ("Regex.glomit", 0, .comb), ("Regex.glomit", 1, .comb), ("Check.glomit", 1, .check),
   ("_handle_dict", 0, .typ), ("_handle_dict", 1, .comb), ("_handle_dict", 2, .comb),
   ("_glom_match/type", 0, .typ), ("_glom_match/listlike", 0, .typ), ("_glom_match/listlike", 1, .comb),
   ("_glom_match/tuple", 0, .typ), ("_glom_match/tuple", 1, .comb),
   ("_glom_match/callable", 0, .comb), ("_glom_match/callable", 1, .comb), ("_glom_match/ne", 0, .comb)]

/-- the `glomit`s whose every `raise` must be a MatchError (C10 "every rejection
    by these combinators is a MatchError") -/
def combinatorSites : List String :=
  ["_MType.glomit", "_MSubspec.glomit", "_MExpr.glomit", "_Bool.glomit", "And._glomit", "Or._glomit",
   "Not.glomit", "Switch.glomit", "Optional.glomit"]

/-- the except clauses that must catch exactly `GlomError` / `Exception` -/
def catchSites : List (String × Nat × String) :=
  [("_Bool.glomit", 0, "GlomError"), ("Or._glomit", 0, "GlomError"), ("Not.glomit", 0, "GlomError"),
   ("Switch.glomit", 0, "GlomError"), ("Match.glomit", 0, "GlomError"), ("_handle_dict", 0, "GlomError"),
   ("_glom_match/listlike", 0, "GlomError"),
   ("_glom_match/callable", 0, "Exception"), ("Check.glomit", 0, "Exception")]

def allOps : List CmpOp := [.eq, .ne, .gt, .lt, .ge, .le]

def opName : CmpOp → String
  | .eq => "Eq" | .ne => "NotEq" | .gt => "Gt" | .lt => "Lt" | .ge => "GtE" | .le => "LtE"

def WF (env : Env) : Bool :=
  -- every raise the model performs names a class of the promised kind
  siteOrigins.all (fun s => classOK env s.2.2 (raiseAt env s.1 s.2.1).cls) &&
  -- *every* raise written in the combinators' glomit methods is a MatchError (or a re-raise)
  combinatorSites.all (fun site =>
    match env.raises.lookup site with
    | some cs => cs.all (fun c => c == "<reraise>" || env.exc.isSub c "MatchError")
    | none => false) &&
  -- the except clauses catch GlomError (resp. Exception), nothing narrower or wider
  catchSites.all (fun s => (env.catches.lookup s.1).bind (·[s.2.1]?) == some [s.2.2]) &&
  -- the classes the model raises by itself
  classOK env .access pae.cls &&
  ["TypeError", "ValueError", "NameError", "IndexError", "KeyError", "UnboundLocalError",
   "AttributeError", "NotImplementedError"].all
    (fun c => !env.exc.isSub c "GlomError" && env.exc.isSub c "Exception") &&
  env.exc.isSub "GlomError" "Exception" &&
  -- M comparison overloads: dunder → char → operator is the operator the dunder denotes,
  -- and no char is dispatched twice
  ["_MType", "_MSubspec"].all (fun c => allOps.all (fun op =>
    env.mDispatch.lookup (opChar env c op) == some (opName op))) &&
  (env.mDispatch.map (·.1)).Nodup &&
  env.mDispatch.length == 6 &&
  -- & | ~ overloads
  env.boolOps == expectedBoolOps

end Glom.C10
