import Glom.Spec.Lexical
/-
  C07 — reference definitions that are not the interpreter itself.

  ### mutable defaults of `Vars`
  `Vars(l=[])` / `Vars({'l': []})` keep the objects they were built with; `Vars.glomit` makes a
  *shallow* copy (`ScopeVars(base, defaults)`: `dict(base)` + `update(defaults)`).  A later step of
  the same call that mutates such a default in place (`list.append`, `dict.__setitem__` through a
  callable) mutates the spec's own object.  The property says "Vars objects … persist until the
  top-level call returns and never into the next call": the reference (`varsMutRef`) starts every
  call from the default *as written*; the code as it is (`varsMutCode`) starts call `n` from what
  the calls before left.
-/
namespace Glom.Interp

/-- an in-place mutation a callable performs on its first argument, with the target as datum -/
inductive Mut where
  | append | extend | insert0 | setitem | appendInner | clear
  deriving Repr, DecidableEq, Inhabited

def Mut.ofString? : String → Option Mut
  | "append" => some .append | "extend" => some .extend | "insert0" => some .insert0
  | "setitem" => some .setitem | "append_inner" => some .appendInner | "clear" => some .clear
  | _ => Option.none

/-- the value a container has after the mutation (none: the Python call raises) -/
def applyMut (p : Prims) (m : Mut) (c t : V) : Option V :=
  match m, c with
  | .append, .list xs => some (.list (xs ++ [t]))
  | .extend, .list xs => some (.list (xs ++ [t, t]))
  | .insert0, .list xs => some (.list (t :: xs))
  | .clear, .list _ => some (.list [])
  | .clear, .dict o _ => some (.dict o [])
  | .setitem, .dict o es => some (.dict o (dictSet p es (.str "k") t))
  | .appendInner, .dict o es =>
    match es.find? (fun e => p.eq e.1 (.str "inner")) with
    | some (_, .list xs) => some (.dict o (dictSet p es (.str "inner") (.list (xs ++ [t]))))
    | _ => Option.none
  | _, _ => Option.none

def applyMuts (p : Prims) (ms : List Mut) (c t : V) : Option V :=
  ms.foldlM (fun cur m => applyMut p m cur t) c

/-- **reference**: every top-level call starts from the default as written -/
def varsMutRef (p : Prims) (dflt : V) (ms : List Mut) (targets : List V) : List (Option V) :=
  targets.map (fun t => applyMuts p ms dflt t)

/-- **the code as it is**: the default object is shared by all calls of the spec object -/
def varsMutCode (p : Prims) (dflt : V) (ms : List Mut) : List V → List (Option V)
  | [] => []
  | t :: ts =>
    match applyMuts p ms dflt t with
    | some d' => some d' :: varsMutCode p d' ms ts
    | Option.none => Option.none :: varsMutCode p dflt ms ts

/-! ### the checker: static lexical visibility

From the spec tree alone — no evaluation — `expectReads` computes, for every read probe
(`rprobe id (S.name)`: a reader whose outcome the harness records), what the reader must yield by
the scoping rules of the property text:

* a binding made by a step of a tuple (where a tuple is a chain: AUTO mode, outside argument
  position) or Pipe is visible to the LATER steps of that chain and to everything nested in them;
  binders are `S(k=…)`, `A.k`, `Let(k=…)`, and — reading C07-1 — `Spec(…, scope={k: v})`;
* it is invisible to the enclosing spec and to sibling dict values, list elements, Coalesce / And /
  Or branches, call arguments, Fill / Match tuple items;
* a Switch key and a Match-dict key pass their bindings to their own value spec only;
* `Spec(s, scope=…)` overrides for its subtree; the caller's `scope=` mapping is the outermost
  layer; an inner binding shadows an outer one.

`SVal.known v`: the reader yields `v`; `unbound`: it raises PathAccessError; `unknown`: a binding
whose value is not a literal of the spec (`A.k`, `S(k=T)`, `S.globals`) — nothing is demanded.
`checkVis` compares the recorded reads with it. -/

inductive SVal where
  | known (v : V)
  | unbound
  | unknown
  deriving Repr, Inhabited

abbrev SEnv := List (String × SVal)

def SEnv.get (e : SEnv) (k : String) : SVal :=
  match e.find? (·.1 == k) with
  | some (_, v) => v
  | Option.none => .unbound

/-- the value a spec has in argument position when it is a literal of the spec -/
def argLiteral : Spec → SVal
  | .lit v => .known v
  | .str s => .known (.str s)
  | .val v => .known v
  | .fn n k => .known (.fn n k)
  | .ty n => .known (.ty n)
  | _ => .unknown

/-- the bindings a step leaves to the next link of its chain (newest first) -/
def exportsOf : Spec → SEnv
  | .sBind bs => (bs.map (fun b => (b.1, argLiteral b.2))).reverse
  | .aBind k => [(k, .unknown)]
  | .letB bs => (bs.map (fun b => (b.1, match b.2 with | .val v => SVal.known v | _ => SVal.unknown))).reverse
  | .specW _ bindings => (bindings.map (fun b => (b.1, SVal.known b.2))).reverse
  | .reqKey k => exportsOf k
  | _ => []

def optList {α} : Option α → List α
  | some a => [a]
  | Option.none => []

/-- `(probe id, what the wrapped reader must yield)` for every read probe of the spec; `m` = static
    mode, `arg` = argument position (a tuple is a chain only in AUTO mode outside argument position) -/
def expectReads : Nat → Mode → Bool → SEnv → Spec → List (Nat × SVal)
  | 0, _, _, _, _ => []
  | fuel + 1, m, arg, env, s =>
    let ex := expectReads fuel
    -- a chain: each step sees the bindings the earlier steps exported
    let chain (xs : List Spec) : List (Nat × SVal) :=
      (xs.foldl (fun (acc : SEnv × List (Nat × SVal)) x =>
        (exportsOf x ++ acc.1, acc.2 ++ ex m false acc.1 x)) (env, [])).2
    match s with
    | .rprobe id inner =>
      (id, match inner with
           | .sRead name [] => env.get name
           | _ => .unknown) :: ex m false env inner
    | .pipe xs => chain xs
    | .tuple xs => if arg || m != .auto then xs.flatMap (ex m arg env) else chain xs
    | .list xs | .set _ xs => xs.flatMap (ex m arg env)
    | .dict _ es =>
      if !arg && m == .mtch then es.flatMap (fun e => ex m false env e.1 ++ ex m false (exportsOf e.1 ++ env) e.2)
      else es.flatMap (fun e => ex m arg env e.1 ++ ex m arg env e.2)
    | .sBind bs => bs.flatMap (fun b => ex m true env b.2)
    | .letB bs => bs.flatMap (fun b => ex m false env b.2)
    | .specW x bindings => ex m false ((bindings.map (fun b => (b.1, SVal.known b.2))).reverse ++ env) x
    | .coalesce subs d _ _ _ => subs.flatMap (ex m false env) ++ (optList d).flatMap (ex m true env)
    | .call f as kw => ex m true env f ++ ex m true env as ++ ex m true env kw
    | .invoke f _ blocks =>
      ex m false env f ++ blocks.flatMap (fun b => b.2.1.flatMap (ex m false env) ++ b.2.2.flatMap (fun kv => ex m false env kv.2))
    | .ref _ (some x) => ex m false env x
    | .auto x => ex .auto false env x
    | .fill x => ex .fill false env x
    | .mtch x d => ex .mtch false env x ++ (optList d).flatMap (ex .mtch true env)
    | .group x => ex .group false env x
    | .and cs d | .or cs d => cs.flatMap (ex m false env) ++ (optList d).flatMap (ex m true env)
    | .not c => ex m false env c
    | .switch cases d =>
      cases.flatMap (fun e => ex m false env e.1 ++ ex m false (exportsOf e.1 ++ env) e.2) ++
        (optList d).flatMap (ex m true env)
    | .iter x _ | .inspect x _ _ | .reenter _ x | .reqKey x => ex m false env x
    | _ => []

/-- `Required(k)` / `Optional(k)` objects mean something only as keys of a match-mode dict (the model
    evaluates the wrapped key there): everywhere else they are outside the modelled domain -/
def keyWrappersPlacedF : Nat → Mode → Bool → Spec → Bool
  | 0, _, _, _ => true
  | fuel + 1, m, arg, s =>
    let ok := keyWrappersPlacedF fuel
    match s with
    | .reqKey _ | .optKey _ => false
    | .dict _ es =>
      if !arg && m == .mtch then
        es.all (fun e => (match e.1 with
          | .reqKey k => ok m false k
          | .optKey _ => true
          | k => ok m false k) && ok m false e.2)
      else es.all (fun e => ok m arg e.1 && ok m arg e.2)
    | .tuple xs | .list xs | .set _ xs => xs.all (ok m arg)
    | .pipe xs => xs.all (ok m false)
    | .sBind bs => bs.all (fun b => ok m true b.2)
    | .letB bs => bs.all (fun b => ok m false b.2)
    | .specW x _ | .not x | .iter x _ | .inspect x _ _ | .rprobe _ x | .reenter _ x => ok m false x
    | .coalesce subs d _ _ _ => subs.all (ok m false) && (optList d).all (ok m true)
    | .call f as kw => ok m true f && ok m true as && ok m true kw
    | .invoke f _ blocks => ok m false f && blocks.all (fun b => b.2.1.all (ok m false) && b.2.2.all (fun kv => ok m false kv.2))
    | .ref _ (some x) => ok m false x
    | .auto x => ok .auto false x
    | .fill x => ok .fill false x
    | .mtch x d => ok .mtch false x && (optList d).all (ok .mtch true)
    | .group x => ok .group false x
    | .and cs d | .or cs d => cs.all (ok m false) && (optList d).all (ok m true)
    | .switch cases d => cases.all (fun e => ok m false e.1 && ok m false e.2) && (optList d).all (ok m true)
    | _ => true

/-- the root environment of a call: the caller's mapping (later entries win); `globals` is glom's -/
def rootSEnv (callerScope : List (String × V)) : SEnv :=
  (callerScope.map (fun kv => (kv.1, SVal.known kv.2))).reverse ++ [("globals", SVal.unknown)]

def readsOf (evs : List Ev) : List (Nat × Except Err V) :=
  evs.filterMap (fun e => match e with | .read id r => some (id, r) | _ => Option.none)

/-- does a recorded read agree with what the scoping rules demand? -/
def readOK (eqV : V → V → Bool) (want : SVal) (got : Except Err V) : Bool :=
  match want, got with
  | .known v, .ok w => eqV v w
  | .known _, .error _ => false
  | .unbound, .error e => e.cls == "PathAccessError"
  | .unbound, .ok _ => false
  | .unknown, _ => true

/-- **C07 checker**: every recorded read is the one the static scoping rules demand -/
def checkVis (eqV : V → V → Bool) (fuel : Nat) (spec : Spec) (callerScope : List (String × V))
    (reads : List (Nat × Except Err V)) : Bool :=
  let want := expectReads fuel .auto false (rootSEnv callerScope) spec
  reads.all (fun r => want.any (fun w => w.1 == r.1 && readOK eqV w.2 r.2))

/-- the visibility fragment: chains, dicts with literal keys, lists, Coalesce without default, Switch
    without default, the binders `S(k=<literal>)`, `A.k`, `Spec(…, scope=…)`, the leaves `Val`, `T`
    and read probes around `S.name`; `false` when the fuel does not reach the leaves -/
def vfragF : Nat → Spec → Bool
  | 0, _ => false
  | fuel + 1, s =>
    let f := vfragF fuel
    match s with
    | .rprobe _ (.sRead _ []) => decide (1 ≤ fuel)
    | .val _ | .t _ | .aBind _ => true
    | .tuple xs | .pipe xs => xs.all f
    | .dict _ es => es.all (fun e => e.1.isComputedKey == false && (reify e.1).isSome && f e.2)
    | .list (sub :: _) => f sub
    | .sBind bs => decide (1 ≤ fuel) && bs.all (fun b => match argLiteral b.2 with | .known _ => true | _ => false)
    | .specW x _ => f x
    | .coalesce subs Option.none Option.none .never _ => subs.all f
    | .switch cases Option.none => cases.all (fun e => f e.1 && f e.2)
    | _ => false


end Glom.Interp
