import Glom.Spec.C17
import Glom.Model.C17Events
/-
  C17 — the reference for a stream that is pulled on after exceptions: stages as functions on EVENT
  streams (items and exceptions, in the order a consumer who catches and continues sees them).
  `map(f, it)`, `filter(p, it)`, `takewhile(p, it)`, `dropwhile(p, it)` — the objects the itertools
  composition is made of — pass an exception on and go on with the next element; generators
  and `islice` / `chain` end with the first exception that reaches them.
-/
namespace Glom.C17

/-- a stage on a complete event stream (the input ends normally after its last event) -/
def evFold (c : Core) : List Evt → List Evt
  | [] => c.flush.map .item
  | .err e :: r => if c.kind.survives then .err e :: evFold c r else [.err e]
  | .item x :: r =>
    match c.push x with
    | (o, c', .go) => o.map .item ++ evFold c' r
    | (o, _, .stop) => o.map .item
    | (o, c', .fail e) => o.map .item ++ (if c.kind.survives then .err e :: evFold c' r else [.err e])

def evStage (k : Kind) (evs : List Evt) : List Evt :=
  if k.initStopped then k.initOut.map .item ++ (match k.initErr with | some e => [.err e] | none => [])
  else evFold (Core.init k) evs

def evPipe : List Kind → List Evt → List Evt
  | [], evs => evs
  | k :: ks, evs => evPipe ks (evStage k evs)

/-- what the source gives: its items, then the exception it ends with (if it does) -/
def srcEvents (xs : List V) (tail : Option Err) : List Evt :=
  xs.map .item ++ (match tail with | some e => [.err e] | none => [])

def Evt.beq : Evt → Evt → Bool
  | .item a, .item b => a == b
  | .err a, .err b => a == b
  | _, _ => false
instance : BEq Evt := ⟨Evt.beq⟩

/-- **the property on a consumer that goes on after exceptions**: the events it sees are the first events of
    the composition's event stream, and it sees StopIteration exactly when that stream is used up -/
def checkEvents (kinds : List Kind) (xs : List V) (tail : Option Err) (obs : List (Option Evt)) : Bool :=
  let full := evPipe kinds (srcEvents xs tail)
  let seen := obs.filterMap id
  seen == full.take seen.length &&
  (match obs.getLast? with
   | some none => seen.length == full.length && obs.length == seen.length + 1   -- StopIteration: once, at the end
   | _ => obs.length == seen.length)

end Glom.C17
