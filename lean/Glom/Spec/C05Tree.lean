import Glom.Spec.C05
/-
  C05 — the abstract *evaluation tree* of a failing glom call, and what the property says about
  it.  (definitions only; the theorems are in Glom/Props/C05Spine.lean)

  A call node has a spec/target (`Info`), a sequence of sub-evaluations (`Kids`) and an outcome
  (`none` = returned, `some e` = raised the error with identity `e`).  Each sub-evaluation is
  made either with the node's own scope (`scope[glom](t, s, scope)`: dict values, list items,
  Coalesce / Or / And / Not children, Switch keys, Invoke arguments, defaults …: `chained =
  false`) or with `chain_child(scope)` (`chained = true`: tuple / Pipe steps, the value of a
  Switch case or of a Match dict entry after its key).  As in glom/core.py, `chain_child`
  returns the scope unchanged when the node has not evaluated anything yet (a first chained step
  has the node's own frame as parent); otherwise the chained step is evaluated in the frame of
  the PREVIOUS sub-evaluation, which is flagged NO_PYFRAME and whose CHILD_ERRORS are emptied.

  `Kids` is the sibling list in first-child / next-sibling form, so that it is one (not nested)
  inductive type: `cons chained info kids res rest` is the sub-evaluation `(info, kids, res)`
  followed by the later sub-evaluations `rest` of the same node.
-/
namespace Glom.C05

deriving instance DecidableEq for Ev
deriving instance DecidableEq for Frame
deriving instance DecidableEq for Row

structure Info where
  spec : Str
  target : Str
  tid : Nat
  tlen : Option Nat
  slen : Option Nat
  deriving Repr, DecidableEq, Inhabited

inductive Kids where
  | nil
  | cons (chained : Bool) (info : Info) (kids : Kids) (res : Option Nat) (rest : Kids)
  deriving Repr, DecidableEq, Inhabited

/-- a failing glom call: the root call raises `err` -/
structure Tree where
  info : Info
  kids : Kids
  err : Nat
  deriving Repr, DecidableEq, Inhabited

namespace Kids

/-- number of calls -/
def size : Kids → Nat
  | nil => 0
  | cons _ _ ks _ rest => 1 + ks.size + rest.size

/-- is the first sub-evaluation made through `chain_child`? -/
def startsChained : Kids → Bool
  | nil => false
  | cons ch _ _ _ _ => ch

end Kids

def exitEv : Option Nat → Ev
  | none => .exitOk
  | some e => .exitErr e

/-- The recorded events of the sub-evaluations `K` of the call whose frame is `p`; `prev` is the
    frame of the previous sub-evaluation of the same call (`none`: there is none yet), `n` the
    number of the next frame (frames are numbered in entry order, as in `callsOf`). -/
def evKids (p : Nat) (prev : Option Nat) (n : Nat) : Kids → List Ev
  | .nil => []
  | .cons ch i ks res rest =>
    .enter (if ch then prev.getD p else p) (ch && prev.isSome) i.spec i.target i.tid i.tlen i.slen ::
      (evKids n none (n + 1) ks ++ exitEv res :: evKids p (some n) (n + 1 + ks.size) rest)

/-- the root call as the only sub-evaluation of glom()'s root scope (frame 0) -/
def Tree.root (t : Tree) : Kids := .cons false t.info t.kids (some t.err) .nil

def events (t : Tree) : List Ev := evKids 0 none 1 t.root

/-! ### well-formedness -/

/-- every error identity that is the outcome of some call of `K` -/
def errsOf : Kids → List Nat
  | .nil => []
  | .cons _ _ ks res rest => res.toList ++ errsOf ks ++ errsOf rest

/-- outcome of the last sub-evaluation -/
def lastRes : Kids → Option Nat
  | .nil => none
  | .cons _ _ _ res .nil => res
  | .cons _ _ _ _ rest => lastRes rest

/-- **a chained step continues from a sub-evaluation that returned** (`chain_child` hands the
    previous step's frame on; in glom's own specs a step / a key that raised is never continued
    from), and a first sub-evaluation is written as not chained (it has the node's own frame as
    parent either way). -/
def chainOk (first : Bool) : Kids → Bool
  | .nil => true
  | .cons ch _ ks res rest =>
    !(first && ch) && chainOk true ks && (!rest.startsChained || res.isNone) && chainOk false rest

/-- **error identities identify raise events**: the error `e` is raised at one place only and
    reaches the call `(ks, res = some e)` by propagating through last sub-evaluations; nothing else
    in the tree has the outcome `e`.  `onePath e K` is this statement for the call whose
    sub-evaluations are `K` and whose outcome is `e`. -/
def onePath (e : Nat) : Kids → Bool
  | .nil => true
  | .cons _ _ ks res .nil => if res = some e then onePath e ks else !(errsOf ks).contains e
  | .cons _ _ ks res rest => !(res.toList ++ errsOf ks).contains e && onePath e rest

def Tree.wf (t : Tree) : Bool :=
  chainOk true t.root && onePath t.err t.kids

/-! ### the frame store as a function of the tree (the invariant proved in Props/C05Spine)

  The sub-evaluations of a call fall into *chain segments*: a segment starts with a sub-evaluation
  made with the call's own frame as parent (its *head*) and continues with the chained steps that
  follow it.  Under `chainOk` only the last step of a segment can have raised. -/

/-- outcome of the last step of the chain segment that the first sub-evaluation of `K` belongs to
    (looking forward from it) -/
def segRes : Kids → Option Nat
  | .nil => none
  | .cons _ _ _ res rest => if rest.startsChained then segRes rest else res

/-- the frame of the last sub-evaluation that was made with the call's own frame as parent (the
    head of the last chain segment): the call's LAST_CHILD_SCOPE -/
def lastHead (prev : Option Nat) (n : Nat) : Kids → Option Nat
  | .nil => none
  | .cons ch _ ks _ rest =>
    (lastHead (some n) (n + 1 + ks.size) rest).or (if ch && prev.isSome then none else some n)

/-- the heads of the chain segments in which a step raised, in evaluation order (`h`: the head of
    the segment `prev` belongs to): the call's CHILD_ERRORS -/
def failedHeads (h : Nat) (prev : Option Nat) (n : Nat) : Kids → List Nat
  | .nil => []
  | .cons ch _ ks res rest =>
    (if res.isSome then [if ch && prev.isSome then h else n] else []) ++
      failedHeads (if ch && prev.isSome then h else n) (some n) (n + 1 + ks.size) rest

/-- the frame of call `j` after the whole evaluation -/
def frameAt (p : Nat) (prev : Option Nat) (n : Nat) : Kids → Nat → Option Frame
  | .nil, _ => none
  | .cons ch i ks res rest, j =>
    if j = n then
      some (if rest.startsChained then
          -- handed on by `chain_child`: flagged, re-wired to the next step, earlier branches forgiven;
          -- an error leaving a later step of the chain is recorded here too (the NO_PYFRAME walk)
          { spec := i.spec, target := i.target, tid := i.tid, tlen := i.tlen, slen := i.slen,
            up := if ch then prev.getD p else p,
            lastChild := some (n + 1 + ks.size),
            childErrors := if (segRes rest).isSome then [n + 1 + ks.size] else [],
            curError := segRes rest, noPy := true }
        else
          { spec := i.spec, target := i.target, tid := i.tid, tlen := i.tlen, slen := i.slen,
            up := if ch then prev.getD p else p,
            lastChild := lastHead none (n + 1) ks,
            childErrors := failedHeads n none (n + 1) ks,
            curError := res, noPy := false })
    else if j < n + 1 + ks.size then frameAt n none (n + 1) ks j
    else frameAt p (some n) (n + 1 + ks.size) rest j

/-- the rows the loop of `_unpack_stack` produces when it is started at the call with frame `j`
    of `K` (`n`: the frame of the first call of `K`): it follows LAST_CHILD_SCOPE — through the
    later steps of the chain the call belongs to, then into the head of the last chain segment of
    the chain's last step — until a call without sub-evaluations, or a call that has several failed
    segments the last of which is among them (then the branches are shown instead), or a call whose
    LAST_CHILD_SCOPE has no CUR_ERROR (the last child returned normally: the chain it starts did not
    raise; nothing below it is part of the error) -/
def rowsAt (n : Nat) : Kids → Nat → List Row
  | .nil, _ => []
  | .cons _ _ ks res rest, j =>
    if j = n then
      if rest.startsChained then
        ⟨n, segRes rest, []⟩ ::
          (if (segRes rest).isNone then [] else rowsAt (n + 1 + ks.size) rest (n + 1 + ks.size))
      else
        match lastHead none (n + 1) ks with
        | none => [⟨n, res, []⟩]
        | some h =>
          ⟨n, res, if failedHeads n none (n + 1) ks == [h] then [] else failedHeads n none (n + 1) ks⟩ ::
            (if (if failedHeads n none (n + 1) ks == [h] then [] else failedHeads n none (n + 1) ks).contains h
              then [] else if (lastRes ks).isNone then [] else rowsAt (n + 1) ks h)
    else if j < n + 1 + ks.size then rowsAt (n + 1) ks j
    else rowsAt (n + 1 + ks.size) rest j

/-- the calls of `K` as `callsOf` lists them (`outer`: the dynamically enclosing call) -/
def callsK (outer : Option Nat) (n : Nat) : Kids → List CallInfo
  | .nil => []
  | .cons _ i ks res rest =>
    { idx := n, spec := i.spec, target := i.target, tlen := i.tlen, slen := i.slen, outer := outer, result := res } ::
      (callsK (some n) (n + 1) ks ++ callsK outer (n + 1 + ks.size) rest)

/-- the frames of the calls of `K` and below that have the outcome `e`, when `K` are the
    sub-evaluations of a call with outcome `e` (under `onePath`: the last one, if its outcome is
    `e`, and so on below it) -/
def spineK (e : Nat) (n : Nat) : Kids → List Nat
  | .nil => []
  | .cons _ _ ks res .nil => if res = some e then n :: spineK e (n + 1) ks else []
  | .cons _ _ ks _ rest => spineK e (n + 1 + ks.size) rest

/-- outcome of the last step of the chain segment that the sub-evaluation with frame `j` of the
    sibling list `K` belongs to (`none` also when `j` is not one of these siblings) -/
def segResAt (n : Nat) : Kids → Nat → Option Nat
  | .nil, _ => none
  | .cons ch i ks res rest, j =>
    if j = n then segRes (.cons ch i ks res rest)
    else if j < n + 1 + ks.size then none
    else segResAt (n + 1 + ks.size) rest j

/-- `j` is a frame from which the path of the error `e` can be followed: a step of the chain
    segment that ends in a call with outcome `e`, the calls enclosing it having outcome `e` too
    (`K`: sub-evaluations of a call with outcome `e`).  The root call is one (`startOK e 1 root 1`);
    so is the last branch shown at a row where `_unpack_stack` stops its linear descent. -/
def startOK (e : Nat) (n : Nat) : Kids → Nat → Bool
  | .nil, _ => false
  | .cons ch i ks res rest, j =>
    if j = n then segRes (.cons ch i ks res rest) == some e
    else if j < n + 1 + ks.size then (rest.size == 0 && res == some e && startOK e (n + 1) ks j)
    else startOK e (n + 1 + ks.size) rest j

/-- the calls with outcome `e` at and below the sibling list that `j` belongs to -/
def spineAt (e : Nat) (n : Nat) : Kids → Nat → List Nat
  | .nil, _ => []
  | .cons ch i ks res rest, j =>
    if j = n then spineK e n (.cons ch i ks res rest)
    else if j < n + 1 + ks.size then spineAt e (n + 1) ks j
    else spineAt e (n + 1 + ks.size) rest j

/-- the call with frame `j` was continued by a chained step (its frame was handed on by
    `chain_child`: a completed earlier step of a chain) -/
def isStep (n : Nat) : Kids → Nat → Bool
  | .nil, _ => false
  | .cons _ _ ks _ rest, j =>
    if j = n then rest.startsChained
    else if j < n + 1 + ks.size then isStep (n + 1) ks j
    else isStep (n + 1 + ks.size) rest j

/-- what `_unpack_stack` shows as the branches of the frame `j`: its CHILD_ERRORS, unless that is
    just its LAST_CHILD_SCOPE (one failed branch counts as linear: the rows continue into it) -/
def branchesOf (fs : Array Frame) (j : Nat) : List Nat :=
  match fs[j]? with
  | some f =>
    (match f.lastChild with
     | some c => if f.childErrors == [c] then [] else f.childErrors
     | none => [])
  | none => []

/-- the sub-evaluations of `K` that raised -/
def failedKids (n : Nat) : Kids → List Nat
  | .nil => []
  | .cons _ _ ks res rest => (if res.isSome then [n] else []) ++ failedKids (n + 1 + ks.size) rest

/-- no sub-evaluation of `K` was made through `chain_child` (Coalesce, Or, And, dict, list …) -/
def noChain : Kids → Bool
  | .nil => true
  | .cons ch _ _ _ rest => !ch && noChain rest

/-! ### reading a recorded evaluation back as a tree -/

/-- parse the sub-evaluations of the call with frame `p`; stops (without consuming) at the exit
    event of that call.  `none`: the events are not those of any tree. -/
def parseKids : Nat → Nat → Option Nat → Nat → List Ev → Option (Kids × Nat × List Ev)
  | 0, _, _, _, _ => none
  | _ + 1, _, _, n, [] => some (.nil, n, [])
  | _ + 1, _, _, n, .exitOk :: r => some (.nil, n, .exitOk :: r)
  | _ + 1, _, _, n, .exitErr e :: r => some (.nil, n, .exitErr e :: r)
  | fuel + 1, p, prev, n, .enter par fl spec target tid tlen slen :: r =>
    let chained? : Option Bool :=
      if par == p && !fl then some false
      else if fl && prev == some par then some true
      else none
    match chained? with
    | none => none
    | some ch =>
      match parseKids fuel n none (n + 1) r with
      | none => none
      | some (ks, n', r') =>
        match r' with
        | [] => none
        | .enter .. :: _ => none
        | ex :: r'' =>
          let res := match ex with | .exitErr e => some e | _ => none
          match parseKids fuel p (some n) n' r'' with
          | none => none
          | some (rest, n'', r''') => some (.cons ch ⟨spec, target, tid, tlen, slen⟩ ks res rest, n'', r''')

def treeOf (evs : List Ev) : Option Tree :=
  match parseKids (evs.length + 1) 0 none 1 evs with
  | some (.cons false info ks (some e) .nil, _, []) => some ⟨info, ks, e⟩
  | _ => none

/-- the driver's test that a recorded evaluation is in the domain of the theorems: it is the
    event list of a well-formed tree -/
def inDomain (evs : List Ev) : Bool :=
  match treeOf evs with
  | some t => events t == evs && t.wf
  | none => false

end Glom.C05
