import Glom.Model.C11Re
import Glom.Spec.C01
/-
  C11 — reference semantics ("the corresponding plain Python nested assignment"),
  the observation type and the decidable checker.

  Shared with C12 (namespace `Glom.Mut`): the flat list of objects a destination
  path addresses (`matchesOf`: walk the segments; a `*` continues from every child
  and silently drops the children on which a later segment cannot be accessed).
-/
namespace Glom.Mut
open Glom

/-- what a parent path addresses -/
inductive MatchRes where
  | ok (ds : List Val)                      -- the addressed objects, in order (one, without wildcards)
  | fail (k : Nat) (e : PyExc) (stop : Val) -- segment `k` cannot be accessed on `stop` (no wildcard before it)
  | unreg                                   -- an object on the way has no registered `get`
  | unsupported                             -- `**` and malformed steps: outside this model
  deriving DecidableEq, Repr

/-- apply one access step to every object of the frontier, dropping failures -/
def stepAll (env : MEnv) (h : Heap) (op : String) (arg : Val) : List Val → Option (List Val)
  | [] => some []
  | c :: cs =>
    match C01.refAccess env.t h op c arg with
    | none => none
    | some (.ok v) => (stepAll env h op arg cs).map (v :: ·)
    | some (.error _) => stepAll env h op arg cs

inductive AdvRes where
  | ok (ds : List Val)
  | unreg
  | unsupported
  deriving DecidableEq, Repr

/-- the rest of a path below a wildcard, applied to the whole frontier -/
def advance (env : MEnv) (h : Heap) : List Step → List Val → AdvRes
  | [], fr => .ok fr
  | (op, arg) :: rest, fr =>
    if op == "x" then advance env h rest (fr.flatMap (children env h))
    else if op == "." || op == "[" || op == "P" then
      match stepAll env h op arg fr with
      | some fr' => advance env h rest fr'
      | none => .unreg
    else .unsupported

def matchesOf (env : MEnv) (h : Heap) : List Step → Nat → Val → MatchRes
  | [], _, cur => .ok [cur]
  | (op, arg) :: rest, k, cur =>
    if op == "x" then
      if isScope env h cur then .unsupported else
      match advance env h rest (children env h cur) with
      | .ok ds => .ok ds
      | .unreg => .unreg
      | .unsupported => .unsupported
    else if op == "." || op == "[" || op == "P" then
      match C01.refAccess env.t h op cur arg with
      | some (.ok v) => matchesOf env h rest (k + 1) v
      | some (.error e) => .fail k e cur
      | none => .unreg
    else .unsupported

def hasStar (steps : List Step) : Bool := steps.any (fun s => s.1 == "x" || s.1 == "X")

/-! ### the prescription does not take the registry's word for the builtin types

  "The corresponding plain Python nested item / attribute assignment" is fixed by the *kind* of the
  object, not by what glom's registry happens to hold: a dict is assigned by `d[k] = v`, a list by
  `l[int(k)] = v`, a tuple not at all, any other object by `setattr`.  The prescription is computed
  with these tables (user registrations in front, as the user made them); the model runs on the
  tables read from the implementation's registry.  That the two agree on the unchanged tree is a
  facts obligation (`c11_facts_natural`). -/

def naturalAssignReg : List (String × String) :=
  [("dict", "setitem"), ("list", "_set_sequence_item"), ("tuple", "False"), ("object", "setattr")]

def naturalDeleteReg : List (String × String) :=
  [("dict", "delitem"), ("list", "_del_sequence_item"), ("tuple", "False"), ("object", "delattr")]

/-- the environment of the prescription: `ua` / `ud` are the user's own registrations -/
def MEnv.natural (env : MEnv) (ua ud : List (String × String)) : MEnv :=
  { env with assignReg := ua ++ naturalAssignReg, deleteReg := ud ++ naturalDeleteReg }

/-- on the classes of `ct` the registry `reg` gives the handler `nat` gives -/
def regAgrees (ct : ClassTable) (reg nat : List (String × String)) : Bool :=
  ct.all (fun p => nearestHandler ct reg p.1 == nearestHandler ct nat p.1)

/-! ### side conditions of the theorems (decidable; the driver evaluates them per case) -/

/-- steps of a destination path: item / attribute / plain-segment / `*` steps -/
def wfStar : List Step → Bool
  | [] => true
  | (op, arg) :: r => (op == "x" || C01.wfSteps [(op, arg)]) && wfStar r

/-- every object has a registered `get` (true for the default registrations: `object`) -/
def classesOK (env : MEnv) : Bool :=
  (match env.t.getReg.find? (fun x => x.1 == "object") with
   | some (_, hn) => hn != "False"
   | none => false) &&
  env.t.ct.all (fun p => p.2.contains "object")


/-- the objects a wildcard-free walk performs its accesses on, in order (as long as it succeeds) -/
def visits (env : MEnv) (h : Heap) : List Step → Val → List Val
  | [], _ => []
  | (op, arg) :: rest, cur =>
    cur :: (match C01.refAccess env.t h op cur arg with
      | some (.ok v) => visits env h rest v
      | _ => [])

/-- the `get` and `assign` registrations are about the same classes and pair up
    (`getitem`/`setitem`, `_get_sequence_item`/`_set_sequence_item`, `getattr`/`setattr`) -/
def pairedRegs (env : MEnv) : Bool :=
  env.assignReg.all (fun p => env.t.getReg.any (·.1 == p.1)) &&
  env.t.getReg.all (fun p => env.assignReg.any (·.1 == p.1)) &&
  env.t.getReg.all (fun p => p.2 != "False") &&
  env.assignReg.all (fun p =>
    match env.t.getReg.find? (·.1 == p.1) with
    | some (_, g) =>
      p.2 == "False" || (p.2 == "setitem" && g == "getitem") ||
        (p.2 == "_set_sequence_item" && g == "_get_sequence_item") || (p.2 == "setattr" && g == "getattr")
    | none => false)

/-- no class of the case stands for the scope mapping (T-rooted destinations) -/
def noScope (env : MEnv) : Bool := env.flags.all (fun p => !p.2.contains "scope")

/-- the classes of factory-made objects do not stand for the scope mapping -/
def freshNotScope (env : MEnv) : Bool :=
  ["dict", "list", "Obj", "tuple"].all (fun c => !env.flag c "scope")

/-- `int(s)` as the kernel models it (`pyIntOfStr`: `[+-]?[0-9]+`, anything else a ValueError) is
    CPython's `int(s)` for strings of printable ASCII characters without `_`: CPython also strips
    whitespace (`' 1 '`), skips single underscores (`'0_1'`) and reads every Unicode decimal digit -/
def safeIntStr (s : String) : Bool :=
  s.toList.all (fun c => 33 ≤ c.toNat && c.toNat ≤ 126 && c != '_')

/-- a path argument on which the kernel's `int()` is CPython's (floats — `int(1.5) == 1` — are outside) -/
def intSafeVal : Val → Bool
  | .str s => safeIntStr s
  | .float _ => false
  | _ => true

/-- **domain of the model's `int()`**: every segment that may reach `int()` (through a sequence
    handler) is one on which the kernel's `int()` is CPython's.  A hypothesis of every theorem's
    domain (`covered`); the driver skips the cases outside it. -/
def intSafe (steps : List Step) : Bool := steps.all (fun s => intSafeVal s.2)

/-- path arguments are immediate values (never heap references) -/
def argsScalar : List Step → Bool
  | [] => true
  | (_, .ref _) :: _ => false
  | _ :: r => argsScalar r

/-! ### observation up to the numbering of the cells created during the call

  Addresses of pre-existing cells are fixed by the case; the cells a call creates (factory
  objects, rebuilt literal containers) have no identity an observer could name other than *how
  they are reached*: two heaps are the same observation when they agree after renumbering the new
  cells in first-visit order (scan the pre-existing cells in address order, children left to right,
  depth first) and dropping the new cells nothing refers to (garbage). -/

/-- every value a cell holds, in order (dict: key, value, key, value …) -/
def cellVals : Obj → List Val
  | .list _ xs | .tuple _ xs | .set _ xs => xs
  | .dict _ es => es.flatMap (fun e => [e.1, e.2])
  | .inst _ as => as.map (·.2)

/-- first-visit order of the new cells (addresses `≥ n`) reachable from `v`, appended to `ord` -/
def visitNew (h : Heap) (n : Nat) : Nat → List Nat → Val → List Nat
  | 0, ord, _ => ord
  | fuel + 1, ord, .ref a =>
    if a < n || ord.contains a then ord
    else match h[a]? with
      | none => ord ++ [a]
      | some o => (cellVals o).foldl (fun acc x => visitNew h n fuel acc x) (ord ++ [a])
  | _ + 1, ord, _ => ord

/-- the new cells in first-visit order, scanning the first `n` cells in address order, then `extra` -/
def newOrder (n : Nat) (h : Heap) (extra : List Val) : List Nat :=
  ((h.take n).flatMap cellVals ++ extra).foldl (fun acc x => visitNew h n (h.length + 1) acc x) []

def renameVal (n : Nat) (ord : List Nat) : Val → Val
  | .ref a => if a < n then .ref a else
      (match ord.idxOf? a with
       | some i => .ref (n + i)
       | none => .ref a)
  | v => v

def renameObj (n : Nat) (ord : List Nat) : Obj → Obj
  | .list c xs => .list c (xs.map (renameVal n ord))
  | .tuple c xs => .tuple c (xs.map (renameVal n ord))
  | .set c xs => .set c (xs.map (renameVal n ord))
  | .dict c es => .dict c (es.map (fun e => (renameVal n ord e.1, renameVal n ord e.2)))
  | .inst c as => .inst c (as.map (fun e => (e.1, renameVal n ord e.2)))

/-- **canonical form** of a heap whose first `n` cells are the pre-existing ones -/
def canon (n : Nat) (h : Heap) : Heap :=
  let ord := newOrder n h []
  (h.take n).map (renameObj n ord) ++ ord.filterMap (fun a => (h[a]?).map (renameObj n ord))

/-- cells whose content the observer could not see (the scope frame, when no later step of a chain
    looked into it) are taken as they were before the call — in the observation and in the prescription -/
def maskCells (h : Heap) (unobs : List Nat) (hp : Heap) : Heap :=
  unobs.foldl (fun acc a => match h[a]? with | some o => acc.set a o | none => acc) hp

mutual
def renameNest (n : Nat) (ord : List Nat) : Nest → Nest
  | .leaf v => .leaf (renameVal n ord v)
  | .node xs => .node (renameNestL n ord xs)
def renameNestL (n : Nat) (ord : List Nat) : List Nest → List Nest
  | [] => []
  | x :: xs => renameNest n ord x :: renameNestL n ord xs
end

end Glom.Mut

namespace Glom.C11
open Glom Glom.Mut

/-- the assignment a final step denotes: `[` → `d[k] = v`, `.` → `setattr(d, k, v)`,
    a plain segment → the `assign` handler registered for the object's type;
    `none`: no handler (immutable builtin) / not an assignable step -/
def refAssignOp (env : MEnv) (h : Heap) (op : String) (dest arg v : Val) : Option (Except PyExc Wr) :=
  if op == "[" then some (pySetitem env h dest arg v)
  else if op == "." then some (pySetattr env h dest arg v)
  else if op == "P" then
    (nearestHandler env.t.ct env.assignReg (dest.clsName h)).map
      (fun hn => applyAssignHandler env h hn dest arg v)
  else none

/-- outcome the property prescribes -/
inductive RefRes where
  | ok (h : Heap) (hidden : Bool) (calls : Nat)   -- success: exactly this heap, this many factory calls
  | fail (atomic : Bool)     -- cannot be completed: an error; `atomic`: every pre-existing cell as before
  | unsupported
  deriving DecidableEq, Repr

/-- assign at every match, in order -/
def seqAssign (env : MEnv) (op : String) (arg v : Val) : Heap → Bool → List Val → Option (Heap × Bool)
  | h, hid, [] => some (h, hid)
  | h, hid, d :: ds =>
    match refAssignOp env h op d arg v with
    | some (.ok w) => seqAssign env op arg v w.heap (hid || w.hidden) ds
    | _ => none

/-- a fresh, empty object of the factory's kind -/
def freshObj (kind : String) : Option Obj :=
  if kind == "dict" then some (.dict "dict" [])
  else if kind == "list" then some (.list "list" [])
  else if kind == "obj" then some (.inst "Obj" [])
  else if kind == "tuple" then some (.tuple "tuple" [])
  else none     -- the factory raises

/-- create the absent tail `seg :: rest` (the last step of which receives `v`) on a
    fresh object: one factory call per absent segment, outermost first; a wildcard
    over a freshly created (empty) object has no matches, so nothing below it is
    created or assigned.  A factory that returns a non-container (`freshScalar`: `0`, `''`,
    `None`) gives something nothing can be assigned into: the tail cannot be created — unless its
    first step is a wildcard, which has no matches on a scalar either, so the scalar itself is what
    gets attached.  Result: heap, the fresh object, hidden flag, number of calls. -/
def buildTail (env : MEnv) (kind : String) (v : Val) : List Step → Heap → Option (Heap × Val × Bool × Nat)
  | [], _ => none
  | [s], h =>
    match freshObj kind with
    | none => none
    | some o =>
      let c := Val.ref h.length
      match refAssignOp env (h ++ [o]) s.1 c s.2 v with
      | some (.ok w) => some (w.heap, c, w.hidden, 1)
      | _ => none
  | s :: s' :: rest, h =>
    match freshObj kind with
    | none =>
      (match freshScalar kind with
       | some c => if s.1 == "x" then some (h, c, false, 1) else none
       | none => none)
    | some o =>
      let c := Val.ref h.length
      let h0 := h ++ [o]
      if s.1 == "x" then some (h0, c, false, 1)
      else if s.1 == "." || s.1 == "[" || s.1 == "P" then
        match buildTail env kind v (s' :: rest) h0 with
        | none => none
        | some (h1, inner, hid, n) =>
          match refAssignOp env h1 s.1 c s.2 inner with
          | some (.ok w) => some (w.heap, c, hid || w.hidden, n + 1)
          | _ => none
      else none

/-- the value denoted by the `val` argument -/
def refVal (env : MEnv) (h : Heap) (target : Val) : ValSpec → Option Val
  | .lit v => some v
  | .val v => some v
  | .path steps =>
    match matchesOf env h steps 0 target with
    | .ok [v] => some v
    | _ => none

/-- value kinds outside the model: a wildcard value path, a *literal* builtin container
    (arg mode evaluates it to a rebuilt copy — C08) -/
def valUnsupported (h : Heap) : ValSpec → Bool
  | .path s => hasStar s
  | .lit v => rebuilds h v
  | .val _ => false

/-- the steps of a value path are item / attribute / plain-segment steps -/
def valWf : ValSpec → Bool
  | .path s => C01.wfSteps s
  | .lit _ => true
  | .val _ => true

/-- side condition under which the `missing` recursion is covered by the theorems: immediate
    path arguments (a heap reference used as a key could alias a freshly created object), and
    the classes of the factory's objects are not the scope stand-in -/
def missingOK (env : MEnv) (orig : List Step) : Missing → Bool
  | .none => true
  | .factory _ => argsScalar orig && freshNotScope env

/-- **The property's prescription** for `assign(target, path, val, missing)`;
    `root` is the object the destination path starts from (the target, or the
    scope mapping for an S-rooted path). -/
def refAssign (env : MEnv) (h : Heap) (target root : Val) (orig : List Step) (vs : ValSpec)
    (missing : Missing) : RefRes :=
  match orig.getLast? with
  | none => .fail true
  | some (op, arg) =>
    if !finalOk op then .fail true else
    if valUnsupported h vs then .unsupported else
    match refVal env h target vs with
    | none => .fail true
    | some v =>
      let parent := orig.dropLast
      let atomic := !hasStar orig
      match matchesOf env h parent 0 root with
      | .ok ds =>
        match seqAssign env op arg v h false ds with
        | some (h', hid) => .ok h' hid 0
        | none => .fail atomic
      | .fail k _ stop =>
        match missing with
        | .none => .fail atomic
        | .factory kind =>
          match orig[k]? with
          | none => .unsupported
          | some (op', arg') =>
            match buildTail env kind v (orig.drop (k + 1)) h with
            | none => .fail atomic
            | some (h1, c, hid, n) =>
              match refAssignOp env h1 op' stop arg' c with
              | some (.ok w) => .ok w.heap (hid || w.hidden) n
              | _ => .fail atomic
      | .unreg => .fail atomic
      | .unsupported => .unsupported

/-! ### observation -/

inductive ObsRes where
  | ok (v : Val)
  /-- class of the exception leaving `glom()` (the class wrapped by `GlomError.wrap` for foreign
      exceptions), class of `.exc` for the three path errors, `part_idx`, `dest_name`,
      isinstance PathAccessError / PathAssignError / PathDeleteError / GlomError -/
  | err (cls : String) (inner : Option String) (idx : Option Nat) (dest : Option Val)
        (isPAE isPAssign isPDelete isGlom : Bool)
  deriving DecidableEq, Repr

def ObsRes.isErr : ObsRes → Bool
  | .err .. => true
  | .ok _ => false

structure Obs where
  res : ObsRes
  /-- every pre-existing object re-encoded after the call (same addresses), then the
      objects the factory created, in call order, then other new objects in first-visit order -/
  heap : Heap
  calls : Nat
  hidden : Bool
  deriving DecidableEq, Repr

def obsErr (env : MEnv) (cls : String) (inner : Option String) (idx : Option Nat) (dest : Option Val)
    (isGlom : Bool) : ObsRes :=
  .err cls inner idx dest (env.t.excTable.isSub cls "PathAccessError")
    (env.t.excTable.isSub cls "PathAssignError") (env.t.excTable.isSub cls "PathDeleteError") isGlom

def observeErr (env : MEnv) : MErr → ObsRes
  | .pae k e => obsErr env "PathAccessError" (some e.cls) (some k) none true
  | .passign e d => obsErr env "PathAssignError" (some e.cls) none (some d) true
  | .pdelete e d => obsErr env "PathDeleteError" (some e.cls) none (some d) true
  | .raised e => obsErr env e.cls none none none true
  | .unregistered => obsErr env "UnregisteredTarget" none none none true
  | .valueError => obsErr env "ValueError" none none none false     -- raised by the constructor, outside glom()
  | .badSpec => obsErr env "BadSpec" none none none true
  | .unmodelled => obsErr env "<unmodelled>" none none none true

def observe (env : MEnv) (out : St × Except MErr Val) : Obs :=
  { res := match out.2 with
      | .ok v => .ok v
      | .error e => observeErr env e
    heap := out.1.heap, calls := out.1.calls, hidden := out.1.hidden }

/-! ### which error -/

/-- what the property's reading fixes about the error of an assignment that cannot be completed -/
inductive ErrExp where
  | any                                      -- an error (failures inside the `missing` backfill, wildcard paths, …)
  | ctor                                     -- rejected by `Assign.__init__`: ValueError, raised outside `glom()`
  | pae (k : Nat) (e : PyExc)                -- PathAccessError(e) at segment `k`: the walk (of the parent path without a factory; of the value's path) stops there
  | fault (op : String) (e : PyExc) (arg : Val)  -- the final step's primitive raised `e` on the parent
  | unregistered                             -- the parent's type has no `assign` handler
  deriving DecidableEq, Repr

/-- exceptions the `assign` handlers can raise -/
def assignHandlerExcs : List String :=
  ["TypeError", "IndexError", "AttributeError", "RuntimeError", "ValueError", "NotImplementedError"]

/-- **The error the property prescribes**, as far as it prescribes one: a destination the constructor
    rejects is a ValueError; a parent path (no factory) or value path that stops at segment `k` on
    exception `e` is `PathAccessError(e, part_idx = k)`; a failing final step is a
    `PathAssignError(e, dest_name = arg)` when the step is a plain segment (the registered handler's
    failure — any exception — means "cannot be assigned") and Python's own exception `e` when the
    step is `T[arg]` / `T.arg` (the user wrote the item / attribute assignment themselves); a type
    without an `assign` handler is UnregisteredTarget.  Not taken from the extracted `except` clauses. -/
def refErr (env : MEnv) (h : Heap) (target root : Val) (orig : List Step) (vs : ValSpec)
    (missing : Missing) : ErrExp :=
  match orig.getLast? with
  | none => .ctor
  | some (op, arg) =>
    if !finalOk op then .ctor else
    if valUnsupported h vs then .any else
    match refVal env h target vs with
    | none =>
      (match vs with
       | .path s => (match matchesOf env h s 0 target with | .fail k e _ => .pae k e | _ => .any)
       | _ => .any)
    | some v =>
      match matchesOf env h orig.dropLast 0 root with
      | .ok [d] =>
        if hasStar orig then .any else
        (match refAssignOp env h op d arg v with
         | some (.error e) => .fault op e arg
         | none => .unregistered
         | _ => .any)
      | .fail k e _ => (match missing with | .none => if hasStar orig then .any else .pae k e | _ => .any)
      | _ => .any

def errMatches (env : MEnv) (exp : ErrExp) (o : ObsRes) : Bool :=
  match exp with
  | .any => o.isErr
  | .ctor => o == obsErr env "ValueError" none none none false
  | .pae k e => o == obsErr env "PathAccessError" (some e.cls) (some k) none true
  | .fault op e arg =>
    if op == "P" then o == obsErr env "PathAssignError" (some e.cls) none (some arg) true
    else o == obsErr env e.cls none none none true
  | .unregistered => o == obsErr env "UnregisteredTarget" none none none true

/-- the `except` clauses of `_assign_op` say what the reading says: `[` and `.` catch nothing, the
    plain-segment branch wraps every exception a handler raises into a PathAssignError -/
def assignWrapOK (env : MEnv) : Bool :=
  (branchOf env.assignBr "[").map (·.2.1) == some [] &&
  (branchOf env.assignBr ".").map (·.2.1) == some [] &&
  (match branchOf env.assignBr "P" with
   | some (_, caught, raises) =>
     raises == "PathAssignError" && assignHandlerExcs.all (fun n => C01.caughtBy env.t caught ⟨n⟩)
   | none => false)

/-- **The property, evaluated on an observation** (of the model, or of the
    implementation) against a prescription: success ⇒ the same object is returned, the heap is exactly
    the plain-Python result (every other cell untouched; the absent segments
    created by exactly one factory call each; cells created during the call compared up to their
    numbering, `canon`); failure ⇒ an error, and for a
    wildcard-free path every pre-existing object exactly as before. -/
def checkRef (h : Heap) (target : Val) (ref : RefRes) (obs : Obs) (unobs : List Nat := []) : Bool :=
  match ref with
  | .ok h' hid calls =>
    obs.res == .ok target &&
      canon h.length (maskCells h unobs obs.heap) == canon h.length (maskCells h unobs h') &&
      obs.calls == calls && obs.hidden == hid
  | .fail atomic =>
    obs.res.isErr && (!atomic || (maskCells h unobs obs.heap).take h.length == h)
  | .unsupported => false

def checkC11 (env : MEnv) (h : Heap) (target root : Val) (orig : List Step) (vs : ValSpec)
    (missing : Missing) (obs : Obs) : Bool :=
  checkRef h target (refAssign env h target root orig vs missing) obs

/-- **… and which error**: when the call raises, the exception is the one the reading prescribes (`refErr`) -/
def checkErr (env : MEnv) (h : Heap) (target root : Val) (orig : List Step) (vs : ValSpec)
    (missing : Missing) (obs : Obs) : Bool :=
  !obs.res.isErr || errMatches env (refErr env h target root orig vs missing) obs.res

/-- the prescription for a literal in `val` position: the value is what arg mode makes of the literal
    (scalars, objects and subclass instances themselves; an exact list / dict / tuple / set rebuilt,
    one new list / dict per distinct original, T leaves evaluated against the target), then the
    plain-Python assignment of that value.  Nothing of the literal itself is changed. -/
def refAssignU (env : MEnv) (fuel : Nat) (h : Heap) (target root : Val) (orig : List Step) (uv : UVal)
    (missing : Missing) : RefRes :=
  match uv with
  | .vs v => refAssign env h target root orig v missing
  | .lit v =>
    match orig.getLast? with
    | none => .fail true
    | some (op, _) =>
      if !finalOk op then .fail true else
      match argEval env target fuel { heap := h } [] v with
      | (_, _, .error .unmodelled) => .unsupported
      | (_, _, .error _) => .fail true
      | (st1, _, .ok v') => refAssign env st1.heap target root orig (.val v') missing

/-- `refErr` for either kind of value (a literal: after `arg_val`; an error inside `arg_val` is not classified) -/
def refErrU (env : MEnv) (fuel : Nat) (h : Heap) (target root : Val) (orig : List Step) (uv : UVal)
    (missing : Missing) : ErrExp :=
  match uv with
  | .vs v => refErr env h target root orig v missing
  | .lit v =>
    match orig.getLast? with
    | none => .ctor
    | some (op, _) =>
      if !finalOk op then .ctor else
      match argEval env target fuel { heap := h } [] v with
      | (st1, _, .ok v') => refErr env st1.heap target root orig (.val v') missing
      | _ => .any

def checkErrU (env : MEnv) (fuel : Nat) (h : Heap) (target root : Val) (orig : List Step) (uv : UVal)
    (missing : Missing) (obs : Obs) : Bool :=
  !obs.res.isErr || errMatches env (refErrU env fuel h target root orig uv missing) obs.res

def checkC11U (env : MEnv) (fuel : Nat) (h : Heap) (target root : Val) (orig : List Step) (uv : UVal)
    (missing : Missing) (obs : Obs) (unobs : List Nat := []) : Bool :=
  checkRef h target (refAssignU env fuel h target root orig uv missing) obs unobs

/-! ### one spec object, two overlapping evaluations -/

/-- the second evaluation: the factory re-enters `glom(target2, spec)` at its `at_`-th call, or
    (`threads`) two threads evaluate the spec on `target` and `target2` and meet inside the factory -/
structure Re where
  at_ : Nat
  target2 : Val
  threads : Bool
  deriving Repr

/-- the addresses reachable from a value -/
def reach (h : Heap) (v : Val) : List Nat := visitNew h 0 (h.length + 1) [] v

/-- the two records (and the literal value, if any) share nothing with the second record -/
def recordsDisjoint (h : Heap) (target target2 : Val) (uv : UVal) : Bool :=
  let r2 := reach h target2
  let r1 := reach h target ++ (match uv with | .lit v => reach h v | .vs (.val v) => reach h v | .vs _ => [])
  r1.all (fun a => !r2.contains a)

/-- what two overlapping evaluations of one spec on two records that share nothing must amount to -/
inductive Ref2 where
  | ok (h' : Heap) (calls : Option Nat)   -- this heap (up to numbering of new cells); this many factory calls, if prescribed
  | fail (hs : List Heap)                 -- an error; the pre-existing cells are those of one of these heaps
  | unsupported
  deriving Repr

/-- **The prescription for overlapping evaluations**: a spec object is an immutable term, so each
    evaluation does what it would do alone — on records that share nothing, the heap is the one the
    two plain-Python assignments leave, in either order: each record holds ITS OWN value. -/
def refAssignRe (env : MEnv) (fuel : Nat) (h : Heap) (target : Val) (orig : List Step) (uv : UVal)
    (kind : String) (re : Re) : Ref2 :=
  let miss := Missing.factory kind
  if !recordsDisjoint h target re.target2 uv || hasStar orig then .unsupported else
  match refAssignU env fuel h target target orig uv miss with
  | .unsupported => .unsupported
  | .ok hA hidA nA =>
    if hidA then .unsupported
    else if !re.threads && nA ≤ re.at_ then .ok hA (some nA)      -- the factory is never called `at_ + 1` times
    else
      match refAssignU env fuel h re.target2 re.target2 orig uv miss with
      | .ok h1 hid1 n1 =>
        if hid1 then .unsupported else
        (match refAssignU env fuel h1 target target orig uv miss with
         | .ok h2 _ n2 => .ok h2 (some (n1 + n2))
         | _ => .unsupported)
      | .fail true => .ok hA none     -- the other evaluation raised (atomically): its factory calls are not prescribed
      | _ => .unsupported
  | .fail true =>
    (match refAssignU env fuel h re.target2 re.target2 orig uv miss with
     | .ok h1 _ _ => .fail [h, h1]
     | .fail true => .fail [h]
     | _ => .unsupported)
  | .fail false => .unsupported

def checkC11Re (env : MEnv) (fuel : Nat) (h : Heap) (target : Val) (orig : List Step) (uv : UVal)
    (kind : String) (re : Re) (obs : Obs) : Bool :=
  match refAssignRe env fuel h target orig uv kind re with
  | .ok h' calls =>
    obs.res == .ok target && canon h.length obs.heap == canon h.length h' &&
      (match calls with | some n => obs.calls == n | none => true) && !obs.hidden
  | .fail hs => obs.res.isErr && hs.any (fun x => obs.heap.take h.length == x.take h.length)
  | .unsupported => false

/-! ### reading the path back in a later step of the same chain -/

/-- what the read-back step of `(Assign(…), readPath)` showed -/
inductive ReadObs where
  | notRun                 -- the Assign raised: the chain ended there
  | ok (n : Nest)          -- the value read (`k` wildcards: `k` levels of fresh lists around the entries)
  | err (e : ObsRes)       -- the read raised
  deriving Repr

def ReadObs.beq : ReadObs → ReadObs → Bool
  | .notRun, .notRun => true
  | .ok a, .ok b => Nest.beq a b
  | .err a, .err b => a == b
  | _, _ => false

def observeRead (env : MEnv) : Option (Except MErr Nest) → ReadObs
  | none => .notRun
  | some (.ok n) => .ok n
  | some (.error e) => .err (observeErr env e)

/-- **Put-get, evaluated on an observation**: after a successful assign the read-back step sees
    exactly what the same path reads in the heap the plain-Python assignment leaves — for an
    S-rooted path that includes the binding made in the scope frame —: the addressed objects in
    order (below `k` wildcards: `k` list levels), or a PathAccessError at the segment where the
    walk stops; after a failed assign the read never runs.  (Not evaluated when the assignment
    stored a *hidden* attribute — on an instance of a container subclass with a `__dict__`.)
    `obsHeap`: the observed heap the read values live in (cells created during the call are compared
    up to their numbering). -/
def checkReadRef (env : MEnv) (n : Nat) (root : Val) (ref : RefRes) (rd : List Step) (obsHeap : Heap)
    (ro : ReadObs) : Bool :=
  match ref with
  | .ok _ true _ => true     -- Python stored an attribute where the cell layout cannot show it
  | .ok h' false _ =>
    (match matchesOf env h' rd 0 root with
     | .ok ds => (match ro with
        | .ok nst => nst.uniform (stars rd) &&
            nst.leaves.map (renameVal n (newOrder n obsHeap [])) == ds.map (renameVal n (newOrder n h' []))
        | _ => false)
     | .fail k e _ => (match ro with
        | .err o => o == obsErr env "PathAccessError" (some e.cls) (some k) none true
        | _ => false)
     | .unreg => (match ro with | .err _ => true | _ => false)
     | .unsupported => true)
  | .fail _ => (match ro with | .notRun => true | _ => false)
  | .unsupported => true

def checkRead (env : MEnv) (h : Heap) (target root : Val) (orig : List Step) (vs : ValSpec)
    (missing : Missing) (rd : List Step) (obsHeap : Heap) (ro : ReadObs) : Bool :=
  checkReadRef env h.length root (refAssign env h target root orig vs missing) rd obsHeap ro

def checkReadU (env : MEnv) (fuel : Nat) (h : Heap) (target root : Val) (orig : List Step) (uv : UVal)
    (missing : Missing) (rd : List Step) (obsHeap : Heap) (ro : ReadObs) : Bool :=
  checkReadRef env h.length root (refAssignU env fuel h target root orig uv missing) rd obsHeap ro

/-! ### well-formedness of the extracted facts -/

/-- in registry table `reg` the two virtual (duck) types carry the handler of `object` -/
def virtualLikeObject (reg : List (String × String)) : Bool :=
  match reg.find? (·.1 == "object") with
  | some (_, ho) =>
    ["_AbstractIterable", "_ObjStyleKeys"].all (fun v =>
      match reg.find? (·.1 == v) with
      | some (_, hv) => hv == ho
      | none => true)
  | none => false

/-- branch `op` of `_assign_op` performs `kind` (whatever its `except` clause names: the
    property only needs *an* error; the model takes the caught classes from the table) -/
def assignKind (env : MEnv) (op kind : String) : Bool :=
  (branchOf env.assignBr op).map (·.1) == some kind

def WF (env : MEnv) : Bool :=
  virtualLikeObject env.assignReg &&
  C01.WF env.t &&
  C01.dispatchOf env.t "x" == some ("star", []) &&
  C01.dispatchOf env.t "X" == some ("starstar", []) &&
  assignKind env "[" "setitem" &&
  assignKind env "." "setattr" &&
  assignKind env "P" "handler" &&
  env.t.excTable.isSub "PathAssignError" "GlomError"


/-- the hypotheses of the wildcard-free theorems (`Props.C11.Hyps`), as one decidable test: the
    driver reports for every case whether it lies in the fragment the theorems cover -/
def covered (env : MEnv) (h : Heap) (target : Val) (sroot : Bool) (orig : List Step) (vs : ValSpec)
    (missing : Missing) : Bool :=
  let _ := target; let _ := sroot
  WF env && classesOK env && C01.wfSteps orig && valWf vs && !valUnsupported h vs &&
    missingOK env orig missing &&
    (intSafe orig && (match vs with | .path s => intSafe s | _ => true))

/-- every T-expression cell of the heap consists of item / attribute / plain-segment steps -/
def tleafsWf (env : MEnv) (h : Heap) : Bool :=
  h.all (fun o => match o with
    | .inst c steps => !env.flag c "tleaf" || C01.wfSteps steps
    | _ => true)

/-- the hypotheses of the theorems about literals in `val` position, as one decidable test: as for
    `covered`, plus: the recursion of `arg_val` on the literal ends within the fuel and no T leaf
    of the literal contains a wildcard (`argEval` does not answer "unmodelled") -/
def coveredLit (env : MEnv) (fuel : Nat) (h : Heap) (target : Val) (orig : List Step) (v : Val)
    (missing : Missing) : Bool :=
  WF env && classesOK env && C01.wfSteps orig && missingOK env orig missing &&
    (argEval env target fuel { heap := h } [] v).2.2 != .error .unmodelled &&
    (intSafe orig && h.all (fun o => match o with
      | .inst c steps => !env.flag c "tleaf" || intSafe steps
      | _ => true))

end Glom.C11
