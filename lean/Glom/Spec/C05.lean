import Glom.Model.C05
/-
  C05 — the property, evaluated on a trace text (the model's or the implementation's).

  From the recorded evaluation (the event list) the *spine* is computed: the calls the root
  error propagated through, outermost first (the dynamic nesting path from the root spec down to
  the innermost spec that failed).  `checkC05` demands of the text:
    1. it begins with the root target;
    2. the spec of every spine call appears, in evaluation order (at the truncation of its depth);
    3. the last target shown before the innermost failing spec's line is the target that spec
       actually received;
    4. for every spine call, every directly attempted sub-evaluation that failed and was caught
       (a branch) appears with its spec and with the error that ended it;
    5. the listing goes down to the failing spec and no further into what returned normally: after
       the last top-level `Spec:` line of a spine call, every further top-level `Spec:` line shows
       a call that raised or a completed step of a chain that raised.
    6. after a failed branch is abandoned the trace follows the branch that really raised: only a
       spec that raised shows branches (`+ Spec:`) — what failed inside a spec that then completed
       normally (a matched Switch / Match-dict key, a completed chain step) is forgiven.
-/
namespace Glom.C05

structure CallInfo where
  idx : Nat                 -- frame index (1 = root call)
  spec : Str
  target : Str
  tlen : Option Nat
  slen : Option Nat
  outer : Option Nat        -- dynamically enclosing call
  result : Option Nat       -- some e = raised e
  deriving Repr, Inhabited

/-- the dynamic call tree from the properly nested event list -/
def callsOf (evs : List Ev) : List CallInfo :=
  let rec go : List Ev → Nat → List Nat → List CallInfo → List CallInfo
    | [], _, _, acc => acc
    | .enter _ _ spec target _ tlen slen :: rest, next, stack, acc =>
      go rest (next + 1) (next :: stack)
        (acc ++ [{ idx := next, spec, target, tlen, slen, outer := stack.head?, result := none }])
    | .exitOk :: rest, next, stack, acc => go rest next stack.tail acc
    | .exitErr e :: rest, next, stack, acc =>
      match stack with
      | [] => go rest next [] acc
      | c :: st => go rest next st (acc.map (fun ci => if ci.idx == c then { ci with result := some e } else ci))
  go evs 1 [] []

/-- the calls the root error propagated through, outermost first -/
def spine (calls : List CallInfo) (rootError : Nat) : List CallInfo :=
  calls.filter (fun c => c.result == some rootError)

/-- directly attempted sub-evaluations of `c` that raised an error other than the root error -/
def failedBranches (calls : List CallInfo) (c : CallInfo) (rootError : Nat) : List CallInfo :=
  calls.filter (fun k => k.outer == some c.idx && (match k.result with | some e => e != rootError | none => false))

def isPrefix : Str → Str → Bool
  | [], _ => true
  | _ :: _, [] => false
  | a :: as, b :: bs => a == b && isPrefix as bs

def isSuffix (suf s : Str) : Bool := isPrefix suf.reverse s.reverse

/-- `needle` occurs somewhere in `hay` (error texts may span several lines) -/
def isInfix (needle : Str) : Str → Bool
  | [] => needle.isEmpty
  | c :: cs => isPrefix needle (c :: cs) || isInfix needle cs

/-- `shown` is `full`, or a truncation of it: a prefix of `full` followed by `...` / `... (len=n)` -/
def showsValue (full : Str) (vlen : Option Nat) (shown : Str) : Bool :=
  shown == full ||
  (let suffix : Str := match vlen with
      | some n => "... (len=".toList ++ natStr n ++ ")".toList
      | none => "...".toList
   isSuffix suffix shown && isPrefix (shown.take (shown.length - suffix.length)) full)

def splitLines : Str → List Str
  | [] => [[]]
  | c :: cs =>
    if c == '\n' then [] :: splitLines cs
    else match splitLines cs with
      | [] => [[c]]
      | l :: ls => (c :: l) :: ls

/-- the characters of the gutter of a trace line: the indentation bars, the ticks `- ` / `| ` / `+ `
    and the branch marks `\` and `X` -/
def isGutterChar (c : Char) : Bool :=
  c == ' ' || c == '|' || c == '-' || c == '+' || c == '\\' || c == 'X'

/-- the text after `label: ` of a line that has this label right after its gutter (however deep the
    line is nested: the gutter of a line at depth `d` is `d + 3` characters long) -/
def afterLabel (label : Str) (line : Str) : Option Str :=
  let l := line.dropWhile isGutterChar
  if isPrefix (label ++ ": ".toList) l then some (l.drop (label.length + 2)) else none

/-- do the items of `want` occur in `have` in this order (each matched by `m`)? -/
def subseqBy {α β} (m : α → β → Bool) : List α → List β → Bool
  | [], _ => true
  | _ :: _, [] => false
  | a :: as, b :: bs => if m a b then subseqBy m as bs else subseqBy m (a :: as) bs

/-- nesting depth of a trace line and the marker in its gutter.  A line of depth `d` starts with a
    space, `d` bars and the tick (`- ` at depth 0, `| ` deeper); on the first line of a branch the
    tick's bar is replaced by `\\`, on the last line of a failed branch by `X`, on the `Spec:`
    line of a branching spec by `+`. -/
def gutter (line : Str) : Nat × Option Char :=
  match line with
  | ' ' :: rest =>
    let bars := rest.takeWhile (· == '|')
    let mark := (rest.drop bars.length).head?
    if mark == some '\\' || mark == some 'X' || mark == some '+' || mark == some '-' then (bars.length, mark)
    else (bars.length - 1, mark)
  | _ => (0, none)

def setAt (l : List (Option Str)) (i : Nat) (v : Option Str) : List (Option Str) :=
  if i < l.length then l.set i v else l ++ List.replicate (i - l.length) none ++ [v]

def getAt (l : List (Option Str)) (i : Nat) : Option Str := (l[i]?).getD none

/-- reading the trace the way its indentation asks: the target in force at each nesting depth.
    A branch (gutter marker `\`) starts from the target in force one level up; a `Target:` line
    changes the target of its depth.  Returns the candidate targets in force at the *last* line
    showing the spec of `inner` (a line marked `X` may or may not start a branch: both readings). -/
def targetsAtLastSpec (lines : List Str) (inner : CallInfo) : List Str :=
  let rec go : List Str → List (Option Str) → List Str → List Str
    | [], _, found => found
    | l :: rest, tg, found =>
      let (d, mark) := gutter l
      let tg1 := if mark == some '\\' && d > 0 then setAt tg d (getAt tg (d - 1)) else tg
      match afterLabel "Target".toList l with
      | some t => go rest (setAt tg1 d (some t)) found
      | none =>
        match afterLabel "Spec".toList l with
        | some shown =>
          if showsValue inner.spec inner.slen shown then
            let cands := (match getAt tg1 d with | some t => [t] | none => []) ++
              (if mark == some 'X' && d > 0 then (match getAt tg1 (d - 1) with | some t => [t] | none => []) else [])
            go rest tg1 cands
          else go rest tg1 found
        | none => go rest tg1 found
  go lines [] []

/-- (frame of the previous step, call) for every call entered through `chain_child` with a frame
    handed on (flagged NO_PYFRAME) -/
def chainedEnters (evs : List Ev) : List (Nat × Nat) :=
  let rec go : List Ev → Nat → List (Nat × Nat) → List (Nat × Nat)
    | [], _, acc => acc
    | .enter p fl _ _ _ _ _ :: rest, next, acc => go rest (next + 1) (if fl then acc ++ [(p, next)] else acc)
    | _ :: rest, next, acc => go rest next acc
  go evs 1 []

/-- the call raised, or it is a completed step of a chain a later step of which raised (the calls
    that are part of some error; a call that returned normally and whose chain returned is not) -/
def raisedOrChain (calls : List CallInfo) (ch : List (Nat × Nat)) : Nat → Nat → Bool
  | 0, _ => false
  | fuel + 1, idx =>
    calls.any (fun c => c.idx == idx && c.result.isSome) ||
    ch.any (fun pd => pd.1 == idx && raisedOrChain calls ch fuel pd.2)

/-- 5. below the failing spec nothing that returned normally: after the last top-level `Spec:` line
    showing a call the root error propagated through, every further top-level `Spec:` line shows a
    call that raised (a failed branch shown linearly) or a completed step of a chain that raised -/
def nothingReturnedBelow (evs : List Ev) (calls sp : List CallInfo) (lines : List Str) : Bool :=
  let ch := chainedEnters evs
  let top := (lines.filter (fun l => (gutter l).1 == 0)).filterMap (afterLabel "Spec".toList)
  top.foldl (fun ok shown =>
    if sp.any (fun c => showsValue c.spec c.slen shown) then true
    else ok && calls.any (fun c => showsValue c.spec c.slen shown && raisedOrChain calls ch (calls.length + 1) c.idx))
    true

/-! ### the clauses -/

/-- 1. the text begins with the root target -/
def clause1 (root : CallInfo) (lines : List Str) : Bool :=
  match lines.head? with
  | some l => (match afterLabel "Target".toList l with
     | some shown => showsValue root.target root.tlen shown
     | none => false)
  | none => false

/-- the texts of the `Spec:` lines, in order -/
def specLinesOf (lines : List Str) : List Str := lines.filterMap (afterLabel "Spec".toList)

/-- 2. the spec of every call the root error propagated through, in evaluation order -/
def clause2 (sp : List CallInfo) (lines : List Str) : Bool :=
  subseqBy (fun (c : CallInfo) shown => showsValue c.spec c.slen shown) sp (specLinesOf lines)

/-- 3. the target the innermost failing spec received is the one in force at its line -/
def clause3 (inner : CallInfo) (lines : List Str) : Bool :=
  (targetsAtLastSpec lines inner).any (fun t => showsValue inner.target inner.tlen t)

/-- 4. every failed branch of a call on the path, with the error that ended it -/
def clause4 (calls sp : List CallInfo) (errText : Nat → Str) (rootError : Nat) (text : Str) (lines : List Str) : Bool :=
  sp.all (fun c => (failedBranches calls c rootError).all (fun b =>
    (specLinesOf lines).any (showsValue b.spec b.slen) &&
    (match b.result with
     | some e => isInfix (errText e) text
     | none => true)))

/-- the `Spec:` text of a line that shows branches below it (gutter mark `+`) -/
def plusSpec (l : Str) : Option Str :=
  if (gutter l).2 == some '+' then afterLabel "Spec".toList l else none

/-- 6. no stale branches: a spec that shows branches (`+ Spec:`) is a call that RAISED.  A spec that
    completed normally has recovered from whatever failed inside it; listing that as its branches
    — and the spec evaluated after it as one more of them — would not follow the branch that
    really raised. -/
def clause6 (calls : List CallInfo) (lines : List Str) : Bool :=
  (lines.filterMap plusSpec).all (fun shown =>
    calls.any (fun c => showsValue c.spec c.slen shown && c.result.isSome))

/-- the clauses of the property, separately (for diagnosis); `checkC05` is their conjunction -/
def clausesC05 (evs : List Ev) (errText : Nat → Str) (rootError : Nat) (text : String) : List Bool :=
  let calls := callsOf evs
  let sp := spine calls rootError
  let lines := splitLines text.toList
  match calls.head?, sp.getLast? with
  | some root, some inner =>
    [ clause1 root lines,
      clause2 sp lines,
      clause3 inner lines,
      clause4 calls sp errText rootError text.toList lines,
      -- 5. nothing that returned normally is listed below the failing spec
      nothingReturnedBelow evs calls sp lines,
      clause6 calls lines ]
  | _, _ => [false]

def rstrip (s : Str) : Str := (s.reverse.dropWhile (fun c => c == ' ' || c == '\n' || c == '\t')).reverse

/-- 5. the whole message ends with the type and message of the original error -/
def endsWithRootError (errText : Nat → Str) (rootError : Nat) (message : String) : Bool :=
  isSuffix (rstrip (errText rootError)) (rstrip message.toList)

def checkC05 (evs : List Ev) (errText : Nat → Str) (rootError : Nat) (text : String) : Bool :=
  (clausesC05 evs errText rootError text).all id

/-! ### the property on the MESSAGE (`str()` of the error that left `glom()`)

  "The message of an error raised by glom() contains a target-spec trace that begins with the root
  target …": the trace contained in a message begins at the first line that carries a `Target:`
  label; what precedes it is preamble.  A message without such a line contains no trace. -/

/-- the message without the type and message of the original error it ends with (that text may
    itself contain a trace: the original error can be the error of a nested glom call) -/
def dropRootError (errText : Nat → Str) (rootError : Nat) (message : Str) : Str :=
  let m := rstrip message
  let tail := rstrip (errText rootError)
  if isSuffix tail m then m.take (m.length - tail.length) else m

/-- the lines of the message from its first `Target:` line on (`[]`: there is none) -/
def msgTraceLines (body : Str) : List Str :=
  (splitLines body).dropWhile (fun l => (afterLabel "Target".toList l).isNone)

def joinNl : List Str → Str
  | [] => []
  | [x] => x
  | x :: r => x ++ '\n' :: joinNl r

/-- the part of the message that is read as its target-spec trace (the Python traceback lines that
    follow the trace are part of it: they carry no `Target:` / `Spec:` label) -/
def msgTrace (errText : Nat → Str) (rootError : Nat) (message : String) : String :=
  String.ofList (joinNl (msgTraceLines (dropRootError errText rootError message.toList)))

/-- the property evaluated on the message: the clauses of `checkC05` on the trace the message
    contains, and the message ends with the type and message of the original error -/
def checkMessageC05 (evs : List Ev) (errText : Nat → Str) (rootError : Nat) (message : String) : Bool :=
  checkC05 evs errText rootError (msgTrace errText rootError message) && endsWithRootError errText rootError message

end Glom.C05
