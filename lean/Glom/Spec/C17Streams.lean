import Glom.Spec.C17
import Glom.Model.C17Streams
/-
  C17 — several live streams: the checker.

  The property, read for a caller who keeps several iterators open at once (two `glom`
  calls zipped together, lazily kept rows that are transposed, a base stream left open
  while a derived spec runs): **every stream yields what it yields when it is run alone**
  — the composition of its stages over its own source, item by item, pulling no more of its
  own source than that needs — whatever the other streams do in between, and whichever
  spec objects (the same one, one derived from it) they were made from.
-/
namespace Glom.C17

/-- what the implementation was seen to do at one event -/
inductive EvObs where
  | opened (pulls : Nat)
  | openErr (e : Err) (pulls : Nat)
  | item (v : V) (pulls : Nat)
  | eof (pulls : Nat)
  | err (e : Err) (pulls : Nat)
  | ran (o : TakeObs)
  | first (o : FirstObs) (pulls : Nat)
  | dead

def EvOut.obs : EvOut → EvObs
  | .opened p => .opened p
  | .openErr e p => .openErr e p
  | .item v p => .item v p
  | .eof p => .eof p
  | .err e p => .err e p
  | .ran o => .ran ⟨o.items, o.fin, o.pulls⟩
  | .first o p => .first (firstObsOf o) p
  | .dead => .dead
  | .oof => .dead

/-- what the checker remembers of a stream: its stages, its source, the items it has yielded,
    how many were asked of it, whether it has ended -/
structure StreamMem where
  kinds : List Kind
  src : Nat
  items : List V := []
  asked : Nat := 0
  ended : Bool := false

abbrev Mem := Nat → Option StreamMem

def memSet (mem : Mem) (id : Nat) (m : StreamMem) : Mem := fun j => if j = id then some m else mem j

/-- the `si`-th source of a checked case (finite; an infinite one is cut by the pull budget) -/
def srcOfFin (srcs : List (List V × Option Err)) (si : Nat) : Src :=
  .fin (srcs.getD si ([], none)).1 (srcs.getD si ([], none)).2

/-- **stream isolation, on the observations of the implementation.**  After every event of
    stream `id` the items it has yielded so far, how it ended, and the number of items pulled
    from ITS source must be a `take` of the composition of its stages over its own source —
    exactly as if it were the only stream (`checkTake` / `checkAll` / `checkFirst` know
    nothing of the other streams).  `srcs`: the finite sources, one per stream. -/
def checkStreams (srcs : List (List V × Option Err)) :
    List Ev → List EvObs → Mem → Bool
  | [], [], _ => true
  | [], _ :: _, _ => false
  | _ :: _, [], _ => false
  | e :: es, o :: os, mem =>
    let srcOf := srcOfFin srcs
    match e, o with
    | .open id kinds si, .opened pulls =>
      (mem id).isNone && checkTake kinds (srcOf si) 0 ⟨[], .gotK, pulls⟩ &&
        checkStreams srcs es os (memSet mem id { kinds := kinds, src := si })
    | .open id kinds si, .openErr err pulls =>
      (mem id).isNone && checkTake kinds (srcOf si) 0 ⟨[], .raised err, pulls⟩ &&
        checkStreams srcs es os (memSet mem id { kinds := kinds, src := si, ended := true })
    | .next id, .item v pulls =>
      (match mem id with
       | some m => !m.ended && checkTake m.kinds (srcOf m.src) (m.asked + 1) ⟨m.items ++ [v], .gotK, pulls⟩ &&
          checkStreams srcs es os (memSet mem id { m with items := m.items ++ [v], asked := m.asked + 1 })
       | none => false)
    | .next id, .eof pulls =>
      (match mem id with
       | some m => !m.ended && checkTake m.kinds (srcOf m.src) (m.asked + 1) ⟨m.items, .exhausted, pulls⟩ &&
          checkStreams srcs es os (memSet mem id { m with asked := m.asked + 1, ended := true })
       | none => false)
    | .next id, .err err pulls =>
      (match mem id with
       | some m => !m.ended && checkTake m.kinds (srcOf m.src) (m.asked + 1) ⟨m.items, .raised err, pulls⟩ &&
          checkStreams srcs es os (memSet mem id { m with asked := m.asked + 1, ended := true })
       | none => false)
    | .next id, .dead =>
      (match mem id with | some m => m.ended | none => true) && checkStreams srcs es os mem
    | .all id kinds si, .ran t =>
      (mem id).isNone && checkAll kinds (srcOf si) t &&
        checkStreams srcs es os (memSet mem id { kinds := kinds, src := si, ended := true })
    | .first id kinds si key, .first f pulls =>
      (mem id).isNone && checkFirst kinds (srcOf si) key f pulls &&
        checkStreams srcs es os (memSet mem id { kinds := kinds, src := si, ended := true })
    -- a second start under an id that is taken is not an event
    | .open id _ _, .dead => (mem id).isSome && checkStreams srcs es os mem
    | .all id _ _, .dead => (mem id).isSome && checkStreams srcs es os mem
    | .first id _ _ _, .dead => (mem id).isSome && checkStreams srcs es os mem
    | _, _ => false

end Glom.C17
