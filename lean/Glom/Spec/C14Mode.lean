import Glom.Spec.C14S
import Glom.Model.C14Mode
/-
  C14 — reference for the surroundings of a wildcard path (mode switch, Coalesce, default).

  A path can fail only in front of its first wildcard: behind it failing entries are dropped.  So
    * a default (of `glom(…, default=)` or of a `Coalesce`) is returned iff the part of the path in
      front of the first wildcard cannot be walked (for every alternative);
    * `Coalesce` takes the first alternative whose part in front of the first wildcard can be walked —
      whatever its wildcards then match, the empty list included.
-/
namespace Glom.C14
open Glom

def isWildOp (s : String × Val) : Bool := s.1 == "x" || s.1 == "X"

/-- the steps in front of the first wildcard -/
def preWild (steps : List (String × Val)) : List (String × Val) := steps.takeWhile (fun s => !isWildOp s)

/-- can the part in front of the first wildcard be walked from the target? -/
def reachable (cs : Classes) (h : Heap) (target : Val) (steps : List (String × Val)) : Bool :=
  match refEval cs h (preWild steps) target with
  | .ok _ => true
  | .error _ => false

/-- `Coalesce(*paths, default=…)`: the value of the first reachable alternative, else the default -/
def refCoalesce (cs : Classes) (h : Heap) (target : Val) (hasDefault : Bool)
    (alts : List (List (String × Val))) : CoOut :=
  match alts.findIdx? (reachable cs h target) with
  | some i =>
    (match refEval cs h (alts.getD i []) target with
     | .ok r => .ok i r
     | .error _ => .coalesceError)            -- unreachable (Props.c14_fails_only_before_first_wildcard)
  | none => if hasDefault then .dflt else .coalesceError

def isOkE {ε α : Type} : Except ε α → Bool
  | .ok _ => true
  | .error _ => false

/-- the observation of a Coalesce / default call -/
inductive ObsCo where
  | ok (r : LRes)
  | dflt
  | other (cls : String)
  deriving Repr

def CoOut.toObs (o : CoOut) (label : Res → LRes) : ObsCo :=
  match o with
  | .ok _ r => .ok (label r)
  | .dflt => .dflt
  | .coalesceError => .other "CoalesceError"
  | .other c => .other c

/-- the checker: the observed outcome is the reference's (value of the first reachable alternative
    with pairwise distinct list cells / the default / CoalesceError) -/
def checkCo (ref : CoOut) (obs : ObsCo) : Bool :=
  match ref, obs with
  | .ok _ r, .ok r' => Res.beq r r'.erase && nodupB r'.labels
  | .dflt, .dflt => true
  | .coalesceError, .other c => c == "CoalesceError"
  | .other c, .other c' => c == c'
  | _, _ => false

end Glom.C14
