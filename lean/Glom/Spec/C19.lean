import Glom.Model.C19
/-
  C19 — reference semantics, observation and the decidable checker.

  The property as a user of the command would state it.  Given the flags and the
  world (files, standard input):
    * the spec text is the positional argument or the content of --spec-file;
    * the target text is the positional argument, the content of --target-file, or
      standard input (`-`, or nothing else given and stdin piped);
    * in the default spec format the spec text is a Python literal when it starts like one,
      otherwise it is taken as a path string — nothing else is ever done with it;
    * stdout = json.dumps(glom(load(target text), spec), indent, sort_keys=True) + newline,
      exit 0 (with --scalar a scalar result is printed bare);
    * a GlomError gives exit 1 and a message naming the error class;
    * an unreadable (missing, a directory, bytes that are no text — file or standard input) or
      malformed target gives a usage error, not a result.
  Where the property is silent (`Expect.silent`) only the correspondence speaks.
-/
namespace Glom.C19

variable {T S R : Type}

inductive Expect where
  | result (stdout : String)      -- exit 0 with exactly this stdout
  | glomError (cls : String)      -- exit 1, stdout names the class
  | targetUsage                   -- usage error
  | noResult                      -- anything but exit 0 (malformed spec text)
  | unserialisable (cls : String) -- the result is nothing json.dumps can print: the exception of json.dumps leaves `main`
  | libOther (cls : String)       -- the library call ended in an exception that is no GlomError (outside the statement)
  | silent
  deriving DecidableEq, Repr

def nonEmpty (o : Option String) : Option String := o.filter (fun s => !s.isEmpty)

/-- documented spec formats → parser kind; documented target formats → loader kind -/
def refLoaderKind (fmt : String) : Option String :=
  if fmt == "json" then some "json"
  else if fmt == "yaml" || fmt == "yml" then some "yaml-safe"
  else if fmt == "toml" then some "toml"
  else if fmt == "python" then some "python-literal"
  else none

def literalStart : List Char := ['"', '\'', '[', '{', '(']

/-- the spec text, when it is given exactly once -/
def refSpecText (X : Ext T S R) (a : Argv) : Option String :=
  match nonEmpty (posTexts a).1, nonEmpty a.specFile with
  | some s, none => some s
  | none, some p => nonEmpty (X.readFile p)
  | _, _ => none

/-- where the spec comes from -/
inductive SpecSrc where
  | text (st : String)      -- the argument, or the content of --spec-file: the text AS IT IS (a final newline included)
  | absent                  -- no spec argument, no spec file, or an empty text: the identity spec
  | unreadable              -- --spec-file cannot be read
  | both                    -- an argument AND a file
  deriving DecidableEq, Repr

def refSpecSrc (X : Ext T S R) (a : Argv) : SpecSrc :=
  match nonEmpty (posTexts a).1, nonEmpty a.specFile with
  | some _, some _ => .both
  | some s, none => .text s
  | none, some p =>
    match X.readFile p with
    | none => .unreadable
    | some t => if t.isEmpty then .absent else .text t
  | none, none => .absent

inductive TargetSrc where
  | text (t : String)
  | unreadable
  | absent                  -- no target argument, no target file, standard input a terminal: the empty dict
  | unspecified             -- an argument AND a file
  deriving DecidableEq, Repr

/-- standard input as the target: its text, unless it cannot be read (bytes that are no text, a
    closed stream, no stream at all) -/
def refStdin (w : World) : TargetSrc :=
  if w.readErr.isSome then .unreadable else .text w.stdin

def refTargetText (X : Ext T S R) (a : Argv) (w : World) : TargetSrc :=
  match nonEmpty (posTexts a).2, nonEmpty a.targetFile with
  | some t, none => if t == "-" then refStdin w else .text t
  | none, some p =>
    if p == "-" then refStdin w
    else match X.readFile p with
      | some t => .text t
      | none => .unreadable
  | none, none => if w.isatty then .absent else refStdin w
  | some _, some _ => .unspecified

/-- the spec a text denotes in the default format: a Python literal when it starts like one,
    else the text itself as a path string -/
def refSpecOf (X : Ext T S R) (st : String) : Except String S :=
  if literalStart.contains st.front then X.parse "python-literal" st else .ok (X.strSpec st)

def refRender (X : Ext T S R) (r : R) (indent : Int) (scalar : Bool) : Option String :=
  if scalar && X.isScalar r then some (X.str r)
  else match X.dumps r (if indent == 0 then none else some indent) with
    | .ok s => some (s ++ "\n")
    | .error _ => none

/-- the class json.dumps raises on a result it cannot print (a date, a set, bytes, keys of mixed
    types under sort_keys …) -/
def refDumpsErr (X : Ext T S R) (r : R) (indent : Int) : String :=
  match X.dumps r (if indent == 0 then none else some indent) with
  | .ok _ => ""
  | .error c => c

/-- the literal spec of the statement: the two literal formats (`python`, the default, and `json`) -/
def refLiteralSpec (X : Ext T S R) (fmt st : String) : Option (Except String S) :=
  if fmt == "python" then some (refSpecOf X st)
  else if fmt == "json" then some (X.parse "json" st)
  else none          -- python-full (not a literal) or an undocumented name: outside the statement

/-- what the statement says about the run once spec and target are there -/
def expectRun (X : Ext T S R) (a : Argv) (target : T) (spec : S) : Expect :=
  match X.glom target spec with
  | .glomError cls _ => .glomError cls
  | .other c => .libOther c
  | .ok r =>
    match refRender X r (a.indent.getD 2) a.scalar with
    | some s => .result s
    | none => .unserialisable (refDumpsErr X r (a.indent.getD 2))

/-- the spec the statement speaks about: `none` = it is silent (argument AND file, unreadable spec
    file, `python-full`, an undocumented format name); a text the literal parser rejects; a spec -/
def expectSpec (X : Ext T S R) (a : Argv) : Option (Except String S) :=
  match refSpecSrc X a with
  | .both | .unreadable => none                      -- a usage error (`refMain`), the statement is silent
  | .absent => some (.ok X.emptySpec)                -- no spec: the identity (`glom` alone prints `{}`)
  | .text st => refLiteralSpec X (a.specFormat.getD "python") st

/-- a target text in the format the user names.  READING (test_cli_blank): an EMPTY target text is
    "no target", the empty dict — not a malformed document -/
def expectText (X : Ext T S R) (a : Argv) (spec : S) (tt : String) : Expect :=
  if tt.isEmpty then expectRun X a X.emptyTarget spec else
  match refLoaderKind (a.targetFormat.getD "json") with
  | none => .silent                                  -- an undocumented target format: a usage error, the statement is silent
  | some k =>
    match X.load k tt with
    | .error _ => .targetUsage
    | .ok target => expectRun X a target spec

def expectTarget (X : Ext T S R) (a : Argv) (w : World) (spec : S) : Expect :=
  match refTargetText X a w with
  | .unspecified => .silent                          -- argument AND file: a usage error, the statement is silent
  | .unreadable => .targetUsage
  | .absent => expectRun X a X.emptyTarget spec      -- no target at all: the empty dict
  | .text tt => expectText X a spec tt

def expect (X : Ext T S R) (a : Argv) (w : World) : Expect :=
  -- --debug / --inspect print more than the result: outside the statement
  if a.debug || a.inspect then .silent else
  match expectSpec X a with
  | none => .silent
  | some (.error _) => .noResult
  | some (.ok spec) => expectTarget X a w spec

structure Obs where
  outcome : Outcome
  sideEffect : Bool          -- the planted marker file exists afterwards
  deriving DecidableEq, Repr

/-- the model has no effect but its outcome -/
def observe (o : Outcome) : Obs := ⟨o, false⟩

def isExit0 : Outcome → Bool
  | .exit 0 _ => true
  | _ => false

/-- The property evaluated on an observation, given what the reference expects.  `hostile` marks
    spec texts of the attack corpus: they must not yield a result. -/
def checkExpect (ex : Expect) (hostile : Bool) (obs : Obs) : Bool :=
  !obs.sideEffect &&
  (!hostile || !isExit0 obs.outcome) &&
  (match ex with
   | .result s => obs.outcome == .exit 0 s
   | .glomError c => (match obs.outcome with
       | .exit 1 out => (c ++ ": ").toList.isPrefixOf out.toList
       | _ => false)
   | .targetUsage => (match obs.outcome with | .usage _ => true | _ => false)
   | .noResult => !isExit0 obs.outcome
   -- READING: what json.dumps cannot print is not printed — its exception (TypeError …) ends the command
   | .unserialisable c => obs.outcome == .exc c
   | .libOther _ => true
   | .silent => true)

def checkC19 (X : Ext T S R) (a : Argv) (w : World) (hostile : Bool) (obs : Obs) : Bool :=
  checkExpect (expect X a w) hostile obs

/-! ### deliveries: every way of handing the same spec and target to the command -/

inductive SpecVia where
  | argv
  | file (path : String)
  deriving DecidableEq, Repr

inductive TargetVia where
  | argv
  | file (path : String)
  | dashArg            -- `glom SPEC -`
  | dashFile           -- `--target-file -`
  | piped              -- nothing given, stdin is not a tty
  deriving DecidableEq, Repr

/-- what the user wants done, apart from HOW spec and target are delivered -/
structure Request where
  specText : String
  targetText : String
  sv : SpecVia
  tv : TargetVia
  targetFormat : Option String
  indent : Option Int
  scalar : Bool
  specFormat : Option String := none
  debug : Bool := false
  inspect : Bool := false
  deriving DecidableEq, Repr

def Request.argv (q : Request) : Argv :=
  let sp := match q.sv with | .argv => q.specText | .file _ => ""
  { posargs := (match q.tv with
      | .argv => [sp, q.targetText]
      | .dashArg => [sp, "-"]
      | _ => (match q.sv with | .argv => [sp] | .file _ => []))
    targetFile := (match q.tv with | .file p => some p | .dashFile => some "-" | _ => none)
    targetFormat := q.targetFormat
    specFile := (match q.sv with | .file p => some p | .argv => none)
    specFormat := q.specFormat
    indent := q.indent
    scalar := q.scalar
    debug := q.debug
    inspect := q.inspect }

/-- standard input carries the target when it is the chosen channel, anything otherwise -/
def Request.world (q : Request) (junk : String) (tty : Bool) : World :=
  match q.tv with
  | .dashArg | .dashFile => ⟨q.targetText, tty, none, .open⟩
  | .piped => ⟨q.targetText, false, none, .open⟩
  | _ => ⟨junk, tty, none, .open⟩

/-- the files hold the texts; file names are non-empty and not `-` (decidable form) -/
def Request.filesOkB (q : Request) (X : Ext T S R) : Bool :=
  (match q.sv with | .file p => !p.isEmpty && X.readFile p == some q.specText | .argv => true) &&
  (match q.tv with | .file p => !p.isEmpty && p != "-" && X.readFile p == some q.targetText | _ => true)

/-- the same request through another pair of channels -/
def Request.via (q : Request) (sv : SpecVia) (tv : TargetVia) : Request := { q with sv := sv, tv := tv }

/-- may the channels be compared: a non-empty target text that is not the word `-` (an empty
    argument means "no target", `-` means standard input) and files that hold the texts -/
def Request.comparable (q : Request) (X : Ext T S R) (vias : List (SpecVia × TargetVia)) : Bool :=
  !q.targetText.isEmpty && q.targetText != "-" && vias.all (fun v => (q.via v.1 v.2).filesOkB X)

/-- what an observer sees of an outcome (a usage error shows no kind) -/
def Outcome.seen : Outcome → Outcome
  | .usage _ => .usage .specBoth
  | .cli _ => .cli .emptyArgv
  | o => o

/-- **Channel equivalence**, the observation: the same spec text and target text, delivered
    through each pair of channels, gave these outcomes — they are all the same. -/
def channelsAgree (outs : List Outcome) : Bool :=
  match outs with
  | [] => true
  | o :: rest => rest.all (fun o' => o'.seen == o.seen)

/-- the property on a request delivered through several pairs of channels: it holds of every
    delivery by itself, and — when the deliveries are comparable — all outcomes are the same -/
def checkChannels (X : Ext T S R) (q : Request) (vias : List (SpecVia × TargetVia)) (junk : String)
    (tty : Bool) (hostile : Bool) (obs : List Obs) : Bool :=
  obs.length == vias.length &&
  (vias.zip obs).all (fun vo =>
    checkC19 X (q.via vo.1.1 vo.1.2).argv ((q.via vo.1.1 vo.1.2).world junk tty) hostile vo.2) &&
  (!q.comparable X vias || channelsAgree (obs.map (·.outcome)))

/-! ### well-formedness of the extracted facts -/

/-- the handler around the loader of every target format catches whatever that loader raises on
    text: it names `Exception` itself, or a class of the MRO of EVERY class the probe saw the
    loader raise (the probe: the real loaders on a catalogue of malformed texts, grouped by
    raised class — regenerated with the facts) -/
def catchWF (loaders : List (String × String)) (handlers : List (String × List String))
    (raises : List (String × String × List String)) : Bool :=
  loaders.all (fun l =>
    match handlers.find? (·.1 == l.1) with
    | none => false
    | some p => p.2.contains "Exception" ||
        (raises.all (fun r => !(r.1 == l.2) || r.2.2.any p.2.contains)))

/-- a read of text (file in text mode, standard input) fails with an OSError or a UnicodeError:
    the handler names both — each by itself or by a class above it (UnicodeError < ValueError <
    Exception < BaseException, OSError < Exception < BaseException) -/
def readCatchWF (names : List String) : Bool :=
  let top := names.contains "Exception" || names.contains "BaseException"
  (names.contains "OSError" || top) && (names.contains "UnicodeError" || names.contains "ValueError" || top)

/-- reading standard input fails with an OSError, a ValueError (undecodable bytes: UnicodeError;
    a CLOSED stream: `ValueError: I/O operation on closed file`) or an AttributeError (`sys.stdin
    is None`): the handler names all three, each by itself or by a class above it -/
def stdinCatchWF (names : List String) : Bool :=
  let top := names.contains "Exception" || names.contains "BaseException"
  (names.contains "OSError" || top) && (names.contains "ValueError" || top) &&
  (names.contains "AttributeError" || top)

def WF (F : Facts) : Bool :=
  catchWF F.targetLoaders F.loadCatch F.loaderRaises &&
  readCatchWF F.specReadCatch && readCatchWF F.targetReadCatch && stdinCatchWF F.stdinReadCatch &&
  F.specBranches == [("python", "python-literal"), ("json", "json"), ("python-full", "exec")] &&
  F.reprBranches == ["python"] &&
  F.firstChars == literalStart &&
  F.specDefault == "python" &&
  F.targetLoaders == [("json", "json"), ("yaml", "yaml-safe"), ("yml", "yaml-safe"), ("toml", "toml"),
                      ("python", "python-literal")] &&
  F.targetDefault == "json" &&
  F.indentDefault == 2

/-- the hand-modelled control flow of `glom_cli`, `main`, `mw_handle_target` and the order of
    `mw_get_target`'s steps is the one in the source -/
def shapeWF (cliShape : List String) (mainShape : String) (mwSteps : List String) (emptyFirst : Bool)
    (middlewares : List String) (debugBody : List String) : Bool :=
  -- `--debug / --inspect`: the spec is wrapped, the debugger hooks armed only while stdin is open
  debugBody == ["stdin_open = not sys.stdin.closed",
    "spec = Inspect(spec, echo=inspect, recursive=inspect, breakpoint=inspect and stdin_open, post_mortem=debug and stdin_open)"] &&
  cliShape == ["debug-inspect", "glom-or-print-class-colon-message-return-1", "indent-0-none",
               "scalar-str-else-dumps-sorted", "return-none"] &&
  mainShape == "cmd = get_command() ; return cmd.run(argv) or 0" &&
  mwSteps == ["init", "posargs", "spec-source", "spec-parse", "target-source", "handle-target", "next"] &&
  emptyFirst &&
  middlewares == ["mw_get_target", "handler:glom_cli"]

/-- the probe is not vacuous and says what it is trusted for: every loader kind was seen to raise
    at least two different classes, each an `Exception` subclass whose MRO starts with itself; and
    every place where cli.py reads text (spec file, target file, standard input — found by the
    extractor as every `.read()` / `open()` call of the module) sits under a handler that turns an
    OSError and a UnicodeError into a UsageError -/
def probeWF (raises : List (String × String × List String))
    (readSites : List (String × String × List String)) : Bool :=
  ["json", "yaml-safe", "toml", "python-literal"].all (fun k =>
    ((raises.filter (·.1 == k)).map (·.2.1)).eraseDups.length ≥ 2) &&
  raises.all (fun r => r.2.2.head? == some r.2.1 && r.2.2.contains "Exception") &&
  ["spec-file", "target-file", "stdin"].all (fun k => readSites.any (·.1 == k)) &&
  readSites.all (fun s => ["spec-file", "target-file", "stdin"].contains s.1 &&
    (if s.1 == "stdin" then stdinCatchWF s.2.2 else readCatchWF s.2.2))

/-- **What is read is what is loaded**: between the read of a text (standard input, the target
    file, the spec file, the positional arguments) and the loader / parser that receives it
    nothing is done to it — no call, no method, no slice (`cliTextTransforms` lists every value
    assigned to a text variable, or returned by a text-delivering function, that is not a plain
    source; `open()` calls with more than the file name among them) — and every sink receives
    the bare variable. -/
def textFlowWF (transforms sinks : List (String × String × String)) : Bool :=
  transforms.isEmpty &&
  sinks.all (fun s => ["spec_text", "target_text", "target_text, target_format"].contains s.2.2) &&
  sinks.any (fun s => s.2.1 == "load_func" && s.2.2 == "target_text") &&
  sinks.any (fun s => s.1 == "mw_get_target" && s.2.1 == "mw_handle_target") &&
  sinks.any (fun s => s.2.1 == "ast.literal_eval" && s.2.2 == "spec_text")

/-- is this use of a flag value a plain truth test (no call, no attribute, no subscript)? -/
def plainTest (u : String) : Bool :=
  "test: ".toList.isPrefixOf u.toList && !(u.toList.any (fun c => c == '(' || c == '.' || c == '['))

/-- **The spec file's NAME and the spec format's SPELLING decide nothing else**: the file name is
    only opened, truth-tested and quoted in a message (no extension test); the format is only
    compared for equality with the three documented names (no case folding, no prefix test). -/
def specNameWF (uses : List (String × String × String)) : Bool :=
  uses.all (fun u =>
    if u.2.1 == "spec_file" then u.2.2 == "message" || u.2.2 == "open(spec_file)" || plainTest u.2.2
    else u.2.2 == "message" ||
      ["spec_format == 'json'", "spec_format == 'python'", "spec_format == 'python-full'"].contains u.2.2) &&
  uses.any (fun u => u.2.2 == "open(spec_file)") &&
  uses.any (fun u => u.2.2 == "spec_format == 'python-full'")

def entryPoints : List String :=
  ["main", "console_main", "get_command", "glom_cli", "mw_get_target", "mw_handle_target", "<module>"]

/-- `c19_never_executes` as decision logic over the extracted graph:
    * with the `spec_format == 'python-full'` edges removed, nothing reachable from the entry
      points is one of the dangerous callables (eval / exec / compile / __import__ / unsafe
      loaders / process spawning / getattr …);
    * with them, `exec` and `compile` ARE reachable (the extraction sees the path, so the first
      clause is not vacuous), and only through `_eval_python_full_spec` → `_compile_code`;
    * the default of --spec-format is 'python', whose branch hands the spec text to `repr` and
      `ast.literal_eval` only; every call that receives the spec text is one of
      repr / ast.literal_eval / json.loads / _eval_python_full_spec, each under its own branch. -/
def neverExecutesWF (edges : List (String × String × String)) (dangerous : List String)
    (flows : List (String × String × String)) (specDefault : String) (fns : List String) : Bool :=
  let g : Graph := ⟨edges⟩
  let fuel := edges.length + 1
  let guard := "spec_format == 'python-full'"
  -- every function of cli.py but the python-full chain itself is a root (helpers such as
  -- `_read_stdin` included, whether or not a call to them was recognised)
  let roots := entryPoints ++ fns.filter (fun f => !(["_eval_python_full_spec", "_compile_code"].contains f) &&
    !entryPoints.contains f)
  let safe := reach g [guard] fuel roots
  let all := reach g [] fuel roots
  dangerous.all (fun d => !safe.contains d) &&
  all.contains "exec" && all.contains "compile" &&
  -- the only callers of the exec chain
  (edges.filter (fun e => e.2.1 == "_compile_code")).all (fun e => e.1 == "_eval_python_full_spec") &&
  (edges.filter (fun e => e.2.1 == "_eval_python_full_spec")).all (fun e => e.1 == "mw_get_target" && e.2.2 == guard) &&
  (edges.filter (fun e => dangerous.contains e.2.1)).all (fun e => e.1 == "_compile_code") &&
  specDefault == "python" &&
  (flows.filter (fun f => f.2.1 == "spec_format == 'python'")).map (·.2.2) == ["ast.literal_eval", "repr"] &&
  flows.all (fun f => f.1 == "mw_get_target" &&
    [("spec_format == 'json'", "json.loads"), ("spec_format == 'python'", "ast.literal_eval"),
     ("spec_format == 'python'", "repr"), (guard, "_eval_python_full_spec")].contains (f.2.1, f.2.2)) &&
  ["_compile_code", "_eval_python_full_spec", "mw_get_target", "mw_handle_target", "glom_cli", "main"].all fns.contains

end Glom.C19
