/-
  C16 — the statements of glom/grouping.py (and of the aggregator entry points of
  glom/reduction.py) that `Glom/Model/C16.lean` transcribes, as (function, nesting
  depth, normalised source).  `WFSrc` demands that the table regenerated from /repo
  on every run (`Glom.Generated.grpStmts`) is exactly this one: any change to the
  control flow of Group mode breaks the per-run facts obligation `c16_facts_wf`.
-/
namespace Glom.C16

def expectedStmts : List (String × Nat × String) :=
  [("Group.glomit", 0, "scope[MODE] = GROUP"),
   ("Group.glomit", 0, "scope[CUR_AGG] = None"),
   ("Group.glomit", 0, "scope[ACC_TREE] = {}"),
   ("Group.glomit", 0, "if type(self.spec) in (dict, list)"),
   ("Group.glomit", 1, "ret = type(self.spec)()"),
   ("Group.glomit", 0, "else"),
   ("Group.glomit", 1, "ret = None"),
   ("Group.glomit", 0, "for t in target_iter(target, scope)"),
   ("Group.glomit", 1, "last, ret = (ret, scope[glom](t, self.spec, scope))"),
   ("Group.glomit", 1, "if ret is STOP"),
   ("Group.glomit", 2, "return last"),
   ("Group.glomit", 0, "return ret"),
   ("GROUP", 0, "recurse = lambda spec: scope[glom](target, spec, scope)"),
   ("GROUP", 0, "tree = scope[ACC_TREE]"),
   ("GROUP", 0, "if callable(getattr(spec, 'agg', None))"),
   ("GROUP", 1, "return spec.agg(target, tree)"),
   ("GROUP", 0, "else"),
   ("GROUP", 1, "if callable(spec)"),
   ("GROUP", 2, "return spec(target)"),
   ("GROUP", 0, "_spec_type = type(spec)"),
   ("GROUP", 0, "if _spec_type not in (dict, list)"),
   ("GROUP", 1, "raise BadSpec"),
   ("GROUP", 0, "_spec_id = id(spec)"),
   ("GROUP", 0, "try"),
   ("GROUP", 1, "acc = tree[_spec_id]"),
   ("GROUP", 0, "except KeyError"),
   ("GROUP", 1, "acc = tree[_spec_id] = _spec_type()"),
   ("GROUP", 0, "if _spec_type is dict"),
   ("GROUP", 1, "done = True"),
   ("GROUP", 1, "for (keyspec, valspec) in spec.items()"),
   ("GROUP", 2, "if tree.get(keyspec, None) is STOP"),
   ("GROUP", 3, "continue"),
   ("GROUP", 2, "key = recurse(keyspec)"),
   ("GROUP", 2, "if key is SKIP"),
   ("GROUP", 3, "done = False"),
   ("GROUP", 3, "continue"),
   ("GROUP", 2, "if key is STOP"),
   ("GROUP", 3, "tree[keyspec] = STOP"),
   ("GROUP", 3, "continue"),
   ("GROUP", 2, "if key not in acc"),
   ("GROUP", 3, "tree[key] = {}"),
   ("GROUP", 2, "scope[ACC_TREE] = tree[key]"),
   ("GROUP", 2, "result = recurse(valspec)"),
   ("GROUP", 2, "if result is STOP"),
   ("GROUP", 3, "tree[keyspec] = STOP"),
   ("GROUP", 3, "continue"),
   ("GROUP", 2, "done = False"),
   ("GROUP", 2, "if result is not SKIP"),
   ("GROUP", 3, "acc[key] = result"),
   ("GROUP", 1, "if done"),
   ("GROUP", 2, "return STOP"),
   ("GROUP", 1, "return acc"),
   ("GROUP", 0, "else"),
   ("GROUP", 1, "if _spec_type is list"),
   ("GROUP", 2, "for valspec in spec"),
   ("GROUP", 3, "if type(valspec) is dict"),
   ("GROUP", 4, "raise BadSpec"),
   ("GROUP", 3, "result = recurse(valspec)"),
   ("GROUP", 3, "if result is STOP"),
   ("GROUP", 4, "return STOP"),
   ("GROUP", 3, "if result is not SKIP"),
   ("GROUP", 4, "acc.append(result)"),
   ("GROUP", 2, "return acc"),
   ("GROUP", 0, "raise ValueError"),
   ("First.agg", 0, "if self not in tree"),
   ("First.agg", 1, "tree[self] = STOP"),
   ("First.agg", 1, "return target"),
   ("First.agg", 0, "return STOP"),
   ("Avg.agg", 0, "try"),
   ("Avg.agg", 1, "avg_acc = tree[self]"),
   ("Avg.agg", 0, "except KeyError"),
   ("Avg.agg", 1, "avg_acc = tree[self] = [0.0, 0]"),
   ("Avg.agg", 0, "avg_acc[0] += target"),
   ("Avg.agg", 0, "avg_acc[1] += 1"),
   ("Avg.agg", 0, "return avg_acc[0] / avg_acc[1]"),
   ("Max.agg", 0, "if self not in tree or target > tree[self]"),
   ("Max.agg", 1, "tree[self] = target"),
   ("Max.agg", 0, "return tree[self]"),
   ("Min.agg", 0, "if self not in tree or target < tree[self]"),
   ("Min.agg", 1, "tree[self] = target"),
   ("Min.agg", 0, "return tree[self]"),
   ("Sample.agg", 0, "if self not in tree"),
   ("Sample.agg", 1, "tree[self] = [0, []]"),
   ("Sample.agg", 0, "num_seen, sample = tree[self]"),
   ("Sample.agg", 0, "if len(sample) < self.size"),
   ("Sample.agg", 1, "sample.append(target)"),
   ("Sample.agg", 0, "else"),
   ("Sample.agg", 1, "pos = random.randint(0, num_seen)"),
   ("Sample.agg", 1, "if pos < self.size"),
   ("Sample.agg", 2, "sample[pos] = target"),
   ("Sample.agg", 0, "tree[self][0] += 1"),
   ("Sample.agg", 0, "return sample"),
   ("Limit.glomit", 0, "if scope[MODE] is not GROUP"),
   ("Limit.glomit", 1, "raise BadSpec"),
   ("Limit.glomit", 0, "tree = scope[ACC_TREE]"),
   ("Limit.glomit", 0, "if self not in tree"),
   ("Limit.glomit", 1, "tree[self] = [0, {}]"),
   ("Limit.glomit", 0, "scope[ACC_TREE] = tree[self][1]"),
   ("Limit.glomit", 0, "tree[self][0] += 1"),
   ("Limit.glomit", 0, "if tree[self][0] > self.n"),
   ("Limit.glomit", 1, "return STOP"),
   ("Limit.glomit", 0, "return scope[glom](target, self.subspec, scope)"),
   ("Limit.__init__", 0, "if subspec is _MISSING"),
   ("Limit.__init__", 1, "subspec = [T]"),
   ("Limit.__init__", 0, "self.n = n"),
   ("Limit.__init__", 0, "self.subspec = subspec"),
   ("Fold._agg", 0, "if self not in tree"),
   ("Fold._agg", 1, "tree[self] = self.init()"),
   ("Fold._agg", 0, "tree[self] = self.op(tree[self], target)"),
   ("Fold._agg", 0, "return tree[self]"),
   ("Merge._agg", 0, "if self not in tree"),
   ("Merge._agg", 1, "acc = tree[self] = self.init()"),
   ("Merge._agg", 0, "else"),
   ("Merge._agg", 1, "acc = tree[self]"),
   ("Merge._agg", 0, "self.op(acc, target)"),
   ("Merge._agg", 0, "return acc"),
   ("Fold.glomit[agg]", 0, "is_agg = False"),
   ("Fold.glomit[agg]", 0, "if scope[MODE] is GROUP and scope.get(CUR_AGG) is None"),
   ("Fold.glomit[agg]", 1, "scope[CUR_AGG] = self"),
   ("Fold.glomit[agg]", 1, "is_agg = True"),
   ("Fold.glomit[agg]", 0, "if self.subspec is not T"),
   ("Fold.glomit[agg]", 1, "target = scope[glom](target, self.subspec, scope)"),
   ("Fold.glomit[agg]", 0, "if is_agg"),
   ("Fold.glomit[agg]", 1, "return self._agg(target, scope[ACC_TREE])")]

/-- aggregator objects carry no state of their own (`__slots__ = ()`); Limit keeps only its
    constructor arguments: all accumulation state lives in the tree -/
def expectedSlots : List (String × String) :=
  [("First", "()"), ("Avg", "()"), ("Max", "()"), ("Min", "()"), ("Sample", "('size',)"),
   ("Limit", "('n', 'subspec')")]

/-- module-level state of glom/grouping.py: the two sentinels and nothing else.  GROUP, the
    aggregators and Group.glomit have no table to remember anything in between two calls /
    two evaluations (the model has no such state either: `evalHistory`). -/
def expectedGlobals : List (String × String) :=
  [("ACC_TREE", "make_sentinel('ACC_TREE')"), ("CUR_AGG", "make_sentinel('CUR_AGG')")]

/-- the arithmetic arms of `_t_eval`: every one REBINDS `cur` to the value of a binary / unary
    expression (never an augmented assignment, which would change a mutable operand — an item
    of the caller's target — in place): `TOp.apply` returns a new value, `Heap.tstep` allocates -/
def expectedTArith : List (String × String) :=
  [("+", "cur = cur + arg"), ("-", "cur = cur - arg"), ("*", "cur = cur * arg"), ("#", "cur = cur // arg"),
   ("/", "cur = cur / arg"), ("%", "cur = cur % arg"), (":", "cur = cur ** arg"), ("&", "cur = cur & arg"),
   ("|", "cur = cur | arg"), ("^", "cur = cur ^ arg"), ("~", "cur = ~cur"), ("_", "cur = -cur")]

def WFSrc (stmts : List (String × Nat × String)) (slots : List (String × String))
    (globals : List (String × String)) (globalStmts : List String) (tArith : List (String × String)) : Bool :=
  stmts == expectedStmts && slots == expectedSlots && globals == expectedGlobals &&
  globalStmts.isEmpty && tArith == expectedTArith

end Glom.C16
