/-
  C16 — the statements of glom/grouping.py (and of the aggregator entry points of
  glom/reduction.py) that `Glom/Model/C16.lean` transcribes, as (function, nesting
  depth, source in NORMAL FORM).  `WFSrc` demands that the table regenerated from /repo
  on every run (`Glom.Generated.grpStmts`) is exactly this one: any change to the
  control flow of Group mode breaks the per-run facts obligation `c16_facts_wf`.

  The normal form is computed by extract/facts/c16.py (rules N1–N12 there: docstrings
  dropped, immutable module constants / one-expression local functions / tail-called
  private helpers / single-use access-path aliases inlined, `x = A if C else B`,
  `x = M[K] = E`, the try/KeyError lookup, the False/True flag and `.get(k, None)`
  spelled one way, a terminating `if` body swallows the rest as its `else`, tests
  positive, locals renamed L0, L1, … in order of first binding).  Rewrites that keep what
  a function does map to the same normal form; anything else does not.
-/
namespace Glom.C16

def expectedStmts : List (String × Nat × String) :=
  [("Group.glomit", 0, "scope[MODE] = GROUP"),
   ("Group.glomit", 0, "scope[CUR_AGG] = None"),
   ("Group.glomit", 0, "scope[ACC_TREE] = {}"),
   ("Group.glomit", 0, "if type(self.spec) in (dict, list)"),
   ("Group.glomit", 1, "L0 = type(self.spec)()"),
   ("Group.glomit", 0, "else"),
   ("Group.glomit", 1, "L0 = None"),
   ("Group.glomit", 0, "for L1 in target_iter(target, scope)"),
   ("Group.glomit", 1, "L2, L0 = (L0, scope[glom](L1, self.spec, scope))"),
   ("Group.glomit", 1, "if L0 is STOP"),
   ("Group.glomit", 2, "return L2"),
   ("Group.glomit", 0, "return L0"),
   ("GROUP", 0, "L0 = scope[ACC_TREE]"),
   ("GROUP", 0, "if callable(getattr(spec, 'agg', None))"),
   ("GROUP", 1, "return spec.agg(target, L0)"),
   ("GROUP", 0, "else"),
   ("GROUP", 1, "if callable(spec)"),
   ("GROUP", 2, "return spec(target)"),
   ("GROUP", 0, "L1 = type(spec)"),
   ("GROUP", 0, "if L1 in (dict, list)"),
   ("GROUP", 1, "L2 = id(spec)"),
   ("GROUP", 1, "if L2 not in L0"),
   ("GROUP", 2, "L0[L2] = L1()"),
   ("GROUP", 1, "L3 = L0[L2]"),
   ("GROUP", 1, "if L1 is dict"),
   ("GROUP", 2, "L4 = True"),
   ("GROUP", 2, "for (L5, L6) in spec.items()"),
   ("GROUP", 3, "if L0.get(L5) is STOP"),
   ("GROUP", 4, "continue"),
   ("GROUP", 3, "else"),
   ("GROUP", 4, "L7 = scope[glom](target, L5, scope)"),
   ("GROUP", 4, "if L7 is SKIP"),
   ("GROUP", 5, "L4 = False"),
   ("GROUP", 5, "continue"),
   ("GROUP", 4, "else"),
   ("GROUP", 5, "if L7 is STOP"),
   ("GROUP", 6, "L0[L5] = STOP"),
   ("GROUP", 6, "continue"),
   ("GROUP", 5, "else"),
   ("GROUP", 6, "if L7 not in L3"),
   ("GROUP", 7, "L0[L7] = {}"),
   ("GROUP", 6, "scope[ACC_TREE] = L0[L7]"),
   ("GROUP", 6, "L8 = scope[glom](target, L6, scope)"),
   ("GROUP", 6, "if L8 is STOP"),
   ("GROUP", 7, "L0[L5] = STOP"),
   ("GROUP", 7, "continue"),
   ("GROUP", 6, "else"),
   ("GROUP", 7, "L4 = False"),
   ("GROUP", 7, "if L8 is not SKIP"),
   ("GROUP", 8, "L3[L7] = L8"),
   ("GROUP", 2, "if L4"),
   ("GROUP", 3, "return STOP"),
   ("GROUP", 2, "else"),
   ("GROUP", 3, "return L3"),
   ("GROUP", 1, "else"),
   ("GROUP", 2, "if L1 is list"),
   ("GROUP", 3, "for L6 in spec"),
   ("GROUP", 4, "if type(L6) is dict"),
   ("GROUP", 5, "raise BadSpec"),
   ("GROUP", 4, "else"),
   ("GROUP", 5, "L8 = scope[glom](target, L6, scope)"),
   ("GROUP", 5, "if L8 is STOP"),
   ("GROUP", 6, "return STOP"),
   ("GROUP", 5, "else"),
   ("GROUP", 6, "if L8 is not SKIP"),
   ("GROUP", 7, "L3.append(L8)"),
   ("GROUP", 3, "return L3"),
   ("GROUP", 1, "raise ValueError"),
   ("GROUP", 0, "else"),
   ("GROUP", 1, "raise BadSpec"),
   ("First.agg", 0, "if self in tree"),
   ("First.agg", 1, "return STOP"),
   ("First.agg", 0, "else"),
   ("First.agg", 1, "tree[self] = STOP"),
   ("First.agg", 1, "return target"),
   ("Avg.agg", 0, "if self not in tree"),
   ("Avg.agg", 1, "tree[self] = [0.0, 0]"),
   ("Avg.agg", 0, "tree[self][0] += target"),
   ("Avg.agg", 0, "tree[self][1] += 1"),
   ("Avg.agg", 0, "return tree[self][0] / tree[self][1]"),
   ("Max.agg", 0, "if self not in tree or target > tree[self]"),
   ("Max.agg", 1, "tree[self] = target"),
   ("Max.agg", 0, "return tree[self]"),
   ("Min.agg", 0, "if self not in tree or target < tree[self]"),
   ("Min.agg", 1, "tree[self] = target"),
   ("Min.agg", 0, "return tree[self]"),
   ("Sample.agg", 0, "if self not in tree"),
   ("Sample.agg", 1, "tree[self] = [0, []]"),
   ("Sample.agg", 0, "L0, L1 = tree[self]"),
   ("Sample.agg", 0, "if len(L1) < self.size"),
   ("Sample.agg", 1, "L1.append(target)"),
   ("Sample.agg", 0, "else"),
   ("Sample.agg", 1, "L2 = random.randint(0, L0)"),
   ("Sample.agg", 1, "if L2 < self.size"),
   ("Sample.agg", 2, "L1[L2] = target"),
   ("Sample.agg", 0, "tree[self][0] += 1"),
   ("Sample.agg", 0, "return L1"),
   ("Limit.glomit", 0, "if scope[MODE] is GROUP"),
   ("Limit.glomit", 1, "L0 = scope[ACC_TREE]"),
   ("Limit.glomit", 1, "if self not in L0"),
   ("Limit.glomit", 2, "L0[self] = [0, {}]"),
   ("Limit.glomit", 1, "scope[ACC_TREE] = L0[self][1]"),
   ("Limit.glomit", 1, "L0[self][0] += 1"),
   ("Limit.glomit", 1, "if L0[self][0] > self.n"),
   ("Limit.glomit", 2, "return STOP"),
   ("Limit.glomit", 1, "else"),
   ("Limit.glomit", 2, "return scope[glom](target, self.subspec, scope)"),
   ("Limit.glomit", 0, "else"),
   ("Limit.glomit", 1, "raise BadSpec"),
   ("Limit.__init__", 0, "if subspec is _MISSING"),
   ("Limit.__init__", 1, "subspec = [T]"),
   ("Limit.__init__", 0, "self.n = n"),
   ("Limit.__init__", 0, "self.subspec = subspec"),
   ("Fold._agg", 0, "if self not in tree"),
   ("Fold._agg", 1, "tree[self] = self.init()"),
   ("Fold._agg", 0, "tree[self] = self.op(tree[self], target)"),
   ("Fold._agg", 0, "return tree[self]"),
   ("Merge._agg", 0, "if self in tree"),
   ("Merge._agg", 1, "L0 = tree[self]"),
   ("Merge._agg", 0, "else"),
   ("Merge._agg", 1, "tree[self] = self.init()"),
   ("Merge._agg", 1, "L0 = tree[self]"),
   ("Merge._agg", 0, "self.op(L0, target)"),
   ("Merge._agg", 0, "return L0"),
   ("Fold.glomit[agg]", 0, "L0 = scope[MODE] is GROUP and scope.get(CUR_AGG) is None"),
   ("Fold.glomit[agg]", 0, "if L0"),
   ("Fold.glomit[agg]", 1, "scope[CUR_AGG] = self"),
   ("Fold.glomit[agg]", 0, "if self.subspec is not T"),
   ("Fold.glomit[agg]", 1, "target = scope[glom](target, self.subspec, scope)"),
   ("Fold.glomit[agg]", 0, "if L0"),
   ("Fold.glomit[agg]", 1, "return self._agg(target, scope[ACC_TREE])")]

/-- aggregator objects carry no state of their own (`__slots__ = ()`); Limit keeps only its
    constructor arguments: all accumulation state lives in the tree -/
def expectedSlots : List (String × String) :=
  [("First", "()"), ("Avg", "()"), ("Max", "()"), ("Min", "()"), ("Sample", "('size',)"),
   ("Limit", "('n', 'subspec')")]

/-- module-level state of glom/grouping.py: the two sentinels and nothing else.  GROUP, the
    aggregators and Group.glomit have no table to remember anything in between two calls /
    two evaluations (the model has no such state either: `evalHistory`). -/
def expectedGlobals : List (String × String) :=
  [("ACC_TREE", "make_sentinel('ACC_TREE')"), ("CUR_AGG", "make_sentinel('CUR_AGG')")]

/-- the arithmetic arms of `_t_eval`: every one REBINDS `cur` to the value of a binary / unary
    expression (never an augmented assignment, which would change a mutable operand — an item
    of the caller's target — in place): `TOp.apply` returns a new value, `Heap.tstep` allocates -/
def expectedTArith : List (String × String) :=
  [("+", "cur = cur + arg"), ("-", "cur = cur - arg"), ("*", "cur = cur * arg"), ("#", "cur = cur // arg"),
   ("/", "cur = cur / arg"), ("%", "cur = cur % arg"), (":", "cur = cur ** arg"), ("&", "cur = cur & arg"),
   ("|", "cur = cur | arg"), ("^", "cur = cur ^ arg"), ("~", "cur = ~cur"), ("_", "cur = -cur")]

/-- the code AROUND the accumulation, in the same normal form: how a target is iterated
    (`target_iter`: the registry's `iterate` handler — `iter` for every iterable, so the items of a
    list / tuple / range / generator / set / dict target are what `iter()` yields), what the
    constructors keep (`spec`, `size`, `subspec`/`init`/`op`; Sum = iadd from int(), Count = +1
    per item whatever it is, Flatten = iadd from list(), Merge = update from dict()), and the
    non-Group path of Fold (a Fold inside a Fold's subspec is a plain fold of the item) -/
def expectedAround : List (String × Nat × String) :=
  [("target_iter", 0, "L0 = scope[TargetRegistry].get_handler('iterate', target, path=scope[Path])"),
   ("target_iter", 0, "try"),
   ("target_iter", 1, "L1 = L0(target)"),
   ("target_iter", 0, "except Exception"),
   ("target_iter", 1, "raise TypeError"),
   ("target_iter", 0, "return L1"),
   ("Group.__init__", 0, "self.spec = spec"),
   ("Sample.__init__", 0, "self.size = size"),
   ("Fold.__init__", 0, "self.subspec = subspec"),
   ("Fold.__init__", 0, "self.init = init"),
   ("Fold.__init__", 0, "self.op = op"),
   ("Fold.__init__", 0, "if callable(op)"),
   ("Fold.__init__", 1, "if not callable(init)"),
   ("Fold.__init__", 2, "raise TypeError"),
   ("Fold.__init__", 0, "else"),
   ("Fold.__init__", 1, "raise TypeError"),
   ("Fold.glomit", 0, "L0 = scope[MODE] is GROUP and scope.get(CUR_AGG) is None"),
   ("Fold.glomit", 0, "if L0"),
   ("Fold.glomit", 1, "scope[CUR_AGG] = self"),
   ("Fold.glomit", 0, "if self.subspec is not T"),
   ("Fold.glomit", 1, "target = scope[glom](target, self.subspec, scope)"),
   ("Fold.glomit", 0, "if L0"),
   ("Fold.glomit", 1, "return self._agg(target, scope[ACC_TREE])"),
   ("Fold.glomit", 0, "else"),
   ("Fold.glomit", 1, "try"),
   ("Fold.glomit", 2, "L1 = target_iter(target, scope)"),
   ("Fold.glomit", 1, "except UnregisteredTarget"),
   ("Fold.glomit", 2, "raise FoldError"),
   ("Fold.glomit", 1, "return self._fold(L1)"),
   ("Fold._fold", 0, "L0, L1 = (self.init(), self.op)"),
   ("Fold._fold", 0, "for L2 in iterator"),
   ("Fold._fold", 1, "L0 = L1(L0, L2)"),
   ("Fold._fold", 0, "return L0"),
   ("Sum.__init__", 0, "super().__init__(subspec=subspec, init=init, op=operator.iadd)"),
   ("Count.__init__", 0, "super().__init__(subspec=T, init=int, op=lambda cur, val: cur + 1)"),
   ("Flatten.__init__", 0, "if init == 'lazy'"),
   ("Flatten.__init__", 1, "self.lazy = True"),
   ("Flatten.__init__", 1, "init = list"),
   ("Flatten.__init__", 0, "else"),
   ("Flatten.__init__", 1, "self.lazy = False"),
   ("Flatten.__init__", 0, "super().__init__(subspec=subspec, init=init, op=operator.iadd)"),
   ("Merge.__init__", 0, "if op is None"),
   ("Merge.__init__", 1, "op = 'update'"),
   ("Merge.__init__", 0, "if isinstance(op, basestring)"),
   ("Merge.__init__", 1, "L0 = init()"),
   ("Merge.__init__", 1, "op = getattr(type(L0), op, None)"),
   ("Merge.__init__", 0, "if callable(op)"),
   ("Merge.__init__", 1, "super().__init__(subspec=subspec, init=init, op=op)"),
   ("Merge.__init__", 0, "else"),
   ("Merge.__init__", 1, "raise ValueError")]

/-- every method of the classes of Group mode: a new method is a new place for state / behaviour -/
def expectedMethods : List (String × String) :=
  [("Group", "__init__"), ("Group", "glomit"), ("Group", "__repr__"), ("First", "agg"),
   ("First", "__repr__"), ("Avg", "agg"), ("Avg", "__repr__"), ("Max", "agg"),
   ("Max", "__repr__"), ("Min", "agg"), ("Min", "__repr__"), ("Sample", "__init__"),
   ("Sample", "agg"), ("Sample", "__repr__"), ("Limit", "__init__"), ("Limit", "glomit"),
   ("Limit", "__repr__"), ("Fold", "__init__"), ("Fold", "glomit"), ("Fold", "_fold"),
   ("Fold", "_agg"), ("Fold", "__repr__"), ("Sum", "__init__"), ("Sum", "__repr__"),
   ("Count", "__init__"), ("Count", "__repr__"), ("Flatten", "__init__"), ("Flatten", "_fold"),
   ("Flatten", "__repr__"), ("Merge", "__init__"), ("Merge", "_fold"), ("Merge", "_agg")]

def WFSrc (stmts : List (String × Nat × String)) (slots : List (String × String))
    (globals : List (String × String)) (globalStmts : List String) (tArith : List (String × String))
    (around : List (String × Nat × String)) (methods : List (String × String)) : Bool :=
  stmts == expectedStmts && slots == expectedSlots && globals == expectedGlobals &&
  globalStmts.isEmpty && tArith == expectedTArith && around == expectedAround && methods == expectedMethods

end Glom.C16
