import Glom.Spec.Scope
/-
  The canonical lexical scope: *nothing but* what a spec can observe — the visible bindings (as a
  function: inner bindings shadow outer ones by construction), the visible named specs, the mode
  and the argument-mode flag.  Its operations are the lexical-scoping rules themselves:

    child  = identity                    (a new frame sees what its parent sees)
    bind   = function update             (visible here and below; shadows)
    chain  = the finished step's bindings with the owner's mode

  `interp` instantiated at `Obs` is the reference (denotational, environment-passing) semantics
  of C07 / C08; `obsOf` abstracts any scope representation to it.
-/
namespace Glom.Interp
open ScopeAlg

structure Obs where
  lookup : String → Option V
  lookupRef : String → Option Spec
  mode : Mode
  arg : Bool

instance : ScopeAlg Obs where
  child := id
  lookup o := o.lookup
  bind o k v := { o with lookup := fun k' => if k' = k then some v else o.lookup k' }
  lookupRef o := o.lookupRef
  bindRef o k s := { o with lookupRef := fun k' => if k' = k then some s else o.lookupRef k' }
  mode o := o.mode
  setMode o m := { o with mode := m }
  argMode o := o.arg
  setArgMode o b := { o with arg := b }
  chain owner c := { c with mode := owner.mode, arg := owner.arg }

instance : LawfulScope Obs where
  lookup_child _ _ := rfl
  lookupRef_child _ _ := rfl
  mode_child _ := rfl
  argMode_child _ := rfl
  lookup_bind _ _ _ _ := rfl
  lookupRef_bind _ _ _ _ := rfl
  mode_bind _ _ _ := rfl
  argMode_bind _ _ _ := rfl
  lookup_bindRef _ _ _ _ := rfl
  lookupRef_bindRef _ _ _ _ := rfl
  mode_bindRef _ _ _ := rfl
  argMode_bindRef _ _ _ := rfl
  lookup_setMode _ _ _ := rfl
  lookupRef_setMode _ _ _ := rfl
  mode_setMode _ _ := rfl
  argMode_setMode _ _ := rfl
  lookup_setArgMode _ _ _ := rfl
  lookupRef_setArgMode _ _ _ := rfl
  mode_setArgMode _ _ := rfl
  argMode_setArgMode _ _ := rfl
  lookup_chain _ _ _ := rfl
  lookupRef_chain _ _ _ := rfl
  mode_chain _ _ := rfl
  argMode_chain _ _ := rfl

/-- what a spec can observe of a scope, whatever its representation -/
def obsOf {σ : Type} [ScopeAlg σ] (s : σ) : Obs :=
  { lookup := lookup s, lookupRef := lookupRef s, mode := mode s, arg := argMode s }

/-- the root scope of a call, lexically: the caller's mapping (later entries shadow earlier ones),
    a fresh `globals` ScopeVars, AUTO mode -/
def rootObs (st : St) (callerScope : List (String × V)) : Obs × St :=
  let gid := st.gvars.length
  let env : String → Option V := callerScope.foldl
    (fun f kv => fun k' => if k' = kv.1 then some kv.2 else f k')
    (fun k' => if k' = "globals" then some (V.vars gid) else Option.none)
  ({ lookup := env, lookupRef := fun _ => Option.none, mode := .auto, arg := false },
   { st with gvars := st.gvars ++ [[]] })

/-- `glom(target, spec, scope=…)` under the reference (lexical, environment-passing) semantics -/
def glomTopLex (p : Prims) (fuel : Nat) (spec : Spec) (target : V) (callerScope : List (String × V))
    (st : St) : St × Except Err V :=
  let (root, st0) := rootObs st callerScope
  match interp p fuel spec target root st0 with
  | (st', .ok r) => (st', .ok r.1)
  | (st', .error e) => (st', .error e)

end Glom.Interp
