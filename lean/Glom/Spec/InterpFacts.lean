import Glom.Generated.InterpFacts
/-
  Well-formedness of the extracted decision logic of the interpreter core: the shapes the
  hand-written model (`Glom/Model/Interp.lean`) mirrors.  One predicate per property, over the
  tables the property hinges on; `Props/C0x.lean` discharge `… = true := by decide` on every run
  against the facts regenerated from /repo.
-/
namespace Glom.Interp

/-- C03: AUTO's branch order (exact-str shortcut, then `isinstance` dict / list / tuple, str, callable),
    `_handle_list` uses `spec[0]`, SKIP-then-STOP in the list and tuple loops, `_handle_dict`
    builds `type(spec)()`, evaluates the value first, tests SKIP, then a Spec / T key;
    `_handle_tuple` chains before every step; Pipe hands its steps unchanged to `_handle_tuple`;
    Coalesce evaluates the alternative AND the skip test inside the try that catches `skip_exc`,
    falls back to default (through arg_val), default_factory, CoalesceError in that order;
    Call evaluates func, args, kwargs in that order -/
def c03FactsWF : Bool :=
  Generated.ifAuto == [("type-is:str", "_t_eval"), ("isinstance:dict", "_handle_dict"),
    ("isinstance:list", "_handle_list"), ("isinstance:tuple", "_handle_tuple"),
    ("isinstance:basestring", "glomit"), ("callable", "call"), ("else", "raise TypeError")] &&
  Generated.ifListIndex == "0" &&
  Generated.ifListLoop == ["eval", "skip-continue", "stop-break", "append"] &&
  Generated.ifDictRet == "type(spec)()" &&
  Generated.ifDictLoop == ["eval", "skip-continue", "eval-key:Spec,TType", "store"] &&
  Generated.ifTupleLoop == ["chain", "eval", "skip-continue", "stop-break"] &&
  Generated.ifPipe == "steps->_handle_tuple" &&
  Generated.ifCoalesceTry == ["eval", "skip-test"] &&
  Generated.ifCoalesceCatch == ["self.skip_exc"] &&
  Generated.ifCoalesceFallback == ["default:arg_val", "default_factory:call", "raise:CoalesceError"] &&
  Generated.ifCallOrder == ["func", "args", "kwargs"]

/-- C07: every step of a chain is evaluated in the scope `chain_child` hands on; a Pipe is that loop on
    its own steps; `_glom` pushes one frame per evaluation -/
def c07FactsWF : Bool :=
  Generated.ifTupleLoop == ["chain", "eval", "skip-continue", "stop-break"] &&
  Generated.ifPipe == "steps->_handle_tuple" &&
  Generated.ifGlomFrame == [("MODE", "pmap[MODE]"), ("MIN_MODE", "pmap[MIN_MODE]")]

/-- C08: the child frame copies MODE and MIN_MODE; T and glomit objects put the tombstone on
    MIN_MODE, everything else goes to `MIN_MODE or MODE`; `chain_child` resets MODE and MIN_MODE to
    the owner's; `arg_val` sets MIN_MODE around one evaluation and restores it; FILL and
    `_ArgValuator.mode` rebuild exactly dict / list / tuple / set / frozenset (lists and dicts
    memoised by identity in argument position), FILL calls callables, everything else is literal -/
def c08FactsWF : Bool :=
  Generated.ifGlomFrame == [("MODE", "pmap[MODE]"), ("MIN_MODE", "pmap[MIN_MODE]")] &&
  Generated.ifGlomDispatch == [("type-is:TType", "_t_eval:tombstone"), ("_has_callable_glomit", "glomit:tombstone"),
    ("else", "MIN_MODE-or-MODE")] &&
  Generated.ifChainResets == ["MODE", "MIN_MODE"] &&
  Generated.ifArgValSteps == ["save", "set", "eval", "restore", "return"] &&
  Generated.ifFill == [("type-is:dict", "dictcomp"), ("type-in:list,tuple,set,frozenset", "rebuild"),
    ("callable", "call"), ("else", "literal")] &&
  Generated.ifArgVal == [("type-in:list,dict", "memo"), ("type-in:tuple,set,frozenset", "rebuild"), ("else", "literal")] &&
  Generated.ifPipe == "steps->_handle_tuple"

end Glom.Interp
