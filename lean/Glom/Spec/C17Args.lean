import Glom.Spec.C17
import Glom.Model.C17Args
/-
  C17 — the checker when a stage callback may raise inside `glomit` (`limit(-1)`, `windowed(-1)` …):
  nothing is yielded, the exception is the callback's, and the source was pulled only as far as the
  stages chained BEFORE it needed to be primed — unless one of those met an exception of the source first.
-/
namespace Glom.C17

def checkTakeG (kinds : List Kind) (src : Src) (k : Nat) (o : TakeObs) : Bool :=
  match glomitSplit kinds with
  | (b, some e) =>
    o.items.isEmpty && (match o.fin with
      | .raised e' => (e' == e && checkTake b src 0 ⟨[], .gotK, o.pulls⟩) || checkTake b src 0 ⟨[], .raised e', o.pulls⟩
      | _ => false)
  | (_, none) => checkTake kinds src k o

def checkAllG (kinds : List Kind) (src : Src) (o : TakeObs) : Bool :=
  match glomitSplit kinds with
  | (b, some e) =>
    o.items.isEmpty && (match o.fin with
      | .raised e' => (e' == e && checkTake b src 0 ⟨[], .gotK, o.pulls⟩) || checkTake b src 0 ⟨[], .raised e', o.pulls⟩
      | _ => false)
  | (_, none) => checkAll kinds src o

/-! ### `first(key, default)`: the default is an ARGUMENT of a `Call`

  `First` is `Call(first, args=(T,), kwargs={'default': default, 'key': …})`, and `Call` evaluates its
  arguments against the target: a default that is a plain object comes back as it is, a default that is a
  spec-like object (`T`, `Val(c)`) is EVALUATED — against the stream, before `first` runs.  So
  `first(default=T)` gives, when nothing is found, the live iterator itself; `first(default=Val(c))` gives `c`. -/

inductive FirstDefault where
  | plain                 -- `None`, an opaque object: returned as it is
  | tExpr                 -- `T`: the target of the `Call`, i.e. the iterator
  | valInt (i : Int)      -- `Val(i)`
  deriving DecidableEq

/-- what `first` answers when no item is found -/
def FirstDefault.miss : FirstDefault → FirstObs
  | .plain => .default
  | .tExpr => .found .gen
  | .valInt i => .found (.int i)

/-- `checkFirst` when the default is spec-like: the evaluated default stands for "nothing found"
    (the harness uses defaults that no stream yields) -/
def checkFirstD (d : FirstDefault) (kinds : List Kind) (src : Src) (key : Fn) (o : FirstObs) (pulls : Nat) : Bool :=
  checkFirst kinds src key (if d != .plain && o == d.miss then .default else o) pulls

end Glom.C17
