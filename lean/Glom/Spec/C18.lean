import Glom.Model.C18
/-
  C18 — reference semantics and the decidable checkers.

  * "a faithful value": the object reconstructed from the text has the same
    steps (keyword arguments compared as a dict: `normSteps` puts them in key
    order, which is also the order `repr` prints them in), hence the same repr
    and the same evaluation; pickling gives the same steps back.
  * "an immutable sequence of its steps": `len`, `p[i]`, `p[a:b:c]`,
    `values()`, `items()`, `==`, `startswith`, `Path(p, q)` are the same
    operations on the list of steps (`pySlice`, `pyIndexNat` — Python's own
    sequence semantics, `Glom/Model/C18Slice.lean`).
-/
namespace Glom.C18

/-! ### normal form: keyword arguments in key order -/

mutual
  def normArg {L} : Arg L → Arg L
    | .lit v => .lit v
    | .t root steps => .t root (steps.map (fun s => normStep s))
  termination_by a => sizeOf a
  decreasing_by all_goals c18_dec
  def normItem {L} : Item L → Item L
    | .one a => .one (normArg a)
    | .slice a b c =>
      .slice (match a with | none => none | some x => some (normArg x))
             (match b with | none => none | some x => some (normArg x))
             (match c with | none => none | some x => some (normArg x))
  termination_by i => sizeOf i
  decreasing_by all_goals c18_dec
  def normStep {L} : Step L → Step L
    | .attr n => .attr n
    | .item i => .item (normItem i)
    | .items is => .items (is.map (fun i => normItem i))
    | .call args kwargs =>
      .call (args.map (fun a => normArg a)) (sortKw (kwargs.map (fun p => (p.1, normArg p.2))))
    | .seg v => .seg v
    | .star => .star
    | .starstar => .starstar
  termination_by s => sizeOf s
  decreasing_by all_goals c18_dec
end

def normSteps {L} (steps : List (Step L)) : List (Step L) := steps.map normStep

/-! ### the expressions the property is about -/

mutual
  /-- literal or nested T arguments; a nested T has no `'P'` step; no keyword twice -/
  def validArg {L} : Arg L → Bool
    | .lit _ => true
    | .t _ steps => (steps.map (fun s => !s.isSeg && validStep s)).all id
  termination_by a => sizeOf a
  decreasing_by all_goals c18_dec
  def validItem {L} : Item L → Bool
    | .one a => validArg a
    | .slice a b c =>
      (match a with | none => true | some x => validArg x) &&
      (match b with | none => true | some x => validArg x) &&
      (match c with | none => true | some x => validArg x)
  termination_by i => sizeOf i
  decreasing_by all_goals c18_dec
  def validStep {L} : Step L → Bool
    | .attr _ => true
    | .item i => validItem i
    | .items is => (is.map (fun i => validItem i)).all id
    | .call args kwargs =>
      (args.map (fun a => validArg a)).all id && (kwargs.map (fun p => validArg p.2)).all id &&
      decide ((kwargs.map (fun p => p.1)).Nodup)
    | .seg _ => true
    | .star => true
    | .starstar => true
  termination_by s => sizeOf s
  decreasing_by all_goals c18_dec
end

/-- a T expression: valid steps, none of them a `'P'` step -/
def validT {L} (steps : List (Step L)) : Bool := steps.all (fun s => !s.isSeg && validStep s)

/-- the steps of a Path: valid steps, `'P'` steps allowed -/
def validP {L} (steps : List (Step L)) : Bool := steps.all (fun s => validStep s)

/-! ### well-formedness of the extracted facts -/

/-- the three switches of `_format_t` (commit 0224102) are on; `_format_path` is given the root
    (commit 2a7aadd); the pickling tables name T, S, A;
    `Path.__getitem__` slices the tuple of steps -/
structure Facts where
  fmt : FmtFacts
  getstateRoots : List String
  setstateRoots : List String
  getitemViaSteps : Bool
  lenExpr : String
  valuesExpr : String
  itemsExpr : String
  deriving Repr

def WF (F : Facts) : Bool :=
  F.fmt.dunderGuard && F.fmt.tupleEmptyParen && F.fmt.singletonComma && F.fmt.pathRootAware &&
  ["T", "S", "A"].all (fun r => F.getstateRoots.contains r && F.setstateRoots.contains r) &&
  F.getitemViaSteps &&
  F.lenExpr == "(len(self.path_t.__ops__) - 1) // 2" &&
  F.valuesExpr == "cur_t_path[2::2]" &&
  F.itemsExpr == "tuple(zip(cur_t_path[1::2], cur_t_path[2::2]))"

/-! ### rendering token trees as text (to compare with the real `repr`) -/

mutual
  def renderTok : Tok String → String
    | .root r => r
    | .name n => n
    | .dot n => "." ++ String.ofList n
    | .lit v => v
    | .str s => "'" ++ String.ofList s ++ "'"      -- attribute names are identifiers: no escapes
    | .kw k => k ++ "="
    | .comma => ", "
    | .colon => ":"
    | .br ch => "[" ++ renderToks ch ++ "]"
    | .par ch => "(" ++ renderToks ch ++ ")"
  termination_by t => sizeOf t
  decreasing_by all_goals c18_dec
  /-- a trailing comma is printed without the space (`index += ','`) -/
  def renderToks : List (Tok String) → String
    | [] => ""
    | [.comma] => ","
    | t :: r => renderTok t ++ renderToks r
  termination_by ts => sizeOf ts
  decreasing_by all_goals c18_dec
end

/-! ### observations and checkers -/

/-- what the harness observes for one object `x` (a T expression or a Path) -/
structure ReprObs (L : Type) where
  text : String                 -- repr(x)
  evalOk : Option (Obj L)       -- eval(repr(x)) (none: eval raised)
  text2 : Option String         -- repr(eval(repr(x)))
  pickled : Option (Obj L)      -- pickle.loads(pickle.dumps(x))
  sameEval : Bool               -- original and reconstructed give the same outcome on every sample target

def sameOps {L} [BEq (Step L)] (a b : Obj L) : Bool :=
  a.root == b.root && a.steps == b.steps

def sameObj {L} [BEq (Step L)] (a b : Obj L) : Bool :=
  sameOps a b && (match a, b with
    | .tobj .., .tobj .. => true
    | .pobj .., .pobj .. => true
    | _, _ => false)

/-- The property, on an observation: `eval(repr(x))` succeeds and has the steps of `x`
    (keyword arguments as a dict) and the same repr, evaluates identically, and the
    pickle round trip returns an object of the same kind with the same steps. -/
def checkRepr {L} [BEq (Step L)] (x : Obj L) (o : ReprObs L) : Bool :=
  (match o.evalOk with
   | some y => y.root == x.root && y.steps == normSteps x.steps
   | none => false) &&
  o.text2 == some o.text &&
  (match o.pickled with
   | some y => sameObj y x
   | none => false) &&
  o.sameEval

/-- the same operation on the tuple of steps -/
def seqRef {α} [DecidableEq α] (root : String) (steps : List (String × α)) : SeqOp α → SeqRes α
  | .len => .nat steps.length
  | .idx i => match pyIndexNat steps.length i with
    | some j => match steps[j]? with
      | some s => .path root [s]
      | none => .indexError
    | none => .indexError
  | .slice a b c => match pySlice steps a b c with
    | some st => .path root st
    | none => .valueError
  | .values => .vals (steps.map (·.2))
  | .items => .pairs steps
  | .eq oroot other => .bool (decide (root = oroot ∧ steps = other))
  | .startswith oroot other => .bool (decide (root = oroot) && other.isPrefixOf steps)
  | .concat other =>
    -- Path(p, q): the first part keeps its root; `q` is rooted at T
    .path root (steps ++ other)
  | .fromT => .path (if root == "S" then "T" else root) steps

def checkSeq {α} [DecidableEq α] (root : String) (steps : List (String × α)) (op : SeqOp α)
    (o : SeqRes α) : Bool :=
  decide (o = seqRef root steps op)

/-! ### the model's own observation (what the checker theorem is about) -/

/-- pickling an object: a TType goes through `__getstate__` / `__setstate__`; a Path pickles its
    `__dict__`, i.e. its `path_t` -/
def pickleObj {L} (F : Facts) : Obj L → Option (Obj L)
  | .tobj r s => ((getstate F.getstateRoots r s).bind (setstate F.setstateRoots)).map
      (fun rs => Obj.tobj rs.1 rs.2)
  | .pobj r s => ((getstate F.getstateRoots r s).bind (setstate F.setstateRoots)).map
      (fun rs => Obj.pobj rs.1 rs.2)

def observeRepr {L} [BEq (Step L)] (F : Facts) (render : List (Tok L) → String) (x : Obj L) :
    ReprObs L :=
  let ev := parseObj (reprObj F.fmt x)
  { text := render (reprObj F.fmt x)
    evalOk := ev
    text2 := ev.map (fun y => render (reprObj F.fmt y))
    pickled := pickleObj F x
    -- the model has no notion of evaluation beyond the steps: same steps, same evaluation
    sameEval := match ev with
      | some y => y.root == x.root && y.steps == normSteps x.steps
      | none => false }

/-- `_t_child` accepts only attribute / item / plain-segment steps on an `A` path -/
def Step.okOnA {L} : Step L → Bool
  | .call _ _ | .star | .starstar => false
  | _ => true

/-- the paths that can be built: an `A`-rooted one has no call / wildcard step
    (`_t_child` raises BadSpec: 'operation not allowed on A assignment path') -/
def aOk {L} (root : String) (steps : List (Step L)) : Bool :=
  root != "A" || steps.all Step.okOnA

/-- the objects the property is about: T expressions and Paths rooted at T, S or A -/
def validObj {L} : Obj L → Bool
  | .tobj r s => ["T", "S", "A"].contains r && validT s
  | .pobj r s => ["T", "S", "A"].contains r && validP s && aOk r s

/-! ### `glom(t, Path(p, q))` against `glom(glom(t, p), q)` -/

/-- outcome of one evaluation, as C01 observes it -/
inductive EvalObs (V : Type) where
  | ok (v : V)
  | pae (idx : Nat) (excCls : String)
  | other (cls : String)
  deriving DecidableEq, Repr

/-- the two-stage evaluation: stage 1 failed, or stage 2 ended with an outcome -/
inductive Nested (V : Type) where
  | first (o : EvalObs V)        -- glom(t, p) failed with `o`
  | second (o : EvalObs V)       -- glom(glom(t, p), q) ended with `o`
  deriving DecidableEq, Repr

/-- The concatenation law on observations: the joined path gives the same object, the same
    failure inside `p`, or the failure inside `q` numbered from the start of the joined path. -/
def checkConcat {V} [DecidableEq V] (plen : Nat) (joined : EvalObs V) (nested : Nested V) : Bool :=
  match nested with
  | .first o => decide (joined = o)
  | .second (.pae k c) => decide (joined = .pae (k + plen) c)
  | .second o => decide (joined = o)

end Glom.C18
