import Glom.Model.C18
/-
  C18 — reference semantics and the decidable checkers.

  * "a faithful value": the object reconstructed from the text has the same
    steps (keyword arguments compared as a dict: `normSteps` puts them in key
    order, which is also the order `repr` prints them in; a nested Path without
    plain segments comes back as the T expression it prints as), hence the same
    repr and the same evaluation; pickling gives the same steps back.
  * the domain: `validObj` (what can be built with the public API from literal
    arguments and nested T / Path objects) whose scalars are expressions
    (`fitsObj … unbounded`: finite floats; no builtin function inside a `'P'`
    segment or a slice object).  Inside the domain the limits of `reprlib` are
    a hypothesis of the theorems (`fitsObj … lim`), discharged for sizes up to
    `minLimit` by the facts obligation.
  * "an immutable sequence of its steps": `len`, `p[i]`, `p[a:b:c]`,
    `values()`, `items()`, `==`, `startswith`, `Path(p, q)` are the same
    operations on the list of steps (`pySlice`, `pyIndexNat` — Python's own
    sequence semantics, `Glom/Model/C18Slice.lean`).
-/
namespace Glom.C18

/-! ### normal form: keyword arguments in key order, a segment-free Path as a T -/

mutual
  def normArg {L} : Arg L → Arg L
    | .lit v => .lit v
    | .t root steps => .t root (steps.map (fun s => normStep s))
    | .seq k xs => .seq k (xs.map (fun x => normArg x))
    | .dict kvs => .dict (kvs.map (fun p => (normArg p.1, normArg p.2)))
    | .sliceObj a b c => .sliceObj (normArg a) (normArg b) (normArg c)
    | .path root steps =>
      -- `Path(T.a)` reprs as `T.a` (DESIGN §6.6): the reconstructed object is the T expression
      if !steps.isEmpty && steps.all (fun s => !s.isSeg) then .t root (steps.map (fun s => normStep s))
      else .path root (steps.map (fun s => normStep s))
    | .bad s => .bad s
    | .fill => .fill
    | .deep k => .deep k
    | .dictMore kvs => .dictMore kvs
  termination_by a => sizeOf a
  decreasing_by all_goals c18_dec
  def normItem {L} : Item L → Item L
    | .one a => .one (normArg a)
    | .slice a b c =>
      .slice (match a with | none => none | some x => some (normArg x))
             (match b with | none => none | some x => some (normArg x))
             (match c with | none => none | some x => some (normArg x))
  termination_by i => sizeOf i
  decreasing_by all_goals c18_dec
  def normStep {L} : Step L → Step L
    | .attr n => .attr n
    | .item i => .item (normItem i)
    | .items is => .items (is.map (fun i => normItem i))
    | .call args kwargs =>
      .call (args.map (fun a => normArg a)) (sortKw (kwargs.map (fun p => (p.1, normArg p.2))))
    | .seg a => .seg (normArg a)
    | .star => .star
    | .starstar => .starstar
  termination_by s => sizeOf s
  decreasing_by all_goals c18_dec
end

def normSteps {L} (steps : List (Step L)) : List (Step L) := steps.map normStep

/-! ### the expressions the property is about -/

/-- `_t_child` accepts only attribute / item / plain-segment steps on an `A` path -/
def Step.okOnA {L} : Step L → Bool
  | .call _ _ | .star | .starstar => false
  | _ => true

/-- the paths that can be built: an `A`-rooted one has no call / wildcard step
    (`_t_child` raises BadSpec: 'operation not allowed on A assignment path') -/
def aOk {L} (root : String) (steps : List (Step L)) : Bool :=
  root != "A" || steps.all Step.okOnA

/-- an index of exact type tuple is a step of its own kind (`items`) -/
def Arg.isTuple {L} : Arg L → Bool
  | .seq .tuple _ => true
  | _ => false

/-- an index — or an element of a tuple index — that is a slice object is an `Item.slice` -/
def Arg.isSliceObj {L} : Arg L → Bool
  | .sliceObj _ _ _ => true
  | _ => false

/-- what `T[x]` records as `('[', x)` with `x` not a tuple -/
def Item.isAtom {L} : Item L → Bool
  | .one a => !a.isTuple
  | .slice _ _ _ => true

/-- `Path.__init__` flattens T and Path parts: a `'P'` segment is neither -/
def Arg.isSegArg {L} : Arg L → Bool
  | .t _ _ => false
  | .path _ _ => false
  | _ => true

mutual
  /-- scalars, containers, slice objects, nested T expressions (no `'P'` step) and nested Paths;
      no keyword twice in a call; none of the forms a `reprlib` limit leaves -/
  def validArg {L} : Arg L → Bool
    | .lit _ => true
    | .t _ steps => (steps.map (fun s => !s.isSeg && validStep s)).all id
    | .seq k xs => k != .dict && (xs.map (fun x => validArg x)).all id
    | .dict kvs => (kvs.map (fun p => validArg p.1 && validArg p.2)).all id
    | .sliceObj a b c => validArg a && validArg b && validArg c
    | .path root steps => (steps.map (fun s => validStep s)).all id && aOk root steps
    | .bad _ => false
    | .fill => false
    | .deep _ => false
    | .dictMore _ => false
  termination_by a => sizeOf a
  decreasing_by all_goals c18_dec
  def validItem {L} : Item L → Bool
    | .one a => validArg a && !a.isSliceObj
    | .slice a b c =>
      (match a with | none => true | some x => validArg x) &&
      (match b with | none => true | some x => validArg x) &&
      (match c with | none => true | some x => validArg x)
  termination_by i => sizeOf i
  decreasing_by all_goals c18_dec
  def validStep {L} : Step L → Bool
    | .attr _ => true
    | .item i => validItem i && i.isAtom
    | .items is => (is.map (fun i => validItem i)).all id
    | .call args kwargs =>
      (args.map (fun a => validArg a)).all id && (kwargs.map (fun p => validArg p.2)).all id &&
      decide ((kwargs.map (fun p => p.1)).Nodup)
    | .seg a => validArg a && a.isSegArg
    | .star => true
    | .starstar => true
  termination_by s => sizeOf s
  decreasing_by all_goals c18_dec
end

/-- a T expression: valid steps, none of them a `'P'` step -/
def validT {L} (steps : List (Step L)) : Bool := steps.all (fun s => !s.isSeg && validStep s)

/-- the steps of a Path: valid steps, `'P'` steps allowed -/
def validP {L} (steps : List (Step L)) : Bool := steps.all (fun s => validStep s)

/-! ### inside the limits of `reprlib` -/

/-- the text of an argument as `repr_instance` measures it -/
def argWidth {L} (S : ScalarOps L) (F : FmtFacts) (a : Arg L) : Nat :=
  (renderToks S.text (fmtArg F a)).length

def fitsLit {L} (S : ScalarOps L) (lim : Limits) (plain : Bool) (v : L) : Bool :=
  if plain then S.plain v && S.evaluable v else S.fits lim v && S.evaluable v

mutual
  /-- `truncArg` loses nothing: every scalar is printed in full and is an expression, every
      container has at most as many elements as its limit and is not deeper than `maxlevel`,
      every nested instance is at most `maxother` characters wide -/
  def fitsArg {L} (S : ScalarOps L) (F : FmtFacts) (lim : Limits) (plain : Bool) (level : Nat) :
      Arg L → Bool
    | .lit v => fitsLit S lim plain v
    | .t root steps =>
      (steps.map (fun s => fitsStep S F lim s)).all id &&
      (plain || argWidth S F (.t root steps) ≤ lim.maxother)
    | .path root steps =>
      (steps.map (fun s => fitsStep S F lim s)).all id &&
      (plain || argWidth S F (.path root steps) ≤ lim.maxother)
    | .seq k xs =>
      -- the builtin repr prints a set in iteration order, which `eval` of the text does not keep
      if plain then ((k != .set && k != .frozenset) || xs.length ≤ 1) &&
        (xs.map (fun x => fitsArg S F lim true level x)).all id
      else !(level == 0 && !xs.isEmpty) && xs.length ≤ lim.maxOf k &&
        (xs.map (fun x => fitsArg S F lim false (level - 1) x)).all id
    | .dict kvs =>
      if plain then (kvs.map (fun p => fitsArg S F lim true level p.1 && fitsArg S F lim true level p.2)).all id
      else kvs.isEmpty || (level != 0 && kvs.length ≤ lim.maxdict &&
        (kvs.map (fun p => fitsArg S F lim false (level - 1) p.1 &&
                           fitsArg S F lim false (level - 1) p.2)).all id)
    | .sliceObj a b c =>
      fitsArg S F lim true level a && fitsArg S F lim true level b && fitsArg S F lim true level c &&
      (plain || argWidth S F (.sliceObj a b c) ≤ lim.maxother)
    | .bad _ => true
    | .fill => true
    | .deep _ => true
    | .dictMore _ => true
  termination_by a => sizeOf a
  decreasing_by all_goals c18_dec
  def fitsItem {L} (S : ScalarOps L) (F : FmtFacts) (lim : Limits) : Item L → Bool
    | .one a => fitsArg S F lim false lim.maxlevel a
    | .slice a b c =>
      (match a with | none => true | some x => fitsArg S F lim false lim.maxlevel x) &&
      (match b with | none => true | some x => fitsArg S F lim false lim.maxlevel x) &&
      (match c with | none => true | some x => fitsArg S F lim false lim.maxlevel x)
  termination_by i => sizeOf i
  decreasing_by all_goals c18_dec
  def fitsStep {L} (S : ScalarOps L) (F : FmtFacts) (lim : Limits) : Step L → Bool
    | .attr n => nameFits F lim n
    | .item i => fitsItem S F lim i
    | .items is => (is.map (fun i => fitsItem S F lim i)).all id
    | .call args kwargs =>
      (args.map (fun a => fitsArg S F lim false lim.maxlevel a)).all id &&
      (kwargs.map (fun p => fitsArg S F lim false lim.maxlevel p.2)).all id
    | .seg a => fitsArg S F lim lim.plainSeg lim.segLevel a
    | .star => true
    | .starstar => true
  termination_by s => sizeOf s
  decreasing_by all_goals c18_dec
end

def fitsSteps {L} (S : ScalarOps L) (F : FmtFacts) (lim : Limits) (steps : List (Step L)) : Bool :=
  steps.all (fun s => fitsStep S F lim s)

/-- limits no Python object reaches: only "every scalar is an expression" is left of `fitsArg` -/
def unbounded (plainSeg : Bool) : Limits := Limits.uniform (2 ^ 64) plainSeg

/-! ### the scalars of Python, concretely -/

/-- ints; strings and bytes by their code points / byte values; a finite float by its `repr`
    text (the shortest-digits algorithm is CPython's) and its `float.hex()`; the floats that
    have no literal; `None`, `True`, `False`, `Ellipsis`; a builtin function or class by its
    name and its builtin repr (`<built-in function len>`) -/
inductive Scalar where
  | int (i : Int)
  | str (cs : List Nat)
  | bytes (bs : List Nat)
  | float (text : String) (hex : String)
  | floatBad (text : String)          -- `inf`, `-inf`, `nan`
  | none
  | bool (b : Bool)
  | ellipsis
  | builtin (name : String) (raw : String)
  deriving DecidableEq, Repr

def hexDigits (width n : Nat) : String :=
  let ds := Nat.toDigits 16 n
  String.ofList (List.replicate (width - ds.length) '0' ++ ds)

/-- `str.isprintable` for one code point, exact below U+0100; above, every code point the
    harness generates is checked to be printable -/
def pyPrintable (c : Nat) : Bool :=
  if c < 32 then false else if c < 127 then true else if c ≤ 160 then false else c != 173

/-- the quote `repr` chooses: `"` only if the text has a `'` and no `"` -/
def pyQuote (cs : List Nat) : Nat := if cs.contains 39 && !cs.contains 34 then 34 else 39

def chr (c : Nat) : String := String.singleton (Char.ofNat c)

def pyStrEsc (q c : Nat) : String :=
  if c == q || c == 92 then "\\" ++ chr c
  else if c == 9 then "\\t" else if c == 10 then "\\n" else if c == 13 then "\\r"
  else if c < 32 || c == 127 then "\\x" ++ hexDigits 2 c
  else if c < 127 then chr c
  else if pyPrintable c then chr c
  else if c ≤ 255 then "\\x" ++ hexDigits 2 c
  else if c ≤ 65535 then "\\u" ++ hexDigits 4 c
  else "\\U" ++ hexDigits 8 c

/-- `repr` of a str -/
def pyStrRepr (cs : List Nat) : String :=
  let q := pyQuote cs
  chr q ++ String.join (cs.map (pyStrEsc q)) ++ chr q

def pyBytesEsc (q c : Nat) : String :=
  if c == q || c == 92 then "\\" ++ chr c
  else if c == 9 then "\\t" else if c == 10 then "\\n" else if c == 13 then "\\r"
  else if c < 32 || c ≥ 127 then "\\x" ++ hexDigits 2 c
  else chr c

/-- `repr` of a bytes object -/
def pyBytesRepr (bs : List Nat) : String :=
  let q := pyQuote bs
  "b" ++ chr q ++ String.join (bs.map (pyBytesEsc q)) ++ chr q

def Scalar.text : Scalar → String
  | .int i => toString i
  | .str cs => pyStrRepr cs
  | .bytes bs => pyBytesRepr bs
  | .float t _ => t
  | .floatBad t => t
  | .none => "None"
  | .bool b => if b then "True" else "False"
  | .ellipsis => "Ellipsis"
  | .builtin n _ => n

/-- the builtin `repr` -/
def Scalar.plainText : Scalar → String
  | .builtin _ raw => raw
  | v => v.text

/-- `repr_int` (maxlong), `repr_str` (maxstring: `repr(x[:maxstring])` must not be longer than
    maxstring), `repr_instance` (maxother); the `<…>` text of a builtin is replaced by its name
    whatever its length, unless the cut removes the leading `<` -/
def Scalar.fits (lim : Limits) : Scalar → Bool
  | .int i => (toString i).length ≤ lim.maxlong
  -- `repr(x[:maxstring])` is no longer than maxstring: then x itself has at most maxstring characters
  | .str cs => cs.length ≤ lim.maxstring && (pyStrRepr cs).length ≤ lim.maxstring
  | .builtin _ raw => raw.length ≤ lim.maxother || (lim.maxother - 3) / 2 ≥ 1
  | v => v.text.length ≤ lim.maxother

def Scalar.cutText (lim : Limits) : Scalar → String
  | .int i => cutStr lim.maxlong (toString i)
  | .str cs =>
    let i := (lim.maxstring - 3) / 2
    let j := lim.maxstring - 3 - i
    let s := pyStrRepr (cs.take i ++ tailFrom cs j)
    String.ofList (s.toList.take i) ++ "..." ++ String.ofList (tailFrom s.toList j)
  | .builtin _ raw => cutStr lim.maxother raw
  | v => cutStr lim.maxother v.text

/-- the scalars of Python -/
def pyScalar : ScalarOps Scalar where
  text := Scalar.text
  fits := Scalar.fits
  cutText := Scalar.cutText
  evaluable := fun v => match v with | .floatBad _ => false | _ => true
  plain := fun v => match v with | .builtin _ _ => false | _ => true
  plainText := Scalar.plainText

/-! ### well-formedness of the extracted facts -/

/-- read the limits the model uses out of the attribute table of the live `_BBRepr` instance -/
def limitsOf (tbl : List (String × Nat)) (plainSeg : Bool) : Limits :=
  let g := fun (n : String) => (tbl.lookup n).getD 0
  { maxlevel := g "maxlevel", maxtuple := g "maxtuple", maxlist := g "maxlist", maxdict := g "maxdict",
    maxset := g "maxset", maxfrozenset := g "maxfrozenset", maxstring := g "maxstring",
    maxlong := g "maxlong", maxother := g "maxother", plainSeg := plainSeg }

/-- the three switches of `_format_t` (commit 0224102) are on; `_format_path` is given the root
    (commit 2a7aadd); the pickling tables name T, S, A;
    `Path.__getitem__` slices the tuple of steps; the `_BBRepr` instance behind `bbrepr` has
    every size limit of `reprlib.Repr` raised -/
structure Facts where
  fmt : FmtFacts
  getstateRoots : List String
  setstateRoots : List String
  getitemViaSteps : Bool
  lenExpr : String
  valuesExpr : String
  itemsExpr : String
  limitNames : List String          -- the int attributes of a stock `reprlib.Repr()` of this Python
  limitTable : List (String × Nat)  -- the int attributes of the instance `bbrepr` is bound to
  fillvalue : String
  reprIsReprlib : Bool              -- `bbrepr` wraps the instance's `reprlib.Repr.repr`, `repr1` defers to `Repr.repr1`
  segRepr : String                  -- the function `_format_path` prints a plain segment with: `repr` / `bbrepr`
  runsMarked : Bool                 -- `_format_path` marks its runs of T steps (`(is_t_run, part)`), it does not
                                    -- recognise them by `type(part) is list` (commit cf04d35)
  sysMaxsize : Nat                  -- `sys.maxsize` of the interpreter: no `len()`, no text is longer
  deriving Repr

def Facts.lim (F : Facts) : Limits := limitsOf F.limitTable (F.segRepr != "bbrepr")

/-- `sys.maxsize` of every CPython is at least this (`Py_ssize_t` has 32 bits or more) -/
def minLimit : Nat := 2147483647

/-- the limit attributes the model reads -/
def modelLimitNames : List String :=
  ["maxlevel", "maxtuple", "maxlist", "maxdict", "maxset", "maxfrozenset", "maxstring", "maxlong",
   "maxother"]

/-- the three switches of `_format_t` are on and `_format_path` is given the root -/
def wfFmt (F : Facts) : Bool :=
  F.fmt.dunderGuard && F.fmt.tupleEmptyParen && F.fmt.singletonComma && F.fmt.pathRootAware

def wfPickle (F : Facts) : Bool :=
  ["T", "S", "A"].all (fun r => F.getstateRoots.contains r && F.setstateRoots.contains r)

def wfSeq (F : Facts) : Bool :=
  F.getitemViaSteps &&
  F.lenExpr == "(len(self.path_t.__ops__) - 1) // 2" &&
  F.valuesExpr == "cur_t_path[2::2]" &&
  F.itemsExpr == "tuple(zip(cur_t_path[1::2], cur_t_path[2::2]))"

/-- every limit this Python's reprlib has — in particular those the model reads — is raised to at
    least `sys.maxsize` in the instance `bbrepr` is bound to (commit de451ae: no object reaches a
    limit), whose printing is reprlib's; plain segments are printed by `bbrepr` too (commit 5242ad1)
    and the runs of T steps in `_format_path` are marked (commit cf04d35) -/
def wfLimits (F : Facts) : Bool :=
  (F.limitNames ++ modelLimitNames).all (fun n => match F.limitTable.lookup n with
    | some v => decide (F.sysMaxsize ≤ v)
    | none => false) &&
  (decide (minLimit ≤ F.sysMaxsize) && F.fillvalue == "..." && F.reprIsReprlib &&
   F.segRepr == "bbrepr" && F.runsMarked)

def WF (F : Facts) : Bool := wfFmt F && wfPickle F && wfSeq F && wfLimits F

/-- every limit of `a` is at most the same limit of `b` -/
def Limits.le (a b : Limits) : Bool :=
  decide (a.maxlevel ≤ b.maxlevel) && decide (a.maxtuple ≤ b.maxtuple) && decide (a.maxlist ≤ b.maxlist) &&
  decide (a.maxdict ≤ b.maxdict) && decide (a.maxset ≤ b.maxset) &&
  decide (a.maxfrozenset ≤ b.maxfrozenset) && decide (a.maxstring ≤ b.maxstring) &&
  decide (a.maxlong ≤ b.maxlong) && decide (a.maxother ≤ b.maxother) && (a.plainSeg == b.plainSeg)

/-! ### observations and checkers -/

/-- what the harness observes for one object `x` (a T expression or a Path) -/
structure ReprObs (L : Type) where
  text : String                 -- repr(x)
  evalOk : Option (Obj L)       -- eval(repr(x)) (none: eval raised)
  text2 : Option String         -- repr(eval(repr(x)))
  pickled : Option (Obj L)      -- pickle.loads(pickle.dumps(x))
  sameEval : Bool               -- original and reconstructed give the same outcome on every sample target

def sameOps {L} [BEq (Step L)] (a b : Obj L) : Bool :=
  a.root == b.root && a.steps == b.steps

def sameObj {L} [BEq (Step L)] (a b : Obj L) : Bool :=
  sameOps a b && (match a, b with
    | .tobj .., .tobj .. => true
    | .pobj .., .pobj .. => true
    | _, _ => false)

/-- The property, on an observation: `eval(repr(x))` succeeds and has the steps of `x`
    (keyword arguments as a dict) and the same repr, evaluates identically, and the
    pickle round trip returns an object of the same kind with the same steps. -/
def checkRepr {L} [BEq (Step L)] (x : Obj L) (o : ReprObs L) : Bool :=
  (match o.evalOk with
   | some y => y.root == x.root && y.steps == normSteps x.steps
   | none => false) &&
  o.text2 == some o.text &&
  (match o.pickled with
   | some y => sameObj y x
   | none => false) &&
  o.sameEval

/-- the same operation on the tuple of steps -/
def seqRef {α} [DecidableEq α] (root : String) (steps : List (String × α)) : SeqOp α → SeqRes α
  | .len => .nat steps.length
  | .idx i => match pyIndexNat steps.length i with
    | some j => match steps[j]? with
      | some s => .path root [s]
      | none => .indexError
    | none => .indexError
  | .slice a b c => match pySlice steps a b c with
    | some st => .path root st
    | none => .valueError
  | .values => .vals (steps.map (·.2))
  | .items => .pairs steps
  | .eq oroot other => .bool (decide (root = oroot ∧ steps = other))
  | .startswith oroot other => .bool (decide (root = oroot) && other.isPrefixOf steps)
  | .concat other =>
    -- Path(p, q): the first part keeps its root; `q` is rooted at T
    .path root (steps ++ other)
  | .fromT => .path (if root == "S" then "T" else root) steps
  | .ne oroot other => .bool (!decide (root = oroot ∧ steps = other))
  | .eqOther => .bool false
  | .startswithStr s => .bool (decide (root = "T") && [("P", s)].isPrefixOf steps)
  | .startswithBad => .typeError

def checkSeq {α} [DecidableEq α] (root : String) (steps : List (String × α)) (op : SeqOp α)
    (o : SeqRes α) : Bool :=
  decide (o = seqRef root steps op)

/-! ### the model's own observation (what the checker theorem is about) -/

/-- pickling an object: a TType goes through `__getstate__` / `__setstate__`; a Path pickles its
    `__dict__`, i.e. its `path_t` -/
def pickleObj {L} (F : Facts) : Obj L → Option (Obj L)
  | .tobj r s => ((getstate F.getstateRoots r s).bind (setstate F.setstateRoots)).map
      (fun rs => Obj.tobj rs.1 rs.2)
  | .pobj r s => ((getstate F.getstateRoots r s).bind (setstate F.setstateRoots)).map
      (fun rs => Obj.pobj rs.1 rs.2)

def observeRepr {L} [BEq (Step L)] (S : ScalarOps L) (F : Facts) (x : Obj L) : ReprObs L :=
  let render := renderToks S.text
  let ev := parseObj (reprLim S F.fmt F.lim x)
  { text := render (reprLim S F.fmt F.lim x)
    evalOk := ev
    text2 := ev.map (fun y => render (reprLim S F.fmt F.lim y))
    pickled := pickleObj F x
    -- the model has no notion of evaluation beyond the steps: same steps, same evaluation
    sameEval := match ev with
      | some y => y.root == x.root && y.steps == normSteps x.steps
      | none => false }

/-- the objects the property is about: T expressions and Paths rooted at T, S or A -/
def validObj {L} : Obj L → Bool
  -- (the `path_t` of a Path is a T expression too: it holds the plain segments)
  | .tobj r s => ["T", "S", "A"].contains r && (validT s || (s.any Step.isSeg && validP s && aOk r s))
  | .pobj r s => ["T", "S", "A"].contains r && validP s && aOk r s

def fitsObj {L} (S : ScalarOps L) (F : FmtFacts) (lim : Limits) (x : Obj L) : Bool :=
  fitsSteps S F lim x.steps

/-! ### `glom(t, Path(p, q))` against `glom(glom(t, p), q)` -/

/-- outcome of one evaluation, as C01 observes it -/
inductive EvalObs (V : Type) where
  | ok (v : V)
  | pae (idx : Nat) (excCls : String)
  | other (cls : String)
  deriving DecidableEq, Repr

/-- the two-stage evaluation: stage 1 failed, or stage 2 ended with an outcome -/
inductive Nested (V : Type) where
  | first (o : EvalObs V)        -- glom(t, p) failed with `o`
  | second (o : EvalObs V)       -- glom(glom(t, p), q) ended with `o`
  deriving DecidableEq, Repr

/-- The concatenation law on observations: the joined path gives the same object, the same
    failure inside `p`, or the failure inside `q` numbered from the start of the joined path. -/
def checkConcat {V} [DecidableEq V] (plen : Nat) (joined : EvalObs V) (nested : Nested V) : Bool :=
  match nested with
  | .first o => decide (joined = o)
  | .second (.pae k c) => decide (joined = .pae (k + plen) c)
  | .second o => decide (joined = o)

end Glom.C18
