import Glom.Model.C12
import Glom.Spec.C11
/-
  C12 — reference semantics (`del` on the addressed key / index / attribute), the
  classification of failures the property speaks about, and the decidable checker.
-/
namespace Glom.C12
open Glom Glom.Mut Glom.C11

/-- the deletion a final step denotes: `[` → `del d[k]`, `.` → `delattr(d, k)`, a plain
    segment → the `delete` handler registered for the object's type; `none`: no handler -/
def refDelOp (env : MEnv) (h : Heap) (op : String) (dest arg : Val) : Option (Except PyExc Wr) :=
  if op == "[" then some (pyDelitem env h dest arg)
  else if op == "." then some (pyDelattr env h dest arg)
  else if op == "P" then
    (nearestHandler env.t.ct env.deleteReg (dest.clsName h)).map
      (fun hn => applyDeleteHandler env h hn dest arg)
  else none

/-- "a missing final key, index or attribute": what Python's `del` raises for it -/
def missingExc (e : PyExc) : Bool :=
  e.cls == "KeyError" || e.cls == "IndexError" || e.cls == "AttributeError"

/-- outcome the property prescribes -/
inductive RefRes where
  | ok (h : Heap) (hidden : Bool)      -- success: exactly Python's `del`
  | missingFinal (e : PyExc)           -- the final element is absent
  | missingParent (k : Nat) (e : PyExc)
  /-- deletion fault (immutable container, raising dunder, bad constructor args …).  `silent`: the
      failure is that of the `delete` handler registered for a plain segment — whatever it raises
      means "cannot be deleted": a PathDeleteError, and silently ignored under `ignore_missing`;
      otherwise (`T[..]` / `T.attr` raising something else than the lookup errors, a type without
      handler, a path the constructor rejects) the error is raised whatever `ignore_missing` says -/
  | fault (silent : Bool)
  /-- a wildcard match that cannot be deleted: an error, the heap as the deletions before it left it -/
  | partialFail (h : Heap) (hidden : Bool)
  | unsupported
  deriving DecidableEq, Repr

/-- which failures of the final step mean "cannot be deleted" (silently skipped under
    `ignore_missing`, a PathDeleteError otherwise): for `T[..]` / `T.attr` the lookup errors Python's
    `del` raises for an absent element; for a plain segment every exception of the registered handler.
    Stated by the reading, not taken from the extracted `except` clauses (`delExactOK` ties them). -/
def swallowed (op : String) (e : PyExc) : Bool := op == "P" || missingExc e

/-- delete at every match, in order; under `ignore_missing` the matches that "cannot be deleted"
    are skipped; `.error`: the first match whose deletion raises, with the heap left so far -/
def seqDel (env : MEnv) (ignore : Bool) (op : String) (arg : Val) :
    Heap → Bool → List Val → Except (Heap × Bool) (Heap × Bool)
  | h, hid, [] => .ok (h, hid)
  | h, hid, d :: ds =>
    match refDelOp env h op d arg with
    | some (.ok w) => seqDel env ignore op arg w.heap (hid || w.hidden) ds
    | some (.error e) => if ignore && swallowed op e then seqDel env ignore op arg h hid ds else .error (h, hid)
    | none => .error (h, hid)

def refDelete (env : MEnv) (h : Heap) (root : Val) (orig : List Step) (ignore : Bool) : RefRes :=
  match orig.getLast? with
  | none => .fault false
  | some (op, arg) =>
    if !finalOk op then .fault false else
    let parent := orig.dropLast
    match matchesOf env h parent 0 root with
    | .ok ds =>
      if hasStar parent then
        match seqDel env ignore op arg h false ds with
        | .ok (h', hid) => .ok h' hid
        | .error (h', hid) => .partialFail h' hid
      else
        match ds with
        | [d] =>
          match refDelOp env h op d arg with
          | some (.ok w) => .ok w.heap w.hidden
          | some (.error e) => if missingExc e then .missingFinal e else .fault (op == "P")
          | none => .fault false
        | _ => .unsupported
    | .fail k e _ => .missingParent k e
    | .unreg => .fault false
    | .unsupported => .unsupported

/-- **The property, evaluated on an observation** (of the model, or of the implementation). -/
def checkC12 (env : MEnv) (h : Heap) (target root : Val) (orig : List Step) (ignore : Bool)
    (obs : Obs) : Bool :=
  let unchanged := obs.heap == h && !obs.hidden
  let silent := obs.res == .ok target && unchanged
  match refDelete env h root orig ignore with
  | .ok h' hid => obs.res == .ok target && obs.heap == h' && obs.hidden == hid
  | .missingFinal _ =>
    if ignore then silent
    else unchanged && (match obs.res with | .err _ _ _ _ _ _ isPDelete _ => isPDelete | .ok _ => false)
  | .missingParent _ _ =>
    if ignore then silent
    else unchanged && (match obs.res with | .err _ _ _ _ isPAE _ _ _ => isPAE | .ok _ => false)
  | .fault silent =>
    unchanged && (if silent then
        (if ignore then obs.res == .ok target
         else (match obs.res with | .err _ _ _ _ _ _ isPDelete _ => isPDelete | .ok _ => false))
      else obs.res.isErr)
  | .partialFail h' hid => obs.res.isErr && obs.heap == h' && obs.hidden == hid
  | .unsupported => false

def observe (env : MEnv) (out : St × Except MErr Val) : Obs := C11.observe env out

/-- the prescription as the read-back step of a chain meets it: the heap the deletion leaves (the
    original one when a missing element / an undeletable one was silently ignored), or no read at all -/
def readRef (ref : RefRes) (h : Heap) (ignore : Bool) : C11.RefRes :=
  match ref with
  | .ok h' hid => .ok h' hid 0
  | .missingFinal _ => if ignore then .ok h false 0 else .fail true
  | .missingParent _ _ => if ignore then .ok h false 0 else .fail true
  | .fault s => if ignore && s then .ok h false 0 else .fail true
  | .partialFail _ _ => .fail false
  | .unsupported => .unsupported

/-- **Read-back after a delete, evaluated on an observation**: the later step sees exactly what the same
    path reads in the heap Python's `del` leaves (a PathAccessError at the deleted element when the read
    path goes through it); after a Delete that raised the read never runs.  For an S-rooted path: the
    scope variables as they were — a Delete in a chain cannot unbind a variable of an outer frame. -/
def checkReadDel (env : MEnv) (h : Heap) (root : Val) (orig : List Step) (ignore : Bool)
    (rd : List Step) (obsHeap : Heap) (ro : C11.ReadObs) : Bool :=
  C11.checkReadRef env h.length root (readRef (refDelete env h root orig ignore) h ignore) rd obsHeap ro

/-! ### well-formedness of the extracted facts -/

/-- exceptions the `delete` handlers can raise -/
def deleteHandlerExcs : List String :=
  ["TypeError", "IndexError", "KeyError", "AttributeError", "RuntimeError", "ValueError", "NotImplementedError"]

/-- the `except` clause of branch `op` of `_del_one` names classes covering all of `needed`,
    performs `kind`, raises PathDeleteError -/
def delCatches (env : MEnv) (op kind : String) (needed : List String) : Bool :=
  match branchOf env.delBr op with
  | some (k, caught, raises) =>
    k == kind && raises == "PathDeleteError" && needed.all (fun n => C01.caughtBy env.t caught ⟨n⟩)
  | none => false

/-- the `except` clauses of `_del_one` catch no more than the reading says: of what the item / attribute
    deletion primitives raise, `[` and `.` let RuntimeError and TypeError through -/
def delExactOK (env : MEnv) : Bool :=
  ["[", "."].all (fun op =>
    match branchOf env.delBr op with
    | some (_, caught, _) => ["RuntimeError", "TypeError"].all (fun n => !C01.caughtBy env.t caught ⟨n⟩)
    | none => false)

def WF (env : MEnv) : Bool :=
  C01.WF env.t &&
  C01.dispatchOf env.t "x" == some ("star", []) &&
  delCatches env "[" "delitem" ["KeyError", "IndexError"] &&
  delCatches env "." "delattr" ["AttributeError"] &&
  delCatches env "P" "handler" deleteHandlerExcs &&
  env.t.excTable.isSub "PathDeleteError" "PathAssignError" &&
  env.t.excTable.isSub "PathDeleteError" "GlomError" &&
  env.t.excTable.isSub "PathDeleteError" "PathDeleteError" &&
  env.t.excTable.isSub "PathAccessError" "PathAccessError" &&
  delExactOK env

/-- the hypotheses of the wildcard-free theorems, as one decidable test -/
def covered (env : MEnv) (orig : List Step) : Bool :=
  WF env && classesOK env && C01.wfSteps orig && intSafe orig

end Glom.C12
