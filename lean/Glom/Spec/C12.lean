import Glom.Model.C12
import Glom.Spec.C11
/-
  C12 — reference semantics (`del` on the addressed key / index / attribute), the
  classification of failures the property speaks about, and the decidable checker.
-/
namespace Glom.C12
open Glom Glom.Mut Glom.C11

/-- the deletion a final step denotes: `[` → `del d[k]`, `.` → `delattr(d, k)`, a plain
    segment → the `delete` handler registered for the object's type; `none`: no handler -/
def refDelOp (env : MEnv) (h : Heap) (op : String) (dest arg : Val) : Option (Except PyExc Wr) :=
  if op == "[" then some (pyDelitem env h dest arg)
  else if op == "." then some (pyDelattr env h dest arg)
  else if op == "P" then
    (nearestHandler env.t.ct env.deleteReg (dest.clsName h)).map
      (fun hn => applyDeleteHandler env h hn dest arg)
  else none

/-- "a missing final key, index or attribute": what Python's `del` raises for it -/
def missingExc (e : PyExc) : Bool :=
  e.cls == "KeyError" || e.cls == "IndexError" || e.cls == "AttributeError"

/-- outcome the property prescribes -/
inductive RefRes where
  | ok (h : Heap) (hidden : Bool)      -- success: exactly Python's `del`
  | missingFinal (e : PyExc)           -- the final element is absent
  | missingParent (k : Nat) (e : PyExc)
  | fault                              -- deletion fault (immutable container, raising dunder, bad constructor args …)
  | partialFail                        -- a wildcard match that cannot be deleted (nothing prescribed for the heap)
  | unsupported
  deriving DecidableEq, Repr

/-- delete at every match, in order; under `ignore_missing` absent elements are skipped -/
def seqDel (env : MEnv) (ignore : Bool) (op : String) (arg : Val) : Heap → Bool → List Val → Option (Heap × Bool)
  | h, hid, [] => some (h, hid)
  | h, hid, d :: ds =>
    match refDelOp env h op d arg with
    | some (.ok w) => seqDel env ignore op arg w.heap (hid || w.hidden) ds
    | some (.error e) => if ignore && missingExc e then seqDel env ignore op arg h hid ds else none
    | none => none

def refDelete (env : MEnv) (h : Heap) (root : Val) (orig : List Step) (ignore : Bool) : RefRes :=
  match orig.getLast? with
  | none => .fault
  | some (op, arg) =>
    if !finalOk op then .fault else
    let parent := orig.dropLast
    match matchesOf env h parent 0 root with
    | .ok ds =>
      if hasStar parent then
        match seqDel env ignore op arg h false ds with
        | some (h', hid) => .ok h' hid
        | none => .partialFail
      else
        match ds with
        | [d] =>
          match refDelOp env h op d arg with
          | some (.ok w) => .ok w.heap w.hidden
          | some (.error e) => if missingExc e then .missingFinal e else .fault
          | none => .fault
        | _ => .unsupported
    | .fail k e _ => .missingParent k e
    | .unreg => .fault
    | .unsupported => .unsupported

/-- **The property, evaluated on an observation** (of the model, or of the implementation). -/
def checkC12 (env : MEnv) (h : Heap) (target root : Val) (orig : List Step) (ignore : Bool)
    (obs : Obs) : Bool :=
  let unchanged := obs.heap == h && !obs.hidden
  let silent := obs.res == .ok target && unchanged
  match refDelete env h root orig ignore with
  | .ok h' hid => obs.res == .ok target && obs.heap == h' && obs.hidden == hid
  | .missingFinal _ =>
    if ignore then silent
    else unchanged && (match obs.res with | .err _ _ _ _ _ _ isPDelete _ => isPDelete | .ok _ => false)
  | .missingParent _ _ =>
    if ignore then silent
    else unchanged && (match obs.res with | .err _ _ _ _ isPAE _ _ _ => isPAE | .ok _ => false)
  | .fault => unchanged && (obs.res.isErr || (ignore && obs.res == .ok target))
  | .partialFail => obs.res.isErr || ignore
  | .unsupported => false

def observe (env : MEnv) (out : St × Except MErr Val) : Obs := C11.observe env out

/-! ### well-formedness of the extracted facts -/

/-- exceptions the `delete` handlers can raise -/
def deleteHandlerExcs : List String :=
  ["TypeError", "IndexError", "KeyError", "AttributeError", "RuntimeError", "ValueError", "NotImplementedError"]

/-- the `except` clause of branch `op` of `_del_one` names classes covering all of `needed`,
    performs `kind`, raises PathDeleteError -/
def delCatches (env : MEnv) (op kind : String) (needed : List String) : Bool :=
  match branchOf env.delBr op with
  | some (k, caught, raises) =>
    k == kind && raises == "PathDeleteError" && needed.all (fun n => C01.caughtBy env.t caught ⟨n⟩)
  | none => false

def WF (env : MEnv) : Bool :=
  C01.WF env.t &&
  C01.dispatchOf env.t "x" == some ("star", []) &&
  delCatches env "[" "delitem" ["KeyError", "IndexError"] &&
  delCatches env "." "delattr" ["AttributeError"] &&
  delCatches env "P" "handler" deleteHandlerExcs &&
  env.t.excTable.isSub "PathDeleteError" "PathAssignError" &&
  env.t.excTable.isSub "PathDeleteError" "GlomError" &&
  env.t.excTable.isSub "PathDeleteError" "PathDeleteError" &&
  env.t.excTable.isSub "PathAccessError" "PathAccessError"

/-- the hypotheses of the wildcard-free theorems, as one decidable test -/
def covered (env : MEnv) (orig : List Step) : Bool :=
  WF env && classesOK env && C01.wfSteps orig

end Glom.C12
