import Glom.Model.C15
/-
  C15 — reference semantics and the decidable checker.

  The property as a user would say it, on *values* (no heap is threaded, nothing
  is allocated or mutated; element contents are read from the ORIGINAL heap `h0`):

    Fold(sub, init, op)      = functools.reduce(op, iterate(glom(t, sub)), init())
    Sum / Count / Flatten    = the same with their fixed op / init
    Flatten(init='lazy')     = itertools.chain.from_iterable(items)
    flatten(levels = n)      = n-fold chain.from_iterable, the last one added into init()
    Merge / merge()          = successive `update`s into init(), last writer wins
    a non-iterable target    → FoldError
  plus: every evaluation's mutable result is a NEW object, and no pre-existing
  object changes.

  `iterate` is the target's iteration AT THE TIME OF THE CALL: the handler the
  registry's tables name for the target's class at that moment (`pureLk`, the
  memo-free first-lookup answer — which registered type is nearest is C13's
  subject), applied to the target.  A history is a list of evaluations and
  `register(…)` calls; the reference keeps the tables only (no memo).
-/
namespace Glom.C15
open Glom

instance decEqExcept {ε α : Type} [DecidableEq ε] [DecidableEq α] : DecidableEq (Except ε α) :=
  fun a b =>
    match a, b with
    | .ok x, .ok y => if h : x = y then isTrue (by rw [h]) else isFalse (fun h' => by injection h' with h'; exact h h')
    | .error x, .error y =>
      if h : x = y then isTrue (by rw [h]) else isFalse (fun h' => by injection h' with h'; exact h h')
    | .ok _, .error _ => isFalse (fun h => by cases h)
    | .error _, .ok _ => isFalse (fun h => by cases h)

/-- `init()` as a value -/
def initSV (h0 : Heap) : Init → Option SV
  | .int => some (.imm (.int 0))
  | .float => some (.imm (.float "0000000000000000"))
  | .str => some (.imm (.str ""))
  | .list => some (.cell (.list "list" []))
  | .tuple => some (.cell (.tuple "tuple" []))
  | .dict => some (.cell (.dict "dict" []))
  | .odict => some (.cell (.dict "OrderedDict" []))
  | .acc => some (.cell (.list "Acc" []))
  | .set => some (.cell (.set "set" []))
  | .notCallable => none
  | .copyOf v => load h0 v          -- a NEW object holding what OBJ holds
  | .shared v => load h0 v

/-- the value of `op(acc, v)` as `functools.reduce` sees it (what the call returns) -/
def foldRet (acc : SV) : OpRes → SV
  | .value sv => sv
  | .inplaceSelf o => .cell o
  | .inplaceNone _ => .imm .none
  | .writeOther _ _ => acc

/-- the value of `acc` after `op(acc, v)` was called for its effect (Merge) -/
def mergeRet (acc : SV) : OpRes → SV
  | .value _ => acc
  | .inplaceSelf o => .cell o
  | .inplaceNone o => .cell o
  | .writeOther _ _ => acc

def foldStep (f : OpFn) (h0 : Heap) (sv : SV) (v : Val) : Except Err SV :=
  (f h0 sv v).map (foldRet sv)

def mergeStep (f : OpFn) (h0 : Heap) (sv : SV) (v : Val) : Except Err SV :=
  (f h0 sv v).map (mergeRet sv)

/-- `functools.reduce(step, items, init)` in the exception monad (= `List.foldlM`, see
    `refReduce_eq_foldlM`) -/
def refReduce (step : SV → Val → Except Err SV) : List Val → SV → Except Err SV
  | [], sv => .ok sv
  | v :: vs, sv =>
    match step sv v with
    | .ok sv' => refReduce step vs sv'
    | .error e => .error e

/-- `chain.from_iterable` applied `n` times -/
def joinN (h0 : Heap) : Nat → List Val → Option (List Val)
  | 0, xs => some xs
  | n + 1, xs =>
    match joinWith (rawIter1 h0) xs with
    | some ys => joinN h0 n ys
    | none => none

/-- the items a Fold iterates over: `target_iter(glom(target, sub))`; a target without a
    registered `iterate` is a FoldError -/
def refItems (env : Env) (h0 : Heap) (sub : List Val) (target : Val) : Except Err (List Val) :=
  match evalSub h0 sub target with
  | .error e => .error e
  | .ok t =>
    match targetIter env h0 t with
    | .ok items => .ok items
    | .error .unregistered => .error .fold
    | .error (.raised c) => .error (.raised c)

/-- a reference result -/
inductive RefRes where
  | err (e : Err)
  | imm (v : Val)
  | same (v : Val)       -- the very object `v` (only `flatten(levels=0)`)
  | new (o : Obj)        -- a NEW object with this content
  deriving DecidableEq, Repr

def RefRes.ofSV : Except Err SV → RefRes
  | .error e => .err e
  | .ok (.imm v) => .imm v
  | .ok (.cell o) => .new o

def withInit (h0 : Heap) (i : Init) (f : SV → Except Err SV) : RefRes :=
  match initSV h0 i with
  | some sv => RefRes.ofSV (f sv)
  | none => .err typeErr

/-- the reduction proper, given the items -/
def refKind (h0 : Heap) (s : FoldSpec) (items : List Val) : RefRes :=
  match s.kind with
  | .fold => withInit h0 s.init (refReduce (foldStep (guardOp (pyOp s.op)) h0) items)
  | .flatten =>
    if s.lazy then .new (.tuple "chain" items)
    else withInit h0 s.init (refReduce (foldStep (guardOp (pyOp s.op)) h0) items)
  | .merge => withInit h0 s.init (refReduce (mergeStep (guardOp (pyOp s.op)) h0) items)

/-- one evaluation of a spec object, as a value -/
def refSpec (env : Env) (h0 : Heap) (s : FoldSpec) (target : Val) : RefRes :=
  match refItems env h0 s.sub target with
  | .error e => .err e
  | .ok items => refKind h0 s items

/-- `flatten(levels = n+1)`: n times `chain.from_iterable`, then added into `init()`;
    `init='lazy'`: n+1 times `chain.from_iterable` (a chain object, shown by the items
    it will yield) -/
def refFlattenFn (env : Env) (h0 : Heap) (sub : List Val) (init : InitArg) (levels : Int) (target : Val) :
    RefRes :=
  if levels == 0 then .same target
  else if levels < 0 then .err (.raised "ValueError")
  else if init == .init .notCallable then .err typeErr
  else
    match refItems env h0 sub target with
    | .error e => .err e
    | .ok items =>
      match joinN h0 (levels.toNat - 1) items with
      | none => .err typeErr
      | some ys =>
        match init with
        | .lazy => .new (.tuple "chain" ys)
        | .init i => withInit h0 i (refReduce (foldStep (guardOp (pyOp .iadd)) h0) ys)

/-- the op a Merge ends up with -/
def refMergeOp (h0 : Heap) (init : Init) (op : MergeOpArg) : Except Err Op :=
  let direct (o : Op) : Except Err Op := if init == .notCallable then .error typeErr else .ok o
  let byName (n : String) : Except Err Op :=
    if init == .notCallable then .error typeErr else
    match initSV h0 init with
    | some (.cell o) => match methodOf o.cls n with
      | some o => .ok o
      | none => .error (.raised "ValueError")
    | some (.imm v) => match methodOf (v.clsName h0) n with
      | some o => .ok o
      | none => .error (.raised "ValueError")
    | none => .error (.raised "ValueError")
  match op with
  | .none => byName "update"
  | .name n => byName n
  | .iadd => direct .iadd
  | .firstWins => direct .firstWins
  | .dictUnion => direct .dictUnion
  | .notCallable => .error (.raised "ValueError")

def refMerge (env : Env) (h0 : Heap) (sub : List Val) (init : Init) (op : MergeOpArg) (target : Val) : RefRes :=
  match refMergeOp h0 init op with
  | .error e => .err e
  | .ok o => refSpec env h0 ⟨.merge, sub, init, o, false⟩ target

/-- the reference meaning of a program on one target -/
def refProg (env : Env) (h0 : Heap) (p : Prog) (target : Val) : RefRes :=
  match p with
  | .fold sub i op => refSpec env h0 (mkFold sub i op) target
  | .sum sub i => refSpec env h0 (mkSum sub i) target
  | .count => refSpec env h0 mkCount target
  | .flatten sub i => refSpec env h0 (mkFlatten sub i) target
  | .merge sub i op => refMerge env h0 sub i op target
  | .flattenFn sub i l => refFlattenFn env h0 sub i l target
  | .mergeFn sub i op => refMerge env h0 sub i op target
  | .oddCall c =>
    match c with
    | .extraKw => .err typeErr
    | .levelsNone => .err typeErr
    | .levelsFloat bits =>
      match floatOfHex bits with
      | none => .err typeErr
      | some x => if x == 0 then .same target else if x < 0 then .err (.raised "ValueError") else .err typeErr

/-! ### vocabulary of the special-case theorems -/

/-- the integers a list of int / bool values denotes -/
def allInts : List Val → Option (List Int)
  | [] => some []
  | v :: vs =>
    match asInt v, allInts vs with
    | some i, some is => some (i :: is)
    | _, _ => none

/-- the entry lists of a list of dict objects -/
def dictsOf (h0 : Heap) : List Val → Option (List (List (Val × Val)))
  | [] => some []
  | .ref a :: vs =>
    match h0[a]?, dictsOf h0 vs with
    | some (.dict _ es), some ds => some (es :: ds)
    | _, _ => none
  | _ :: _ => none

/-- the value of the LAST pair whose key equals `k` -/
def lastPair : List (Val × Val) → Val → Option Val
  | [], _ => none
  | p :: ps, k =>
    match lastPair ps k with
    | some v => some v
    | none => if pyKeyEq p.1 k then some p.2 else none

/-- the value of the FIRST pair whose key equals `k` -/
def firstPair : List (Val × Val) → Val → Option Val
  | [], _ => none
  | p :: ps, k => if pyKeyEq p.1 k then some p.2 else firstPair ps k

/-! ### observations -/

/-- what one evaluation shows -/
inductive R where
  | err (cls : String) (isGlomError : Bool)
  | imm (v : Val)
  | input (a : Nat)        -- the result IS the pre-existing object at address `a`
  | prev (i : Nat)         -- the result IS the result object of evaluation `i` of this run
  | fresh (o : Obj)        -- a new object with this content (a chain object is shown consumed)
  deriving DecidableEq, Repr

structure Obs where
  results : List R
  after : Heap             -- the pre-existing objects, re-read after all evaluations
  deriving DecidableEq, Repr

def errR (env : Env) : Err → R
  | .fold => .err "FoldError" (env.excTable.isSub "FoldError" "GlomError")
  | .raised c => .err c (env.excTable.isSub c "GlomError")

/-- a new object as an observer sees it: a chain is consumed -/
def showNew (env : Env) (h : Heap) (o : Obj) : R :=
  match o with
  | .tuple c xs =>
    if c == "chain" then
      match joinWith (rawIter1 h) xs with
      | some ys =>
        match firstRaise ys with
        | some c => errR env (.raised c)          -- the source raises while the chain is consumed
        | none => .fresh (.tuple "chain" ys)
      | none => errR env typeErr
    else .fresh o
  | _ => .fresh o

/-- a pre-existing object as an observer sees it: by identity — except a plain tuple,
    which is immutable and therefore shown by content (CPython returns `t` itself for
    `() + t`, so identity of tuples carries no information) -/
def showInput (h : Heap) (a : Nat) : R :=
  match h[a]? with
  | some (.tuple c xs) => if c == "tuple" then .fresh (.tuple c xs) else .input a
  | _ => .input a

/-- a reference result as an observer sees it -/
def showRef (env : Env) (h0 : Heap) : RefRes → R
  | .err e => errR env e
  | .imm v => .imm v
  | .same (.ref a) => showInput h0 a
  | .same v => .imm v
  | .new o => showNew env h0 o

/-- what the property expects an evaluation to show -/
def expectR (env : Env) (h0 : Heap) (p : Prog) (target : Val) : R :=
  showRef env h0 (refProg env h0 p target)

/-- addresses of the earlier results -/
def prevIndex (earlier : List (Except Err Val)) (a : Nat) : Option Nat :=
  let idx := earlier.findIdx (fun r => match r with | .ok (.ref b) => b == a | _ => false)
  if idx < earlier.length then some idx else none

def observeOne (env : Env) (n0 : Nat) (hfin : Heap) (earlier : List (Except Err Val)) : Except Err Val → R
  | .error e => errR env e
  | .ok (.ref a) =>
    if a < n0 then showInput hfin a
    else match prevIndex earlier a with
      | some i => .prev i
      | none => match hfin[a]? with
        | some o => showNew env hfin o
        | none => .err "<dangling>" false
  | .ok v => .imm v

def observeAll (env : Env) (n0 : Nat) (hfin : Heap) : List (Except Err Val) → List (Except Err Val) → List R
  | _, [] => []
  | earlier, r :: rs => observeOne env n0 hfin earlier r :: observeAll env n0 hfin (earlier ++ [r]) rs

/-- the model's run reduced to what the harness also observes of the implementation -/
def observe (env : Env) (n0 : Nat) (out : List (Except Err Val) × Heap) : Obs :=
  ⟨observeAll env n0 out.2 [] out.1, out.2.take n0⟩

/-! ### hypotheses -/

def Init.allocates : Init → Bool
  | .shared _ => false
  | _ => true

def InitArg.allocates : InitArg → Bool
  | .lazy => true
  | .init i => i.allocates

/-- "`init` allocates": it returns a new object (or an immutable immediate) on every call -/
def Prog.initAllocates : Prog → Bool
  | .fold _ i _ => i.allocates
  | .sum _ i => i.allocates
  | .count => true
  | .flatten _ i => i.allocates
  | .merge _ i _ => i.allocates
  | .flattenFn _ i _ => i.allocates
  | .mergeFn _ i _ => i.allocates
  | .oddCall _ => true

/-- "`op` is lawful": it does not write to anything but its accumulator -/
def Prog.opLawful : Prog → Bool
  | .fold _ _ op => op != .pokeElem
  | _ => true

/-- the hypotheses under which the property speaks about a run at all: `init` allocates, `op` writes
    to nothing but its accumulator -/
def Prog.hyps (p : Prog) : Bool := p.initAllocates && p.opLawful

def Val.inb (n : Nat) : Val → Bool
  | .ref a => a < n
  | _ => true

/-- all values stored in a cell (dict keys included) -/
def cellVals : Obj → List Val
  | .list _ xs => xs
  | .tuple _ xs => xs
  | .set _ xs => xs
  | .dict _ es => es.flatMap (fun e => [e.1, e.2])
  | .inst _ as => as.map (·.2)

def objNotChain : Obj → Bool
  | .tuple c _ => c != "chain"
  | _ => true

/-- no dangling references: every reference stored in the heap points into the heap;
    and no chain objects among the inputs (they only ever arise as results) -/
def closedHeap (h : Heap) : Bool :=
  h.all (fun o => (cellVals o).all (Val.inb h.length) && objNotChain o)

/-- no generator of the heap raises: no raise-marker is stored in any cell -/
def noMarkers (h : Heap) : Bool :=
  h.all (fun o => (cellVals o).all (fun v => (raiseMarker v).isNone))

def Init.vals : Init → List Val
  | .shared v => [v]
  | .copyOf v => [v]
  | _ => []

def InitArg.vals : InitArg → List Val
  | .lazy => []
  | .init i => i.vals

def progVals : Prog → List Val
  | .fold s i _ => s ++ i.vals
  | .sum s i => s ++ i.vals
  | .count => []
  | .flatten s i => s ++ i.vals
  | .merge s i _ => s ++ i.vals
  | .flattenFn s i _ => s ++ i.vals
  | .mergeFn s i _ => s ++ i.vals
  | .oddCall _ => []

/-- `lambda: type(OBJ)(OBJ)` is only built over a list / tuple / dict object (or an immediate) -/
def Init.wf (h0 : Heap) : Init → Bool
  | .copyOf (.ref a) => match h0[a]? with
    | some o => copyable o
    | none => false
  | .notCallable => false            -- never called: the constructors refuse it (`Prog.initWF` lets it pass)
  | _ => true

/-- … or it is not callable at all, and the constructor says so -/
def Init.wfOrRefused (h0 : Heap) (i : Init) : Bool := i == .notCallable || i.wf h0

def InitArg.wf (h0 : Heap) : InitArg → Bool
  | .lazy => true
  | .init i => i.wfOrRefused h0

def Prog.initWF (h0 : Heap) : Prog → Bool
  | .fold _ i _ => i.wfOrRefused h0
  | .sum _ i => i.wfOrRefused h0
  | .count => true
  | .flatten _ i => i.wf h0
  | .merge _ i _ => i.wfOrRefused h0
  | .flattenFn _ i _ => i.wf h0
  | .mergeFn _ i _ => i.wfOrRefused h0
  | .oddCall _ => true

/-- well-formed case: the heap is closed and targets point into it -/
def wfCase (h0 : Heap) (targets : List Val) : Bool :=
  closedHeap h0 && targets.all (Val.inb h0.length)

/-! ### the checker -/

/-- The property evaluated on an observation (the model's or the implementation's), under ONE
    handler table: no pre-existing object changed, and every evaluation shows exactly what the
    reference reduction computes — in particular a container result is a *new*
    object (never an input, never an earlier result). -/
def checkC15 (env : Env) (h0 : Heap) (p : Prog) (targets : List Val) (obs : Obs) : Bool :=
  !p.hyps ||
  (obs.after == h0 && obs.results == targets.map (expectR env h0 p))

/-- what the property expects a HISTORY to show: every evaluation reduces over the iteration the
    registry's tables name at that moment (registrations made so far, no memo) -/
def expectAll (H : Hier) (env : Env) (h0 : Heap) (p : Prog) : List Event → Reg → List R
  | [], _ => []
  | .eval t :: es, r => expectR (envOf H env r) h0 p t :: expectAll H env h0 p es r
  | .register c e kw :: es, r => expectAll H env h0 p es (C13.register H r c e kw)
  | .probe _ :: es, r => expectAll H env h0 p es r       -- a lookup registers nothing: the tables are the same

/-- … of a whole run: a spec class whose constructor refuses its arguments evaluates nothing -/
def expectHistory (H : Hier) (env : Env) (h0 : Heap) (p : Prog) (events : List Event) (r : Reg) : List R :=
  match ctorErr p with
  | some e => (Event.targets events).map (fun _ => errR env e)
  | none => expectAll H env h0 p events r

/-- The property evaluated on the observation of a history against the registry `r0`. -/
def checkC15R (H : Hier) (env : Env) (r0 : Reg) (h0 : Heap) (p : Prog) (events : List Event) (obs : Obs) : Bool :=
  !p.hyps ||
  (obs.after == h0 && obs.results == expectHistory H env h0 p events r0)

/-! ### well-formedness of the extracted facts -/

/-- the conversions of exceptions the theorems rely on -/
def WFConv (env : Env) : Bool :=
  regLookup env.foldCatch "UnregisteredTarget" == some "FoldError" &&
  regLookup env.iterCatch "Exception" == some "TypeError" &&
  env.excTable.isSub "FoldError" "GlomError" &&
  !(env.excTable.isSub "TypeError" "GlomError") && !(env.excTable.isSub "ValueError" "GlomError")

/-- an itertools.chain object is iterated with `iter` (needed by `flatten(levels ≥ 2)` only) -/
def chainIter (env : Env) : Bool := decide (env.lk "chain" = .ok "iter")

def WF (env : Env) : Bool := WFConv env && chainIter env

/-- does the program iterate chain objects of its own making? -/
def Prog.usesChain : Prog → Bool
  | .flattenFn _ _ l => decide (2 ≤ l)
  | _ => false

/-- along a history: whenever an evaluation happens, chain objects are iterated with `iter` -/
def chainIterAlong (H : Hier) (env : Env) : List Event → Reg → Bool
  | [], _ => true
  | .eval _ :: es, r => chainIter (envOf H env r) && chainIterAlong H env es r
  | .register c e kw :: es, r => chainIterAlong H env es (C13.register H r c e kw)
  | .probe _ :: es, r => chainIterAlong H env es r

/-- the documented default registrations, as answers of a handler table -/
def defaultsOK (lk : String → Except IterErr String) : Bool :=
  ["list", "tuple", "dict", "OrderedDict", "set", "frozenset"].all (fun c => decide (lk c = .ok "iter")) &&
  ["object", "int", "bool", "float", "NoneType", "str", "bytes"].all (fun c => decide (lk c = .error .unregistered))

/-- source-shape facts of glom/reduction.py and grouping.target_iter the model's control flow is a
    transcription of: EVERY statement of every method (canonical form: parameters a0…, locals v0… in
    order of first binding, `raise X(…)` cut to `raise X`, docstrings dropped), the methods and bases
    of every class, what the module defines, and every write to `self` outside a constructor -/
structure SrcFacts where
  defaults : List (String × String × String)
  superArgs : List (String × String × String)
  bodies : List (String × List String)
  methods : List (String × List String)
  module : List String
  selfWrites : List String
  absIterExcluded : List String
  registerResetsMemo : Bool

def has3 (t : List (String × String × String)) (a b c : String) : Bool := t.contains (a, b, c)

def bodyOf (f : SrcFacts) (n : String) : Option (List String) := (f.bodies.find? (·.1 == n)).map (·.2)
def membersOf (f : SrcFacts) (n : String) : Option (List String) := (f.methods.find? (·.1 == n)).map (·.2)

def foldLoopBody (callLine : String) : List String :=
  ["v0, v1 = (self.init(), self.op)", "for v2 in a0:", callLine, "return v0"]

def WFSrc (f : SrcFacts) : Bool :=
  -- the bodies, statement by statement
  bodyOf f "Fold.__init__" == some ["self.subspec = a0", "self.init = a1", "self.op = a2",
    "if not callable(a2):", "  raise TypeError", "if not callable(a1):", "  raise TypeError"] &&
  bodyOf f "Fold.glomit" == some ["v0 = False",
    "if a1[MODE] is GROUP and a1.get(CUR_AGG) is None:", "  a1[CUR_AGG] = self", "  v0 = True",
    "if self.subspec is not T:", "  a0 = a1[glom](a0, self.subspec, a1)",
    "if v0:", "  return self._agg(a0, a1[ACC_TREE])",
    -- ONLY the call of target_iter is inside the try; `_fold` runs after it
    "try:", "  v1 = target_iter(a0, a1)", "except UnregisteredTarget as v2:", "  raise FoldError",
    "return self._fold(v1)"] &&
  bodyOf f "Fold._fold" == some (foldLoopBody "  v0 = v1(v0, v2)") &&
  bodyOf f "Merge._fold" == some (foldLoopBody "  v1(v0, v2)") &&
  bodyOf f "Flatten._fold" == some ["if self.lazy:", "  return itertools.chain.from_iterable(a0)",
    "return super()._fold(a0)"] &&
  bodyOf f "Sum.__init__" == some ["super().__init__(subspec=a0, init=a1, op=operator.iadd)"] &&
  bodyOf f "Count.__init__" == some ["super().__init__(subspec=T, init=int, op=lambda cur, val: cur + 1)"] &&
  bodyOf f "Flatten.__init__" == some ["if a1 == 'lazy':", "  self.lazy = True", "  a1 = list", "else:",
    "  self.lazy = False", "super().__init__(subspec=a0, init=a1, op=operator.iadd)"] &&
  bodyOf f "Merge.__init__" == some ["if a2 is None:", "  a2 = 'update'", "if isinstance(a2, basestring):",
    "  v0 = a1()", "  a2 = getattr(type(v0), a2, None)", "if not callable(a2):", "  raise ValueError",
    "super().__init__(subspec=a0, init=a1, op=a2)"] &&
  bodyOf f "flatten" == some ["v0 = a1.pop('spec', T)", "v1 = a1.pop('init', list)", "v2 = a1.pop('levels', 1)",
    "if a1:", "  raise TypeError", "if v2 == 0:", "  return a0", "if v2 < 0:", "  raise ValueError",
    "v3 = (v0,)", "v3 += (Flatten(init='lazy'),) * (v2 - 1)", "v3 += (Flatten(init=v1),)",
    "return glom(a0, v3)"] &&
  bodyOf f "merge" == some ["v0 = a1.pop('spec', T)", "v1 = a1.pop('init', dict)", "v2 = a1.pop('op', None)",
    "if a1:", "  raise TypeError", "v3 = Merge(v0, v1, v2)", "return glom(a0, v3)"] &&
  -- target_iter: the lookup is OUTSIDE the try, the handler call inside, `except Exception` → TypeError
  bodyOf f "target_iter" == some [
    "v0 = a1[TargetRegistry].get_handler('iterate', a0, path=a1[Path])",
    "try:", "  v1 = v0(a0)", "except Exception as v2:", "  raise TypeError", "return v1"] &&
  -- no other method, no other base, nothing else at module level: an override (say a `Flatten.glomit`)
  -- or a monkey-patch would show here
  membersOf f "Fold" == some ["__init__", "glomit", "_fold", "_agg", "__repr__"] &&
  membersOf f "Sum" == some ["__init__", "__repr__"] &&
  membersOf f "Count" == some ["<__slots__ = ()>", "__init__", "__repr__"] &&
  membersOf f "Flatten" == some ["__init__", "_fold", "__repr__"] &&
  membersOf f "Merge" == some ["__init__", "_fold", "_agg"] &&
  membersOf f "FoldError" == some [] &&
  membersOf f "Fold.__bases__" == some [] && membersOf f "Sum.__bases__" == some ["Fold"] &&
  membersOf f "Count.__bases__" == some ["Fold"] && membersOf f "Flatten.__bases__" == some ["Fold"] &&
  membersOf f "Merge.__bases__" == some ["Fold"] && membersOf f "FoldError.__bases__" == some ["GlomError"] &&
  f.module == ["<_MISSING = make_sentinel('_MISSING')>", "<try: basestring except NameError: basestring = str>",
    "FoldError", "Fold", "Sum", "Count", "Flatten", "flatten", "Merge", "merge"] &&
  -- a spec object is not written to once it is built (what `lazy`, `init`, `op` say stays what the
  -- constructor made of its arguments): no store to `self` outside `__init__`
  f.selfWrites.isEmpty &&
  -- defaults
  has3 f.defaults "Fold" "op" "operator.iadd" && has3 f.defaults "Sum" "init" "int" &&
  has3 f.defaults "Sum" "subspec" "T" && has3 f.defaults "Flatten" "init" "list" &&
  has3 f.defaults "Flatten" "subspec" "T" && has3 f.defaults "Merge" "init" "dict" &&
  has3 f.defaults "Merge" "op" "None" && has3 f.defaults "Merge" "subspec" "T" &&
  f.absIterExcluded.contains "str" && f.absIterExcluded.contains "bytes" &&
  -- `register` ends with an unconditional reset of the lookup memo (the shape `C13.register` transcribes)
  f.registerResetsMemo

end Glom.C15
