import Glom.Model.C15
/-
  C15 — reference semantics and the decidable checker.

  The property as a user would say it, on *values* (no heap is threaded, nothing
  is allocated or mutated; element contents are read from the ORIGINAL heap `h0`):

    Fold(sub, init, op)      = functools.reduce(op, iterate(glom(t, sub)), init())
    Sum / Count / Flatten    = the same with their fixed op / init
    Flatten(init='lazy')     = itertools.chain.from_iterable(items)
    flatten(levels = n)      = n-fold chain.from_iterable, the last one added into init()
    Merge / merge()          = successive `update`s into init(), last writer wins
    a non-iterable target    → FoldError
  plus: every evaluation's mutable result is a NEW object, and no pre-existing
  object changes.

  `iterate` is the target's iteration AT THE TIME OF THE CALL: the handler the
  registry's tables name for the target's class at that moment (`pureLk`, the
  memo-free first-lookup answer — which registered type is nearest is C13's
  subject), applied to the target.  A history is a list of evaluations and
  `register(…)` calls; the reference keeps the tables only (no memo).
-/
namespace Glom.C15
open Glom

instance decEqExcept {ε α : Type} [DecidableEq ε] [DecidableEq α] : DecidableEq (Except ε α) :=
  fun a b =>
    match a, b with
    | .ok x, .ok y => if h : x = y then isTrue (by rw [h]) else isFalse (fun h' => by injection h' with h'; exact h h')
    | .error x, .error y =>
      if h : x = y then isTrue (by rw [h]) else isFalse (fun h' => by injection h' with h'; exact h h')
    | .ok _, .error _ => isFalse (fun h => by cases h)
    | .error _, .ok _ => isFalse (fun h => by cases h)

/-- `init()` as a value -/
def initSV (h0 : Heap) : Init → Option SV
  | .int => some (.imm (.int 0))
  | .float => some (.imm (.float "0000000000000000"))
  | .str => some (.imm (.str ""))
  | .list => some (.cell (.list "list" []))
  | .tuple => some (.cell (.tuple "tuple" []))
  | .dict => some (.cell (.dict "dict" []))
  | .odict => some (.cell (.dict "OrderedDict" []))
  | .acc => some (.cell (.list "Acc" []))
  | .copyOf v => load h0 v          -- a NEW object holding what OBJ holds
  | .shared v => load h0 v

/-- the value of `op(acc, v)` as `functools.reduce` sees it (what the call returns) -/
def foldRet : OpRes → SV
  | .value sv => sv
  | .inplaceSelf o => .cell o
  | .inplaceNone _ => .imm .none

/-- the value of `acc` after `op(acc, v)` was called for its effect (Merge) -/
def mergeRet (acc : SV) : OpRes → SV
  | .value _ => acc
  | .inplaceSelf o => .cell o
  | .inplaceNone o => .cell o

def foldStep (f : OpFn) (h0 : Heap) (sv : SV) (v : Val) : Except Err SV :=
  (f h0 sv v).map foldRet

def mergeStep (f : OpFn) (h0 : Heap) (sv : SV) (v : Val) : Except Err SV :=
  (f h0 sv v).map (mergeRet sv)

/-- `functools.reduce(step, items, init)` in the exception monad (= `List.foldlM`, see
    `refReduce_eq_foldlM`) -/
def refReduce (step : SV → Val → Except Err SV) : List Val → SV → Except Err SV
  | [], sv => .ok sv
  | v :: vs, sv =>
    match step sv v with
    | .ok sv' => refReduce step vs sv'
    | .error e => .error e

/-- `chain.from_iterable` applied `n` times -/
def joinN (h0 : Heap) : Nat → List Val → Option (List Val)
  | 0, xs => some xs
  | n + 1, xs =>
    match joinWith (rawIter1 h0) xs with
    | some ys => joinN h0 n ys
    | none => none

/-- the items a Fold iterates over: `target_iter(glom(target, sub))`; a target without a
    registered `iterate` is a FoldError -/
def refItems (env : Env) (h0 : Heap) (sub : List Val) (target : Val) : Except Err (List Val) :=
  match evalSub h0 sub target with
  | .error e => .error e
  | .ok t =>
    match targetIter env h0 t with
    | .ok items => .ok items
    | .error .unregistered => .error .fold
    | .error (.raised c) => .error (.raised c)

/-- a reference result -/
inductive RefRes where
  | err (e : Err)
  | imm (v : Val)
  | same (v : Val)       -- the very object `v` (only `flatten(levels=0)`)
  | new (o : Obj)        -- a NEW object with this content
  deriving DecidableEq, Repr

def RefRes.ofSV : Except Err SV → RefRes
  | .error e => .err e
  | .ok (.imm v) => .imm v
  | .ok (.cell o) => .new o

def withInit (h0 : Heap) (i : Init) (f : SV → Except Err SV) : RefRes :=
  match initSV h0 i with
  | some sv => RefRes.ofSV (f sv)
  | none => .err typeErr

/-- the reduction proper, given the items -/
def refKind (h0 : Heap) (s : FoldSpec) (items : List Val) : RefRes :=
  match s.kind with
  | .fold => withInit h0 s.init (refReduce (foldStep (pyOp s.op) h0) items)
  | .flatten =>
    if s.lazy then .new (.tuple "chain" items)
    else withInit h0 s.init (refReduce (foldStep (pyOp s.op) h0) items)
  | .merge => withInit h0 s.init (refReduce (mergeStep (pyOp s.op) h0) items)

/-- one evaluation of a spec object, as a value -/
def refSpec (env : Env) (h0 : Heap) (s : FoldSpec) (target : Val) : RefRes :=
  match refItems env h0 s.sub target with
  | .error e => .err e
  | .ok items => refKind h0 s items

/-- `flatten(levels = n+1)`: n times `chain.from_iterable`, then added into `init()`;
    `init='lazy'`: n+1 times `chain.from_iterable` (a chain object, shown by the items
    it will yield) -/
def refFlattenFn (env : Env) (h0 : Heap) (sub : List Val) (init : InitArg) (levels : Int) (target : Val) :
    RefRes :=
  if levels == 0 then .same target
  else if levels < 0 then .err (.raised "ValueError")
  else
    match refItems env h0 sub target with
    | .error e => .err e
    | .ok items =>
      match joinN h0 (levels.toNat - 1) items with
      | none => .err typeErr
      | some ys =>
        match init with
        | .lazy => .new (.tuple "chain" ys)
        | .init i => withInit h0 i (refReduce (foldStep (pyOp .iadd) h0) ys)

/-- the op a Merge ends up with -/
def refMergeOp (h0 : Heap) (init : Init) (op : MergeOpArg) : Except Err Op :=
  let byName (n : String) : Except Err Op :=
    match initSV h0 init with
    | some (.cell o) => match methodOf o.cls n with
      | some o => .ok o
      | none => .error (.raised "ValueError")
    | some (.imm v) => match methodOf (v.clsName h0) n with
      | some o => .ok o
      | none => .error (.raised "ValueError")
    | none => .error (.raised "ValueError")
  match op with
  | .none => byName "update"
  | .name n => byName n
  | .iadd => .ok .iadd
  | .firstWins => .ok .firstWins

def refMerge (env : Env) (h0 : Heap) (sub : List Val) (init : Init) (op : MergeOpArg) (target : Val) : RefRes :=
  match refMergeOp h0 init op with
  | .error e => .err e
  | .ok o => refSpec env h0 ⟨.merge, sub, init, o, false⟩ target

/-- the reference meaning of a program on one target -/
def refProg (env : Env) (h0 : Heap) (p : Prog) (target : Val) : RefRes :=
  match p with
  | .fold sub i op => refSpec env h0 (mkFold sub i op) target
  | .sum sub i => refSpec env h0 (mkSum sub i) target
  | .count => refSpec env h0 mkCount target
  | .flatten sub i => refSpec env h0 (mkFlatten sub i) target
  | .merge sub i op => refMerge env h0 sub i op target
  | .flattenFn sub i l => refFlattenFn env h0 sub i l target
  | .mergeFn sub i op => refMerge env h0 sub i op target

/-! ### vocabulary of the special-case theorems -/

/-- the integers a list of int / bool values denotes -/
def allInts : List Val → Option (List Int)
  | [] => some []
  | v :: vs =>
    match asInt v, allInts vs with
    | some i, some is => some (i :: is)
    | _, _ => none

/-- the entry lists of a list of dict objects -/
def dictsOf (h0 : Heap) : List Val → Option (List (List (Val × Val)))
  | [] => some []
  | .ref a :: vs =>
    match h0[a]?, dictsOf h0 vs with
    | some (.dict _ es), some ds => some (es :: ds)
    | _, _ => none
  | _ :: _ => none

/-- the value of the LAST pair whose key equals `k` -/
def lastPair : List (Val × Val) → Val → Option Val
  | [], _ => none
  | p :: ps, k =>
    match lastPair ps k with
    | some v => some v
    | none => if pyKeyEq p.1 k then some p.2 else none

/-- the value of the FIRST pair whose key equals `k` -/
def firstPair : List (Val × Val) → Val → Option Val
  | [], _ => none
  | p :: ps, k => if pyKeyEq p.1 k then some p.2 else firstPair ps k

/-! ### observations -/

/-- what one evaluation shows -/
inductive R where
  | err (cls : String) (isGlomError : Bool)
  | imm (v : Val)
  | input (a : Nat)        -- the result IS the pre-existing object at address `a`
  | prev (i : Nat)         -- the result IS the result object of evaluation `i` of this run
  | fresh (o : Obj)        -- a new object with this content (a chain object is shown consumed)
  deriving DecidableEq, Repr

structure Obs where
  results : List R
  after : Heap             -- the pre-existing objects, re-read after all evaluations
  deriving DecidableEq, Repr

def errR (env : Env) : Err → R
  | .fold => .err "FoldError" (env.excTable.isSub "FoldError" "GlomError")
  | .raised c => .err c (env.excTable.isSub c "GlomError")

/-- a new object as an observer sees it: a chain is consumed -/
def showNew (env : Env) (h : Heap) (o : Obj) : R :=
  match o with
  | .tuple c xs =>
    if c == "chain" then
      match joinWith (rawIter1 h) xs with
      | some ys => .fresh (.tuple "chain" ys)
      | none => errR env typeErr
    else .fresh o
  | _ => .fresh o

/-- a pre-existing object as an observer sees it: by identity — except a plain tuple,
    which is immutable and therefore shown by content (CPython returns `t` itself for
    `() + t`, so identity of tuples carries no information) -/
def showInput (h : Heap) (a : Nat) : R :=
  match h[a]? with
  | some (.tuple c xs) => if c == "tuple" then .fresh (.tuple c xs) else .input a
  | _ => .input a

/-- a reference result as an observer sees it -/
def showRef (env : Env) (h0 : Heap) : RefRes → R
  | .err e => errR env e
  | .imm v => .imm v
  | .same (.ref a) => showInput h0 a
  | .same v => .imm v
  | .new o => showNew env h0 o

/-- what the property expects an evaluation to show -/
def expectR (env : Env) (h0 : Heap) (p : Prog) (target : Val) : R :=
  showRef env h0 (refProg env h0 p target)

/-- addresses of the earlier results -/
def prevIndex (earlier : List (Except Err Val)) (a : Nat) : Option Nat :=
  let idx := earlier.findIdx (fun r => match r with | .ok (.ref b) => b == a | _ => false)
  if idx < earlier.length then some idx else none

def observeOne (env : Env) (n0 : Nat) (hfin : Heap) (earlier : List (Except Err Val)) : Except Err Val → R
  | .error e => errR env e
  | .ok (.ref a) =>
    if a < n0 then showInput hfin a
    else match prevIndex earlier a with
      | some i => .prev i
      | none => match hfin[a]? with
        | some o => showNew env hfin o
        | none => .err "<dangling>" false
  | .ok v => .imm v

def observeAll (env : Env) (n0 : Nat) (hfin : Heap) : List (Except Err Val) → List (Except Err Val) → List R
  | _, [] => []
  | earlier, r :: rs => observeOne env n0 hfin earlier r :: observeAll env n0 hfin (earlier ++ [r]) rs

/-- the model's run reduced to what the harness also observes of the implementation -/
def observe (env : Env) (n0 : Nat) (out : List (Except Err Val) × Heap) : Obs :=
  ⟨observeAll env n0 out.2 [] out.1, out.2.take n0⟩

/-! ### hypotheses -/

def Init.allocates : Init → Bool
  | .shared _ => false
  | _ => true

def InitArg.allocates : InitArg → Bool
  | .lazy => true
  | .init i => i.allocates

/-- "`init` allocates": it returns a new object (or an immutable immediate) on every call -/
def Prog.initAllocates : Prog → Bool
  | .fold _ i _ => i.allocates
  | .sum _ i => i.allocates
  | .count => true
  | .flatten _ i => i.allocates
  | .merge _ i _ => i.allocates
  | .flattenFn _ i _ => i.allocates
  | .mergeFn _ i _ => i.allocates

def Val.inb (n : Nat) : Val → Bool
  | .ref a => a < n
  | _ => true

/-- all values stored in a cell (dict keys included) -/
def cellVals : Obj → List Val
  | .list _ xs => xs
  | .tuple _ xs => xs
  | .set _ xs => xs
  | .dict _ es => es.flatMap (fun e => [e.1, e.2])
  | .inst _ as => as.map (·.2)

def objNotChain : Obj → Bool
  | .tuple c _ => c != "chain"
  | _ => true

/-- no dangling references: every reference stored in the heap points into the heap;
    and no chain objects among the inputs (they only ever arise as results) -/
def closedHeap (h : Heap) : Bool :=
  h.all (fun o => (cellVals o).all (Val.inb h.length) && objNotChain o)

def Init.vals : Init → List Val
  | .shared v => [v]
  | .copyOf v => [v]
  | _ => []

def InitArg.vals : InitArg → List Val
  | .lazy => []
  | .init i => i.vals

def progVals : Prog → List Val
  | .fold s i _ => s ++ i.vals
  | .sum s i => s ++ i.vals
  | .count => []
  | .flatten s i => s ++ i.vals
  | .merge s i _ => s ++ i.vals
  | .flattenFn s i _ => s ++ i.vals
  | .mergeFn s i _ => s ++ i.vals

/-- `lambda: type(OBJ)(OBJ)` is only built over a list / tuple / dict object (or an immediate) -/
def Init.wf (h0 : Heap) : Init → Bool
  | .copyOf (.ref a) => match h0[a]? with
    | some o => copyable o
    | none => false
  | _ => true

def InitArg.wf (h0 : Heap) : InitArg → Bool
  | .lazy => true
  | .init i => i.wf h0

def Prog.initWF (h0 : Heap) : Prog → Bool
  | .fold _ i _ => i.wf h0
  | .sum _ i => i.wf h0
  | .count => true
  | .flatten _ i => i.wf h0
  | .merge _ i _ => i.wf h0
  | .flattenFn _ i _ => i.wf h0
  | .mergeFn _ i _ => i.wf h0

/-- well-formed case: the heap is closed and targets point into it -/
def wfCase (h0 : Heap) (targets : List Val) : Bool :=
  closedHeap h0 && targets.all (Val.inb h0.length)

/-! ### the checker -/

/-- The property evaluated on an observation (the model's or the implementation's), under ONE
    handler table: no pre-existing object changed, and every evaluation shows exactly what the
    reference reduction computes — in particular a container result is a *new*
    object (never an input, never an earlier result). -/
def checkC15 (env : Env) (h0 : Heap) (p : Prog) (targets : List Val) (obs : Obs) : Bool :=
  !p.initAllocates ||
  (obs.after == h0 && obs.results == targets.map (expectR env h0 p))

/-- what the property expects a HISTORY to show: every evaluation reduces over the iteration the
    registry's tables name at that moment (registrations made so far, no memo) -/
def expectAll (H : Hier) (env : Env) (h0 : Heap) (p : Prog) : List Event → Reg → List R
  | [], _ => []
  | .eval t :: es, r => expectR (envOf H env r) h0 p t :: expectAll H env h0 p es r
  | .register c e kw :: es, r => expectAll H env h0 p es (C13.register H r c e kw)

/-- The property evaluated on the observation of a history against the registry `r0`. -/
def checkC15R (H : Hier) (env : Env) (r0 : Reg) (h0 : Heap) (p : Prog) (events : List Event) (obs : Obs) : Bool :=
  !p.initAllocates ||
  (obs.after == h0 && obs.results == expectAll H env h0 p events r0)

/-! ### well-formedness of the extracted facts -/

/-- the conversions of exceptions the theorems rely on -/
def WFConv (env : Env) : Bool :=
  regLookup env.foldCatch "UnregisteredTarget" == some "FoldError" &&
  regLookup env.iterCatch "Exception" == some "TypeError" &&
  env.excTable.isSub "FoldError" "GlomError" &&
  !(env.excTable.isSub "TypeError" "GlomError") && !(env.excTable.isSub "ValueError" "GlomError")

/-- an itertools.chain object is iterated with `iter` (needed by `flatten(levels ≥ 2)` only) -/
def chainIter (env : Env) : Bool := decide (env.lk "chain" = .ok "iter")

def WF (env : Env) : Bool := WFConv env && chainIter env

/-- does the program iterate chain objects of its own making? -/
def Prog.usesChain : Prog → Bool
  | .flattenFn _ _ l => decide (2 ≤ l)
  | _ => false

/-- along a history: whenever an evaluation happens, chain objects are iterated with `iter` -/
def chainIterAlong (H : Hier) (env : Env) : List Event → Reg → Bool
  | [], _ => true
  | .eval _ :: es, r => chainIter (envOf H env r) && chainIterAlong H env es r
  | .register c e kw :: es, r => chainIterAlong H env es (C13.register H r c e kw)

/-- the documented default registrations, as answers of a handler table -/
def defaultsOK (lk : String → Except IterErr String) : Bool :=
  ["list", "tuple", "dict", "OrderedDict", "set", "frozenset"].all (fun c => decide (lk c = .ok "iter")) &&
  ["object", "int", "bool", "float", "NoneType", "str", "bytes"].all (fun c => decide (lk c = .error .unregistered))

/-- source-shape facts of glom/reduction.py the model's control flow is a transcription of -/
structure SrcFacts where
  initCalls : List String
  defaults : List (String × String × String)
  superArgs : List (String × String × String)
  ctorLogic : List (String × String × String)
  foldBodies : List (String × String × String)
  flattenFn : List (String × String)
  mergeFn : List (String × String)
  targetIter : List (String × String)
  absIterExcluded : List String
  registerResetsMemo : Bool

def has3 (t : List (String × String × String)) (a b c : String) : Bool := t.contains (a, b, c)

def WFSrc (f : SrcFacts) : Bool :=
  -- init() is called inside _fold (once per evaluation), never hoisted into a constructor of Fold
  f.initCalls.contains "Fold._fold" && f.initCalls.contains "Merge._fold" &&
  !(f.initCalls.contains "Fold.__init__") && !(f.initCalls.contains "Sum.__init__") &&
  !(f.initCalls.contains "Flatten.__init__") && !(f.initCalls.contains "Fold.glomit") &&
  -- defaults
  has3 f.defaults "Fold" "op" "operator.iadd" && has3 f.defaults "Sum" "init" "int" &&
  has3 f.defaults "Sum" "subspec" "T" && has3 f.defaults "Flatten" "init" "list" &&
  has3 f.defaults "Flatten" "subspec" "T" && has3 f.defaults "Merge" "init" "dict" &&
  has3 f.defaults "Merge" "op" "None" && has3 f.defaults "Merge" "subspec" "T" &&
  -- what the subclasses hand to Fold.__init__
  has3 f.superArgs "Sum" "op" "operator.iadd" && has3 f.superArgs "Sum" "init" "init" &&
  has3 f.superArgs "Count" "init" "int" && has3 f.superArgs "Count" "subspec" "T" &&
  has3 f.superArgs "Count" "op" "lambda cur, val: cur + 1" &&
  has3 f.superArgs "Flatten" "op" "operator.iadd" && has3 f.superArgs "Flatten" "init" "init" &&
  has3 f.superArgs "Merge" "op" "op" && has3 f.superArgs "Merge" "init" "init" &&
  has3 f.ctorLogic "Flatten" "init == 'lazy'" "self.lazy = True; init = list" &&
  has3 f.ctorLogic "Merge" "op is None" "op = 'update'" &&
  has3 f.ctorLogic "Merge" "isinstance(op, basestring)" "test_init = init(); op = getattr(type(test_init), op, None)" &&
  -- the loops
  f.foldBodies == [
    ("Fold._fold", "init", "ret, op = (self.init(), self.op)"), ("Fold._fold", "for", "for v in iterator"),
    ("Fold._fold", "body", "ret = op(ret, v)"), ("Fold._fold", "return", "return ret"),
    ("Merge._fold", "init", "ret, op = (self.init(), self.op)"), ("Merge._fold", "for", "for v in iterator"),
    ("Merge._fold", "body", "op(ret, v)"), ("Merge._fold", "return", "return ret"),
    ("Flatten._fold", "if self.lazy", "return itertools.chain.from_iterable(iterator)"),
    ("Flatten._fold", "else", "return super()._fold(iterator)")] &&
  f.flattenFn == [
    ("if levels == 0", "return target"), ("if levels < 0", "raise ValueError"),
    ("spec", "spec = (subspec,)"), ("spec", "spec += (Flatten(init='lazy'),) * (levels - 1)"),
    ("spec", "spec += (Flatten(init=init),)"), ("return", "return glom(target, spec)")] &&
  f.mergeFn == [("spec", "spec = Merge(subspec, init, op)"), ("return", "return glom(target, spec)")] &&
  -- target_iter: the lookup is OUTSIDE the try, the handler call inside, `except Exception` → TypeError
  f.targetIter == [
    ("assign", "iterate = scope[TargetRegistry].get_handler('iterate', target, path=scope[Path])"),
    ("try", "iterator = iterate(target)"), ("except Exception", "raise TypeError"),
    ("return", "return iterator")] &&
  f.absIterExcluded.contains "str" && f.absIterExcluded.contains "bytes" &&
  -- `register` ends with an unconditional reset of the lookup memo (the shape `C13.register` transcribes)
  f.registerResetsMemo

end Glom.C15
