import Lean.Data.Json
/-
  Tree-shaped Python values for the models that need no object identity
  (C02, C03, C07, C09, C10, C15, C16, C17 …).  Python `==` on these values is
  `pvEq` (bool/int identification, dict equality independent of order for
  `dict`, order-sensitive for `odict` only against another `odict`).
-/
namespace Glom
open Lean

inductive PV where
  | none
  | bool (b : Bool)
  | int (i : Int)
  | str (s : String)
  | float (hex : String)
  | sent (name : String)
  | ty (name : String)
  | fn (name : String)
  | list (xs : List PV)
  | tuple (xs : List PV)
  | dict (es : List (PV × PV))       -- insertion order kept
  | odict (es : List (PV × PV))
  | set (xs : List PV)               -- canonical order chosen by the encoder
  | fset (xs : List PV)
  | obj (cls : String) (attrs : List (String × PV))
  deriving Repr, Inhabited, BEq

partial def pvOfJson (j : Json) : Except String PV :=
  match j with
  | .null => .ok .none
  | .obj _ =>
    if let .ok b := j.getObjValAs? Bool "b" then .ok (.bool b)
    else if let .ok i := j.getObjValAs? Int "i" then .ok (.int i)
    else if let .ok s := j.getObjValAs? String "s" then .ok (.str s)
    else if let .ok s := j.getObjValAs? String "f" then .ok (.float s)
    else if let .ok s := j.getObjValAs? String "sent" then .ok (.sent s)
    else if let .ok s := j.getObjValAs? String "ty" then .ok (.ty s)
    else if let .ok s := j.getObjValAs? String "fn" then .ok (.fn s)
    else if let .ok (.arr a) := j.getObjVal? "l" then do return .list (← a.toList.mapM pvOfJson)
    else if let .ok (.arr a) := j.getObjVal? "t" then do return .tuple (← a.toList.mapM pvOfJson)
    else if let .ok (.arr a) := j.getObjVal? "set" then do return .set (← a.toList.mapM pvOfJson)
    else if let .ok (.arr a) := j.getObjVal? "fs" then do return .fset (← a.toList.mapM pvOfJson)
    else if let .ok (.arr a) := j.getObjVal? "d" then do return .dict (← a.toList.mapM pair)
    else if let .ok (.arr a) := j.getObjVal? "od" then do return .odict (← a.toList.mapM pair)
    else if let .ok (.arr #[.str c, .arr a]) := j.getObjVal? "o" then do
      return .obj c (← a.toList.mapM (fun e => match e with
        | .arr #[.str k, v] => do return (k, ← pvOfJson v)
        | _ => throw s!"bad attr {e.compress}"))
    else .error s!"bad PV {j.compress}"
  | _ => .error s!"bad PV {j.compress}"
where
  pair (e : Json) : Except String (PV × PV) :=
    match e with
    | .arr #[k, v] => do return (← pvOfJson k, ← pvOfJson v)
    | _ => .error s!"bad pair {e.compress}"

partial def pvToJson : PV → Json
  | .none => .null
  | .bool b => Json.mkObj [("b", b)]
  | .int i => Json.mkObj [("i", toJson i)]
  | .str s => Json.mkObj [("s", s)]
  | .float s => Json.mkObj [("f", s)]
  | .sent s => Json.mkObj [("sent", s)]
  | .ty s => Json.mkObj [("ty", s)]
  | .fn s => Json.mkObj [("fn", s)]
  | .list xs => Json.mkObj [("l", Json.arr (xs.map pvToJson).toArray)]
  | .tuple xs => Json.mkObj [("t", Json.arr (xs.map pvToJson).toArray)]
  | .set xs => Json.mkObj [("set", Json.arr (xs.map pvToJson).toArray)]
  | .fset xs => Json.mkObj [("fs", Json.arr (xs.map pvToJson).toArray)]
  | .dict es => Json.mkObj [("d", Json.arr (es.map (fun e => Json.arr #[pvToJson e.1, pvToJson e.2])).toArray)]
  | .odict es => Json.mkObj [("od", Json.arr (es.map (fun e => Json.arr #[pvToJson e.1, pvToJson e.2])).toArray)]
  | .obj c as => Json.mkObj [("o", Json.arr #[Json.str c,
      Json.arr (as.map (fun e => Json.arr #[Json.str e.1, pvToJson e.2])).toArray])]

end Glom
