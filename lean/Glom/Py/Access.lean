import Glom.Py.Val
/-
  Python's three access primitives on the kernel's values, each returning the
  value reached or the exception class Python raises.

    pyGetattr  ~  getattr(cur, name)
    pyGetitem  ~  cur[key]
    pySeqGet   ~  cur[int(seg)]          (glom's `_get_sequence_item`)

  Bounds (stated in DESIGN §3/C01): attribute names are disjoint from the real
  attributes of builtin types, so `getattr` on anything but a plain instance is
  an AttributeError; `int()` is modelled on `[+-]?[0-9]+`.
-/
namespace Glom

def exc (c : String) : PyExc := ⟨c⟩

def pyGetattr (h : Heap) (cur name : Val) : Except PyExc Val :=
  match name with
  | .str n =>
    match cur with
    | .ref a =>
      match h[a]? with
      | some (.inst _ attrs) =>
        match attrs.find? (·.1 == n) with
        | some (_, v) => .ok v
        | none => .error (exc "AttributeError")
      | _ => .error (exc "AttributeError")
    | _ => .error (exc "AttributeError")
  | _ => .error (exc "TypeError")   -- attribute name must be string

/-- the integer an index value denotes for list/tuple/str subscription, if any -/
def asIndex : Val → Option Int
  | .int i => some i
  | .bool b => some (if b then 1 else 0)
  | _ => none

def strIndex (s : String) (i : Int) : Option Val :=
  (pyIndex s.toList i).map (fun c => Val.str (String.singleton c))

def pyGetitem (h : Heap) (cur key : Val) : Except PyExc Val :=
  match cur with
  | .ref a =>
    match h[a]? with
    | some (.list _ xs) | some (.tuple _ xs) =>
      match asIndex key with
      | some i => match pyIndex xs i with
        | some v => .ok v
        | none => .error (exc "IndexError")
      | none => .error (exc "TypeError")
    | some (.dict _ es) =>
      if key.hashable h then
        match dictLookup es key with
        | some v => .ok v
        | none => .error (exc "KeyError")
      else .error (exc "TypeError")
    | _ => .error (exc "TypeError")
  | .str s =>
    match asIndex key with
    | some i => match strIndex s i with
      | some v => .ok v
      | none => .error (exc "IndexError")
    | none => .error (exc "TypeError")
  | _ => .error (exc "TypeError")

/-- `int(seg)`; floats are outside the generated segment domain -/
def pyInt (h : Heap) : Val → Except PyExc Int
  | .int i => .ok i
  | .bool b => .ok (if b then 1 else 0)
  | .str s => match pyIntOfStr s with
    | some i => .ok i
    | none => .error (exc "ValueError")
  | _ => let _ := h; .error (exc "TypeError")

def pySeqGet (h : Heap) (cur seg : Val) : Except PyExc Val :=
  match pyInt h seg with
  | .ok i => pyGetitem h cur (.int i)
  | .error e => .error e

end Glom
