/-
  The Python-value kernel shared by the heap-based models (C01, C11, C12, C14, …).

  * `Val`  — an immediate value or a reference into the heap.  Identity of a
    container is its address, so "the very object (identity, not a copy)" is
    expressible and sharing / cycles are representable.
  * `Obj`  — a heap cell.  Every cell carries the *name of its class*; the class
    table (`ClassTable`) gives the MRO, so subclasses of the builtins and plain
    attribute objects are all instances of the same five layouts.
  * `PyExc` — a raised Python exception, as far as the properties look at it:
    its class name (the MRO comes from the generated exception table).

  No Mathlib, computable, total.
-/
namespace Glom

inductive Val where
  | none
  | bool (b : Bool)
  | int (i : Int)
  | str (s : String)
  | float (hex : String)   -- opaque: compared by `float.hex()` text only
  | sent (name : String)   -- SKIP, STOP, _MISSING, …
  | ty (name : String)     -- a class object
  | fn (name : String)     -- a catalogue callable
  | ref (a : Nat)          -- a heap object
  deriving DecidableEq, Repr, Inhabited

inductive Obj where
  | list  (cls : String) (items : List Val)
  | tuple (cls : String) (items : List Val)
  | dict  (cls : String) (entries : List (Val × Val))
  | set   (cls : String) (items : List Val)
  | inst  (cls : String) (attrs : List (String × Val))
  deriving DecidableEq, Repr, Inhabited

abbrev Heap := List Obj

def Obj.cls : Obj → String
  | .list c _ | .tuple c _ | .dict c _ | .set c _ | .inst c _ => c

/-- children of a cell, in their natural order -/
def Obj.children : Obj → List Val
  | .list _ xs | .tuple _ xs | .set _ xs => xs
  | .dict _ es => es.map (·.2)
  | .inst _ as => as.map (·.2)

structure PyExc where
  cls : String
  deriving DecidableEq, Repr, Inhabited

/-- class name → MRO (class itself first).  Unknown classes have MRO `[c, "object"]`. -/
abbrev ClassTable := List (String × List String)

def ClassTable.mro (ct : ClassTable) (c : String) : List String :=
  match ct.find? (·.1 == c) with
  | some (_, m) => m
  | none => [c, "object"]

def ClassTable.isSub (ct : ClassTable) (c base : String) : Bool :=
  (ct.mro c).contains base

/-- the class of the object a value denotes (`type(x).__name__`) -/
def Val.clsName (h : Heap) : Val → String
  | .none => "NoneType"
  | .bool _ => "bool"
  | .int _ => "int"
  | .str _ => "str"
  | .float _ => "float"
  | .sent _ => "Sentinel"
  | .ty _ => "type"
  | .fn _ => "function"
  | .ref a => match h[a]? with
      | Option.some o => o.cls
      | Option.none => "<dangling>"

/-- Python key equality on the scalar keys the generators use: `True == 1`,
    `False == 0`; strings, `None`; references by identity. -/
def pyKeyEq : Val → Val → Bool
  | .bool a, .bool b => a == b
  | .bool a, .int b => (if a then 1 else 0) == b
  | .int a, .bool b => a == (if b then 1 else 0)
  | .int a, .int b => a == b
  | .str a, .str b => a == b
  | .none, .none => true
  | .float a, .float b => a == b
  | .sent a, .sent b => a == b
  | .ty a, .ty b => a == b
  | .fn a, .fn b => a == b
  | .ref a, .ref b => a == b
  | _, _ => false

def dictLookup (es : List (Val × Val)) (k : Val) : Option Val :=
  (es.find? (fun e => pyKeyEq e.1 k)).map (·.2)

/-- is the value hashable (usable as a dict key)?  lists/dicts/sets are not. -/
def Val.hashable (h : Heap) : Val → Bool
  | .ref a => match h[a]? with
      | some (.list ..) | some (.dict ..) | some (.set ..) => false
      | _ => true
  | _ => true

/-- `int(s)` on the ASCII subset `[+-]?[0-9]+` (no whitespace, no underscores). -/
def pyIntOfStr (s : String) : Option Int :=
  let cs := s.toList
  let (neg, ds) := match cs with
    | '-' :: r => (true, r)
    | '+' :: r => (false, r)
    | r => (false, r)
  if ds.isEmpty then none
  else if ds.all Char.isDigit then
    let n : Nat := ds.foldl (fun acc c => acc * 10 + (c.toNat - '0'.toNat)) 0
    some (if neg then - (n : Int) else n)
  else none

/-- Python sequence indexing with negative indices. -/
def pyIndex {α} (xs : List α) (i : Int) : Option α :=
  let n : Int := xs.length
  let j := if i < 0 then i + n else i
  if j < 0 then none else xs[j.toNat]?

end Glom
