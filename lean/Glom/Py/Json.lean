import Lean.Data.Json
import Glom.Py.Val
/-
  JSON wire format of the kernel's values (harness/encode.py is the other end).

    Val:  null | {"b":bool} | {"i":int} | {"s":str} | {"f":hex} | {"sent":name}
          | {"ty":name} | {"fn":name} | {"r":addr}
    Obj:  {"k":"list"|"tuple"|"set","c":cls,"v":[Val…]}
          | {"k":"dict","c":cls,"v":[[Val,Val]…]} | {"k":"inst","c":cls,"v":[[name,Val]…]}
-/
namespace Glom
open Lean

def valOfJson (j : Json) : Except String Val :=
  match j with
  | .null => .ok .none
  | .obj _ =>
    if let .ok b := j.getObjValAs? Bool "b" then .ok (.bool b)
    else if let .ok i := j.getObjValAs? Int "i" then .ok (.int i)
    else if let .ok s := j.getObjValAs? String "s" then .ok (.str s)
    else if let .ok s := j.getObjValAs? String "f" then .ok (.float s)
    else if let .ok s := j.getObjValAs? String "sent" then .ok (.sent s)
    else if let .ok s := j.getObjValAs? String "ty" then .ok (.ty s)
    else if let .ok s := j.getObjValAs? String "fn" then .ok (.fn s)
    else if let .ok a := j.getObjValAs? Nat "r" then .ok (.ref a)
    else .error s!"bad Val {j.compress}"
  | _ => .error s!"bad Val {j.compress}"

def valToJson : Val → Json
  | .none => .null
  | .bool b => Json.mkObj [("b", b)]
  | .int i => Json.mkObj [("i", toJson i)]
  | .str s => Json.mkObj [("s", s)]
  | .float s => Json.mkObj [("f", s)]
  | .sent s => Json.mkObj [("sent", s)]
  | .ty s => Json.mkObj [("ty", s)]
  | .fn s => Json.mkObj [("fn", s)]
  | .ref a => Json.mkObj [("r", a)]

def arrOf (j : Json) : Except String (List Json) :=
  match j with
  | .arr a => .ok a.toList
  | _ => .error s!"expected array, got {j.compress}"

def pairOfJson {α β} (fa : Json → Except String α) (fb : Json → Except String β) (j : Json) :
    Except String (α × β) := do
  match ← arrOf j with
  | [a, b] => return (← fa a, ← fb b)
  | _ => throw s!"expected pair, got {j.compress}"

def strOfJson (j : Json) : Except String String :=
  match j with
  | .str s => .ok s
  | _ => .error s!"expected string, got {j.compress}"

def natOfJson (j : Json) : Except String Nat :=
  match j.getNat? with
  | .ok n => .ok n
  | .error e => .error e

def objOfJson (j : Json) : Except String Obj := do
  let k ← j.getObjValAs? String "k"
  let c ← j.getObjValAs? String "c"
  let v ← arrOf (← j.getObjVal? "v")
  match k with
  | "list" => return .list c (← v.mapM valOfJson)
  | "tuple" => return .tuple c (← v.mapM valOfJson)
  | "set" => return .set c (← v.mapM valOfJson)
  | "dict" => return .dict c (← v.mapM (pairOfJson valOfJson valOfJson))
  | "inst" => return .inst c (← v.mapM (pairOfJson strOfJson valOfJson))
  | _ => throw s!"bad Obj kind {k}"

def objToJson : Obj → Json
  | .list c xs => Json.mkObj [("k", "list"), ("c", c), ("v", Json.arr (xs.map valToJson).toArray)]
  | .tuple c xs => Json.mkObj [("k", "tuple"), ("c", c), ("v", Json.arr (xs.map valToJson).toArray)]
  | .set c xs => Json.mkObj [("k", "set"), ("c", c), ("v", Json.arr (xs.map valToJson).toArray)]
  | .dict c es => Json.mkObj [("k", "dict"), ("c", c),
      ("v", Json.arr (es.map (fun e => Json.arr #[valToJson e.1, valToJson e.2])).toArray)]
  | .inst c as => Json.mkObj [("k", "inst"), ("c", c),
      ("v", Json.arr (as.map (fun e => Json.arr #[Json.str e.1, valToJson e.2])).toArray)]

def heapOfJson (j : Json) : Except String Heap := do
  (← arrOf j).mapM objOfJson

def heapToJson (h : Heap) : Json := Json.arr (h.map objToJson).toArray

def classTableOfJson (j : Json) : Except String ClassTable := do
  (← arrOf j).mapM (pairOfJson strOfJson (fun m => do (← arrOf m).mapM strOfJson))

def listOfJson {α} (f : Json → Except String α) (j : Json) : Except String (List α) := do
  (← arrOf j).mapM f

end Glom
