import Glom.Spec.C17
/-
  C17 — helper lemmas.

  Part A: the demand-driven chain (`pullFrom`, `prime`, `construct`, `takeK`,
          `drain`, `firstOf`) against the trace semantics (`pipeTr`):
          soundness, and "every pull is needed".
  Part B: each stage's trace function against its list function.
  Part C: `leastFrom`, bounds.
  Part D: termination.
  Part E: builders.
-/
namespace Glom.C17

/-! ## Part A -/

def Tr.cons (v : V) (t : Tr) : Tr := ⟨v :: t.items, t.term⟩

@[simp] theorem Tr.prepend_nil (t : Tr) : t.prepend [] = t := by cases t; rfl
@[simp] theorem Tr.prepend_cons (v : V) (o : List V) (t : Tr) :
    t.prepend (v :: o) = (t.prepend o).cons v := rfl
theorem Tr.prepend_append (a b : List V) (t : Tr) : t.prepend (a ++ b) = (t.prepend b).prepend a := by
  simp [Tr.prepend, List.append_assoc]

/-- what a stage state will still yield, given what the chain below it will yield -/
def driveIdle (s : StageSt) (us : List V) (t : Term) : Tr :=
  match s.err with
  | some e => ⟨[], .err e⟩
  | none => if s.stopped then ⟨[], .eof⟩ else foldCore s.core us t

def drive (s : StageSt) (us : List V) (t : Term) : Tr := (driveIdle s us t).prepend s.out

/-- what the chain `sts` (outermost first) will still yield over the future `us`, `t` of the source -/
def denote : List StageSt → List V → Term → Tr
  | [], us, t => ⟨us, t⟩
  | s :: rest, us, t => drive s (denote rest us t).items (denote rest us t).term

/-- the future of the source from position `pos`, as far as its first `N` items tell -/
def denoteF (src : Src) (sts : List StageSt) (pos N : Nat) : Tr :=
  denote sts ((src.pfx N).items.drop pos) (src.pfx N).term

theorem denoteF_cons (src : Src) (s : StageSt) (rest : List StageSt) (pos N : Nat) :
    denoteF src (s :: rest) pos N = drive s (denoteF src rest pos N).items (denoteF src rest pos N).term := rfl

/-! ### the stage interface -/

theorem poll_emit {s s' : StageSt} {v : V} (h : s.poll = (.emit v, s')) (us : List V) (t : Term) :
    drive s us t = (drive s' us t).cons v := by
  unfold StageSt.poll at h
  split at h
  · next w o ho =>
    simp only [Prod.mk.injEq, Act.emit.injEq] at h
    obtain ⟨rfl, rfl⟩ := h
    simp [drive, driveIdle, ho]
  · split at h
    · simp at h
    · split at h <;> simp at h

theorem poll_done {s s' : StageSt} (h : s.poll = (.done, s')) (us : List V) (t : Term) :
    drive s us t = ⟨[], .eof⟩ := by
  unfold StageSt.poll at h
  split at h
  · simp at h
  · next ho =>
    split at h
    · simp at h
    · next he =>
      split at h
      · next hs => simp [drive, driveIdle, ho, he, hs]
      · simp at h

theorem poll_fail {s s' : StageSt} {e : Err} (h : s.poll = (.fail e, s')) (us : List V) (t : Term) :
    drive s us t = ⟨[], .err e⟩ := by
  unfold StageSt.poll at h
  split at h
  · simp at h
  · next ho =>
    split at h
    · next e' he =>
      simp only [Prod.mk.injEq, Act.fail.injEq] at h
      obtain ⟨rfl, _⟩ := h
      simp [drive, driveIdle, ho, he]
    · split at h <;> simp at h

/-- a stage that answers `pull` is idle: nothing pending, not stopped, not failed -/
theorem poll_pull {s s' : StageSt} (h : s.poll = (.pull, s')) :
    s' = s ∧ s.out = [] ∧ s.err = none ∧ s.stopped = false := by
  unfold StageSt.poll at h
  split at h
  · simp at h
  · next ho =>
    split at h
    · simp at h
    · next he =>
      split at h
      · simp at h
      · next hs =>
        simp only [Prod.mk.injEq, true_and] at h
        exact ⟨h.symm, ho, he, by simpa using hs⟩

theorem drive_idle {s : StageSt} (ho : s.out = []) (he : s.err = none) (hs : s.stopped = false)
    (us : List V) (t : Term) : drive s us t = foldCore s.core us t := by
  simp [drive, driveIdle, ho, he, hs]

theorem drive_feed_some {s : StageSt} (ho : s.out = []) (he : s.err = none) (hs : s.stopped = false)
    (u : V) (us : List V) (t : Term) : drive s (u :: us) t = drive (s.feed (some u)) us t := by
  rw [drive_idle ho he hs]
  rcases hp : s.core.push u with ⟨o, c, st⟩
  cases st <;> simp [StageSt.feed, foldCore, hp, drive, driveIdle, Tr.prepend]

theorem drive_feed_none {s : StageSt} (ho : s.out = []) (he : s.err = none) (hs : s.stopped = false)
    (us : List V) (t : Term) : drive s [] .eof = drive (s.feed none) us t := by
  rw [drive_idle ho he hs]
  simp [StageSt.feed, drive, driveIdle, he, foldCore, Tr.prepend]

theorem drive_nil_more {s : StageSt} (ho : s.out = []) (he : s.err = none) (hs : s.stopped = false) :
    drive s [] .more = ⟨[], .more⟩ := by
  rw [drive_idle ho he hs]; simp [foldCore]

theorem drive_nil_err {s : StageSt} (ho : s.out = []) (he : s.err = none) (hs : s.stopped = false) (e : Err) :
    drive s [] (.err e) = ⟨[], .err e⟩ := by
  rw [drive_idle ho he hs]; simp [foldCore]

/-! ### the source -/

theorem pfx_getElem? (src : Src) (pos N : Nat) (v : V) (p' : Nat)
    (h : src.next pos = (.item v, p')) (hN : pos + 1 ≤ N) : (src.pfx N).items[pos]? = some v := by
  cases src with
  | fin xs tail =>
    simp only [Src.next] at h
    split at h
    · next w hw =>
      simp only [Prod.mk.injEq, Res.item.injEq] at h
      obtain ⟨rfl, _⟩ := h
      simp only [Src.pfx]
      split
      · exact hw
      · rw [List.getElem?_take]; simp [show pos < N by omega, hw]
    · split at h <;> simp at h
  | inf f =>
    simp only [Src.next, Prod.mk.injEq, Res.item.injEq] at h
    obtain ⟨rfl, _⟩ := h
    simp [Src.pfx, show pos < N by omega]

theorem pfx_length_le (src : Src) (N : Nat) : (src.pfx N).items.length ≤ N := by
  cases src with
  | fin xs tail => simp only [Src.pfx]; split <;> simp <;> omega
  | inf f => simp [Src.pfx]

theorem next_item {src : Src} {pos p' : Nat} {v : V} (h : src.next pos = (.item v, p')) :
    p' = pos + 1 ∧
    (∀ N, pos + 1 ≤ N → (src.pfx N).items.drop pos = v :: (src.pfx N).items.drop (pos + 1)) ∧
    (src.pfx pos).items.drop pos = [] ∧ (src.pfx pos).term = .more := by
  refine ⟨?_, ?_, ?_, ?_⟩
  · cases src with
    | fin xs tail =>
      simp only [Src.next] at h
      split at h
      · simp only [Prod.mk.injEq] at h; exact h.2.symm
      · split at h <;> simp at h
    | inf f => simp only [Src.next, Prod.mk.injEq] at h; exact h.2.symm
  · intro N hN
    have hg := pfx_getElem? src pos N v p' h hN
    have hlt : pos < (src.pfx N).items.length := by
      rcases Nat.lt_or_ge pos (src.pfx N).items.length with h1 | h1
      · exact h1
      · rw [List.getElem?_eq_none h1] at hg; simp at hg
    rw [List.drop_eq_getElem_cons hlt]
    rw [List.getElem?_eq_getElem hlt] at hg
    simp only [Option.some.injEq] at hg
    rw [hg]
  · apply List.drop_eq_nil_of_le; exact pfx_length_le src pos
  · cases src with
    | fin xs tail =>
      simp only [Src.next] at h
      split at h
      · next w hw =>
        have : pos < xs.length := by
          rcases Nat.lt_or_ge pos xs.length with h1 | h1
          · exact h1
          · rw [List.getElem?_eq_none h1] at hw; simp at hw
        simp only [Src.pfx]
        split
        · omega
        · rfl
      · split at h <;> simp at h
    | inf f => rfl

theorem next_eof {src : Src} {pos p' : Nat} (h : src.next pos = (.eof, p')) :
    p' = pos ∧ ∀ N, pos ≤ N → (src.pfx N).items.drop pos = [] ∧ (src.pfx N).term = .eof := by
  cases src with
  | fin xs tail =>
    simp only [Src.next] at h
    split at h
    · simp at h
    · next hw =>
      have hlen : xs.length ≤ pos := by
        rcases Nat.lt_or_ge pos xs.length with h1 | h1
        · rw [List.getElem?_eq_getElem h1] at hw; simp at hw
        · exact h1
      cases tail with
      | some e => simp at h
      | none =>
        simp only [Prod.mk.injEq, true_and] at h
        refine ⟨h.symm, fun N hN => ?_⟩
        simp only [Src.pfx]
        split
        · exact ⟨List.drop_eq_nil_of_le hlen, rfl⟩
        · omega
  | inf f => simp [Src.next] at h

theorem next_err {src : Src} {pos p' : Nat} {e : Err} (h : src.next pos = (.err e, p')) :
    p' = pos ∧ ∀ N, pos ≤ N → (src.pfx N).items.drop pos = [] ∧ (src.pfx N).term = .err e := by
  cases src with
  | fin xs tail =>
    simp only [Src.next] at h
    split at h
    · simp at h
    · next hw =>
      have hlen : xs.length ≤ pos := by
        rcases Nat.lt_or_ge pos xs.length with h1 | h1
        · rw [List.getElem?_eq_getElem h1] at hw; simp at hw
        · exact h1
      cases tail with
      | none => simp at h
      | some e' =>
        simp only [Prod.mk.injEq, Res.err.injEq] at h
        obtain ⟨rfl, h2⟩ := h
        refine ⟨h2.symm, fun N hN => ?_⟩
        simp only [Src.pfx]
        split
        · exact ⟨List.drop_eq_nil_of_le hlen, rfl⟩
        · omega
  | inf f => simp [Src.next] at h

theorem next_not_oof (src : Src) (pos : Nat) : (src.next pos).1 ≠ .oof := by
  cases src with
  | fin xs tail =>
    simp only [Src.next]
    split
    · simp
    · cases tail <;> simp
  | inf f => simp [Src.next]

/-! ### one demand on the chain -/

/-- what one `next()` on the chain establishes: positions only grow; every source position
    pulled on the way lies in a prefix that determined nothing yet (`more`, no item); and for
    every horizon `N` at or beyond the new position the chain's trace splits off exactly the
    answer -/
def StepOK (src : Src) (sts : List StageSt) (pos : Nat) (r : Res) (sts' : List StageSt) (pos' : Nat) : Prop :=
  pos ≤ pos' ∧
  (∀ n, pos ≤ n → n < pos' → denoteF src sts pos n = ⟨[], .more⟩) ∧
  (∀ N, pos' ≤ N →
    match r with
    | .item v => denoteF src sts pos N = (denoteF src sts' pos' N).cons v
    | .eof => denoteF src sts pos N = ⟨[], .eof⟩
    | .err e => denoteF src sts pos N = ⟨[], .err e⟩
    | .oof => True)

theorem pullFrom_nil (src : Src) (fuel pos : Nat) :
    pullFrom src fuel [] pos = ((src.next pos).1, [], (src.next pos).2) := by
  cases fuel <;> simp [pullFrom]

theorem pullFrom_zero (src : Src) (st : StageSt) (rest : List StageSt) (pos : Nat) :
    pullFrom src 0 (st :: rest) pos = (.oof, st :: rest, pos) := by
  simp [pullFrom]

theorem stepOK_src (src : Src) (pos : Nat) :
    StepOK src [] pos (src.next pos).1 [] (src.next pos).2 := by
  rcases hr : src.next pos with ⟨r, p'⟩
  cases r with
  | item v =>
    obtain ⟨rfl, h1, h2, h3⟩ := next_item hr
    refine ⟨by simp, ?_, ?_⟩
    · intro n hn hn'
      have : n = pos := by simp at hn'; omega
      subst this
      simp [denoteF, denote, h2, h3]
    · intro N hN
      simp only [denoteF, denote, Tr.cons]
      rw [h1 N hN]
  | eof =>
    obtain ⟨rfl, h1⟩ := next_eof hr
    refine ⟨Nat.le_refl _, fun n hn hn' => by simp at hn'; omega, fun N hN => ?_⟩
    simp [denoteF, denote, (h1 N hN).1, (h1 N hN).2]
  | err e =>
    obtain ⟨rfl, h1⟩ := next_err hr
    refine ⟨Nat.le_refl _, fun n hn hn' => by simp at hn'; omega, fun N hN => ?_⟩
    simp [denoteF, denote, (h1 N hN).1, (h1 N hN).2]
  | oof => exact absurd (by rw [hr]) (next_not_oof src pos)

theorem pullFrom_sound (src : Src) : ∀ (fuel : Nat) (sts : List StageSt) (pos : Nat),
    StepOK src sts pos (pullFrom src fuel sts pos).1 (pullFrom src fuel sts pos).2.1
      (pullFrom src fuel sts pos).2.2 := by
  intro fuel
  induction fuel with
  | zero =>
    intro sts pos
    cases sts with
    | nil => rw [pullFrom_nil]; exact stepOK_src src pos
    | cons st rest =>
      rw [pullFrom_zero]
      exact ⟨Nat.le_refl _, fun n hn hn' => by simp at hn'; omega, fun _ _ => trivial⟩
  | succ fuel ih =>
    intro sts pos
    cases sts with
    | nil => rw [pullFrom_nil]; exact stepOK_src src pos
    | cons st rest =>
      simp only [pullFrom]
      rcases hp : st.poll with ⟨act, st'⟩
      cases act with
      | emit v =>
        refine ⟨Nat.le_refl _, fun n hn hn' => by simp at hn'; omega, fun N _ => ?_⟩
        simp only [denoteF_cons]
        exact poll_emit hp _ _
      | done =>
        refine ⟨Nat.le_refl _, fun n hn hn' => by simp at hn'; omega, fun N _ => ?_⟩
        simp only [denoteF_cons]
        exact poll_done hp _ _
      | fail e =>
        refine ⟨Nat.le_refl _, fun n hn hn' => by simp at hn'; omega, fun N _ => ?_⟩
        simp only [denoteF_cons]
        exact poll_fail hp _ _
      | pull =>
        obtain ⟨rfl, ho, he, hs⟩ := poll_pull hp
        have ih1 := ih rest pos
        rcases h1 : pullFrom src fuel rest pos with ⟨r1, rest1, p1⟩
        rw [h1] at ih1
        obtain ⟨hle1, hB1, hA1⟩ := ih1
        cases r1 with
        | item u =>
          simp only
          have ih2 := ih (st'.feed (some u) :: rest1) p1
          rcases h2 : pullFrom src fuel (st'.feed (some u) :: rest1) p1 with ⟨r2, sts2, p2⟩
          rw [h2] at ih2
          obtain ⟨hle2, hB2, hA2⟩ := ih2
          have key : ∀ N, p1 ≤ N → denoteF src (st' :: rest) pos N =
              denoteF src (st'.feed (some u) :: rest1) p1 N := by
            intro N hN
            have := hA1 N hN
            simp only at this
            simp only [denoteF_cons, this, Tr.cons]
            exact drive_feed_some ho he hs u _ _
          refine ⟨Nat.le_trans hle1 hle2, ?_, ?_⟩
          · intro n hn hn'
            rcases Nat.lt_or_ge n p1 with hlt | hge
            · simp only [denoteF_cons, hB1 n hn hlt]
              exact drive_nil_more ho he hs
            · rw [key n hge]; exact hB2 n hge hn'
          · intro N hN
            have hN1 : p1 ≤ N := Nat.le_trans hle2 hN
            rw [key N hN1]
            exact hA2 N hN
        | eof =>
          simp only
          have ih2 := ih (st'.feed none :: rest1) p1
          rcases h2 : pullFrom src fuel (st'.feed none :: rest1) p1 with ⟨r2, sts2, p2⟩
          rw [h2] at ih2
          obtain ⟨hle2, hB2, hA2⟩ := ih2
          have key : ∀ N, p1 ≤ N → denoteF src (st' :: rest) pos N =
              denoteF src (st'.feed none :: rest1) p1 N := by
            intro N hN
            have := hA1 N hN
            simp only at this
            simp only [denoteF_cons, this]
            exact drive_feed_none ho he hs _ _
          refine ⟨Nat.le_trans hle1 hle2, ?_, ?_⟩
          · intro n hn hn'
            rcases Nat.lt_or_ge n p1 with hlt | hge
            · simp only [denoteF_cons, hB1 n hn hlt]
              exact drive_nil_more ho he hs
            · rw [key n hge]; exact hB2 n hge hn'
          · intro N hN
            have hN1 : p1 ≤ N := Nat.le_trans hle2 hN
            rw [key N hN1]
            exact hA2 N hN
        | err e =>
          simp only
          refine ⟨hle1, ?_, ?_⟩
          · intro n hn hn'
            simp only [denoteF_cons, hB1 n hn hn']
            exact drive_nil_more ho he hs
          · intro N hN
            have := hA1 N hN
            simp only at this
            simp only [denoteF_cons, this]
            exact drive_nil_err ho he hs e
        | oof =>
          simp only
          refine ⟨hle1, ?_, fun _ _ => trivial⟩
          intro n hn hn'
          simp only [denoteF_cons, hB1 n hn hn']
          exact drive_nil_more ho he hs

/-! ### requests for `k` items -/

@[simp] theorem answers_nil_more (k : Nat) : (Tr.mk [] .more).answers (k + 1) = false := by
  simp [Tr.answers, Term.isMore]

@[simp] theorem answers_cons (v : V) (d : Tr) (k : Nat) : (d.cons v).answers (k + 1) = d.answers k := by
  simp [Tr.answers, Tr.cons]

theorem cons_prepend (v : V) (ys : List V) (d : Tr) : (d.prepend ys).cons v = d.prepend (v :: ys) := rfl

theorem takeK_sound (src : Src) (fuel : Nat) : ∀ (k : Nat) (sts : List StageSt) (pos : Nat) (acc : List V),
    pos ≤ (takeK src fuel k sts pos acc).1.pulls ∧
    (∀ n, pos ≤ n → n < (takeK src fuel k sts pos acc).1.pulls → (denoteF src sts pos n).answers k = false) ∧
    ∃ ys, (takeK src fuel k sts pos acc).1.items = acc ++ ys ∧
      ∀ N, (takeK src fuel k sts pos acc).1.pulls ≤ N →
        match (takeK src fuel k sts pos acc).1.fin with
        | .gotK => ys.length = k ∧ denoteF src sts pos N =
            (denoteF src (takeK src fuel k sts pos acc).2 (takeK src fuel k sts pos acc).1.pulls N).prepend ys
        | .exhausted => ys.length < k ∧ denoteF src sts pos N = ⟨ys, .eof⟩
        | .raised e => ys.length < k ∧ denoteF src sts pos N = ⟨ys, .err e⟩
        | .oof => True := by
  intro k
  induction k with
  | zero =>
    intro sts pos acc
    simp only [takeK]
    exact ⟨Nat.le_refl _, fun n hn hn' => by omega, [], by simp, fun N _ => by simp⟩
  | succ k ih =>
    intro sts pos acc
    simp only [takeK]
    have hs := pullFrom_sound src fuel sts pos
    rcases h1 : pullFrom src fuel sts pos with ⟨r, sts1, p1⟩
    rw [h1] at hs
    obtain ⟨hle, hB, hA⟩ := hs
    cases r with
    | item v =>
      simp only
      obtain ⟨hle2, hB2, ys, hys, hA2⟩ := ih sts1 p1 (acc ++ [v])
      refine ⟨Nat.le_trans hle hle2, ?_, v :: ys, by simp [hys], ?_⟩
      · intro n hn hn'
        rcases Nat.lt_or_ge n p1 with hlt | hge
        · rw [hB n hn hlt]; simp
        · have := hA n hge
          simp only at this
          rw [this, answers_cons]
          exact hB2 n hge hn'
      · intro N hN
        have hN1 : p1 ≤ N := Nat.le_trans hle2 hN
        have h0 := hA N hN1
        simp only at h0
        have h2 := hA2 N hN
        revert h2
        cases (takeK src fuel k sts1 p1 (acc ++ [v])).1.fin with
        | gotK => intro h2; exact ⟨by simp [h2.1], by rw [h0, h2.2]; rfl⟩
        | exhausted => intro h2; exact ⟨by simp; omega, by rw [h0, h2.2]; rfl⟩
        | raised e => intro h2; exact ⟨by simp; omega, by rw [h0, h2.2]; rfl⟩
        | oof => intro _; trivial
    | eof =>
      simp only
      refine ⟨hle, fun n hn hn' => by rw [hB n hn hn']; simp, [], by simp, fun N hN => ?_⟩
      exact ⟨by simp, hA N hN⟩
    | err e =>
      simp only
      refine ⟨hle, fun n hn hn' => by rw [hB n hn hn']; simp, [], by simp, fun N hN => ?_⟩
      exact ⟨by simp, hA N hN⟩
    | oof =>
      simp only
      exact ⟨hle, fun n hn hn' => by rw [hB n hn hn']; simp, [], by simp, fun N hN => trivial⟩

/-! ### `glomit` -/

theorem drive_init (k : Kind) (us : List V) (t : Term) :
    drive (StageSt.init k) us t = stageTr k ⟨us, t⟩ := by
  simp only [drive, driveIdle, StageSt.init, stageTr, Tr.prepend_nil]
  by_cases h : k.initStopped = true <;> simp [h]

theorem denoteF_init (src : Src) (k : Kind) (acc : List StageSt) (pos N : Nat) :
    denoteF src (StageSt.init k :: acc) pos N = stageTr k (denoteF src acc pos N) := by
  rw [denoteF_cons, drive_init]

/-- priming pulls only while the chain below has not yet delivered the `n` items asked for -/
theorem prime_sound (src : Src) (fuel : Nat) : ∀ (n : Nat) (st : StageSt) (below : List StageSt) (pos : Nat),
    match prime src fuel n st below pos with
    | .ok sts' pos' => pos ≤ pos' ∧
        (∀ m, pos ≤ m → m < pos' → (denoteF src below pos m).answers n = false) ∧
        (∀ N, pos' ≤ N → denoteF src sts' pos' N = denoteF src (st :: below) pos N)
    | .err e pos' => pos ≤ pos' ∧
        (∀ m, pos ≤ m → m < pos' → (denoteF src below pos m).answers n = false) ∧
        (∀ N, pos' ≤ N → ∃ ys, ys.length < n ∧ denoteF src below pos N = ⟨ys, .err e⟩)
    | .oof => True := by
  intro n
  induction n with
  | zero =>
    intro st below pos
    simp only [prime]
    exact ⟨Nat.le_refl _, fun m hm hm' => by omega, fun N _ => trivial⟩
  | succ n ih =>
    intro st below pos
    simp only [prime]
    rcases hp : st.poll with ⟨act, st'⟩
    cases act with
    | pull =>
      obtain ⟨rfl, ho, he, hs⟩ := poll_pull hp
      simp only
      have hsd := pullFrom_sound src fuel below pos
      rcases h1 : pullFrom src fuel below pos with ⟨r, below1, p1⟩
      rw [h1] at hsd
      obtain ⟨hle, hB, hA⟩ := hsd
      cases r with
      | item v =>
        simp only
        have ih1 := ih (st'.feed (some v)) below1 p1
        have key : ∀ N, p1 ≤ N → denoteF src (st'.feed (some v) :: below1) p1 N =
            denoteF src (st' :: below) pos N := by
          intro N hN
          have := hA N hN
          simp only at this
          simp only [denoteF_cons, this, Tr.cons]
          exact (drive_feed_some ho he hs v _ _).symm
        have lazy : ∀ m, pos ≤ m → m < p1 → (denoteF src below pos m).answers (n + 1) = false :=
          fun m hm hm' => by rw [hB m hm hm']; simp
        revert ih1
        cases prime src fuel n (st'.feed (some v)) below1 p1 with
        | ok sts' pos' =>
          intro ih1
          obtain ⟨hle2, hB2, hA2⟩ := ih1
          refine ⟨Nat.le_trans hle hle2, ?_, ?_⟩
          · intro m hm hm'
            rcases Nat.lt_or_ge m p1 with hlt | hge
            · exact lazy m hm hlt
            · have := hA m hge
              simp only at this
              rw [this, answers_cons]
              exact hB2 m hge hm'
          · intro N hN
            rw [hA2 N hN, key N (Nat.le_trans hle2 hN)]
        | err e pos' =>
          intro ih1
          obtain ⟨hle2, hB2, hA2⟩ := ih1
          refine ⟨Nat.le_trans hle hle2, ?_, ?_⟩
          · intro m hm hm'
            rcases Nat.lt_or_ge m p1 with hlt | hge
            · exact lazy m hm hlt
            · have := hA m hge
              simp only at this
              rw [this, answers_cons]
              exact hB2 m hge hm'
          · intro N hN
            obtain ⟨ys, hys, hd⟩ := hA2 N hN
            have := hA N (Nat.le_trans hle2 hN)
            simp only at this
            exact ⟨v :: ys, by simp; omega, by rw [this, hd]; rfl⟩
        | oof => intro _; trivial
      | eof =>
        simp only
        refine ⟨hle, fun m hm hm' => by rw [hB m hm hm']; simp, fun N hN => ?_⟩
        have := hA N hN
        simp only at this
        simp only [denoteF_cons, this]
        exact (drive_feed_none ho he hs _ _).symm
      | err e =>
        simp only
        refine ⟨hle, fun m hm hm' => by rw [hB m hm hm']; simp, fun N hN => ?_⟩
        exact ⟨[], by simp, hA N hN⟩
      | oof => simp only
    | emit v => exact ⟨Nat.le_refl _, fun m hm hm' => by omega, fun N _ => rfl⟩
    | done => exact ⟨Nat.le_refl _, fun m hm hm' => by omega, fun N _ => rfl⟩
    | fail e => exact ⟨Nat.le_refl _, fun m hm hm' => by omega, fun N _ => rfl⟩

theorem pipeTr_append (a b : List Kind) (d : Tr) : pipeTr (a ++ b) d = pipeTr b (pipeTr a d) := by
  induction a generalizing d with
  | nil => rfl
  | cons k a ih => simp [pipeTr, ih]

theorem denoteF_nil_zero (src : Src) (N : Nat) : denoteF src [] 0 N = src.pfx N := by
  simp [denoteF, denote]

/-! ### an undetermined trace needs an undetermined input -/

theorem foldCore_isMore (c : Core) (us : List V) (t : Term) :
    (foldCore c us t).term.isMore = true → t.isMore = true := by
  induction us generalizing c with
  | nil => cases t <;> simp [foldCore, Term.isMore]
  | cons u us ih =>
    simp only [foldCore]
    rcases c.push u with ⟨o, c', st⟩
    cases st with
    | go => simpa [Tr.prepend] using ih c'
    | stop => simp [Term.isMore]
    | fail e => simp [Term.isMore]

theorem drive_isMore (s : StageSt) (us : List V) (t : Term) :
    (drive s us t).term.isMore = true → t.isMore = true := by
  simp only [drive, driveIdle, Tr.prepend]
  cases s.err with
  | some e => simp [Term.isMore]
  | none =>
    by_cases h : s.stopped = true
    · simp [h, Term.isMore]
    · simpa [h] using foldCore_isMore s.core us t

theorem denote_isMore (sts : List StageSt) (us : List V) (t : Term) :
    (denote sts us t).term.isMore = true → t.isMore = true := by
  induction sts with
  | nil => simp [denote]
  | cons s rest ih => intro h; exact ih (drive_isMore _ _ _ h)

theorem stageTr_isMore (k : Kind) (d : Tr) : (stageTr k d).term.isMore = true → d.term.isMore = true := by
  simp only [stageTr]
  by_cases h : k.initStopped = true
  · simp [h, Term.isMore]
  · simpa [h] using foldCore_isMore _ d.items d.term

theorem pipeTr_isMore (ks : List Kind) (d : Tr) : (pipeTr ks d).term.isMore = true → d.term.isMore = true := by
  induction ks generalizing d with
  | nil => simp [pipeTr]
  | cons k ks ih => intro h; exact stageTr_isMore k d (ih _ h)

theorem answers_false_isMore {d : Tr} {k : Nat} (h : d.answers k = false) : d.term.isMore = true := by
  simp only [Tr.answers, Bool.or_eq_false_iff, Bool.not_eq_false'] at h
  exact h.2

/-- a source whose first `n` items leave its end open has more than `n` items -/
def SrcBound (src : Src) (bound : Nat) : Prop := ∀ n, (src.pfx n).term.isMore = true → n < bound

theorem srcBound_fin (xs : List V) (tail : Option Err) : SrcBound (.fin xs tail) xs.length := by
  intro n h
  simp only [Src.pfx] at h
  split at h
  · cases tail <;> simp [Term.isMore] at h
  · omega

/-! ### `leastFrom` -/

theorem le_leastFrom_start (p : Nat → Bool) (bound : Nat) : ∀ fuel start, start ≤ leastFrom p bound fuel start := by
  intro fuel
  induction fuel with
  | zero => intro start; simp [leastFrom]
  | succ fuel ih =>
    intro start
    simp only [leastFrom]
    split
    · exact Nat.le_refl _
    · exact Nat.le_trans (Nat.le_succ _) (ih (start + 1))

theorem le_leastFrom (p : Nat → Bool) (bound : Nat) : ∀ fuel start q, q ≤ bound →
    (∀ m, start ≤ m → m < q → p m = false) → q - start ≤ fuel → q ≤ leastFrom p bound fuel start := by
  intro fuel
  induction fuel with
  | zero => intro start q _ _ hf; simp only [leastFrom]; omega
  | succ fuel ih =>
    intro start q hq hp hf
    simp only [leastFrom]
    rcases Nat.lt_or_ge start q with hlt | hge
    · have h1 : p start = false := hp start (Nat.le_refl _) hlt
      have h2 : ¬ (start ≥ bound) := by omega
      simp only [h1, Bool.or_false, decide_eq_true_eq, h2, ↓reduceIte]
      exact ih (start + 1) q hq (fun m hm hm' => hp m (by omega) hm') (by omega)
    · split
      · exact hge
      · exact Nat.le_trans hge (Nat.le_trans (Nat.le_succ _) (le_leastFrom_start p bound fuel (start + 1)))

/-- the positions a lazy request pulled, against the number of items the request needs -/
theorem pulls_le_need (p : Nat → Bool) (bound start pos q : Nat) (hpos : pos ≤ start)
    (hb : ∀ m, pos ≤ m → m < q → m < bound)
    (hp : ∀ m, pos ≤ m → m < q → p m = false) (hposq : pos ≤ q) :
    q ≤ leastFrom p bound (bound + 1) start := by
  rcases Nat.lt_or_ge start q with hlt | hge
  · have hqb : q ≤ bound := by
      have := hb (q - 1) (by omega) (by omega)
      omega
    exact le_leastFrom p bound (bound + 1) start q hqb (fun m hm hm' => hp m (by omega) hm') (by omega)
  · exact Nat.le_trans hge (le_leastFrom_start p bound _ start)

theorem le_primeScan (src : Src) (bound : Nat) : ∀ (ks before : List Kind) (p : Nat),
    p ≤ primeScan src bound before ks p := by
  intro ks
  induction ks with
  | nil => intro before p; simp [primeScan]
  | cons k ks ih =>
    intro before p
    simp only [primeScan]
    refine Nat.le_trans ?_ (ih _ _)
    split
    · exact Nat.le_refl _
    · exact le_leastFrom_start _ _ _ _

/-- position `m` was pulled by `glomit` because a `windowed` stage still lacked items:
    the chain below that stage, on the first `m` source items, does not deliver `size - 1` -/
def PrimeNeeded (src : Src) (before ks : List Kind) (m : Nat) : Prop :=
  ∃ b k a, ks = b ++ k :: a ∧ (det (before ++ b) src m).answers k.primeCount = false

theorem PrimeNeeded.cons {src : Src} {before ks : List Kind} {k : Kind} {m : Nat}
    (h : PrimeNeeded src (before ++ [k]) ks m) : PrimeNeeded src before (k :: ks) m := by
  obtain ⟨b, k', a, rfl, hn⟩ := h
  exact ⟨k :: b, k', a, rfl, by simpa [List.append_assoc] using hn⟩

theorem mem_primeErrs_cons {src : Src} {bound : Nat} {before ks : List Kind} {k : Kind} {e : Err}
    (h : e ∈ primeErrs src bound (before ++ [k]) ks) : e ∈ primeErrs src bound before (k :: ks) := by
  simp only [primeErrs, List.mem_append]; exact Or.inr h

theorem construct_sound (src : Src) (fuel bound : Nat) (hb : SrcBound src bound) :
    ∀ (ks before : List Kind) (acc : List StageSt) (pos p : Nat),
    (∀ N, pos ≤ N → denoteF src acc pos N = det before src N) → pos ≤ p → pos ≤ bound →
    match construct src fuel ks acc pos with
    | .ok sts' pos' => pos ≤ pos' ∧ pos' ≤ bound ∧ pos' ≤ primeScan src bound before ks p ∧
        (∀ m, pos ≤ m → m < pos' → PrimeNeeded src before ks m) ∧
        ∀ N, pos' ≤ N → denoteF src sts' pos' N = det (before ++ ks) src N
    | .err e pos' => pos ≤ pos' ∧ pos' ≤ bound ∧ pos' ≤ primeScan src bound before ks p ∧
        (∀ m, pos ≤ m → m < pos' → PrimeNeeded src before ks m) ∧
        e ∈ primeErrs src bound before ks
    | .oof => True := by
  intro ks
  induction ks with
  | nil =>
    intro before acc pos p hinv hp hpb
    simp only [construct, primeScan, List.append_nil]
    exact ⟨Nat.le_refl _, hpb, hp, fun m hm hm' => by omega, hinv⟩
  | cons k ks ih =>
    intro before acc pos p hinv hp hpb
    simp only [construct]
    have hpr := prime_sound src fuel k.primeCount (StageSt.init k) acc pos
    -- facts shared by the two outcomes of priming
    have lazyAbs : ∀ pos', (∀ m, pos ≤ m → m < pos' → (denoteF src acc pos m).answers k.primeCount = false) →
        (∀ m, pos ≤ m → m < pos' → (det before src m).answers k.primeCount = false) :=
      fun pos' h m hm hm' => by rw [← hinv m hm]; exact h m hm hm'
    have bnd : ∀ pos', pos ≤ pos' →
        (∀ m, pos ≤ m → m < pos' → (det before src m).answers k.primeCount = false) → pos' ≤ bound := by
      intro pos' hle h
      rcases Nat.eq_or_lt_of_le hle with heq | hlt
      · omega
      · have h1 := h (pos' - 1) (by omega) (by omega)
        have h2 := pipeTr_isMore before _ (answers_false_isMore h1)
        have := hb _ h2
        omega
    have scan : ∀ pos', pos ≤ pos' →
        (∀ m, pos ≤ m → m < pos' → (det before src m).answers k.primeCount = false) →
        pos' ≤ (if k.primeCount = 0 then p else needFrom before src bound k.primeCount p) := by
      intro pos' hle h
      split
      · next hc =>
        -- nothing is primed: no position can have been pulled
        rcases Nat.eq_or_lt_of_le hle with heq | hlt
        · omega
        · have := h pos (Nat.le_refl _) hlt
          simp [hc, Tr.answers] at this
      · exact pulls_le_need _ bound p pos pos' hp
          (fun m hm hm' => hb _ (pipeTr_isMore before _ (answers_false_isMore (h m hm hm')))) h hle
    revert hpr
    cases hprime : prime src fuel k.primeCount (StageSt.init k) acc pos with
    | ok acc' p1 =>
      intro hpr
      obtain ⟨hle, hB, hA⟩ := hpr
      have hBabs := lazyAbs p1 hB
      have hinv' : ∀ N, p1 ≤ N → denoteF src acc' p1 N = det (before ++ [k]) src N := by
        intro N hN
        rw [hA N hN, denoteF_init, hinv N (Nat.le_trans hle hN)]
        simp [det, pipeTr_append, pipeTr]
      have := ih (before ++ [k]) acc' p1
        (if k.primeCount = 0 then p else needFrom before src bound k.primeCount p) hinv'
        (scan p1 hle hBabs) (bnd p1 hle hBabs)
      simp only [primeScan]
      revert this
      cases construct src fuel ks acc' p1 with
      | ok sts' pos' =>
        intro this
        obtain ⟨hle2, hb2, hs2, hl2, hA2⟩ := this
        refine ⟨Nat.le_trans hle hle2, hb2, hs2, ?_, ?_⟩
        · intro m hm hm'
          rcases Nat.lt_or_ge m p1 with hlt | hge
          · exact ⟨[], k, ks, rfl, by simpa using hBabs m hm hlt⟩
          · exact (hl2 m hge hm').cons
        · intro N hN
          rw [hA2 N hN]; simp [List.append_assoc]
      | err e pos' =>
        intro this
        obtain ⟨hle2, hb2, hs2, hl2, he2⟩ := this
        refine ⟨Nat.le_trans hle hle2, hb2, hs2, ?_, mem_primeErrs_cons he2⟩
        intro m hm hm'
        rcases Nat.lt_or_ge m p1 with hlt | hge
        · exact ⟨[], k, ks, rfl, by simpa using hBabs m hm hlt⟩
        · exact (hl2 m hge hm').cons
      | oof => intro _; trivial
    | err e p1 =>
      intro hpr
      obtain ⟨hle, hB, hA⟩ := hpr
      have hBabs := lazyAbs p1 hB
      have hp1b := bnd p1 hle hBabs
      simp only [primeScan]
      refine ⟨hle, hp1b, Nat.le_trans (scan p1 hle hBabs) (le_primeScan _ _ _ _ _), ?_, ?_⟩
      · intro m hm hm'
        exact ⟨[], k, ks, rfl, by simpa using hBabs m hm hm'⟩
      · obtain ⟨ys, hys, hd⟩ := hA bound hp1b
        rw [hinv bound (Nat.le_trans hle hp1b)] at hd
        simp [primeErrs, hd, hys]
    | oof => intro _; trivial


/-! ### `it = glom(target, spec); list(islice(it, k))` -/

/-- the observable outcome of a `take k` run against the trace of the pipeline at horizon `N` -/
def TraceOK (kinds : List Kind) (src : Src) (k : Nat) (out : RunOut) : Prop :=
  ∀ N, out.pulls ≤ N →
    match out.fin with
    | .gotK => out.items.length = k ∧ ∃ rest : Tr, det kinds src N = rest.prepend out.items
    | .exhausted => out.items.length < k ∧ det kinds src N = ⟨out.items, .eof⟩
    | .raised e => out.items.length < k ∧ det kinds src N = ⟨out.items, .err e⟩
    | .oof => True

structure TakeSpec (kinds : List Kind) (src : Src) (k bound : Nat) (out : RunOut) : Prop where
  pulls_le : out.pulls ≤ bound
  /-- every source position pulled was needed: by a window being primed, or because the
      shorter prefix does not determine `k` outputs nor the end of the stream -/
  needed : ∀ m, m < out.pulls → PrimeNeeded src [] kinds m ∨ (det kinds src m).answers k = false
  result : (TraceOK kinds src k out ∧ out.pulls ≤ needFrom kinds src bound k (primeNeed kinds src bound)) ∨
    (out.items = [] ∧ out.pulls ≤ primeNeed kinds src bound ∧
      ∃ e, out.fin = .raised e ∧ e ∈ primeErrs src bound [] kinds)

theorem runTake_spec (src : Src) (fuel bound : Nat) (hb : SrcBound src bound) (kinds : List Kind) (k : Nat)
    (hfin : (runTake kinds src fuel k).fin ≠ .oof) : TakeSpec kinds src k bound (runTake kinds src fuel k) := by
  have hc := construct_sound src fuel bound hb kinds [] [] 0 0
    (fun N _ => by rw [denoteF_nil_zero]; rfl) (Nat.le_refl _) (Nat.zero_le _)
  unfold runTake at hfin ⊢
  revert hc hfin
  cases construct src fuel kinds [] 0 with
  | ok sts pos =>
    intro hfin hc
    simp only at hfin ⊢
    simp only [List.nil_append] at hc
    obtain ⟨_, hpb, hscan, hprime, hden⟩ := hc
    obtain ⟨hle, hB, ys, hys, hA⟩ := takeK_sound src fuel k sts pos []
    simp only [List.nil_append] at hys
    have hBabs : ∀ m, pos ≤ m → m < (takeK src fuel k sts pos []).1.pulls →
        (det kinds src m).answers k = false := fun m hm hm' => by rw [← hden m hm]; exact hB m hm hm'
    have hmb : ∀ m, pos ≤ m → m < (takeK src fuel k sts pos []).1.pulls → m < bound :=
      fun m hm hm' => hb _ (pipeTr_isMore kinds _ (answers_false_isMore (hBabs m hm hm')))
    refine ⟨?_, ?_, Or.inl ⟨?_, ?_⟩⟩
    · rcases Nat.eq_or_lt_of_le hle with heq | hlt
      · omega
      · have := hmb ((takeK src fuel k sts pos []).1.pulls - 1) (by omega) (by omega); omega
    · intro m hm
      rcases Nat.lt_or_ge m pos with hlt | hge
      · exact Or.inl (hprime m (Nat.zero_le _) hlt)
      · exact Or.inr (hBabs m hge hm)
    · intro N hN
      have h := hA N hN
      rw [hden N (Nat.le_trans hle hN)] at h
      revert h hfin
      rw [hys]
      cases (takeK src fuel k sts pos []).1.fin with
      | gotK => intro _ h; exact ⟨h.1, _, h.2⟩
      | exhausted => intro _ h; exact h
      | raised e => intro _ h; exact h
      | oof => intro h; exact absurd rfl h
    · exact pulls_le_need _ bound _ pos _ hscan hmb hBabs hle
  | err e pos =>
    intro _ hc
    simp only at hc
    obtain ⟨_, hpb, hscan, hprime, he⟩ := hc
    exact ⟨hpb, fun m hm => Or.inl (hprime m (Nat.zero_le _) hm), Or.inr ⟨rfl, hscan, e, rfl, he⟩⟩
  | oof => intro hfin _; exact absurd rfl hfin

mutual
theorem V.beq_refl : ∀ v : V, V.beq v v = true
  | .none => by simp [V.beq]
  | .int i => by simp [V.beq]
  | .list xs => by simp [V.beq, V.beqL_refl xs]
  | .tup xs => by simp [V.beq, V.beqL_refl xs]
theorem V.beqL_refl : ∀ xs : List V, V.beqL xs xs = true
  | [] => by simp [V.beqL]
  | x :: xs => by simp [V.beqL, V.beq_refl x, V.beqL_refl xs]
end
instance : ReflBEq V := ⟨fun {a} => V.beq_refl a⟩

theorem checkTake_of_spec (kinds : List Kind) (xs : List V) (tail : Option Err) (k : Nat) (out : RunOut)
    (hfin : out.fin ≠ .oof) (h : TakeSpec kinds (.fin xs tail) k xs.length out) :
    checkTake kinds (.fin xs tail) k ⟨out.items, out.fin, out.pulls⟩ = true := by
  unfold checkTake
  simp only [srcLen]
  rcases h.result with ⟨htr, hneed⟩ | ⟨hnil, hpn, e, hfe, hmem⟩
  · have ht := htr xs.length h.pulls_le
    apply Bool.or_eq_true_iff.mpr; left
    revert ht hfin
    cases out.fin with
    | gotK =>
      intro _ ht
      obtain ⟨hlen, rest, hrest⟩ := ht
      simp [hrest, Tr.prepend, hlen, hneed]
    | exhausted =>
      intro _ ht
      obtain ⟨hlen, hd⟩ := ht
      have : ¬ (k ≤ out.items.length) := by omega
      simp [hd, finOfTerm, hneed, this, List.take_of_length_le (Nat.le_of_lt hlen)]
    | raised e =>
      intro _ ht
      obtain ⟨hlen, hd⟩ := ht
      have : ¬ (k ≤ out.items.length) := by omega
      simp [hd, finOfTerm, hneed, this, List.take_of_length_le (Nat.le_of_lt hlen)]
    | oof => intro h; exact absurd rfl h
  · apply Bool.or_eq_true_iff.mpr; right
    simp [hnil, hfe, hpn, hmem]

end Glom.C17
