import Glom.Spec.C17
/-
  C17 — helper lemmas.

  Part A: the demand-driven chain (`pullFrom`, `prime`, `construct`, `takeK`,
          `drain`, `firstOf`) against the trace semantics (`pipeTr`):
          soundness, and "every pull is needed".
  Part B: each stage's trace function against its list function.
  Part C: `leastFrom`, bounds.
  Part D: termination.
  Part E: builders.
-/
namespace Glom.C17

/-! ## Part A -/

def Tr.cons (v : V) (t : Tr) : Tr := ⟨v :: t.items, t.term⟩

@[simp] theorem Tr.prepend_nil (t : Tr) : t.prepend [] = t := by cases t; rfl
@[simp] theorem Tr.prepend_cons (v : V) (o : List V) (t : Tr) :
    t.prepend (v :: o) = (t.prepend o).cons v := rfl
theorem Tr.prepend_append (a b : List V) (t : Tr) : t.prepend (a ++ b) = (t.prepend b).prepend a := by
  simp [Tr.prepend, List.append_assoc]

/-- what a stage state will still yield, given what the chain below it will yield -/
def driveIdle (s : StageSt) (us : List V) (t : Term) : Tr :=
  match s.err with
  | some e => ⟨[], .err e⟩
  | none => if s.stopped then ⟨[], .eof⟩ else foldCore s.core us t

def drive (s : StageSt) (us : List V) (t : Term) : Tr := (driveIdle s us t).prepend s.out

/-- what the chain `sts` (outermost first) will still yield over the future `us`, `t` of the source -/
def denote : List StageSt → List V → Term → Tr
  | [], us, t => ⟨us, t⟩
  | s :: rest, us, t => drive s (denote rest us t).items (denote rest us t).term

/-- the future of the source from position `pos`, as far as its first `N` items tell -/
def denoteF (src : Src) (sts : List StageSt) (pos N : Nat) : Tr :=
  denote sts ((src.pfx N).items.drop pos) (src.pfx N).term

theorem denoteF_cons (src : Src) (s : StageSt) (rest : List StageSt) (pos N : Nat) :
    denoteF src (s :: rest) pos N = drive s (denoteF src rest pos N).items (denoteF src rest pos N).term := rfl

/-! ### the stage interface -/

theorem poll_emit {s s' : StageSt} {v : V} (h : s.poll = (.emit v, s')) (us : List V) (t : Term) :
    drive s us t = (drive s' us t).cons v := by
  unfold StageSt.poll at h
  split at h
  · next w o ho =>
    simp only [Prod.mk.injEq, Act.emit.injEq] at h
    obtain ⟨rfl, rfl⟩ := h
    simp [drive, driveIdle, ho]
  · split at h
    · simp at h
    · split at h <;> simp at h

theorem poll_done {s s' : StageSt} (h : s.poll = (.done, s')) (us : List V) (t : Term) :
    drive s us t = ⟨[], .eof⟩ := by
  unfold StageSt.poll at h
  split at h
  · simp at h
  · next ho =>
    split at h
    · simp at h
    · next he =>
      split at h
      · next hs => simp [drive, driveIdle, ho, he, hs]
      · simp at h

theorem poll_fail {s s' : StageSt} {e : Err} (h : s.poll = (.fail e, s')) (us : List V) (t : Term) :
    drive s us t = ⟨[], .err e⟩ := by
  unfold StageSt.poll at h
  split at h
  · simp at h
  · next ho =>
    split at h
    · next e' he =>
      simp only [Prod.mk.injEq, Act.fail.injEq] at h
      obtain ⟨rfl, _⟩ := h
      simp [drive, driveIdle, ho, he]
    · split at h <;> simp at h

/-- a stage that answers `pull` is idle: nothing pending, not stopped, not failed -/
theorem poll_pull {s s' : StageSt} (h : s.poll = (.pull, s')) :
    s' = s ∧ s.out = [] ∧ s.err = none ∧ s.stopped = false := by
  unfold StageSt.poll at h
  split at h
  · simp at h
  · next ho =>
    split at h
    · simp at h
    · next he =>
      split at h
      · simp at h
      · next hs =>
        simp only [Prod.mk.injEq, true_and] at h
        exact ⟨h.symm, ho, he, by simpa using hs⟩

theorem drive_idle {s : StageSt} (ho : s.out = []) (he : s.err = none) (hs : s.stopped = false)
    (us : List V) (t : Term) : drive s us t = foldCore s.core us t := by
  simp [drive, driveIdle, ho, he, hs]

theorem drive_feed_some {s : StageSt} (ho : s.out = []) (he : s.err = none) (hs : s.stopped = false)
    (u : V) (us : List V) (t : Term) : drive s (u :: us) t = drive (s.feed (some u)) us t := by
  rw [drive_idle ho he hs]
  rcases hp : s.core.push u with ⟨o, c, st⟩
  cases st <;> simp [StageSt.feed, foldCore, hp, drive, driveIdle, Tr.prepend]

theorem drive_feed_none {s : StageSt} (ho : s.out = []) (he : s.err = none) (hs : s.stopped = false)
    (us : List V) (t : Term) : drive s [] .eof = drive (s.feed none) us t := by
  rw [drive_idle ho he hs]
  simp [StageSt.feed, drive, driveIdle, he, foldCore, Tr.prepend]

theorem drive_nil_more {s : StageSt} (ho : s.out = []) (he : s.err = none) (hs : s.stopped = false) :
    drive s [] .more = ⟨[], .more⟩ := by
  rw [drive_idle ho he hs]; simp [foldCore]

theorem drive_nil_err {s : StageSt} (ho : s.out = []) (he : s.err = none) (hs : s.stopped = false) (e : Err) :
    drive s [] (.err e) = ⟨[], .err e⟩ := by
  rw [drive_idle ho he hs]; simp [foldCore]

/-! ### the source -/

theorem pfx_getElem? (src : Src) (pos N : Nat) (v : V) (p' : Nat)
    (h : src.next pos = (.item v, p')) (hN : pos + 1 ≤ N) : (src.pfx N).items[pos]? = some v := by
  cases src with
  | fin xs tail =>
    simp only [Src.next] at h
    split at h
    · next w hw =>
      simp only [Prod.mk.injEq, Res.item.injEq] at h
      obtain ⟨rfl, _⟩ := h
      simp only [Src.pfx]
      split
      · exact hw
      · rw [List.getElem?_take]; simp [show pos < N by omega, hw]
    · split at h <;> simp at h
  | inf f =>
    simp only [Src.next, Prod.mk.injEq, Res.item.injEq] at h
    obtain ⟨rfl, _⟩ := h
    simp [Src.pfx, show pos < N by omega]

theorem pfx_length_le (src : Src) (N : Nat) : (src.pfx N).items.length ≤ N := by
  cases src with
  | fin xs tail => simp only [Src.pfx]; split <;> simp <;> omega
  | inf f => simp [Src.pfx]

theorem next_item {src : Src} {pos p' : Nat} {v : V} (h : src.next pos = (.item v, p')) :
    p' = pos + 1 ∧
    (∀ N, pos + 1 ≤ N → (src.pfx N).items.drop pos = v :: (src.pfx N).items.drop (pos + 1)) ∧
    (src.pfx pos).items.drop pos = [] ∧ (src.pfx pos).term = .more := by
  refine ⟨?_, ?_, ?_, ?_⟩
  · cases src with
    | fin xs tail =>
      simp only [Src.next] at h
      split at h
      · simp only [Prod.mk.injEq] at h; exact h.2.symm
      · split at h <;> simp at h
    | inf f => simp only [Src.next, Prod.mk.injEq] at h; exact h.2.symm
  · intro N hN
    have hg := pfx_getElem? src pos N v p' h hN
    have hlt : pos < (src.pfx N).items.length := by
      rcases Nat.lt_or_ge pos (src.pfx N).items.length with h1 | h1
      · exact h1
      · rw [List.getElem?_eq_none h1] at hg; simp at hg
    rw [List.drop_eq_getElem_cons hlt]
    rw [List.getElem?_eq_getElem hlt] at hg
    simp only [Option.some.injEq] at hg
    rw [hg]
  · apply List.drop_eq_nil_of_le; exact pfx_length_le src pos
  · cases src with
    | fin xs tail =>
      simp only [Src.next] at h
      split at h
      · next w hw =>
        have : pos < xs.length := by
          rcases Nat.lt_or_ge pos xs.length with h1 | h1
          · exact h1
          · rw [List.getElem?_eq_none h1] at hw; simp at hw
        simp only [Src.pfx]
        split
        · omega
        · rfl
      · split at h <;> simp at h
    | inf f => rfl

theorem next_eof {src : Src} {pos p' : Nat} (h : src.next pos = (.eof, p')) :
    p' = pos ∧ ∀ N, pos ≤ N → (src.pfx N).items.drop pos = [] ∧ (src.pfx N).term = .eof := by
  cases src with
  | fin xs tail =>
    simp only [Src.next] at h
    split at h
    · simp at h
    · next hw =>
      have hlen : xs.length ≤ pos := by
        rcases Nat.lt_or_ge pos xs.length with h1 | h1
        · rw [List.getElem?_eq_getElem h1] at hw; simp at hw
        · exact h1
      cases tail with
      | some e => simp at h
      | none =>
        simp only [Prod.mk.injEq, true_and] at h
        refine ⟨h.symm, fun N hN => ?_⟩
        simp only [Src.pfx]
        split
        · exact ⟨List.drop_eq_nil_of_le hlen, rfl⟩
        · omega
  | inf f => simp [Src.next] at h

theorem next_err {src : Src} {pos p' : Nat} {e : Err} (h : src.next pos = (.err e, p')) :
    p' = pos ∧ ∀ N, pos ≤ N → (src.pfx N).items.drop pos = [] ∧ (src.pfx N).term = .err e := by
  cases src with
  | fin xs tail =>
    simp only [Src.next] at h
    split at h
    · simp at h
    · next hw =>
      have hlen : xs.length ≤ pos := by
        rcases Nat.lt_or_ge pos xs.length with h1 | h1
        · rw [List.getElem?_eq_getElem h1] at hw; simp at hw
        · exact h1
      cases tail with
      | none => simp at h
      | some e' =>
        simp only [Prod.mk.injEq, Res.err.injEq] at h
        obtain ⟨rfl, h2⟩ := h
        refine ⟨h2.symm, fun N hN => ?_⟩
        simp only [Src.pfx]
        split
        · exact ⟨List.drop_eq_nil_of_le hlen, rfl⟩
        · omega
  | inf f => simp [Src.next] at h

theorem next_not_oof (src : Src) (pos : Nat) : (src.next pos).1 ≠ .oof := by
  cases src with
  | fin xs tail =>
    simp only [Src.next]
    split
    · simp
    · cases tail <;> simp
  | inf f => simp [Src.next]

/-! ### one demand on the chain -/

/-- what one `next()` on the chain establishes: positions only grow; every source position
    pulled on the way lies in a prefix that determined nothing yet (`more`, no item); and for
    every horizon `N` at or beyond the new position the chain's trace splits off exactly the
    answer -/
def StepOK (src : Src) (sts : List StageSt) (pos : Nat) (r : Res) (sts' : List StageSt) (pos' : Nat) : Prop :=
  pos ≤ pos' ∧
  (∀ n, pos ≤ n → n < pos' → denoteF src sts pos n = ⟨[], .more⟩) ∧
  (∀ N, pos' ≤ N →
    match r with
    | .item v => denoteF src sts pos N = (denoteF src sts' pos' N).cons v
    | .eof => denoteF src sts pos N = ⟨[], .eof⟩
    | .err e => denoteF src sts pos N = ⟨[], .err e⟩
    | .oof => True)

theorem pullFrom_nil (src : Src) (fuel pos : Nat) :
    pullFrom src fuel [] pos = ((src.next pos).1, [], (src.next pos).2) := by
  cases fuel <;> simp [pullFrom]

theorem pullFrom_zero (src : Src) (st : StageSt) (rest : List StageSt) (pos : Nat) :
    pullFrom src 0 (st :: rest) pos = (.oof, st :: rest, pos) := by
  simp [pullFrom]

theorem stepOK_src (src : Src) (pos : Nat) :
    StepOK src [] pos (src.next pos).1 [] (src.next pos).2 := by
  rcases hr : src.next pos with ⟨r, p'⟩
  cases r with
  | item v =>
    obtain ⟨rfl, h1, h2, h3⟩ := next_item hr
    refine ⟨by simp, ?_, ?_⟩
    · intro n hn hn'
      have : n = pos := by simp at hn'; omega
      subst this
      simp [denoteF, denote, h2, h3]
    · intro N hN
      simp only [denoteF, denote, Tr.cons]
      rw [h1 N hN]
  | eof =>
    obtain ⟨rfl, h1⟩ := next_eof hr
    refine ⟨Nat.le_refl _, fun n hn hn' => by simp at hn'; omega, fun N hN => ?_⟩
    simp [denoteF, denote, (h1 N hN).1, (h1 N hN).2]
  | err e =>
    obtain ⟨rfl, h1⟩ := next_err hr
    refine ⟨Nat.le_refl _, fun n hn hn' => by simp at hn'; omega, fun N hN => ?_⟩
    simp [denoteF, denote, (h1 N hN).1, (h1 N hN).2]
  | oof => exact absurd (by rw [hr]) (next_not_oof src pos)

theorem pullFrom_sound (src : Src) : ∀ (fuel : Nat) (sts : List StageSt) (pos : Nat),
    StepOK src sts pos (pullFrom src fuel sts pos).1 (pullFrom src fuel sts pos).2.1
      (pullFrom src fuel sts pos).2.2 := by
  intro fuel
  induction fuel with
  | zero =>
    intro sts pos
    cases sts with
    | nil => rw [pullFrom_nil]; exact stepOK_src src pos
    | cons st rest =>
      rw [pullFrom_zero]
      exact ⟨Nat.le_refl _, fun n hn hn' => by simp at hn'; omega, fun _ _ => trivial⟩
  | succ fuel ih =>
    intro sts pos
    cases sts with
    | nil => rw [pullFrom_nil]; exact stepOK_src src pos
    | cons st rest =>
      simp only [pullFrom]
      rcases hp : st.poll with ⟨act, st'⟩
      cases act with
      | emit v =>
        refine ⟨Nat.le_refl _, fun n hn hn' => by simp at hn'; omega, fun N _ => ?_⟩
        simp only [denoteF_cons]
        exact poll_emit hp _ _
      | done =>
        refine ⟨Nat.le_refl _, fun n hn hn' => by simp at hn'; omega, fun N _ => ?_⟩
        simp only [denoteF_cons]
        exact poll_done hp _ _
      | fail e =>
        refine ⟨Nat.le_refl _, fun n hn hn' => by simp at hn'; omega, fun N _ => ?_⟩
        simp only [denoteF_cons]
        exact poll_fail hp _ _
      | pull =>
        obtain ⟨rfl, ho, he, hs⟩ := poll_pull hp
        have ih1 := ih rest pos
        rcases h1 : pullFrom src fuel rest pos with ⟨r1, rest1, p1⟩
        rw [h1] at ih1
        obtain ⟨hle1, hB1, hA1⟩ := ih1
        cases r1 with
        | item u =>
          simp only
          have ih2 := ih (st'.feed (some u) :: rest1) p1
          rcases h2 : pullFrom src fuel (st'.feed (some u) :: rest1) p1 with ⟨r2, sts2, p2⟩
          rw [h2] at ih2
          obtain ⟨hle2, hB2, hA2⟩ := ih2
          have key : ∀ N, p1 ≤ N → denoteF src (st' :: rest) pos N =
              denoteF src (st'.feed (some u) :: rest1) p1 N := by
            intro N hN
            have := hA1 N hN
            simp only at this
            simp only [denoteF_cons, this, Tr.cons]
            exact drive_feed_some ho he hs u _ _
          refine ⟨Nat.le_trans hle1 hle2, ?_, ?_⟩
          · intro n hn hn'
            rcases Nat.lt_or_ge n p1 with hlt | hge
            · simp only [denoteF_cons, hB1 n hn hlt]
              exact drive_nil_more ho he hs
            · rw [key n hge]; exact hB2 n hge hn'
          · intro N hN
            have hN1 : p1 ≤ N := Nat.le_trans hle2 hN
            rw [key N hN1]
            exact hA2 N hN
        | eof =>
          simp only
          have ih2 := ih (st'.feed none :: rest1) p1
          rcases h2 : pullFrom src fuel (st'.feed none :: rest1) p1 with ⟨r2, sts2, p2⟩
          rw [h2] at ih2
          obtain ⟨hle2, hB2, hA2⟩ := ih2
          have key : ∀ N, p1 ≤ N → denoteF src (st' :: rest) pos N =
              denoteF src (st'.feed none :: rest1) p1 N := by
            intro N hN
            have := hA1 N hN
            simp only at this
            simp only [denoteF_cons, this]
            exact drive_feed_none ho he hs _ _
          refine ⟨Nat.le_trans hle1 hle2, ?_, ?_⟩
          · intro n hn hn'
            rcases Nat.lt_or_ge n p1 with hlt | hge
            · simp only [denoteF_cons, hB1 n hn hlt]
              exact drive_nil_more ho he hs
            · rw [key n hge]; exact hB2 n hge hn'
          · intro N hN
            have hN1 : p1 ≤ N := Nat.le_trans hle2 hN
            rw [key N hN1]
            exact hA2 N hN
        | err e =>
          simp only
          refine ⟨hle1, ?_, ?_⟩
          · intro n hn hn'
            simp only [denoteF_cons, hB1 n hn hn']
            exact drive_nil_more ho he hs
          · intro N hN
            have := hA1 N hN
            simp only at this
            simp only [denoteF_cons, this]
            exact drive_nil_err ho he hs e
        | oof =>
          simp only
          refine ⟨hle1, ?_, fun _ _ => trivial⟩
          intro n hn hn'
          simp only [denoteF_cons, hB1 n hn hn']
          exact drive_nil_more ho he hs

/-! ### requests for `k` items -/

@[simp] theorem answers_nil_more (k : Nat) : (Tr.mk [] .more).answers (k + 1) = false := by
  simp [Tr.answers, Term.isMore]

@[simp] theorem answers_cons (v : V) (d : Tr) (k : Nat) : (d.cons v).answers (k + 1) = d.answers k := by
  simp [Tr.answers, Tr.cons]

theorem cons_prepend (v : V) (ys : List V) (d : Tr) : (d.prepend ys).cons v = d.prepend (v :: ys) := rfl

theorem takeK_sound (src : Src) (fuel : Nat) : ∀ (k : Nat) (sts : List StageSt) (pos : Nat) (acc : List V),
    pos ≤ (takeK src fuel k sts pos acc).1.pulls ∧
    (∀ n, pos ≤ n → n < (takeK src fuel k sts pos acc).1.pulls → (denoteF src sts pos n).answers k = false) ∧
    ∃ ys, (takeK src fuel k sts pos acc).1.items = acc ++ ys ∧
      ∀ N, (takeK src fuel k sts pos acc).1.pulls ≤ N →
        match (takeK src fuel k sts pos acc).1.fin with
        | .gotK => ys.length = k ∧ denoteF src sts pos N =
            (denoteF src (takeK src fuel k sts pos acc).2 (takeK src fuel k sts pos acc).1.pulls N).prepend ys
        | .exhausted => ys.length < k ∧ denoteF src sts pos N = ⟨ys, .eof⟩
        | .raised e => ys.length < k ∧ denoteF src sts pos N = ⟨ys, .err e⟩
        | .oof => True := by
  intro k
  induction k with
  | zero =>
    intro sts pos acc
    simp only [takeK]
    exact ⟨Nat.le_refl _, fun n hn hn' => by omega, [], by simp, fun N _ => by simp⟩
  | succ k ih =>
    intro sts pos acc
    simp only [takeK]
    have hs := pullFrom_sound src fuel sts pos
    rcases h1 : pullFrom src fuel sts pos with ⟨r, sts1, p1⟩
    rw [h1] at hs
    obtain ⟨hle, hB, hA⟩ := hs
    cases r with
    | item v =>
      simp only
      obtain ⟨hle2, hB2, ys, hys, hA2⟩ := ih sts1 p1 (acc ++ [v])
      refine ⟨Nat.le_trans hle hle2, ?_, v :: ys, by simp [hys], ?_⟩
      · intro n hn hn'
        rcases Nat.lt_or_ge n p1 with hlt | hge
        · rw [hB n hn hlt]; simp
        · have := hA n hge
          simp only at this
          rw [this, answers_cons]
          exact hB2 n hge hn'
      · intro N hN
        have hN1 : p1 ≤ N := Nat.le_trans hle2 hN
        have h0 := hA N hN1
        simp only at h0
        have h2 := hA2 N hN
        revert h2
        cases (takeK src fuel k sts1 p1 (acc ++ [v])).1.fin with
        | gotK => intro h2; exact ⟨by simp [h2.1], by rw [h0, h2.2]; rfl⟩
        | exhausted => intro h2; exact ⟨by simp; omega, by rw [h0, h2.2]; rfl⟩
        | raised e => intro h2; exact ⟨by simp; omega, by rw [h0, h2.2]; rfl⟩
        | oof => intro _; trivial
    | eof =>
      simp only
      refine ⟨hle, fun n hn hn' => by rw [hB n hn hn']; simp, [], by simp, fun N hN => ?_⟩
      exact ⟨by simp, hA N hN⟩
    | err e =>
      simp only
      refine ⟨hle, fun n hn hn' => by rw [hB n hn hn']; simp, [], by simp, fun N hN => ?_⟩
      exact ⟨by simp, hA N hN⟩
    | oof =>
      simp only
      exact ⟨hle, fun n hn hn' => by rw [hB n hn hn']; simp, [], by simp, fun N hN => trivial⟩

/-! ### `glomit` -/

theorem drive_init (k : Kind) (us : List V) (t : Term) :
    drive (StageSt.init k) us t = stageTr k ⟨us, t⟩ := by
  simp only [drive, driveIdle, StageSt.init, stageTr]
  by_cases h : k.initStopped = true
  · simp only [h, ↓reduceIte, Bool.true_and]
    rcases k.initErr with _ | e <;> simp [Tr.prepend]
  · simp [h, Tr.prepend]

theorem denoteF_init (src : Src) (k : Kind) (acc : List StageSt) (pos N : Nat) :
    denoteF src (StageSt.init k :: acc) pos N = stageTr k (denoteF src acc pos N) := by
  rw [denoteF_cons, drive_init]

/-- priming pulls only while the chain below has not yet delivered the `n` items asked for -/
theorem prime_sound (src : Src) (fuel : Nat) : ∀ (n : Nat) (st : StageSt) (below : List StageSt) (pos : Nat),
    match prime src fuel n st below pos with
    | .ok sts' pos' => pos ≤ pos' ∧
        (∀ m, pos ≤ m → m < pos' → (denoteF src below pos m).answers n = false) ∧
        (∀ N, pos' ≤ N → denoteF src sts' pos' N = denoteF src (st :: below) pos N ∧
          (denoteF src below pos N).answers n = true)
    | .err e pos' => pos ≤ pos' ∧
        (∀ m, pos ≤ m → m < pos' → (denoteF src below pos m).answers n = false) ∧
        (∀ N, pos' ≤ N → ∃ ys, ys.length < n ∧ denoteF src below pos N = ⟨ys, .err e⟩)
    | .oof => True := by
  intro n
  induction n with
  | zero =>
    intro st below pos
    simp only [prime]
    exact ⟨Nat.le_refl _, fun m hm hm' => by omega, fun N _ => ⟨trivial, by simp [Tr.answers]⟩⟩
  | succ n ih =>
    intro st below pos
    simp only [prime]
    rcases hp : st.poll with ⟨act, st'⟩
    cases act with
    | pull =>
      obtain ⟨rfl, ho, he, hs⟩ := poll_pull hp
      simp only
      have hsd := pullFrom_sound src fuel below pos
      rcases h1 : pullFrom src fuel below pos with ⟨r, below1, p1⟩
      rw [h1] at hsd
      obtain ⟨hle, hB, hA⟩ := hsd
      cases r with
      | item v =>
        simp only
        have ih1 := ih (st'.feed (some v)) below1 p1
        have key : ∀ N, p1 ≤ N → denoteF src (st'.feed (some v) :: below1) p1 N =
            denoteF src (st' :: below) pos N := by
          intro N hN
          have := hA N hN
          simp only at this
          simp only [denoteF_cons, this, Tr.cons]
          exact (drive_feed_some ho he hs v _ _).symm
        have lazy : ∀ m, pos ≤ m → m < p1 → (denoteF src below pos m).answers (n + 1) = false :=
          fun m hm hm' => by rw [hB m hm hm']; simp
        revert ih1
        cases prime src fuel n (st'.feed (some v)) below1 p1 with
        | ok sts' pos' =>
          intro ih1
          obtain ⟨hle2, hB2, hA2⟩ := ih1
          refine ⟨Nat.le_trans hle hle2, ?_, ?_⟩
          · intro m hm hm'
            rcases Nat.lt_or_ge m p1 with hlt | hge
            · exact lazy m hm hlt
            · have := hA m hge
              simp only at this
              rw [this, answers_cons]
              exact hB2 m hge hm'
          · intro N hN
            have h0 := hA N (Nat.le_trans hle2 hN)
            simp only at h0
            refine ⟨by rw [(hA2 N hN).1, key N (Nat.le_trans hle2 hN)], ?_⟩
            rw [h0, answers_cons]; exact (hA2 N hN).2
        | err e pos' =>
          intro ih1
          obtain ⟨hle2, hB2, hA2⟩ := ih1
          refine ⟨Nat.le_trans hle hle2, ?_, ?_⟩
          · intro m hm hm'
            rcases Nat.lt_or_ge m p1 with hlt | hge
            · exact lazy m hm hlt
            · have := hA m hge
              simp only at this
              rw [this, answers_cons]
              exact hB2 m hge hm'
          · intro N hN
            obtain ⟨ys, hys, hd⟩ := hA2 N hN
            have := hA N (Nat.le_trans hle2 hN)
            simp only at this
            exact ⟨v :: ys, by simp; omega, by rw [this, hd]; rfl⟩
        | oof => intro _; trivial
      | eof =>
        simp only
        refine ⟨hle, fun m hm hm' => by rw [hB m hm hm']; simp, fun N hN => ?_⟩
        have := hA N hN
        simp only at this
        refine ⟨?_, by rw [this]; simp [Tr.answers, Term.isMore]⟩
        simp only [denoteF_cons, this]
        exact (drive_feed_none ho he hs _ _).symm
      | err e =>
        simp only
        refine ⟨hle, fun m hm hm' => by rw [hB m hm hm']; simp, fun N hN => ?_⟩
        exact ⟨[], by simp, hA N hN⟩
      | oof => simp only
    | emit v => trivial
    | done => trivial
    | fail e => trivial

theorem pipeTr_append (a b : List Kind) (d : Tr) : pipeTr (a ++ b) d = pipeTr b (pipeTr a d) := by
  induction a generalizing d with
  | nil => rfl
  | cons k a ih => simp [pipeTr, ih]

theorem denoteF_nil_zero (src : Src) (N : Nat) : denoteF src [] 0 N = src.pfx N := by
  simp [denoteF, denote]

/-! ### an undetermined trace needs an undetermined input -/

theorem foldCore_isMore (c : Core) (us : List V) (t : Term) :
    (foldCore c us t).term.isMore = true → t.isMore = true := by
  induction us generalizing c with
  | nil => cases t <;> simp [foldCore, Term.isMore]
  | cons u us ih =>
    simp only [foldCore]
    rcases c.push u with ⟨o, c', st⟩
    cases st with
    | go => simpa [Tr.prepend] using ih c'
    | stop => simp [Term.isMore]
    | fail e => simp [Term.isMore]

theorem drive_isMore (s : StageSt) (us : List V) (t : Term) :
    (drive s us t).term.isMore = true → t.isMore = true := by
  simp only [drive, driveIdle, Tr.prepend]
  cases s.err with
  | some e => simp [Term.isMore]
  | none =>
    by_cases h : s.stopped = true
    · simp [h, Term.isMore]
    · simpa [h] using foldCore_isMore s.core us t

theorem denote_isMore (sts : List StageSt) (us : List V) (t : Term) :
    (denote sts us t).term.isMore = true → t.isMore = true := by
  induction sts with
  | nil => simp [denote]
  | cons s rest ih => intro h; exact ih (drive_isMore _ _ _ h)

theorem stageTr_isMore (k : Kind) (d : Tr) : (stageTr k d).term.isMore = true → d.term.isMore = true := by
  simp only [stageTr]
  by_cases h : k.initStopped = true
  · cases he : k.initErr <;> simp [h, he, Term.isMore]
  · simpa [h] using foldCore_isMore _ d.items d.term

theorem pipeTr_isMore (ks : List Kind) (d : Tr) : (pipeTr ks d).term.isMore = true → d.term.isMore = true := by
  induction ks generalizing d with
  | nil => simp [pipeTr]
  | cons k ks ih => intro h; exact stageTr_isMore k d (ih _ h)

theorem answers_false_isMore {d : Tr} {k : Nat} (h : d.answers k = false) : d.term.isMore = true := by
  simp only [Tr.answers, Bool.or_eq_false_iff, Bool.not_eq_false'] at h
  exact h.2

/-- a source whose first `n` items leave its end open has more than `n` items -/
def SrcBound (src : Src) (bound : Nat) : Prop := ∀ n, (src.pfx n).term.isMore = true → n < bound

theorem srcBound_fin (xs : List V) (tail : Option Err) : SrcBound (.fin xs tail) xs.length := by
  intro n h
  simp only [Src.pfx] at h
  split at h
  · cases tail <;> simp [Term.isMore] at h
  · omega

/-! ### `leastFrom` -/

theorem le_leastFrom_start (p : Nat → Bool) (bound : Nat) : ∀ fuel start, start ≤ leastFrom p bound fuel start := by
  intro fuel
  induction fuel with
  | zero => intro start; simp [leastFrom]
  | succ fuel ih =>
    intro start
    simp only [leastFrom]
    split
    · exact Nat.le_refl _
    · exact Nat.le_trans (Nat.le_succ _) (ih (start + 1))

theorem le_leastFrom (p : Nat → Bool) (bound : Nat) : ∀ fuel start q, q ≤ bound →
    (∀ m, start ≤ m → m < q → p m = false) → q - start ≤ fuel → q ≤ leastFrom p bound fuel start := by
  intro fuel
  induction fuel with
  | zero => intro start q _ _ hf; simp only [leastFrom]; omega
  | succ fuel ih =>
    intro start q hq hp hf
    simp only [leastFrom]
    rcases Nat.lt_or_ge start q with hlt | hge
    · have h1 : p start = false := hp start (Nat.le_refl _) hlt
      have h2 : ¬ (start ≥ bound) := by omega
      simp only [h1, Bool.or_false, decide_eq_true_eq, h2, ↓reduceIte]
      exact ih (start + 1) q hq (fun m hm hm' => hp m (by omega) hm') (by omega)
    · split
      · exact hge
      · exact Nat.le_trans hge (Nat.le_trans (Nat.le_succ _) (le_leastFrom_start p bound fuel (start + 1)))

/-- the positions a lazy request pulled, against the number of items the request needs -/
theorem pulls_le_need (p : Nat → Bool) (bound start pos q : Nat) (hpos : pos ≤ start)
    (hb : ∀ m, pos ≤ m → m < q → m < bound)
    (hp : ∀ m, pos ≤ m → m < q → p m = false) (hposq : pos ≤ q) :
    q ≤ leastFrom p bound (bound + 1) start := by
  rcases Nat.lt_or_ge start q with hlt | hge
  · have hqb : q ≤ bound := by
      have := hb (q - 1) (by omega) (by omega)
      omega
    exact le_leastFrom p bound (bound + 1) start q hqb (fun m hm hm' => hp m (by omega) hm') (by omega)
  · exact Nat.le_trans hge (le_leastFrom_start p bound _ start)

theorem le_primeScan (src : Src) (bound : Nat) : ∀ (ks before : List Kind) (p : Nat),
    p ≤ primeScan src bound before ks p := by
  intro ks
  induction ks with
  | nil => intro before p; simp [primeScan]
  | cons k ks ih =>
    intro before p
    simp only [primeScan]
    refine Nat.le_trans ?_ (ih _ _)
    split
    · exact Nat.le_refl _
    · exact le_leastFrom_start _ _ _ _

/-- position `m` was pulled by `glomit` because a `windowed` stage still lacked items:
    the chain below that stage, on the first `m` source items, does not deliver `size - 1` -/
def PrimeNeeded (src : Src) (before ks : List Kind) (m : Nat) : Prop :=
  ∃ b k a, ks = b ++ k :: a ∧ (det (before ++ b) src m).answers k.primeCount = false

theorem PrimeNeeded.cons {src : Src} {before ks : List Kind} {k : Kind} {m : Nat}
    (h : PrimeNeeded src (before ++ [k]) ks m) : PrimeNeeded src before (k :: ks) m := by
  obtain ⟨b, k', a, rfl, hn⟩ := h
  exact ⟨k :: b, k', a, rfl, by simpa [List.append_assoc] using hn⟩

theorem mem_primeErrs_cons {src : Src} {bound : Nat} {before ks : List Kind} {k : Kind} {e : Err}
    (h : e ∈ primeErrs src bound (before ++ [k]) ks) : e ∈ primeErrs src bound before (k :: ks) := by
  simp only [primeErrs, List.mem_append]; exact Or.inr h

/-- `glomit` raised `e`: a window being primed met the error of the chain below it -/
def PrimeRaised (src : Src) (before ks : List Kind) (e : Err) (N : Nat) : Prop :=
  ∃ b k a ys, ks = b ++ k :: a ∧ ys.length < k.primeCount ∧ det (before ++ b) src N = ⟨ys, .err e⟩

theorem PrimeRaised.cons {src : Src} {before ks : List Kind} {k : Kind} {e : Err} {N : Nat}
    (h : PrimeRaised src (before ++ [k]) ks e N) : PrimeRaised src before (k :: ks) e N := by
  obtain ⟨b, k', a, ys, rfl, hys, hd⟩ := h
  exact ⟨k :: b, k', a, ys, rfl, hys, by simpa [List.append_assoc] using hd⟩

theorem primeRaised_mem {src : Src} {bound : Nat} : ∀ {ks before : List Kind} {e : Err},
    PrimeRaised src before ks e bound → e ∈ primeErrs src bound before ks := by
  intro ks
  induction ks with
  | nil => intro before e h; obtain ⟨b, k, a, ys, h, _⟩ := h; simp at h
  | cons k ks ih =>
    intro before e h
    obtain ⟨b, k', a, ys, hk, hys, hd⟩ := h
    cases b with
    | nil =>
      simp only [List.nil_append, List.cons.injEq] at hk
      obtain ⟨rfl, rfl⟩ := hk
      simp only [List.append_nil] at hd
      simp [primeErrs, hd, hys]
    | cons k0 b =>
      simp only [List.cons_append, List.cons.injEq] at hk
      obtain ⟨rfl, rfl⟩ := hk
      exact mem_primeErrs_cons (ih ⟨b, k', a, ys, rfl, hys, by simpa [List.append_assoc] using hd⟩)

/-- every window of the chain gets its `size - 1` items (or the end) from the first `N` source items -/
def PrimeAnswered (src : Src) (N : Nat) (before ks : List Kind) : Prop :=
  ∀ b k a, ks = b ++ k :: a → (det (before ++ b) src N).answers k.primeCount = true

theorem PrimeAnswered.cons {src : Src} {N : Nat} {before ks : List Kind} {k : Kind}
    (h0 : (det before src N).answers k.primeCount = true) (h : PrimeAnswered src N (before ++ [k]) ks) :
    PrimeAnswered src N before (k :: ks) := by
  intro b k' a hk
  cases b with
  | nil =>
    simp only [List.nil_append, List.cons.injEq] at hk
    obtain ⟨rfl, rfl⟩ := hk
    simpa using h0
  | cons k0 b =>
    simp only [List.cons_append, List.cons.injEq] at hk
    obtain ⟨rfl, rfl⟩ := hk
    simpa [List.append_assoc] using h b k' a rfl

/-- once a prefix trace is terminated, every window further up is answered -/
theorem primeAnswered_of_not_more {src : Src} {N : Nat} {before ks : List Kind}
    (h : (det before src N).term.isMore = false) : PrimeAnswered src N before ks := by
  intro b k a _
  have : (det (before ++ b) src N).term.isMore = false := by
    rcases hm : (det (before ++ b) src N).term.isMore with _ | _
    · rfl
    · simp only [det, pipeTr_append] at hm
      have := pipeTr_isMore b _ hm
      simp only [det] at h
      rw [h] at this; exact absurd this (by simp)
  simp [Tr.answers, this]

/-- `glomit`, against the trace semantics.  The last component bounds the position by the
    reference scan when the source has a known length `bound`. -/
theorem construct_sound (src : Src) (fuel bound : Nat) :
    ∀ (ks before : List Kind) (acc : List StageSt) (pos p : Nat),
    (∀ N, pos ≤ N → denoteF src acc pos N = det before src N) →
    match construct src fuel ks acc pos with
    | .ok sts' pos' => pos ≤ pos' ∧
        (∀ m, pos ≤ m → m < pos' → PrimeNeeded src before ks m) ∧
        (∀ N, pos' ≤ N → denoteF src sts' pos' N = det (before ++ ks) src N) ∧
        (SrcBound src bound → pos ≤ p → pos ≤ bound → pos' ≤ bound ∧ pos' ≤ primeScan src bound before ks p) ∧
        (∀ N, pos' ≤ N → PrimeAnswered src N before ks)
    | .err e pos' => pos ≤ pos' ∧
        (∀ m, pos ≤ m → m < pos' → PrimeNeeded src before ks m) ∧
        (∀ N, pos' ≤ N → PrimeRaised src before ks e N) ∧
        (SrcBound src bound → pos ≤ p → pos ≤ bound → pos' ≤ bound ∧ pos' ≤ primeScan src bound before ks p) ∧
        (∀ N, pos' ≤ N → PrimeAnswered src N before ks)
    | .oof => True := by
  intro ks
  induction ks with
  | nil =>
    intro before acc pos p hinv
    simp only [construct, primeScan, List.append_nil]
    exact ⟨Nat.le_refl _, fun m hm hm' => by omega, hinv, fun _ hp hpb => ⟨hpb, hp⟩,
      fun N _ b k a h => by simp at h⟩
  | cons k ks ih =>
    intro before acc pos p hinv
    simp only [construct]
    have hpr := prime_sound src fuel k.primeCount (StageSt.init k) acc pos
    -- facts shared by the two outcomes of priming
    have lazyAbs : ∀ pos', (∀ m, pos ≤ m → m < pos' → (denoteF src acc pos m).answers k.primeCount = false) →
        (∀ m, pos ≤ m → m < pos' → (det before src m).answers k.primeCount = false) :=
      fun pos' h m hm hm' => by rw [← hinv m hm]; exact h m hm hm'
    have bnd : SrcBound src bound → pos ≤ bound → ∀ pos', pos ≤ pos' →
        (∀ m, pos ≤ m → m < pos' → (det before src m).answers k.primeCount = false) → pos' ≤ bound := by
      intro hb hpb pos' hle h
      rcases Nat.eq_or_lt_of_le hle with heq | hlt
      · omega
      · have h1 := h (pos' - 1) (by omega) (by omega)
        have h2 := pipeTr_isMore before _ (answers_false_isMore h1)
        have := hb _ h2
        omega
    have scan : SrcBound src bound → pos ≤ p → ∀ pos', pos ≤ pos' →
        (∀ m, pos ≤ m → m < pos' → (det before src m).answers k.primeCount = false) →
        pos' ≤ (if k.primeCount = 0 then p else needFrom before src bound k.primeCount p) := by
      intro hb hp pos' hle h
      split
      · next hc =>
        -- nothing is primed: no position can have been pulled
        rcases Nat.eq_or_lt_of_le hle with heq | hlt
        · omega
        · have := h pos (Nat.le_refl _) hlt
          simp [hc, Tr.answers] at this
      · exact pulls_le_need _ bound p pos pos' hp
          (fun m hm hm' => hb _ (pipeTr_isMore before _ (answers_false_isMore (h m hm hm')))) h hle
    revert hpr
    cases hprime : prime src fuel k.primeCount (StageSt.init k) acc pos with
    | ok acc' p1 =>
      intro hpr
      obtain ⟨hle, hB, hA⟩ := hpr
      have hBabs := lazyAbs p1 hB
      have hinv' : ∀ N, p1 ≤ N → denoteF src acc' p1 N = det (before ++ [k]) src N := by
        intro N hN
        rw [(hA N hN).1, denoteF_init, hinv N (Nat.le_trans hle hN)]
        simp [det, pipeTr_append, pipeTr]
      have := ih (before ++ [k]) acc' p1
        (if k.primeCount = 0 then p else needFrom before src bound k.primeCount p) hinv'
      simp only [primeScan]
      revert this
      cases construct src fuel ks acc' p1 with
      | ok sts' pos' =>
        intro this
        obtain ⟨hle2, hl2, hA2, hbd2, hpa2⟩ := this
        refine ⟨Nat.le_trans hle hle2, ?_, ?_, ?_, ?_⟩
        · intro m hm hm'
          rcases Nat.lt_or_ge m p1 with hlt | hge
          · exact ⟨[], k, ks, rfl, by simpa using hBabs m hm hlt⟩
          · exact (hl2 m hge hm').cons
        · intro N hN
          rw [hA2 N hN]; simp [List.append_assoc]
        · intro hb hp hpb
          exact hbd2 hb (scan hb hp p1 hle hBabs) (bnd hb hpb p1 hle hBabs)
        · intro N hN
          have hN1 : p1 ≤ N := Nat.le_trans hle2 hN
          refine PrimeAnswered.cons ?_ (hpa2 N hN)
          rw [← hinv N (Nat.le_trans hle hN1)]; exact (hA N hN1).2
      | err e pos' =>
        intro this
        obtain ⟨hle2, hl2, hr2, hbd2, hpa2⟩ := this
        refine ⟨Nat.le_trans hle hle2, ?_, fun N hN => (hr2 N hN).cons, ?_, ?_⟩
        · intro m hm hm'
          rcases Nat.lt_or_ge m p1 with hlt | hge
          · exact ⟨[], k, ks, rfl, by simpa using hBabs m hm hlt⟩
          · exact (hl2 m hge hm').cons
        · intro hb hp hpb
          exact hbd2 hb (scan hb hp p1 hle hBabs) (bnd hb hpb p1 hle hBabs)
        · intro N hN
          have hN1 : p1 ≤ N := Nat.le_trans hle2 hN
          refine PrimeAnswered.cons ?_ (hpa2 N hN)
          rw [← hinv N (Nat.le_trans hle hN1)]; exact (hA N hN1).2
      | oof => intro _; trivial
    | err e p1 =>
      intro hpr
      obtain ⟨hle, hB, hA⟩ := hpr
      have hBabs := lazyAbs p1 hB
      simp only [primeScan]
      refine ⟨hle, ?_, ?_, ?_, ?_⟩
      · intro m hm hm'
        exact ⟨[], k, ks, rfl, by simpa using hBabs m hm hm'⟩
      · intro N hN
        obtain ⟨ys, hys, hd⟩ := hA N hN
        rw [hinv N (Nat.le_trans hle hN)] at hd
        exact ⟨[], k, ks, ys, rfl, hys, by simpa using hd⟩
      · intro hb hp hpb
        exact ⟨bnd hb hpb p1 hle hBabs, Nat.le_trans (scan hb hp p1 hle hBabs) (le_primeScan _ _ _ _ _)⟩
      · intro N hN
        obtain ⟨ys, hys, hd⟩ := hA N hN
        rw [hinv N (Nat.le_trans hle hN)] at hd
        exact primeAnswered_of_not_more (by rw [hd]; rfl)
    | oof => intro _; trivial

/-! ### `it = glom(target, spec); list(islice(it, k))` -/

/-- the observable outcome of a `take k` run against the trace of the pipeline at horizon `N` -/
def TraceOK (kinds : List Kind) (src : Src) (k : Nat) (out : RunOut) : Prop :=
  ∀ N, out.pulls ≤ N →
    match out.fin with
    | .gotK => out.items.length = k ∧ ∃ rest : Tr, det kinds src N = rest.prepend out.items
    | .exhausted => out.items.length < k ∧ det kinds src N = ⟨out.items, .eof⟩
    | .raised e => out.items.length < k ∧ det kinds src N = ⟨out.items, .err e⟩
    | .oof => True

/-- what a `take k` run establishes, for every source (finite or not) -/
structure TakeSpec (kinds : List Kind) (src : Src) (k : Nat) (out : RunOut) : Prop where
  /-- every window got its items (or the end) from the prefix pulled -/
  primed : ∀ N, out.pulls ≤ N → PrimeAnswered src N [] kinds
  /-- every source position pulled was needed: by a window being primed, or because the
      shorter prefix does not determine `k` outputs nor the end of the stream -/
  needed : ∀ m, m < out.pulls → PrimeNeeded src [] kinds m ∨ (det kinds src m).answers k = false
  result : TraceOK kinds src k out ∨
    (out.items = [] ∧ ∃ e, out.fin = .raised e ∧ ∀ N, out.pulls ≤ N → PrimeRaised src [] kinds e N)
  /-- against the reference scan, when the source has a known length -/
  bounded : ∀ bound, SrcBound src bound → out.pulls ≤ bound ∧
    ((∃ e, out.fin = .raised e ∧ out.items = [] ∧ PrimeRaised src [] kinds e bound ∧
        out.pulls ≤ primeNeed kinds src bound) ∨
      (TraceOK kinds src k out ∧ out.pulls ≤ needFrom kinds src bound k (primeNeed kinds src bound)))

theorem runTake_spec (src : Src) (fuel : Nat) (kinds : List Kind) (k : Nat)
    (hfin : (runTake kinds src fuel k).fin ≠ .oof) : TakeSpec kinds src k (runTake kinds src fuel k) := by
  have hc : ∀ bound, _ := fun bound => construct_sound src fuel bound kinds [] [] 0 0
    (fun N _ => by rw [denoteF_nil_zero]; rfl)
  unfold runTake at hfin ⊢
  revert hc hfin
  cases construct src fuel kinds [] 0 with
  | ok sts pos =>
    intro hfin hc
    simp only at hfin hc ⊢
    obtain ⟨_, hprime, hden, _, hpa⟩ := hc 0
    simp only [List.nil_append] at hden
    obtain ⟨hle, hB, ys, hys, hA⟩ := takeK_sound src fuel k sts pos []
    simp only [List.nil_append] at hys
    have hBabs : ∀ m, pos ≤ m → m < (takeK src fuel k sts pos []).1.pulls →
        (det kinds src m).answers k = false := fun m hm hm' => by rw [← hden m hm]; exact hB m hm hm'
    have htrace : TraceOK kinds src k (takeK src fuel k sts pos []).1 := by
      intro N hN
      have h := hA N hN
      rw [hden N (Nat.le_trans hle hN)] at h
      revert h hfin
      rw [hys]
      cases (takeK src fuel k sts pos []).1.fin with
      | gotK => intro _ h; exact ⟨h.1, _, h.2⟩
      | exhausted => intro _ h; exact h
      | raised e => intro _ h; exact h
      | oof => intro h; exact absurd rfl h
    refine ⟨fun N hN => hpa N (Nat.le_trans hle hN), ?_, Or.inl htrace, ?_⟩
    · intro m hm
      rcases Nat.lt_or_ge m pos with hlt | hge
      · exact Or.inl (hprime m (Nat.zero_le _) hlt)
      · exact Or.inr (hBabs m hge hm)
    · intro bound hb
      obtain ⟨_, _, _, hbd, _⟩ := hc bound
      obtain ⟨hpb, hscan⟩ := hbd hb (Nat.le_refl _) (Nat.zero_le _)
      have hmb : ∀ m, pos ≤ m → m < (takeK src fuel k sts pos []).1.pulls → m < bound :=
        fun m hm hm' => hb _ (pipeTr_isMore kinds _ (answers_false_isMore (hBabs m hm hm')))
      refine ⟨?_, Or.inr ⟨htrace, pulls_le_need _ bound _ pos _ hscan hmb hBabs hle⟩⟩
      rcases Nat.eq_or_lt_of_le hle with heq | hlt
      · omega
      · have := hmb ((takeK src fuel k sts pos []).1.pulls - 1) (by omega) (by omega); omega
  | err e pos =>
    intro _ hc
    simp only at hc ⊢
    obtain ⟨_, hprime, hraised, _, hpa⟩ := hc 0
    refine ⟨fun N hN => hpa N hN, fun m hm => Or.inl (hprime m (Nat.zero_le _) hm), Or.inr ⟨rfl, e, rfl, hraised⟩, ?_⟩
    intro bound hb
    obtain ⟨_, _, hr, hbd, _⟩ := hc bound
    obtain ⟨hpb, hscan⟩ := hbd hb (Nat.le_refl _) (Nat.zero_le _)
    exact ⟨hpb, Or.inl ⟨e, rfl, rfl, hr bound hpb, hscan⟩⟩
  | oof => intro hfin _; exact absurd rfl hfin

mutual
theorem V.beq_refl : ∀ v : V, V.beq v v = true
  | .none => by simp [V.beq]
  | .int i => by simp [V.beq]
  | .list xs => by simp [V.beq, V.beqL_refl xs]
  | .tup xs => by simp [V.beq, V.beqL_refl xs]
  | .bool b => by simp [V.beq]
  | .flt i => by simp [V.beq]
  | .str s => by simp [V.beq]
  | .obj c => by simp [V.beq]
  | .ref i v => by simp [V.beq, V.beq_refl v]
  | .sent b => by simp [V.beq]
  | .gen => by simp [V.beq]
theorem V.beqL_refl : ∀ xs : List V, V.beqL xs xs = true
  | [] => by simp [V.beqL]
  | x :: xs => by simp [V.beqL, V.beq_refl x, V.beqL_refl xs]
end
instance : ReflBEq V := ⟨fun {a} => V.beq_refl a⟩

theorem checkTake_of_spec (kinds : List Kind) (xs : List V) (tail : Option Err) (k : Nat) (out : RunOut)
    (hfin : out.fin ≠ .oof) (h : TakeSpec kinds (.fin xs tail) k out) :
    checkTake kinds (.fin xs tail) k ⟨out.items, out.fin, out.pulls⟩ = true := by
  unfold checkTake
  simp only [srcLen]
  obtain ⟨hpl, hres⟩ := h.bounded xs.length (srcBound_fin xs tail)
  rcases hres with ⟨e, hfe, hnil, hraised, hpn⟩ | ⟨htr, hneed⟩
  · apply Bool.or_eq_true_iff.mpr; right
    simp [hnil, hfe, hpn, primeRaised_mem hraised]
  · have ht := htr xs.length hpl
    apply Bool.or_eq_true_iff.mpr; left
    revert ht hfin
    cases out.fin with
    | gotK =>
      intro _ ht
      obtain ⟨hlen, rest, hrest⟩ := ht
      simp [hrest, Tr.prepend, hlen, hneed]
    | exhausted =>
      intro _ ht
      obtain ⟨hlen, hd⟩ := ht
      have : ¬ (k ≤ out.items.length) := by omega
      simp [hd, finOfTerm, hneed, this, List.take_of_length_le (Nat.le_of_lt hlen)]
    | raised e =>
      intro _ ht
      obtain ⟨hlen, hd⟩ := ht
      have : ¬ (k ≤ out.items.length) := by omega
      simp [hd, finOfTerm, hneed, this, List.take_of_length_le (Nat.le_of_lt hlen)]
    | oof => intro h; exact absurd rfl h

/-! ## Part B: each stage's trace function against its list function -/

mutual
theorem V.eq_of_beq : ∀ a b : V, V.beq a b = true → a = b
  | .none, b, h => by cases b <;> first | rfl | simp [V.beq] at h
  | .int i, b, h => by cases b <;> first | (simp [V.beq] at h; rw [h]) | simp [V.beq] at h
  | .bool i, b, h => by cases b <;> first | (simp [V.beq] at h; rw [h]) | simp [V.beq] at h
  | .flt i, b, h => by cases b <;> first | (simp [V.beq] at h; rw [h]) | simp [V.beq] at h
  | .str i, b, h => by cases b <;> first | (simp [V.beq] at h; rw [h]) | simp [V.beq] at h
  | .obj i, b, h => by cases b <;> first | (simp [V.beq] at h; rw [h]) | simp [V.beq] at h
  | .sent i, b, h => by cases b <;> first | (simp [V.beq] at h; rw [h]) | simp [V.beq] at h
  | .gen, b, h => by cases b <;> first | rfl | simp [V.beq] at h
  | .list xs, .list ys, h => by simp only [V.beq] at h; rw [V.eq_of_beqL xs ys h]
  | .tup xs, .tup ys, h => by simp only [V.beq] at h; rw [V.eq_of_beqL xs ys h]
  | .ref i a, .ref j b, h => by
    simp only [V.beq, Bool.and_eq_true, beq_iff_eq] at h
    rw [h.1, V.eq_of_beq a b h.2]
  | .list _, .none, h | .list _, .int _, h | .list _, .tup _, h | .list _, .bool _, h | .list _, .flt _, h
  | .list _, .str _, h | .list _, .obj _, h | .list _, .ref _ _, h | .list _, .sent _, h | .list _, .gen, h => by
    simp [V.beq] at h
  | .tup _, .none, h | .tup _, .int _, h | .tup _, .list _, h | .tup _, .bool _, h | .tup _, .flt _, h
  | .tup _, .str _, h | .tup _, .obj _, h | .tup _, .ref _ _, h | .tup _, .sent _, h | .tup _, .gen, h => by
    simp [V.beq] at h
  | .ref _ _, .none, h | .ref _ _, .int _, h | .ref _ _, .list _, h | .ref _ _, .bool _, h | .ref _ _, .flt _, h
  | .ref _ _, .str _, h | .ref _ _, .obj _, h | .ref _ _, .tup _, h | .ref _ _, .sent _, h | .ref _ _, .gen, h => by
    simp [V.beq] at h
theorem V.eq_of_beqL : ∀ as bs : List V, V.beqL as bs = true → as = bs
  | [], [], _ => rfl
  | a :: as, b :: bs, h => by
    simp only [V.beqL, Bool.and_eq_true] at h
    rw [V.eq_of_beq a b h.1, V.eq_of_beqL as bs h.2]
  | [], _ :: _, h => by simp [V.beqL] at h
  | _ :: _, [], h => by simp [V.beqL] at h
end

instance : LawfulBEq V where
  eq_of_beq {a b} h := V.eq_of_beq a b h
  rfl {a} := V.beq_refl a

theorem except_bind_ok {α β : Type} {x : Except Err α} {f : α → Except Err β} {b : β}
    (h : (x >>= f) = .ok b) : ∃ a, x = .ok a ∧ f a = .ok b := by
  cases x with
  | error e => simp [bind, Except.bind] at h
  | ok a => exact ⟨a, rfl, h⟩

theorem flush_nil (c : Core) (h : ∀ n f, c.kind ≠ .chunked n f) (h2 : ∀ s m, c.kind ≠ .split s m) : c.flush = [] := by
  unfold Core.flush
  split
  · next n f hk => exact absurd hk (h n f)
  · next s m hk => exact absurd hk (h2 s m)
  · rfl

theorem fold_map (f : Fn) (c : Core) (hc : c.kind = .map f) :
    ∀ xs ys, xs.mapM f = .ok ys → foldCore c xs .eof = ⟨ys, .eof⟩ := by
  intro xs
  induction xs with
  | nil =>
    intro ys h
    simp only [List.mapM_nil, pure, Except.pure, Except.ok.injEq] at h
    subst h
    simp [foldCore, flush_nil c (by simp [hc]) (by simp [hc])]
  | cons x xs ih =>
    intro ys h
    rw [List.mapM_cons] at h
    obtain ⟨y, hy, h⟩ := except_bind_ok h
    obtain ⟨ys', hys', h⟩ := except_bind_ok h
    simp only [pure, Except.pure, Except.ok.injEq] at h
    subst h
    simp [foldCore, Core.push, hc, hy, ih ys' hys', Tr.prepend]

theorem fold_base (sub : BaseFn) (s : Option V) (c : Core) (hc : c.kind = .base sub s) :
    ∀ xs ys, baseE sub s xs = .ok ys → foldCore c xs .eof = ⟨ys, .eof⟩ := by
  intro xs
  induction xs with
  | nil =>
    intro ys h
    simp only [baseE, Except.ok.injEq] at h
    subst h
    simp [foldCore, flush_nil c (by simp [hc]) (by simp [hc])]
  | cons x xs ih =>
    intro ys h
    simp only [baseE] at h
    obtain ⟨y, hy, h⟩ := except_bind_ok h
    cases y with
    | skip =>
      simp only at h
      simp [foldCore, Core.push, hc, hy, ih ys h, Tr.prepend]
    | stop =>
      simp only [pure, Except.pure, Except.ok.injEq] at h
      subst h
      simp [foldCore, Core.push, hc, hy]
    | val v =>
      simp only at h
      cases s with
      | none =>
        simp only [Bool.false_eq_true, ↓reduceIte] at h
        obtain ⟨r, hr, h⟩ := except_bind_ok h
        simp only [pure, Except.pure, Except.ok.injEq] at h
        subst h
        simp [foldCore, Core.push, hc, hy, ih r hr, Tr.prepend]
      | some sv =>
        by_cases hv : v.is sv = true
        · simp only [hv, ↓reduceIte, pure, Except.pure, Except.ok.injEq] at h
          subst h
          simp [foldCore, Core.push, hc, hy, hv]
        · simp only [hv, Bool.false_eq_true, ↓reduceIte] at h
          obtain ⟨r, hr, h⟩ := except_bind_ok h
          simp only [pure, Except.pure, Except.ok.injEq] at h
          subst h
          simp [foldCore, Core.push, hc, hy, hv, ih r hr, Tr.prepend]

theorem fold_filter (key : Fn) (c : Core) (hc : c.kind = .filter key) :
    ∀ xs ys, filterE key xs = .ok ys → foldCore c xs .eof = ⟨ys, .eof⟩ := by
  intro xs
  induction xs with
  | nil =>
    intro ys h
    simp only [filterE, Except.ok.injEq] at h
    subst h
    simp [foldCore, flush_nil c (by simp [hc]) (by simp [hc])]
  | cons x xs ih =>
    intro ys h
    simp only [filterE] at h
    obtain ⟨y, hy, h⟩ := except_bind_ok h
    obtain ⟨r, hr, h⟩ := except_bind_ok h
    simp only [pure, Except.pure, Except.ok.injEq] at h
    subst h
    by_cases ht : y.truthy = true <;> simp [foldCore, Core.push, hc, hy, ht, ih r hr, Tr.prepend]

theorem fold_takewhile (key : Fn) (c : Core) (hc : c.kind = .takewhile key) :
    ∀ xs ys, takeWhileE key xs = .ok ys → foldCore c xs .eof = ⟨ys, .eof⟩ := by
  intro xs
  induction xs with
  | nil =>
    intro ys h
    simp only [takeWhileE, Except.ok.injEq] at h
    subst h
    simp [foldCore, flush_nil c (by simp [hc]) (by simp [hc])]
  | cons x xs ih =>
    intro ys h
    simp only [takeWhileE] at h
    obtain ⟨y, hy, h⟩ := except_bind_ok h
    by_cases ht : y.truthy = true
    · simp only [ht, ↓reduceIte] at h
      obtain ⟨r, hr, h⟩ := except_bind_ok h
      simp only [pure, Except.pure, Except.ok.injEq] at h
      subst h
      simp [foldCore, Core.push, hc, hy, ht, ih r hr, Tr.prepend]
    · simp only [ht, Bool.false_eq_true, ↓reduceIte, pure, Except.pure, Except.ok.injEq] at h
      subst h
      simp [foldCore, Core.push, hc, hy, ht]

theorem fold_dropped (key : Fn) (c : Core) (hc : c.kind = .dropwhile key) (hf : c.flag = false) :
    ∀ xs, foldCore c xs .eof = ⟨xs, .eof⟩ := by
  intro xs
  induction xs with
  | nil => simp [foldCore, flush_nil c (by simp [hc]) (by simp [hc])]
  | cons x xs ih => simp [foldCore, Core.push, hc, hf, ih, Tr.prepend]

theorem fold_dropwhile (key : Fn) : ∀ (xs : List V) (c : Core), c.kind = .dropwhile key → c.flag = true →
    ∀ ys, dropWhileE key xs = .ok ys → foldCore c xs .eof = ⟨ys, .eof⟩ := by
  intro xs
  induction xs with
  | nil =>
    intro c hc _ ys h
    simp only [dropWhileE, Except.ok.injEq] at h
    subst h
    simp [foldCore, flush_nil c (by simp [hc]) (by simp [hc])]
  | cons x xs ih =>
    intro c hc hf ys h
    simp only [dropWhileE] at h
    obtain ⟨y, hy, h⟩ := except_bind_ok h
    by_cases ht : y.truthy = true
    · simp only [ht, ↓reduceIte] at h
      simp [foldCore, Core.push, hc, hf, hy, ht, ih c hc hf ys h, Tr.prepend]
    · simp only [ht, Bool.false_eq_true, ↓reduceIte, pure, Except.pure, Except.ok.injEq] at h
      subst h
      have := fold_dropped key { c with flag := false } hc rfl xs
      simp only [hc] at this
      simp [foldCore, Core.push, hc, hf, hy, ht, this, Tr.prepend]

theorem fold_flatten (c : Core) (hc : c.kind = .flatten) :
    ∀ xs ys, flattenE xs = .ok ys → foldCore c xs .eof = ⟨ys, .eof⟩ := by
  intro xs
  induction xs with
  | nil =>
    intro ys h
    simp only [flattenE, List.mapM_nil, pure, Except.pure, bind, Except.bind, List.flatten_nil,
      Except.ok.injEq] at h
    subst h
    simp [foldCore, flush_nil c (by simp [hc]) (by simp [hc])]
  | cons x xs ih =>
    intro ys h
    simp only [flattenE] at h
    obtain ⟨zs, hzs, h⟩ := except_bind_ok h
    rw [List.mapM_cons] at hzs
    obtain ⟨l, hl, hzs⟩ := except_bind_ok hzs
    obtain ⟨ls, hls, hzs⟩ := except_bind_ok hzs
    simp only [pure, Except.pure, Except.ok.injEq] at hzs h
    subst hzs; subst h
    have ih' := ih ls.flatten (by simp [flattenE, hls, bind, Except.bind, pure, Except.pure])
    cases hx : x.asIter with
    | none => simp [iterE, hx] at hl
    | some l' =>
      simp only [iterE, hx, Except.ok.injEq] at hl
      subst hl
      simp [foldCore, Core.push, hc, hx, ih', Tr.prepend]

/-! ### slice -/

theorem stepAux_skip_all (step : Nat) : ∀ (l : List V) (c : Nat), l.length ≤ c → stepAux step c l = [] := by
  intro l
  induction l with
  | nil => intro c _; cases c <;> rfl
  | cons x xs ih =>
    intro c h
    cases c with
    | zero => simp at h
    | succ c => simp only [stepAux]; exact ih c (by simpa using h)

theorem fold_slice_none (a step : Nat) (hstep : 1 ≤ step) : ∀ (xs : List V) (c : Core),
    c.kind = .slice a none step → c.cnt ≤ c.nxt →
    foldCore c xs .eof = ⟨stepAux step (c.nxt - c.cnt) xs, .eof⟩ := by
  intro xs
  induction xs with
  | nil =>
    intro c hc _
    simp [foldCore, flush_nil c (by simp [hc]) (by simp [hc]), stepAux]
  | cons x xs ih =>
    intro c hc hle
    by_cases hlt : c.cnt < c.nxt
    · have h := ih { c with cnt := c.cnt + 1 } hc (by simp; omega)
      obtain ⟨d, hd⟩ : ∃ d, c.nxt - c.cnt = d + 1 := ⟨c.nxt - c.cnt - 1, by omega⟩
      have hd' : c.nxt - (c.cnt + 1) = d := by omega
      simp only [hd'] at h
      simp only [hc] at h
      simp [foldCore, Core.push, hc, hlt, sliceStatus, h, Tr.prepend, hd, stepAux]
    · have heq : c.nxt - c.cnt = 0 := by omega
      have h := ih { c with cnt := c.cnt + 1, nxt := c.nxt + step } hc (by simp; omega)
      have hd' : c.nxt + step - (c.cnt + 1) = step - 1 := by omega
      simp only [hd'] at h
      simp only [hc] at h
      simp [foldCore, Core.push, hc, hlt, sliceStatus, h, Tr.prepend, heq, stepAux]

theorem fold_slice_some (a s step : Nat) (hstep : 1 ≤ step) : ∀ (xs : List V) (c : Core),
    c.kind = .slice a (some s) step → c.cnt ≤ c.nxt → (c.cnt < c.nxt ∨ c.cnt < s) →
    foldCore c xs .eof = ⟨stepAux step (c.nxt - c.cnt) (xs.take (s - c.cnt)), .eof⟩ := by
  intro xs
  induction xs with
  | nil =>
    intro c hc _ _
    simp [foldCore, flush_nil c (by simp [hc]) (by simp [hc]), stepAux]
  | cons x xs ih =>
    intro c hc hle hns
    by_cases hlt : c.cnt < c.nxt
    · -- skipping
      obtain ⟨d, hd⟩ : ∃ d, c.nxt - c.cnt = d + 1 := ⟨c.nxt - c.cnt - 1, by omega⟩
      by_cases hstop : c.cnt + 1 ≥ c.nxt ∧ c.cnt + 1 ≥ s
      · -- the stage stops after this item
        have hrhs : stepAux step (c.nxt - c.cnt) ((x :: xs).take (s - c.cnt)) = [] := by
          apply stepAux_skip_all
          simp only [List.length_take, List.length_cons]; omega
        simp [foldCore, Core.push, hc, hlt, sliceStatus, hstop, hrhs]
      · have h := ih { c with cnt := c.cnt + 1 } hc (by simp; omega) (by simp; omega)
        have hd' : c.nxt - (c.cnt + 1) = d := by omega
        simp only [hd'] at h
        simp only [hc] at h
        have hrhs : stepAux step (d + 1) ((x :: xs).take (s - c.cnt)) = stepAux step d (xs.take (s - (c.cnt + 1))) := by
          rcases Nat.eq_zero_or_pos (s - c.cnt) with h0 | hpos
          · have h1 : s - (c.cnt + 1) = 0 := by omega
            simp [h0, h1, stepAux]
          · obtain ⟨t, ht⟩ : ∃ t, s - c.cnt = t + 1 := ⟨s - c.cnt - 1, by omega⟩
            have ht' : s - (c.cnt + 1) = t := by omega
            simp [ht, ht', stepAux]
        simp [foldCore, Core.push, hc, hlt, sliceStatus, hstop, h, Tr.prepend, hd, hrhs]
    · -- emitting: cnt = nxt < s
      have heq : c.nxt - c.cnt = 0 := by omega
      have hcs : c.cnt < s := by omega
      obtain ⟨t, ht⟩ : ∃ t, s - c.cnt = t + 1 := ⟨s - c.cnt - 1, by omega⟩
      have ht' : s - (c.cnt + 1) = t := by omega
      let n' := if c.nxt + step > s then s else c.nxt + step
      have hn' : c.cnt + 1 ≤ n' := by simp only [n']; split <;> omega
      by_cases hstop : c.cnt + 1 ≥ n' ∧ c.cnt + 1 ≥ s
      · have : t = 0 := by omega
        subst this
        simp only [n'] at hstop
        simp [foldCore, Core.push, hc, hlt, sliceStatus, hstop, heq, ht, stepAux]
      · have h := ih { c with cnt := c.cnt + 1, nxt := n' } hc (by simpa using hn') (by simp; omega)
        simp only [ht'] at h
        simp only [hc] at h
        have hcount : stepAux step (n' - (c.cnt + 1)) (xs.take t) = stepAux step (step - 1) (xs.take t) := by
          simp only [n']
          split
          · rw [stepAux_skip_all, stepAux_skip_all]
            · simp only [List.length_take]; omega
            · simp only [List.length_take]; omega
          · congr 1; omega
        simp only [n'] at hstop h hcount
        simp [foldCore, Core.push, hc, hlt, sliceStatus, hstop, h, Tr.prepend, heq, ht, stepAux, hcount]

/-! ### chunked, windowed -/

theorem padTo_full (size : Nat) (fill : Option V) (b : List V) (h : size ≤ b.length) : padTo size fill b = b := by
  unfold padTo
  cases fill with
  | none => rfl
  | some f => simp [Nat.sub_eq_zero_of_le h]

theorem chunkedAux_nil (size : Nat) (fill : Option V) (n : Nat) : chunkedAux size fill n [] = [] := by
  cases n <;> simp [chunkedAux]

theorem fold_chunked (size : Nat) (fill : Option V) (hsize : 1 ≤ size) : ∀ (xs : List V) (c : Core) (n : Nat),
    c.kind = .chunked size fill → c.buf.length < size → (c.buf ++ xs).length ≤ n →
    foldCore c xs .eof = ⟨chunkedAux size fill n (c.buf ++ xs), .eof⟩ := by
  intro xs
  induction xs with
  | nil =>
    intro c n hc hb hn
    simp only [List.append_nil] at hn ⊢
    cases hbuf : c.buf with
    | nil => simp [foldCore, Core.flush, hc, hbuf, chunkedAux_nil]
    | cons y ys =>
      cases n with
      | zero => simp [hbuf] at hn
      | succ n =>
        have htake : (y :: ys).take size = y :: ys := List.take_of_length_le (by rw [← hbuf]; omega)
        have hdrop : (y :: ys).drop size = [] := List.drop_eq_nil_of_le (by rw [← hbuf]; omega)
        simp [foldCore, Core.flush, hc, hbuf, chunkedAux, htake, hdrop, chunkedAux_nil]
  | cons x xs ih =>
    intro c n hc hb hn
    cases n with
    | zero => simp at hn
    | succ n =>
      by_cases hfull : size ≤ c.buf.length + 1
      · have hlen : (c.buf ++ [x]).length = size := by simp; omega
        have h := ih { c with buf := [] } n hc (by simp; omega) (by simp at hn ⊢; omega)
        simp only [List.nil_append] at h
        simp only [hc] at h
        have happ : c.buf ++ x :: xs = (c.buf ++ [x]) ++ xs := by simp
        have htake : (c.buf ++ x :: xs).take size = c.buf ++ [x] := by
          rw [happ, List.take_append_of_le_length (by omega), List.take_of_length_le (by omega)]
        have hdrop : (c.buf ++ x :: xs).drop size = xs := by
          rw [happ, ← hlen, List.drop_left]
        simp [foldCore, Core.push, hc, hfull, h, Tr.prepend, chunkedAux, htake, hdrop,
          padTo_full size fill _ (Nat.le_of_eq hlen.symm)]
      · have h := ih { c with buf := c.buf ++ [x] } (n + 1) hc (by simp; omega) (by simpa using hn)
        simp only [hc, List.append_assoc, List.singleton_append] at h
        simp [foldCore, Core.push, hc, hfull, h, Tr.prepend]

theorem windowedL_short (size : Nat) : ∀ l : List V, l.length < size → windowedL size l = [] := by
  intro l h
  cases l with
  | nil => rfl
  | cons x xs => simp only [windowedL]; rw [if_neg (by omega)]

theorem fold_windowed (size : Nat) (_hsize : 1 ≤ size) : ∀ (xs : List V) (c : Core),
    c.kind = .windowed size → c.buf.length < size →
    foldCore c xs .eof = ⟨windowedL size (c.buf ++ xs), .eof⟩ := by
  intro xs
  induction xs with
  | nil =>
    intro c hc hb
    simp [foldCore, flush_nil c (by simp [hc]) (by simp [hc]), windowedL_short size c.buf hb]
  | cons x xs ih =>
    intro c hc hb
    by_cases hfull : size ≤ c.buf.length + 1
    · have hlen : (c.buf ++ [x]).length = size := by simp; omega
      have h := ih { c with buf := (c.buf ++ [x]).tail } hc (by simp; omega)
      simp only [hc] at h
      have happ : c.buf ++ x :: xs = (c.buf ++ [x]) ++ xs := by simp
      obtain ⟨y, ys, hy⟩ : ∃ y ys, c.buf ++ [x] = y :: ys := by
        cases hb' : c.buf ++ [x] with
        | nil => simp at hb'
        | cons y ys => exact ⟨y, ys, rfl⟩
      have hw : windowedL size (c.buf ++ x :: xs) = .tup (c.buf ++ [x]) :: windowedL size ((c.buf ++ [x]).tail ++ xs) := by
        rw [happ, hy]
        simp only [List.cons_append, windowedL, List.tail_cons]
        have hl : (y :: ys).length = size := by rw [← hy]; exact hlen
        rw [if_pos (by simp at hl ⊢; omega)]
        congr 2
        rw [← List.cons_append, List.take_append_of_le_length (by omega), List.take_of_length_le (by omega)]
      simp [foldCore, Core.push, hc, hfull, h, Tr.prepend, hw]
    · have h := ih { c with buf := c.buf ++ [x] } hc (by simp; omega)
      simp only [hc, List.append_assoc, List.singleton_append] at h
      simp [foldCore, Core.push, hc, hfull, h, Tr.prepend]

/-! ### split -/

def attach (cur : List V) : List (List V) → List (List V)
  | [] => []
  | g :: gs => (cur ++ g) :: gs

theorem attach_nil (gs : List (List V)) : attach [] gs = gs := by cases gs <;> simp [attach]

theorem splitL_ne_nil (isSep : V → Bool) (grouping : Bool) (m : Option Nat) (xs : List V) :
    splitL isSep grouping false m xs ≠ [] := by
  cases xs with
  | nil => simp [splitL]
  | cons x xs =>
    simp only [splitL, Bool.and_false, Bool.false_eq_true, ↓reduceIte]
    split
    · simp
    · cases splitL isSep grouping false m xs <;> simp [consHead]

theorem attach_consHead (cur : List V) (x : V) (gs : List (List V)) (h : gs ≠ []) :
    attach cur (consHead x gs) = attach (cur ++ [x]) gs := by
  cases gs with
  | nil => exact absurd rfl h
  | cons g gs => simp [consHead, attach]

def grouping (sep : Sep) : Bool := match sep with | .none => true | _ => false

/-- the separator test can be evaluated on `x` (`x` is hashable for `x in frozenset(sep)`, the
    callable separator / the item's `==` does not raise) -/
def sepHashOK (sep : Sep) (x : V) : Bool :=
  match isSepE sep x with
  | .ok _ => true
  | .error _ => false

theorem sepErr_none (sep : Sep) : ∀ xs : List V, sepErr sep xs = none → ∀ x ∈ xs, sepHashOK sep x = true := by
  intro xs
  induction xs with
  | nil => intro _ x hx; cases hx
  | cons y ys ih =>
    intro h x hx
    simp only [sepErr] at h
    cases hy : isSepE sep y with
    | error e => rw [hy] at h; cases h
    | ok v =>
      rw [hy] at h
      rcases List.mem_cons.mp hx with rfl | hx'
      · simp [sepHashOK, hy]
      · exact ih h x hx'

theorem isSepE_ok (sep : Sep) (x : V) (h : sepHashOK sep x = true) :
    isSepE sep x = .ok (sepFn sep x) := by
  simp only [sepHashOK] at h
  cases hf : isSepE sep x with
  | error e => rw [hf] at h; cases h
  | ok y => simp [sepFn, hf]

def splitActive (m : Option Nat) (cnt : Nat) : Bool :=
  match m with
  | some m' => decide (cnt < m')
  | none => true

theorem splitActive_eq (m : Option Nat) (cnt : Nat) : splitActive m cnt = ((m.map (· - cnt)) != some 0) := by
  cases m with
  | none => rfl
  | some m' =>
    simp only [splitActive, Option.map_some, bne]
    by_cases h : cnt < m' <;> simp [h] <;> omega

theorem push_split (c : Core) (sep : Sep) (m : Option Nat) (hc : c.kind = .split sep m) (x : V) :
    c.push x =
      if splitActive m c.cnt then
        match isSepE sep x with
        | .error e => ([], c, .fail e)
        | .ok true =>
          if grouping sep && c.buf.isEmpty then ([], c, .go)
          else ([.list c.buf], { c with buf := [], cnt := c.cnt + 1 }, .go)
        | .ok false => ([], { c with buf := c.buf ++ [x] }, .go)
      else ([], { c with buf := c.buf ++ [x] }, .go) := by
  unfold Core.push
  simp only [hc, splitActive, grouping]
  cases sep <;> rfl

theorem fold_split (sep : Sep) (m : Option Nat) : ∀ (xs : List V) (c : Core), c.kind = .split sep m →
    (∀ x ∈ xs, sepHashOK sep x = true) →
    foldCore c xs .eof =
      ⟨(attach c.buf (splitL (sepFn sep) (grouping sep) c.buf.isEmpty (m.map (· - c.cnt)) xs)).map V.list, .eof⟩ := by
  intro xs
  induction xs with
  | nil =>
    intro c hc _
    cases sep <;> cases hb : c.buf <;> simp [foldCore, Core.flush, hc, hb, splitL, grouping, attach]
  | cons x xs ih =>
    intro c hc hh
    have hx := isSepE_ok sep x (hh x (List.mem_cons_self ..))
    have hrest : ∀ y ∈ xs, sepHashOK sep y = true := fun y hy => hh y (List.mem_cons_of_mem _ hy)
    -- appending `x` to the open group
    have happend : foldCore { c with buf := c.buf ++ [x] } xs .eof =
        ⟨(attach c.buf (consHead x (splitL (sepFn sep) (grouping sep) false (m.map (· - c.cnt)) xs))).map V.list, .eof⟩ := by
      have h := ih { c with buf := c.buf ++ [x] } hc hrest
      have he : (c.buf ++ [x]).isEmpty = false := by cases c.buf <;> rfl
      simp only [he] at h
      rw [h, attach_consHead _ _ _ (splitL_ne_nil _ _ _ _)]
    simp only [foldCore, push_split c sep m hc x, hx]
    by_cases hactive : splitActive m c.cnt = true
    · have hact' : ((m.map (· - c.cnt)) != some 0) = true := by rw [← splitActive_eq]; exact hactive
      simp only [hactive, ↓reduceIte]
      by_cases hs : sepFn sep x = true
      · simp only [hs]
        by_cases hg : (grouping sep && c.buf.isEmpty) = true
        · -- a separator while the group is still empty, grouping mode: skipped
          have h := ih c hc hrest
          simp only [hg, ↓reduceIte, h, Tr.prepend, List.nil_append]
          simp only [Bool.and_eq_true] at hg
          simp [splitL, hact', hs, hg.1, hg.2]
        · have h := ih { c with buf := [], cnt := c.cnt + 1 } hc hrest
          simp only [List.isEmpty_nil, attach_nil] at h
          have hm : (m.map (· - (c.cnt + 1))) = (m.map (· - c.cnt)).map (· - 1) := by
            cases m <;> simp [Nat.sub_add_eq]
          simp only [hg, Bool.false_eq_true, ↓reduceIte, h, Tr.prepend]
          have hg2 : (grouping sep && c.buf.isEmpty) = false := by simpa using hg
          simp [splitL, hact', hs, hg2, hm, attach]
      · have hs' : sepFn sep x = false := by simpa using hs
        simp only [hs', happend, Tr.prepend, List.nil_append]
        simp [splitL, hs']
    · have hact' : ((m.map (· - c.cnt)) != some 0) = false := by rw [← splitActive_eq]; simpa using hactive
      simp only [hactive, Bool.false_eq_true, ↓reduceIte, happend, Tr.prepend, List.nil_append]
      simp [splitL, hact']

/-! ### unique -/

theorem fold_unique (key : Fn) : ∀ (xs ks : List V) (c : Core) (before : List V), c.kind = .unique key →
    xs.mapM key = .ok ks → ks.all V.hashable = true → (∀ k, k ∈ c.buf ↔ k ∈ before) →
    foldCore c xs .eof = ⟨uniqueAux before (xs.zip (ks.map V.key)), .eof⟩ := by
  intro xs
  induction xs with
  | nil =>
    intro ks c before hc _ _ _
    simp [foldCore, flush_nil c (by simp [hc]) (by simp [hc]), uniqueAux]
  | cons x xs ih =>
    intro ks c before hc hk hh hinv
    rw [List.mapM_cons] at hk
    obtain ⟨k, hkx, hk⟩ := except_bind_ok hk
    obtain ⟨ks', hks', hk⟩ := except_bind_ok hk
    simp only [pure, Except.pure, Except.ok.injEq] at hk
    subst hk
    simp only [List.all_cons, Bool.and_eq_true] at hh
    by_cases hseen : k.key ∈ c.buf
    · have h := ih ks' c (before ++ [k.key]) hc hks' hh.2 (by
        intro k'
        simp only [List.mem_append, List.mem_singleton, ← hinv k']
        constructor
        · exact Or.inl
        · rintro (h | rfl)
          · exact h
          · exact hseen)
      have hb : k.key ∈ before := (hinv k.key).mp hseen
      simp [foldCore, Core.push, hc, hkx, hh.1, hseen, h, Tr.prepend, uniqueAux, hb]
    · have h := ih ks' { c with buf := c.buf ++ [k.key] } (before ++ [k.key]) hc hks' hh.2 (by
        intro k'
        simp only [List.mem_append, hinv k'])
      have hb : k.key ∉ before := fun hb => hseen ((hinv k.key).mpr hb)
      simp only [hc] at h
      simp [foldCore, Core.push, hc, hkx, hh.1, hseen, h, Tr.prepend, uniqueAux, hb]

/-! ### every stage, and the composition -/

theorem stage_ref (k : Kind) (hw : k.wf = true) (xs ys : List V) (h : refE k xs = .ok ys) :
    stageTr k ⟨xs, .eof⟩ = ⟨ys, .eof⟩ := by
  cases k with
  | base sub s => simpa [stageTr, Kind.initStopped] using fold_base sub s (Core.init (.base sub s)) rfl xs ys h
  | map f => simpa [stageTr, Kind.initStopped] using fold_map f (Core.init (.map f)) rfl xs ys h
  | filter key => simpa [stageTr, Kind.initStopped] using fold_filter key (Core.init (.filter key)) rfl xs ys h
  | takewhile key =>
    simpa [stageTr, Kind.initStopped] using fold_takewhile key (Core.init (.takewhile key)) rfl xs ys h
  | dropwhile key =>
    simpa [stageTr, Kind.initStopped] using fold_dropwhile key xs (Core.init (.dropwhile key)) rfl rfl ys h
  | flatten => simpa [stageTr, Kind.initStopped] using fold_flatten (Core.init .flatten) rfl xs ys h
  | slice a stop step =>
    simp only [Kind.wf, decide_eq_true_eq] at hw
    simp only [refE, Except.ok.injEq] at h
    subst h
    cases stop with
    | none =>
      have := fold_slice_none a step hw xs (Core.init (.slice a none step)) rfl (by simp [Core.init])
      simpa [stageTr, Kind.initStopped, sliceStatus, sliceL, Core.init] using this
    | some s =>
      by_cases hz : a = 0 ∧ s = 0
      · obtain ⟨rfl, rfl⟩ := hz
        simp [stageTr, Kind.initStopped, Kind.initOut, Kind.initErr, sliceStatus, sliceL, stepAux]
      · have := fold_slice_some a s step hw xs (Core.init (.slice a (some s) step)) rfl
          (by simp [Core.init]) (by simp [Core.init]; omega)
        have hns : ¬ (a = 0 ∧ s = 0) := hz
        simp only [stageTr, Kind.initStopped, sliceStatus]
        have hcond : ¬ (0 ≥ a ∧ 0 ≥ s) := by omega
        simp only [hcond, ↓reduceIte]
        simpa [sliceL, Core.init] using this
  | chunked size fill =>
    simp only [Kind.wf, decide_eq_true_eq] at hw
    simp only [refE, Except.ok.injEq] at h
    subst h
    have := fold_chunked size fill hw xs (Core.init (.chunked size fill)) xs.length rfl
      (by simp [Core.init]; omega) (by simp [Core.init])
    simpa [stageTr, Kind.initStopped, chunkedL, Core.init] using this
  | windowed size =>
    simp only [Kind.wf, decide_eq_true_eq] at hw
    simp only [refE, Except.ok.injEq] at h
    subst h
    have := fold_windowed size hw xs (Core.init (.windowed size)) rfl (by simp [Core.init]; omega)
    simpa [stageTr, Kind.initStopped, Core.init] using this
  | split sep m =>
    simp only [refE, splitE] at h
    cases he : sepErr sep xs with
    | some e => rw [he] at h; cases h
    | none =>
    rw [he] at h
    have hall : ∀ x ∈ xs, sepHashOK sep x = true := sepErr_none sep xs he
    have hys : ys = (splitL (sepFn sep) (grouping sep) true m xs).map V.list := by
      simp only [Except.ok.injEq] at h
      rw [← h]
      cases sep <;> rfl
    subst hys
    have := fold_split sep m xs (Core.init (.split sep m)) rfl hall
    simp only [Core.init, List.isEmpty_nil, Nat.sub_zero] at this
    have hm' : Option.map (fun x => x) m = m := by cases m <;> rfl
    simp only [hm', attach_nil] at this
    simpa [stageTr, Kind.initStopped, Core.init] using this
  | unique key =>
    simp only [refE, uniqueE] at h
    obtain ⟨ks, hks, h⟩ := except_bind_ok h
    split at h
    · next hhash =>
      simp only [pure, Except.pure, Except.ok.injEq] at h
      subst h
      have := fold_unique key xs ks (Core.init (.unique key)) [] rfl hks hhash (by simp [Core.init])
      simpa [stageTr, Kind.initStopped] using this
    · simp [throw, throwThe, MonadExceptOf.throw] at h
  | raises e a => simp [refE] at h
  | wrapIter =>
    simp only [refE, Except.ok.injEq] at h
    subst h
    simp [stageTr, Kind.initStopped, Kind.initOut, Kind.initErr]

theorem compose_ref : ∀ (kinds : List Kind) (xs ys : List V), (∀ k ∈ kinds, k.wf = true) →
    composeE kinds xs = .ok ys → pipeTr kinds ⟨xs, .eof⟩ = ⟨ys, .eof⟩ := by
  intro kinds
  induction kinds with
  | nil => intro xs ys _ h; simp only [composeE, Except.ok.injEq] at h; subst h; rfl
  | cons k ks ih =>
    intro xs ys hw h
    simp only [composeE] at h
    obtain ⟨zs, hzs, h⟩ := except_bind_ok h
    simp only [pipeTr]
    rw [stage_ref k (hw k (List.mem_cons_self ..)) xs zs hzs]
    exact ih zs ys (fun k' hk' => hw k' (List.mem_cons_of_mem _ hk')) h

/-! ## Part D: termination -/

theorem pullFrom_succ (src : Src) (fuel : Nat) (st : StageSt) (rest : List StageSt) (pos : Nat) :
    pullFrom src (fuel + 1) (st :: rest) pos =
      match st.poll with
      | (.emit v, st') => (.item v, st' :: rest, pos)
      | (.done, st') => (.eof, st' :: rest, pos)
      | (.fail e, st') => (.err e, st' :: rest, pos)
      | (.pull, st') =>
        match pullFrom src fuel rest pos with
        | (.item v, rest', pos') => pullFrom src fuel (st'.feed (some v) :: rest') pos'
        | (.eof, rest', pos') => pullFrom src fuel (st'.feed none :: rest') pos'
        | (.err e, rest', pos') => (.err e, st'.afterError :: rest', pos')
        | (.oof, rest', pos') => (.oof, st' :: rest', pos') := by
  rw [pullFrom]
  rcases st.poll with ⟨a, s'⟩
  cases a with
  | pull => simp only; rcases pullFrom src fuel rest pos with ⟨r, x, y⟩; cases r <;> rfl
  | emit v => rfl
  | done => rfl
  | fail e => rfl

theorem pullFrom_length (src : Src) : ∀ (fuel : Nat) (sts : List StageSt) (pos : Nat),
    (pullFrom src fuel sts pos).2.1.length = sts.length := by
  intro fuel
  induction fuel with
  | zero =>
    intro sts pos
    cases sts with
    | nil => rw [pullFrom_nil]
    | cons st rest => rw [pullFrom_zero]
  | succ fuel ih =>
    intro sts pos
    cases sts with
    | nil => rw [pullFrom_nil]
    | cons st rest =>
      rw [pullFrom_succ]
      rcases st.poll with ⟨act, st'⟩
      cases act with
      | emit v => rfl
      | done => rfl
      | fail e => rfl
      | pull =>
        show (match pullFrom src fuel rest pos with
          | (.item v, rest', pos') => pullFrom src fuel (st'.feed (some v) :: rest') pos'
          | (.eof, rest', pos') => pullFrom src fuel (st'.feed none :: rest') pos'
          | (.err e, rest', pos') => (.err e, st'.afterError :: rest', pos')
          | (.oof, rest', pos') => (.oof, st' :: rest', pos')).2.1.length = (st :: rest).length
        have h1 := ih rest pos
        rcases hpf : pullFrom src fuel rest pos with ⟨r1, rest1, p1⟩
        rw [hpf] at h1
        have h1' : rest1.length = rest.length := h1
        cases r1 with
        | item u => show (pullFrom src fuel _ p1).2.1.length = _; rw [ih]; simp only [List.length_cons, h1']
        | eof => show (pullFrom src fuel _ p1).2.1.length = _; rw [ih]; simp only [List.length_cons, h1']
        | err e => show (st' :: rest1).length = _; simp only [List.length_cons, h1']
        | oof => show (st' :: rest1).length = _; simp only [List.length_cons, h1']

/-- more fuel never changes an answer -/
theorem pullFrom_mono (src : Src) : ∀ (fuel : Nat) (sts : List StageSt) (pos : Nat),
    (pullFrom src fuel sts pos).1 ≠ .oof → pullFrom src (fuel + 1) sts pos = pullFrom src fuel sts pos := by
  intro fuel
  induction fuel with
  | zero =>
    intro sts pos h
    cases sts with
    | nil => simp [pullFrom_nil]
    | cons st rest => rw [pullFrom_zero] at h; exact absurd rfl h
  | succ fuel ih =>
    intro sts pos h
    cases sts with
    | nil => simp [pullFrom_nil]
    | cons st rest =>
      rw [pullFrom_succ] at h
      rw [pullFrom_succ src (fuel + 1), pullFrom_succ src fuel]
      rcases hp : st.poll with ⟨act, st'⟩
      rw [hp] at h
      cases act with
      | emit v => rfl
      | done => rfl
      | fail e => rfl
      | pull =>
        simp only at h ⊢
        rcases h1 : pullFrom src fuel rest pos with ⟨r1, rest1, p1⟩
        rw [h1] at h
        have hne : (pullFrom src fuel rest pos).1 ≠ .oof := by
          rw [h1]; intro hc; simp only at hc; subst hc; exact h rfl
        rw [ih rest pos hne, h1]
        cases r1 with
        | item u => simp only at h ⊢; exact ih _ _ h
        | eof => simp only at h ⊢; exact ih _ _ h
        | err e => rfl
        | oof => exact absurd (by rw [h1]) hne

theorem pullFrom_mono_le (src : Src) (sts : List StageSt) (pos : Nat) (f : Nat)
    (h : (pullFrom src f sts pos).1 ≠ .oof) : ∀ f', f ≤ f' → pullFrom src f' sts pos = pullFrom src f sts pos := by
  intro f' hle
  induction f' with
  | zero => have : f = 0 := by omega
            subst this; rfl
  | succ f' ih =>
    rcases Nat.eq_or_lt_of_le hle with heq | hlt
    · subst heq; rfl
    · have := ih (by omega)
      rw [pullFrom_mono src f' sts pos (by rw [this]; exact h), this]

theorem isMore_eq {t : Term} (h : t.isMore = true) : t = .more := by
  cases t <;> simp [Term.isMore] at h ⊢

theorem answers_one_false {d : Tr} (h : d.answers 1 = false) : d = ⟨[], .more⟩ := by
  obtain ⟨items, term⟩ := d
  simp only [Tr.answers, Bool.or_eq_false_iff, decide_eq_false_iff_not, Bool.not_eq_false'] at h
  have h1 : items = [] := by
    cases items with
    | nil => rfl
    | cons x xs => simp at h
  rw [h1, isMore_eq h.2]

theorem feed_none_poll (s : StageSt) (he : s.err = none) : (s.feed none).poll.1 ≠ .pull := by
  simp only [StageSt.feed, StageSt.poll]
  split
  · simp
  · simp [he]

/-- if the first `N` source items determine the chain's next answer, `next()` terminates
    (and does not look beyond them) -/
theorem pullFrom_terminates (src : Src) (N : Nat) : ∀ (n : Nat) (sts : List StageSt) (pos : Nat),
    sts.length = n → pos ≤ N → (denoteF src sts pos N).answers 1 = true →
    ∃ F, (pullFrom src F sts pos).1 ≠ .oof := by
  intro n
  induction n with
  | zero =>
    intro sts pos hl _ _
    have : sts = [] := List.eq_nil_of_length_eq_zero hl
    subst this
    exact ⟨0, by rw [pullFrom_nil]; exact next_not_oof src pos⟩
  | succ n ihn =>
    -- inner induction on the number of items the chain below still delivers
    have inner : ∀ (m : Nat) (st : StageSt) (rest : List StageSt) (pos : Nat), rest.length = n → pos ≤ N →
        (denoteF src (st :: rest) pos N).answers 1 = true → (denoteF src rest pos N).items.length = m →
        ∃ F, (pullFrom src F (st :: rest) pos).1 ≠ .oof := by
      intro m
      induction m with
      | zero =>
        intro st rest pos hl hpos hans hm
        rcases hp : st.poll with ⟨act, st'⟩
        cases act with
        | emit v => exact ⟨1, by rw [pullFrom_succ, hp]; simp⟩
        | done => exact ⟨1, by rw [pullFrom_succ, hp]; simp⟩
        | fail e => exact ⟨1, by rw [pullFrom_succ, hp]; simp⟩
        | pull =>
          obtain ⟨rfl, ho, he, hs⟩ := poll_pull hp
          have hD : (denoteF src rest pos N).answers 1 = true := by
            rcases hb : (denoteF src rest pos N).answers 1 with _ | _
            · have := answers_one_false hb
              rw [denoteF_cons, this, drive_nil_more ho he hs] at hans
              simp [Tr.answers, Term.isMore] at hans
            · rfl
          obtain ⟨f1, hf1⟩ := ihn rest pos hl hpos hD
          have hsd := pullFrom_sound src f1 rest pos
          rcases h1 : pullFrom src f1 rest pos with ⟨r1, rest1, p1⟩
          rw [h1] at hsd hf1
          obtain ⟨hle, hB, hA⟩ := hsd
          have hp1 : p1 ≤ N := by
            rcases Nat.lt_or_ge N p1 with hlt | hge
            · have := hB N hpos hlt
              rw [this] at hD; simp [Tr.answers, Term.isMore] at hD
            · exact hge
          cases r1 with
          | item u =>
            have := hA N hp1
            simp only at this
            rw [this] at hm; simp [Tr.cons] at hm
          | eof =>
            refine ⟨f1 + 1 + 1, ?_⟩
            rw [pullFrom_succ, hp]
            simp only
            rw [pullFrom_mono_le src rest pos f1 (by rw [h1]; exact hf1) (f1 + 1) (by omega), h1]
            simp only
            have hnp := feed_none_poll st' he
            rw [pullFrom_succ]
            rcases hp2 : (st'.feed none).poll with ⟨a2, s2⟩
            rw [hp2] at hnp
            cases a2 <;> simp_all
          | err e =>
            refine ⟨f1 + 1, ?_⟩
            rw [pullFrom_succ, hp]
            simp only [h1]
            simp
          | oof => exact absurd rfl hf1
      | succ m ihm =>
        intro st rest pos hl hpos hans hm
        rcases hp : st.poll with ⟨act, st'⟩
        cases act with
        | emit v => exact ⟨1, by rw [pullFrom_succ, hp]; simp⟩
        | done => exact ⟨1, by rw [pullFrom_succ, hp]; simp⟩
        | fail e => exact ⟨1, by rw [pullFrom_succ, hp]; simp⟩
        | pull =>
          obtain ⟨rfl, ho, he, hs⟩ := poll_pull hp
          have hD : (denoteF src rest pos N).answers 1 = true := by
            simp [Tr.answers, hm]
          obtain ⟨f1, hf1⟩ := ihn rest pos hl hpos hD
          have hsd := pullFrom_sound src f1 rest pos
          have hlen1 := pullFrom_length src f1 rest pos
          rcases h1 : pullFrom src f1 rest pos with ⟨r1, rest1, p1⟩
          rw [h1] at hsd hf1 hlen1
          obtain ⟨hle, hB, hA⟩ := hsd
          have hp1 : p1 ≤ N := by
            rcases Nat.lt_or_ge N p1 with hlt | hge
            · have := hB N hpos hlt
              rw [this] at hD; simp [Tr.answers, Term.isMore] at hD
            · exact hge
          cases r1 with
          | item u =>
            have hA' := hA N hp1
            simp only at hA'
            have key : denoteF src (st'.feed (some u) :: rest1) p1 N = denoteF src (st' :: rest) pos N := by
              simp only [denoteF_cons, hA', Tr.cons]
              exact (drive_feed_some ho he hs u _ _).symm
            have hm' : (denoteF src rest1 p1 N).items.length = m := by
              rw [hA'] at hm; simpa [Tr.cons] using hm
            obtain ⟨f2, hf2⟩ := ihm (st'.feed (some u)) rest1 p1 (by simpa [hl] using hlen1) hp1
              (by rw [key]; exact hans) hm'
            refine ⟨max f1 f2 + 1, ?_⟩
            rw [pullFrom_succ, hp]
            simp only
            rw [pullFrom_mono_le src rest pos f1 (by rw [h1]; exact hf1) (max f1 f2) (Nat.le_max_left ..), h1]
            simp only
            rw [pullFrom_mono_le src _ p1 f2 hf2 (max f1 f2) (Nat.le_max_right ..)]
            exact hf2
          | eof =>
            refine ⟨f1 + 1 + 1, ?_⟩
            rw [pullFrom_succ, hp]
            simp only
            rw [pullFrom_mono_le src rest pos f1 (by rw [h1]; exact hf1) (f1 + 1) (by omega), h1]
            simp only
            have hnp := feed_none_poll st' he
            rw [pullFrom_succ]
            rcases hp2 : (st'.feed none).poll with ⟨a2, s2⟩
            rw [hp2] at hnp
            cases a2 <;> simp_all
          | err e =>
            refine ⟨f1 + 1, ?_⟩
            rw [pullFrom_succ, hp]
            simp only [h1]
            simp
          | oof => exact absurd rfl hf1
    intro sts pos hl hpos hans
    cases sts with
    | nil => simp at hl
    | cons st rest =>
      exact inner _ st rest pos (by simpa using hl) hpos hans rfl

/-- from some fuel on, the fuelled computation `g` returns the fixed result `r` -/
def StableAt {α : Type} (g : Nat → α) (r : α) : Prop := ∃ F, ∀ fuel, F ≤ fuel → g fuel = r

theorem answers_succ_one {d : Tr} {k : Nat} (h : d.answers (k + 1) = true) : d.answers 1 = true := by
  simp only [Tr.answers, Bool.or_eq_true, decide_eq_true_eq] at h ⊢
  rcases h with h | h
  · left; omega
  · right; exact h

/-- packaged: a terminating `next()` with its (fuel-independent) result -/
theorem pullFrom_stable (src : Src) (N : Nat) (sts : List StageSt) (pos : Nat) (hpos : pos ≤ N)
    (hans : (denoteF src sts pos N).answers 1 = true) :
    ∃ r sts1 p1, r ≠ .oof ∧ p1 ≤ N ∧ StableAt (fun fuel => pullFrom src fuel sts pos) (r, sts1, p1) ∧
      StepOK src sts pos r sts1 p1 := by
  obtain ⟨F, hF⟩ := pullFrom_terminates src N sts.length sts pos rfl hpos hans
  have hsd := pullFrom_sound src F sts pos
  rcases h1 : pullFrom src F sts pos with ⟨r, sts1, p1⟩
  rw [h1] at hsd hF
  refine ⟨r, sts1, p1, hF, ?_, ⟨F, fun fuel hf => by dsimp only; rw [pullFrom_mono_le src sts pos F (by rw [h1]; exact hF) fuel hf, h1]⟩, hsd⟩
  obtain ⟨_, hB, _⟩ := hsd
  rcases Nat.lt_or_ge N p1 with hlt | hge
  · have := hB N hpos hlt
    rw [this] at hans; simp [Tr.answers, Term.isMore] at hans
  · exact hge

theorem takeK_terminates (src : Src) (N : Nat) : ∀ (k : Nat) (sts : List StageSt) (pos : Nat) (acc : List V),
    pos ≤ N → (denoteF src sts pos N).answers k = true →
    ∃ out, out.1.fin ≠ .oof ∧ StableAt (fun fuel => takeK src fuel k sts pos acc) out := by
  intro k
  induction k with
  | zero => intro sts pos acc _ _; exact ⟨(⟨acc, .gotK, pos⟩, sts), by simp, 0, fun fuel _ => rfl⟩
  | succ k ih =>
    intro sts pos acc hpos hans
    obtain ⟨r, sts1, p1, hr, hp1, ⟨F1, hF1⟩, hle, hB, hA⟩ := pullFrom_stable src N sts pos hpos (answers_succ_one hans)
    dsimp only at hF1
    cases r with
    | item v =>
      have hA' := hA N hp1
      simp only at hA'
      rw [hA', answers_cons] at hans
      obtain ⟨out, hout, F2, hF2⟩ := ih sts1 p1 (acc ++ [v]) hp1 hans
      dsimp only at hF2
      refine ⟨out, hout, max F1 F2, fun fuel hf => ?_⟩
      simp only [takeK]
      rw [hF1 fuel (Nat.le_trans (Nat.le_max_left ..) hf)]
      exact hF2 fuel (Nat.le_trans (Nat.le_max_right ..) hf)
    | eof =>
      refine ⟨(⟨acc, .exhausted, p1⟩, sts1), by simp, F1, fun fuel hf => ?_⟩
      simp only [takeK]; rw [hF1 fuel hf]
    | err e =>
      refine ⟨(⟨acc, .raised e, p1⟩, sts1), by simp, F1, fun fuel hf => ?_⟩
      simp only [takeK]; rw [hF1 fuel hf]
    | oof => exact absurd rfl hr

/-! ### priming a window -/

/-- feeding `n` items keeps the stage waiting for input -/
def PrimeIdle : StageSt → Nat → Prop
  | _, 0 => True
  | st, n + 1 => st.poll = (.pull, st) ∧ ∀ v, PrimeIdle (st.feed (some v)) n

theorem primeIdle_windowed (size : Nat) : ∀ (n : Nat) (st : StageSt), st.out = [] → st.err = none →
    st.stopped = false → st.core.kind = .windowed size → st.core.buf.length + n < size → PrimeIdle st n := by
  intro n
  induction n with
  | zero => intro _ _ _ _ _ _; trivial
  | succ n ih =>
    intro st ho he hs hk hb
    refine ⟨by simp [StageSt.poll, ho, he, hs], fun v => ?_⟩
    have hnot : ¬ (size ≤ st.core.buf.length + 1) := by omega
    apply ih
    · simp [StageSt.feed, Core.push, hk, hnot]
    · simp [StageSt.feed, Core.push, hk, hnot]
    · simp [StageSt.feed, Core.push, hk, hnot]
    · simp [StageSt.feed, Core.push, hk, hnot]
    · simp [StageSt.feed, Core.push, hk, hnot]; omega

theorem primeIdle_init (k : Kind) (hw : k.wf = true) : PrimeIdle (StageSt.init k) k.primeCount := by
  cases k with
  | windowed size =>
    simp only [Kind.wf, decide_eq_true_eq] at hw
    apply primeIdle_windowed size
    · rfl
    · rfl
    · simp [StageSt.init, Kind.initStopped]
    · rfl
    · simp [StageSt.init, Core.init, Kind.primeCount]; omega
  | _ => trivial

def Built.isOof : Built → Bool
  | .oof => true
  | _ => false

theorem prime_terminates (src : Src) (N : Nat) : ∀ (n : Nat) (st : StageSt) (below : List StageSt) (pos : Nat),
    PrimeIdle st n → pos ≤ N → (denoteF src below pos N).answers n = true →
    ∃ b : Built, b.isOof = false ∧ StableAt (fun fuel => prime src fuel n st below pos) b := by
  intro n
  induction n with
  | zero => intro st below pos _ _ _; exact ⟨.ok (st :: below) pos, rfl, 0, fun fuel _ => by simp [prime]⟩
  | succ n ih =>
    intro st below pos hidle hpos hans
    obtain ⟨hpoll, hnext⟩ := hidle
    obtain ⟨r, below1, p1, hr, hp1, ⟨F1, hF1⟩, hle, hB, hA⟩ :=
      pullFrom_stable src N below pos hpos (answers_succ_one hans)
    dsimp only at hF1
    cases r with
    | item v =>
      have hA' := hA N hp1
      simp only at hA'
      rw [hA', answers_cons] at hans
      obtain ⟨b, hb, F2, hF2⟩ := ih (st.feed (some v)) below1 p1 (hnext v) hp1 hans
      dsimp only at hF2
      refine ⟨b, hb, max F1 F2, fun fuel hf => ?_⟩
      simp only [prime, hpoll]
      rw [hF1 fuel (Nat.le_trans (Nat.le_max_left ..) hf)]
      exact hF2 fuel (Nat.le_trans (Nat.le_max_right ..) hf)
    | eof =>
      refine ⟨.ok (st.feed none :: below1) p1, rfl, F1, fun fuel hf => ?_⟩
      simp only [prime, hpoll]; rw [hF1 fuel hf]
    | err e =>
      refine ⟨.err e p1, rfl, F1, fun fuel hf => ?_⟩
      simp only [prime, hpoll]; rw [hF1 fuel hf]
    | oof => exact absurd rfl hr

theorem construct_terminates (src : Src) (N : Nat) : ∀ (ks before : List Kind) (acc : List StageSt) (pos : Nat),
    (∀ k ∈ ks, k.wf = true) → (∀ M, pos ≤ M → denoteF src acc pos M = det before src M) → pos ≤ N →
    PrimeAnswered src N before ks →
    ∃ b : Built, b.isOof = false ∧ StableAt (fun fuel => construct src fuel ks acc pos) b ∧
      (∀ sts' pos', b = .ok sts' pos' → pos' ≤ N) := by
  intro ks
  induction ks with
  | nil =>
    intro before acc pos _ _ hpos _
    exact ⟨.ok acc pos, rfl, ⟨0, fun fuel _ => by simp [construct]⟩, fun _ _ h => by cases h; exact hpos⟩
  | cons k ks ih =>
    intro before acc pos hw hinv hpos hpa
    have hans : (denoteF src acc pos N).answers k.primeCount = true := by
      rw [hinv N hpos]; simpa using hpa [] k ks rfl
    obtain ⟨b, hb, F1, hF1⟩ := prime_terminates src N k.primeCount (StageSt.init k) acc pos
      (primeIdle_init k (hw k (List.mem_cons_self ..))) hpos hans
    dsimp only at hF1
    have hps := prime_sound src F1 k.primeCount (StageSt.init k) acc pos
    rw [hF1 F1 (Nat.le_refl _)] at hps
    cases b with
    | ok acc' p1 =>
      obtain ⟨hle, hB, hA⟩ := hps
      have hp1 : p1 ≤ N := by
        rcases Nat.lt_or_ge N p1 with hlt | hge
        · have := hB N hpos hlt; rw [this] at hans; simp at hans
        · exact hge
      have hinv' : ∀ M, p1 ≤ M → denoteF src acc' p1 M = det (before ++ [k]) src M := by
        intro M hM
        rw [(hA M hM).1, denoteF_init, hinv M (Nat.le_trans hle hM)]
        simp [det, pipeTr_append, pipeTr]
      obtain ⟨b2, hb2, ⟨F2, hF2⟩, hpos2⟩ := ih (before ++ [k]) acc' p1
        (fun k' hk' => hw k' (List.mem_cons_of_mem _ hk')) hinv' hp1
        (fun b' k' a' h => by
          have := hpa (k :: b') k' a' (by simp [h])
          simpa [List.append_assoc] using this)
      dsimp only at hF2
      refine ⟨b2, hb2, ⟨max F1 F2, fun fuel hf => ?_⟩, hpos2⟩
      simp only [construct]
      rw [hF1 fuel (Nat.le_trans (Nat.le_max_left ..) hf)]
      exact hF2 fuel (Nat.le_trans (Nat.le_max_right ..) hf)
    | err e p1 =>
      refine ⟨.err e p1, rfl, ⟨F1, fun fuel hf => ?_⟩, fun _ _ h => by cases h⟩
      simp only [construct]
      rw [hF1 fuel hf]
    | oof => simp [Built.isOof] at hb

theorem primeAnswered_nil_of_all (src : Src) (N : Nat) (kinds : List Kind)
    (h : ∀ b, (det b src N).term.isMore = false) : PrimeAnswered src N [] kinds := by
  intro b k a _
  simp [Tr.answers, h]

theorem runTake_terminates (src : Src) (N : Nat) (kinds : List Kind) (k : Nat)
    (hw : ∀ k ∈ kinds, k.wf = true) (hpa : PrimeAnswered src N [] kinds)
    (hans : (det kinds src N).answers k = true) :
    ∃ F, ∀ fuel, F ≤ fuel → (runTake kinds src fuel k).fin ≠ .oof := by
  obtain ⟨b, hb, ⟨F1, hF1⟩, hposN⟩ := construct_terminates src N kinds [] [] 0 hw
    (fun M _ => by rw [denoteF_nil_zero]; rfl) (Nat.zero_le _) hpa
  dsimp only at hF1
  have hcs := construct_sound src F1 0 kinds [] [] 0 0 (fun M _ => by rw [denoteF_nil_zero]; rfl)
  rw [hF1 F1 (Nat.le_refl _)] at hcs
  cases b with
  | ok sts pos =>
    obtain ⟨_, _, hden, _⟩ := hcs
    have hp := hposN sts pos rfl
    have hans' : (denoteF src sts pos N).answers k = true := by rw [hden N hp]; simpa using hans
    obtain ⟨out, hout, F2, hF2⟩ := takeK_terminates src N k sts pos [] hp hans'
    dsimp only at hF2
    refine ⟨max F1 F2, fun fuel hf => ?_⟩
    unfold runTake
    rw [hF1 fuel (Nat.le_trans (Nat.le_max_left ..) hf)]
    simp only
    rw [hF2 fuel (Nat.le_trans (Nat.le_max_right ..) hf)]
    exact hout
  | err e pos =>
    refine ⟨F1, fun fuel hf => ?_⟩
    unfold runTake
    rw [hF1 fuel hf]
    simp
  | oof => simp [Built.isOof] at hb

/-- on a finite source every prefix trace at the full length is terminated -/
theorem det_fin_not_more (kinds : List Kind) (xs : List V) (tail : Option Err) :
    (det kinds (.fin xs tail) xs.length).term.isMore = false := by
  rcases h : (det kinds (.fin xs tail) xs.length).term.isMore with _ | _
  · rfl
  · have := pipeTr_isMore kinds _ h
    simp only [Src.pfx, ge_iff_le, Nat.le_refl, ↓reduceIte] at this
    cases tail <;> simp [Term.isMore] at this

theorem runTake_terminates_fin (kinds : List Kind) (xs : List V) (tail : Option Err) (k : Nat)
    (hw : ∀ k ∈ kinds, k.wf = true) :
    ∃ F, ∀ fuel, F ≤ fuel → (runTake kinds (.fin xs tail) fuel k).fin ≠ .oof :=
  runTake_terminates (.fin xs tail) xs.length kinds k hw
    (primeAnswered_nil_of_all _ _ kinds (fun b => det_fin_not_more b xs tail))
    (by simp [Tr.answers, det_fin_not_more])

/-! ### `list(it)` -/

theorem drain_sound (src : Src) (fuel : Nat) : ∀ (n : Nat) (sts : List StageSt) (pos : Nat) (acc : List V),
    pos ≤ (drain src fuel n sts pos acc).pulls ∧
    (∀ m, pos ≤ m → m < (drain src fuel n sts pos acc).pulls → (denoteF src sts pos m).term.isMore = true) ∧
    ∃ ys, (drain src fuel n sts pos acc).items = acc ++ ys ∧
      ∀ N, (drain src fuel n sts pos acc).pulls ≤ N →
        match (drain src fuel n sts pos acc).fin with
        | .exhausted => denoteF src sts pos N = ⟨ys, .eof⟩
        | .raised e => denoteF src sts pos N = ⟨ys, .err e⟩
        | .gotK => False
        | .oof => True := by
  intro n
  induction n with
  | zero =>
    intro sts pos acc
    simp only [drain]
    exact ⟨Nat.le_refl _, fun m hm hm' => by omega, [], by simp, fun _ _ => trivial⟩
  | succ n ih =>
    intro sts pos acc
    simp only [drain]
    have hs := pullFrom_sound src fuel sts pos
    rcases h1 : pullFrom src fuel sts pos with ⟨r, sts1, p1⟩
    rw [h1] at hs
    obtain ⟨hle, hB, hA⟩ := hs
    cases r with
    | item v =>
      simp only
      obtain ⟨hle2, hB2, ys, hys, hA2⟩ := ih sts1 p1 (acc ++ [v])
      refine ⟨Nat.le_trans hle hle2, ?_, v :: ys, by simp [hys], ?_⟩
      · intro m hm hm'
        rcases Nat.lt_or_ge m p1 with hlt | hge
        · rw [hB m hm hlt]; rfl
        · have := hA m hge
          simp only at this
          rw [this]
          exact hB2 m hge hm'
      · intro N hN
        have h0 := hA N (Nat.le_trans hle2 hN)
        simp only at h0
        have h2 := hA2 N hN
        revert h2
        cases (drain src fuel n sts1 p1 (acc ++ [v])).fin with
        | gotK => intro h2; exact h2
        | exhausted => intro h2; rw [h0, h2]; rfl
        | raised e => intro h2; rw [h0, h2]; rfl
        | oof => intro _; trivial
    | eof =>
      simp only
      exact ⟨hle, fun m hm hm' => by rw [hB m hm hm']; rfl, [], by simp, fun N hN => hA N hN⟩
    | err e =>
      simp only
      exact ⟨hle, fun m hm hm' => by rw [hB m hm hm']; rfl, [], by simp, fun N hN => hA N hN⟩
    | oof =>
      simp only
      exact ⟨hle, fun m hm hm' => by rw [hB m hm hm']; rfl, [], by simp, fun N hN => trivial⟩

theorem not_more_answers {d : Tr} (h : d.term.isMore = false) (k : Nat) : d.answers k = true := by
  simp [Tr.answers, h]

theorem drain_terminates (src : Src) (N : Nat) : ∀ (L : Nat) (sts : List StageSt) (pos : Nat) (acc : List V),
    pos ≤ N → (denoteF src sts pos N).term.isMore = false → (denoteF src sts pos N).items.length = L →
    ∃ out : RunOut, out.fin ≠ .oof ∧ ∃ F, ∀ fuel n, F ≤ fuel → L + 1 ≤ n → drain src fuel n sts pos acc = out := by
  intro L
  induction L with
  | zero =>
    intro sts pos acc hpos hterm hlen
    obtain ⟨r, sts1, p1, hr, hp1, ⟨F1, hF1⟩, hle, hB, hA⟩ :=
      pullFrom_stable src N sts pos hpos (not_more_answers hterm 1)
    dsimp only at hF1
    cases r with
    | item v =>
      have := hA N hp1
      simp only at this
      rw [this] at hlen; simp [Tr.cons] at hlen
    | eof =>
      refine ⟨⟨acc, .exhausted, p1⟩, by simp, F1, fun fuel n hf hn => ?_⟩
      obtain ⟨n', rfl⟩ : ∃ n', n = n' + 1 := ⟨n - 1, by omega⟩
      simp only [drain]; rw [hF1 fuel hf]
    | err e =>
      refine ⟨⟨acc, .raised e, p1⟩, by simp, F1, fun fuel n hf hn => ?_⟩
      obtain ⟨n', rfl⟩ : ∃ n', n = n' + 1 := ⟨n - 1, by omega⟩
      simp only [drain]; rw [hF1 fuel hf]
    | oof => exact absurd rfl hr
  | succ L ih =>
    intro sts pos acc hpos hterm hlen
    obtain ⟨r, sts1, p1, hr, hp1, ⟨F1, hF1⟩, hle, hB, hA⟩ :=
      pullFrom_stable src N sts pos hpos (not_more_answers hterm 1)
    dsimp only at hF1
    cases r with
    | item v =>
      have hA' := hA N hp1
      simp only at hA'
      have hterm' : (denoteF src sts1 p1 N).term.isMore = false := by rw [hA'] at hterm; exact hterm
      have hlen' : (denoteF src sts1 p1 N).items.length = L := by rw [hA'] at hlen; simpa [Tr.cons] using hlen
      obtain ⟨out, hout, F2, hF2⟩ := ih sts1 p1 (acc ++ [v]) hp1 hterm' hlen'
      refine ⟨out, hout, max F1 F2, fun fuel n hf hn => ?_⟩
      obtain ⟨n', rfl⟩ : ∃ n', n = n' + 1 := ⟨n - 1, by omega⟩
      simp only [drain]
      rw [hF1 fuel (Nat.le_trans (Nat.le_max_left ..) hf)]
      exact hF2 fuel n' (Nat.le_trans (Nat.le_max_right ..) hf) (by omega)
    | eof =>
      refine ⟨⟨acc, .exhausted, p1⟩, by simp, F1, fun fuel n hf hn => ?_⟩
      obtain ⟨n', rfl⟩ : ∃ n', n = n' + 1 := ⟨n - 1, by omega⟩
      simp only [drain]; rw [hF1 fuel hf]
    | err e =>
      refine ⟨⟨acc, .raised e, p1⟩, by simp, F1, fun fuel n hf hn => ?_⟩
      obtain ⟨n', rfl⟩ : ∃ n', n = n' + 1 := ⟨n - 1, by omega⟩
      simp only [drain]; rw [hF1 fuel hf]
    | oof => exact absurd rfl hr

/-- what an `all()` run establishes -/
structure AllSpec (kinds : List Kind) (src : Src) (out : RunOut) : Prop where
  primed : ∀ N, out.pulls ≤ N → PrimeAnswered src N [] kinds
  /-- every source position pulled lies in a prefix that leaves the end of the stream open,
      or a window was being primed -/
  needed : ∀ m, m < out.pulls → PrimeNeeded src [] kinds m ∨ (det kinds src m).term.isMore = true
  result : (∀ N, out.pulls ≤ N → match out.fin with
      | .exhausted => det kinds src N = ⟨out.items, .eof⟩
      | .raised e => det kinds src N = ⟨out.items, .err e⟩
      | _ => False) ∨
    (∃ e, out.fin = .raised e ∧ ∀ N, out.pulls ≤ N → PrimeRaised src [] kinds e N)
  bounded : ∀ bound, SrcBound src bound → out.pulls ≤ bound ∧
    ((∃ e, out.fin = .raised e ∧ PrimeRaised src [] kinds e bound ∧ out.pulls ≤ primeNeed kinds src bound) ∨
      ((match out.fin with
        | .exhausted => det kinds src bound = ⟨out.items, .eof⟩
        | .raised e => det kinds src bound = ⟨out.items, .err e⟩
        | _ => False) ∧ out.pulls ≤ needEndFrom kinds src bound (primeNeed kinds src bound)))

theorem runAll_spec (src : Src) (fuel : Nat) (kinds : List Kind)
    (hfin : (runAll kinds src fuel).fin ≠ .oof) : AllSpec kinds src (runAll kinds src fuel) := by
  have hc : ∀ bound, _ := fun bound => construct_sound src fuel bound kinds [] [] 0 0
    (fun N _ => by rw [denoteF_nil_zero]; rfl)
  unfold runAll at hfin ⊢
  revert hc hfin
  cases construct src fuel kinds [] 0 with
  | ok sts pos =>
    intro hfin hc
    simp only at hfin hc ⊢
    obtain ⟨_, hprime, hden, _, hpa⟩ := hc 0
    simp only [List.nil_append] at hden
    obtain ⟨hle, hB, ys, hys, hA⟩ := drain_sound src fuel fuel sts pos []
    simp only [List.nil_append] at hys
    have hBabs : ∀ m, pos ≤ m → m < (drain src fuel fuel sts pos []).pulls →
        (det kinds src m).term.isMore = true := fun m hm hm' => by rw [← hden m hm]; exact hB m hm hm'
    have htrace : ∀ N, (drain src fuel fuel sts pos []).pulls ≤ N →
        match (drain src fuel fuel sts pos []).fin with
        | .exhausted => det kinds src N = ⟨(drain src fuel fuel sts pos []).items, .eof⟩
        | .raised e => det kinds src N = ⟨(drain src fuel fuel sts pos []).items, .err e⟩
        | _ => False := by
      intro N hN
      have h := hA N hN
      rw [hden N (Nat.le_trans hle hN)] at h
      revert h hfin
      rw [hys]
      cases (drain src fuel fuel sts pos []).fin with
      | gotK => intro _ h; exact h
      | exhausted => intro _ h; exact h
      | raised e => intro _ h; exact h
      | oof => intro h; exact absurd rfl h
    refine ⟨fun N hN => hpa N (Nat.le_trans hle hN), ?_, Or.inl htrace, ?_⟩
    · intro m hm
      rcases Nat.lt_or_ge m pos with hlt | hge
      · exact Or.inl (hprime m (Nat.zero_le _) hlt)
      · exact Or.inr (hBabs m hge hm)
    · intro bound hb
      obtain ⟨_, _, _, hbd, _⟩ := hc bound
      obtain ⟨hpb, hscan⟩ := hbd hb (Nat.le_refl _) (Nat.zero_le _)
      have hmb : ∀ m, pos ≤ m → m < (drain src fuel fuel sts pos []).pulls → m < bound :=
        fun m hm hm' => hb _ (pipeTr_isMore kinds _ (hBabs m hm hm'))
      have hpl : (drain src fuel fuel sts pos []).pulls ≤ bound := by
        rcases Nat.eq_or_lt_of_le hle with heq | hlt
        · omega
        · have := hmb ((drain src fuel fuel sts pos []).pulls - 1) (by omega) (by omega); omega
      refine ⟨hpl, Or.inr ⟨htrace bound hpl, ?_⟩⟩
      exact pulls_le_need _ bound _ pos _ hscan hmb (fun m hm hm' => by simp [hBabs m hm hm']) hle
  | err e pos =>
    intro _ hc
    simp only at hc ⊢
    obtain ⟨_, hprime, hraised, _, hpa⟩ := hc 0
    refine ⟨fun N hN => hpa N hN, fun m hm => Or.inl (hprime m (Nat.zero_le _) hm), Or.inr ⟨e, rfl, hraised⟩, ?_⟩
    intro bound hb
    obtain ⟨_, _, hr, hbd, _⟩ := hc bound
    obtain ⟨hpb, hscan⟩ := hbd hb (Nat.le_refl _) (Nat.zero_le _)
    exact ⟨hpb, Or.inl ⟨e, rfl, hr bound hpb, hscan⟩⟩
  | oof => intro hfin _; exact absurd rfl hfin

theorem checkAll_of_spec (kinds : List Kind) (xs : List V) (tail : Option Err) (out : RunOut)
    (h : AllSpec kinds (.fin xs tail) out) :
    checkAll kinds (.fin xs tail) ⟨out.items, out.fin, out.pulls⟩ = true := by
  unfold checkAll
  simp only [srcLen]
  obtain ⟨hpl, hres⟩ := h.bounded xs.length (srcBound_fin xs tail)
  rcases hres with ⟨e, hfe, hraised, hpn⟩ | ⟨htr, hneed⟩
  · apply Bool.or_eq_true_iff.mpr; right
    simp [hfe, hpn, primeRaised_mem hraised]
  · apply Bool.or_eq_true_iff.mpr; left
    revert htr
    cases out.fin with
    | gotK => intro h; exact absurd h id
    | exhausted => intro hd; simp [hd, finOfTerm, hneed]
    | raised e => intro hd; simp [hd, finOfTerm, hneed]
    | oof => intro h; exact absurd h id

theorem runAll_terminates (src : Src) (N : Nat) (kinds : List Kind)
    (hw : ∀ k ∈ kinds, k.wf = true) (hpa : PrimeAnswered src N [] kinds)
    (hterm : (det kinds src N).term.isMore = false) :
    ∃ F, ∀ fuel, F ≤ fuel → (runAll kinds src fuel).fin ≠ .oof := by
  obtain ⟨b, hb, ⟨F1, hF1⟩, hposN⟩ := construct_terminates src N kinds [] [] 0 hw
    (fun M _ => by rw [denoteF_nil_zero]; rfl) (Nat.zero_le _) hpa
  dsimp only at hF1
  have hcs := construct_sound src F1 0 kinds [] [] 0 0 (fun M _ => by rw [denoteF_nil_zero]; rfl)
  rw [hF1 F1 (Nat.le_refl _)] at hcs
  cases b with
  | ok sts pos =>
    obtain ⟨_, _, hden, _⟩ := hcs
    have hp := hposN sts pos rfl
    have hterm' : (denoteF src sts pos N).term.isMore = false := by rw [hden N hp]; simpa using hterm
    obtain ⟨out, hout, F2, hF2⟩ := drain_terminates src N _ sts pos [] hp hterm' rfl
    refine ⟨max (max F1 F2) ((denoteF src sts pos N).items.length + 1), fun fuel hf => ?_⟩
    unfold runAll
    rw [hF1 fuel (by omega)]
    simp only
    rw [hF2 fuel fuel (by omega) (by omega)]
    exact hout
  | err e pos =>
    refine ⟨F1, fun fuel hf => ?_⟩
    unfold runAll
    rw [hF1 fuel hf]
    simp
  | oof => simp [Built.isOof] at hb

/-! ### `first(key, default)` -/

theorem firstOf_sound (src : Src) (fuel : Nat) (key : Fn) : ∀ (n : Nat) (sts : List StageSt) (pos i : Nat),
    pos ≤ (firstOf src fuel key n sts pos).2 ∧
    ∃ c, (∀ m, pos ≤ m → m < (firstOf src fuel key n sts pos).2 → (denoteF src sts pos m).answers c = false) ∧
      ∀ N, (firstOf src fuel key n sts pos).2 ≤ N →
        match (firstOf src fuel key n sts pos).1 with
        | .found v => firstRef key (denoteF src sts pos N).items (denoteF src sts pos N).term i = .found v (i + c)
        | .raised e =>
            firstRef key (denoteF src sts pos N).items (denoteF src sts pos N).term i = .keyRaised e (i + c) ∨
            firstRef key (denoteF src sts pos N).items (denoteF src sts pos N).term i = .atEnd (.err e)
        | .default => firstRef key (denoteF src sts pos N).items (denoteF src sts pos N).term i = .atEnd .eof
        | .oof => True := by
  intro n
  induction n with
  | zero =>
    intro sts pos i
    simp only [firstOf]
    exact ⟨Nat.le_refl _, 0, fun m hm hm' => by omega, fun _ _ => trivial⟩
  | succ n ih =>
    intro sts pos i
    simp only [firstOf]
    have hs := pullFrom_sound src fuel sts pos
    rcases h1 : pullFrom src fuel sts pos with ⟨r, sts1, p1⟩
    rw [h1] at hs
    obtain ⟨hle, hB, hA⟩ := hs
    cases r with
    | item v =>
      simp only
      cases hk : key v with
      | error e =>
        simp only
        refine ⟨hle, 1, fun m hm hm' => by rw [hB m hm hm']; simp, fun N hN => ?_⟩
        have := hA N hN
        simp only at this
        left
        rw [this]; simp [Tr.cons, firstRef, hk]
      | ok y =>
        simp only
        by_cases ht : y.truthy = true
        · simp only [ht, ↓reduceIte]
          refine ⟨hle, 1, fun m hm hm' => by rw [hB m hm hm']; simp, fun N hN => ?_⟩
          have := hA N hN
          simp only at this
          rw [this]; simp [Tr.cons, firstRef, hk, ht]
        · simp only [ht, Bool.false_eq_true, ↓reduceIte]
          obtain ⟨hle2, c, hB2, hA2⟩ := ih sts1 p1 (i + 1)
          refine ⟨Nat.le_trans hle hle2, c + 1, ?_, ?_⟩
          · intro m hm hm'
            rcases Nat.lt_or_ge m p1 with hlt | hge
            · rw [hB m hm hlt]; simp
            · have := hA m hge
              simp only at this
              rw [this, answers_cons]
              exact hB2 m hge hm'
          · intro N hN
            have h0 := hA N (Nat.le_trans hle2 hN)
            simp only at h0
            have h2 := hA2 N hN
            have hstep : firstRef key (denoteF src sts pos N).items (denoteF src sts pos N).term i =
                firstRef key (denoteF src sts1 p1 N).items (denoteF src sts1 p1 N).term (i + 1) := by
              rw [h0]; simp [Tr.cons, firstRef, hk, ht]
            rw [hstep]
            have harith : i + (c + 1) = i + 1 + c := by omega
            rw [harith]
            exact h2
    | eof =>
      simp only
      refine ⟨hle, 1, fun m hm hm' => by rw [hB m hm hm']; simp, fun N hN => ?_⟩
      have := hA N hN
      simp only at this
      rw [this]; simp [firstRef]
    | err e =>
      simp only
      refine ⟨hle, 1, fun m hm hm' => by rw [hB m hm hm']; simp, fun N hN => ?_⟩
      have := hA N hN
      simp only at this
      right
      rw [this]; simp [firstRef]
    | oof =>
      simp only
      exact ⟨hle, 1, fun m hm hm' => by rw [hB m hm hm']; simp, fun N hN => trivial⟩

theorem firstOf_terminates (src : Src) (N : Nat) (key : Fn) : ∀ (L : Nat) (sts : List StageSt) (pos i : Nat),
    pos ≤ N → (denoteF src sts pos N).items.length = L →
    firstRef key (denoteF src sts pos N).items (denoteF src sts pos N).term i ≠ .atEnd .more →
    ∃ out : FirstOut × Nat, (match out.1 with | .oof => False | _ => True) ∧
      ∃ F, ∀ fuel n, F ≤ fuel → L + 1 ≤ n → firstOf src fuel key n sts pos = out := by
  intro L
  induction L with
  | zero =>
    intro sts pos i hpos hlen href
    have hitems : (denoteF src sts pos N).items = [] := List.eq_nil_of_length_eq_zero hlen
    have hans : (denoteF src sts pos N).answers 1 = true := by
      rw [hitems] at href
      simp only [firstRef] at href
      rcases hm : (denoteF src sts pos N).term.isMore with _ | _
      · exact not_more_answers hm 1
      · rw [isMore_eq hm] at href; exact absurd rfl href
    obtain ⟨r, sts1, p1, hr, hp1, ⟨F1, hF1⟩, hle, hB, hA⟩ := pullFrom_stable src N sts pos hpos hans
    dsimp only at hF1
    cases r with
    | item v =>
      have := hA N hp1
      simp only at this
      rw [this] at hitems; simp [Tr.cons] at hitems
    | eof =>
      refine ⟨(.default, p1), trivial, F1, fun fuel n hf hn => ?_⟩
      obtain ⟨n', rfl⟩ : ∃ n', n = n' + 1 := ⟨n - 1, by omega⟩
      simp only [firstOf]; rw [hF1 fuel hf]
    | err e =>
      refine ⟨(.raised e, p1), trivial, F1, fun fuel n hf hn => ?_⟩
      obtain ⟨n', rfl⟩ : ∃ n', n = n' + 1 := ⟨n - 1, by omega⟩
      simp only [firstOf]; rw [hF1 fuel hf]
    | oof => exact absurd rfl hr
  | succ L ih =>
    intro sts pos i hpos hlen href
    have hans : (denoteF src sts pos N).answers 1 = true := by simp [Tr.answers, hlen]
    obtain ⟨r, sts1, p1, hr, hp1, ⟨F1, hF1⟩, hle, hB, hA⟩ := pullFrom_stable src N sts pos hpos hans
    dsimp only at hF1
    cases r with
    | item v =>
      have hA' := hA N hp1
      simp only at hA'
      cases hk : key v with
      | error e =>
        refine ⟨(.raised e, p1), trivial, F1, fun fuel n hf hn => ?_⟩
        obtain ⟨n', rfl⟩ : ∃ n', n = n' + 1 := ⟨n - 1, by omega⟩
        simp only [firstOf]; rw [hF1 fuel hf]; simp [hk]
      | ok y =>
        by_cases ht : y.truthy = true
        · refine ⟨(.found v, p1), trivial, F1, fun fuel n hf hn => ?_⟩
          obtain ⟨n', rfl⟩ : ∃ n', n = n' + 1 := ⟨n - 1, by omega⟩
          simp only [firstOf]; rw [hF1 fuel hf]; simp [hk, ht]
        · have hlen' : (denoteF src sts1 p1 N).items.length = L := by
            rw [hA'] at hlen; simpa [Tr.cons] using hlen
          have href' : firstRef key (denoteF src sts1 p1 N).items (denoteF src sts1 p1 N).term (i + 1) ≠ .atEnd .more := by
            rw [hA'] at href; simpa [Tr.cons, firstRef, hk, ht] using href
          obtain ⟨out, hout, F2, hF2⟩ := ih sts1 p1 (i + 1) hp1 hlen' href'
          refine ⟨out, hout, max F1 F2, fun fuel n hf hn => ?_⟩
          obtain ⟨n', rfl⟩ : ∃ n', n = n' + 1 := ⟨n - 1, by omega⟩
          simp only [firstOf]
          rw [hF1 fuel (Nat.le_trans (Nat.le_max_left ..) hf)]
          simp only [hk, ht, Bool.false_eq_true, ↓reduceIte]
          exact hF2 fuel n' (Nat.le_trans (Nat.le_max_right ..) hf) (by omega)
    | eof =>
      refine ⟨(.default, p1), trivial, F1, fun fuel n hf hn => ?_⟩
      obtain ⟨n', rfl⟩ : ∃ n', n = n' + 1 := ⟨n - 1, by omega⟩
      simp only [firstOf]; rw [hF1 fuel hf]
    | err e =>
      refine ⟨(.raised e, p1), trivial, F1, fun fuel n hf hn => ?_⟩
      obtain ⟨n', rfl⟩ : ∃ n', n = n' + 1 := ⟨n - 1, by omega⟩
      simp only [firstOf]; rw [hF1 fuel hf]
    | oof => exact absurd rfl hr

/-- how the outcome of `first` relates to the reference on a trace -/
def FirstMatches (key : Fn) (d : Tr) (o : FirstOut) (c : Nat) : Prop :=
  match o with
  | .found v => firstRef key d.items d.term 0 = .found v c
  | .raised e => firstRef key d.items d.term 0 = .keyRaised e c ∨ firstRef key d.items d.term 0 = .atEnd (.err e)
  | .default => firstRef key d.items d.term 0 = .atEnd .eof
  | .oof => False

/-- what a `first(key)` run establishes -/
structure FirstSpec (kinds : List Kind) (src : Src) (key : Fn) (o : FirstOut) (pulls : Nat) : Prop where
  primed : ∀ N, pulls ≤ N → PrimeAnswered src N [] kinds
  result : (∃ c, (∀ N, pulls ≤ N → FirstMatches key (det kinds src N) o c) ∧
      ∀ m, m < pulls → PrimeNeeded src [] kinds m ∨ (det kinds src m).answers c = false) ∨
    (∃ e, o = .raised e ∧ (∀ N, pulls ≤ N → PrimeRaised src [] kinds e N) ∧
      ∀ m, m < pulls → PrimeNeeded src [] kinds m)
  bounded : ∀ bound, SrcBound src bound → pulls ≤ bound ∧
    ((∃ e, o = .raised e ∧ PrimeRaised src [] kinds e bound ∧ pulls ≤ primeNeed kinds src bound) ∨
      (∃ c, FirstMatches key (det kinds src bound) o c ∧
        pulls ≤ needFrom kinds src bound c (primeNeed kinds src bound) ∧
        pulls ≤ needEndFrom kinds src bound (primeNeed kinds src bound)))

theorem runFirst_spec (src : Src) (fuel : Nat) (kinds : List Kind) (key : Fn)
    (hfin : (match (runFirst kinds src fuel key).1 with | .oof => False | _ => True)) :
    FirstSpec kinds src key (runFirst kinds src fuel key).1 (runFirst kinds src fuel key).2 := by
  have hc : ∀ bound, _ := fun bound => construct_sound src fuel bound kinds [] [] 0 0
    (fun N _ => by rw [denoteF_nil_zero]; rfl)
  unfold runFirst at hfin ⊢
  revert hc hfin
  cases construct src fuel kinds [] 0 with
  | ok sts pos =>
    intro hfin hc
    simp only at hfin hc ⊢
    obtain ⟨_, hprime, hden, _, hpa⟩ := hc 0
    simp only [List.nil_append] at hden
    obtain ⟨hle, c, hB, hA⟩ := firstOf_sound src fuel key fuel sts pos 0
    have hBabs : ∀ m, pos ≤ m → m < (firstOf src fuel key fuel sts pos).2 →
        (det kinds src m).answers c = false := fun m hm hm' => by rw [← hden m hm]; exact hB m hm hm'
    have hmatch : ∀ N, (firstOf src fuel key fuel sts pos).2 ≤ N →
        FirstMatches key (det kinds src N) (firstOf src fuel key fuel sts pos).1 c := by
      intro N hN
      have h := hA N hN
      rw [hden N (Nat.le_trans hle hN)] at h
      revert h hfin
      unfold FirstMatches
      cases (firstOf src fuel key fuel sts pos).1 with
      | found v => intro _ h; simpa using h
      | default => intro _ h; exact h
      | raised e => intro _ h; simpa using h
      | oof => intro h _; exact h
    refine ⟨fun N hN => hpa N (Nat.le_trans hle hN), Or.inl ⟨c, hmatch, ?_⟩, ?_⟩
    · intro m hm
      rcases Nat.lt_or_ge m pos with hlt | hge
      · exact Or.inl (hprime m (Nat.zero_le _) hlt)
      · exact Or.inr (hBabs m hge hm)
    · intro bound hb
      obtain ⟨_, _, _, hbd, _⟩ := hc bound
      obtain ⟨hpb, hscan⟩ := hbd hb (Nat.le_refl _) (Nat.zero_le _)
      have hmb : ∀ m, pos ≤ m → m < (firstOf src fuel key fuel sts pos).2 → m < bound :=
        fun m hm hm' => hb _ (pipeTr_isMore kinds _ (answers_false_isMore (hBabs m hm hm')))
      have hpl : (firstOf src fuel key fuel sts pos).2 ≤ bound := by
        rcases Nat.eq_or_lt_of_le hle with heq | hlt
        · omega
        · have := hmb ((firstOf src fuel key fuel sts pos).2 - 1) (by omega) (by omega); omega
      refine ⟨hpl, Or.inr ⟨c, hmatch bound hpl, ?_, ?_⟩⟩
      · exact pulls_le_need _ bound _ pos _ hscan hmb hBabs hle
      · exact pulls_le_need _ bound _ pos _ hscan hmb
          (fun m hm hm' => by simp [answers_false_isMore (hBabs m hm hm')]) hle
  | err e pos =>
    intro _ hc
    simp only at hc ⊢
    obtain ⟨_, hprime, hraised, _, hpa⟩ := hc 0
    refine ⟨fun N hN => hpa N hN, Or.inr ⟨e, rfl, hraised, fun m hm => hprime m (Nat.zero_le _) hm⟩, ?_⟩
    intro bound hb
    obtain ⟨_, _, hr, hbd, _⟩ := hc bound
    obtain ⟨hpb, hscan⟩ := hbd hb (Nat.le_refl _) (Nat.zero_le _)
    exact ⟨hpb, Or.inl ⟨e, rfl, hr bound hpb, hscan⟩⟩
  | oof => intro hfin _; exact absurd hfin id

theorem FirstObs.beq_refl (o : FirstObs) : (o == o) = true := by
  cases o <;> simp [BEq.beq, FirstObs.beq]
  exact V.beq_refl _

theorem checkFirst_of_spec (kinds : List Kind) (xs : List V) (tail : Option Err) (key : Fn)
    (o : FirstOut) (pulls : Nat) (h : FirstSpec kinds (.fin xs tail) key o pulls) :
    checkFirst kinds (.fin xs tail) key (firstObsOf o) pulls = true := by
  unfold checkFirst
  simp only [srcLen]
  obtain ⟨hpl, hres⟩ := h.bounded xs.length (srcBound_fin xs tail)
  rcases hres with ⟨e, hfe, hraised, hpn⟩ | ⟨c, hm, hneed, hend⟩
  · apply Bool.or_eq_true_iff.mpr; right
    subst hfe
    simp [firstObsOf, hpn, primeRaised_mem hraised]
  · apply Bool.or_eq_true_iff.mpr; left
    unfold FirstMatches at hm
    cases o with
    | found v => simp only at hm; rw [hm]; simp [firstObsOf, FirstObs.beq_refl, hneed]
    | default => simp only at hm; rw [hm]; simp [firstObsOf, FirstObs.beq_refl, hend]
    | raised e =>
      simp only at hm
      rcases hm with hm | hm
      · rw [hm]; simp [firstObsOf, hneed]
      · rw [hm]; simp [firstObsOf, FirstObs.beq_refl, hend]
    | oof => exact absurd hm id

theorem runFirst_terminates (src : Src) (N : Nat) (kinds : List Kind) (key : Fn)
    (hw : ∀ k ∈ kinds, k.wf = true) (hpa : PrimeAnswered src N [] kinds)
    (href : firstRef key (det kinds src N).items (det kinds src N).term 0 ≠ .atEnd .more) :
    ∃ F, ∀ fuel, F ≤ fuel → (match (runFirst kinds src fuel key).1 with | .oof => False | _ => True) := by
  obtain ⟨b, hb, ⟨F1, hF1⟩, hposN⟩ := construct_terminates src N kinds [] [] 0 hw
    (fun M _ => by rw [denoteF_nil_zero]; rfl) (Nat.zero_le _) hpa
  dsimp only at hF1
  have hcs := construct_sound src F1 0 kinds [] [] 0 0 (fun M _ => by rw [denoteF_nil_zero]; rfl)
  rw [hF1 F1 (Nat.le_refl _)] at hcs
  cases b with
  | ok sts pos =>
    obtain ⟨_, _, hden, _⟩ := hcs
    have hp := hposN sts pos rfl
    have href' : firstRef key (denoteF src sts pos N).items (denoteF src sts pos N).term 0 ≠ .atEnd .more := by
      rw [hden N hp]; simpa using href
    obtain ⟨out, hout, F2, hF2⟩ := firstOf_terminates src N key _ sts pos 0 hp rfl href'
    refine ⟨max (max F1 F2) ((denoteF src sts pos N).items.length + 1), fun fuel hf => ?_⟩
    unfold runFirst
    rw [hF1 fuel (by omega)]
    simp only
    rw [hF2 fuel fuel (by omega) (by omega)]
    exact hout
  | err e pos =>
    refine ⟨F1, fun fuel hf => ?_⟩
    unfold runFirst
    rw [hF1 fuel hf]
    trivial
  | oof => simp [Built.isOof] at hb

/-! ## Part E: builders on a heap -/

/-- every `Iter` instance points at an allocated stack list -/
def BHeap.wf (h : BHeap) : Prop := ∀ (i : Nat) (o : IterObj), h.iters[i]? = some o → o.stackAddr < h.lists.length

theorem BHeap.addOp_wf (fwd : Bool) (h : BHeap) (hw : h.wf) (self : Nat) (e : Entry) :
    (h.addOp fwd self e).1.wf := by
  unfold BHeap.wf at hw ⊢
  unfold BHeap.addOp
  cases hs : h.iters[self]? with
  | none => exact hw
  | some o =>
    intro i o' hi
    simp only at hi ⊢
    rw [List.getElem?_append] at hi
    split at hi
    · have := hw i o' hi; simp; omega
    · next hge =>
      have : i - h.iters.length = 0 := by
        rcases Nat.eq_zero_or_pos (i - h.iters.length) with h0 | hpos
        · exact h0
        · rw [List.getElem?_eq_none (by simp; omega)] at hi; simp at hi
      simp [this] at hi
      subst hi
      simp

/-- **frame**: `_add_op` leaves every existing spec exactly as it was -/
theorem BHeap.addOp_view_old (fwd : Bool) (h : BHeap) (hw : h.wf) (self : Nat) (e : Entry) (i : Nat)
    (hi : i < h.iters.length) : (h.addOp fwd self e).1.view i = h.view i := by
  unfold BHeap.wf at hw
  unfold BHeap.addOp
  cases hs : h.iters[self]? with
  | none => rfl
  | some o =>
    simp only [BHeap.view]
    rw [List.getElem?_append_left hi]
    cases ho : h.iters[i]? with
    | none => rfl
    | some o' =>
      have := hw i o' ho
      simp [BHeap.readStack, List.getElem?_append_left this]

/-- the spec `_add_op` returns: same subspec, the entry in front of the old stack -/
theorem BHeap.addOp_view_new (fwd : Bool) (h : BHeap) (_hw : h.wf) (self : Nat) (e : Entry) (it : Iter)
    (hv : h.view self = some it) :
    (h.addOp fwd self e).2 = h.iters.length ∧
    (h.addOp fwd self e).1.view (h.addOp fwd self e).2 = some (it.addOp fwd e) := by
  unfold BHeap.addOp
  simp only [BHeap.view] at hv
  cases hs : h.iters[self]? with
  | none => simp [hs] at hv
  | some o =>
    simp only [hs, Option.map_some, Option.some.injEq] at hv
    subst hv
    simp [BHeap.view, BHeap.readStack, Iter.addOp]

theorem BHeap.addOp_iters_length (fwd : Bool) (h : BHeap) (self : Nat) (e : Entry) :
    h.iters.length ≤ (h.addOp fwd self e).1.iters.length := by
  unfold BHeap.addOp
  cases h.iters[self]? <;> simp

/-- for every history of builder calls, an existing spec stays what it was -/
theorem BHeap.history_view (fwd : Bool) : ∀ (calls : List (Nat × Entry)) (h : BHeap), h.wf →
    ∀ i, i < h.iters.length → (h.history fwd calls).view i = h.view i := by
  intro calls
  induction calls with
  | nil => intro h _ i _; rfl
  | cons c calls ih =>
    intro h hw i hi
    obtain ⟨j, e⟩ := c
    simp only [BHeap.history]
    rw [ih _ (BHeap.addOp_wf fwd h hw j e) i (Nat.lt_of_lt_of_le hi (BHeap.addOp_iters_length fwd h j e))]
    exact BHeap.addOp_view_old fwd h hw j e i hi

/-- a chain of builder calls starting at object `i`: the heap stays well-formed, the last object
    returned is the entries added one by one to what `i` was, every object that existed is what it was -/
theorem BHeap.chain_spec (fwd : Bool) : ∀ (es : List Entry) (h : BHeap) (i : Nat) (it : Iter), h.wf →
    h.view i = some it →
    (h.chain fwd i es).1.wf ∧ (h.chain fwd i es).1.view (h.chain fwd i es).2 = some (es.foldl (Iter.addOp fwd) it) ∧
    h.iters.length ≤ (h.chain fwd i es).1.iters.length ∧
    ∀ j, j < h.iters.length → (h.chain fwd i es).1.view j = h.view j := by
  intro es
  induction es with
  | nil => intro h i it hw hv; exact ⟨hw, hv, Nat.le_refl _, fun _ _ => rfl⟩
  | cons e es ih =>
    intro h i it hw hv
    obtain ⟨_, hnew⟩ := BHeap.addOp_view_new fwd h hw i e it hv
    obtain ⟨h1, h2, h3, h4⟩ := ih (h.addOp fwd i e).1 (h.addOp fwd i e).2 (it.addOp fwd e)
      (BHeap.addOp_wf fwd h hw i e) hnew
    have hle := BHeap.addOp_iters_length fwd h i e
    refine ⟨h1, h2, Nat.le_trans hle h3, fun j hj => ?_⟩
    have := h4 j (Nat.lt_of_lt_of_le hj hle)
    simp only [BHeap.chain, List.foldl_cons] at this ⊢
    rw [this]
    exact BHeap.addOp_view_old fwd h hw i e j hj

theorem BHeap.newIter_wf (h : BHeap) (hw : h.wf) (sub : BaseFn) (s : Option V) : (h.newIter sub s).1.wf := by
  unfold BHeap.wf at hw ⊢
  intro i o hi
  simp only [BHeap.newIter] at hi ⊢
  rw [List.getElem?_append] at hi
  split at hi
  · have := hw i o hi; simp; omega
  · have : i - h.iters.length = 0 := by
      rcases Nat.eq_zero_or_pos (i - h.iters.length) with h0 | hpos
      · exact h0
      · rw [List.getElem?_eq_none (by simp; omega)] at hi; simp at hi
    simp [this] at hi
    subst hi
    simp

/-! ### Invoke -/

def IHeap.wf (h : IHeap) : Prop := ∀ (i : Nat) (o : List ICall × Nat), h.objs[i]? = some o → o.2 < h.dicts.length

theorem IHeap.call_wf (h : IHeap) (hw : h.wf) (self : Nat) (c : ICall) : (h.call self c).1.wf := by
  unfold IHeap.wf at hw ⊢
  unfold IHeap.call
  cases hs : h.objs[self]? with
  | none => exact hw
  | some o =>
    obtain ⟨args, da⟩ := o
    intro i o' hi
    simp only at hi ⊢
    rw [List.getElem?_append] at hi
    split at hi
    · have := hw i o' hi; simp; omega
    · have : i - h.objs.length = 0 := by
        rcases Nat.eq_zero_or_pos (i - h.objs.length) with h0 | hpos
        · exact h0
        · rw [List.getElem?_eq_none (by simp; omega)] at hi; simp at hi
      simp [this] at hi
      subst hi
      simp

theorem IHeap.call_view_old (h : IHeap) (hw : h.wf) (self : Nat) (c : ICall) (i : Nat)
    (hi : i < h.objs.length) : (h.call self c).1.view i = h.view i := by
  unfold IHeap.wf at hw
  unfold IHeap.call
  cases hs : h.objs[self]? with
  | none => rfl
  | some o =>
    obtain ⟨args, da⟩ := o
    simp only [IHeap.view]
    rw [List.getElem?_append_left hi]
    cases ho : h.objs[i]? with
    | none => rfl
    | some o' =>
      have := hw i o' ho
      simp [List.getElem?_append_left this]

theorem IHeap.call_view_new (h : IHeap) (_hw : h.wf) (self : Nat) (c : ICall) (inv : Invoke)
    (hv : h.view self = some inv) :
    (h.call self c).1.view (h.call self c).2 = some (inv.call c) := by
  unfold IHeap.call
  simp only [IHeap.view] at hv
  cases hs : h.objs[self]? with
  | none => simp [hs] at hv
  | some o =>
    obtain ⟨args, da⟩ := o
    simp only [hs, Option.map_some, Option.some.injEq] at hv
    subst hv
    simp [IHeap.view, Invoke.call]

theorem IHeap.call_objs_length (h : IHeap) (self : Nat) (c : ICall) :
    h.objs.length ≤ (h.call self c).1.objs.length := by
  unfold IHeap.call
  cases hs : h.objs[self]? with
  | none => simp
  | some o => obtain ⟨args, da⟩ := o; simp

theorem IHeap.history_view : ∀ (calls : List (Nat × ICall)) (h : IHeap), h.wf →
    ∀ i, i < h.objs.length → (h.history calls).view i = h.view i := by
  intro calls
  induction calls with
  | nil => intro h _ i _; rfl
  | cons c calls ih =>
    intro h hw i hi
    obtain ⟨j, e⟩ := c
    simp only [IHeap.history]
    rw [ih _ (IHeap.call_wf h hw j e) i (Nat.lt_of_lt_of_le hi (IHeap.call_objs_length h j e))]
    exact IHeap.call_view_old h hw j e i hi

/-! ### helpers of the semantics theorem -/

theorem composeE_prefix : ∀ (b rest : List Kind) (xs ys : List V), composeE (b ++ rest) xs = .ok ys →
    ∃ zs, composeE b xs = .ok zs := by
  intro b
  induction b with
  | nil => intro rest xs ys _; exact ⟨xs, rfl⟩
  | cons k b ih =>
    intro rest xs ys h
    simp only [List.cons_append, composeE] at h ⊢
    obtain ⟨zs, hzs, h⟩ := except_bind_ok h
    obtain ⟨ws, hws⟩ := ih rest zs ys h
    exact ⟨ws, by simp [hzs, hws, bind, Except.bind]⟩

theorem det_fin_full (kinds : List Kind) (xs : List V) :
    det kinds (.fin xs none) xs.length = pipeTr kinds ⟨xs, .eof⟩ := by
  simp [det, Src.pfx]


end Glom.C17
