import Glom.Spec.C17
/-
  C17 — helper lemmas.

  Part A: the demand-driven chain (`pullFrom`, `prime`, `construct`, `takeK`,
          `drain`, `firstOf`) against the trace semantics (`pipeTr`):
          soundness, and "every pull is needed".
  Part B: each stage's trace function against its list function.
  Part C: `leastFrom`, bounds.
  Part D: termination.
  Part E: builders.
-/
namespace Glom.C17

/-! ## Part A -/

def Tr.cons (v : V) (t : Tr) : Tr := ⟨v :: t.items, t.term⟩

@[simp] theorem Tr.prepend_nil (t : Tr) : t.prepend [] = t := by cases t; rfl
@[simp] theorem Tr.prepend_cons (v : V) (o : List V) (t : Tr) :
    t.prepend (v :: o) = (t.prepend o).cons v := rfl
theorem Tr.prepend_append (a b : List V) (t : Tr) : t.prepend (a ++ b) = (t.prepend b).prepend a := by
  simp [Tr.prepend, List.append_assoc]

/-- what a stage state will still yield, given what the chain below it will yield -/
def driveIdle (s : StageSt) (us : List V) (t : Term) : Tr :=
  match s.err with
  | some e => ⟨[], .err e⟩
  | none => if s.stopped then ⟨[], .eof⟩ else foldCore s.core us t

def drive (s : StageSt) (us : List V) (t : Term) : Tr := (driveIdle s us t).prepend s.out

/-- what the chain `sts` (outermost first) will still yield over the future `us`, `t` of the source -/
def denote : List StageSt → List V → Term → Tr
  | [], us, t => ⟨us, t⟩
  | s :: rest, us, t => drive s (denote rest us t).items (denote rest us t).term

/-- the future of the source from position `pos`, as far as its first `N` items tell -/
def denoteF (src : Src) (sts : List StageSt) (pos N : Nat) : Tr :=
  denote sts ((src.pfx N).items.drop pos) (src.pfx N).term

theorem denoteF_cons (src : Src) (s : StageSt) (rest : List StageSt) (pos N : Nat) :
    denoteF src (s :: rest) pos N = drive s (denoteF src rest pos N).items (denoteF src rest pos N).term := rfl

/-! ### the stage interface -/

theorem poll_emit {s s' : StageSt} {v : V} (h : s.poll = (.emit v, s')) (us : List V) (t : Term) :
    drive s us t = (drive s' us t).cons v := by
  unfold StageSt.poll at h
  split at h
  · next w o ho =>
    simp only [Prod.mk.injEq, Act.emit.injEq] at h
    obtain ⟨rfl, rfl⟩ := h
    simp [drive, driveIdle, ho]
  · split at h
    · simp at h
    · split at h <;> simp at h

theorem poll_done {s s' : StageSt} (h : s.poll = (.done, s')) (us : List V) (t : Term) :
    drive s us t = ⟨[], .eof⟩ := by
  unfold StageSt.poll at h
  split at h
  · simp at h
  · next ho =>
    split at h
    · simp at h
    · next he =>
      split at h
      · next hs => simp [drive, driveIdle, ho, he, hs]
      · simp at h

theorem poll_fail {s s' : StageSt} {e : Err} (h : s.poll = (.fail e, s')) (us : List V) (t : Term) :
    drive s us t = ⟨[], .err e⟩ := by
  unfold StageSt.poll at h
  split at h
  · simp at h
  · next ho =>
    split at h
    · next e' he =>
      simp only [Prod.mk.injEq, Act.fail.injEq] at h
      obtain ⟨rfl, _⟩ := h
      simp [drive, driveIdle, ho, he]
    · split at h <;> simp at h

/-- a stage that answers `pull` is idle: nothing pending, not stopped, not failed -/
theorem poll_pull {s s' : StageSt} (h : s.poll = (.pull, s')) :
    s' = s ∧ s.out = [] ∧ s.err = none ∧ s.stopped = false := by
  unfold StageSt.poll at h
  split at h
  · simp at h
  · next ho =>
    split at h
    · simp at h
    · next he =>
      split at h
      · simp at h
      · next hs =>
        simp only [Prod.mk.injEq, true_and] at h
        exact ⟨h.symm, ho, he, by simpa using hs⟩

theorem drive_idle {s : StageSt} (ho : s.out = []) (he : s.err = none) (hs : s.stopped = false)
    (us : List V) (t : Term) : drive s us t = foldCore s.core us t := by
  simp [drive, driveIdle, ho, he, hs]

theorem drive_feed_some {s : StageSt} (ho : s.out = []) (he : s.err = none) (hs : s.stopped = false)
    (u : V) (us : List V) (t : Term) : drive s (u :: us) t = drive (s.feed (some u)) us t := by
  rw [drive_idle ho he hs]
  rcases hp : s.core.push u with ⟨o, c, st⟩
  cases st <;> simp [StageSt.feed, foldCore, hp, drive, driveIdle, Tr.prepend]

theorem drive_feed_none {s : StageSt} (ho : s.out = []) (he : s.err = none) (hs : s.stopped = false)
    (us : List V) (t : Term) : drive s [] .eof = drive (s.feed none) us t := by
  rw [drive_idle ho he hs]
  simp [StageSt.feed, drive, driveIdle, he, foldCore, Tr.prepend]

theorem drive_nil_more {s : StageSt} (ho : s.out = []) (he : s.err = none) (hs : s.stopped = false) :
    drive s [] .more = ⟨[], .more⟩ := by
  rw [drive_idle ho he hs]; simp [foldCore]

theorem drive_nil_err {s : StageSt} (ho : s.out = []) (he : s.err = none) (hs : s.stopped = false) (e : Err) :
    drive s [] (.err e) = ⟨[], .err e⟩ := by
  rw [drive_idle ho he hs]; simp [foldCore]

/-! ### the source -/

theorem pfx_getElem? (src : Src) (pos N : Nat) (v : V) (p' : Nat)
    (h : src.next pos = (.item v, p')) (hN : pos + 1 ≤ N) : (src.pfx N).items[pos]? = some v := by
  cases src with
  | fin xs tail =>
    simp only [Src.next] at h
    split at h
    · next w hw =>
      simp only [Prod.mk.injEq, Res.item.injEq] at h
      obtain ⟨rfl, _⟩ := h
      simp only [Src.pfx]
      split
      · exact hw
      · rw [List.getElem?_take]; simp [show pos < N by omega, hw]
    · split at h <;> simp at h
  | inf f =>
    simp only [Src.next, Prod.mk.injEq, Res.item.injEq] at h
    obtain ⟨rfl, _⟩ := h
    simp [Src.pfx, show pos < N by omega]

theorem pfx_length_le (src : Src) (N : Nat) : (src.pfx N).items.length ≤ N := by
  cases src with
  | fin xs tail => simp only [Src.pfx]; split <;> simp <;> omega
  | inf f => simp [Src.pfx]

theorem next_item {src : Src} {pos p' : Nat} {v : V} (h : src.next pos = (.item v, p')) :
    p' = pos + 1 ∧
    (∀ N, pos + 1 ≤ N → (src.pfx N).items.drop pos = v :: (src.pfx N).items.drop (pos + 1)) ∧
    (src.pfx pos).items.drop pos = [] ∧ (src.pfx pos).term = .more := by
  refine ⟨?_, ?_, ?_, ?_⟩
  · cases src with
    | fin xs tail =>
      simp only [Src.next] at h
      split at h
      · simp only [Prod.mk.injEq] at h; exact h.2.symm
      · split at h <;> simp at h
    | inf f => simp only [Src.next, Prod.mk.injEq] at h; exact h.2.symm
  · intro N hN
    have hg := pfx_getElem? src pos N v p' h hN
    have hlt : pos < (src.pfx N).items.length := by
      rcases Nat.lt_or_ge pos (src.pfx N).items.length with h1 | h1
      · exact h1
      · rw [List.getElem?_eq_none h1] at hg; simp at hg
    rw [List.drop_eq_getElem_cons hlt]
    rw [List.getElem?_eq_getElem hlt] at hg
    simp only [Option.some.injEq] at hg
    rw [hg]
  · apply List.drop_eq_nil_of_le; exact pfx_length_le src pos
  · cases src with
    | fin xs tail =>
      simp only [Src.next] at h
      split at h
      · next w hw =>
        have : pos < xs.length := by
          rcases Nat.lt_or_ge pos xs.length with h1 | h1
          · exact h1
          · rw [List.getElem?_eq_none h1] at hw; simp at hw
        simp only [Src.pfx]
        split
        · omega
        · rfl
      · split at h <;> simp at h
    | inf f => rfl

theorem next_eof {src : Src} {pos p' : Nat} (h : src.next pos = (.eof, p')) :
    p' = pos ∧ ∀ N, pos ≤ N → (src.pfx N).items.drop pos = [] ∧ (src.pfx N).term = .eof := by
  cases src with
  | fin xs tail =>
    simp only [Src.next] at h
    split at h
    · simp at h
    · next hw =>
      have hlen : xs.length ≤ pos := by
        rcases Nat.lt_or_ge pos xs.length with h1 | h1
        · rw [List.getElem?_eq_getElem h1] at hw; simp at hw
        · exact h1
      cases tail with
      | some e => simp at h
      | none =>
        simp only [Prod.mk.injEq, true_and] at h
        refine ⟨h.symm, fun N hN => ?_⟩
        simp only [Src.pfx]
        split
        · exact ⟨List.drop_eq_nil_of_le hlen, rfl⟩
        · omega
  | inf f => simp [Src.next] at h

theorem next_err {src : Src} {pos p' : Nat} {e : Err} (h : src.next pos = (.err e, p')) :
    p' = pos ∧ ∀ N, pos ≤ N → (src.pfx N).items.drop pos = [] ∧ (src.pfx N).term = .err e := by
  cases src with
  | fin xs tail =>
    simp only [Src.next] at h
    split at h
    · simp at h
    · next hw =>
      have hlen : xs.length ≤ pos := by
        rcases Nat.lt_or_ge pos xs.length with h1 | h1
        · rw [List.getElem?_eq_getElem h1] at hw; simp at hw
        · exact h1
      cases tail with
      | none => simp at h
      | some e' =>
        simp only [Prod.mk.injEq, Res.err.injEq] at h
        obtain ⟨rfl, h2⟩ := h
        refine ⟨h2.symm, fun N hN => ?_⟩
        simp only [Src.pfx]
        split
        · exact ⟨List.drop_eq_nil_of_le hlen, rfl⟩
        · omega
  | inf f => simp [Src.next] at h

theorem next_not_oof (src : Src) (pos : Nat) : (src.next pos).1 ≠ .oof := by
  cases src with
  | fin xs tail =>
    simp only [Src.next]
    split
    · simp
    · cases tail <;> simp
  | inf f => simp [Src.next]

/-! ### one demand on the chain -/

/-- what one `next()` on the chain establishes: positions only grow; every source position
    pulled on the way lies in a prefix that determined nothing yet (`more`, no item); and for
    every horizon `N` at or beyond the new position the chain's trace splits off exactly the
    answer -/
def StepOK (src : Src) (sts : List StageSt) (pos : Nat) (r : Res) (sts' : List StageSt) (pos' : Nat) : Prop :=
  pos ≤ pos' ∧
  (∀ n, pos ≤ n → n < pos' → denoteF src sts pos n = ⟨[], .more⟩) ∧
  (∀ N, pos' ≤ N →
    match r with
    | .item v => denoteF src sts pos N = (denoteF src sts' pos' N).cons v
    | .eof => denoteF src sts pos N = ⟨[], .eof⟩
    | .err e => denoteF src sts pos N = ⟨[], .err e⟩
    | .oof => True)

theorem pullFrom_nil (src : Src) (fuel pos : Nat) :
    pullFrom src fuel [] pos = ((src.next pos).1, [], (src.next pos).2) := by
  cases fuel <;> simp [pullFrom]

theorem pullFrom_zero (src : Src) (st : StageSt) (rest : List StageSt) (pos : Nat) :
    pullFrom src 0 (st :: rest) pos = (.oof, st :: rest, pos) := by
  simp [pullFrom]

theorem stepOK_src (src : Src) (pos : Nat) :
    StepOK src [] pos (src.next pos).1 [] (src.next pos).2 := by
  rcases hr : src.next pos with ⟨r, p'⟩
  cases r with
  | item v =>
    obtain ⟨rfl, h1, h2, h3⟩ := next_item hr
    refine ⟨by simp, ?_, ?_⟩
    · intro n hn hn'
      have : n = pos := by simp at hn'; omega
      subst this
      simp [denoteF, denote, h2, h3]
    · intro N hN
      simp only [denoteF, denote, Tr.cons]
      rw [h1 N hN]
  | eof =>
    obtain ⟨rfl, h1⟩ := next_eof hr
    refine ⟨Nat.le_refl _, fun n hn hn' => by simp at hn'; omega, fun N hN => ?_⟩
    simp [denoteF, denote, (h1 N hN).1, (h1 N hN).2]
  | err e =>
    obtain ⟨rfl, h1⟩ := next_err hr
    refine ⟨Nat.le_refl _, fun n hn hn' => by simp at hn'; omega, fun N hN => ?_⟩
    simp [denoteF, denote, (h1 N hN).1, (h1 N hN).2]
  | oof => exact absurd (by rw [hr]) (next_not_oof src pos)

theorem pullFrom_sound (src : Src) : ∀ (fuel : Nat) (sts : List StageSt) (pos : Nat),
    StepOK src sts pos (pullFrom src fuel sts pos).1 (pullFrom src fuel sts pos).2.1
      (pullFrom src fuel sts pos).2.2 := by
  intro fuel
  induction fuel with
  | zero =>
    intro sts pos
    cases sts with
    | nil => rw [pullFrom_nil]; exact stepOK_src src pos
    | cons st rest =>
      rw [pullFrom_zero]
      exact ⟨Nat.le_refl _, fun n hn hn' => by simp at hn'; omega, fun _ _ => trivial⟩
  | succ fuel ih =>
    intro sts pos
    cases sts with
    | nil => rw [pullFrom_nil]; exact stepOK_src src pos
    | cons st rest =>
      simp only [pullFrom]
      rcases hp : st.poll with ⟨act, st'⟩
      cases act with
      | emit v =>
        refine ⟨Nat.le_refl _, fun n hn hn' => by simp at hn'; omega, fun N _ => ?_⟩
        simp only [denoteF_cons]
        exact poll_emit hp _ _
      | done =>
        refine ⟨Nat.le_refl _, fun n hn hn' => by simp at hn'; omega, fun N _ => ?_⟩
        simp only [denoteF_cons]
        exact poll_done hp _ _
      | fail e =>
        refine ⟨Nat.le_refl _, fun n hn hn' => by simp at hn'; omega, fun N _ => ?_⟩
        simp only [denoteF_cons]
        exact poll_fail hp _ _
      | pull =>
        obtain ⟨rfl, ho, he, hs⟩ := poll_pull hp
        have ih1 := ih rest pos
        rcases h1 : pullFrom src fuel rest pos with ⟨r1, rest1, p1⟩
        rw [h1] at ih1
        obtain ⟨hle1, hB1, hA1⟩ := ih1
        cases r1 with
        | item u =>
          simp only
          have ih2 := ih (st'.feed (some u) :: rest1) p1
          rcases h2 : pullFrom src fuel (st'.feed (some u) :: rest1) p1 with ⟨r2, sts2, p2⟩
          rw [h2] at ih2
          obtain ⟨hle2, hB2, hA2⟩ := ih2
          have key : ∀ N, p1 ≤ N → denoteF src (st' :: rest) pos N =
              denoteF src (st'.feed (some u) :: rest1) p1 N := by
            intro N hN
            have := hA1 N hN
            simp only at this
            simp only [denoteF_cons, this, Tr.cons]
            exact drive_feed_some ho he hs u _ _
          refine ⟨Nat.le_trans hle1 hle2, ?_, ?_⟩
          · intro n hn hn'
            rcases Nat.lt_or_ge n p1 with hlt | hge
            · simp only [denoteF_cons, hB1 n hn hlt]
              exact drive_nil_more ho he hs
            · rw [key n hge]; exact hB2 n hge hn'
          · intro N hN
            have hN1 : p1 ≤ N := Nat.le_trans hle2 hN
            rw [key N hN1]
            exact hA2 N hN
        | eof =>
          simp only
          have ih2 := ih (st'.feed none :: rest1) p1
          rcases h2 : pullFrom src fuel (st'.feed none :: rest1) p1 with ⟨r2, sts2, p2⟩
          rw [h2] at ih2
          obtain ⟨hle2, hB2, hA2⟩ := ih2
          have key : ∀ N, p1 ≤ N → denoteF src (st' :: rest) pos N =
              denoteF src (st'.feed none :: rest1) p1 N := by
            intro N hN
            have := hA1 N hN
            simp only at this
            simp only [denoteF_cons, this]
            exact drive_feed_none ho he hs _ _
          refine ⟨Nat.le_trans hle1 hle2, ?_, ?_⟩
          · intro n hn hn'
            rcases Nat.lt_or_ge n p1 with hlt | hge
            · simp only [denoteF_cons, hB1 n hn hlt]
              exact drive_nil_more ho he hs
            · rw [key n hge]; exact hB2 n hge hn'
          · intro N hN
            have hN1 : p1 ≤ N := Nat.le_trans hle2 hN
            rw [key N hN1]
            exact hA2 N hN
        | err e =>
          simp only
          refine ⟨hle1, ?_, ?_⟩
          · intro n hn hn'
            simp only [denoteF_cons, hB1 n hn hn']
            exact drive_nil_more ho he hs
          · intro N hN
            have := hA1 N hN
            simp only at this
            simp only [denoteF_cons, this]
            exact drive_nil_err ho he hs e
        | oof =>
          simp only
          refine ⟨hle1, ?_, fun _ _ => trivial⟩
          intro n hn hn'
          simp only [denoteF_cons, hB1 n hn hn']
          exact drive_nil_more ho he hs

end Glom.C17
