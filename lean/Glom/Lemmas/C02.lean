import Glom.Spec.C02
/-
  Helper lemmas for C02: index arithmetic on the flat ops tuple (loop = structural
  steps), the per-branch lemma (a recorded op char is dispatched to the operation
  its dunder denotes), and the induction through nested arguments.
-/
namespace Glom.C02
open Glom

variable {V S : Type}

/-! ### induction principle for the nested expression type -/

theorem E.induct {motive : E V → Prop}
    (lit : ∀ v, motive (.lit v))
    (texpr : ∀ steps, (∀ s ∈ steps, motive s.2) → motive (.texpr steps))
    (spec : ∀ e, motive e → motive (.spec e))
    (list : ∀ xs, (∀ x ∈ xs, motive x) → motive (.list xs))
    (tuple : ∀ xs, (∀ x ∈ xs, motive x) → motive (.tuple xs))
    (dict : ∀ es, (∀ p ∈ es, motive p.1 ∧ motive p.2) → motive (.dict es))
    (set : ∀ ty xs, (∀ x ∈ xs, motive x) → motive (.set ty xs))
    (cargs : ∀ args kwargs, (∀ x ∈ args, motive x) → (∀ p ∈ kwargs, motive p.2) →
      motive (.cargs args kwargs))
    (sub : ∀ base v items, (∀ x ∈ items, motive x) → motive (.sub base v items)) :
    ∀ e, motive e
  | .lit v => lit v
  | .texpr steps => texpr steps (fun s _ => E.induct lit texpr spec list tuple dict set cargs sub s.2)
  | .spec e => spec e (E.induct lit texpr spec list tuple dict set cargs sub e)
  | .list xs => list xs (fun x _ => E.induct lit texpr spec list tuple dict set cargs sub x)
  | .tuple xs => tuple xs (fun x _ => E.induct lit texpr spec list tuple dict set cargs sub x)
  | .dict es => dict es (fun p _ => ⟨E.induct lit texpr spec list tuple dict set cargs sub p.1,
      E.induct lit texpr spec list tuple dict set cargs sub p.2⟩)
  | .set ty xs => set ty xs (fun x _ => E.induct lit texpr spec list tuple dict set cargs sub x)
  | .cargs args kwargs => cargs args kwargs
      (fun x _ => E.induct lit texpr spec list tuple dict set cargs sub x)
      (fun p _ => E.induct lit texpr spec list tuple dict set cargs sub p.2)
  | .sub base v items => sub base v items
      (fun x _ => E.induct lit texpr spec list tuple dict set cargs sub x)
termination_by e => sizeOf e
decreasing_by all_goals nested_dec

/-! ### the flat tuple -/

theorem flatOfCells_length (cells : List (String × Obj V)) :
    (flatOfCells cells).length = 2 * cells.length := by
  induction cells with
  | nil => rfl
  | cons s r ih => simp [flatOfCells, List.flatMap_cons] at *; omega

theorem flatOfCells_append (a b : List (String × Obj V)) :
    flatOfCells (a ++ b) = flatOfCells a ++ flatOfCells b := by
  simp [flatOfCells]

theorem flat_get_op (root : Obj V) (pre : List (String × Obj V)) (c : String) (a : Obj V)
    (rest : List (String × Obj V)) :
    (root :: flatOfCells (pre ++ (c, a) :: rest))[1 + 2 * pre.length]? = some (.opc c) := by
  rw [flatOfCells_append]
  have hl := flatOfCells_length pre
  rw [show 1 + 2 * pre.length = (2 * pre.length) + 1 by omega]
  rw [List.getElem?_cons_succ, List.getElem?_append_right (by omega), hl]
  simp [flatOfCells, List.flatMap_cons]

theorem flat_get_arg (root : Obj V) (pre : List (String × Obj V)) (c : String) (a : Obj V)
    (rest : List (String × Obj V)) :
    (root :: flatOfCells (pre ++ (c, a) :: rest))[1 + 2 * pre.length + 1]? = some a := by
  rw [flatOfCells_append]
  have hl := flatOfCells_length pre
  rw [show 1 + 2 * pre.length + 1 = (2 * pre.length + 1) + 1 by omega]
  rw [List.getElem?_cons_succ, List.getElem?_append_right (by omega), hl]
  simp [flatOfCells, List.flatMap_cons]

theorem flat_length (root : Obj V) (cells : List (String × Obj V)) :
    (root :: flatOfCells cells).length = 1 + 2 * cells.length := by
  simp [flatOfCells_length]; omega

/-- the loop of `_t_eval`, read structurally: the steps one after the other,
    step number `k` applied to the current value in the current state -/
def stepsEval (F : Facts) (prim : Prim V S) (target : V) (f : Obj V → Run S Err (AV V)) :
    List (String × Obj V) → Nat → S → V → Except Err V × S
  | [], _, s, cur => (.ok cur, s)
  | (c, a) :: rest, k, s, cur =>
    match stepOp F prim target k c s cur (f a) with
    | (.ok v, s2) => stepsEval F prim target f rest (k + 1) s2 v
    | (.error e, s2) => (.error e, s2)

/-- the loop on the flat tuple, started at the op slot of step `pre.length`, is
    the structural evaluation of the remaining steps (`i // 2` is the step number) -/
theorem tLoop_eq_steps (F : Facts) (prim : Prim V S) (target : V) (f : Obj V → Run S Err (AV V))
    (root : Obj V) (rest : List (String × Obj V)) :
    ∀ (pre : List (String × Obj V)) (s : S) (cur : V),
    tLoop F prim (root :: flatOfCells (pre ++ rest)) ((root :: flatOfCells (pre ++ rest)).map f)
        target (1 + 2 * pre.length) s cur =
      stepsEval F prim target f rest pre.length s cur := by
  induction rest with
  | nil =>
    intro pre s cur
    rw [tLoop]
    simp only [List.append_nil]
    have : ¬ (1 + 2 * pre.length < (root :: flatOfCells pre).length) := by
      rw [flat_length]; simp
    simp only [this, dite_false, stepsEval]
  | cons st rest ih =>
    obtain ⟨c, a⟩ := st
    intro pre s cur
    have hlt : 1 + 2 * pre.length < (root :: flatOfCells (pre ++ (c, a) :: rest)).length := by
      rw [flat_length]; simp
    rw [tLoop]
    simp only [hlt, dite_true, flat_get_op, List.getElem?_map, flat_get_arg, Option.map_some]
    have hdiv : (1 + 2 * pre.length) / 2 = pre.length := by omega
    rw [hdiv]
    simp only [stepsEval]
    cases hb : stepOp F prim target pre.length c s cur (f a) with
    | mk r2 s2 =>
      cases r2 with
      | error e => rfl
      | ok v =>
        simp only
        have := ih (pre ++ [(c, a)]) s2 v
        simp only [List.append_assoc, List.singleton_append, List.length_append,
          List.length_singleton] at this
        rw [show 1 + 2 * pre.length + 2 = 1 + 2 * (pre.length + 1) by omega, this]

/-! ### a recorded op char is dispatched to the operation its dunder denotes -/

/-- how `_t_eval` reports the outcome of applying operation number `k` directly in state `s` -/
def stepOut (F : Facts) (k : Nat) (kind : Kind) (s : S) (r : Option (Except PyExc V × S)) :
    Except Err V × S :=
  match r with
  | none => (.error .unsupported, s)
  | some (.ok v, s1) => (.ok v, s1)
  | some (.error e, s1) => (.error (errOf F (.opFail k kind e)), s1)

theorem recorded_wf {F : Facts} (hwf : WF F = true) {d c : String} (hc : charOf F d = some c) :
    ∃ kind ks caught, meaning d = some kind ∧ dispatchOf F c = some (ks, caught) ∧
      Kind.ofString ks = kind ∧ caughtOfKind F kind = caught := by
  simp only [WF, Bool.and_eq_true] at hwf
  have hnd := hwf.1.1.1.1.1.1
  simp only [noDroppedOp, List.all_eq_true] at hnd
  simp only [charOf, Option.map_eq_some_iff] at hc
  obtain ⟨⟨d', c'⟩, hfind, hc'⟩ := hc
  simp only at hc'; subst hc'
  have hmem := List.mem_of_find?_eq_some hfind
  have hd := List.find?_some hfind
  simp only [beq_iff_eq] at hd; subst hd
  have := hnd _ hmem
  simp only at this
  split at this
  · rename_i kind ks caught hm hdsp
    simp only [Bool.and_eq_true, beq_iff_eq] at this
    exact ⟨kind, ks, caught, hm, hdsp, this.1, this.2⟩
  · contradiction

/-- the characters exempted from `arg_val` in the loop are the call branch's, and only they -/
theorem callChar_wf {F : Facts} (hwf : WF F = true) {c ks : String} {caught : List String}
    (hd : dispatchOf F c = some (ks, caught)) :
    (Kind.ofString ks == .call) = F.argExempt.contains c := by
  simp only [WF, Bool.and_eq_true] at hwf
  have hcc := hwf.1.1.1.1.2
  simp only [callCharOk, Bool.and_eq_true, List.all_eq_true] at hcc
  have hcc := hcc.1.2
  simp only [dispatchOf, Option.map_eq_some_iff] at hd
  obtain ⟨⟨c', ks', caught'⟩, hfind, heq⟩ := hd
  simp only [Prod.mk.injEq] at heq
  obtain ⟨rfl, rfl⟩ := heq
  have hmem := List.mem_of_find?_eq_some hfind
  have hc := List.find?_some hfind
  simp only [beq_iff_eq] at hc; subst hc
  have := hcc _ hmem
  simpa using this

/-- `hcallee`: the `arg_val` pass of `Call.glomit` over the already evaluated callee
    returns it (a callable is a literal in argument mode; the callee is not a glom spec
    object stored inside the target's data) -/
def PlainCallee (prim : Prim V S) : Prop :=
  ∀ s t f, prim.revalFunc s t f = (.ok f, s)

theorem plainCallee_eq {prim : Prim V S} (h : PlainCallee prim) : prim.revalFunc = plainRV := by
  funext s t f; exact h s t f

/-- the type tests of `_ArgValuator.mode` are exact and name the documented containers -/
theorem argMode_wf {F : Facts} (hwf : WF F = true) :
    (∀ base, F.argInst.contains base = false) ∧
    rebuilds F "list" = true ∧ rebuilds F "tuple" = true ∧ rebuilds F "dict" = true ∧
    (∀ t, rebuilds F t = rebuiltTypes.contains t) := by
  simp only [WF, Bool.and_eq_true] at hwf
  have ham := hwf.1.1.1.2
  simp only [argModeOk, Bool.and_eq_true, List.isEmpty_iff, List.all_eq_true] at ham
  have hall := ham.1.2
  have hinst : ∀ base, F.argInst.contains base = false := fun base => by rw [ham.1.1.2]; rfl
  have hreb : ∀ t, rebuilds F t = rebuiltTypes.contains t := by
    intro t
    simp only [rebuilds, hinst, Bool.or_false]
    cases h1 : F.argExact.contains t with
    | true =>
      have := ham.2 t (by simpa using h1)
      exact this.symm
    | false =>
      cases h2 : rebuiltTypes.contains t with
      | false => rfl
      | true =>
        have := hall t (by simpa using h2)
        rw [h1] at this; cases this
  refine ⟨hinst, ?_, ?_, ?_, hreb⟩ <;> rw [hreb] <;> rfl

theorem guarded_eq (F : Facts) (k : Nat) (kind : Kind) (caught : List String) (s : S)
    (hc : caughtOfKind F kind = caught) (r : Except PyExc V × S) :
    guarded F caught k r = stepOut F k kind s (some r) := by
  obtain ⟨r, s1⟩ := r
  cases r with
  | ok v => rfl
  | error e => simp only [guarded, guardE, stepOut, errOf, hc]; split <;> rfl

/-- one iteration of the loop body = (for a call: pass the callee through `arg_val`, then)
    evaluate the argument, then apply the operation the dunder denotes -/
theorem stepOp_eq (F : Facts) (hwf : WF F = true) (prim : Prim V S)
    (target : V) (k : Nat) (c : String) (s : S) (cur : V) (ev : Run S Err (AV V)) (kind : Kind)
    (ks : String) (caught : List String) (hd : dispatchOf F c = some (ks, caught))
    (hk : Kind.ofString ks = kind) (hc : caughtOfKind F kind = caught) :
    stepOp F prim target k c s cur ev =
      match calleeOf (some kind) (fun s f => prim.revalFunc s target f) s cur with
      | (.error e, s0) => (.error e, s0)
      | (.ok f, s0) =>
        match ev s0 with
        | (.error e, s1) => (.error e, s1)
        | (.ok av, s1) => stepOut F k kind s1 (pyApply prim kind s1 f av) := by
  have hcc := callChar_wf hwf hd
  rw [hk] at hcc
  unfold stepOp
  by_cases hch : F.argExempt.contains c = true
  · have hkc : kind = .call := by rw [hch] at hcc; simpa using hcc
    subst hkc
    simp only [hch, if_true, hd, hk, calleeOf, beq_self_eq_true]
    cases hrv : prim.revalFunc s target cur with
    | mk rf s0 =>
      cases rf with
      | error e => rfl
      | ok f =>
        simp only
        cases hev : ev s0 with
        | mk r s1 =>
          cases r with
          | error e => rfl
          | ok av =>
            cases av with
            | val v => rfl
            | call args kwargs => simp only [pyApply, guarded_eq F k .call caught s1 hc]
  · have hne : (kind == Kind.call) = false := by
      rw [hcc]; simpa using hch
    have hne' : (some kind == some Kind.call) = false := by
      cases kind <;> first | (simp at hne; done) | rfl
    simp only [hch, calleeOf, hne', Bool.false_eq_true, if_false]
    cases hev : ev s with
    | mk r s1 =>
      cases r with
      | error e => rfl
      | ok av =>
        simp only
        unfold applyBranch
        simp only [hd, hk]
        cases kind <;> cases av <;>
          first
          | (simp at hne; done)
          | (simp only [pyApply, guarded_eq F k _ caught s1 hc]; done)
          | (simp only [pyApply]; rfl)
          | rfl

/-! ### lists of optional / exceptional results -/

/-- pointwise relation of two lists (core has no `Forall₂`) -/
inductive All2 {α β} (R : α → β → Prop) : List α → List β → Prop where
  | nil : All2 R [] []
  | cons {x y xs ys} : R x y → All2 R xs ys → All2 R (x :: xs) (y :: ys)

theorem allSome_forall2 {α β} (f : α → Option β) :
    ∀ (xs : List α) (ys : List β), allSome (xs.map f) = some ys →
      All2 (fun x y => f x = some y) xs ys := by
  intro xs
  induction xs with
  | nil => intro ys h; simp [allSome] at h; subst h; exact .nil
  | cons x r ih =>
    intro ys h
    simp only [List.map_cons] at h
    cases hx : f x with
    | none => rw [hx] at h; simp [allSome] at h
    | some y =>
      rw [hx] at h
      simp only [allSome] at h
      cases hr : allSome (r.map f) with
      | none => rw [hr] at h; simp at h
      | some l =>
        rw [hr] at h; simp at h; subst h
        exact .cons hx (ih l hr)

theorem map_eq_of_forall2 {α β γ} {R : α → β → Prop} {g : β → γ} {h : α → γ} {xs : List α}
    {ys : List β} (hr : All2 R xs ys) (hgh : ∀ x ∈ xs, ∀ y, R x y → g y = h x) :
    ys.map g = xs.map h := by
  induction hr with
  | nil => rfl
  | cons hxy _ ih =>
    simp only [List.map_cons]
    rw [hgh _ (by simp) _ hxy, ih (fun x hx y hxy' => hgh x (by simp [hx]) y hxy')]

theorem seqRun_map_outRun (F : Facts) {α} (rs : List (Run S RefErr α)) :
    seqRun (rs.map (outRun F)) = outRun F (seqRun rs) := by
  funext s
  induction rs generalizing s with
  | nil => rfl
  | cons r rest ih =>
    simp only [List.map_cons, seqRun, outRun, outS]
    cases hr : r s with
    | mk x s1 =>
      cases x with
      | error e => rfl
      | ok a =>
        simp only [outOf]
        rw [ih s1]
        simp only [outRun, outS]
        cases hq : seqRun rest s1 with
        | mk y s2 => cases y <;> rfl

theorem valOfRun_outRun (F : Facts) (f : Run S RefErr (AV V)) :
    valOfRun (outRun F f) = outRun F (refValRun f) := by
  funext s
  simp only [valOfRun, outRun, outS, refValRun]
  cases hr : f s with
  | mk x s1 =>
    cases x with
    | error e => rfl
    | ok av => cases av <;> rfl

theorem valsOf_outRun (F : Facts) (rs : List (Run S RefErr (AV V))) :
    valsOf (rs.map (outRun F)) = outRun F (refVals rs) := by
  unfold valsOf refVals
  rw [← seqRun_map_outRun]
  simp only [List.map_map]
  congr 1
  apply List.map_congr_left
  intro r _
  exact valOfRun_outRun F r

/-! ### the main induction: replaying the recorded object = applying the chain directly -/

/-- what `record` does to one step -/
def recStep (F : Facts) (pyNone : V) (s : String × E V) : Option (String × Obj V) :=
  match charOf F s.1 with
  | none => none
  | some c =>
    if arglessDunders.contains s.1 then some (c, Obj.lit pyNone)
    else match record F pyNone s.2 with
      | some a => some (c, a)
      | none => none

/-- what the reference semantics feeds to `foldSteps` for one step -/
def refStep (prim : Prim V S) (rv : RV V S) (target : V) (st : String × E V) :
    Option Kind × Run S RefErr (AV V) :=
  (meaning st.1, if arglessDunders.contains st.1 then (fun s => (.ok (.val prim.none), s))
                 else refArg prim rv target st.2)

theorem stepsEval_eq_fold (F : Facts) (hwf : WF F = true) (prim : Prim V S) (target : V)
    {steps : List (String × E V)} {cells : List (String × Obj V)}
    (h2 : All2 (fun st cell => recStep F prim.none st = some cell) steps cells)
    (ih : ∀ st ∈ steps, ∀ o, record F prim.none st.2 = some o →
        argVal F prim target o = outRun F (refArg prim prim.revalFunc target st.2)) :
    ∀ (k : Nat) (s : S) (cur : V),
      stepsEval F prim target (argVal F prim target) cells k s cur =
        outS F (foldSteps prim (fun s f => prim.revalFunc s target f)
          (steps.map (refStep prim prim.revalFunc target)) k s cur) := by
  induction h2 with
  | nil => intro k s cur; rfl
  | @cons st cell steps cells hs _ ih2 =>
    intro k s cur
    obtain ⟨d, a⟩ := st
    obtain ⟨c, ao⟩ := cell
    simp only [recStep] at hs
    cases hc : charOf F d with
    | none => rw [hc] at hs; simp at hs
    | some c' =>
      rw [hc] at hs
      simp only at hs
      obtain ⟨kind, ks, caught, hm, hd, hk, hcg⟩ := recorded_wf hwf hc
      have hav : argVal F prim target ao = outRun F (refStep prim prim.revalFunc target (d, a)).2 := by
        simp only [refStep]
        split at hs
        · rename_i hargless
          simp only [Option.some.injEq, Prod.mk.injEq] at hs
          obtain ⟨_, rfl⟩ := hs
          simp only [hargless, if_true]
          rw [argVal]; rfl
        · rename_i hargless
          simp only [hargless]
          cases hr : record F prim.none a with
          | none => rw [hr] at hs; simp at hs
          | some a' =>
            rw [hr] at hs
            simp only [Option.some.injEq, Prod.mk.injEq] at hs
            obtain ⟨_, rfl⟩ := hs
            simpa using ih (d, a) (by simp) _ hr
      have hcc : c' = c := by
        split at hs
        · simp only [Option.some.injEq, Prod.mk.injEq] at hs; exact hs.1
        · cases hr : record F prim.none a with
          | none => rw [hr] at hs; simp at hs
          | some a' => rw [hr] at hs; simp only [Option.some.injEq, Prod.mk.injEq] at hs; exact hs.1
      subst hcc
      simp only [stepsEval, List.map_cons, foldSteps, hav]
      have hfst : (refStep prim prim.revalFunc target (d, a)).1 = some kind := by simp [refStep, hm]
      rw [hfst]
      rw [stepOp_eq F hwf prim target k c' s cur _ kind ks caught hd hk hcg]
      simp only [outRun, outS]
      cases hcal : calleeOf (some kind) (fun s f => prim.revalFunc s target f) s cur with
      | mk rf s0 =>
        cases rf with
        | error e => rfl
        | ok f =>
          simp only
          cases hra : (refStep prim prim.revalFunc target (d, a)).2 s0 with
          | mk x s1 =>
            cases x with
            | error e => rfl
            | ok av =>
              simp only [outOf]
              cases hp : pyApply prim kind s1 f av with
              | none => rfl
              | some r =>
                obtain ⟨r, s2⟩ := r
                cases r with
                | error e => rfl
                | ok v =>
                  simp only [stepOut]
                  exact ih2 (fun st hst => ih st (by simp [hst])) (k + 1) s2 v

theorem record_texpr (F : Facts) (pyNone : V) (steps : List (String × E V)) :
    record F pyNone (.texpr steps) =
      match allSome (steps.map (recStep F pyNone)) with
      | some cells => some (.tt (.root "T" :: flatOfCells cells))
      | none => none := by
  rw [record]; rfl

theorem refArg_texpr (prim : Prim V S) (rv : RV V S) (target : V) (steps : List (String × E V)) (s : S) :
    refArg prim rv target (.texpr steps) s =
      match foldSteps prim (fun s f => rv s target f) (steps.map (refStep prim rv target)) 0 s target with
      | (.ok v, s1) => (.ok (.val v), s1)
      | (.error e, s1) => (.error e, s1) := by
  rw [refArg]; rfl

theorem refEval_texpr (prim : Prim V S) (rv : RV V S) (target : V) (steps : List (String × E V)) (s : S) :
    refEval prim rv (.texpr steps) target s =
      foldSteps prim (fun s f => rv s target f) (steps.map (refStep prim rv target)) 0 s target := by
  unfold refEval
  rw [refArg_texpr]
  cases h : foldSteps prim (fun s f => rv s target f) (steps.map (refStep prim rv target)) 0 s target with
  | mk x s1 => cases x <;> rfl

theorem argVal_tt_T (F : Facts) (prim : Prim V S) (target : V) (cells : List (String × Obj V))
    (s : S) :
    argVal F prim target (.tt (.root "T" :: flatOfCells cells)) s =
      match stepsEval F prim target (argVal F prim target) cells 0 s target with
      | (.ok v, s1) => (.ok (.val v), s1)
      | (.error e, s1) => (.error e, s1) := by
  rw [argVal]
  simp only [tRun]
  have := tLoop_eq_steps F prim target (argVal F prim target) (.root "T") cells [] s target
  simp only [List.nil_append, List.length_nil, Nat.mul_zero, Nat.add_zero] at this
  rw [this]
  rfl

theorem argVal_lit (F : Facts) (prim : Prim V S) (target : V) (v : V) (s : S) :
    argVal F prim target (.lit v) s = (.ok (.val v), s) := by
  rw [argVal]

theorem argVal_cargs (F : Facts) (prim : Prim V S) (target : V) (args : List (Obj V))
    (kwargs : List (String × Obj V)) (s : S) :
    argVal F prim target (.cargs args kwargs) s =
      match valsOf (args.map (fun a => argVal F prim target a)) s with
      | (.error e, s1) => (.error e, s1)
      | (.ok as, s1) =>
        match seqRun (kwargs.map (fun p => kwOfRun p.1 (argVal F prim target p.2))) s1 with
        | (.ok ks, s2) => (.ok (.call as ks), s2)
        | (.error e, s2) => (.error e, s2) := by
  rw [argVal]
  rfl

theorem kwOfRun_outRun (F : Facts) (k : String) (f : Run S RefErr (AV V)) :
    kwOfRun k (outRun F f) = outRun F (refKwRun k f) := by
  funext s
  simp only [kwOfRun, outRun, outS, refKwRun]
  cases hr : f s with
  | mk x s1 =>
    cases x with
    | error e => rfl
    | ok av => cases av <;> rfl

theorem pairRun_outRun (F : Facts) {α β} (a : Run S RefErr α) (b : Run S RefErr β) :
    pairRun (outRun F a) (outRun F b) = outRun F (pairRun a b) := by
  funext s
  simp only [pairRun, outRun, outS]
  cases ha : a s with
  | mk x s1 =>
    cases x with
    | error e => rfl
    | ok xa =>
      simp only [outOf]
      cases hb : b s1 with
      | mk y s2 => cases y <;> rfl

theorem entryRun_outRun (F : Facts) (prim : Prim V S) (a b : Run S RefErr V) :
    entryRun prim (outRun F a) (outRun F b) = outRun F (refEntryRun prim a b) := by
  funext s
  simp only [entryRun, pairRun_outRun]
  simp only [outRun, outS, refEntryRun]
  cases hp : pairRun a b s with
  | mk x s1 =>
    cases x with
    | error e => rfl
    | ok kv =>
      simp only [outOf]
      cases hh : (prim.hashKey s1 kv.1).1 <;> rfl

/-- `record` never turns anything but a `T` expression into a `TType` object -/
theorem record_tt_inv (F : Facts) (pyNone : V) (e : E V) (ops : List (Obj V))
    (h : record F pyNone e = some (.tt ops)) : ∃ steps, e = .texpr steps := by
  cases e with
  | texpr steps => exact ⟨steps, rfl⟩
  | lit v => rw [record] at h; cases h
  | spec e => rw [record] at h; cases hr : record F pyNone e <;> rw [hr] at h <;> simp at h
  | list xs => rw [record] at h; cases hr : allSome (xs.map (fun x => record F pyNone x)) <;>
      rw [hr] at h <;> simp at h
  | tuple xs => rw [record] at h; cases hr : allSome (xs.map (fun x => record F pyNone x)) <;>
      rw [hr] at h <;> simp at h
  | dict es =>
    rw [record] at h
    simp only [Option.map_eq_some_iff] at h
    obtain ⟨_, _, h⟩ := h
    cases h
  | cargs args kwargs =>
    rw [record] at h
    split at h <;> cases h
  | set ty xs =>
    rw [record] at h
    simp only [Option.map_eq_some_iff] at h
    obtain ⟨_, _, h⟩ := h
    cases h
  | sub base v items =>
    rw [record] at h
    simp only [Option.map_eq_some_iff] at h
    obtain ⟨_, _, h⟩ := h
    cases h

theorem argVal_spec_nontt (F : Facts) (prim : Prim V S) (target : V) (o : Obj V)
    (h : ∀ ops, o ≠ .tt ops) :
    argVal F prim target (.spec o) = fun s => (.error .unsupported, s) := by
  cases o with
  | tt ops => exact absurd rfl (h ops)
  | _ => rw [argVal] <;> simp

theorem refArg_spec_nontexpr (prim : Prim V S) (rv : RV V S) (target : V) (e : E V)
    (h : ∀ steps, e ≠ .texpr steps) :
    refArg prim rv target (.spec e) = fun s => (.error .unsupported, s) := by
  cases e with
  | texpr steps => exact absurd rfl (h steps)
  | _ => rw [refArg] <;> simp

theorem argVal_sub_exact (F : Facts) (prim : Prim V S) (target : V) (base : String) (v : V)
    (items : List (Obj V)) (h : F.argInst.contains base = false) :
    argVal F prim target (.sub base v items) = fun s => (.ok (.val v), s) := by
  rw [argVal]; simp only [h, Bool.false_eq_true, if_false]

/-- **the main induction**, without any hypothesis on the callee: replaying the recorded object
    is applying the chain directly, where the callee of every call is first passed through
    `arg_val` (`prim.revalFunc`) -/
theorem argVal_record (F : Facts) (hwf : WF F = true) (prim : Prim V S) (target : V) :
    ∀ (e : E V) (o : Obj V), record F prim.none e = some o →
      argVal F prim target o = outRun F (refArg prim prim.revalFunc target e) := by
  obtain ⟨hinst, hrl, hrt, hrd, hreb⟩ := argMode_wf hwf
  intro e
  induction e using E.induct with
  | lit v =>
    intro o h
    rw [record] at h; cases h
    rw [argVal, refArg]; rfl
  | texpr steps ih =>
    intro o h
    rw [record_texpr] at h
    cases hc : allSome (steps.map (recStep F prim.none)) with
    | none => rw [hc] at h; simp at h
    | some cells =>
      rw [hc] at h
      simp only [Option.some.injEq] at h; subst h
      funext s
      simp only [outRun]
      rw [argVal_tt_T, refArg_texpr,
        stepsEval_eq_fold F hwf prim target (allSome_forall2 _ _ _ hc) ih 0 s target]
      cases hq : foldSteps prim (fun s f => prim.revalFunc s target f)
        (steps.map (refStep prim prim.revalFunc target)) 0 s target with
      | mk x s1 => cases x <;> rfl
  | spec e ih =>
    intro o h
    rw [record] at h
    cases hr : record F prim.none e with
    | none => rw [hr] at h; simp at h
    | some o' =>
      rw [hr] at h
      simp only [Option.map_some, Option.some.injEq] at h; subst h
      by_cases htt : ∃ ops, o' = .tt ops
      · obtain ⟨ops, rfl⟩ := htt
        obtain ⟨steps, rfl⟩ := record_tt_inv F prim.none e ops hr
        rw [argVal, refArg]
        exact ih _ hr
      · have hne : ∀ steps, e ≠ .texpr steps := by
          intro steps he; subst he
          rw [record_texpr] at hr
          split at hr
          · simp only [Option.some.injEq] at hr; exact htt ⟨_, hr.symm⟩
          · cases hr
        rw [argVal_spec_nontt F prim target o' (fun ops h => htt ⟨ops, h⟩),
          refArg_spec_nontexpr prim prim.revalFunc target e hne]
        rfl
  | list xs ih =>
    intro o h
    rw [record] at h
    cases hc : allSome (xs.map (fun x => record F prim.none x)) with
    | none => rw [hc] at h; simp at h
    | some os =>
      rw [hc] at h; simp only [Option.map_some, Option.some.injEq] at h; subst h
      have hmap := map_eq_of_forall2 (g := fun a => argVal F prim target a)
        (h := fun x => outRun F (refArg prim prim.revalFunc target x)) (allSome_forall2 _ _ _ hc)
        (fun x hx y hxy => ih x hx y hxy)
      have hmm : xs.map (fun x => outRun F (refArg prim prim.revalFunc target x)) =
          (xs.map (fun x => refArg prim prim.revalFunc target x)).map (outRun F) := by
        rw [List.map_map]; rfl
      funext s
      rw [argVal, refArg, hmap, hmm, valsOf_outRun]
      simp only [hrl, if_true, outRun, outS]
      cases hq : refVals (xs.map (fun x => refArg prim prim.revalFunc target x)) s with
      | mk x s1 => cases x <;> rfl
  | tuple xs ih =>
    intro o h
    rw [record] at h
    cases hc : allSome (xs.map (fun x => record F prim.none x)) with
    | none => rw [hc] at h; simp at h
    | some os =>
      rw [hc] at h; simp only [Option.map_some, Option.some.injEq] at h; subst h
      have hmap := map_eq_of_forall2 (g := fun a => argVal F prim target a)
        (h := fun x => outRun F (refArg prim prim.revalFunc target x)) (allSome_forall2 _ _ _ hc)
        (fun x hx y hxy => ih x hx y hxy)
      have hmm : xs.map (fun x => outRun F (refArg prim prim.revalFunc target x)) =
          (xs.map (fun x => refArg prim prim.revalFunc target x)).map (outRun F) := by
        rw [List.map_map]; rfl
      funext s
      rw [argVal, refArg, hmap, hmm, valsOf_outRun]
      simp only [hrt, if_true, outRun, outS]
      cases hq : refVals (xs.map (fun x => refArg prim prim.revalFunc target x)) s with
      | mk x s1 => cases x <;> rfl
  | dict es ih =>
    intro o h
    rw [record] at h
    obtain ⟨os, hc, rfl⟩ := Option.map_eq_some_iff.mp h
    have hmap := map_eq_of_forall2
      (g := fun (p : Obj V × Obj V) =>
        entryRun prim (valOfRun (argVal F prim target p.1)) (valOfRun (argVal F prim target p.2)))
      (h := fun (p : E V × E V) => outRun F
        (refEntryRun prim (refValRun (refArg prim prim.revalFunc target p.1))
          (refValRun (refArg prim prim.revalFunc target p.2))))
      (allSome_forall2 _ _ _ hc)
      (fun p hp q hpq => by
        simp only [pairOpt] at hpq
        split at hpq
        · rename_i a b ha hb
          simp only [Option.some.injEq] at hpq; subst hpq
          simp only
          rw [(ih p hp).1 a ha, (ih p hp).2 b hb, valOfRun_outRun, valOfRun_outRun,
            entryRun_outRun]
        · cases hpq)
    have hmm : es.map (fun (p : E V × E V) => outRun F
          (refEntryRun prim (refValRun (refArg prim prim.revalFunc target p.1))
            (refValRun (refArg prim prim.revalFunc target p.2)))) =
        (es.map (fun (p : E V × E V) =>
          refEntryRun prim (refValRun (refArg prim prim.revalFunc target p.1))
            (refValRun (refArg prim prim.revalFunc target p.2)))).map
          (outRun F) := by rw [List.map_map]; rfl
    funext s
    rw [argVal, refArg, hmap, hmm, seqRun_map_outRun]
    simp only [hrd, if_true, outRun, outS]
    cases hq : seqRun (es.map (fun p =>
      refEntryRun prim (refValRun (refArg prim prim.revalFunc target p.1))
        (refValRun (refArg prim prim.revalFunc target p.2)))) s with
    | mk x s1 =>
      cases x with
      | error e => rfl
      | ok kvs =>
        simp only [outOf]
        cases hm : (prim.mkDict s1 kvs).1 <;> rfl
  | set ty xs ih =>
    intro o h
    rw [record] at h
    obtain ⟨os, hc, rfl⟩ := Option.map_eq_some_iff.mp h
    have hmap := map_eq_of_forall2 (g := fun a => argVal F prim target a)
      (h := fun x => outRun F (refArg prim prim.revalFunc target x)) (allSome_forall2 _ _ _ hc)
      (fun x hx y hxy => ih x hx y hxy)
    have hmm : xs.map (fun x => outRun F (refArg prim prim.revalFunc target x)) =
        (xs.map (fun x => refArg prim prim.revalFunc target x)).map (outRun F) := by
      rw [List.map_map]; rfl
    rw [argVal, refArg, hmap, hmm, valsOf_outRun, hreb ty]
    cases hty : rebuiltTypes.contains ty with
    | false => rfl
    | true =>
      funext s
      simp only [if_true, outRun, outS]
      cases hq : refVals (xs.map (fun x => refArg prim prim.revalFunc target x)) s with
      | mk x s1 =>
        cases x with
        | error e => rfl
        | ok vs =>
          simp only [outOf]
          cases hm : (prim.mkSet s1 ty vs).1 <;> rfl
  | cargs args kwargs iha ihk =>
    intro o h
    rw [record] at h
    split at h
    · rename_i as ks hca hck
      simp only [Option.some.injEq] at h; subst h
      have hmapa := map_eq_of_forall2 (g := fun a => argVal F prim target a)
        (h := fun x => outRun F (refArg prim prim.revalFunc target x)) (allSome_forall2 _ _ _ hca)
        (fun x hx y hxy => iha x hx y hxy)
      have hmapk := map_eq_of_forall2
        (g := fun (p : String × Obj V) => kwOfRun p.1 (argVal F prim target p.2))
        (h := fun (p : String × E V) => outRun F (refKwRun p.1 (refArg prim prim.revalFunc target p.2)))
        (allSome_forall2 _ _ _ hck)
        (fun p hp q hpq => by
          simp only [Option.map_eq_some_iff] at hpq
          obtain ⟨a, ha, rfl⟩ := hpq
          simp only
          rw [ihk p hp a ha, kwOfRun_outRun])
      have hmma : args.map (fun x => outRun F (refArg prim prim.revalFunc target x)) =
          (args.map (fun x => refArg prim prim.revalFunc target x)).map (outRun F) := by
        rw [List.map_map]; rfl
      have hmmk : kwargs.map (fun (p : String × E V) =>
            outRun F (refKwRun p.1 (refArg prim prim.revalFunc target p.2))) =
          (kwargs.map (fun (p : String × E V) => refKwRun p.1 (refArg prim prim.revalFunc target p.2))).map
            (outRun F) := by rw [List.map_map]; rfl
      funext s
      rw [argVal, refArg, hmapa, hmapk, hmma, valsOf_outRun, hmmk, seqRun_map_outRun]
      simp only [outRun, outS]
      cases hq : refVals (args.map (fun x => refArg prim prim.revalFunc target x)) s with
      | mk x s1 =>
        cases x with
        | error e => rfl
        | ok vs =>
          simp only [outOf]
          cases hq2 : seqRun (kwargs.map (fun p => refKwRun p.1 (refArg prim prim.revalFunc target p.2))) s1 with
          | mk y s2 => cases y <;> rfl
    · cases h
  | sub base v items _ =>
    intro o h
    rw [record] at h
    obtain ⟨os, _, rfl⟩ := Option.map_eq_some_iff.mp h
    rw [argVal_sub_exact F prim target base v os (hinst base), refArg]
    rfl

/-! ### consequences of `kindsOk` -/

theorem mem_allKinds (kind : Kind) : kind ∈ allKinds := by
  cases kind with
  | bin b => cases b <;> simp [allKinds]
  | un u => cases u <;> simp [allKinds]
  | _ => simp [allKinds]

theorem kindsOk_of_wf {F : Facts} (hwf : WF F = true) (kind : Kind) :
    (∀ n ∈ docCaught kind, caughtBy F (caughtOfKind F kind) ⟨n⟩ = true) ∧
    (kind = .call → caughtOfKind F kind = []) := by
  simp only [WF, Bool.and_eq_true] at hwf
  have hk := hwf.1.1.1.1.1.2
  simp only [kindsOk, List.all_eq_true, Bool.and_eq_true, Bool.or_eq_true] at hk
  have := hk kind (mem_allKinds kind)
  refine ⟨this.1, fun hc => ?_⟩
  rcases this.2 with h | h
  · subst hc; simp at h
  · simpa using h

/-- a documented class is reported as a PathAccessError at the step's position;
    a failing call keeps its exception -/
theorem errOf_opFail {F : Facts} (hwf : WF F = true) (k : Nat) (kind : Kind) (e : PyExc) :
    (documented kind e = true → errOf F (.opFail k kind e) = .pae k e) ∧
    (kind = .call → errOf F (.opFail k kind e) = .raised e) := by
  obtain ⟨hdoc, hcall⟩ := kindsOk_of_wf hwf kind
  constructor
  · intro hd
    simp only [documented, List.contains_eq_mem, decide_eq_true_eq] at hd
    have := hdoc _ hd
    simp only [errOf]
    rw [show e = ⟨e.cls⟩ from rfl, this]; rfl
  · intro hc
    simp only [errOf, hcall hc, caughtBy, List.any_nil]
    rfl

theorem foldSteps_append (prim : Prim V S) (rv : S → V → Except Err V × S)
    (l1 l2 : List (Option Kind × Run S RefErr (AV V))) :
    ∀ (k : Nat) (s : S) (cur : V), foldSteps prim rv (l1 ++ l2) k s cur =
      match foldSteps prim rv l1 k s cur with
      | (.error e, s1) => (.error e, s1)
      | (.ok v, s1) => foldSteps prim rv l2 (k + l1.length) s1 v := by
  induction l1 with
  | nil => intro k s cur; simp [foldSteps]
  | cons st r ih =>
    intro k s cur
    obtain ⟨kd, ra⟩ := st
    simp only [List.cons_append, foldSteps, List.length_cons]
    cases hcal : calleeOf kd rv s cur with
    | mk rf s0 =>
      cases rf with
      | error e => rfl
      | ok f =>
        simp only
        cases hra : ra s0 with
        | mk x s1 =>
          cases x with
          | error e => rfl
          | ok av =>
            cases kd with
            | none => rfl
            | some kind =>
              simp only
              cases hp : pyApply prim kind s1 f av with
              | none => rfl
              | some r' =>
                obtain ⟨r', s2⟩ := r'
                cases r' with
                | error e => rfl
                | ok v => simp only; rw [ih]; rw [show k + 1 + r.length = k + (r.length + 1) by omega]

end Glom.C02
