import Glom.Lemmas.C17
/-
  C17 — the reference list functions of `Spec/C17.lean` against descriptions that do not share their
  recursion: element-wise (`slice`, `chunked`, `windowed`), by first occurrence (`unique`), by what the
  groups contain (`split`).
-/
namespace Glom.C17

/-! ### slice: the `i`-th output is the item at `start + i * step`, below `stop` -/

theorem stepAux_getElem? (step : Nat) (hstep : 1 ≤ step) : ∀ (l : List V) (c i : Nat),
    (stepAux step c l)[i]? = l[c + i * step]? := by
  intro l
  induction l with
  | nil => intro c i; simp [stepAux]
  | cons x xs ih =>
    intro c i
    cases c with
    | zero =>
      cases i with
      | zero => simp [stepAux]
      | succ j =>
        simp only [stepAux, List.getElem?_cons_succ, ih]
        have : 0 + (j + 1) * step = (step - 1 + j * step) + 1 := by
          rw [Nat.succ_mul]; omega
        rw [this, List.getElem?_cons_succ]
    | succ c =>
      simp only [stepAux, ih]
      have : c + 1 + i * step = (c + i * step) + 1 := by omega
      rw [this, List.getElem?_cons_succ]

theorem sliceL_getElem? (a : Nat) (stop : Option Nat) (step : Nat) (hstep : 1 ≤ step) (xs : List V) (i : Nat) :
    (sliceL a stop step xs)[i]? =
      if (match stop with | some s => decide (a + i * step < s) | none => true) then xs[a + i * step]? else none := by
  cases stop with
  | none => simp [sliceL, stepAux_getElem? step hstep]
  | some s =>
    simp only [sliceL, stepAux_getElem? step hstep, List.getElem?_take]
    by_cases h : a + i * step < s <;> simp [h]

/-! ### chunked: the `i`-th chunk is the items `[i * size, (i+1) * size)`, the last one padded -/

theorem chunkedAux_getElem? (size : Nat) (fill : Option V) (hsize : 1 ≤ size) : ∀ (n : Nat) (xs : List V) (i : Nat),
    xs.length ≤ n →
    (chunkedAux size fill n xs)[i]? =
      if i * size < xs.length then some (.list (padTo size fill ((xs.drop (i * size)).take size))) else none := by
  intro n
  induction n with
  | zero =>
    intro xs i h
    have : xs = [] := List.eq_nil_of_length_eq_zero (by omega)
    subst this; simp [chunkedAux]
  | succ n ih =>
    intro xs i h
    cases xs with
    | nil => simp [chunkedAux]
    | cons x r =>
      simp only [chunkedAux, List.isEmpty_cons, Bool.false_eq_true, ↓reduceIte]
      cases i with
      | zero => simp
      | succ j =>
        rw [List.getElem?_cons_succ, ih ((x :: r).drop size) j (by simp only [List.length_drop, List.length_cons] at h ⊢; omega)]
        simp only [List.length_drop, List.drop_drop]
        have h1 : (j + 1) * size = size + j * size := by rw [Nat.succ_mul]; omega
        rw [h1]
        simp only [List.length_cons]
        by_cases hc : j * size < r.length + 1 - size
        · have : size + j * size < r.length + 1 := by omega
          rw [if_pos hc, if_pos this]
        · have : ¬ (size + j * size < r.length + 1) := by omega
          rw [if_neg hc, if_neg this]

theorem chunkedL_getElem? (size : Nat) (fill : Option V) (hsize : 1 ≤ size) (xs : List V) (i : Nat) :
    (chunkedL size fill xs)[i]? =
      if i * size < xs.length then some (.list (padTo size fill ((xs.drop (i * size)).take size))) else none :=
  chunkedAux_getElem? size fill hsize xs.length xs i (Nat.le_refl _)

/-! ### windowed: the `i`-th window is the items `[i, i + size)` -/

theorem windowedL_getElem? (size : Nat) (hsize : 1 ≤ size) : ∀ (xs : List V) (i : Nat),
    (windowedL size xs)[i]? = if i + size ≤ xs.length then some (.tup ((xs.drop i).take size)) else none := by
  intro xs
  induction xs with
  | nil => intro i; simp [windowedL]; omega
  | cons x r ih =>
    intro i
    simp only [windowedL]
    by_cases h : (x :: r).length ≥ size
    · simp only [h, ↓reduceIte]
      simp only [List.length_cons] at h
      cases i with
      | zero => simp; omega
      | succ j =>
        rw [List.getElem?_cons_succ, ih j]
        simp only [List.length_cons, List.drop_succ_cons]
        by_cases hj : j + size ≤ r.length
        · have : j + 1 + size ≤ r.length + 1 := by omega
          simp [hj, this]
        · have : ¬ (j + 1 + size ≤ r.length + 1) := by omega
          simp [hj, this]
    · simp only [h, ↓reduceIte]
      simp only [List.length_cons] at h ⊢
      have : ¬ (i + size ≤ r.length + 1) := by omega
      simp [this]

/-! ### split (one group per separator, no limit): the groups hold exactly the non-separators, in order,
    none of them holds a separator, and there is one more group than there are separators -/

theorem splitL_plain_spec (p : V → Bool) : ∀ (xs : List V) (st : Bool),
    (splitL p false st none xs).flatten = xs.filter (fun x => !p x) ∧
    (splitL p false st none xs).length = xs.countP p + 1 ∧
    ∀ g ∈ splitL p false st none xs, ∀ x ∈ g, p x = false := by
  intro xs
  induction xs with
  | nil => intro st; simp [splitL]
  | cons x r ih =>
    intro st
    by_cases hp : p x = true
    · obtain ⟨h1, h2, h3⟩ := ih true
      have : splitL p false st none (x :: r) = [] :: splitL p false true none r := by
        simp [splitL, hp]
      rw [this]
      refine ⟨by simp [h1, hp], by simp [h2, hp, List.countP_cons], ?_⟩
      intro g hg
      rcases List.mem_cons.mp hg with rfl | hg
      · intro y hy; cases hy
      · exact h3 g hg
    · have hp' : p x = false := by simpa using hp
      obtain ⟨h1, h2, h3⟩ := ih false
      have : splitL p false st none (x :: r) = consHead x (splitL p false false none r) := by
        simp [splitL, hp']
      rw [this]
      rcases hs : splitL p false false none r with _ | ⟨g, gs⟩
      · rw [hs] at h2; simp at h2
      · rw [hs] at h1 h2 h3
        simp only [consHead]
        refine ⟨by simpa [hp'] using h1, by simpa [hp', List.countP_cons] using h2, ?_⟩
        intro g' hg'
        rcases List.mem_cons.mp hg' with rfl | hg'
        · intro y hy
          rcases List.mem_cons.mp hy with rfl | hy
          · exact hp'
          · exact h3 g (List.mem_cons_self ..) y hy
        · exact h3 g' (List.mem_cons_of_mem _ hg')

/-! ### unique: an item is kept iff its key is none of the keys before it -/

theorem filterMap_congr_mem {α β : Type} {f g : α → Option β} : ∀ (l : List α), (∀ a ∈ l, f a = g a) →
    l.filterMap f = l.filterMap g := by
  intro l
  induction l with
  | nil => intro _; rfl
  | cons a l ih =>
    intro h
    simp only [List.filterMap_cons, h a (List.mem_cons_self ..), ih (fun b hb => h b (List.mem_cons_of_mem _ hb))]

theorem uniqueAux_spec : ∀ (l : List (V × V)) (before : List V) (n : Nat),
    uniqueAux before l =
      (l.zipIdx n).filterMap (fun p =>
        if (before ++ (l.take (p.2 - n)).map (·.2)).contains p.1.2 then none else some p.1.1) := by
  intro l
  induction l with
  | nil => intro before n; simp [uniqueAux]
  | cons xk r ih =>
    intro before n
    obtain ⟨x, k⟩ := xk
    simp only [uniqueAux, List.zipIdx_cons, List.filterMap_cons, Nat.sub_self, List.take_zero, List.map_nil,
      List.append_nil]
    have htail : (r.zipIdx (n + 1)).filterMap (fun p =>
          if (before ++ (((x, k) :: r).take (p.2 - n)).map (·.2)).contains p.1.2 then none else some p.1.1) =
        (r.zipIdx (n + 1)).filterMap (fun p =>
          if ((before ++ [k]) ++ (r.take (p.2 - (n + 1))).map (·.2)).contains p.1.2 then none else some p.1.1) := by
      apply filterMap_congr_mem
      intro p hp
      have hge : n + 1 ≤ p.2 := by
        obtain ⟨q, i⟩ := p
        have := List.le_snd_of_mem_zipIdx hp
        exact this
      obtain ⟨d, hd⟩ : ∃ d, p.2 - n = d + 1 := ⟨p.2 - n - 1, by omega⟩
      have hd' : p.2 - (n + 1) = d := by omega
      simp only [hd, hd', List.take_succ_cons, List.map_cons, List.append_assoc, List.singleton_append]
    rw [htail, ← ih (before ++ [k]) (n + 1)]
    by_cases hc : k ∈ before <;> simp [hc]

end Glom.C17
