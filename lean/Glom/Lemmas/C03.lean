import Glom.Spec.C03
import Glom.Lemmas.Hoare
import Glom.Lemmas.MonadLaws
import Glom.Lemmas.C08
/-
  C03 — helper lemmas for the effectful loop laws.
-/
namespace Glom.Interp

section
open ScopeAlg
variable {σ : Type} [ScopeAlg σ]

/-- on sub-spec `s` the evaluator computes the effectful function `g`, at every scope with mode `m`
    and argument flag `a` -/
def EvalOn (rec : Rec σ) (m : Mode) (a : Bool) (s : Spec) (g : V → M V) : Prop :=
  ∀ t (sc : σ), mode sc = m → argMode sc = a → (rec s t sc >>= fun r => pure r.1) = g t

theorem evalOn_apply {rec : Rec σ} {m : Mode} {a : Bool} {s : Spec} {g : V → M V} (h : EvalOn rec m a s g)
    (t : V) (sc : σ) (hm : mode sc = m) (ha : argMode sc = a) (st : St) :
    g t st = (match rec s t sc st with
      | (st', .ok r) => (st', .ok r.1)
      | (st', .error e) => (st', .error e)) := by
  rw [← h t sc hm ha, M.bind_apply]
  rcases rec s t sc st with ⟨st', r⟩
  cases r <;> rfl

end

end Glom.Interp
