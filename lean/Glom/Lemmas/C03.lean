import Glom.Spec.C03
import Glom.Lemmas.Hoare
import Glom.Lemmas.MonadLaws
import Glom.Lemmas.C08
/-
  C03 — helper lemmas for the effectful loop laws.
-/
namespace Glom.Interp

/-- `rec s t sc >>= fun r => k r.1` through the value projection of the evaluator -/
theorem bind_fst {σ : Type} {β : Type} (m : M (V × σ)) (k : V → M β) :
    (m >>= fun r => k r.1) = ((m >>= fun r => pure r.1) >>= k) := by
  simp

theorem logAppend_assoc (st : St) (a b : List Ev) :
    ({ ({ st with log := st.log ++ a } : St) with log := ({ st with log := st.log ++ a } : St).log ++ b } : St) =
      { st with log := st.log ++ (a ++ b) } := by
  simp [List.append_assoc]

theorem logAppend_nil (st : St) : ({ st with log := st.log ++ [] } : St) = st := by
  simp

end Glom.Interp
