import Glom.Spec.C15
import Glom.Spec.C15Lazy
import Glom.Lemmas.C13
/-
  Helper lemmas for C15: heap frames, stability of every read of an input
  object under allocation / mutation of fresh cells, the loop invariants.
-/
set_option linter.unusedSimpArgs false
set_option linter.unusedVariables false

namespace Glom.C15
open Glom

/-! ### frames -/

/-- `h'` keeps every cell of `h` below `n` -/
def Frame (n : Nat) (h h' : Heap) : Prop := n ≤ h'.length ∧ ∀ a, a < n → h'[a]? = h[a]?

theorem Frame.rfl' {n : Nat} {h : Heap} (hn : n ≤ h.length) : Frame n h h := ⟨hn, fun _ _ => rfl⟩

theorem Frame.trans {n m : Nat} {h h1 h2 : Heap} (f1 : Frame n h h1) (hm : n ≤ m) (f2 : Frame m h1 h2) :
    Frame n h h2 :=
  ⟨Nat.le_trans hm f2.1, fun a ha => by rw [f2.2 a (Nat.lt_of_lt_of_le ha hm), f1.2 a ha]⟩

theorem Frame.append {n : Nat} {h : Heap} (hn : n ≤ h.length) (o : Obj) : Frame n h (h ++ [o]) :=
  ⟨by simp; omega, fun a ha => by rw [List.getElem?_append_left (by omega)]⟩

theorem Frame.set {n a : Nat} {h : Heap} (hn : n ≤ h.length) (ha : n ≤ a) (o : Obj) : Frame n h (h.set a o) :=
  ⟨by simp; omega, fun i hi => by rw [List.getElem?_set_ne (by omega)]⟩

theorem Frame.mono {n m : Nat} {h h' : Heap} (f : Frame m h h') (hn : n ≤ m) : Frame n h h' :=
  ⟨Nat.le_trans hn f.1, fun a ha => f.2 a (Nat.lt_of_lt_of_le ha hn)⟩

/-! ### closed heaps -/

theorem closed_get {h0 : Heap} (hc : closedHeap h0 = true) {a : Nat} {o : Obj} (ho : h0[a]? = some o) :
    (∀ v ∈ cellVals o, Val.inb h0.length v = true) ∧ objNotChain o = true := by
  unfold closedHeap at hc
  rw [List.all_eq_true] at hc
  have := hc o (List.mem_of_getElem? ho)
  simp only [Bool.and_eq_true, List.all_eq_true] at this
  exact this

/-- the standing assumptions of every stability lemma: `h0` is closed and `h` keeps its cells -/
structure Ctx (h0 h : Heap) : Prop where
  closed : closedHeap h0 = true
  frame : Frame h0.length h0 h

theorem Ctx.base {h0 : Heap} (hc : closedHeap h0 = true) : Ctx h0 h0 := ⟨hc, Frame.rfl' (Nat.le_refl _)⟩

theorem Ctx.get {h0 h : Heap} (c : Ctx h0 h) {a : Nat} (ha : a < h0.length) : h[a]? = h0[a]? := c.frame.2 a ha

theorem Ctx.step {h0 h h' : Heap} (c : Ctx h0 h) {b : Nat} (hb : h0.length ≤ b) (f : Frame b h h') : Ctx h0 h' :=
  ⟨c.closed, c.frame.trans hb f⟩

theorem inb_ref {n a : Nat} : Val.inb n (.ref a) = true ↔ a < n := by simp [Val.inb]

/-! ### iteration is stable -/

theorem strChars_inb (n : Nat) (s : String) : ∀ x ∈ strChars s, Val.inb n x = true := by
  intro x hx
  simp only [strChars, List.mem_map] at hx
  obtain ⟨c, _, rfl⟩ := hx
  rfl

theorem rawIterBase_ext {h0 h : Heap} (c : Ctx h0 h) {v : Val} (hv : Val.inb h0.length v = true) :
    rawIterBase h v = rawIterBase h0 v := by
  cases v with
  | ref a => simp only [rawIterBase, c.get (inb_ref.mp hv)]
  | _ => rfl

theorem rawIterBase_inb {h0 : Heap} (hc : closedHeap h0 = true) {v : Val} {xs : List Val}
    (hr : rawIterBase h0 v = some xs) : ∀ x ∈ xs, Val.inb h0.length x = true := by
  cases v with
  | str s => simp only [rawIterBase, Option.some.injEq] at hr; subst hr; exact strChars_inb _ s
  | ref a =>
    simp only [rawIterBase] at hr
    split at hr
    all_goals (try (simp at hr; done))
    all_goals
      rename_i heq
      have hcl := (closed_get hc heq).1
      simp only [Option.some.injEq] at hr
      subst hr
      intro x hx
      apply hcl
      simp [cellVals]
      try exact hx
    · obtain ⟨p, hp, rfl⟩ := List.mem_map.mp hx
      exact ⟨p.1, p.2, hp, Or.inl rfl⟩
  | sent n =>
    simp only [rawIterBase] at hr
    split at hr
    · injection hr with hr; subst hr; intro x hx; simp at hx; subst hx; rfl
    · cases hr
  | _ => simp [rawIterBase] at hr

theorem attrOf_mem {as : List (String × Val)} {n : String} {w : Val} (ha : attrOf as n = some w) :
    w ∈ as.map (·.2) := by
  unfold attrOf at ha
  cases hf : as.find? (·.1 == n) with
  | none => simp [hf] at ha
  | some p =>
    simp [hf] at ha
    exact List.mem_map.mpr ⟨p, List.mem_of_find?_eq_some hf, ha⟩

theorem attr_inb {h0 : Heap} (hc : closedHeap h0 = true) {a : Nat} {cl : String} {as : List (String × Val)}
    (ho : h0[a]? = some (.inst cl as)) {n : String} {w : Val} (ha : attrOf as n = some w) :
    Val.inb h0.length w = true :=
  (closed_get hc ho).1 w (by simpa [cellVals] using attrOf_mem ha)

theorem rawIter1_ext {h0 h : Heap} (c : Ctx h0 h) {v : Val} (hv : Val.inb h0.length v = true) :
    rawIter1 h v = rawIter1 h0 v := by
  cases v with
  | ref a =>
    have ha := inb_ref.mp hv
    simp only [rawIter1, c.get ha]
    cases ho : h0[a]? with
    | none => simp only [rawIterBase, c.get ha, ho]
    | some o =>
      cases o with
      | inst cl as =>
        simp only
        split
        · cases hat : attrOf as "names" with
          | none => rfl
          | some w => exact rawIterBase_ext c (attr_inb c.closed ho hat)
        · rfl
      | _ => exact rawIterBase_ext c hv
  | _ => exact rawIterBase_ext c hv

theorem rawIter1_inb {h0 : Heap} (hc : closedHeap h0 = true) {v : Val} {xs : List Val}
    (hr : rawIter1 h0 v = some xs) : ∀ x ∈ xs, Val.inb h0.length x = true := by
  cases v with
  | ref a =>
    simp only [rawIter1] at hr
    cases ho : h0[a]? with
    | none => rw [ho] at hr; exact rawIterBase_inb hc hr
    | some o =>
      rw [ho] at hr
      cases o with
      | inst cl as =>
        simp only at hr
        split at hr
        · cases hat : attrOf as "names" with
          | none => simp [hat] at hr
          | some w => simp only [hat] at hr; exact rawIterBase_inb hc hr
        · split at hr
          · injection hr with hr; subst hr; intro x hx; cases hx
          · cases hr
      | _ => exact rawIterBase_inb hc hr
  | _ => simp only [rawIter1] at hr; exact rawIterBase_inb hc hr

theorem joinWith_congr {f g : Val → Option (List Val)} {xs : List Val} (hfg : ∀ x ∈ xs, f x = g x) :
    joinWith f xs = joinWith g xs := by
  induction xs with
  | nil => rfl
  | cons x r ih =>
    simp only [joinWith]
    rw [hfg x (List.mem_cons_self), ih (fun y hy => hfg y (List.mem_cons_of_mem _ hy))]

theorem joinWith_inb {h0 : Heap} (hc : closedHeap h0 = true) {xs ys : List Val}
    (hj : joinWith (rawIter1 h0) xs = some ys) : ∀ y ∈ ys, Val.inb h0.length y = true := by
  induction xs generalizing ys with
  | nil => simp [joinWith] at hj; subst hj; simp
  | cons x r ih =>
    simp only [joinWith] at hj
    split at hj
    · rename_i a b ha hb
      simp only [Option.some.injEq] at hj; subst hj
      intro y hy
      rcases List.mem_append.mp hy with h1 | h1
      · exact rawIter1_inb hc ha y h1
      · exact ih hb y h1
    · simp at hj

theorem joinWith_ext {h0 h : Heap} (c : Ctx h0 h) {xs : List Val} (hx : ∀ x ∈ xs, Val.inb h0.length x = true) :
    joinWith (rawIter1 h) xs = joinWith (rawIter1 h0) xs :=
  joinWith_congr (fun x hxm => rawIter1_ext c (hx x hxm))

/-- on an input value, `iter` never meets a chain object -/
theorem rawIter_ext {h0 h : Heap} (c : Ctx h0 h) {v : Val} (hv : Val.inb h0.length v = true) :
    rawIter h v = rawIter1 h0 v := by
  cases v with
  | ref a =>
    have ha := inb_ref.mp hv
    simp only [rawIter]
    rw [c.get ha]
    split
    · rename_i cls xs heq
      have := (closed_get c.closed heq).2
      simp only [objNotChain, bne_iff_ne, ne_eq] at this
      simp [this, rawIter1, rawIterBase, heq]
    · exact rawIter1_ext c hv
  | _ => rfl

theorem rawIter_inb {h0 h : Heap} (c : Ctx h0 h) {v : Val} (hv : Val.inb h0.length v = true)
    {xs : List Val} (hr : rawIter h v = some xs) : ∀ x ∈ xs, Val.inb h0.length x = true := by
  rw [rawIter_ext c hv] at hr
  exact rawIter1_inb c.closed hr

theorem hashable_ext {h0 h : Heap} (c : Ctx h0 h) {v : Val} (hv : Val.inb h0.length v = true) :
    v.hashable h = v.hashable h0 := by
  cases v with
  | ref a => simp only [Val.hashable, c.get (inb_ref.mp hv)]
  | _ => rfl

/-! ### what the operators read is stable -/

theorem rawIter_ext2 {h0 h : Heap} (c : Ctx h0 h) {v : Val} (hv : Val.inb h0.length v = true) :
    rawIter h v = rawIter h0 v := by
  rw [rawIter_ext c hv, rawIter_ext (Ctx.base c.closed) hv]

theorem iterStrict_ext {h0 h : Heap} (c : Ctx h0 h) {v : Val} (hv : Val.inb h0.length v = true) :
    iterStrict h v = iterStrict h0 v := by
  simp only [iterStrict, rawIter_ext2 c hv]

theorem iterStrict_inb {h0 : Heap} (hc : closedHeap h0 = true) {v : Val} (hv : Val.inb h0.length v = true)
    {xs : List Val} (hr : iterStrict h0 v = .ok xs) : ∀ x ∈ xs, Val.inb h0.length x = true := by
  unfold iterStrict at hr
  cases hi : rawIter h0 v with
  | none => simp [hi] at hr
  | some ys =>
    simp only [hi] at hr
    cases hf : firstRaise ys with
    | some cl => simp [hf] at hr
    | none =>
      simp only [hf] at hr
      injection hr with hr; subst hr
      exact rawIter_inb (Ctx.base hc) hv hi

theorem pyAdd_ext {h0 h : Heap} (c : Ctx h0 h) (ip : Bool) (sv : SV) {v : Val}
    (hv : Val.inb h0.length v = true) : pyAdd ip h sv v = pyAdd ip h0 sv v := by
  unfold pyAdd
  rw [iterStrict_ext c hv]
  cases v with
  | ref b => simp only [c.get (inb_ref.mp hv)]
  | _ => rfl

theorem pairOf_ext {h0 h : Heap} (c : Ctx h0 h) {v : Val} (hv : Val.inb h0.length v = true) :
    pairOf h v = pairOf h0 v := by
  unfold pairOf
  rw [iterStrict_ext c hv]
  split
  · rfl
  · rename_i k x heq
    have hk : Val.inb h0.length k = true :=
      iterStrict_inb c.closed hv heq k (by simp)
    rw [hashable_ext c hk]
  · rfl

theorem pairsOf_ext {h0 h : Heap} (c : Ctx h0 h) {xs : List Val} (hx : ∀ x ∈ xs, Val.inb h0.length x = true) :
    pairsOf h xs = pairsOf h0 xs := by
  induction xs with
  | nil => rfl
  | cons x r ih =>
    simp only [pairsOf]
    rw [pairOf_ext c (hx x List.mem_cons_self), ih (fun y hy => hx y (List.mem_cons_of_mem _ hy))]

theorem updateSeq_ext {h0 h : Heap} (c : Ctx h0 h) {v : Val} (hv : Val.inb h0.length v = true) :
    updateSeq h v = updateSeq h0 v := by
  unfold updateSeq
  rw [iterStrict_ext c hv]
  cases hr : iterStrict h0 v with
  | error e => rfl
  | ok items => exact pairsOf_ext c (iterStrict_inb c.closed hv hr)

theorem updatePairs_ext {h0 h : Heap} (c : Ctx h0 h) {v : Val} (hv : Val.inb h0.length v = true) :
    updatePairs h v = updatePairs h0 v := by
  cases v with
  | ref a => simp only [updatePairs, c.get (inb_ref.mp hv), updateSeq_ext c hv]
  | _ => simp only [updatePairs, updateSeq_ext c hv]

theorem pyOp_ext {h0 h : Heap} (c : Ctx h0 h) (op : Op) (sv : SV) {v : Val}
    (hv : Val.inb h0.length v = true) : pyOp op h sv v = pyOp op h0 sv v := by
  cases op with
  | iadd => exact pyAdd_ext c true sv hv
  | add => exact pyAdd_ext c false sv hv
  | count => rfl
  | update cls => simp only [pyOp, pyUpdate, updatePairs_ext c hv]
  | firstWins =>
    cases v with
    | ref a => simp only [pyOp, pyFirstWins, c.get (inb_ref.mp hv)]
    | _ => rfl
  | append => rfl
  | cons => rfl
  | extend => simp only [pyOp, iterStrict_ext c hv]
  | appendNone => rfl
  | dictUnion =>
    cases v with
    | ref a => simp only [pyOp, c.get (inb_ref.mp hv)]
    | _ => rfl
  | addSeq =>
    cases v with
    | ref a => simp only [pyOp, c.get (inb_ref.mp hv)]
    | _ => rfl
  | pokeElem =>
    cases v with
    | ref a => simp only [pyOp, c.get (inb_ref.mp hv)]
    | _ => rfl
  | notCallable => rfl

/-! ### what the operators return -/

/-- a well-formed accumulator value: an immediate is not a reference, a container is not a chain -/
def SV.ok : SV → Prop
  | .imm v => ∀ a, v ≠ .ref a
  | .cell o => objNotChain o = true

/-- an operator of the catalogue other than `pokeElem` writes to nothing but its accumulator -/
theorem pyOp_noOther {op : Op} (hop : op ≠ .pokeElem) {h : Heap} {sv : SV} {v : Val} {a : Nat} {o : Obj} :
    pyOp op h sv v ≠ .ok (.writeOther a o) := by
  intro hr
  cases op with
  | pokeElem => exact hop rfl
  | iadd | add =>
    simp only [pyOp, pyAdd] at hr
    repeat (first | (split at hr) | (injection hr with hr; cases hr) | contradiction)
  | count =>
    simp only [pyOp] at hr
    repeat (first | (split at hr) | (injection hr with hr; cases hr) | contradiction)
  | update cls =>
    simp only [pyOp, pyUpdate] at hr
    repeat (first | (split at hr) | (injection hr with hr; cases hr) | contradiction)
  | firstWins =>
    simp only [pyOp, pyFirstWins] at hr
    repeat (first | (split at hr) | (injection hr with hr; cases hr) | contradiction)
  | append | cons | extend | appendNone | dictUnion | addSeq | notCallable =>
    simp only [pyOp] at hr
    repeat (first | (split at hr) | (injection hr with hr; cases hr) | contradiction)

/-- an in-place result only ever comes from a container accumulator -/
theorem pyOp_imm {op : Op} (hop : op ≠ .pokeElem) {h : Heap} {x v : Val} {r : OpRes}
    (hr : pyOp op h (.imm x) v = .ok r) : ∃ sv, r = .value sv := by
  cases op with
  | pokeElem => exact absurd rfl hop
  | iadd | add =>
    simp only [pyOp, pyAdd] at hr
    repeat (first | (split at hr) | (injection hr with hr; subst hr; exact ⟨_, rfl⟩) | contradiction)
  | count =>
    simp only [pyOp] at hr
    repeat (first | (split at hr) | (injection hr with hr; subst hr; exact ⟨_, rfl⟩) | contradiction)
  | update cls =>
    simp only [pyOp, pyUpdate] at hr
    repeat (first | (split at hr) | (injection hr with hr; subst hr; exact ⟨_, rfl⟩) | contradiction)
  | firstWins =>
    simp only [pyOp, pyFirstWins] at hr
    repeat (first | (split at hr) | (injection hr with hr; subst hr; exact ⟨_, rfl⟩) | contradiction)
  | append | cons | extend | appendNone | dictUnion | addSeq | notCallable =>
    simp only [pyOp] at hr
    repeat (first | (split at hr) | (injection hr with hr; subst hr; exact ⟨_, rfl⟩) | contradiction)

theorem numAdd_not_ref (x y : Num) (a : Nat) : numAdd x y ≠ .ref a := by
  cases x <;> cases y <;> simp [numAdd]

theorem pyOp_ok {op : Op} {h : Heap} {sv : SV} {v : Val} {r : OpRes} (hs : sv.ok)
    (hr : pyOp op h sv v = .ok r) : (foldRet sv r).ok ∧ (mergeRet sv r).ok := by
  cases op with
  | iadd | add =>
    simp only [pyOp, pyAdd] at hr
    repeat (first
      | (split at hr)
      | (injection hr with hr; subst hr; refine ⟨?_, ?_⟩ <;>
          first | exact hs | (intro a; exact numAdd_not_ref _ _ a) | (intro a; simp) | (simp [foldRet, mergeRet, SV.ok, objNotChain]))
      | contradiction)
  | count =>
    simp only [pyOp] at hr
    repeat (first
      | (split at hr)
      | (injection hr with hr; subst hr; refine ⟨?_, ?_⟩ <;>
          first | exact hs | (intro a; simp) | (simp [foldRet, mergeRet, SV.ok, objNotChain]))
      | contradiction)
  | update cls =>
    simp only [pyOp, pyUpdate] at hr
    repeat (first
      | (split at hr)
      | (injection hr with hr; subst hr; refine ⟨?_, ?_⟩ <;>
          first | exact hs | (intro a; simp) | (simp [foldRet, mergeRet, SV.ok, objNotChain]))
      | contradiction)
  | firstWins =>
    simp only [pyOp, pyFirstWins] at hr
    repeat (first
      | (split at hr)
      | (injection hr with hr; subst hr; refine ⟨?_, ?_⟩ <;>
          first | exact hs | (intro a; simp) | (simp [foldRet, mergeRet, SV.ok, objNotChain]))
      | contradiction)
  | append | cons | extend | appendNone | dictUnion | addSeq | pokeElem | notCallable =>
    simp only [pyOp] at hr
    repeat (first
      | (split at hr)
      | (injection hr with hr; subst hr; refine ⟨?_, ?_⟩ <;>
          first | exact hs | (intro a; simp) | (simp [foldRet, mergeRet, SV.ok, objNotChain]))
      | contradiction)

/-- **the laws an operator must meet** for the loops to refine `functools.reduce`, to leave
    the inputs alone and to return fresh objects (relative to the input heap `h0`):
    `ext`      what it computes depends on the accumulator's VALUE and on input objects only,
               and those it only reads;
    `noOther`  it writes to no object but its accumulator (an operator that mutates its ELEMENT
               — `OpRes.writeOther`, e.g. `lambda a, v: (v.append(0), a)[1]` — is outside);
    `imm`      an immediate accumulator cannot be mutated in place;
    `ok`       what it returns is an immediate or a container of its own (never a reference to a
               pre-existing object, never a chain object). -/
structure OpLaw (h0 : Heap) (f : OpFn) : Prop where
  ext : ∀ {h : Heap}, Ctx h0 h → ∀ (sv : SV) {v : Val}, Val.inb h0.length v = true → f h sv v = f h0 sv v
  noOther : ∀ {h : Heap} {sv : SV} {v : Val} {a : Nat} {o : Obj}, f h sv v ≠ .ok (.writeOther a o)
  imm : ∀ {h : Heap} {x v : Val} {r : OpRes}, f h (.imm x) v = .ok r → ∃ sv, r = .value sv
  ok : ∀ {h : Heap} {sv : SV} {v : Val} {r : OpRes}, sv.ok → f h sv v = .ok r →
    (foldRet sv r).ok ∧ (mergeRet sv r).ok

/-- every operator of the catalogue but the element-poking one meets the laws -/
theorem pyOp_law (h0 : Heap) (op : Op) (hop : op ≠ .pokeElem) : OpLaw h0 (pyOp op) :=
  ⟨fun c sv _ hv => pyOp_ext c op sv hv, pyOp_noOther hop, fun hr => pyOp_imm hop hr,
   fun hs hr => pyOp_ok hs hr⟩

/-- the loop's own check — the iterator may raise instead of yielding — keeps an operator lawful -/
theorem guardOp_law {h0 : Heap} {f : OpFn} (L : OpLaw h0 f) : OpLaw h0 (guardOp f) := by
  refine ⟨?_, ?_, ?_, ?_⟩
  · intro h c sv v hv
    simp only [guardOp]
    cases raiseMarker v with
    | some cl => rfl
    | none => exact L.ext c sv hv
  · intro h sv v a o hr
    simp only [guardOp] at hr
    cases hm : raiseMarker v with
    | some cl => simp [hm] at hr
    | none => rw [hm] at hr; exact L.noOther hr
  · intro h x v r hr
    simp only [guardOp] at hr
    cases hm : raiseMarker v with
    | some cl => simp [hm] at hr
    | none => rw [hm] at hr; exact L.imm hr
  · intro h sv v r hs hr
    simp only [guardOp] at hr
    cases hm : raiseMarker v with
    | some cl => simp [hm] at hr
    | none => rw [hm] at hr; exact L.ok hs hr

/-! ### the accumulator object and its value -/

/-- the accumulator object `acc` (in heap `h`) currently holds the value `sv`; a container
    accumulator lives at an address `≥ b`, i.e. it was allocated by this evaluation -/
def Holds (h : Heap) (b : Nat) (acc : Val) : SV → Prop
  | .imm v => acc = v ∧ ∀ a, v ≠ .ref a
  | .cell o => ∃ a, acc = .ref a ∧ b ≤ a ∧ h[a]? = some o ∧ objNotChain o = true

theorem Holds.ok {h : Heap} {b : Nat} {acc : Val} {sv : SV} (hh : Holds h b acc sv) : sv.ok := by
  cases sv with
  | imm v => exact hh.2
  | cell o => obtain ⟨a, _, _, _, h4⟩ := hh; exact h4

theorem Holds.load {h : Heap} {b : Nat} {acc : Val} {sv : SV} (hh : Holds h b acc sv) : load h acc = some sv := by
  cases sv with
  | imm v =>
    obtain ⟨rfl, hn⟩ := hh
    cases acc <;> first | rfl | exact absurd rfl (hn _)
  | cell o =>
    obtain ⟨a, rfl, _, h3, _⟩ := hh
    simp [C15.load, h3]

theorem Holds.append {h : Heap} {b : Nat} {acc : Val} {sv : SV} (hh : Holds h b acc sv) (o' : Obj) :
    Holds (h ++ [o']) b acc sv := by
  cases sv with
  | imm v => exact hh
  | cell o =>
    obtain ⟨a, h1, h2, h3, h4⟩ := hh
    refine ⟨a, h1, h2, ?_, h4⟩
    have : a < h.length := by
      rcases Nat.lt_or_ge a h.length with hlt | hge
      · exact hlt
      · rw [List.getElem?_eq_none hge] at h3; cases h3
    rw [List.getElem?_append_left this]; exact h3

theorem materialise_holds {h : Heap} {b : Nat} (hbl : b ≤ h.length) {sv : SV} (hs : sv.ok) :
    Frame b h (materialise h sv).2 ∧ Holds (materialise h sv).2 b (materialise h sv).1 sv := by
  cases sv with
  | imm v => exact ⟨Frame.rfl' hbl, rfl, hs⟩
  | cell o =>
    refine ⟨Frame.append hbl o, h.length, rfl, hbl, ?_, hs⟩
    simp [materialise]

theorem get_lt {h : Heap} {a : Nat} {o : Obj} (ho : h[a]? = some o) : a < h.length := by
  rcases Nat.lt_or_ge a h.length with hlt | hge
  · exact hlt
  · rw [List.getElem?_eq_none hge] at ho; cases ho

/-- one step of `ret = op(ret, v)` on the heap is one step of the pure reduce -/
theorem opStep_fold {h0 h : Heap} (c : Ctx h0 h) {b : Nat} (hb : h0.length ≤ b) (hbl : b ≤ h.length)
    {f : OpFn} (L : OpLaw h0 f) {acc v : Val} {sv : SV} (hv : Val.inb h0.length v = true) (hh : Holds h b acc sv) :
    match foldStep f h0 sv v with
    | .error e => opStep f h acc v = .error e
    | .ok sv' => ∃ acc' h', opStep f h acc v = .ok (acc', h') ∧ Frame b h h' ∧ Holds h' b acc' sv' := by
  unfold foldStep opStep
  simp only [hh.load, L.ext c sv hv]
  cases hp : f h0 sv v with
  | error e => rfl
  | ok r =>
    have hok := (L.ok hh.ok hp).1
    simp only [Except.map]
    cases r with
    | value r' =>
      have := materialise_holds hbl (sv := r') hok
      exact ⟨_, _, rfl, this.1, this.2⟩
    | inplaceSelf o =>
      cases sv with
      | imm x => obtain ⟨_, hx⟩ := L.imm hp; cases hx
      | cell o0 =>
        obtain ⟨a, rfl, h2, h3, _⟩ := hh
        refine ⟨.ref a, h.set a o, rfl, Frame.set hbl h2 o, a, rfl, h2, ?_, hok⟩
        simp [List.getElem?_set, get_lt h3]
    | inplaceNone o =>
      cases sv with
      | imm x => obtain ⟨_, hx⟩ := L.imm hp; cases hx
      | cell o0 =>
        obtain ⟨a, rfl, h2, h3, _⟩ := hh
        refine ⟨.none, h.set a o, rfl, Frame.set hbl h2 o, rfl, ?_⟩
        intro a'; simp
    | writeOther a o => exact absurd hp L.noOther

/-- one step of Merge's `op(ret, v)` (result dropped) is one step of the pure merge -/
theorem opStep_merge {h0 h : Heap} (c : Ctx h0 h) {b : Nat} (hb : h0.length ≤ b) (hbl : b ≤ h.length)
    {f : OpFn} (L : OpLaw h0 f) {ret v : Val} {sv : SV} (hv : Val.inb h0.length v = true) (hh : Holds h b ret sv) :
    match mergeStep f h0 sv v with
    | .error e => opStep f h ret v = .error e
    | .ok sv' => ∃ x h', opStep f h ret v = .ok (x, h') ∧ Frame b h h' ∧ Holds h' b ret sv' := by
  unfold mergeStep opStep
  simp only [hh.load, L.ext c sv hv]
  cases hp : f h0 sv v with
  | error e => rfl
  | ok r =>
    have hok := (L.ok hh.ok hp).2
    simp only [Except.map]
    cases r with
    | value r' =>
      cases r' with
      | imm x => exact ⟨_, _, rfl, Frame.rfl' hbl, hh⟩
      | cell o => exact ⟨_, _, rfl, Frame.append hbl o, hh.append o⟩
    | inplaceSelf o =>
      cases sv with
      | imm x => obtain ⟨_, hx⟩ := L.imm hp; cases hx
      | cell o0 =>
        obtain ⟨a, rfl, h2, h3, _⟩ := hh
        refine ⟨.ref a, h.set a o, rfl, Frame.set hbl h2 o, a, rfl, h2, ?_, hok⟩
        simp [List.getElem?_set, get_lt h3]
    | inplaceNone o =>
      cases sv with
      | imm x => obtain ⟨_, hx⟩ := L.imm hp; cases hx
      | cell o0 =>
        obtain ⟨a, rfl, h2, h3, _⟩ := hh
        refine ⟨.none, h.set a o, rfl, Frame.set hbl h2 o, a, rfl, h2, ?_, hok⟩
        simp [List.getElem?_set, get_lt h3]
    | writeOther a o => exact absurd hp L.noOther

/-- **Fold._fold's loop refines functools.reduce** — for every lawful operator -/
theorem foldLoop_spec {h0 : Heap} (hc : closedHeap h0 = true) {b : Nat} (hb : h0.length ≤ b)
    {f : OpFn} (L : OpLaw h0 f) :
    ∀ (items : List Val), (∀ x ∈ items, Val.inb h0.length x = true) →
    ∀ (acc : Val) (h : Heap) (sv : SV), Frame h0.length h0 h → b ≤ h.length → Holds h b acc sv →
      Frame b h (foldLoop f items acc h).2 ∧
      match refReduce (foldStep f h0) items sv with
      | .error e => (foldLoop f items acc h).1 = .error e
      | .ok sv' => ∃ r, (foldLoop f items acc h).1 = .ok r ∧ Holds (foldLoop f items acc h).2 b r sv' := by
  intro items
  induction items with
  | nil => intro _ acc h sv _ hbl hh; exact ⟨Frame.rfl' hbl, acc, rfl, hh⟩
  | cons v vs ih =>
    intro hi acc h sv hf hbl hh
    have hstep := opStep_fold ⟨hc, hf⟩ hb hbl L (hi v List.mem_cons_self) hh
    simp only [refReduce, foldLoop]
    cases hfs : foldStep f h0 sv v with
    | error e =>
      rw [hfs] at hstep
      simp only [hstep]
      exact ⟨Frame.rfl' hbl, trivial⟩
    | ok sv' =>
      rw [hfs] at hstep
      obtain ⟨acc', h', he, hfr, hh'⟩ := hstep
      simp only [he]
      have := ih (fun x hx => hi x (List.mem_cons_of_mem _ hx)) acc' h' sv'
        (hf.trans hb hfr) hfr.1 hh'
      exact ⟨hfr.trans (Nat.le_refl _) this.1, this.2⟩

/-- **Merge._fold's loop refines successive updates** — for every lawful operator -/
theorem mergeLoop_spec {h0 : Heap} (hc : closedHeap h0 = true) {b : Nat} (hb : h0.length ≤ b)
    {f : OpFn} (L : OpLaw h0 f) (ret : Val) :
    ∀ (items : List Val), (∀ x ∈ items, Val.inb h0.length x = true) →
    ∀ (h : Heap) (sv : SV), Frame h0.length h0 h → b ≤ h.length → Holds h b ret sv →
      Frame b h (mergeLoop f ret items h).2 ∧
      match refReduce (mergeStep f h0) items sv with
      | .error e => (mergeLoop f ret items h).1 = .error e
      | .ok sv' => (mergeLoop f ret items h).1 = .ok ret ∧ Holds (mergeLoop f ret items h).2 b ret sv' := by
  intro items
  induction items with
  | nil => intro _ h sv _ hbl hh; exact ⟨Frame.rfl' hbl, rfl, hh⟩
  | cons v vs ih =>
    intro hi h sv hf hbl hh
    have hstep := opStep_merge ⟨hc, hf⟩ hb hbl L (hi v List.mem_cons_self) hh
    simp only [refReduce, mergeLoop]
    cases hfs : mergeStep f h0 sv v with
    | error e =>
      rw [hfs] at hstep
      simp only [hstep]
      exact ⟨Frame.rfl' hbl, trivial⟩
    | ok sv' =>
      rw [hfs] at hstep
      obtain ⟨x, h', he, hfr, hh'⟩ := hstep
      simp only [he]
      have := ih (fun x hx => hi x (List.mem_cons_of_mem _ hx)) h' sv'
        (hf.trans hb hfr) hfr.1 hh'
      exact ⟨hfr.trans (Nat.le_refl _) this.1, this.2⟩

/-! ### sub-spec and target_iter are stable -/

theorem pyGetitem_ext {h0 h : Heap} (c : Ctx h0 h) {cur k : Val}
    (hcur : Val.inb h0.length cur = true) (hk : Val.inb h0.length k = true) :
    pyGetitem h cur k = pyGetitem h0 cur k := by
  cases cur with
  | ref a => simp only [pyGetitem, c.get (inb_ref.mp hcur), hashable_ext c hk]
  | _ => rfl

theorem pyIndex_mem {α} {xs : List α} {i : Int} {v : α} (hp : pyIndex xs i = some v) : v ∈ xs := by
  simp only [pyIndex] at hp
  by_cases h1 : i < 0
  · simp only [h1, if_true] at hp
    by_cases h2 : i + (xs.length : Int) < 0
    · simp [h2] at hp
    · simp only [h2, if_false] at hp; exact List.mem_of_getElem? hp
  · simp only [h1, if_false] at hp; exact List.mem_of_getElem? hp

theorem dictLookup_mem {es : List (Val × Val)} {k v : Val} (hl : dictLookup es k = some v) :
    ∃ p ∈ es, p.2 = v := by
  unfold dictLookup at hl
  cases hf : es.find? (fun e => pyKeyEq e.1 k) with
  | none => simp [hf] at hl
  | some p =>
    simp [hf] at hl
    exact ⟨p, List.mem_of_find?_eq_some hf, hl⟩

theorem pyGetitem_inb {h0 : Heap} (hc : closedHeap h0 = true) {cur k v : Val}
    (hg : pyGetitem h0 cur k = .ok v) : Val.inb h0.length v = true := by
  cases cur with
  | ref a =>
    simp only [pyGetitem] at hg
    cases ho : h0[a]? with
    | none => simp [ho] at hg
    | some o =>
      have hcl := (closed_get hc ho).1
      cases o with
      | list c xs =>
        simp only [ho] at hg
        cases hi : asIndex k with
        | none => simp [hi] at hg
        | some i =>
          simp only [hi] at hg
          cases hp : pyIndex xs i with
          | none => simp [hp] at hg
          | some w =>
            simp [hp] at hg; subst hg
            exact hcl w (by simpa [cellVals] using pyIndex_mem hp)
      | tuple c xs =>
        simp only [ho] at hg
        cases hi : asIndex k with
        | none => simp [hi] at hg
        | some i =>
          simp only [hi] at hg
          cases hp : pyIndex xs i with
          | none => simp [hp] at hg
          | some w =>
            simp [hp] at hg; subst hg
            exact hcl w (by simpa [cellVals] using pyIndex_mem hp)
      | dict c es =>
        simp only [ho] at hg
        split at hg
        · cases hl : dictLookup es k with
          | none => simp [hl] at hg
          | some w =>
            simp [hl] at hg; subst hg
            obtain ⟨p, hp, rfl⟩ := dictLookup_mem hl
            apply hcl
            simp only [cellVals, List.mem_flatMap]
            exact ⟨p, hp, by simp⟩
        · cases hg
      | set c xs => simp [ho] at hg
      | inst c xs => simp [ho] at hg
  | str s =>
    simp only [pyGetitem] at hg
    cases hi : asIndex k with
    | none => simp [hi] at hg
    | some i =>
      simp only [hi] at hg
      cases hp : strIndex s i with
      | none => simp [hp] at hg
      | some w =>
        simp [hp] at hg; subst hg
        simp only [strIndex, Option.map_eq_some_iff] at hp
        obtain ⟨ch, _, rfl⟩ := hp
        rfl
  | _ => simp [pyGetitem] at hg

theorem evalSub_ext {h0 h : Heap} (c : Ctx h0 h) :
    ∀ (sub : List Val) (cur : Val), (∀ k ∈ sub, Val.inb h0.length k = true) → Val.inb h0.length cur = true →
      evalSub h sub cur = evalSub h0 sub cur ∧ ∀ v, evalSub h0 sub cur = .ok v → Val.inb h0.length v = true := by
  intro sub
  induction sub with
  | nil => intro cur _ hcur; exact ⟨rfl, fun v hv => by injection hv with hv; subst hv; exact hcur⟩
  | cons k ks ih =>
    intro cur hs hcur
    have hk := hs k List.mem_cons_self
    simp only [evalSub, pyGetitem_ext c hcur hk]
    cases hg : pyGetitem h0 cur k with
    | error e => exact ⟨rfl, fun v hv => by cases hv⟩
    | ok w =>
      exact ih w (fun x hx => hs x (List.mem_cons_of_mem _ hx)) (pyGetitem_inb c.closed hg)

theorem clsName_ext {h0 h : Heap} (c : Ctx h0 h) {v : Val} (hv : Val.inb h0.length v = true) :
    v.clsName h = v.clsName h0 := by
  cases v with
  | ref a => simp only [Val.clsName, c.get (inb_ref.mp hv)]
  | _ => rfl

theorem mem_drop_one {α} {x : α} {l : List α} (h : x ∈ l.drop 1) : x ∈ l := List.mem_of_mem_drop h

theorem itemsAttrIter_ext {h0 h : Heap} (c : Ctx h0 h) {v : Val} (hv : Val.inb h0.length v = true) :
    itemsAttrIter h v = itemsAttrIter h0 v := by
  cases v with
  | ref a =>
    have ha := inb_ref.mp hv
    simp only [itemsAttrIter, c.get ha]
    cases ho : h0[a]? with
    | none => rfl
    | some o =>
      cases o with
      | inst cl as =>
        simp only
        cases hat : attrOf as "items" with
        | none => rfl
        | some w => exact rawIterBase_ext c (attr_inb c.closed ho hat)
      | _ => rfl
  | _ => rfl

theorem itemsAttrIter_inb {h0 : Heap} (hc : closedHeap h0 = true) {v : Val} {items : List Val}
    (hr : itemsAttrIter h0 v = some items) : ∀ x ∈ items, Val.inb h0.length x = true := by
  cases v with
  | ref a =>
    simp only [itemsAttrIter] at hr
    cases ho : h0[a]? with
    | none => simp [ho] at hr
    | some o =>
      cases o with
      | inst cl as =>
        simp only [ho] at hr
        cases hat : attrOf as "items" with
        | none => simp [hat] at hr
        | some w => simp only [hat] at hr; exact rawIterBase_inb hc hr
      | _ => simp [ho] at hr
  | _ => simp [itemsAttrIter] at hr

theorem drainedIter_ext {h0 h : Heap} (c : Ctx h0 h) {v : Val} (hv : Val.inb h0.length v = true) :
    drainedIter h v = drainedIter h0 v := by
  simp only [drainedIter, rawIter_ext2 c hv]

theorem drainedIter_inb {h0 : Heap} (hc : closedHeap h0 = true) {v : Val} (hv : Val.inb h0.length v = true)
    {xs : List Val} (hr : drainedIter h0 v = some xs) : ∀ x ∈ xs, Val.inb h0.length x = true := by
  unfold drainedIter at hr
  cases hi : rawIter h0 v with
  | none => simp [hi] at hr
  | some ys =>
    simp only [hi] at hr
    split at hr
    · cases hr
    · injection hr with hr; subst hr
      exact rawIter_inb (Ctx.base hc) hv hi

/-- what a handler of the catalogue yields is stable -/
theorem runHandler_ext {h0 h : Heap} (c : Ctx h0 h) (hn : String) {v : Val} (hv : Val.inb h0.length v = true) :
    runHandler hn h v = runHandler hn h0 v := by
  unfold runHandler
  rw [rawIter_ext2 c hv, itemsAttrIter_ext c hv, drainedIter_ext c hv]

/-- … and consists of input values -/
theorem runHandler_inb {h0 : Heap} (hc : closedHeap h0 = true) (hn : String) {v : Val}
    (hv : Val.inb h0.length v = true) {items : List Val} (hr : runHandler hn h0 v = some items) :
    ∀ x ∈ items, Val.inb h0.length x = true := by
  have c0 := Ctx.base hc
  unfold runHandler at hr
  split at hr
  · exact rawIter_inb c0 hv hr
  · split at hr
    · cases hri : drainedIter h0 v with
      | none => simp [hri] at hr
      | some ys =>
        simp only [hri, Option.map_some, Option.some.injEq] at hr
        subst hr
        intro x hx
        exact drainedIter_inb hc hv hri x (List.mem_reverse.mp hx)
    · split at hr
      · cases hri : drainedIter h0 v with
        | none => simp [hri] at hr
        | some ys =>
          simp only [hri, Option.map_some, Option.some.injEq] at hr
          subst hr
          intro x hx
          exact drainedIter_inb hc hv hri x (mem_drop_one hx)
      · split at hr
        · exact drainedIter_inb hc hv hr
        · split at hr
          · exact itemsAttrIter_inb hc hr
          · cases hr

/-- **the law an `iterate` handler must meet** (relative to the input heap `h0`): what calling it on
    an input object yields is determined by the input objects — it only reads them — and consists
    of input values (objects reachable from the target, characters of a string) -/
structure HandlerLaw (h0 : Heap) (env : Env) : Prop where
  ext : ∀ (hn : String) {h : Heap} {v : Val}, Ctx h0 h → Val.inb h0.length v = true → env.run hn h v = env.run hn h0 v
  inb : ∀ (hn : String) {v : Val} {items : List Val}, Val.inb h0.length v = true →
    env.run hn h0 v = some items → ∀ x ∈ items, Val.inb h0.length x = true

/-- the handlers of the catalogue (`iter`, reverse, tail, list, the `items` attribute, a raising one)
    meet the law -/
theorem runHandler_law {h0 : Heap} (hc : closedHeap h0 = true) {env : Env} (hr : env.run = runHandler) :
    HandlerLaw h0 env :=
  ⟨fun hn _ _ c hv => by rw [hr]; exact runHandler_ext c hn hv,
   fun hn _ _ hv h => by rw [hr] at h; exact runHandler_inb hc hn hv h⟩

theorem applyHandler_ext {h0 h : Heap} (c : Ctx h0 h) {env : Env} (hH : HandlerLaw h0 env)
    (ans : Except IterErr String) {v : Val}
    (hv : Val.inb h0.length v = true) : applyHandler env ans h v = applyHandler env ans h0 v := by
  cases ans with
  | error e => rfl
  | ok hn => simp only [applyHandler, hH.ext hn c hv]

theorem applyHandler_inb {h0 : Heap} {env : Env} (hH : HandlerLaw h0 env) (ans : Except IterErr String)
    {v : Val} (hv : Val.inb h0.length v = true) {items : List Val}
    (ht : applyHandler env ans h0 v = .ok items) : ∀ x ∈ items, Val.inb h0.length x = true := by
  cases ans with
  | error e => cases ht
  | ok hn =>
    simp only [applyHandler] at ht
    cases hr : env.run hn h0 v with
    | none => simp [hr] at ht
    | some its =>
      simp only [hr] at ht
      injection ht with ht; subst ht
      exact hH.inb hn hv hr

theorem targetIter_ext {h0 h : Heap} (c : Ctx h0 h) {env : Env} (hH : HandlerLaw h0 env) {v : Val}
    (hv : Val.inb h0.length v = true) :
    targetIter env h v = targetIter env h0 v := by
  simp only [targetIter, clsName_ext c hv, applyHandler_ext c hH _ hv]

theorem targetIter_inb {h0 : Heap} {env : Env} (hH : HandlerLaw h0 env) {v : Val}
    (hv : Val.inb h0.length v = true) {items : List Val} (ht : targetIter env h0 v = .ok items) :
    ∀ x ∈ items, Val.inb h0.length x = true :=
  applyHandler_inb hH _ hv ht

theorem refItems_inb {h0 : Heap} (hc : closedHeap h0 = true) {env : Env} (hH : HandlerLaw h0 env)
    {sub : List Val} {target : Val}
    (hs : ∀ k ∈ sub, Val.inb h0.length k = true) (ht : Val.inb h0.length target = true)
    {items : List Val} (hr : refItems env h0 sub target = .ok items) :
    ∀ x ∈ items, Val.inb h0.length x = true := by
  unfold refItems at hr
  have := evalSub_ext (Ctx.base hc) sub target hs ht
  cases he : evalSub h0 sub target with
  | error e => simp [he] at hr
  | ok t =>
    simp only [he] at hr
    cases hti : targetIter env h0 t with
    | error ie => cases ie <;> simp [hti] at hr
    | ok its =>
      simp only [hti] at hr
      injection hr with hr; subst hr
      exact targetIter_inb hH (this.2 t he) hti

/-! ### one evaluation -/

/-- **the law an `init` factory must meet**: on every later heap it leaves what exists alone and
    returns an immutable immediate, or a NEW object, holding the value `sv0` -/
def InitLaw (h0 : Heap) (ini : InitFn) (sv0 : SV) : Prop :=
  ∀ h, Ctx h0 h → Frame h.length h (ini h).2 ∧ Holds (ini h).2 h.length (ini h).1 sv0

/-- the hypotheses on an `init` of the catalogue: it allocates; a copying factory copies a list /
    tuple / dict (or an immediate) of the input heap -/
structure InitOK (h0 : Heap) (i : Init) : Prop where
  allocates : i.allocates = true
  wf : i.wf h0 = true
  inb : ∀ v ∈ i.vals, Val.inb h0.length v = true

theorem copyable_notChain {o : Obj} (ho : copyable o = true) : objNotChain o = true := by
  cases o with
  | tuple c xs =>
    simp only [copyable, beq_iff_eq] at ho
    subst ho; simp [objNotChain]
  | _ => rfl

/-- every factory of the catalogue (`int`, `float`, `str`, `list`, `tuple`, `dict`, `OrderedDict`,
    `Acc`, a copying factory) meets the law -/
theorem callInit_law {h0 : Heap} {i : Init} (hi : InitOK h0 i) :
    ∃ sv, initSV h0 i = some sv ∧ InitLaw h0 (callInit i) sv := by
  cases i with
  | shared v => exact absurd hi.allocates (by simp [Init.allocates])
  | int => exact ⟨_, rfl, fun h _ => ⟨Frame.rfl' (Nat.le_refl _), rfl, by intro a; simp⟩⟩
  | float => exact ⟨_, rfl, fun h _ => ⟨Frame.rfl' (Nat.le_refl _), rfl, by intro a; simp⟩⟩
  | str => exact ⟨_, rfl, fun h _ => ⟨Frame.rfl' (Nat.le_refl _), rfl, by intro a; simp⟩⟩
  | list => exact ⟨_, rfl, fun h _ => materialise_holds (Nat.le_refl _) (sv := .cell (.list "list" [])) rfl⟩
  | tuple =>
    exact ⟨_, rfl, fun h _ => materialise_holds (Nat.le_refl _) (sv := .cell (.tuple "tuple" []))
      (by simp [SV.ok, objNotChain])⟩
  | dict => exact ⟨_, rfl, fun h _ => materialise_holds (Nat.le_refl _) (sv := .cell (.dict "dict" [])) rfl⟩
  | odict =>
    exact ⟨_, rfl, fun h _ => materialise_holds (Nat.le_refl _) (sv := .cell (.dict "OrderedDict" [])) rfl⟩
  | acc => exact ⟨_, rfl, fun h _ => materialise_holds (Nat.le_refl _) (sv := .cell (.list "Acc" [])) rfl⟩
  | set => exact ⟨_, rfl, fun h _ => materialise_holds (Nat.le_refl _) (sv := .cell (.set "set" [])) rfl⟩
  | notCallable => exact absurd hi.wf (by simp [Init.wf])
  | copyOf v =>
    cases v with
    | ref a =>
      have hw := hi.wf
      simp only [Init.wf] at hw
      cases ho : h0[a]? with
      | none => simp [ho] at hw
      | some o =>
        simp only [ho] at hw
        refine ⟨.cell o, by simp [initSV, C15.load, ho], ?_⟩
        intro h c
        have hget : h[a]? = some o := by rw [c.get (get_lt ho)]; exact ho
        simp only [callInit, hget, hw, if_true]
        exact materialise_holds (Nat.le_refl _) (sv := .cell o) (copyable_notChain hw)
    | none | bool _ | int _ | str _ | float _ | sent _ | ty _ | fn _ =>
      exact ⟨_, rfl, fun h _ => ⟨Frame.rfl' (Nat.le_refl _), rfl, by intro a; simp⟩⟩

/-- a chain result holds input values only -/
def newOK (n0 : Nat) : Obj → Prop
  | .tuple c xs => c = "chain" → ∀ x ∈ xs, Val.inb n0 x = true
  | _ => True

/-- the outcome of one evaluation (result, heap afterwards) realises a reference result:
    same error, same immediate, or an object allocated by this evaluation (address `≥ b`)
    that holds exactly the reference content -/
def ResRel (n0 b : Nat) (out : Except Err Val × Heap) : RefRes → Prop
  | .err e => out.1 = .error e
  | .imm v => out.1 = .ok v ∧ ∀ a, v ≠ .ref a
  | .same v => out.1 = .ok v ∧ Val.inb n0 v = true
  | .new o => ∃ a, out.1 = .ok (.ref a) ∧ b ≤ a ∧ out.2[a]? = some o ∧ newOK n0 o

theorem newOK_of_notChain {n0 : Nat} {o : Obj} (ho : objNotChain o = true) : newOK n0 o := by
  cases o with
  | tuple c xs =>
    intro hc; subst hc
    simp [objNotChain] at ho
  | _ => trivial

theorem resRel_of_holds {n0 b : Nat} {h' : Heap} {r : Val} {sv : SV} (hh : Holds h' b r sv) :
    ResRel n0 b (.ok r, h') (RefRes.ofSV (.ok sv)) := by
  cases sv with
  | imm v => obtain ⟨rfl, hn⟩ := hh; exact ⟨rfl, hn⟩
  | cell o => obtain ⟨a, rfl, h2, h3, h4⟩ := hh; exact ⟨a, rfl, h2, h3, newOK_of_notChain h4⟩

/-- **Fold._fold = functools.reduce** for EVERY lawful factory and operator: nothing that existed
    changes, and the outcome realises the pure reduce over the input heap -/
theorem foldWith_spec {h0 h : Heap} (c : Ctx h0 h) {ini : InitFn} {sv0 : SV} (I : InitLaw h0 ini sv0)
    {f : OpFn} (L : OpLaw h0 f) {items : List Val} (hi : ∀ x ∈ items, Val.inb h0.length x = true) :
    Frame h.length h (foldWith ini f items h).2 ∧
      ResRel h0.length h.length (foldWith ini f items h) (RefRes.ofSV (refReduce (foldStep f h0) items sv0)) := by
  obtain ⟨hf, hh⟩ := I h c
  have hl := foldLoop_spec c.closed c.frame.1 L items hi _ _ sv0 (c.frame.trans c.frame.1 hf) hf.1 hh
  refine ⟨hf.trans (Nat.le_refl _) hl.1, ?_⟩
  unfold foldWith
  cases hr : refReduce (foldStep f h0) items sv0 with
  | error e => rw [hr] at hl; exact hl.2
  | ok sv' =>
    rw [hr] at hl
    obtain ⟨r, h1, h2⟩ := hl.2
    have := resRel_of_holds (n0 := h0.length) h2
    rw [← h1] at this
    exact this

/-- **Merge._fold = successive in-place merges** for EVERY lawful factory and operator -/
theorem mergeWith_spec {h0 h : Heap} (c : Ctx h0 h) {ini : InitFn} {sv0 : SV} (I : InitLaw h0 ini sv0)
    {f : OpFn} (L : OpLaw h0 f) {items : List Val} (hi : ∀ x ∈ items, Val.inb h0.length x = true) :
    Frame h.length h (mergeWith ini f items h).2 ∧
      ResRel h0.length h.length (mergeWith ini f items h) (RefRes.ofSV (refReduce (mergeStep f h0) items sv0)) := by
  obtain ⟨hf, hh⟩ := I h c
  have hl := mergeLoop_spec c.closed c.frame.1 L _ items hi _ sv0 (c.frame.trans c.frame.1 hf) hf.1 hh
  refine ⟨hf.trans (Nat.le_refl _) hl.1, ?_⟩
  unfold mergeWith
  cases hr : refReduce (mergeStep f h0) items sv0 with
  | error e => rw [hr] at hl; exact hl.2
  | ok sv' =>
    rw [hr] at hl
    obtain ⟨h1, h2⟩ := hl.2
    have := resRel_of_holds (n0 := h0.length) h2
    rw [← h1] at this
    exact this

theorem foldKind_spec {h0 h : Heap} (c : Ctx h0 h) (init : Init) (op : Op) (hs : InitOK h0 init)
    (hop : op ≠ .pokeElem)
    {items : List Val} (hi : ∀ x ∈ items, Val.inb h0.length x = true) :
    let out := foldWith (callInit init) (guardOp (pyOp op)) items h
    Frame h.length h out.2 ∧
      ResRel h0.length h.length out (withInit h0 init (refReduce (foldStep (guardOp (pyOp op)) h0) items)) := by
  obtain ⟨sv, hsv, I⟩ := callInit_law hs
  simp only [withInit, hsv]
  exact foldWith_spec c I (guardOp_law (pyOp_law h0 op hop)) hi

theorem mergeKind_spec {h0 h : Heap} (c : Ctx h0 h) (init : Init) (op : Op) (hs : InitOK h0 init)
    (hop : op ≠ .pokeElem)
    {items : List Val} (hi : ∀ x ∈ items, Val.inb h0.length x = true) :
    let out := mergeWith (callInit init) (guardOp (pyOp op)) items h
    Frame h.length h out.2 ∧
      ResRel h0.length h.length out (withInit h0 init (refReduce (mergeStep (guardOp (pyOp op)) h0) items)) := by
  obtain ⟨sv, hsv, I⟩ := callInit_law hs
  simp only [withInit, hsv]
  exact mergeWith_spec c I (guardOp_law (pyOp_law h0 op hop)) hi

theorem runFold_spec {h0 h : Heap} (c : Ctx h0 h) (s : FoldSpec) (hs : InitOK h0 s.init)
    (hop : s.op ≠ .pokeElem) {items : List Val} (hi : ∀ x ∈ items, Val.inb h0.length x = true) :
    Frame h.length h (runFold s items h).2 ∧
      ResRel h0.length h.length (runFold s items h) (refKind h0 s items) := by
  unfold runFold refKind
  cases hk : s.kind with
  | fold => exact foldKind_spec c s.init s.op hs hop hi
  | flatten =>
    simp only
    by_cases hl : s.lazy = true
    · simp only [hl, if_true]
      refine ⟨Frame.append (Nat.le_refl _) _, h.length, rfl, Nat.le_refl _, by simp [materialise], ?_⟩
      intro _; exact hi
    · simp only [hl, if_false]
      exact foldKind_spec c s.init s.op hs hop hi
  | merge => exact mergeKind_spec c s.init s.op hs hop hi

theorem glomit_spec {h0 h : Heap} (c : Ctx h0 h) (env : Env) (hH : HandlerLaw h0 env)
    (hcatch : regLookup env.foldCatch "UnregisteredTarget" = some "FoldError")
    (s : FoldSpec) (hs : InitOK h0 s.init) (hop : s.op ≠ .pokeElem) {target : Val}
    (hsub : ∀ k ∈ s.sub, Val.inb h0.length k = true) (ht : Val.inb h0.length target = true) :
    Frame h.length h (glomit env s h target).2 ∧
      ResRel h0.length h.length (glomit env s h target) (refSpec env h0 s target) := by
  have hes := evalSub_ext c s.sub target hsub ht
  unfold glomit refSpec refItems
  rw [hes.1]
  cases he : evalSub h0 s.sub target with
  | error e => exact ⟨Frame.rfl' (Nat.le_refl _), rfl⟩
  | ok t =>
    have htin := hes.2 t he
    simp only [targetIter_ext c hH htin]
    cases hti : targetIter env h0 t with
    | error ie =>
      cases ie with
      | unregistered => exact ⟨Frame.rfl' (Nat.le_refl _), by simp [convertIterErr, hcatch, ResRel]⟩
      | raised cls => exact ⟨Frame.rfl' (Nat.le_refl _), rfl⟩
    | ok items => exact runFold_spec c s hs hop (targetIter_inb hH htin hti)

/-! ### flatten(levels=n): n-fold join -/

theorem ResRel.mono {n0 b b' : Nat} {out : Except Err Val × Heap} {r : RefRes} (hb : b ≤ b')
    (hr : ResRel n0 b' out r) : ResRel n0 b out r := by
  cases r with
  | new o => obtain ⟨a, h1, h2, h3⟩ := hr; exact ⟨a, h1, Nat.le_trans hb h2, h3⟩
  | _ => exact hr

theorem chainEval_single (env : Env) (s : FoldSpec) (h : Heap) (cur : Val) :
    chainEval env [s] h cur = glomit env s h cur := by
  simp only [chainEval]
  rcases hg : glomit env s h cur with ⟨r, h'⟩
  cases r <;> rfl

/-- chain objects are iterated with `iter`, and a failing `iter` surfaces as TypeError -/
structure ChainOK (env : Env) : Prop where
  lk : env.lk "chain" = .ok "iter"
  iter : env.run "iter" = rawIter
  conv : regLookup env.iterCatch "Exception" = some "TypeError"

/-- the hypotheses on the `init` argument of Flatten / flatten() -/
def InitArgOK (h0 : Heap) : InitArg → Prop
  | .lazy => True
  | .init i => InitOK h0 i

theorem InitOK.plain (h0 : Heap) {i : Init} (ha : i.allocates = true) (hv : i.vals = []) (hw : i.wf h0 = true) :
    InitOK h0 i := ⟨ha, hw, by simp [hv]⟩

theorem InitArgOK.mk {h0 : Heap} {init : InitArg} (hi : InitArgOK h0 init) : InitOK h0 (mkFlatten [] init).init := by
  cases init with
  | lazy => exact InitOK.plain h0 rfl rfl rfl
  | init i => exact hi

theorem InitArgOK.mk' {h0 : Heap} {init : InitArg} (sub : List Val) (hi : InitArgOK h0 init) :
    InitOK h0 (mkFlatten sub init).init := by
  cases init with
  | lazy => exact InitOK.plain h0 rfl rfl rfl
  | init i => exact hi

/-- iterating a chain object whose outer items are input values -/
theorem targetIter_chain {h0 h : Heap} (c : Ctx h0 h) (env : Env)
    (hchain : ChainOK env) {a : Nat} {xs : List Val}
    (ha : h[a]? = some (.tuple "chain" xs)) (hx : ∀ x ∈ xs, Val.inb h0.length x = true) :
    targetIter env h (.ref a) =
      match joinWith (rawIter1 h0) xs with
      | some ys => .ok ys
      | none => .error (.raised "TypeError") := by
  have h1 : (Val.ref a).clsName h = "chain" := by simp [Val.clsName, ha, Obj.cls]
  have h3 : env.run "iter" h (.ref a) = joinWith (rawIter1 h0) xs := by
    rw [hchain.iter]
    simp [rawIter, ha, joinWith_ext c hx]
  simp only [targetIter, applyHandler, h1, hchain.lk, h3, handlerFailure, hchain.conv]
  cases joinWith (rawIter1 h0) xs <;> rfl

/-- what `refFlattenFn` does once the joins are done -/
def refAfter (h0 : Heap) (init : InitArg) : Option (List Val) → RefRes
  | none => .err typeErr
  | some ys => refKind h0 (mkFlatten [] init) ys

theorem refAfter_eq (h0 : Heap) (init : InitArg) (j : Option (List Val)) :
    (match j with
      | none => RefRes.err typeErr
      | some ys =>
        match init with
        | .lazy => .new (.tuple "chain" ys)
        | .init i => withInit h0 i (refReduce (foldStep (guardOp (pyOp .iadd)) h0) ys)) = refAfter h0 init j := by
  cases j with
  | none => rfl
  | some ys => cases init <;> rfl

theorem joinN_succ (h0 : Heap) (n : Nat) (xs : List Val) :
    joinN h0 (n + 1) xs = match joinWith (rawIter1 h0) xs with
      | some ys => joinN h0 n ys
      | none => none := rfl

/-- from a chain object on: `k` lazy levels and the final one are `k+1` joins -/
theorem chainStage_spec {h0 : Heap} (hc : closedHeap h0 = true) (env : Env) (hH : HandlerLaw h0 env)
    (hchain : ChainOK env)
    (hcatch : regLookup env.foldCatch "UnregisteredTarget" = some "FoldError")
    (init : InitArg) (hinit : InitArgOK h0 init) :
    ∀ (k : Nat) (h : Heap) (a : Nat) (xs : List Val), Frame h0.length h0 h →
      h[a]? = some (.tuple "chain" xs) → (∀ x ∈ xs, Val.inb h0.length x = true) →
      let out := chainEval env (List.replicate k (mkFlatten [] .lazy) ++ [mkFlatten [] init]) h (.ref a)
      Frame h.length h out.2 ∧
        ResRel h0.length h.length out (refAfter h0 init (joinN h0 (k + 1) xs)) := by
  have hfin : InitOK h0 (mkFlatten [] init).init := hinit.mk
  intro k
  induction k with
  | zero =>
    intro h a xs hf ha hx
    have c : Ctx h0 h := ⟨hc, hf⟩
    simp only [List.replicate, List.nil_append, chainEval_single]
    have hsub : (mkFlatten [] init).sub = [] := by cases init <;> rfl
    unfold glomit
    simp only [hsub, evalSub, targetIter_chain c env hchain ha hx, joinN_succ, joinN]
    cases hj : joinWith (rawIter1 h0) xs with
    | none => exact ⟨Frame.rfl' (Nat.le_refl _), rfl⟩
    | some ys => exact runFold_spec c _ hfin (by cases init <;> simp [mkFlatten]) (joinWith_inb hc hj)
  | succ k ih =>
    intro h a xs hf ha hx
    have c : Ctx h0 h := ⟨hc, hf⟩
    simp only [List.replicate, List.cons_append, chainEval]
    have hg : glomit env (mkFlatten [] .lazy) h (.ref a) =
        match joinWith (rawIter1 h0) xs with
        | some ys => (.ok (.ref h.length), h ++ [.tuple "chain" ys])
        | none => (.error typeErr, h) := by
      unfold glomit
      simp only [mkFlatten, evalSub, targetIter_chain c env hchain ha hx]
      cases joinWith (rawIter1 h0) xs <;> rfl
    rw [hg, joinN_succ]
    cases hj : joinWith (rawIter1 h0) xs with
    | none => exact ⟨Frame.rfl' (Nat.le_refl _), rfl⟩
    | some ys =>
      simp only
      have hfr : Frame h.length h (h ++ [Obj.tuple "chain" ys]) := Frame.append (Nat.le_refl _) _
      have := ih (h ++ [.tuple "chain" ys]) h.length ys (hf.trans hf.1 hfr)
        List.getElem?_concat_length (joinWith_inb hc hj)
      exact ⟨hfr.trans hfr.1 this.1, ResRel.mono hfr.1 this.2⟩

theorem refFlattenFn_pos (env : Env) (h0 : Heap) (sub : List Val) (init : InitArg) (levels : Int)
    (target : Val) (hl0 : (levels == 0) = false) (hneg : ¬ levels < 0)
    (hnc : (init == .init .notCallable) = false) :
    refFlattenFn env h0 sub init levels target =
      match refItems env h0 sub target with
      | .error e => .err e
      | .ok items => refAfter h0 init (joinN h0 (levels.toNat - 1) items) := by
  unfold refFlattenFn
  simp only [hl0, Bool.false_eq_true, if_false, hneg, hnc]
  cases refItems env h0 sub target with
  | error e => rfl
  | ok items => exact refAfter_eq h0 init _

theorem flattenFn_spec {h0 h : Heap} (c : Ctx h0 h) (env : Env) (hH : HandlerLaw h0 env) {levels : Int}
    (hchain : 2 ≤ levels → ChainOK env)
    (hcatch : regLookup env.foldCatch "UnregisteredTarget" = some "FoldError")
    (sub : List Val) (init : InitArg) (hinit' : init = .init .notCallable ∨ InitArgOK h0 init) {target : Val}
    (hsub : ∀ k ∈ sub, Val.inb h0.length k = true) (ht : Val.inb h0.length target = true) :
    Frame h.length h (flattenFn env sub init levels h target).2 ∧
      ResRel h0.length h.length (flattenFn env sub init levels h target)
        (refFlattenFn env h0 sub init levels target) := by
  by_cases h0l : (levels == 0) = true
  · unfold flattenFn refFlattenFn
    simp only [h0l, if_true]; exact ⟨Frame.rfl' (Nat.le_refl _), rfl, ht⟩
  · have h0l' : (levels == 0) = false := by simpa using h0l
    by_cases hneg : levels < 0
    · unfold flattenFn refFlattenFn
      simp only [h0l', Bool.false_eq_true, if_false, hneg, if_true]
      exact ⟨Frame.rfl' (Nat.le_refl _), rfl⟩
    · by_cases hnc : (init == .init .notCallable) = true
      · unfold flattenFn refFlattenFn
        simp only [h0l', Bool.false_eq_true, if_false, hneg, hnc, if_true]
        exact ⟨Frame.rfl' (Nat.le_refl _), rfl⟩
      have hnc' : (init == .init .notCallable) = false := by simpa using hnc
      have hinit : InitArgOK h0 init := by
        rcases hinit' with h1 | h1
        · rw [h1] at hnc'; simp at hnc'
        · exact h1
      have hfin : InitOK h0 (mkFlatten [] init).init := hinit.mk
      rw [refFlattenFn_pos env h0 sub init levels target h0l' hneg hnc']
      unfold flattenFn
      simp only [h0l', Bool.false_eq_true, if_false, hneg, hnc']
      have hes := evalSub_ext c sub target hsub ht
      unfold refItems
      rw [hes.1]
      cases he : evalSub h0 sub target with
      | error e => exact ⟨Frame.rfl' (Nat.le_refl _), rfl⟩
      | ok t =>
        have htin := hes.2 t he
        simp only
        cases hk : levels.toNat - 1 with
        | zero =>
          simp only [List.replicate, List.nil_append, chainEval_single, joinN]
          have hg := glomit_spec c env hH hcatch (mkFlatten [] init) hfin (by cases init <;> simp [mkFlatten])
            (target := t) (by cases init <;> simp [mkFlatten]) htin
          have hsub' : (mkFlatten [] init).sub = [] := by cases init <;> rfl
          simp only [refSpec, refItems, hsub', evalSub] at hg
          cases hti : targetIter env h0 t with
          | error ie => cases ie <;> (simp only [hti] at hg; exact hg)
          | ok items => simp only [hti] at hg; exact hg
        | succ k =>
          simp only [List.replicate, List.cons_append, chainEval]
          have hg : glomit env (mkFlatten [] .lazy) h t =
              match targetIter env h0 t with
              | .ok items => (.ok (.ref h.length), h ++ [.tuple "chain" items])
              | .error ie => (.error (convertIterErr env ie), h) := by
            unfold glomit
            simp only [mkFlatten, evalSub, targetIter_ext c hH htin]
            cases targetIter env h0 t <;> rfl
          rw [hg]
          cases hti : targetIter env h0 t with
          | error ie =>
            cases ie with
            | unregistered => exact ⟨Frame.rfl' (Nat.le_refl _), by simp [convertIterErr, hcatch, ResRel]⟩
            | raised cls => exact ⟨Frame.rfl' (Nat.le_refl _), rfl⟩
          | ok items =>
            simp only
            have hfr : Frame h.length h (h ++ [Obj.tuple "chain" items]) := Frame.append (Nat.le_refl _) _
            have := chainStage_spec c.closed env hH (hchain (by omega)) hcatch init hinit k
              (h ++ [.tuple "chain" items]) h.length items (c.frame.trans c.frame.1 hfr)
              List.getElem?_concat_length (targetIter_inb hH htin hti)
            exact ⟨hfr.trans hfr.1 this.1, ResRel.mono hfr.1 this.2⟩

/-! ### Merge's constructor, merge() -/

theorem Holds.clsName {h : Heap} {b : Nat} {acc : Val} {sv : SV} (hh : Holds h b acc sv) (h0 : Heap) :
    acc.clsName h = match sv with
      | .cell o => o.cls
      | .imm v => v.clsName h0 := by
  cases sv with
  | imm v =>
    obtain ⟨rfl, hn⟩ := hh
    cases acc <;> first | rfl | exact absurd rfl (hn _)
  | cell o =>
    obtain ⟨a, rfl, _, h3, _⟩ := hh
    simp [Val.clsName, h3]

/-- `Merge.__init__` with an `init` that is not callable: refused, whatever `op` is -/
theorem mkMerge_notCallable (h0 : Heap) (sub : List Val) (op : MergeOpArg) (h : Heap) :
    (mkMerge sub .notCallable op h).2 = h ∧
      (mkMerge sub .notCallable op h).1 =
        (match refMergeOp h0 .notCallable op with
         | .ok o => .ok ⟨.merge, sub, .notCallable, o, false⟩
         | .error e => .error e) := by
  cases op <;> exact ⟨rfl, rfl⟩

theorem mkMerge_spec {h0 h : Heap} (c : Ctx h0 h) (sub : List Val) (init : Init) (op : MergeOpArg)
    (hi' : init = .notCallable ∨ InitOK h0 init) :
    Frame h.length h (mkMerge sub init op h).2 ∧
      (mkMerge sub init op h).1 =
        (match refMergeOp h0 init op with
         | .ok o => .ok ⟨.merge, sub, init, o, false⟩
         | .error e => .error e) := by
  by_cases hnc : init = .notCallable
  · subst hnc
    have := mkMerge_notCallable h0 sub op h
    rw [this.1]
    exact ⟨Frame.rfl' (Nat.le_refl _), this.2⟩
  have hi : InitOK h0 init := hi'.resolve_left hnc
  have hnb : (init == Init.notCallable) = false := by simpa using hnc
  obtain ⟨sv, hsv, I⟩ := callInit_law hi
  obtain ⟨hf, hh⟩ := I h c
  have hcls := hh.clsName h0
  have key : ∀ n : String,
      Frame h.length h (let (t, h1) := callInit init h
        match methodOf (t.clsName h1) n with
        | some o => ((.ok ⟨.merge, sub, init, o, false⟩ : Except Err FoldSpec), h1)
        | none => (.error (.raised "ValueError"), h1)).2 ∧
      (let (t, h1) := callInit init h
        match methodOf (t.clsName h1) n with
        | some o => ((.ok ⟨.merge, sub, init, o, false⟩ : Except Err FoldSpec), h1)
        | none => (.error (.raised "ValueError"), h1)).1 =
      (match (match initSV h0 init with
          | some (.cell o) => (match methodOf o.cls n with
            | some o => Except.ok o
            | none => Except.error (Err.raised "ValueError"))
          | some (.imm v) => (match methodOf (v.clsName h0) n with
            | some o => Except.ok o
            | none => Except.error (Err.raised "ValueError"))
          | none => Except.error (Err.raised "ValueError")) with
        | .ok o => .ok ⟨.merge, sub, init, o, false⟩
        | .error e => .error e) := by
    intro n
    rw [hsv]
    simp only [hcls]
    cases sv with
    | imm v => dsimp only; cases methodOf (v.clsName h0) n <;> exact ⟨hf, rfl⟩
    | cell o => dsimp only; cases methodOf o.cls n <;> exact ⟨hf, rfl⟩
  cases op with
  | none => simp only [mkMerge, refMergeOp, hnb, Bool.false_eq_true, if_false]; exact key "update"
  | name n => simp only [mkMerge, refMergeOp, hnb, Bool.false_eq_true, if_false]; exact key n
  | iadd =>
    simp only [mkMerge, refMergeOp, hnb, Bool.false_eq_true, if_false]; exact ⟨Frame.rfl' (Nat.le_refl _), trivial⟩
  | firstWins =>
    simp only [mkMerge, refMergeOp, hnb, Bool.false_eq_true, if_false]; exact ⟨Frame.rfl' (Nat.le_refl _), trivial⟩
  | dictUnion =>
    simp only [mkMerge, refMergeOp, hnb, Bool.false_eq_true, if_false]; exact ⟨Frame.rfl' (Nat.le_refl _), trivial⟩
  | notCallable => exact ⟨Frame.rfl' (Nat.le_refl _), rfl⟩

theorem methodOf_ne_poke {c n : String} {o : Op} (h : methodOf c n = some o) : o ≠ .pokeElem := by
  intro ho; subst ho
  unfold methodOf at h
  split at h
  · cases h
  · split at h
    · cases h
    · split at h
      · cases h
      · cases h

/-- a Merge that was built has a callable `init` and an operator that writes to its accumulator only -/
theorem refMergeOp_ok {h0 : Heap} {init : Init} {op : MergeOpArg} {o : Op} (h : refMergeOp h0 init op = .ok o) :
    init ≠ .notCallable ∧ o ≠ .pokeElem := by
  have hnc : init ≠ .notCallable := by
    intro hn; subst hn; cases op <;> simp [refMergeOp] at h
  refine ⟨hnc, ?_⟩
  have hnb : (init == Init.notCallable) = false := by simpa using hnc
  have key : ∀ n : String,
      (match initSV h0 init with
        | some (.cell ob) => (match methodOf ob.cls n with
          | some o => Except.ok o
          | none => Except.error (Err.raised "ValueError"))
        | some (.imm v) => (match methodOf (v.clsName h0) n with
          | some o => Except.ok o
          | none => Except.error (Err.raised "ValueError"))
        | none => Except.error (Err.raised "ValueError")) = Except.ok o → o ≠ .pokeElem := by
    intro n hk
    cases hi : initSV h0 init with
    | none => simp [hi] at hk
    | some sv =>
      cases sv with
      | cell ob =>
        simp only [hi] at hk
        cases hm : methodOf ob.cls n with
        | none => simp [hm] at hk
        | some o' => simp only [hm] at hk; injection hk with hk; subst hk; exact methodOf_ne_poke hm
      | imm v =>
        simp only [hi] at hk
        cases hm : methodOf (v.clsName h0) n with
        | none => simp [hm] at hk
        | some o' => simp only [hm] at hk; injection hk with hk; subst hk; exact methodOf_ne_poke hm
  cases op with
  | none => simp only [refMergeOp, hnb, Bool.false_eq_true, if_false] at h; exact key "update" h
  | name n => simp only [refMergeOp, hnb, Bool.false_eq_true, if_false] at h; exact key n h
  | iadd => simp only [refMergeOp, hnb, Bool.false_eq_true, if_false] at h; injection h with h; subst h; decide
  | firstWins => simp only [refMergeOp, hnb, Bool.false_eq_true, if_false] at h; injection h with h; subst h; decide
  | dictUnion => simp only [refMergeOp, hnb, Bool.false_eq_true, if_false] at h; injection h with h; subst h; decide
  | notCallable => simp [refMergeOp] at h

theorem mergeFn_spec {h0 h : Heap} (c : Ctx h0 h) (env : Env) (hH : HandlerLaw h0 env)
    (hcatch : regLookup env.foldCatch "UnregisteredTarget" = some "FoldError")
    (sub : List Val) (init : Init) (op : MergeOpArg) (hinit' : init = .notCallable ∨ InitOK h0 init) {target : Val}
    (hsub : ∀ k ∈ sub, Val.inb h0.length k = true) (ht : Val.inb h0.length target = true) :
    Frame h.length h (mergeFn env sub init op h target).2 ∧
      ResRel h0.length h.length (mergeFn env sub init op h target) (refMerge env h0 sub init op target) := by
  have hm := mkMerge_spec c sub init op hinit'
  unfold mergeFn refMerge
  rcases hmk : mkMerge sub init op h with ⟨r, h1⟩
  rw [hmk] at hm
  simp only at hm
  cases hro : refMergeOp h0 init op with
  | error e =>
    rw [hro] at hm
    simp only [hm.2]
    exact ⟨hm.1, rfl⟩
  | ok o =>
    rw [hro] at hm
    simp only [hm.2]
    have hok := refMergeOp_ok hro
    have hinit : InitOK h0 init := hinit'.resolve_left hok.1
    have c1 : Ctx h0 h1 := c.step c.frame.1 hm.1
    have := glomit_spec c1 env hH hcatch ⟨.merge, sub, init, o, false⟩ hinit hok.2 hsub ht
    exact ⟨hm.1.trans hm.1.1 this.1, ResRel.mono hm.1.1 this.2⟩

/-! ### sequences of evaluations and what an observer sees -/

/-- `f` realises the reference `ref` on every later heap, touching nothing that existed -/
def EvalOK (h0 : Heap) (f : Heap → Val → Except Err Val × Heap) (ref : Val → RefRes) : Prop :=
  ∀ h t, Ctx h0 h → Val.inb h0.length t = true →
    Frame h.length h (f h t).2 ∧ ResRel h0.length h.length (f h t) (ref t)

theorem evalAll_frame {h0 : Heap} {f : Heap → Val → Except Err Val × Heap} {ref : Val → RefRes}
    (hf : EvalOK h0 f ref) :
    ∀ (targets : List Val), (∀ t ∈ targets, Val.inb h0.length t = true) → ∀ h, Ctx h0 h →
      Frame h.length h (evalAll f targets h).2 := by
  intro targets
  induction targets with
  | nil => intro _ h _; exact Frame.rfl' (Nat.le_refl _)
  | cons t ts ih =>
    intro ht h c
    have h1 := (hf h t c (ht t List.mem_cons_self)).1
    have h2 := ih (fun x hx => ht x (List.mem_cons_of_mem _ hx)) _ (c.step c.frame.1 h1)
    simp only [evalAll]
    exact h1.trans h1.1 h2

theorem evalAll_length {f : Heap → Val → Except Err Val × Heap} :
    ∀ (targets : List Val) (h : Heap), (evalAll f targets h).1.length = targets.length := by
  intro targets
  induction targets with
  | nil => intro _; rfl
  | cons t ts ih => intro h; simp [evalAll, ih]

theorem take_of_frame {n : Nat} {h0 h : Heap} (hn : n = h0.length) (f : Frame n h0 h) : h.take n = h0 := by
  apply List.ext_getElem?
  intro i
  rw [List.getElem?_take]
  by_cases hi : i < n
  · simp only [hi, if_true]; exact f.2 i hi
  · simp only [hi, if_false]; rw [List.getElem?_eq_none (by omega)]

theorem prevIndex_none {earlier : List (Except Err Val)} {a : Nat}
    (he : ∀ b, Except.ok (Val.ref b) ∈ earlier → b ≠ a) : prevIndex earlier a = none := by
  unfold prevIndex
  simp only
  split
  · rename_i hlt
    rw [List.findIdx_lt_length] at hlt
    obtain ⟨x, hx, hp⟩ := hlt
    split at hp
    · rename_i b
      simp only [beq_iff_eq] at hp
      exact absurd hp (he b hx)
    · cases hp
  · rfl

theorem showNew_ext {h0 h : Heap} (c : Ctx h0 h) (env : Env) {o : Obj} (ho : newOK h0.length o) :
    showNew env h o = showNew env h0 o := by
  cases o with
  | tuple cls xs =>
    simp only [showNew]
    by_cases hc : (cls == "chain") = true
    · simp only [hc, if_true]
      rw [joinWith_ext c (ho (by simpa using hc))]
    · have hc' : (cls == "chain") = false := by simpa using hc
      simp only [hc', Bool.false_eq_true, if_false]
  | _ => rfl

theorem showInput_ext {h0 h : Heap} (c : Ctx h0 h) {a : Nat} (ha : a < h0.length) :
    showInput h a = showInput h0 a := by
  simp only [showInput, c.get ha]

/-- what an observer sees of one evaluation that realises `r` -/
theorem observeOne_spec {h0 hfin : Heap} (cfin : Ctx h0 hfin) (env : Env) {b : Nat} (hb : h0.length ≤ b)
    {earlier : List (Except Err Val)} (he : ∀ a, Except.ok (Val.ref a) ∈ earlier → a < b)
    {res : Except Err Val} {h1 : Heap} {r : RefRes} (hr : ResRel h0.length b (res, h1) r)
    (hkeep : ∀ a, a < h1.length → hfin[a]? = h1[a]?) :
    observeOne env h0.length hfin earlier res = showRef env h0 r := by
  cases r with
  | err e => simp only [ResRel] at hr; subst hr; rfl
  | imm v =>
    obtain ⟨h1', hn⟩ := hr
    simp only at h1'; subst h1'
    cases v <;> first | rfl | exact absurd rfl (hn _)
  | same v =>
    obtain ⟨h1', hin⟩ := hr
    simp only at h1'; subst h1'
    cases v with
    | ref a =>
      have ha := inb_ref.mp hin
      simp only [observeOne, ha, if_true, showRef, showInput_ext cfin ha]
    | _ => rfl
  | new o =>
    obtain ⟨a, h1', h2, h3, h4⟩ := hr
    simp only at h1' h3; subst h1'
    have hna : ¬ a < h0.length := by omega
    have hprev : prevIndex earlier a = none := prevIndex_none (fun b' hb' => by have := he b' hb'; omega)
    have hget : hfin[a]? = some o := by rw [hkeep a (get_lt h3)]; exact h3
    simp only [observeOne, hna, if_false, hprev, hget, showRef, showNew_ext cfin env h4]

theorem observeAll_spec {h0 : Heap} (hc : closedHeap h0 = true) (env : Env)
    {f : Heap → Val → Except Err Val × Heap} {ref : Val → RefRes} (hf : EvalOK h0 f ref) :
    ∀ (targets : List Val), (∀ t ∈ targets, Val.inb h0.length t = true) →
    ∀ (h : Heap), Ctx h0 h → ∀ (earlier : List (Except Err Val)),
      (∀ a, Except.ok (Val.ref a) ∈ earlier → a < h.length) →
    ∀ (hfin : Heap), Frame (evalAll f targets h).2.length (evalAll f targets h).2 hfin →
      observeAll env h0.length hfin earlier (evalAll f targets h).1 =
        targets.map (fun t => showRef env h0 (ref t)) := by
  intro targets
  induction targets with
  | nil => intro _ h _ earlier _ hfin _; rfl
  | cons t ts ih =>
    intro ht h c earlier he hfin hfr
    have hft := hf h t c (ht t List.mem_cons_self)
    have c1 : Ctx h0 (f h t).2 := c.step c.frame.1 hft.1
    have hrest := evalAll_frame hf ts (fun x hx => ht x (List.mem_cons_of_mem _ hx)) _ c1
    simp only [evalAll] at hfr ⊢
    simp only [observeAll, List.map_cons]
    have cfin : Ctx h0 hfin := (c1.step c1.frame.1 hrest).step
      (Nat.le_trans c1.frame.1 hrest.1) hfr
    have hkeep : ∀ a, a < (f h t).2.length → hfin[a]? = (f h t).2[a]? := by
      intro a ha
      rw [hfr.2 a (Nat.lt_of_lt_of_le ha hrest.1), hrest.2 a ha]
    congr 1
    · exact observeOne_spec cfin env c.frame.1 he (r := ref t) (h1 := (f h t).2) hft.2 hkeep
    · apply ih (fun x hx => ht x (List.mem_cons_of_mem _ hx)) _ c1 _ _ hfin hfr
      intro a ha
      rcases List.mem_append.mp ha with h1 | h1
      · exact Nat.lt_of_lt_of_le (he a h1) hft.1.1
      · simp only [List.mem_singleton] at h1
        have hr := hft.2
        have hlen := Nat.le_trans c.frame.1 hft.1.1
        revert hr h1 hlen
        rcases f h t with ⟨res, hh1⟩
        intro h1 hr hlen
        simp only at h1 hlen ⊢
        subst h1
        cases hrt : ref t with
        | err e => rw [hrt] at hr; simp [ResRel] at hr
        | imm v =>
          rw [hrt] at hr; obtain ⟨h1', hn⟩ := hr
          simp only at h1'; injection h1' with h1'; exact absurd h1'.symm (hn a)
        | same v =>
          rw [hrt] at hr; obtain ⟨h1', hin⟩ := hr
          simp only at h1'; injection h1' with h1'; subst h1'
          exact Nat.lt_of_lt_of_le (inb_ref.mp hin) hlen
        | new o =>
          rw [hrt] at hr; obtain ⟨a', h1', _, h3, _⟩ := hr
          simp only at h1' h3; injection h1' with h1'; injection h1' with h1'; subst h1'
          exact get_lt h3

/-! ### special cases of the reduce -/

theorem refReduce_eq_foldlM (step : SV → Val → Except Err SV) (items : List Val) (sv : SV) :
    refReduce step items sv = items.foldlM step sv := by
  induction items generalizing sv with
  | nil => rfl
  | cons v vs ih =>
    simp only [refReduce, List.foldlM_cons, bind, Except.bind]
    cases step sv v with
    | error e => rfl
    | ok sv' => exact ih sv'

/-- none of these items is a raise-marker -/
def NM (xs : List Val) : Prop := ∀ x ∈ xs, raiseMarker x = none

theorem firstRaise_none_iff (xs : List Val) : firstRaise xs = none ↔ NM xs := by
  induction xs with
  | nil => simp [firstRaise, NM]
  | cons x xs ih =>
    simp only [firstRaise, NM, List.mem_cons, forall_eq_or_imp]
    cases hx : raiseMarker x with
    | some c => simp
    | none => simp only [true_and]; exact ih

theorem guardOp_nm {f : OpFn} {h : Heap} {sv : SV} {v : Val} (hv : raiseMarker v = none) :
    guardOp f h sv v = f h sv v := by simp [guardOp, hv]

/-- over items none of which raises, the loop's own check is invisible -/
theorem refReduce_guard_fold (f : OpFn) (h0 : Heap) :
    ∀ (items : List Val) (sv : SV), NM items →
      refReduce (foldStep (guardOp f) h0) items sv = refReduce (foldStep f h0) items sv := by
  intro items
  induction items with
  | nil => intro _ _; rfl
  | cons v vs ih =>
    intro sv hn
    have hv := hn v List.mem_cons_self
    have hs : foldStep (guardOp f) h0 sv v = foldStep f h0 sv v := by simp [foldStep, guardOp_nm hv]
    simp only [refReduce, hs]
    cases foldStep f h0 sv v with
    | error e => rfl
    | ok sv' => exact ih sv' (fun x hx => hn x (List.mem_cons_of_mem _ hx))

theorem refReduce_guard_merge (f : OpFn) (h0 : Heap) :
    ∀ (items : List Val) (sv : SV), NM items →
      refReduce (mergeStep (guardOp f) h0) items sv = refReduce (mergeStep f h0) items sv := by
  intro items
  induction items with
  | nil => intro _ _; rfl
  | cons v vs ih =>
    intro sv hn
    have hv := hn v List.mem_cons_self
    have hs : mergeStep (guardOp f) h0 sv v = mergeStep f h0 sv v := by simp [mergeStep, guardOp_nm hv]
    simp only [refReduce, hs]
    cases mergeStep f h0 sv v with
    | error e => rfl
    | ok sv' => exact ih sv' (fun x hx => hn x (List.mem_cons_of_mem _ hx))

theorem strChars_nm (s : String) : NM (strChars s) := by
  intro x hx
  simp only [strChars, List.mem_map] at hx
  obtain ⟨c, _, rfl⟩ := hx
  rfl

theorem noMarkers_get {h0 : Heap} (hm : noMarkers h0 = true) {a : Nat} {o : Obj} (ho : h0[a]? = some o) :
    NM (cellVals o) := by
  unfold noMarkers at hm
  rw [List.all_eq_true] at hm
  have := hm o (List.mem_of_getElem? ho)
  simp only [List.all_eq_true, Option.isNone_iff_eq_none] at this
  exact this

theorem rawIterBase_nm {h0 : Heap} (hm : noMarkers h0 = true) {v : Val} (hv : raiseMarker v = none)
    {xs : List Val} (hr : rawIterBase h0 v = some xs) : NM xs := by
  cases v with
  | str s => simp only [rawIterBase, Option.some.injEq] at hr; subst hr; exact strChars_nm s
  | ref a =>
    simp only [rawIterBase] at hr
    split at hr
    all_goals (try (simp at hr; done))
    all_goals
      rename_i heq
      have hcl := noMarkers_get hm heq
      simp only [Option.some.injEq] at hr
      subst hr
      intro x hx
      apply hcl
      simp [cellVals]
      try exact hx
    · obtain ⟨p, hp, rfl⟩ := List.mem_map.mp hx
      exact ⟨p.1, p.2, hp, Or.inl rfl⟩
  | sent n =>
    simp only [rawIterBase, hv] at hr
    simp at hr
  | _ => simp [rawIterBase] at hr

theorem rawIter1_nm {h0 : Heap} (hm : noMarkers h0 = true) {v : Val} (hv : raiseMarker v = none)
    {xs : List Val} (hr : rawIter1 h0 v = some xs) : NM xs := by
  cases v with
  | ref a =>
    simp only [rawIter1] at hr
    cases ho : h0[a]? with
    | none => rw [ho] at hr; exact rawIterBase_nm hm rfl hr
    | some o =>
      rw [ho] at hr
      cases o with
      | inst cl as =>
        simp only at hr
        split at hr
        · cases hat : attrOf as "names" with
          | none => simp [hat] at hr
          | some w =>
            simp only [hat] at hr
            exact rawIterBase_nm hm (noMarkers_get hm ho w (by simpa [cellVals] using attrOf_mem hat)) hr
        · split at hr
          · injection hr with hr; subst hr; intro x hx; cases hx
          · cases hr
      | _ => exact rawIterBase_nm hm rfl hr
  | _ => simp only [rawIter1] at hr; exact rawIterBase_nm hm hv hr

theorem joinWith_nm {h0 : Heap} (hm : noMarkers h0 = true) {xs ys : List Val} (hx : NM xs)
    (hj : joinWith (rawIter1 h0) xs = some ys) : NM ys := by
  induction xs generalizing ys with
  | nil => simp [joinWith] at hj; subst hj; intro x hx; cases hx
  | cons x r ih =>
    simp only [joinWith] at hj
    split at hj
    · rename_i a b ha hb
      simp only [Option.some.injEq] at hj; subst hj
      intro y hy
      rcases List.mem_append.mp hy with h1 | h1
      · exact rawIter1_nm hm (hx x List.mem_cons_self) ha y h1
      · exact ih (fun z hz => hx z (List.mem_cons_of_mem _ hz)) hb y h1
    · simp at hj

theorem joinN_nm {h0 : Heap} (hm : noMarkers h0 = true) :
    ∀ (n : Nat) (xs ys : List Val), NM xs → joinN h0 n xs = some ys → NM ys := by
  intro n
  induction n with
  | zero => intro xs ys hx h; simp [joinN] at h; subst h; exact hx
  | succ n ih =>
    intro xs ys hx h
    simp only [joinN] at h
    cases hj : joinWith (rawIter1 h0) xs with
    | none => simp [hj] at h
    | some zs => simp only [hj] at h; exact ih zs ys (joinWith_nm hm hx hj) h

/-- on a heap without raising generators, consuming an input iterable is `iter` and nothing else -/
theorem iterStrict_nm {h0 : Heap} (hc : closedHeap h0 = true) (hm : noMarkers h0 = true) {v : Val}
    (hv : Val.inb h0.length v = true) (hvm : raiseMarker v = none) :
    iterStrict h0 v = match rawIter h0 v with
      | some ys => .ok ys
      | none => .error typeErr := by
  unfold iterStrict
  cases hr : rawIter h0 v with
  | none => rfl
  | some ys =>
    have : NM ys := by
      rw [rawIter_ext (Ctx.base hc) hv] at hr
      exact rawIter1_nm hm hvm hr
    simp only [(firstRaise_none_iff ys).mpr this]

theorem allInts_nm {items : List Val} {is : List Int} (h : allInts items = some is) : NM items := by
  induction items generalizing is with
  | nil => intro x hx; cases hx
  | cons v vs ih =>
    simp only [allInts] at h
    cases hv : asInt v with
    | none => simp [hv] at h
    | some i =>
      cases hvs : allInts vs with
      | none => simp [hv, hvs] at h
      | some is' =>
        intro x hx
        rcases List.mem_cons.mp hx with rfl | hx
        · cases x <;> simp [asInt] at hv <;> rfl
        · exact ih hvs x hx

theorem dictsOf_nm {h0 : Heap} {items : List Val} {ds : List (List (Val × Val))}
    (h : dictsOf h0 items = some ds) : NM items := by
  induction items generalizing ds with
  | nil => intro x hx; cases hx
  | cons v vs ih =>
    cases v with
    | ref a =>
      simp only [dictsOf] at h
      cases ho : h0[a]? with
      | none => simp [ho] at h
      | some o =>
        cases hds : dictsOf h0 vs with
        | none => cases o <;> simp [ho, hds] at h
        | some ds' =>
          intro x hx
          rcases List.mem_cons.mp hx with rfl | hx
          · rfl
          · exact ih hds x hx
    | _ => simp [dictsOf] at h

theorem reduce_iadd_int (h0 : Heap) :
    ∀ (items : List Val) (is : List Int) (a : Int), allInts items = some is →
      refReduce (foldStep (pyOp .iadd) h0) items (.imm (.int a)) = .ok (.imm (.int (a + is.sum))) := by
  intro items
  induction items with
  | nil => intro is a h; simp [allInts] at h; subst h; simp [refReduce]
  | cons v vs ih =>
    intro is a h
    simp only [allInts] at h
    cases hv : asInt v with
    | none => simp [hv] at h
    | some i =>
      cases hvs : allInts vs with
      | none => simp [hv, hvs] at h
      | some is' =>
        simp [hv, hvs] at h; subst h
        have : foldStep (pyOp .iadd) h0 (.imm (.int a)) v = .ok (.imm (.int (a + i))) := by
          cases v <;> simp [asInt] at hv <;> subst hv <;> rfl
        simp only [refReduce, this, ih is' (a + i) hvs, List.sum_cons, Int.add_assoc]

theorem reduce_iadd_list (h0 : Heap) (hc : closedHeap h0 = true) (hm : noMarkers h0 = true) :
    ∀ (items : List Val) (acc : List Val), (∀ x ∈ items, Val.inb h0.length x = true) → NM items →
      refReduce (foldStep (pyOp .iadd) h0) items (.cell (.list "list" acc)) =
        match joinWith (rawIter h0) items with
        | some ys => .ok (.cell (.list "list" (acc ++ ys)))
        | none => .error typeErr := by
  intro items
  induction items with
  | nil => intro acc _ _; simp [refReduce, joinWith]
  | cons v vs ih =>
    intro acc hin hni
    have hstep : foldStep (pyOp .iadd) h0 (.cell (.list "list" acc)) v =
        match rawIter h0 v with
        | some ys => .ok (.cell (.list "list" (acc ++ ys)))
        | none => .error typeErr := by
      have : ("list" == "Acc") = false := by decide
      simp only [foldStep, pyOp, pyAdd, this, if_true, Bool.false_eq_true, if_false,
        iterStrict_nm hc hm (hin v List.mem_cons_self) (hni v List.mem_cons_self)]
      cases rawIter h0 v <;> rfl
    simp only [refReduce, hstep, joinWith]
    cases hr : rawIter h0 v with
    | none => rfl
    | some ys =>
      simp only [ih (acc ++ ys) (fun x hx => hin x (List.mem_cons_of_mem _ hx))
        (fun x hx => hni x (List.mem_cons_of_mem _ hx))]
      cases joinWith (rawIter h0) vs with
      | none => rfl
      | some zs => simp [List.append_assoc]

theorem joinWith_raw_eq {h0 : Heap} (hc : closedHeap h0 = true) {items : List Val}
    (hi : ∀ x ∈ items, Val.inb h0.length x = true) :
    joinWith (rawIter h0) items = joinWith (rawIter1 h0) items :=
  joinWith_congr (fun x hx => rawIter_ext (Ctx.base hc) (hi x hx))

theorem joinN_inb {h0 : Heap} (hc : closedHeap h0 = true) :
    ∀ (n : Nat) (xs ys : List Val), (∀ x ∈ xs, Val.inb h0.length x = true) → joinN h0 n xs = some ys →
      ∀ y ∈ ys, Val.inb h0.length y = true := by
  intro n
  induction n with
  | zero => intro xs ys hx h; simp [joinN] at h; subst h; exact hx
  | succ n ih =>
    intro xs ys hx h
    rw [joinN_succ] at h
    cases hj : joinWith (rawIter1 h0) xs with
    | none => simp [hj] at h
    | some zs => simp only [hj] at h; exact ih zs ys (joinWith_inb hc hj) h

theorem joinN_succ' (h0 : Heap) :
    ∀ (n : Nat) (xs : List Val), joinN h0 (n + 1) xs =
      match joinN h0 n xs with
      | some ys => joinWith (rawIter1 h0) ys
      | none => none := by
  intro n
  induction n with
  | zero => intro xs; simp only [joinN_succ, joinN]; cases joinWith (rawIter1 h0) xs <;> rfl
  | succ n ih =>
    intro xs
    rw [joinN_succ, joinN_succ h0 n xs]
    cases joinWith (rawIter1 h0) xs with
    | none => rfl
    | some zs => exact ih zs

/-! ### dictionaries: last writer wins -/

def keyNorm : Val → Val
  | .bool b => .int (if b then 1 else 0)
  | v => v

theorem pyKeyEq_norm (a b : Val) : pyKeyEq a b = decide (keyNorm a = keyNorm b) := by
  cases a with
  | bool x =>
    cases b with
    | bool y => cases x <;> cases y <;> simp [pyKeyEq, keyNorm]
    | int j => cases x <;> simp [pyKeyEq, keyNorm, Bool.beq_eq_decide_eq]
    | _ => simp [pyKeyEq, keyNorm]
  | int i =>
    cases b with
    | bool y => cases y <;> simp [pyKeyEq, keyNorm, Bool.beq_eq_decide_eq]
    | int j => simp [pyKeyEq, keyNorm, Bool.beq_eq_decide_eq]
    | _ => simp [pyKeyEq, keyNorm]
  | none => cases b <;> simp [pyKeyEq, keyNorm]
  | str s => cases b <;> simp [pyKeyEq, keyNorm, Bool.beq_eq_decide_eq]
  | float s => cases b <;> simp [pyKeyEq, keyNorm, Bool.beq_eq_decide_eq]
  | sent s => cases b <;> simp [pyKeyEq, keyNorm, Bool.beq_eq_decide_eq]
  | ty s => cases b <;> simp [pyKeyEq, keyNorm, Bool.beq_eq_decide_eq]
  | fn s => cases b <;> simp [pyKeyEq, keyNorm, Bool.beq_eq_decide_eq]
  | ref s => cases b <;> simp [pyKeyEq, keyNorm, Bool.beq_eq_decide_eq]

theorem pyKeyEq_trans_left {a b q : Val} (hab : pyKeyEq a b = true) : pyKeyEq a q = pyKeyEq b q := by
  simp only [pyKeyEq_norm, decide_eq_true_eq] at hab ⊢
  rw [hab]

theorem dictLookup_cons (p : Val × Val) (es : List (Val × Val)) (k : Val) :
    dictLookup (p :: es) k = if pyKeyEq p.1 k then some p.2 else dictLookup es k := by
  simp only [dictLookup, List.find?_cons]
  cases pyKeyEq p.1 k <;> rfl

theorem dictLookup_dictSet (es : List (Val × Val)) (k x q : Val) :
    dictLookup (dictSet es k x) q = if pyKeyEq k q then some x else dictLookup es q := by
  induction es with
  | nil => simp [dictSet, dictLookup_cons, dictLookup]
  | cons p es ih =>
    simp only [dictSet]
    by_cases hpk : pyKeyEq p.1 k = true
    · simp only [hpk, if_true, dictLookup_cons]
      rw [pyKeyEq_trans_left hpk]
      cases pyKeyEq k q <;> rfl
    · have hpk' : pyKeyEq p.1 k = false := by simpa using hpk
      simp only [hpk', Bool.false_eq_true, if_false, dictLookup_cons, ih]
      by_cases hkq : pyKeyEq k q = true
      · have : pyKeyEq p.1 q = false := by
          simp only [pyKeyEq_norm, decide_eq_true_eq, decide_eq_false_iff_not] at hkq hpk' ⊢
          rw [← hkq]; exact hpk'
        simp [hkq, this]
      · have hkq' : pyKeyEq k q = false := by simpa using hkq
        simp [hkq']

theorem dictLookup_applyPairs (ps : List (Val × Val)) :
    ∀ (es : List (Val × Val)) (q : Val),
      dictLookup (applyPairs es ps) q =
        match lastPair ps q with
        | some v => some v
        | none => dictLookup es q := by
  induction ps with
  | nil => intro es q; rfl
  | cons p ps ih =>
    intro es q
    have : applyPairs es (p :: ps) = applyPairs (dictSet es p.1 p.2) ps := rfl
    rw [this, ih, lastPair, dictLookup_dictSet]
    cases lastPair ps q with
    | some v => rfl
    | none => cases pyKeyEq p.1 q <;> rfl

theorem applyPairs_append (es ps qs : List (Val × Val)) :
    applyPairs es (ps ++ qs) = applyPairs (applyPairs es ps) qs := by
  simp [applyPairs, List.foldl_append]

theorem reduce_update_dicts (h0 : Heap) (c : String) (hc : (c == "Acc") = false) :
    ∀ (items : List Val) (ds : List (List (Val × Val))) (es : List (Val × Val)), dictsOf h0 items = some ds →
      refReduce (mergeStep (pyOp (.update c)) h0) items (.cell (.dict c es)) =
        .ok (.cell (.dict c (applyPairs es ds.flatten))) := by
  intro items
  induction items with
  | nil => intro ds es h; simp [dictsOf] at h; subst h; simp [refReduce, applyPairs]
  | cons v vs ih =>
    intro ds es h
    cases v with
    | ref a =>
      simp only [dictsOf] at h
      cases ho : h0[a]? with
      | none => simp [ho] at h
      | some o =>
        cases o with
        | dict c2 es2 =>
          cases hds : dictsOf h0 vs with
          | none => simp [ho, hds] at h
          | some ds' =>
            simp [ho, hds] at h; subst h
            have : mergeStep (pyOp (.update c)) h0 (.cell (.dict c es)) (.ref a) =
                .ok (.cell (.dict c (applyPairs es es2))) := by
              simp [mergeStep, pyOp, pyUpdate, hc, updatePairs, ho, Except.map, mergeRet]
            simp only [refReduce, this, ih ds' _ hds, List.flatten_cons, applyPairs_append]
        | _ => simp [ho] at h
    | _ => simp [dictsOf] at h

/-! ### dictionaries: first writer wins (`setdefault`) -/

theorem dictLookup_eq_firstPair (es : List (Val × Val)) (q : Val) : dictLookup es q = firstPair es q := by
  induction es with
  | nil => rfl
  | cons p es ih =>
    rw [dictLookup_cons, firstPair, ih]

theorem dictLookup_append (es fs : List (Val × Val)) (q : Val) :
    dictLookup (es ++ fs) q = match dictLookup es q with
      | some v => some v
      | none => dictLookup fs q := by
  induction es with
  | nil => simp [dictLookup]
  | cons p es ih =>
    simp only [List.cons_append, dictLookup_cons, ih]
    cases pyKeyEq p.1 q <;> rfl

theorem dictLookup_key_congr {es : List (Val × Val)} {k q : Val} (hkq : pyKeyEq k q = true) :
    dictLookup es k = dictLookup es q := by
  induction es with
  | nil => rfl
  | cons p es ih =>
    simp only [dictLookup_cons, ih]
    have : pyKeyEq p.1 k = pyKeyEq p.1 q := by
      simp only [pyKeyEq_norm, decide_eq_true_eq] at hkq ⊢
      rw [hkq]
    rw [this]

theorem dictLookup_setDefault (es : List (Val × Val)) (k x q : Val) :
    dictLookup (dictSetDefault es k x) q = match dictLookup es q with
      | some v => some v
      | none => if pyKeyEq k q then some x else none := by
  unfold dictSetDefault
  cases hk : dictLookup es k with
  | some v =>
    simp only
    cases hq : dictLookup es q with
    | some w => rfl
    | none =>
      by_cases hkq : pyKeyEq k q = true
      · rw [dictLookup_key_congr hkq, hq] at hk; cases hk
      · simp [hkq]
  | none =>
    have hnil : dictLookup ([] : List (Val × Val)) q = none := rfl
    rw [dictLookup_append, dictLookup_cons, hnil]

theorem dictLookup_setDefaults (ps : List (Val × Val)) :
    ∀ (es : List (Val × Val)) (q : Val),
      dictLookup (ps.foldl (fun e p => dictSetDefault e p.1 p.2) es) q =
        match dictLookup es q with
        | some v => some v
        | none => firstPair ps q := by
  induction ps with
  | nil => intro es q; simp only [List.foldl_nil, firstPair]; cases dictLookup es q <;> rfl
  | cons p ps ih =>
    intro es q
    simp only [List.foldl_cons, ih, dictLookup_setDefault, firstPair]
    cases dictLookup es q with
    | some v => rfl
    | none => cases pyKeyEq p.1 q <;> rfl

theorem setDefaults_append (es ps qs : List (Val × Val)) :
    (ps ++ qs).foldl (fun e p => dictSetDefault e p.1 p.2) es =
      qs.foldl (fun e p => dictSetDefault e p.1 p.2) (ps.foldl (fun e p => dictSetDefault e p.1 p.2) es) := by
  simp [List.foldl_append]

theorem reduce_firstWins_dicts (h0 : Heap) (c : String) :
    ∀ (items : List Val) (ds : List (List (Val × Val))) (es : List (Val × Val)), dictsOf h0 items = some ds →
      refReduce (mergeStep (pyOp .firstWins) h0) items (.cell (.dict c es)) =
        .ok (.cell (.dict c (ds.flatten.foldl (fun e p => dictSetDefault e p.1 p.2) es))) := by
  intro items
  induction items with
  | nil => intro ds es h; simp [dictsOf] at h; subst h; simp [refReduce]
  | cons v vs ih =>
    intro ds es h
    cases v with
    | ref a =>
      simp only [dictsOf] at h
      cases ho : h0[a]? with
      | none => simp [ho] at h
      | some o =>
        cases o with
        | dict c2 es2 =>
          cases hds : dictsOf h0 vs with
          | none => simp [ho, hds] at h
          | some ds' =>
            simp [ho, hds] at h; subst h
            have : mergeStep (pyOp .firstWins) h0 (.cell (.dict c es)) (.ref a) =
                .ok (.cell (.dict c (es2.foldl (fun e p => dictSetDefault e p.1 p.2) es))) := by
              simp [mergeStep, pyOp, pyFirstWins, ho, Except.map, mergeRet]
            simp only [refReduce, this, ih ds' _ hds, List.flatten_cons, setDefaults_append]
        | _ => simp [ho] at h
    | _ => simp [dictsOf] at h

/-! ### whole programs -/

theorem WFConv_parts {env : Env} (hwf : WFConv env = true) :
    regLookup env.foldCatch "UnregisteredTarget" = some "FoldError" ∧
    regLookup env.iterCatch "Exception" = some "TypeError" ∧
    env.excTable.isSub "FoldError" "GlomError" = true := by
  simp only [WFConv, Bool.and_eq_true, beq_iff_eq] at hwf
  exact ⟨hwf.1.1.1.1, hwf.1.1.1.2, hwf.1.1.2⟩

theorem WF_parts {env : Env} (hwf : WF env = true) (hiter : env.run "iter" = rawIter) :
    regLookup env.foldCatch "UnregisteredTarget" = some "FoldError" ∧
    ChainOK env ∧
    env.excTable.isSub "FoldError" "GlomError" = true := by
  simp only [WF, Bool.and_eq_true, chainIter, decide_eq_true_eq] at hwf
  obtain ⟨h1, h2, h3⟩ := WFConv_parts hwf.1
  exact ⟨h1, ⟨hwf.2, hiter, h2⟩, h3⟩

theorem observeAll_errors (env : Env) (n0 : Nat) (hfin : Heap) (e : Err) :
    ∀ (targets : List Val) (earlier : List (Except Err Val)),
      observeAll env n0 hfin earlier (targets.map (fun _ => (Except.error e : Except Err Val))) =
        targets.map (fun _ => errR env e) := by
  intro targets
  induction targets with
  | nil => intro _; rfl
  | cons t ts ih => intro earlier; simp only [List.map_cons, observeAll, observeOne, ih]

theorem allInb {n : Nat} {l : List Val} (h : l.all (Val.inb n) = true) : ∀ x ∈ l, Val.inb n x = true := by
  simpa [List.all_eq_true] using h

theorem evalAll_observe {h0 : Heap} (hc : closedHeap h0 = true) (env : Env)
    {f : Heap → Val → Except Err Val × Heap} {ref : Val → RefRes} (hf : EvalOK h0 f ref)
    (targets : List Val) (ht : ∀ t ∈ targets, Val.inb h0.length t = true) (h : Heap) (c : Ctx h0 h) :
    Frame h.length h (evalAll f targets h).2 ∧
      observeAll env h0.length (evalAll f targets h).2 [] (evalAll f targets h).1 =
        targets.map (fun t => showRef env h0 (ref t)) :=
  ⟨evalAll_frame hf targets ht h c,
   observeAll_spec hc env hf targets ht h c [] (by simp) _ (Frame.rfl' (Nat.le_refl _))⟩

/-- the hypotheses on a program: its sub-spec keys and `init` operands are input values, `init`
    allocates, a copying factory copies a list / tuple / dict, `op` writes to its accumulator only,
    and the constructor of the spec class accepted its arguments (`runHistory` deals with the rest) -/
structure ProgOK (h0 : Heap) (p : Prog) : Prop where
  inb : ∀ k ∈ progVals p, Val.inb h0.length k = true
  allocates : p.initAllocates = true
  wf : p.initWF h0 = true
  lawful : p.opLawful = true
  ctor : ctorErr p = none

theorem wf_of_refused {h0 : Heap} {i : Init} (h : i.wfOrRefused h0 = true) :
    i = .notCallable ∨ i.wf h0 = true := by
  simp only [Init.wfOrRefused, Bool.or_eq_true, beq_iff_eq] at h
  exact h

/-- the table-level evaluator of a program whose spec object is built (`merge`: see `runProg`) -/
def progEval (p : Prog) : Env → Heap → Val → Except Err Val × Heap :=
  match p with
  | .fold sub i op => fun e => glomit e (mkFold sub i op)
  | .sum sub i => fun e => glomit e (mkSum sub i)
  | .count => fun e => glomit e mkCount
  | .flatten sub i => fun e => glomit e (mkFlatten sub i)
  | .merge sub i _ => fun e => glomit e ⟨.merge, sub, i, .iadd, false⟩      -- not used
  | .flattenFn sub i l => fun e => flattenFn e sub i l
  | .mergeFn sub i op => fun e => mergeFn e sub i op
  | .oddCall c => fun _ => oddCall c

def Prog.isMerge : Prog → Bool
  | .merge .. => true
  | _ => false

/-- every program but `Merge(...)` (which has a construction phase) realises its reference on
    every later heap, under every handler table meeting the hypotheses -/
theorem progEval_ok {h0 : Heap} {p : Prog} (hp : ProgOK h0 p) (hm : p.isMerge = false) (env : Env)
    (hH : HandlerLaw h0 env)
    (hcatch : regLookup env.foldCatch "UnregisteredTarget" = some "FoldError")
    (hchain : p.usesChain = true → ChainOK env) :
    EvalOK h0 (progEval p env) (refProg env h0 p) := by
  cases p with
  | fold sub i op =>
    have hs : ∀ k ∈ sub, Val.inb h0.length k = true := fun k hk => hp.inb k (by simp [progVals, hk])
    have hct := hp.ctor
    simp only [ctorErr] at hct
    have hnc : i ≠ .notCallable := by intro hn; subst hn; simp at hct
    have hop : op ≠ .pokeElem := by have := hp.lawful; simpa [Prog.opLawful] using this
    have hi : InitOK h0 i := ⟨hp.allocates, (wf_of_refused hp.wf).resolve_left hnc,
      fun v hv => hp.inb v (by simp [progVals, hv])⟩
    exact fun h t c ht' => glomit_spec c env hH hcatch (mkFold sub i op) hi hop hs ht'
  | sum sub i =>
    have hs : ∀ k ∈ sub, Val.inb h0.length k = true := fun k hk => hp.inb k (by simp [progVals, hk])
    have hct := hp.ctor
    simp only [ctorErr] at hct
    have hnc : i ≠ .notCallable := by intro hn; subst hn; simp at hct
    have hi : InitOK h0 i := ⟨hp.allocates, (wf_of_refused hp.wf).resolve_left hnc,
      fun v hv => hp.inb v (by simp [progVals, hv])⟩
    exact fun h t c ht' => glomit_spec c env hH hcatch (mkSum sub i) hi (by simp [mkSum]) hs ht'
  | count =>
    exact fun h t c ht' => glomit_spec c env hH hcatch mkCount (InitOK.plain h0 rfl rfl rfl) (by simp [mkCount])
      (by simp [mkCount]) ht'
  | flatten sub i =>
    have hs : ∀ k ∈ (mkFlatten sub i).sub, Val.inb h0.length k = true := by
      intro k hk; apply hp.inb; cases i <;> simp [progVals, mkFlatten] at hk ⊢ <;> exact Or.inl hk
    have hi : InitArgOK h0 i := by
      cases i with
      | lazy => trivial
      | init j =>
        have hct := hp.ctor
        simp only [ctorErr] at hct
        have hnc : j ≠ .notCallable := by intro hn; subst hn; simp at hct
        have hw : j.wfOrRefused h0 = true := hp.wf
        exact ⟨hp.allocates, (wf_of_refused hw).resolve_left hnc,
          fun v hv => hp.inb v (by simp [progVals, InitArg.vals, hv])⟩
    exact fun h t c ht' => glomit_spec c env hH hcatch (mkFlatten sub i) (hi.mk' sub)
      (by cases i <;> simp [mkFlatten]) hs ht'
  | flattenFn sub i l =>
    have hs : ∀ k ∈ sub, Val.inb h0.length k = true := fun k hk => hp.inb k (by simp [progVals, hk])
    have hi : i = .init .notCallable ∨ InitArgOK h0 i := by
      cases i with
      | lazy => exact Or.inr trivial
      | init j =>
        have hw : j.wfOrRefused h0 = true := hp.wf
        rcases wf_of_refused hw with h1 | h1
        · exact Or.inl (by rw [h1])
        · exact Or.inr ⟨hp.allocates, h1, fun v hv => hp.inb v (by simp [progVals, InitArg.vals, hv])⟩
    exact fun h t c ht' => flattenFn_spec c env hH (fun hl => hchain (by simp [Prog.usesChain, hl])) hcatch sub i hi hs ht'
  | mergeFn sub i op =>
    have hs : ∀ k ∈ sub, Val.inb h0.length k = true := fun k hk => hp.inb k (by simp [progVals, hk])
    have hi : i = .notCallable ∨ InitOK h0 i := by
      rcases wf_of_refused hp.wf with h1 | h1
      · exact Or.inl h1
      · exact Or.inr ⟨hp.allocates, h1, fun v hv => hp.inb v (by simp [progVals, hv])⟩
    exact fun h t c ht' => mergeFn_spec c env hH hcatch sub i op hi hs ht'
  | merge sub i op => cases hm
  | oddCall oc =>
    intro h t c ht'
    cases oc with
    | extraKw => exact ⟨Frame.rfl' (Nat.le_refl _), rfl⟩
    | levelsNone => exact ⟨Frame.rfl' (Nat.le_refl _), rfl⟩
    | levelsFloat bits =>
      simp only [progEval, oddCall, refProg]
      cases floatOfHex bits with
      | none => exact ⟨Frame.rfl' (Nat.le_refl _), rfl⟩
      | some x =>
        simp only
        by_cases hz : (x == 0) = true
        · simp only [hz, if_true]; exact ⟨Frame.rfl' (Nat.le_refl _), rfl, ht'⟩
        · simp only [hz, Bool.false_eq_true, if_false]
          by_cases hn : x < 0
          · simp only [hn, if_true]; exact ⟨Frame.rfl' (Nat.le_refl _), rfl⟩
          · simp only [hn, if_false]; exact ⟨Frame.rfl' (Nat.le_refl _), rfl⟩

/-- **the whole run under one handler table**: nothing that existed changes, and an observer sees
    exactly the reference -/
theorem runProg_spec (env : Env) (hwf : WF env = true) (h0 : Heap) (hc : closedHeap h0 = true)
    (hH : HandlerLaw h0 env) (hiter : env.run "iter" = rawIter) (p : Prog) (hp : ProgOK h0 p)
    (targets : List Val) (ht : ∀ t ∈ targets, Val.inb h0.length t = true) :
    Frame h0.length h0 (runProg env p targets h0).2 ∧
      observeAll env h0.length (runProg env p targets h0).2 [] (runProg env p targets h0).1 =
        targets.map (expectR env h0 p) := by
  obtain ⟨hcatch, hchain, _⟩ := WF_parts hwf hiter
  have c0 := Ctx.base hc
  by_cases hm : p.isMerge = false
  · have hok := progEval_ok hp hm env hH hcatch (fun _ => hchain)
    have := evalAll_observe hc env hok targets ht h0 c0
    cases p with
    | merge sub i op => cases hm
    | _ => exact this
  · cases p with
    | merge sub i op =>
      have hs : ∀ k ∈ sub, Val.inb h0.length k = true := fun k hk => hp.inb k (by simp [progVals, hk])
      have hi' : i = .notCallable ∨ InitOK h0 i := by
        rcases wf_of_refused hp.wf with h1 | h1
        · exact Or.inl h1
        · exact Or.inr ⟨hp.allocates, h1, fun v hv => hp.inb v (by simp [progVals, hv])⟩
      have hmm := mkMerge_spec c0 sub i op hi'
      simp only [runProg, expectR, refProg, refMerge]
      rcases hmk : mkMerge sub i op h0 with ⟨r, h1⟩
      rw [hmk] at hmm
      simp only at hmm
      cases hro : refMergeOp h0 i op with
      | error e =>
        rw [hro] at hmm
        simp only [hmm.2]
        have hexp : List.map (expectR env h0 (Prog.merge sub i op)) targets =
            targets.map (fun _ => errR env e) :=
          List.map_congr_left (fun t _ => by simp [expectR, refProg, refMerge, hro, showRef])
        rw [hexp]
        exact ⟨hmm.1, observeAll_errors env h0.length h1 e targets []⟩
      | ok o =>
        rw [hro] at hmm
        simp only [hmm.2]
        have c1 : Ctx h0 h1 := ⟨hc, hmm.1⟩
        have hok := refMergeOp_ok hro
        have hi : InitOK h0 i := hi'.resolve_left hok.1
        have := evalAll_observe hc env (ref := refSpec env h0 ⟨.merge, sub, i, o, false⟩)
          (fun h t c ht' => glomit_spec c env hH hcatch ⟨.merge, sub, i, o, false⟩ hi hok.2 hs ht') targets ht h1 c1
        have hexp : List.map (expectR env h0 (Prog.merge sub i op)) targets =
            targets.map (fun t => showRef env h0 (refSpec env h0 ⟨.merge, sub, i, o, false⟩ t)) :=
          List.map_congr_left (fun t _ => by simp [expectR, refProg, refMerge, hro])
        rw [hexp]
        exact ⟨hmm.1.trans hmm.1.1 this.1, this.2⟩
    | _ => exact absurd rfl hm

theorem ofSV_not_same (x : Except Err SV) (v : Val) : RefRes.ofSV x ≠ .same v := by
  cases x with
  | error e => simp [RefRes.ofSV]
  | ok sv => cases sv <;> simp [RefRes.ofSV]

theorem withInit_not_same (h0 : Heap) (i : Init) (f : SV → Except Err SV) (v : Val) :
    withInit h0 i f ≠ .same v := by
  unfold withInit
  cases initSV h0 i with
  | none => simp
  | some sv => exact ofSV_not_same _ v

/-- a spec object never hands back an input: its reference result is an error, an immediate
    or a NEW object -/
theorem refSpec_not_same (env : Env) (h0 : Heap) (s : FoldSpec) (t v : Val) :
    refSpec env h0 s t ≠ .same v := by
  unfold refSpec
  cases refItems env h0 s.sub t with
  | error e => simp
  | ok items =>
    simp only [refKind]
    cases s.kind with
    | fold => exact withInit_not_same _ _ _ v
    | merge => exact withInit_not_same _ _ _ v
    | flatten =>
      simp only
      split
      · simp
      · exact withInit_not_same _ _ _ v

/-! ### one-step unfoldings (definitional; not counted as property theorems) -/

theorem sum_list_eq_flatten (env : Env) (sub : List Val) (h : Heap) (target : Val) :
    glomit env (mkSum sub .list) h target = glomit env (mkFlatten sub (.init .list)) h target := by
  simp [glomit, mkSum, mkFlatten, runFold]

theorem flattenFn_zero (env : Env) (sub : List Val) (init : InitArg) (h : Heap) (target : Val) :
    flattenFn env sub init 0 h target = (.ok target, h) := rfl

theorem flattenFn_negative (env : Env) (sub : List Val) (init : InitArg) (l : Int) (hl : l < 0)
    (h : Heap) (target : Val) :
    flattenFn env sub init l h target = (.error (.raised "ValueError"), h) := by
  unfold flattenFn
  have : (l == 0) = false := by simp only [beq_eq_false_iff_ne, ne_eq]; omega
  simp [this, hl]

theorem glomitR_subspec_error (H : Hier) (env : Env) (s : FoldSpec) (r : Reg) (h : Heap) (target : Val)
    (e : Err) (he : evalSub h s.sub target = .error e) :
    glomitR H env s r h target = ((.error e, h), r) := by
  simp [glomitR, he]

theorem mkMerge_calls_init (sub : List Val) (h : Heap) :
    (mkMerge sub .dict .none h).2 = h ++ [.dict "dict" []] ∧
    (mkMerge sub .dict .iadd h).2 = h := by
  constructor
  · simp [mkMerge, callInit, materialise, Val.clsName, methodOf, Obj.cls]
  · rfl

/-! ### the registry: the memo of `get_handler` is invisible -/

/-- every memo entry is what a first lookup on the current tables would answer (and is a callable:
    lookups with `raise_exc=True` never store `False`) -/
def CacheOK (H : Hier) (r : Reg) : Prop :=
  ∀ t op h, C13.odGet (t, op) r.cache = some h → C13.resolve H r op t = some h

theorem CacheOK.of_empty {H : Hier} {r : Reg} (h : r.cache = []) : CacheOK H r := by
  intro t op x hx
  rw [h] at hx
  simp [C13.odGet] at hx

/-- `register` ends by emptying the memo -/
theorem register_cacheOK (H : Hier) (r : Reg) (c : String) (e : Bool) (kw : List (String × Option String)) :
    CacheOK H (C13.register H r c e kw) :=
  CacheOK.of_empty rfl

theorem pureLk_congr {H : Hier} {r r' : Reg} (h : C13.EqC r r') : pureLk H r = pureLk H r' := by
  funext cls
  simp only [pureLk, h.resolve H]

theorem envOf_congr {H : Hier} {r r' : Reg} (h : C13.EqC r r') (env : Env) : envOf H env r = envOf H env r' := by
  simp only [envOf, pureLk_congr h]

theorem EqC.refl' (r : Reg) : C13.EqC r r := ⟨rfl, rfl, rfl⟩

theorem cacheOK_store {H : Hier} {r : Reg} (hc : CacheOK H r) {cls op : String} {h : Option String}
    (hr : C13.resolve H r op cls = some h) :
    CacheOK H { r with cache := C13.odSet (cls, op) h r.cache } := by
  intro t op' x hx
  simp only at hx
  rw [C13.odGet_odSet] at hx
  rw [C13.resolve_cache_irrel]
  by_cases hk : (t, op') = (cls, op)
  · simp only [hk, beq_self_eq_true, if_true, Option.some.injEq] at hx
    subst hx
    injection hk with h1 h2
    subst h1; subst h2
    exact hr
  · have : ((t, op') == (cls, op)) = false := by simpa using hk
    simp only [this, Bool.false_eq_true, if_false] at hx
    exact hc t op' x hx

/-- **one `get_handler('iterate', obj)` call through the memo** (raising or not) leaves the tables
    alone and keeps the memo consistent — a remembered `False` included; a RAISING call answers
    what the tables say, whatever was remembered -/
theorem getHandler15_memo {H : Hier} {r : Reg} (hc : CacheOK H r) (cls : String) (re : Bool) :
    (re = true → lkAnswer (getHandler15 H r "iterate" cls re).2 = pureLk H r cls) ∧
    C13.EqC (getHandler15 H r "iterate" cls re).1 r ∧
    CacheOK H (getHandler15 H r "iterate" cls re).1 := by
  unfold getHandler15 C13.getHandler pureLk
  cases hg : C13.odGet (cls, "iterate") r.cache with
  | some h =>
    have hr := hc cls "iterate" h hg
    cases h with
    | none =>
      cases re with
      | true => simp only [hr, if_true]; exact ⟨fun _ => rfl, EqC.refl' r, hc⟩
      | false => simp only [hr]; exact ⟨(fun h => by cases h), EqC.refl' r, hc⟩
    | some hn => simp only [hr]; exact ⟨fun _ => rfl, EqC.refl' r, hc⟩
  | none =>
    simp only
    cases hr : C13.resolve H r "iterate" cls with
    | none => exact ⟨fun _ => rfl, EqC.refl' r, hc⟩
    | some h =>
      cases h with
      | none =>
        cases re with
        | true => simp only [Option.isNone_none, Bool.and_self, if_true]; exact ⟨fun _ => rfl, EqC.refl' r, hc⟩
        | false =>
          simp only [Option.isNone_none, Bool.and_false, Bool.false_eq_true, if_false]
          exact ⟨(fun h => by cases h), ⟨rfl, rfl, rfl⟩, cacheOK_store hc hr⟩
      | some hn =>
        simp only [Option.isNone_some, Bool.false_and, Bool.false_eq_true, if_false]
        exact ⟨fun _ => rfl, ⟨rfl, rfl, rfl⟩, cacheOK_store hc hr⟩

/-- the handler a `register(t, op=hd, …)` call names is what the tables answer for `t` right after
    (exact or not, whatever was registered or looked up before) -/
theorem resolve_register_self (H : Hier) (r : Reg) (t : String) (e : Bool) (kw : List (String × Option String))
    (op : String) (hd : Option String) (hk : C13.odGet op kw = some hd) :
    C13.resolve H (C13.register H r t e kw) op t = some hd := by
  have hop : op ∈ C13.opsOf (r.autoMap.map (·.1)) kw := by
    unfold C13.opsOf
    rw [List.mem_eraseDups]
    exact List.mem_append_left _ (List.mem_map.2 ⟨(op, hd), C13.odGet_some_mem hk, rfl⟩)
  have hval := C13.setHandlers_value t (C13.pickHandler H r.typeMap r.autoMap t kw)
    (C13.opsOf (r.autoMap.map (·.1)) kw) [] r.typeMap (fun _ h => by simp at h) op (Or.inr hop)
  have hpick : C13.pickHandler H r.typeMap r.autoMap t kw op = hd := by simp [C13.pickHandler, hk]
  rw [hpick] at hval
  have hmap : C13.odGet t ((C13.register H r t e kw).map op) = some hd := by
    simpa [C13.register, C13.Reg.map, C13.newOpMap] using hval
  have hne : ((C13.register H r t e kw).map op).isEmpty = false := by
    cases hm : (C13.register H r t e kw).map op with
    | nil => rw [hm] at hmap; simp [C13.odGet] at hmap
    | cons a l => rfl
  unfold C13.resolve; simp [hne, hmap]

theorem foldl_register_cache (H : Hier) (ds : List C13.DefaultReg) :
    ∀ r : Reg, r.cache = [] → (ds.foldl (fun r x => C13.register H r x.ty x.exact x.kw) r).cache = [] := by
  induction ds with
  | nil => intro r h; exact h
  | cons d ds ih => intro r _; exact ih _ rfl

theorem foldl_registerOp_cache (H : Hier) (os : List C13.OpReg) :
    ∀ r : Reg, r.cache = [] → (os.foldl (fun r o => C13.registerOp H r o.op o.auto o.exact []) r).cache = [] := by
  induction os with
  | nil => intro r h; exact h
  | cons o os ih => intro r _; exact ih _ rfl

/-- a freshly built registry has an empty memo -/
theorem freshReg_cache (H : Hier) (S : C13.Setup) (d : Bool) : (C13.freshReg H S d).cache = [] := by
  unfold C13.freshReg
  have h0 := foldl_registerOp_cache H S.builtinOps ({} : Reg) rfl
  cases d with
  | false => exact h0
  | true => exact foldl_register_cache H S.defaults _ h0

theorem foldl_regAfter_congr (H : Hier) :
    ∀ (es : List Event) {r r' : Reg}, C13.EqC r r' → C13.EqC (es.foldl (regAfter H) r) (es.foldl (regAfter H) r') := by
  intro es
  induction es with
  | nil => intro _ _ h; exact h
  | cons e es ih =>
    intro r r' h
    cases e with
    | eval t => exact ih h
    | register c ex kw => exact ih (h.register H c ex kw)
    | probe cl => exact ih h

theorem applyHandler_envOf (H : Hier) (env : Env) (r : Reg) (ans : Except IterErr String) (h : Heap) (v : Val) :
    applyHandler (envOf H env r) ans h v = applyHandler env ans h v := rfl

/-- an evaluator running against the registry refines the evaluator of the handler table the
    registry's tables denote; it changes the memo only and keeps it consistent -/
def Bridge (H : Hier) (env : Env) (fR : Reg → Heap → Val → (Except Err Val × Heap) × Reg)
    (fP : Env → Heap → Val → Except Err Val × Heap) : Prop :=
  ∀ r h t, CacheOK H r →
    (fR r h t).1 = fP (envOf H env r) h t ∧ C13.EqC (fR r h t).2 r ∧ CacheOK H (fR r h t).2

theorem targetIterR_eq {H : Hier} (env : Env) {r : Reg} (hc : CacheOK H r) (h : Heap) (v : Val) :
    (targetIterR H env r h v).1 = targetIter (envOf H env r) h v ∧
    C13.EqC (targetIterR H env r h v).2 r ∧ CacheOK H (targetIterR H env r h v).2 := by
  obtain ⟨h1, h2, h3⟩ := getHandler15_memo hc (v.clsName h) true
  refine ⟨?_, h2, h3⟩
  simp only [targetIterR, targetIter, h1 rfl, applyHandler_envOf]
  rfl

/-- **the memo is invisible to one evaluation** -/
theorem glomitR_bridge (H : Hier) (env : Env) (s : FoldSpec) :
    Bridge H env (glomitR H env s) (fun e => glomit e s) := by
  intro r h t hc
  show (glomitR H env s r h t).1 = glomit (envOf H env r) s h t ∧ _ ∧ _
  unfold glomitR glomit
  cases he : evalSub h s.sub t with
  | error e => exact ⟨rfl, EqC.refl' r, hc⟩
  | ok w =>
    obtain ⟨h1, h2, h3⟩ := targetIterR_eq env hc h w
    simp only
    rw [← h1]
    rcases hti : targetIterR H env r h w with ⟨res, r'⟩
    rw [hti] at h2 h3
    cases res with
    | error ie => exact ⟨rfl, h2, h3⟩
    | ok items => exact ⟨rfl, h2, h3⟩

theorem chainEvalR_bridge (H : Hier) (env : Env) :
    ∀ ss : List FoldSpec, Bridge H env (chainEvalR H env ss) (fun e => chainEval e ss) := by
  intro ss
  induction ss with
  | nil => intro r h t hc; exact ⟨rfl, EqC.refl' r, hc⟩
  | cons s ss ih =>
    intro r h t hc
    show (chainEvalR H env (s :: ss) r h t).1 = chainEval (envOf H env r) (s :: ss) h t ∧ _ ∧ _
    obtain ⟨h1, h2, h3⟩ := glomitR_bridge H env s r h t hc
    simp only [chainEvalR, chainEval]
    simp only at h1
    rw [← h1]
    rcases hg : glomitR H env s r h t with ⟨⟨res, h'⟩, r'⟩
    rw [hg] at h2 h3
    cases res with
    | error e => exact ⟨rfl, h2, h3⟩
    | ok v =>
      simp only
      obtain ⟨g1, g2, g3⟩ := ih r' h' v h3
      simp only at g1
      rw [envOf_congr h2] at g1
      exact ⟨g1, ⟨g2.1.trans h2.1, g2.2.1.trans h2.2.1, g2.2.2.trans h2.2.2⟩, g3⟩

theorem flattenFnR_bridge (H : Hier) (env : Env) (sub : List Val) (init : InitArg) (l : Int) :
    Bridge H env (flattenFnR H env sub init l) (fun e => flattenFn e sub init l) := by
  intro r h t hc
  show (flattenFnR H env sub init l r h t).1 = flattenFn (envOf H env r) sub init l h t ∧ _ ∧ _
  unfold flattenFnR flattenFn
  by_cases h0l : (l == 0) = true
  · rw [if_pos h0l, if_pos h0l]; exact ⟨rfl, EqC.refl' r, hc⟩
  · rw [if_neg h0l, if_neg h0l]
    by_cases hneg : l < 0
    · rw [if_pos hneg, if_pos hneg]; exact ⟨rfl, EqC.refl' r, hc⟩
    · rw [if_neg hneg, if_neg hneg]
      by_cases hnc : (init == InitArg.init Init.notCallable) = true
      · rw [if_pos hnc, if_pos hnc]; exact ⟨rfl, EqC.refl' r, hc⟩
      · rw [if_neg hnc, if_neg hnc]
        cases he : evalSub h sub t with
        | error e => exact ⟨rfl, EqC.refl' r, hc⟩
        | ok w => exact chainEvalR_bridge H env _ r h w hc

theorem mergeFnR_bridge (H : Hier) (env : Env) (sub : List Val) (init : Init) (op : MergeOpArg) :
    Bridge H env (mergeFnR H env sub init op) (fun e => mergeFn e sub init op) := by
  intro r h t hc
  show (mergeFnR H env sub init op r h t).1 = mergeFn (envOf H env r) sub init op h t ∧ _ ∧ _
  unfold mergeFnR mergeFn
  rcases hm : mkMerge sub init op h with ⟨res, h1⟩
  cases res with
  | error e => exact ⟨rfl, EqC.refl' r, hc⟩
  | ok s => exact glomitR_bridge H env s r h1 t hc

/-! ### histories: evaluations and registrations -/

/-- `good` holds of the handler table in force at every evaluation of the history -/
def GoodAlong (H : Hier) (env : Env) (good : Env → Prop) : List Event → Reg → Prop
  | [], _ => True
  | .eval _ :: es, r => good (envOf H env r) ∧ GoodAlong H env good es r
  | .register c e kw :: es, r => GoodAlong H env good es (C13.register H r c e kw)
  | .probe _ :: es, r => GoodAlong H env good es r

theorem GoodAlong_congr {H : Hier} {env : Env} {good : Env → Prop} :
    ∀ (es : List Event) {r r' : Reg}, C13.EqC r r' → GoodAlong H env good es r → GoodAlong H env good es r' := by
  intro es
  induction es with
  | nil => intro _ _ _ _; trivial
  | cons e es ih =>
    intro r r' hq hg
    cases e with
    | eval t => exact ⟨envOf_congr hq env ▸ hg.1, ih hq hg.2⟩
    | register c ex kw =>
      simp only [GoodAlong] at hg ⊢
      rw [← C13.register_eq_of_eqC hq]; exact hg
    | probe cl => exact ih hq hg

/-- what an observer is expected to see of a history, evaluation by evaluation -/
def expectList (H : Hier) (env : Env) (h0 : Heap) (ref : Env → Val → RefRes) : List Event → Reg → List R
  | [], _ => []
  | .eval t :: es, r => showRef env h0 (ref (envOf H env r) t) :: expectList H env h0 ref es r
  | .register c e kw :: es, r => expectList H env h0 ref es (C13.register H r c e kw)
  | .probe _ :: es, r => expectList H env h0 ref es r

theorem expectList_congr {H : Hier} {env : Env} {h0 : Heap} {ref : Env → Val → RefRes} :
    ∀ (es : List Event) {r r' : Reg}, C13.EqC r r' →
      expectList H env h0 ref es r = expectList H env h0 ref es r' := by
  intro es
  induction es with
  | nil => intro _ _ _; rfl
  | cons e es ih =>
    intro r r' hq
    cases e with
    | eval t => simp only [expectList, envOf_congr hq env, ih hq]
    | register c ex kw => simp only [expectList, C13.register_eq_of_eqC hq]
    | probe cl => simp only [expectList, ih hq]

theorem mem_targets_cons_eval {t x : Val} {es : List Event} :
    x ∈ Event.targets (.eval t :: es) ↔ x = t ∨ x ∈ Event.targets es := by
  simp [Event.targets]

/-- **a whole history**: nothing that existed changes, and an observer sees, evaluation by
    evaluation, the reference under the handler table of that moment -/
theorem evalEvents_spec {h0 : Heap} (hc : closedHeap h0 = true) (H : Hier) (env : Env)
    {fR : Reg → Heap → Val → (Except Err Val × Heap) × Reg} {fP : Env → Heap → Val → Except Err Val × Heap}
    {ref : Env → Val → RefRes} {good : Env → Prop}
    (hb : Bridge H env fR fP) (hok : ∀ e, good e → EvalOK h0 (fP e) (ref e)) :
    ∀ (events : List Event), (∀ t ∈ Event.targets events, Val.inb h0.length t = true) →
    ∀ (r : Reg) (h : Heap), CacheOK H r → Ctx h0 h → GoodAlong H env good events r →
      Frame h.length h (evalEvents H fR events r h).2.1 ∧
      ∀ (earlier : List (Except Err Val)), (∀ a, Except.ok (Val.ref a) ∈ earlier → a < h.length) →
      ∀ (hfin : Heap), Frame (evalEvents H fR events r h).2.1.length (evalEvents H fR events r h).2.1 hfin →
        observeAll env h0.length hfin earlier (evalEvents H fR events r h).1 =
          expectList H env h0 ref events r := by
  intro events
  induction events with
  | nil => intro _ r h _ _ _; exact ⟨Frame.rfl' (Nat.le_refl _), fun _ _ _ _ => rfl⟩
  | cons ev es ih =>
    intro ht r h hcr c hg
    cases ev with
    | register cl ex kw =>
      simp only [evalEvents, expectList]
      exact ih (fun t htm => ht t (by simpa [Event.targets] using htm)) _ h (register_cacheOK H r cl ex kw) c hg
    | probe cl =>
      obtain ⟨_, p2, p3⟩ := getHandler15_memo hcr cl false
      simp only [evalEvents, expectList]
      rw [← expectList_congr es p2]
      exact ih (fun t htm => ht t (by simpa [Event.targets] using htm)) _ h p3 c
        (GoodAlong_congr es ⟨p2.1.symm, p2.2.1.symm, p2.2.2.symm⟩ hg)
    | eval t =>
      have htin : Val.inb h0.length t = true := ht t (mem_targets_cons_eval.mpr (Or.inl rfl))
      have hts : ∀ x ∈ Event.targets es, Val.inb h0.length x = true :=
        fun x hx => ht x (mem_targets_cons_eval.mpr (Or.inr hx))
      obtain ⟨b1, b2, b3⟩ := hb r h t hcr
      have hft := hok _ hg.1 h t c htin
      rw [← b1] at hft
      have c1 : Ctx h0 (fR r h t).1.2 := c.step c.frame.1 hft.1
      have hg' : GoodAlong H env good es (fR r h t).2 :=
        GoodAlong_congr es ⟨b2.1.symm, b2.2.1.symm, b2.2.2.symm⟩ hg.2
      have hrest := ih hts (fR r h t).2 (fR r h t).1.2 b3 c1 hg'
      simp only [evalEvents]
      refine ⟨hft.1.trans hft.1.1 hrest.1, ?_⟩
      intro earlier he hfin hfr
      simp only [observeAll, expectList]
      have cfin : Ctx h0 hfin := (c1.step c1.frame.1 hrest.1).step
        (Nat.le_trans c1.frame.1 hrest.1.1) hfr
      have hkeep : ∀ a, a < (fR r h t).1.2.length → hfin[a]? = (fR r h t).1.2[a]? := by
        intro a ha
        rw [hfr.2 a (Nat.lt_of_lt_of_le ha hrest.1.1), hrest.1.2 a ha]
      congr 1
      · exact observeOne_spec cfin env c.frame.1 he (r := ref (envOf H env r) t) (h1 := (fR r h t).1.2) hft.2 hkeep
      · rw [expectList_congr es ⟨b2.1.symm, b2.2.1.symm, b2.2.2.symm⟩]
        apply hrest.2 _ _ hfin hfr
        intro a ha
        rcases List.mem_append.mp ha with h1 | h1
        · exact Nat.lt_of_lt_of_le (he a h1) hft.1.1
        · simp only [List.mem_singleton] at h1
          have hr := hft.2
          have hlen := Nat.le_trans c.frame.1 hft.1.1
          revert hr h1 hlen
          rcases (fR r h t).1 with ⟨res, hh1⟩
          intro h1 hr hlen
          simp only at h1 hlen ⊢
          subst h1
          cases hrt : ref (envOf H env r) t with
          | err e => rw [hrt] at hr; simp [ResRel] at hr
          | imm v =>
            rw [hrt] at hr; obtain ⟨h1', hn⟩ := hr
            simp only at h1'; injection h1' with h1'; exact absurd h1'.symm (hn a)
          | same v =>
            rw [hrt] at hr; obtain ⟨h1', hin⟩ := hr
            simp only at h1'; injection h1' with h1'; subst h1'
            exact Nat.lt_of_lt_of_le (inb_ref.mp hin) hlen
          | new o =>
            rw [hrt] at hr; obtain ⟨a', h1', _, h3, _⟩ := hr
            simp only at h1' h3; injection h1' with h1'; injection h1' with h1'; subst h1'
            exact get_lt h3

/-- the registry after a history: its tables are those of the registrations alone (evaluations
    leave memo entries only), and its memo is consistent -/
theorem evalEvents_reg {H : Hier} {env : Env}
    {fR : Reg → Heap → Val → (Except Err Val × Heap) × Reg} {fP : Env → Heap → Val → Except Err Val × Heap}
    (hb : Bridge H env fR fP) :
    ∀ (events : List Event) (r : Reg) (h : Heap), CacheOK H r →
      C13.EqC (evalEvents H fR events r h).2.2 (events.foldl (regAfter H) r) ∧
      CacheOK H (evalEvents H fR events r h).2.2 := by
  intro events
  induction events with
  | nil => intro r h hc; exact ⟨EqC.refl' r, hc⟩
  | cons e es ih =>
    intro r h hc
    cases e with
    | register c ex kw => exact ih _ h (register_cacheOK H r c ex kw)
    | probe cl =>
      obtain ⟨_, p2, p3⟩ := getHandler15_memo hc cl false
      have := ih (getHandler15 H r "iterate" cl false).1 h p3
      simp only [evalEvents, List.foldl_cons, regAfter]
      have hq := foldl_regAfter_congr H es p2
      exact ⟨⟨this.1.1.trans hq.1, this.1.2.1.trans hq.2.1, this.1.2.2.trans hq.2.2⟩, this.2⟩
    | eval t =>
      obtain ⟨_, b2, b3⟩ := hb r h t hc
      have := ih (fR r h t).2 (fR r h t).1.2 b3
      simp only [evalEvents, List.foldl_cons, regAfter]
      have hq := foldl_regAfter_congr H es b2
      exact ⟨⟨this.1.1.trans hq.1, this.1.2.1.trans hq.2.1, this.1.2.2.trans hq.2.2⟩, this.2⟩

theorem showRef_envOf (H : Hier) (env : Env) (r : Reg) (h0 : Heap) (x : RefRes) :
    showRef (envOf H env r) h0 x = showRef env h0 x := rfl

/-- the expectation of the checker is the expectation of the history lemma -/
theorem expectAll_eq (H : Hier) (env : Env) (h0 : Heap) (p : Prog) :
    ∀ (es : List Event) (r : Reg),
      expectAll H env h0 p es r = expectList H env h0 (fun e => refProg e h0 p) es r := by
  intro es
  induction es with
  | nil => intro _; rfl
  | cons e es ih =>
    intro r
    cases e with
    | eval t => simp only [expectAll, expectList, ih, expectR, showRef_envOf]
    | register c ex kw => simp only [expectAll, expectList, ih]
    | probe cl => simp only [expectAll, expectList, ih]

/-- the R-level evaluator a program runs on each target of a history -/
def progEvalR (H : Hier) (env : Env) (p : Prog) : Reg → Heap → Val → (Except Err Val × Heap) × Reg :=
  match p with
  | .fold sub i op => glomitR H env (mkFold sub i op)
  | .sum sub i => glomitR H env (mkSum sub i)
  | .count => glomitR H env mkCount
  | .flatten sub i => glomitR H env (mkFlatten sub i)
  | .merge sub i _ => glomitR H env ⟨.merge, sub, i, .iadd, false⟩      -- not used
  | .flattenFn sub i l => flattenFnR H env sub i l
  | .mergeFn sub i op => mergeFnR H env sub i op
  | .oddCall c => fun r h t => (oddCall c h t, r)

theorem progEvalR_bridge (H : Hier) (env : Env) (p : Prog) : Bridge H env (progEvalR H env p) (progEval p) := by
  cases p with
  | fold sub i op => exact glomitR_bridge H env _
  | sum sub i => exact glomitR_bridge H env _
  | count => exact glomitR_bridge H env _
  | flatten sub i => exact glomitR_bridge H env _
  | merge sub i op => exact glomitR_bridge H env _
  | flattenFn sub i l => exact flattenFnR_bridge H env sub i l
  | mergeFn sub i op => exact mergeFnR_bridge H env sub i op
  | oddCall c => exact fun r h t hc => ⟨rfl, EqC.refl' r, hc⟩

theorem runProgR_eq (H : Hier) (env : Env) (p : Prog) (hm : p.isMerge = false) (events : List Event)
    (r : Reg) (h : Heap) : runProgR H env p events r h = evalEvents H (progEvalR H env p) events r h := by
  cases p with
  | merge sub i op => cases hm
  | _ => rfl

/-- the hypotheses of a history on the handler tables: whenever an evaluation happens and the
    program iterates chain objects of its own making, those are iterated with `iter` -/
def HistOK (H : Hier) (env : Env) (h0 : Heap) (p : Prog) (events : List Event) (r : Reg) : Prop :=
  GoodAlong H env (fun e => HandlerLaw h0 e ∧ regLookup e.foldCatch "UnregisteredTarget" = some "FoldError" ∧
    (p.usesChain = true → ChainOK e)) events r

theorem histOK_of_bool {H : Hier} {env : Env} {h0 : Heap} {p : Prog} (hH : HandlerLaw h0 env)
    (hiter : env.run "iter" = rawIter)
    (hcatch : regLookup env.foldCatch "UnregisteredTarget" = some "FoldError")
    (hconv : regLookup env.iterCatch "Exception" = some "TypeError") :
    ∀ (events : List Event) (r : Reg), (p.usesChain = false ∨ chainIterAlong H env events r = true) →
      HistOK H env h0 p events r := by
  intro events
  induction events with
  | nil => intro _ _; trivial
  | cons e es ih =>
    intro r hh
    cases e with
    | eval t =>
      refine ⟨⟨⟨hH.ext, hH.inb⟩, hcatch, ?_⟩, ih r ?_⟩
      · intro hu
        rcases hh with hh | hh
        · rw [hh] at hu; cases hu
        · simp only [chainIterAlong, Bool.and_eq_true, chainIter, decide_eq_true_eq] at hh
          exact ⟨hh.1, hiter, hconv⟩
      · rcases hh with hh | hh
        · exact Or.inl hh
        · simp only [chainIterAlong, Bool.and_eq_true] at hh; exact Or.inr hh.2
    | register c ex kw =>
      apply ih
      rcases hh with hh | hh
      · exact Or.inl hh
      · exact Or.inr hh
    | probe cl =>
      apply ih
      rcases hh with hh | hh
      · exact Or.inl hh
      · exact Or.inr hh

/-- **the whole history against the registry**: nothing that existed changes, and an observer
    sees, for every evaluation, the reference reduction over the iteration the registry's tables
    name at that moment — whatever was looked up (and memoised) before -/
theorem runProgR_spec (H : Hier) (env : Env) (hconv : WFConv env = true) (h0 : Heap) (hc : closedHeap h0 = true)
    (p : Prog) (hp : ProgOK h0 p) (events : List Event)
    (ht : ∀ t ∈ Event.targets events, Val.inb h0.length t = true)
    (r : Reg) (hcr : CacheOK H r) (hh : HistOK H env h0 p events r) :
    Frame h0.length h0 (runProgR H env p events r h0).2.1 ∧
      observeAll env h0.length (runProgR H env p events r h0).2.1 [] (runProgR H env p events r h0).1 =
        expectAll H env h0 p events r := by
  obtain ⟨hcatch, _, _⟩ := WFConv_parts hconv
  have c0 := Ctx.base hc
  rw [expectAll_eq]
  by_cases hm : p.isMerge = false
  · rw [runProgR_eq H env p hm]
    have := evalEvents_spec hc H env (progEvalR_bridge H env p)
      (good := fun e => HandlerLaw h0 e ∧ regLookup e.foldCatch "UnregisteredTarget" = some "FoldError" ∧
        (p.usesChain = true → ChainOK e))
      (fun e he => progEval_ok hp hm e he.1 he.2.1 he.2.2) events ht r h0 hcr c0 hh
    exact ⟨this.1, this.2 [] (by simp) _ (Frame.rfl' (Nat.le_refl _))⟩
  · cases p with
    | merge sub i op =>
      have hs : ∀ k ∈ sub, Val.inb h0.length k = true := fun k hk => hp.inb k (by simp [progVals, hk])
      have hi' : i = .notCallable ∨ InitOK h0 i := by
        rcases wf_of_refused hp.wf with h1 | h1
        · exact Or.inl h1
        · exact Or.inr ⟨hp.allocates, h1, fun v hv => hp.inb v (by simp [progVals, hv])⟩
      have hmm := mkMerge_spec c0 sub i op hi'
      simp only [runProgR]
      rcases hmk : mkMerge sub i op h0 with ⟨res, h1⟩
      rw [hmk] at hmm
      simp only at hmm
      cases hro : refMergeOp h0 i op with
      | error e =>
        rw [hro] at hmm
        simp only [hmm.2]
        refine ⟨hmm.1, ?_⟩
        rw [observeAll_errors]
        have : ∀ (es : List Event) (r : Reg),
            expectList H env h0 (fun e => refProg e h0 (Prog.merge sub i op)) es r =
              (Event.targets es).map (fun _ => errR env e) := by
          intro es
          induction es with
          | nil => intro _; rfl
          | cons ev es ih =>
            intro r
            cases ev with
            | eval t => simp [expectList, Event.targets, ih, refProg, refMerge, hro, showRef]
            | register c ex kw => simp [expectList, Event.targets, ih]
            | probe cl => simp [expectList, Event.targets, ih]
        rw [this]
      | ok o =>
        rw [hro] at hmm
        simp only [hmm.2]
        have c1 : Ctx h0 h1 := ⟨hc, hmm.1⟩
        have hok := refMergeOp_ok hro
        have hi : InitOK h0 i := hi'.resolve_left hok.1
        have := evalEvents_spec hc H env (glomitR_bridge H env ⟨.merge, sub, i, o, false⟩)
          (ref := fun e => refSpec e h0 ⟨.merge, sub, i, o, false⟩)
          (good := fun e => HandlerLaw h0 e ∧ regLookup e.foldCatch "UnregisteredTarget" = some "FoldError" ∧
            ((Prog.merge sub i op).usesChain = true → ChainOK e))
          (fun e he => fun h t c ht' => glomit_spec c e he.1 he.2.1 ⟨.merge, sub, i, o, false⟩ hi hok.2 hs ht')
          events ht r h1 hcr c1 hh
        have hexp : ∀ (es : List Event) (r : Reg),
            expectList H env h0 (fun e => refProg e h0 (Prog.merge sub i op)) es r =
              expectList H env h0 (fun e => refSpec e h0 ⟨.merge, sub, i, o, false⟩) es r := by
          intro es
          induction es with
          | nil => intro _; rfl
          | cons ev es ih =>
            intro r
            cases ev with
            | eval t => simp [expectList, ih, refProg, refMerge, hro]
            | register c ex kw => simp [expectList, ih]
            | probe cl => simp [expectList, ih]
        rw [hexp]
        exact ⟨hmm.1.trans hmm.1.1 this.1, this.2 [] (by simp) _ (Frame.rfl' (Nat.le_refl _))⟩
    | _ => exact absurd rfl hm

/-- **the whole run**, the constructor of the spec class included: when it refuses its arguments
    every evaluation shows that error and nothing is touched -/
theorem runHistory_spec (H : Hier) (env : Env) (hconv : WFConv env = true) (h0 : Heap) (hc : closedHeap h0 = true)
    (p : Prog) (hin : ∀ k ∈ progVals p, Val.inb h0.length k = true) (hal : p.initAllocates = true)
    (hw : p.initWF h0 = true) (hlaw : p.opLawful = true) (events : List Event)
    (ht : ∀ t ∈ Event.targets events, Val.inb h0.length t = true)
    (r : Reg) (hcr : CacheOK H r) (hh : HistOK H env h0 p events r) :
    Frame h0.length h0 (runHistory H env p events r h0).2.1 ∧
      observeAll env h0.length (runHistory H env p events r h0).2.1 [] (runHistory H env p events r h0).1 =
        expectHistory H env h0 p events r := by
  unfold runHistory expectHistory
  cases hct : ctorErr p with
  | some e => exact ⟨Frame.rfl' (Nat.le_refl _), observeAll_errors env h0.length h0 e _ []⟩
  | none => exact runProgR_spec H env hconv h0 hc p ⟨hin, hal, hw, hlaw, hct⟩ events ht r hcr hh

/-- whatever the program and the history: the memo stays consistent (and, when the spec object got
    built, the tables are those of the registrations alone) -/
theorem runHistory_reg (H : Hier) (env : Env) (p : Prog) (events : List Event) (r : Reg) (h : Heap)
    (hc : CacheOK H r) :
    CacheOK H (runHistory H env p events r h).2.2 ∧
    ((runHistory H env p events r h).2.2 = r ∨
      C13.EqC (runHistory H env p events r h).2.2 (events.foldl (regAfter H) r)) := by
  unfold runHistory
  cases ctorErr p with
  | some e => exact ⟨hc, Or.inl rfl⟩
  | none =>
    simp only
    by_cases hm : p.isMerge = false
    · rw [runProgR_eq H env p hm]
      have := evalEvents_reg (progEvalR_bridge H env p) events r h hc
      exact ⟨this.2, Or.inr this.1⟩
    · cases p with
      | merge sub i op =>
        simp only [runProgR]
        rcases mkMerge sub i op h with ⟨res, h1⟩
        cases res with
        | error e => exact ⟨hc, Or.inl rfl⟩
        | ok sp =>
          have := evalEvents_reg (glomitR_bridge H env sp) events r h1 hc
          exact ⟨this.2, Or.inr this.1⟩
      | _ => exact absurd rfl hm

theorem joinWith_append (f : Val → Option (List Val)) (a b : List Val) :
    joinWith f (a ++ b) = match joinWith f a, joinWith f b with
      | some x, some y => some (x ++ y)
      | _, _ => none := by
  induction a with
  | nil => simp only [List.nil_append, joinWith]; cases joinWith f b <;> rfl
  | cons x a ih =>
    simp only [List.cons_append, joinWith, ih]
    cases f x <;> cases joinWith f a <;> cases joinWith f b <;> simp [List.append_assoc]

theorem joinN_append (h0 : Heap) :
    ∀ (n : Nat) (a b : List Val), joinN h0 n (a ++ b) = match joinN h0 n a, joinN h0 n b with
      | some x, some y => some (x ++ y)
      | _, _ => none := by
  intro n
  induction n with
  | zero => intro a b; simp [joinN]
  | succ n ih =>
    intro a b
    rw [joinN_succ, joinN_succ h0 n a, joinN_succ h0 n b, joinWith_append]
    cases joinWith (rawIter1 h0) a with
    | none => rfl
    | some x =>
      cases joinWith (rawIter1 h0) b with
      | none => simp only; cases joinN h0 n x <;> rfl
      | some y => exact ih x y

/-! ### lazy Flatten: the pull machine shows what the reference says -/

namespace Lazy

theorem next_refill_ok (h0 : Heap) (below st' : Stack) (h : refill h0 below = .ok st') :
    next h0 ([] :: below) = next h0 st' := by
  rw [next]
  split
  · rename_i st'' heq; rw [h] at heq; injection heq with heq; subst heq; rfl
  · rename_i heq; rw [h] at heq; cases heq
  · rename_i st'' heq; rw [h] at heq; cases heq

theorem next_refill_exhausted (h0 : Heap) (below : Stack) (h : refill h0 below = .exhausted) :
    next h0 ([] :: below) = .stop ([] :: below) := by
  rw [next]
  split
  · rename_i st'' heq; rw [h] at heq; cases heq
  · rfl
  · rename_i st'' heq; rw [h] at heq; cases heq

theorem next_refill_typeError (h0 : Heap) (below st' : Stack) (h : refill h0 below = .typeError st') :
    next h0 ([] :: below) = .error st' := by
  rw [next]
  split
  · rename_i st'' heq; rw [h] at heq; cases heq
  · rename_i heq; rw [h] at heq; cases heq
  · rename_i st'' heq; rw [h] at heq; injection heq with heq; subst heq; rfl

theorem next_item (h0 : Heap) (x : Val) (cur : List Val) (below : Stack) :
    next h0 ((x :: cur) :: below) = .item x (cur :: below) := by rw [next]

theorem pulls_congr (h0 : Heap) (total : Nat) (st st2 : Stack) (h : next h0 st = next h0 st2) :
    pulls h0 total st = pulls h0 total st2 := by
  rw [pulls, pulls]
  split <;> split <;> simp_all

theorem pulls_of_item (h0 : Heap) (total : Nat) (st : Stack) (v : Val) (st' : Stack)
    (h : next h0 st = .item v st') :
    pulls h0 total st = .item v (total - srcLen st') :: pulls h0 total st' := by
  rw [pulls]
  split <;> simp_all

theorem pulls_of_stop (h0 : Heap) (total : Nat) (st st' : Stack) (h : next h0 st = .stop st') :
    pulls h0 total st = [.stop (total - srcLen st')] := by
  rw [pulls]
  split <;> simp_all

theorem pulls_of_error (h0 : Heap) (total : Nat) (st st' : Stack) (h : next h0 st = .error st') :
    pulls h0 total st = [.error (total - srcLen st')] := by
  rw [pulls]
  split <;> simp_all

theorem leaves_zero (h0 : Heap) (v : Val) : leaves h0 0 v = ([v], true) := rfl

theorem leaves_succ (h0 : Heap) (n : Nat) (v : Val) :
    leaves h0 (n + 1) v = match rawIter1 h0 v with
      | none => ([], false)
      | some ys => seqLeaves (leaves h0 n) ys := rfl

theorem seqLeaves_nil (f : Val → List Val × Bool) : seqLeaves f [] = ([], true) := rfl

theorem seqLeaves_cons (f : Val → List Val × Bool) (x : Val) (xs : List Val) :
    seqLeaves f (x :: xs) =
      if (f x).2 then ((f x).1 ++ (seqLeaves f xs).1, (seqLeaves f xs).2) else ((f x).1, false) := rfl

theorem srcLen_cons_cons (l m : List Val) (ms : Stack) : srcLen (l :: m :: ms) = srcLen (m :: ms) := by
  simp [srcLen, List.getLast?_cons_cons]

theorem srcLen_single (l : List Val) : srcLen [l] = l.length := by simp [srcLen]

theorem srcLen_nil_cons (st : Stack) : srcLen ([] :: st) = srcLen st := by
  cases st with
  | nil => simp [srcLen]
  | cons m ms => exact srcLen_cons_cons [] m ms

/-- what an observer will see of a stack from now on: the leaves buffered at each level (the
    values at depth `d` still have `d` chain levels above them), each reported with the CURRENT
    number of fetched source items, then the source items one by one -/
def stackObs (h0 : Heap) (total : Nat) : Nat → Stack → List PullObs
  | _, [] => [.stop total]
  | d, [src] => refPullsFrom h0 d total src
  | d, l :: m :: ms =>
    (seqLeaves (leaves h0 d) l).1.map (fun v => PullObs.item v (total - srcLen (m :: ms))) ++
      (if (seqLeaves (leaves h0 d) l).2 then stackObs h0 total (d + 1) (m :: ms)
       else [.error (total - srcLen (m :: ms))])

theorem stackObs_nil_cons (h0 : Heap) (total d : Nat) (st : Stack) :
    stackObs h0 total d ([] :: st) = stackObs h0 total (d + 1) st := by
  cases st with
  | nil => simp [stackObs, refPullsFrom]
  | cons m ms => simp [stackObs, seqLeaves_nil]

/-- one refill leaves the future observations as they were -/
theorem refill_obs (h0 : Heap) (total : Nat) :
    ∀ (below : Stack) (d : Nat),
      match refill h0 below with
      | .ok st' => stackObs h0 total d st' = stackObs h0 total d ([] :: below)
      | .exhausted => stackObs h0 total d ([] :: below) = [.stop total] ∧ srcLen ([] :: below) = 0
      | .typeError st' => stackObs h0 total d ([] :: below) = [.error (total - srcLen st')] := by
  intro below
  induction below with
  | nil => intro d; simp [refill, stackObs, refPullsFrom, srcLen]
  | cons l more ih =>
    intro d
    cases l with
    | nil =>
      have := ih (d + 1)
      simp only [refill]
      cases hr : refill h0 more with
      | ok st'' =>
        rw [hr] at this
        simp only
        rw [stackObs_nil_cons, this, stackObs_nil_cons h0 total d ([] :: more)]
      | exhausted =>
        rw [hr] at this
        simp only
        rw [stackObs_nil_cons, srcLen_nil_cons]
        exact this
      | typeError st'' =>
        rw [hr] at this
        simp only
        rw [stackObs_nil_cons, srcLen_nil_cons]
        exact this
    | cons v rest =>
      simp only [refill]
      rw [stackObs_nil_cons]
      cases hv : rawIter1 h0 v with
      | some ys =>
        simp only
        cases more with
        | nil =>
          simp only [stackObs, refPullsFrom, leaves_succ, hv, srcLen_single]
        | cons m ms =>
          simp only [stackObs, seqLeaves_cons, leaves_succ, hv, srcLen_cons_cons]
          by_cases hok : (seqLeaves (leaves h0 d) ys).2 = true
          · simp only [hok, if_true, List.map_append, List.append_assoc]
          · simp only [hok, Bool.false_eq_true, if_false]
      | none =>
        simp only
        cases more with
        | nil =>
          simp only [stackObs, refPullsFrom, leaves_succ, hv, srcLen_cons_cons, srcLen_single, List.map_nil,
            List.nil_append, Bool.false_eq_true, if_false]
        | cons m ms =>
          simp only [stackObs, seqLeaves_cons, leaves_succ, hv, srcLen_cons_cons, List.map_nil,
            List.nil_append, Bool.false_eq_true, if_false]

theorem stackObs_item (h0 : Heap) (total : Nat) (x : Val) (cur : List Val) (below : Stack) :
    stackObs h0 total 0 ((x :: cur) :: below) =
      .item x (total - srcLen (cur :: below)) :: stackObs h0 total 0 (cur :: below) := by
  cases below with
  | nil =>
    simp only [stackObs, refPullsFrom, leaves_zero, srcLen_single, List.map_cons, List.map_nil, if_true,
      List.cons_append, List.nil_append]
  | cons m ms =>
    simp only [stackObs, seqLeaves_cons, leaves_zero, if_true, srcLen_cons_cons, List.map_cons, List.cons_append,
      List.map_append, List.nil_append, List.map_nil]

/-- **the pull machine shows exactly what the stack denotes** -/
theorem pulls_eq_stackObs (h0 : Heap) (total : Nat) :
    ∀ (n : Nat) (st : Stack), weight h0 st = n → pulls h0 total st = stackObs h0 total 0 st := by
  intro n
  induction n using Nat.strongRecOn with
  | ind n ih =>
    intro st hw
    cases st with
    | nil =>
      have : next h0 [] = .stop [] := by rw [next]
      rw [pulls_of_stop h0 total [] [] this]
      simp [stackObs, srcLen]
    | cons l below =>
      cases l with
      | cons x cur =>
        have hn := next_item h0 x cur below
        rw [pulls_of_item h0 total _ x _ hn, stackObs_item]
        have hlt := next_item_weight h0 _ x _ hn
        rw [ih _ (by omega) _ rfl]
      | nil =>
        have hR := refill_obs h0 total below 0
        cases hr : refill h0 below with
        | ok st' =>
          rw [hr] at hR
          have hw' := refill_weight h0 below 0 st' hr
          rw [pulls_congr h0 total _ _ (next_refill_ok h0 below st' hr)]
          rw [ih (weight h0 st') (by simp only [weight] at hw ⊢; omega) st' rfl]
          exact hR
        | exhausted =>
          rw [hr] at hR
          rw [pulls_of_stop h0 total _ _ (next_refill_exhausted h0 below hr), hR.1, hR.2]
          simp
        | typeError st' =>
          rw [hr] at hR
          rw [pulls_of_error h0 total _ _ (next_refill_typeError h0 below st' hr), hR]

theorem stackObs_init (h0 : Heap) (total : Nat) (xs : List Val) :
    ∀ (k d : Nat), stackObs h0 total d (initStack k xs) = refPullsFrom h0 (d + k) total xs := by
  intro k
  induction k with
  | zero => intro d; simp [initStack, stackObs]
  | succ k ih =>
    intro d
    have : initStack (k + 1) xs = [] :: initStack k xs := by simp [initStack, List.replicate_succ]
    rw [this, stackObs_nil_cons, ih (d + 1)]
    congr 1
    omega

theorem srcLen_init (k : Nat) (xs : List Val) : srcLen (initStack k xs) = xs.length := by
  induction k with
  | zero => simp [initStack, srcLen]
  | succ k ih =>
    have : initStack (k + 1) xs = [] :: initStack k xs := by simp [initStack, List.replicate_succ]
    rw [this, srcLen_nil_cons, ih]

/-- the values of the reference run are the leaves, in order: with every level iterable, exactly
    the `k`-fold join -/
theorem seqLeaves_ok_join (h0 : Heap) :
    ∀ (n : Nat) (xs ys : List Val), joinN h0 n xs = some ys →
      seqLeaves (leaves h0 n) xs = (ys, true) := by
  intro n
  induction n with
  | zero =>
    intro xs ys h
    simp only [joinN, Option.some.injEq] at h
    subst h
    induction xs with
    | nil => rfl
    | cons x xs ih => simp only [seqLeaves_cons, leaves_zero, ih, if_true, List.cons_append, List.nil_append]
  | succ n ih =>
    intro xs
    induction xs with
    | nil =>
      intro ys h
      have : joinN h0 (n + 1) [] = some [] := by
        clear h ih
        induction n with
        | zero => simp [joinN, joinWith]
        | succ n ihn => rw [joinN_succ]; simpa [joinWith] using ihn
      rw [this] at h; injection h with h; subst h; rfl
    | cons x xs ihx =>
      intro ys h
      rw [joinN_succ] at h
      simp only [joinWith] at h
      cases hx : rawIter1 h0 x with
      | none => simp [hx] at h
      | some a =>
        cases hj : joinWith (rawIter1 h0) xs with
        | none => simp [hx, hj] at h
        | some b =>
          simp only [hx, hj] at h
          -- joinN n (a ++ b) = joinN n a ++ joinN n b
          have happ := joinN_append h0 n a b
          rw [h] at happ
          cases ha : joinN h0 n a with
          | none => simp [ha] at happ
          | some ya =>
            cases hb : joinN h0 n b with
            | none => simp [ha, hb] at happ
            | some yb =>
              simp only [ha, hb, Option.some.injEq] at happ
              have hrest : joinN h0 (n + 1) xs = some yb := by rw [joinN_succ, hj]; exact hb
              have h1 := ih a ya ha
              have h2 := ihx yb hrest
              simp only [seqLeaves_cons, leaves_succ, hx, h1, h2, if_true]
              rw [happ]

/-- the `n`-fold join is defined exactly when every value met on the way down is iterable -/
theorem joinN_of_leaves (h0 : Heap) :
    ∀ (n : Nat) (xs : List Val),
      joinN h0 n xs = if (seqLeaves (leaves h0 n) xs).2 then some (seqLeaves (leaves h0 n) xs).1 else none := by
  intro n xs
  cases hj : joinN h0 n xs with
  | some ys => rw [seqLeaves_ok_join h0 n xs ys hj]; rfl
  | none =>
    by_cases hok : (seqLeaves (leaves h0 n) xs).2 = true
    · exfalso
      -- ok leaves give a defined join
      have key : ∀ (n : Nat) (xs : List Val), (seqLeaves (leaves h0 n) xs).2 = true → (joinN h0 n xs).isSome := by
        intro n
        induction n with
        | zero => intro xs _; simp [joinN]
        | succ n ih =>
          intro xs
          induction xs with
          | nil => intro _; rw [joinN_succ]; simp only [joinWith]; exact ih [] rfl
          | cons x xs ihx =>
            intro h
            simp only [seqLeaves_cons, leaves_succ] at h
            cases hx : rawIter1 h0 x with
            | none => simp [hx] at h
            | some a =>
              simp only [hx] at h
              by_cases ha : (seqLeaves (leaves h0 n) a).2 = true
              · simp only [ha, if_true] at h
                have h1 := ih a ha
                have h2 := ihx h
                rw [joinN_succ] at h2 ⊢
                simp only [joinWith, hx]
                cases hjw : joinWith (rawIter1 h0) xs with
                | none => simp [hjw] at h2
                | some b =>
                  simp only [hjw] at h2 ⊢
                  rw [joinN_append]
                  cases hja : joinN h0 n a with
                  | none => simp [hja] at h1
                  | some ya =>
                    cases hjb : joinN h0 n b with
                    | none => simp [hjb] at h2
                    | some yb => rfl
              · simp [ha] at h
      have := key n xs hok
      rw [hj] at this; cases this
    · simp [hok]

theorem pulledValues_items (l : List Val) (f : Nat) (r : List PullObs) :
    pulledValues (l.map (fun v => PullObs.item v f) ++ r) = l ++ pulledValues r := by
  induction l with
  | nil => rfl
  | cons x l ih => simp [pulledValues, ih]

theorem endsInStop_items (l : List Val) (f : Nat) (r : List PullObs) (hr : r ≠ []) :
    endsInStop (l.map (fun v => PullObs.item v f) ++ r) = endsInStop r := by
  induction l with
  | nil => rfl
  | cons x l ih =>
    simp only [List.map_cons, List.cons_append]
    cases hq : (List.map (fun v => PullObs.item v f) l ++ r) with
    | nil => simp at hq; exact absurd hq.2 hr
    | cons q qs => rw [← hq]; simp only [endsInStop, hq]; rw [← hq]; exact ih

theorem refPullsFrom_ne_nil (h0 : Heap) (k total : Nat) (xs : List Val) : refPullsFrom h0 k total xs ≠ [] := by
  induction xs with
  | nil => simp [refPullsFrom]
  | cons x rest ih =>
    simp only [refPullsFrom]
    split
    · intro h; exact ih (List.append_eq_nil_iff.mp h).2
    · simp

/-- the values of the reference run are the depth-first leaves of the source items, up to the
    first value that is not iterable; the run ends in StopIteration iff there is none -/
theorem refPulls_values (h0 : Heap) (k total : Nat) :
    ∀ xs : List Val,
      pulledValues (refPullsFrom h0 k total xs) = (seqLeaves (leaves h0 k) xs).1 ∧
      endsInStop (refPullsFrom h0 k total xs) = (seqLeaves (leaves h0 k) xs).2 := by
  intro xs
  induction xs with
  | nil => exact ⟨rfl, rfl⟩
  | cons x rest ih =>
    simp only [refPullsFrom, seqLeaves_cons]
    by_cases hok : (leaves h0 k x).2 = true
    · simp only [hok, if_true]
      rw [pulledValues_items, endsInStop_items _ _ _ (refPullsFrom_ne_nil h0 k total rest), ih.1, ih.2]
      exact ⟨rfl, rfl⟩
    · simp only [hok, Bool.false_eq_true, if_false]
      rw [pulledValues_items, endsInStop_items _ _ _ (by simp)]
      simp [pulledValues, endsInStop]

end Lazy

end Glom.C15
