import Glom.Spec.Scope
import Glom.Model.Frames
/-
  The ChainMap-of-frames scope satisfies the lexical-scoping laws.
-/
set_option linter.unusedSimpArgs false
namespace Glom.Interp
open ScopeAlg

theorem beq_false_of_ne {a b : String} (h : ¬ a = b) : (a == b) = false := by simpa using h

theorem find_filter_ne {β : Type} (l : List (String × β)) (k k' : String) (h : ¬ k = k') :
    (l.filter (fun x => x.1 != k)).find? (fun x => x.1 == k') = l.find? (fun x => x.1 == k') := by
  rw [List.find?_filter]
  congr 1; funext x
  by_cases hx : x.1 = k'
  · have hne : ¬ x.1 = k := fun e => h (e.symm.trans hx)
    simp [hx]
    intro e; exact h e.symm
  · simp [hx]

theorem attrGet_attrSet (attrs : List (String × V)) (k : String) (v : V) (k' : String) :
    attrGet (attrSet attrs k v) k' = if k' = k then some v else attrGet attrs k' := by
  unfold attrSet attrGet
  by_cases hk : k' = k
  · subst hk; simp
  · have hk2 : ¬ k = k' := fun h => hk h.symm
    simp only [List.find?_cons, beq_false_of_ne hk2, hk, if_false, find_filter_ne attrs k k' hk2]

namespace Frames

theorem lookup_modHead_vars (fs : Frames) (g : Frame → Frame) (hg : ∀ f, (g f).vars = f.vars) (k : String) :
    lookup (modHead fs g) k = lookup fs k := by
  cases fs with
  | nil => simp [modHead, lookup, hg, attrGet]
  | cons f r => simp [modHead, lookup, hg]

theorem lookupRef_modHead_refs (fs : Frames) (g : Frame → Frame) (hg : ∀ f, (g f).refs = f.refs) (k : String) :
    lookupRef (modHead fs g) k = lookupRef fs k := by
  cases fs with
  | nil => simp [modHead, lookupRef, hg]
  | cons f r => simp [modHead, lookupRef, hg]

theorem mode_modHead_keep (fs : Frames) (g : Frame → Frame) (hg : ∀ f, (g f).mode = f.mode) :
    mode (modHead fs g) = mode fs := by
  cases fs with
  | nil => simp [modHead, mode, hg]
  | cons f r => simp [modHead, mode, hg]

theorem argMode_modHead_keep (fs : Frames) (g : Frame → Frame) (hg : ∀ f, (g f).arg = f.arg) :
    argMode (modHead fs g) = argMode fs := by
  cases fs with
  | nil => simp [modHead, argMode, hg]
  | cons f r => simp [modHead, argMode, hg]

theorem mode_modHead_set (fs : Frames) (g : Frame → Frame) (m : Mode) (hg : ∀ f, (g f).mode = some m) :
    mode (modHead fs g) = m := by
  cases fs <;> simp [modHead, mode, hg]

theorem argMode_modHead_set (fs : Frames) (g : Frame → Frame) (b : Bool) (hg : ∀ f, (g f).arg = some b) :
    argMode (modHead fs g) = b := by
  cases fs <;> simp [modHead, argMode, hg]

theorem lookup_bind' (fs : Frames) (k : String) (v : V) (k' : String) :
    lookup (bind fs k v) k' = if k' = k then some v else lookup fs k' := by
  cases fs with
  | nil =>
    simp only [bind, modHead, lookup, attrGet_attrSet]
    by_cases hk : k' = k <;> simp [hk, attrGet]
  | cons f r =>
    simp only [bind, modHead, lookup, attrGet_attrSet]
    by_cases hk : k' = k <;> simp [hk]

theorem lookupRef_bindRef' (fs : Frames) (k : String) (s : Spec) (k' : String) :
    lookupRef (bindRef fs k s) k' = if k' = k then some s else lookupRef fs k' := by
  cases fs with
  | nil =>
    by_cases hk : k' = k
    · subst hk; simp [bindRef, modHead, lookupRef]
    · have hk2 : ¬ k = k' := fun h => hk h.symm
      simp [bindRef, modHead, lookupRef, hk, hk2]
  | cons f r =>
    by_cases hk : k' = k
    · subst hk; simp [bindRef, modHead, lookupRef]
    · have hk2 : ¬ k = k' := fun h => hk h.symm
      simp only [bindRef, modHead, lookupRef, List.find?_cons, beq_false_of_ne hk2, hk, if_false,
        find_filter_ne f.refs k k' hk2]

end Frames

namespace Frames
theorem lookupRef_bind_ (s : Frames) (k : String) (v : V) (k' : String) : lookupRef (bind s k v) k' = lookupRef s k' := by
  simp only [bind, bindRef, setMode, setArgMode, chain]; apply lookupRef_modHead_refs; intro f; rfl
theorem mode_bind_ (s : Frames) (k : String) (v : V) : mode (bind s k v) = mode s := by
  simp only [bind, bindRef, setMode, setArgMode, chain]; apply mode_modHead_keep; intro f; rfl
theorem argMode_bind_ (s : Frames) (k : String) (v : V) : argMode (bind s k v) = argMode s := by
  simp only [bind, bindRef, setMode, setArgMode, chain]; apply argMode_modHead_keep; intro f; rfl
theorem lookup_bindRef_ (s : Frames) (k : String) (r : Spec) (k' : String) : lookup (bindRef s k r) k' = lookup s k' := by
  simp only [bind, bindRef, setMode, setArgMode, chain]; apply lookup_modHead_vars; intro f; rfl
theorem mode_bindRef_ (s : Frames) (k : String) (r : Spec) : mode (bindRef s k r) = mode s := by
  simp only [bind, bindRef, setMode, setArgMode, chain]; apply mode_modHead_keep; intro f; rfl
theorem argMode_bindRef_ (s : Frames) (k : String) (r : Spec) : argMode (bindRef s k r) = argMode s := by
  simp only [bind, bindRef, setMode, setArgMode, chain]; apply argMode_modHead_keep; intro f; rfl
theorem lookup_setMode_ (s : Frames) (m : Mode) (k' : String) : lookup (setMode s m) k' = lookup s k' := by
  simp only [bind, bindRef, setMode, setArgMode, chain]; apply lookup_modHead_vars; intro f; rfl
theorem lookupRef_setMode_ (s : Frames) (m : Mode) (k' : String) : lookupRef (setMode s m) k' = lookupRef s k' := by
  simp only [bind, bindRef, setMode, setArgMode, chain]; apply lookupRef_modHead_refs; intro f; rfl
theorem argMode_setMode_ (s : Frames) (m : Mode) : argMode (setMode s m) = argMode s := by
  simp only [bind, bindRef, setMode, setArgMode, chain]; apply argMode_modHead_keep; intro f; rfl
theorem lookup_setArgMode_ (s : Frames) (b : Bool) (k' : String) : lookup (setArgMode s b) k' = lookup s k' := by
  simp only [bind, bindRef, setMode, setArgMode, chain]; apply lookup_modHead_vars; intro f; rfl
theorem lookupRef_setArgMode_ (s : Frames) (b : Bool) (k' : String) : lookupRef (setArgMode s b) k' = lookupRef s k' := by
  simp only [bind, bindRef, setMode, setArgMode, chain]; apply lookupRef_modHead_refs; intro f; rfl
theorem mode_setArgMode_ (s : Frames) (b : Bool) : mode (setArgMode s b) = mode s := by
  simp only [bind, bindRef, setMode, setArgMode, chain]; apply mode_modHead_keep; intro f; rfl
theorem mode_setMode_ (s : Frames) (m : Mode) : mode (setMode s m) = m := by
  simp only [bind, bindRef, setMode, setArgMode, chain]; apply mode_modHead_set; intro f; rfl
theorem argMode_setArgMode_ (s : Frames) (b : Bool) : argMode (setArgMode s b) = b := by
  simp only [bind, bindRef, setMode, setArgMode, chain]; apply argMode_modHead_set; intro f; rfl
theorem lookup_chain_ (o c : Frames) (k : String) : lookup (chain o c) k = lookup c k := by
  simp only [bind, bindRef, setMode, setArgMode, chain]; apply lookup_modHead_vars; intro f; rfl
theorem lookupRef_chain_ (o c : Frames) (k : String) : lookupRef (chain o c) k = lookupRef c k := by
  simp only [bind, bindRef, setMode, setArgMode, chain]; apply lookupRef_modHead_refs; intro f; rfl
theorem mode_chain_ (o c : Frames) : mode (chain o c) = mode o := by
  simp only [bind, bindRef, setMode, setArgMode, chain]; apply mode_modHead_set; intro f; rfl
theorem argMode_chain_ (o c : Frames) : argMode (chain o c) = argMode o := by
  simp only [bind, bindRef, setMode, setArgMode, chain]; apply argMode_modHead_set; intro f; rfl
end Frames

instance : LawfulScope Frames where
  lookup_child s k := by
    show Frames.lookup (Frames.child s) k = Frames.lookup s k
    simp [Frames.child, Frames.lookup, attrGet]
  lookupRef_child s k := by
    show Frames.lookupRef (Frames.child s) k = Frames.lookupRef s k
    simp [Frames.child, Frames.lookupRef]
  mode_child s := by
    show Frames.mode (Frames.child s) = Frames.mode s
    simp [Frames.child, Frames.mode]
  argMode_child s := by
    show Frames.argMode (Frames.child s) = Frames.argMode s
    simp [Frames.child, Frames.argMode]
  lookup_bind := Frames.lookup_bind'
  lookupRef_bind := Frames.lookupRef_bind_
  mode_bind := Frames.mode_bind_
  argMode_bind := Frames.argMode_bind_
  lookup_bindRef := Frames.lookup_bindRef_
  lookupRef_bindRef := Frames.lookupRef_bindRef'
  mode_bindRef := Frames.mode_bindRef_
  argMode_bindRef := Frames.argMode_bindRef_
  lookup_setMode := Frames.lookup_setMode_
  lookupRef_setMode := Frames.lookupRef_setMode_
  mode_setMode := Frames.mode_setMode_
  argMode_setMode := Frames.argMode_setMode_
  lookup_setArgMode := Frames.lookup_setArgMode_
  lookupRef_setArgMode := Frames.lookupRef_setArgMode_
  mode_setArgMode := Frames.mode_setArgMode_
  argMode_setArgMode := Frames.argMode_setArgMode_
  lookup_chain := Frames.lookup_chain_
  lookupRef_chain := Frames.lookupRef_chain_
  mode_chain := Frames.mode_chain_
  argMode_chain := Frames.argMode_chain_

end Glom.Interp
