import Glom.Lemmas.C20
import Glom.Spec.C20Arg
/-
  C20 — helper lemmas for arguments shared through a spec (`Glom/Model/C20Arg.lean`):
  * `argEval_ext`: seen from any `base ≤` the heap's length, an evaluation under `_ArgValuator.mode`
    only appends objects and extends objects it appended; what it returns and what it puts into new
    objects are leaves or new objects (`FreshVal`), given that the cache holds new objects only;
  * `argVal_flat`: a flat literal yields exactly one new object with the evaluated items;
  * `SysInv`: the simulation of the heap system by the by-value reference (`privRun`), preserved by
    every operation of every thread.
-/
namespace Glom.C20.Arg
open Glom.C20

theorem flatMap_congr' {α β : Type} {f g : α → List β} : ∀ {l : List α}, (∀ x ∈ l, f x = g x) →
    l.flatMap f = l.flatMap g := by
  intro l
  induction l with
  | nil => intro _; rfl
  | cons a r ih =>
    intro h
    simp only [List.flatMap_cons]
    rw [h a (List.mem_cons_self ..), ih (fun x hx => h x (List.mem_cons_of_mem _ hx))]

/-! ### extendAt / pushAt -/

theorem extendAt_length (h : Heap) (a : Nat) (vs : List Val) : (extendAt h a vs).length = h.length := by
  unfold extendAt; split <;> simp

theorem extendAt_other (h : Heap) (a b : Nat) (vs : List Val) (hne : b ≠ a) :
    (extendAt h a vs)[b]? = h[b]? := by
  unfold extendAt; split
  · rw [List.getElem?_set_ne (Ne.symm hne)]
  · rfl

theorem extendAt_same (h : Heap) (a : Nat) (vs : List Val) (o : Obj) (ho : h[a]? = some o) :
    (extendAt h a vs)[a]? = some { o with items := o.items ++ vs } := by
  unfold extendAt; rw [ho]
  have : a < h.length := (List.getElem?_eq_some_iff.mp ho).1
  simp [List.getElem?_set_self this]

theorem pushAt_length (h : Heap) (a : Nat) (x : String) : (pushAt h a x).length = h.length := by
  unfold pushAt; split <;> simp

theorem pushAt_other (h : Heap) (a b : Nat) (x : String) (hne : b ≠ a) : (pushAt h a x)[b]? = h[b]? := by
  unfold pushAt; split
  · rw [List.getElem?_set_ne (Ne.symm hne)]
  · rfl

theorem pushAt_same (h : Heap) (a : Nat) (x : String) (o : Obj) (ho : h[a]? = some o) :
    (pushAt h a x)[a]? = some (pushObj o x) := by
  unfold pushAt; rw [ho]
  have : a < h.length := (List.getElem?_eq_some_iff.mp ho).1
  simp [List.getElem?_set_self this]

/-! ### what an evaluation under `_ArgValuator.mode` can touch -/

/-- a leaf, or a container that did not exist at `base` -/
def FreshVal (base : Nat) : Val → Prop
  | .leaf _ => True
  | .ref r => base ≤ r

structure Good (base : Nat) (st : AV) : Prop where
  cache : ∀ e ∈ st.cache, base ≤ e.2
  objs : ∀ a o, base ≤ a → st.heap[a]? = some o → ∀ v ∈ o.items, FreshVal base v

structure Ext (base : Nat) (st st' : AV) : Prop where
  good : Good base st'
  len : st.heap.length ≤ st'.heap.length
  old : ∀ a, a < st.heap.length → st'.heap[a]? = st.heap[a]?

theorem Ext.refl {base : Nat} {st : AV} (h : Good base st) : Ext base st st :=
  ⟨h, Nat.le_refl _, fun _ _ => rfl⟩

theorem Ext.trans {base : Nat} {a b c : AV} (h1 : Ext base a b) (h2 : Ext base b c) : Ext base a c :=
  ⟨h2.good, Nat.le_trans h1.len h2.len, fun x hx => by
    rw [h2.old x (Nat.lt_of_lt_of_le hx h1.len), h1.old x hx]⟩

theorem evalItems_ext {base : Nat} (f : AV → Val → AV × Val)
    (hf : ∀ st v, base ≤ st.heap.length → Good base st → Ext base st (f st v).1 ∧ FreshVal base (f st v).2) :
    ∀ (vs : List Val) (st : AV), base ≤ st.heap.length → Good base st →
      Ext base st (evalItems f st vs).1 ∧ ∀ v ∈ (evalItems f st vs).2, FreshVal base v := by
  intro vs
  induction vs with
  | nil => intro st _ hg; exact ⟨Ext.refl hg, by simp [evalItems]⟩
  | cons v r ih =>
    intro st hb hg
    obtain ⟨e1, f1⟩ := hf st v hb hg
    obtain ⟨e2, f2⟩ := ih (f st v).1 (Nat.le_trans hb e1.len) e1.good
    refine ⟨e1.trans e2, ?_⟩
    intro w hw
    simp only [evalItems, List.mem_cons] at hw
    rcases hw with hw | hw
    · rw [hw]; exact f1
    · exact f2 w hw

theorem argEval_ext {base : Nat} (ev : String → String) :
    ∀ (n : Nat) (st : AV) (v : Val), base ≤ st.heap.length → Good base st →
      Ext base st (argEvalX false ev n st v).1 ∧ FreshVal base (argEvalX false ev n st v).2 := by
  intro n
  induction n with
  | zero => intro st v _ hg; exact ⟨Ext.refl hg, trivial⟩
  | succ n ih =>
    intro st v hb hg
    cases v with
    | leaf s => exact ⟨Ext.refl hg, trivial⟩
    | ref a =>
      simp only [argEvalX]
      split
      · exact ⟨Ext.refl hg, trivial⟩
      · next o ho =>
        simp only [Bool.false_and, Bool.false_eq_true, if_false]
        split
        · -- list / dict
          split
          · next r hr => exact ⟨Ext.refl hg, hg.cache _ (dlookup_mem hr)⟩
          · -- allocate the empty container, store it in the cache, evaluate the items, extend
            generalize hst1 : (AV.mk (st.heap ++ [⟨o.kind, []⟩]) ((a, st.heap.length) :: st.cache)) = st1
            have h1h : st1.heap = st.heap ++ [⟨o.kind, []⟩] := by rw [← hst1]
            have h1c : st1.cache = (a, st.heap.length) :: st.cache := by rw [← hst1]
            have h1l : st1.heap.length = st.heap.length + 1 := by rw [h1h]; simp
            have hg1 : Good base st1 := by
              refine ⟨?_, ?_⟩
              · intro e he
                rw [h1c] at he
                rcases List.mem_cons.mp he with he | he
                · rw [he]; exact hb
                · exact hg.cache e he
              · intro x ox hx hox
                rw [h1h] at hox
                by_cases hlt : x < st.heap.length
                · rw [List.getElem?_append_left hlt] at hox
                  exact hg.objs x ox hx hox
                · have hlen := (List.getElem?_eq_some_iff.mp hox).1
                  have hxe : x = st.heap.length := by simp at hlen; omega
                  subst hxe
                  simp at hox
                  subst hox
                  intro v hv; simp at hv
            have hb1 : base ≤ st1.heap.length := by omega
            obtain ⟨e1, f1⟩ := evalItems_ext (argEvalX false ev n) (ih) o.items st1 hb1 hg1
            have hrlt : st.heap.length < (evalItems (argEvalX false ev n) st1 o.items).1.heap.length := by
              have := e1.len; omega
            refine ⟨⟨⟨e1.good.cache, ?_⟩, ?_, ?_⟩, hb⟩
            · intro x ox hx hox
              by_cases hxe : x = st.heap.length
              · subst hxe
                obtain ⟨o1, ho1⟩ : ∃ o1, (evalItems (argEvalX false ev n) st1 o.items).1.heap[st.heap.length]? = some o1 :=
                  ⟨_, List.getElem?_eq_getElem hrlt⟩
                rw [extendAt_same _ _ _ o1 ho1] at hox
                simp only [Option.some.injEq] at hox
                subst hox
                intro v hv
                rcases List.mem_append.mp hv with hv | hv
                · exact e1.good.objs _ o1 hb ho1 v hv
                · exact f1 v hv
              · rw [extendAt_other _ _ _ _ hxe] at hox
                exact e1.good.objs x ox hx hox
            · rw [extendAt_length]; omega
            · intro x hx
              rw [extendAt_other _ _ _ _ (by omega)]
              rw [e1.old x (by omega), h1h]
              exact List.getElem?_append_left hx
        · -- tuple / set / frozenset
          obtain ⟨e1, f1⟩ := evalItems_ext (argEvalX false ev n) (ih) o.items st hb hg
          refine ⟨⟨⟨e1.good.cache, ?_⟩, ?_, ?_⟩, Nat.le_trans hb e1.len⟩
          · intro x ox hx hox
            by_cases hlt : x < (evalItems (argEvalX false ev n) st o.items).1.heap.length
            · rw [List.getElem?_append_left hlt] at hox
              exact e1.good.objs x ox hx hox
            · have hlen := (List.getElem?_eq_some_iff.mp hox).1
              have hxe : x = (evalItems (argEvalX false ev n) st o.items).1.heap.length := by simp at hlen; omega
              subst hxe
              simp at hox
              subst hox
              exact f1
          · simp; have := e1.len; omega
          · intro x hx
            rw [List.getElem?_append_left (Nat.lt_of_lt_of_le hx e1.len)]
            exact e1.old x hx

/-! ### the tokens of the spec's own values do not change while only new objects are touched -/

def ValIn (n : Nat) : Val → Prop
  | .leaf _ => True
  | .ref r => r < n

/-- every reference inside the heap points into the heap -/
def Closed (h : Heap) : Prop := ∀ (a : Nat) (o : Obj), h[a]? = some o → ∀ v ∈ o.items, ValIn h.length v

theorem tokens_frame {h h' : Heap} (hc : Closed h) (hold : ∀ a, a < h.length → h'[a]? = h[a]?) :
    ∀ (n : Nat) (v : Val), ValIn h.length v → tokens h' n v = tokens h n v := by
  intro n
  induction n with
  | zero => intro v _; cases v <;> rfl
  | succ n ih =>
    intro v hv
    cases v with
    | leaf s => rfl
    | ref a =>
      have ha : a < h.length := hv
      simp only [tokens, hold a ha]
      split
      · next o ho =>
        congr 3
        apply flatMap_congr'
        intro w hw
        exact ih w (hc a o ho w hw)
      · rfl

/-! ### a flat literal -/

theorem evalItems_flat (fast : Bool) (ev : String → String) (n : Nat) (st : AV) :
    ∀ (vs : List Val), (∀ v ∈ vs, ∃ s, v = .leaf s) →
      evalItems (argEvalX fast ev (n + 1)) st vs = (st, vs.map (evLeaf ev)) := by
  intro vs
  induction vs with
  | nil => intro _; rfl
  | cons v r ih =>
    intro hv
    obtain ⟨s, rfl⟩ := hv v (List.mem_cons_self ..)
    have := ih (fun w hw => hv w (List.mem_cons_of_mem _ hw))
    simp only [evalItems, argEvalX, this, List.map_cons, evLeaf]

theorem extendAt_fresh (h : Heap) (k : Kind) (vs : List Val) :
    extendAt (h ++ [⟨k, []⟩]) h.length vs = h ++ [⟨k, vs⟩] := by
  unfold extendAt
  simp

theorem argVal_flat (ev : String → String) (n : Nat) (h : Heap) (l : Nat) (o : Obj) (ho : h[l]? = some o)
    (hf : Flat o) :
    argVal ev (n + 2) h (.ref l) = (h ++ [⟨o.kind, o.items.map (evLeaf ev)⟩], .ref h.length) := by
  simp only [argVal, argValX, argEvalX, ho, Bool.false_and, Bool.false_eq_true, if_false, dlookup]
  split
  · rw [evalItems_flat false ev n _ o.items hf]
    simp [extendAt_fresh]
  · rw [evalItems_flat false ev n _ o.items hf]

theorem flat_map_evLeaf (ev : String → String) (o : Obj) (hf : Flat o) :
    Flat ⟨o.kind, o.items.map (evLeaf ev)⟩ := by
  intro v hv
  simp only [List.mem_map] at hv
  obtain ⟨w, hw, rfl⟩ := hv
  obtain ⟨s, rfl⟩ := hf w hw
  exact ⟨ev s, rfl⟩

theorem flat_pushObj (o : Obj) (x : String) (hf : Flat o) : Flat (pushObj o x) := by
  unfold pushObj
  split
  · intro v hv
    rcases List.mem_append.mp hv with hv | hv
    · exact hf v hv
    · simp at hv; exact ⟨x, hv⟩
  · split
    · exact hf
    · intro v hv
      rcases List.mem_append.mp hv with hv | hv
      · exact hf v hv
      · simp at hv; exact ⟨x, hv⟩
  · split
    · exact hf
    · intro v hv
      rcases List.mem_append.mp hv with hv | hv
      · exact hf v hv
      · simp at hv; rcases hv with hv | hv
        · exact ⟨x, hv⟩
        · exact ⟨"1", hv⟩
  · exact hf

theorem tokens_flat (h : Heap) (n : Nat) (a : Nat) (o : Obj) (ho : h[a]? = some o) (hf : Flat o) :
    tokens h (n + 1) (.ref a) = flatTokens o := by
  simp only [tokens, ho, flatTokens]
  congr 3
  apply flatMap_congr'
  intro v hv
  obtain ⟨s, rfl⟩ := hf v hv
  cases n <;> rfl

/-! ### the heap system simulates the by-value reference -/

/-- the call holds the by-value state `cur`: nothing yet, or a new object with that value -/
def Holds (lits heap : Heap) (reg : Val) : Option Obj → Prop
  | none => reg = .leaf "None"
  | some c => ∃ a, reg = .ref a ∧ lits.length ≤ a ∧ heap[a]? = some c ∧ Flat c

theorem Holds.mono {lits heap heap' : Heap} {reg : Val} {cur : Option Obj} (h : Holds lits heap reg cur)
    (hsame : ∀ a, reg = .ref a → heap'[a]? = heap[a]?) : Holds lits heap' reg cur := by
  cases cur with
  | none => exact h
  | some c =>
    obtain ⟨a, h1, h2, h3, h4⟩ := h
    exact ⟨a, h1, h2, by rw [hsame a h1]; exact h3, h4⟩

/-- thread `t` (started as `t0`) has done the operations `done` of its program, and its state is
    the by-value state after `done`: the container it holds is a new object with that value -/
structure TRel (lits heap : Heap) (t0 t : Thread) : Prop where
  ev : t.ev = t0.ev
  split : ∃ done, t0.ops = done ++ t.ops ∧ t.out = (privRun t0.ev lits done {}).out ∧
    Holds lits heap t.reg (privRun t0.ev lits done {}).cur

structure SysInv (lits : Heap) (ts : List Thread) (s : Sys) : Prop where
  len : s.threads.length = ts.length
  base : lits.length ≤ s.heap.length
  frame : ∀ (a : Nat), a < lits.length → s.heap[a]? = lits[a]?
  rel : ∀ (i : Nat) (t0 t : Thread), ts[i]? = some t0 → s.threads[i]? = some t → TRel lits s.heap t0 t
  regs : ∀ (i : Nat) (t : Thread) (a : Nat), s.threads[i]? = some t → t.reg = .ref a → a < s.heap.length
  apart : ∀ (i j : Nat) (ti tj : Thread) (a : Nat), i ≠ j → s.threads[i]? = some ti → s.threads[j]? = some tj →
    ti.reg = .ref a → tj.reg ≠ .ref a

theorem privRun_append (ev : String → String) (lits : Heap) : ∀ (a b : List Op) (p : PState),
    privRun ev lits (a ++ b) p = privRun ev lits b (privRun ev lits a p) := by
  intro a
  induction a with
  | nil => intro b p; rfl
  | cons op r ih => intro b p; simp only [List.cons_append, privRun, ih]

theorem privRun_snoc (ev : String → String) (lits : Heap) (done : List Op) (op : Op) (p : PState) :
    privRun ev lits (done ++ [op]) p = privStep ev lits (privRun ev lits done p) op := by
  rw [privRun_append]; rfl

theorem sysInv_init (lits : Heap) (ts : List Thread)
    (hinit : ∀ t ∈ ts, t.reg = .leaf "None" ∧ t.out = []) : SysInv lits ts ⟨lits, ts⟩ := by
  refine ⟨rfl, Nat.le_refl _, fun _ _ => rfl, ?_, ?_, ?_⟩
  · intro i t0 t h0 ht
    simp only at ht
    rw [h0] at ht
    simp only [Option.some.injEq] at ht
    subst ht
    have hi := hinit t0 (List.mem_of_getElem? h0)
    exact ⟨rfl, [], rfl, by simp [privRun, hi.2], by simp only [privRun]; exact hi.1⟩
  · intro i t a ht hr
    have hi := hinit t (List.mem_of_getElem? ht)
    rw [hi.1] at hr; cases hr
  · intro i j ti tj a _ hti _ hr
    have hi := hinit ti (List.mem_of_getElem? hti)
    rw [hi.1] at hr; cases hr

/-- thread `i` goes from `t` to `t'` and the heap from `s.heap` to `h'`, touching only what `t` holds -/
theorem sysInv_update {lits : Heap} {ts : List Thread} {s : Sys} (inv : SysInv lits ts s) (i : Nat) (t t' : Thread)
    (hi : s.threads[i]? = some t) (h' : Heap)
    (hframe : ∀ (a : Nat), a < lits.length → h'[a]? = lits[a]?)
    (hlen : s.heap.length ≤ h'.length)
    (hothers : ∀ (a : Nat), a < s.heap.length → t.reg ≠ .ref a → h'[a]? = s.heap[a]?)
    (hrel : ∀ t0, ts[i]? = some t0 → TRel lits h' t0 t')
    (hreg : ∀ (a : Nat), t'.reg = .ref a → a < h'.length ∧ (t'.reg = t.reg ∨ s.heap.length ≤ a)) :
    SysInv lits ts ⟨h', s.threads.set i t'⟩ := by
  have hil : i < s.threads.length := (List.getElem?_eq_some_iff.mp hi).1
  have hget : ∀ (j : Nat) (tj : Thread), (s.threads.set i t')[j]? = some tj →
      (j = i ∧ tj = t') ∨ (j ≠ i ∧ s.threads[j]? = some tj) := by
    intro j tj hj
    by_cases hji : j = i
    · subst hji
      rw [List.getElem?_set_self hil] at hj
      exact Or.inl ⟨rfl, (Option.some.inj hj).symm⟩
    · rw [List.getElem?_set_ne (Ne.symm hji)] at hj
      exact Or.inr ⟨hji, hj⟩
  refine ⟨by simp [inv.len], Nat.le_trans inv.base hlen, hframe, ?_, ?_, ?_⟩
  · intro j t0 tj h0 hj
    rcases hget j tj hj with ⟨rfl, rfl⟩ | ⟨hji, hj'⟩
    · exact hrel t0 h0
    · obtain ⟨e, done, h1, h2, h3⟩ := inv.rel j t0 tj h0 hj'
      refine ⟨e, done, h1, h2, h3.mono ?_⟩
      intro a ha
      apply hothers a (inv.regs j tj a hj' ha)
      intro htr
      exact inv.apart i j t tj a (Ne.symm hji) hi hj' htr ha
  · intro j tj a hj ha
    rcases hget j tj hj with ⟨rfl, rfl⟩ | ⟨_, hj'⟩
    · exact (hreg a ha).1
    · exact Nat.lt_of_lt_of_le (inv.regs j tj a hj' ha) hlen
  · intro j k tj tk a hjk hj hk ha hka
    rcases hget j tj hj with ⟨rfl, rfl⟩ | ⟨hji, hj'⟩
    · rcases hget k tk hk with ⟨rfl, _⟩ | ⟨hki, hk'⟩
      · exact hjk rfl
      · rcases (hreg a ha).2 with h | h
        · exact inv.apart j k t tk a hjk hi hk' (h ▸ ha) hka
        · have := inv.regs k tk a hk' hka; omega
    · rcases hget k tk hk with ⟨rfl, rfl⟩ | ⟨hki, hk'⟩
      · rcases (hreg a hka).2 with h | h
        · exact inv.apart k j t tj a (Ne.symm hjk) hi hj' (h ▸ hka) ha
        · have := inv.regs j tj a hj' ha; omega
      · exact inv.apart j k tj tk a hjk hj' hk' ha hka

theorem list_set_same {α : Type} (l : List α) (i : Nat) (x : α) (h : l[i]? = some x) : l.set i x = l := by
  apply List.ext_getElem?
  intro j
  by_cases hji : j = i
  · subst hji
    rw [List.getElem?_set_self (List.getElem?_eq_some_iff.mp h).1, h]
  · rw [List.getElem?_set_ne (Ne.symm hji)]

/-- **one operation of one thread preserves the simulation** -/
theorem sysInv_step {lits : Heap} {ts : List Thread} {s : Sys} (n : Nat)
    (hflat : ∀ t ∈ ts, ∀ op ∈ t.ops, FlatOp lits op)
    (inv : SysInv lits ts s) (i : Nat) : SysInv lits ts (s.step false (n + 2) i) := by
  unfold Sys.step
  cases hi : s.threads[i]? with
  | none => exact inv
  | some t =>
    simp only
    have hil : i < s.threads.length := (List.getElem?_eq_some_iff.mp hi).1
    obtain ⟨t0, h0⟩ : ∃ t0, ts[i]? = some t0 := ⟨ts[i]'(inv.len ▸ hil), List.getElem?_eq_getElem _⟩
    obtain ⟨hev, done, hsplit, hout, hholds⟩ := inv.rel i t0 t h0 hi
    cases hops : t.ops with
    | nil =>
      have : t.step false (n + 2) s.heap = (t, s.heap) := by simp [Thread.step, hops]
      rw [this]
      simp only
      rw [list_set_same _ _ _ hi]
      exact inv
    | cons op r =>
      have hsplit' : t0.ops = (done ++ [op]) ++ r := by rw [hsplit, hops]; simp
      have hop : FlatOp lits op :=
        hflat t0 (List.mem_of_getElem? h0) op (by rw [hsplit']; simp)
      have hrun := privRun_snoc t0.ev lits done op {}
      cases op with
      | yield =>
        have : t.step false (n + 2) s.heap = ({ t with ops := r }, s.heap) := by simp [Thread.step, hops]
        rw [this]
        refine sysInv_update inv i t _ hi s.heap inv.frame (Nat.le_refl _) (fun _ _ _ => rfl) ?_ ?_
        · intro t0' h0'
          rw [h0] at h0'; cases h0'
          exact ⟨hev, done ++ [.yield], hsplit', by rw [hrun]; exact hout, by rw [hrun]; exact hholds⟩
        · intro a ha
          exact ⟨inv.regs i t a hi ha, Or.inl rfl⟩
      | read =>
        have : t.step false (n + 2) s.heap =
            ({ t with ops := r, out := t.out ++ [tokens s.heap (n + 2) t.reg] }, s.heap) := by
          simp [Thread.step, hops]
        rw [this]
        refine sysInv_update inv i t _ hi s.heap inv.frame (Nat.le_refl _) (fun _ _ _ => rfl) ?_ ?_
        · intro t0' h0'
          rw [h0] at h0'; cases h0'
          refine ⟨hev, done ++ [.read], hsplit', ?_, by rw [hrun]; exact hholds⟩
          rw [hrun]
          simp only [privStep, hout]
          congr 2
          cases hc : (privRun t0.ev lits done {}).cur with
          | none =>
            rw [hc] at hholds
            simp only [Holds] at hholds
            rw [hholds]; rfl
          | some c =>
            rw [hc] at hholds
            obtain ⟨a, h1, _, h3, h4⟩ := hholds
            rw [h1]
            exact tokens_flat s.heap (n + 1) a c h3 h4
        · intro a ha
          exact ⟨inv.regs i t a hi ha, Or.inl rfl⟩
      | push p x =>
        have hp : p = [] := hop
        subst hp
        cases hc : (privRun t0.ev lits done {}).cur with
        | none =>
          rw [hc] at hholds
          simp only [Holds] at hholds
          have : t.step false (n + 2) s.heap = ({ t with ops := r }, s.heap) := by
            simp [Thread.step, hops, hholds, locate]
          rw [this]
          refine sysInv_update inv i t _ hi s.heap inv.frame (Nat.le_refl _) (fun _ _ _ => rfl) ?_ ?_
          · intro t0' h0'
            rw [h0] at h0'; cases h0'
            refine ⟨hev, done ++ [.push [] x], hsplit', by rw [hrun]; exact hout, ?_⟩
            rw [hrun]; simp only [privStep, hc, Option.map_none, Holds]; exact hholds
          · intro a ha
            exact ⟨inv.regs i t a hi ha, Or.inl rfl⟩
        | some c =>
          rw [hc] at hholds
          obtain ⟨a, h1, h2, h3, h4⟩ := hholds
          have : t.step false (n + 2) s.heap = ({ t with ops := r }, pushAt s.heap a x) := by
            simp [Thread.step, hops, h1, locate]
          rw [this]
          refine sysInv_update inv i t _ hi (pushAt s.heap a x) ?_ (by rw [pushAt_length]; exact Nat.le_refl _) ?_ ?_ ?_
          · intro b hb
            rw [pushAt_other _ _ _ _ (by omega)]
            exact inv.frame b hb
          · intro b _ hne
            apply pushAt_other
            intro hba; subst hba; exact hne h1
          · intro t0' h0'
            rw [h0] at h0'; cases h0'
            refine ⟨hev, done ++ [.push [] x], hsplit', by rw [hrun]; exact hout, ?_⟩
            rw [hrun]; simp only [privStep, hc, Option.map_some, Holds]
            exact ⟨a, h1, h2, pushAt_same _ _ _ c h3, flat_pushObj c x h4⟩
          · intro b hb
            refine ⟨?_, Or.inl rfl⟩
            rw [pushAt_length]
            exact inv.regs i t b hi hb
      | bindRaw lit => exact absurd hop id
      | bind lit =>
        obtain ⟨l, o, hlit, hlo, hfo⟩ := hop
        subst hlit
        have hll : l < lits.length := (List.getElem?_eq_some_iff.mp hlo).1
        have hso : s.heap[l]? = some o := by rw [inv.frame l hll]; exact hlo
        have : t.step false (n + 2) s.heap =
            ({ t with ops := r, reg := .ref s.heap.length },
             s.heap ++ [⟨o.kind, o.items.map (evLeaf t.ev)⟩]) := by
          have h := argVal_flat t.ev n s.heap l o hso hfo
          simp only [argVal] at h
          simp [Thread.step, hops, h]
        rw [this]
        refine sysInv_update inv i t _ hi _ ?_ (by simp) ?_ ?_ ?_
        · intro b hb
          rw [List.getElem?_append_left (by have := inv.base; omega)]
          exact inv.frame b hb
        · intro b hb _
          exact List.getElem?_append_left hb
        · intro t0' h0'
          rw [h0] at h0'; cases h0'
          refine ⟨hev, done ++ [.bind (.ref l)], hsplit', by rw [hrun]; exact hout, ?_⟩
          rw [hrun]; simp only [privStep, hlo, Option.map_some, Holds]
          refine ⟨s.heap.length, rfl, inv.base, ?_, flat_map_evLeaf _ o hfo⟩
          rw [hev]; simp
        · intro b hb
          simp only [Val.ref.injEq] at hb
          subst hb
          exact ⟨by simp, Or.inr (Nat.le_refl _)⟩

theorem sysInv_run {lits : Heap} {ts : List Thread} (n : Nat)
    (hflat : ∀ t ∈ ts, ∀ op ∈ t.ops, FlatOp lits op) :
    ∀ (sched : List Nat) (s : Sys), SysInv lits ts s → SysInv lits ts (s.run false (n + 2) sched) := by
  intro sched
  induction sched with
  | nil => intro s h; exact h
  | cons i r ih => intro s h; exact ih _ (sysInv_step n hflat h i)

theorem sysInv_runToYield {lits : Heap} {ts : List Thread} (n : Nat)
    (hflat : ∀ t ∈ ts, ∀ op ∈ t.ops, FlatOp lits op) (i : Nat) :
    ∀ (k : Nat) (s : Sys), SysInv lits ts s → SysInv lits ts (s.runToYield false (n + 2) i k) := by
  intro k
  induction k with
  | zero => intro s h; exact h
  | succ k ih =>
    intro s h
    unfold Sys.runToYield
    split
    · exact h
    · split
      · exact h
      · exact sysInv_step n hflat h i
      · exact ih _ (sysInv_step n hflat h i)

theorem sysInv_runSegments {lits : Heap} {ts : List Thread} (n : Nat)
    (hflat : ∀ t ∈ ts, ∀ op ∈ t.ops, FlatOp lits op) (k : Nat) :
    ∀ (sched : List Nat) (s : Sys), SysInv lits ts s → SysInv lits ts (s.runSegments false (n + 2) k sched) := by
  intro sched
  induction sched with
  | nil => intro s h; exact h
  | cons i r ih => intro s h; exact ih _ (sysInv_runToYield n hflat i k s h)

/-- what the simulation says about a thread that has finished: it read what the reference reads -/
theorem sysInv_done {lits : Heap} {ts : List Thread} {s : Sys} (inv : SysInv lits ts s) (i : Nat) (t0 t : Thread)
    (h0 : ts[i]? = some t0) (ht : s.threads[i]? = some t) (hdone : t.ops = []) :
    t.out = (privRun t0.ev lits t0.ops {}).out := by
  obtain ⟨_, done, h1, h2, _⟩ := inv.rel i t0 t h0 ht
  rw [hdone, List.append_nil] at h1
  rw [h1]; exact h2

end Glom.C20.Arg
