import Glom.Spec.Lexical
import Glom.Lemmas.MonadLaws
import Glom.Lemmas.Frames
/-
  Representation independence: for every lawful scope representation σ, running the interpreter
  on a scope `sc : σ` and abstracting the resulting scope equals running it on the canonical
  lexical scope `obsOf sc`.  Homomorphism lemmas, then one simulation lemma per loop.
-/
set_option linter.unusedSimpArgs false
set_option linter.unusedSectionVars false
namespace Glom.Interp
open ScopeAlg

section
variable {σ : Type} [ScopeAlg σ] [LawfulScope σ]

theorem Obs.ext' {a b : Obs} (h1 : a.lookup = b.lookup) (h2 : a.lookupRef = b.lookupRef)
    (h3 : a.mode = b.mode) (h4 : a.arg = b.arg) : a = b := by
  cases a; cases b; simp_all

/-! ### `obsOf` commutes with every scope operation (this is what the laws say) -/

@[simp] theorem obsOf_child (s : σ) : obsOf (child s) = child (obsOf s) := by
  apply Obs.ext'
  · funext k; exact LawfulScope.lookup_child s k
  · funext k; exact LawfulScope.lookupRef_child s k
  · exact LawfulScope.mode_child s
  · exact LawfulScope.argMode_child s

@[simp] theorem obsOf_bind (s : σ) (k : String) (v : V) : obsOf (bind s k v) = bind (obsOf s) k v := by
  apply Obs.ext'
  · funext k'; exact LawfulScope.lookup_bind s k v k'
  · funext k'; exact LawfulScope.lookupRef_bind s k v k'
  · exact LawfulScope.mode_bind s k v
  · exact LawfulScope.argMode_bind s k v

@[simp] theorem obsOf_bindRef (s : σ) (k : String) (r : Spec) : obsOf (bindRef s k r) = bindRef (obsOf s) k r := by
  apply Obs.ext'
  · funext k'; exact LawfulScope.lookup_bindRef s k r k'
  · funext k'; exact LawfulScope.lookupRef_bindRef s k r k'
  · exact LawfulScope.mode_bindRef s k r
  · exact LawfulScope.argMode_bindRef s k r

@[simp] theorem obsOf_setMode (s : σ) (m : Mode) : obsOf (setMode s m) = setMode (obsOf s) m := by
  apply Obs.ext'
  · funext k; exact LawfulScope.lookup_setMode s m k
  · funext k; exact LawfulScope.lookupRef_setMode s m k
  · exact LawfulScope.mode_setMode s m
  · exact LawfulScope.argMode_setMode s m

@[simp] theorem obsOf_setArgMode (s : σ) (b : Bool) : obsOf (setArgMode s b) = setArgMode (obsOf s) b := by
  apply Obs.ext'
  · funext k; exact LawfulScope.lookup_setArgMode s b k
  · funext k; exact LawfulScope.lookupRef_setArgMode s b k
  · exact LawfulScope.mode_setArgMode s b
  · exact LawfulScope.argMode_setArgMode s b

@[simp] theorem obsOf_chain (o c : σ) : obsOf (chain o c) = chain (obsOf o) (obsOf c) := by
  apply Obs.ext'
  · funext k; exact LawfulScope.lookup_chain o c k
  · funext k; exact LawfulScope.lookupRef_chain o c k
  · exact LawfulScope.mode_chain o c
  · exact LawfulScope.argMode_chain o c

@[simp] theorem obsOf_lookup (s : σ) (k : String) : lookup (obsOf s) k = lookup s k := rfl
@[simp] theorem obsOf_lookupRef (s : σ) (k : String) : lookupRef (obsOf s) k = lookupRef s k := rfl
@[simp] theorem obsOf_mode (s : σ) : mode (obsOf s) = mode s := rfl
@[simp] theorem obsOf_argMode (s : σ) : argMode (obsOf s) = argMode s := rfl

theorem obsOf_nextScope (cur : σ) (last : Option σ) :
    nextScope (obsOf cur) (last.map obsOf) = obsOf (nextScope cur last) := by
  cases last <;> simp [nextScope]

theorem obsOf_foldl_bind (kvs : List (String × V)) (s : σ) :
    obsOf (kvs.foldl (fun c kv => bind c kv.1 kv.2) s) = kvs.foldl (fun c kv => bind c kv.1 kv.2) (obsOf s) := by
  induction kvs generalizing s with
  | nil => rfl
  | cons kv r ih => simp only [List.foldl_cons]; rw [ih, obsOf_bind]

/-- the two evaluators correspond: on abstracted scopes the lexical one computes the abstraction
    of what the concrete one computes -/
abbrev Sim (recO : Rec Obs) (rec : Rec σ) : Prop :=
  ∀ s t (c : σ), recO s t (obsOf c) = mapSc obsOf (rec s t c)

/-! ### loops -/

theorem tupleLoop_sim {recO : Rec Obs} {rec : Rec σ} (h : Sim recO rec) :
    ∀ (steps : List Spec) (res : V) (cur : σ) (last : Option σ),
      tupleLoop recO steps res (obsOf cur) (last.map obsOf) = tupleLoop rec steps res cur last := by
  intro steps
  induction steps with
  | nil => intro res cur last; rfl
  | cons s rest ih =>
    intro res cur last
    simp only [tupleLoop, obsOf_nextScope, h, mapSc_bind]
    congr 1; funext r
    have e1 := ih res (nextScope cur last) (some r.2)
    have e2 := fun v => ih v (nextScope cur last) (some r.2)
    simp only [Option.map_some] at e1 e2
    split <;> simp_all

theorem listLoop_sim {recO : Rec Obs} {rec : Rec σ} (h : Sim recO rec) (sub : Spec) (sc : σ) :
    ∀ (items acc : List V), listLoop recO sub (obsOf sc) items acc = listLoop rec sub sc items acc := by
  intro items
  induction items with
  | nil => intro acc; rfl
  | cons it rest ih =>
    intro acc
    simp only [listLoop, h, mapSc_bind]
    congr 1; funext r
    split <;> simp_all

theorem mapLoop_sim {recO : Rec Obs} {rec : Rec σ} (h : Sim recO rec) (t : V) (sc : σ) :
    ∀ (xs : List Spec) (acc : List V), mapLoop recO t (obsOf sc) xs acc = mapLoop rec t sc xs acc := by
  intro xs
  induction xs with
  | nil => intro acc; rfl
  | cons x rest ih => intro acc; simp only [mapLoop, h, mapSc_bind, ih]

theorem kwLoop_sim {recO : Rec Obs} {rec : Rec σ} (h : Sim recO rec) (t : V) (sc : σ) :
    ∀ (bs : List (String × Spec)) (acc : List (String × V)),
      kwLoop recO t (obsOf sc) bs acc = kwLoop rec t sc bs acc := by
  intro bs
  induction bs with
  | nil => intro acc; rfl
  | cons b rest ih => obtain ⟨k, s⟩ := b; intro acc; simp only [kwLoop, h, mapSc_bind, ih]

theorem pairLoop_sim (p : Prims) {recO : Rec Obs} {rec : Rec σ} (h : Sim recO rec) (t : V) (sc : σ) :
    ∀ (es : List (Spec × Spec)) (acc : List (V × V)),
      pairLoop p recO t (obsOf sc) es acc = pairLoop p rec t sc es acc := by
  intro es
  induction es with
  | nil => intro acc; rfl
  | cons e rest ih => obtain ⟨ks, vs⟩ := e; intro acc; simp only [pairLoop, h, mapSc_bind, ih]

theorem dictLoop_sim (p : Prims) {recO : Rec Obs} {rec : Rec σ} (h : Sim recO rec) (t : V) (sc : σ) :
    ∀ (es : List (Spec × Spec)) (acc : List (V × V)),
      dictLoop p recO t (obsOf sc) es acc = dictLoop p rec t sc es acc := by
  intro es
  induction es with
  | nil => intro acc; rfl
  | cons e rest ih => obtain ⟨f, s⟩ := e; intro acc; simp only [dictLoop, h, mapSc_bind, ih]

theorem coalesceLoop_sim (p : Prims) {recO : Rec Obs} {rec : Rec σ} (h : Sim recO rec) (t : V) (sc : σ)
    (sk : Skip) (se : List String) :
    ∀ (subs : List Spec), coalesceLoop p recO t (obsOf sc) sk se subs = coalesceLoop p rec t sc sk se subs := by
  intro subs
  induction subs with
  | nil => rfl
  | cons s rest ih =>
    simp only [coalesceLoop, h, attempt_mapSc_bind, ih]
    congr 1; funext r
    cases r <;> rfl

theorem andLoop_sim {recO : Rec Obs} {rec : Rec σ} (h : Sim recO rec) (t : V) (sc : σ) :
    ∀ (cs : List Spec) (res : V), andLoop recO t (obsOf sc) cs res = andLoop rec t sc cs res := by
  intro cs
  induction cs with
  | nil => intro res; rfl
  | cons c rest ih => intro res; simp only [andLoop, h, mapSc_bind, ih]

theorem orLoop_sim (p : Prims) {recO : Rec Obs} {rec : Rec σ} (h : Sim recO rec) (t : V) (sc : σ) :
    ∀ (cs : List Spec), orLoop p recO t (obsOf sc) cs = orLoop p rec t sc cs := by
  intro cs
  induction cs with
  | nil => rfl
  | cons c rest ih =>
    cases rest with
    | nil => simp only [orLoop, h, mapSc_bind]
    | cons c2 r2 =>
      simp only [orLoop, h, attempt_mapSc_bind, ih]
      congr 1; funext r
      cases r <;> rfl

theorem switchLoop_sim (p : Prims) {recO : Rec Obs} {rec : Rec σ} (h : Sim recO rec) (t : V) (sc : σ) :
    ∀ (cases : List (Spec × Spec)), switchLoop p recO t (obsOf sc) cases = switchLoop p rec t sc cases := by
  intro cases
  induction cases with
  | nil => rfl
  | cons e rest ih =>
    obtain ⟨ks, vs⟩ := e
    simp only [switchLoop, h, attempt_mapSc_bind, ih]
    congr 1; funext r
    cases r with
    | error e => rfl
    | ok k => simp only [← obsOf_chain, h, mapSc_bind]

theorem altLoop_sim (p : Prims) {recO : Rec Obs} {rec : Rec σ} (h : Sim recO rec) (sc : σ) (item : V) :
    ∀ (alts : List Spec) (last : Option Err),
      altLoop p recO (obsOf sc) item alts last = altLoop p rec sc item alts last := by
  intro alts
  induction alts with
  | nil => intro last; rfl
  | cons c rest ih =>
    intro last
    simp only [altLoop, h, attempt_mapSc_bind, ih]
    congr 1; funext r
    cases r <;> rfl

theorem matchItemsLoop_sim (p : Prims) {recO : Rec Obs} {rec : Rec σ} (h : Sim recO rec) (sc : σ)
    (alts : List Spec) :
    ∀ (items acc : List V),
      matchItemsLoop p recO (obsOf sc) alts items acc = matchItemsLoop p rec sc alts items acc := by
  intro items
  induction items with
  | nil => intro acc; rfl
  | cons it rest ih => intro acc; simp only [matchItemsLoop, altLoop_sim p h, ih]

theorem zipLoop_sim {recO : Rec Obs} {rec : Rec σ} (h : Sim recO rec) (sc : σ) :
    ∀ (ts : List V) (ss : List Spec) (acc : List V),
      zipLoop recO (obsOf sc) ts ss acc = zipLoop rec sc ts ss acc := by
  intro ts
  induction ts with
  | nil => intro ss acc; cases ss <;> rfl
  | cons t rest ih =>
    intro ss acc
    cases ss with
    | nil => rfl
    | cons s srest => simp only [zipLoop, h, mapSc_bind, ih]

theorem matchKeyLoop_sim (p : Prims) {recO : Rec Obs} {rec : Rec σ} (h : Sim recO rec) (sc : σ) (key val : V) :
    ∀ (spec : List (Spec × Spec)),
      matchKeyLoop p recO (obsOf sc) key val spec = matchKeyLoop p rec sc key val spec := by
  intro spec
  induction spec with
  | nil => rfl
  | cons e rest ih =>
    obtain ⟨ks, vs⟩ := e
    simp only [matchKeyLoop, h, attempt_mapSc_bind, ih]
    congr 1; funext r
    cases r with
    | error e => rfl
    | ok k => simp only [← obsOf_chain, h, mapSc_bind]

theorem matchDictLoop_sim (p : Prims) {recO : Rec Obs} {rec : Rec σ} (h : Sim recO rec) (sc : σ)
    (spec : List (Spec × Spec)) :
    ∀ (tes : List (V × V)) (acc : List (V × V)) (used : List Spec),
      matchDictLoop p recO (obsOf sc) spec tes acc used = matchDictLoop p rec sc spec tes acc used := by
  intro tes
  induction tes with
  | nil => intro acc used; rfl
  | cons e rest ih =>
    obtain ⟨k, v⟩ := e
    intro acc used
    simp only [matchDictLoop, matchKeyLoop_sim p h, ih]

theorem groupLoop_sim {recO : Rec Obs} {rec : Rec σ} (h : Sim recO rec) (sub : Spec) (sc : σ) :
    ∀ (items : List V) (ret : V), groupLoop recO sub (obsOf sc) items ret = groupLoop rec sub sc items ret := by
  intro items
  induction items with
  | nil => intro ret; rfl
  | cons it rest ih =>
    intro ret
    simp only [groupLoop, h, mapSc_bind]
    congr 1; funext r
    split <;> simp_all

theorem argVal_sim {recO : Rec Obs} {rec : Rec σ} (h : Sim recO rec) (t : V) (arg : Spec) (sc : σ) :
    argVal recO t arg (obsOf sc) = argVal rec t arg sc := by
  simp only [argVal, ← obsOf_setArgMode, h, mapSc_bind]

theorem invokeLoop_sim {recO : Rec Obs} {rec : Rec σ} (h : Sim recO rec) (t : V) (sc : σ) :
    ∀ (blocks : List (String × List Spec × List (String × Spec))) (as : List V) (kws : List (String × V)),
      invokeLoop recO t (obsOf sc) blocks as kws = invokeLoop rec t sc blocks as kws := by
  intro blocks
  induction blocks with
  | nil => intro as kws; rfl
  | cons b rest ih =>
    obtain ⟨op, pos, kw⟩ := b
    intro as kws
    simp only [invokeLoop, mapLoop_sim h, kwLoop_sim h, ih]

theorem withDefault_sim (p : Prims) {recO : Rec Obs} {rec : Rec σ} (h : Sim recO rec) (t : V)
    (dflt : Option Spec) (sc : σ) (m : M V) :
    withDefault p recO t dflt (obsOf sc) m = withDefault p rec t dflt sc m := by
  simp only [withDefault, argVal_sim h]

end
end Glom.Interp
