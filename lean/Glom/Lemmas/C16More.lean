import Glom.Lemmas.C16
/-
  C16 — consequences of `groupEval_exact`: runs on which the cut at the first STOP event
  makes no difference (no event; a top-level Limit / First), the earlier hypotheses H1' / H2
  imply the present ones, per-bucket independence, Sample, histories.
-/
set_option linter.unusedSimpArgs false
set_option linter.unusedVariables false
set_option linter.unnecessarySimpa false

namespace Glom.C16

/-! ### when the code's result is the hand-written loop's -/

theorem buckets_subset (key : Fn) (its : List V) : ∀ b ∈ buckets key its, ∀ i ∈ b.2, i ∈ its := by
  intro b hb
  exact (buckets_inv key (Q := fun _ => True) its (fun _ _ _ => trivial) b hb).2.2

theorem bucketOf_subset (key : Fn) (its : List V) (k : V) : ∀ i ∈ bucketOf (buckets key its) k, i ∈ its := by
  rcases bucketOf_mem_or_nil (buckets key its) k with h0 | ⟨b, hb, h0⟩
  · rw [h0]; intro i hi; simp at hi
  · rw [← h0]; exact buckets_subset key its b hb

theorem isSkip_unskip (v : V) : isSkip (unskip v) = false := by cases v <;> rfl

theorem unskip_of_not_skip {v : V} (h : isSkip v = false) : unskip v = v := by
  cases v <;> simp [isSkip] at h ⊢ <;> rfl

theorem lastNonSkip_of_none_skip {vs : List V} (h : ∀ v ∈ vs, isSkip v = false) :
    lastNonSkip vs = vs.getLast?.getD .skip := by
  unfold lastNonSkip
  rw [List.filter_eq_self.mpr (fun v hv => by simp [h v hv])]

/-- a spec that cannot yield SKIP at its top says the same below a key level and at the top -/
theorem noSkipBelow_strengthen : ∀ (s : GSpec) (its : List V), canSkip s = false →
    noSkipBelow false s its = true → noSkipBelow true s its = true
  | .agg .., _, _, _ => rfl
  | .list .., _, _, _ => rfl
  | .fn _, _, hc, _ => by simp [canSkip] at hc
  | .dict _ _ _ sub, its, _, h => h
  | .foldG .., its, _, h => h
  | .limit _ _ sub, its, hc, h => noSkipBelow_strengthen sub its (by simpa [canSkip] using hc) h
  | .nested _ g, its, hc, h => by
    have hc' : canSkip g = false := by simpa [canSkip] using hc
    simp only [noSkipBelow, Bool.and_eq_true] at h ⊢
    exact ⟨by simp [hc'], h.2⟩

theorem nestedFree_subset : ∀ (s : GSpec) {xs ys : List V}, (∀ i ∈ ys, i ∈ xs) →
    nestedFree s xs = true → nestedFree s ys = true
  | .agg .., _, _, _, _ => rfl
  | .fn _, _, _, _, _ => rfl
  | .list .., _, _, _, _ => rfl
  | .limit _ _ sub, _, _, h, hx => nestedFree_subset sub h hx
  | .nested .., _, _, h, hx => all_subset h hx
  | .foldG .., _, _, h, hx => all_subset h hx
  | .dict _ _ _ sub, _, _, h, hx => nestedFree_subset sub h hx

/-- the hypotheses of a key level, for one of its buckets -/
theorem Hyp.bucket {b : Bool} {id kid : Nat} {key : Fn} {sub : GSpec} {its : List V}
    (h : Hyp b (.dict id kid key sub) its) {bk : V × List V} (hb : bk ∈ buckets key its) : Hyp true sub bk.2 := by
  have hwf := h.wf
  have hsa := h.sa
  have hns := h.ns
  simp only [wfRun, Bool.and_eq_true, List.all_eq_true] at hwf
  simp only [slotApart, Bool.and_eq_true] at hsa
  simp only [noSkipBelow] at hns
  have hm := buckets_subset key its bk hb
  exact ⟨hwf.2 bk hb, slotApart_subset sub hm hsa.2, noSkipBelow_subset true sub hm hns⟩

/-- … and for the bucket the next item `x` goes to, `x` included -/
theorem Hyp.bucket_snoc {b : Bool} {id kid : Nat} {key : Fn} {sub : GSpec} {its : List V} {x : V}
    (h : Hyp b (.dict id kid key sub) (its ++ [x])) (hsk : isSkip (key.val x) = false) :
    Hyp true sub (bucketOf (buckets key its) (key.val x) ++ [x]) := by
  have hwf := h.wf
  have hsa := h.sa
  have hns := h.ns
  simp only [wfRun, Bool.and_eq_true, List.all_eq_true] at hwf
  simp only [slotApart, Bool.and_eq_true] at hsa
  simp only [noSkipBelow] at hns
  have hbm := bucketOf_subset key its (key.val x)
  have hw : wfRun sub (bucketOf (buckets key its) (key.val x) ++ [x]) = true := by
    have h2 := hwf.2
    rw [buckets_snoc, bucketStep_eq] at h2
    simp only [hsk, Bool.false_eq_true, if_false] at h2
    obtain ⟨bn, hbn, hbn2⟩ := addTo_has_new (buckets key its) (key.val x) x
    rw [← hbn2]; exact h2 bn hbn
  exact ⟨hw, slotApart_subset sub (snoc_subset hbm) hsa.2, noSkipBelow_subset true sub (snoc_subset hbm) hns⟩

/-- **no STOP event, no SKIP from a bare function / nested Group, no nested Group over nothing**:
    what the code computes over a non-empty list of items is the hand-written loop's value -/
theorem implOf_eq_refOf : ∀ (s : GSpec) (its : List V), its ≠ [] → Hyp true s its →
    eventFree s its = true → nestedFree s its = true → implOf s its = refOf s its
  | .agg .., _, _, _, _, _ => rfl
  | .list .., _, _, _, _, _ => rfl
  | .fn f, its, hne, h, hef, _ => by
    have hst := eventFree_leaf_fn f its hef
    have hcut : cutStop f its = its := cutStop_all hst
    obtain ⟨x, hx, hxm⟩ := getLast?_ne_nil hne
    have hns := h.ns
    simp only [noSkipBelow, Bool.not_true, Bool.false_or, List.all_eq_true, Bool.not_eq_true'] at hns
    have hie : its.isEmpty = false := by simpa using hne
    simp only [implOf, refOfC, hcut, hx, hie, Bool.false_eq_true, if_false]
    rw [lastNonSkip_of_none_skip (by
      intro v hv; simp only [List.mem_map] at hv; obtain ⟨y, hy, rfl⟩ := hv; exact hns y hy)]
    simp [List.getLast?_map, hx]
  | .limit oid n sub, its, hne, h, hef, hnf => by
    obtain ⟨hlen, hsub⟩ := eventFree_limit oid n sub its hef
    rw [implOf_limit oid n sub its hne hlen]
    simp only [refOfC, List.take_of_length_le hlen]
    exact implOf_eq_refOf sub its hne h.sub_limit hsub hnf
  | .dict id kid key sub, its, hne, h, hef, hnf => by
    rw [implOf_dict id kid key sub its hef]
    have hcut : cutStop key its = its := cutStop_all (eventFree_dict_keys id kid key sub its hef)
    have hbz : bucketize key its = buckets key its := by simp [bucketize, buckets, hcut]
    have heq : ∀ bk ∈ buckets key its, implOf sub bk.2 = refOf sub bk.2 ∧ isSkip (refOf sub bk.2) = false := by
      intro bk hbk
      have hb := (buckets_inv key (Q := fun _ => True) its (fun _ _ _ => trivial) bk hbk).2
      have hH := h.bucket hbk
      have hefb := eventFree_buckets id kid key sub its hef bk hbk
      have hnfb := nestedFree_subset sub hb.2 (by simpa only [nestedFree] using hnf)
      have e := implOf_eq_refOf sub bk.2 hb.1 hH hefb hnfb
      exact ⟨e, by rw [← e]; exact (valOf_not_sentinel sub true bk.2 hb.1 hH hefb).2 rfl⟩
    simp only [refOfC, hbz]
    congr 1
    rw [List.filter_eq_self.mpr (by
      intro e he; simp only [List.mem_map] at he; obtain ⟨bk, hbk, rfl⟩ := he
      simp [(heq bk hbk).2])]
    exact List.map_congr_left (fun bk hbk => by rw [(heq bk hbk).1])
  | .nested gid g, its, hne, h, _, hnf => by
    obtain ⟨x, hx, hxm⟩ := getLast?_ne_nil hne
    have hie : its.isEmpty = false := by simpa using hne
    have hns := h.ns
    simp only [noSkipBelow, hie, Bool.false_or, Bool.true_and, Bool.and_eq_true, Bool.not_eq_true',
      List.all_eq_true] at hns
    simp only [nestedFree, List.all_eq_true, Bool.and_eq_true, Bool.not_eq_true'] at hnf
    -- every item's own run: event-free, not over nothing
    have hitem : ∀ y ∈ its, implOf g ((iterOf y).getD []) = refOf g ((iterOf y).getD []) ∧
        isSkip (implOf g ((iterOf y).getD [])) = false := by
      intro y hy
      obtain ⟨⟨hef, hnem⟩, hnf'⟩ := hnf y hy
      have hin := (h.inner hy).2
      have hne' : (iterOf y).getD [] ≠ [] := by simpa using hnem
      have hin' : Hyp true g ((iterOf y).getD []) :=
        ⟨hin.wf, hin.sa, noSkipBelow_strengthen g _ hns.1 (hns.2 y hy)⟩
      exact ⟨implOf_eq_refOf g _ hne' hin' hef hnf', noSkip_of_not_canSkip g _ hns.1 hne' hin hef⟩
    obtain ⟨⟨hefx, hnemx⟩, _⟩ := hnf x hxm
    have hnex : ((iterOf x).getD []).isEmpty = false := hnemx
    simp only [implOf, refOfC, hx, hie, Bool.false_eq_true, if_false, cutEvent_of_eventFree hefx, emptyOr, hnex]
    rw [lastNonSkip_of_none_skip (by
      intro v hv; simp only [List.mem_map] at hv; obtain ⟨y, _, rfl⟩ := hv; exact isSkip_unskip _)]
    simp only [List.getLast?_map, hx, Option.map_some, Option.getD_some]
    have e := (hitem x hxm).1
    simp only [refOf] at e
    rw [← e, unskip_of_not_skip (hitem x hxm).2]

  | .foldG oid kind gid g, its, hne, h, _, hnf => by
    have hie : its.isEmpty = false := by simpa using hne
    have hwf := h.wf
    have hsa := h.sa
    have hns := h.ns
    simp only [wfRun, Bool.and_eq_true, List.all_eq_true] at hwf
    simp only [slotApart, List.all_eq_true] at hsa
    simp only [noSkipBelow, hie, Bool.false_or, Bool.and_eq_true, Bool.not_eq_true', List.all_eq_true] at hns
    simp only [nestedFree, List.all_eq_true, Bool.and_eq_true, Bool.not_eq_true'] at hnf
    -- every item's own run is a fresh grouping: event-free, not over nothing, its value not SKIP
    have hitem : ∀ y ∈ its, emptyOr g (implOf g) (cutEvent g ((iterOf y).getD [])) =
        unskip (refOfC false g ((iterOf y).getD [])) := by
      intro y hy
      obtain ⟨⟨hef, hnem⟩, hnf'⟩ := hnf y hy
      have hin : Hyp false g ((iterOf y).getD []) := ⟨(hwf.1 y hy).2, hsa y hy, hns.2 y hy⟩
      have hne' : (iterOf y).getD [] ≠ [] := by simpa using hnem
      have hin' : Hyp true g ((iterOf y).getD []) :=
        ⟨hin.wf, hin.sa, noSkipBelow_strengthen g _ hns.1 (hns.2 y hy)⟩
      have e := implOf_eq_refOf g _ hne' hin' hef hnf'
      have hsk := noSkip_of_not_canSkip g _ hns.1 hne' hin hef
      have hnex : ((iterOf y).getD []).isEmpty = false := hnem
      simp only [cutEvent_of_eventFree hef, emptyOr, hnex, Bool.false_eq_true, if_false]
      simp only [refOf] at e
      rw [← e, unskip_of_not_skip hsk]
    simp only [implOf, refOfC, Bool.false_eq_true, if_false]
    congr 1
    exact List.map_congr_left hitem

/-- the reference of a key level over an event-free, SKIP-free run: the plain bucket map -/
theorem refOf_dict (id kid : Nat) (key : Fn) (sub : GSpec) (its : List V)
    (h : Hyp true (.dict id kid key sub) its) (hef : eventFree (.dict id kid key sub) its = true)
    (hnf : nestedFree (.dict id kid key sub) its = true) :
    refOf (.dict id kid key sub) its = .dict ((buckets key its).map (fun b => (b.1, refOf sub b.2))) := by
  have hcut : cutStop key its = its := cutStop_all (eventFree_dict_keys id kid key sub its hef)
  have hbz : bucketize key its = buckets key its := by simp [bucketize, buckets, hcut]
  have hsk : ∀ bk ∈ buckets key its, isSkip (refOf sub bk.2) = false := by
    intro bk hbk
    have hb := (buckets_inv key (Q := fun _ => True) its (fun _ _ _ => trivial) bk hbk).2
    have hH := h.bucket hbk
    have hefb := eventFree_buckets id kid key sub its hef bk hbk
    have hnfb := nestedFree_subset sub hb.2 (by simpa only [nestedFree] using hnf)
    rw [← implOf_eq_refOf sub bk.2 hb.1 hH hefb hnfb]
    exact (valOf_not_sentinel sub true bk.2 hb.1 hH hefb).2 rfl
  simp only [refOf, refOfC, hbz]
  congr 1
  exact List.filter_eq_self.mpr (by
    intro e he; simp only [List.mem_map] at he; obtain ⟨bk, hbk, rfl⟩ := he
    have := hsk bk hbk
    simp only [refOf] at this
    simp [this])

/-- **no STOP event (nested runs included), no SKIP leaf, nothing evaluated over no items (unless an
    empty container / None is what the loop gives there)**: what the code computes is the hand-written
    loop -/
theorem implTop_eq_valOfTop (g : GSpec) (items : List V) (h : Hyp true g items) (hef : eventFree g items = true)
    (hnf : nestedFree g items = true) (hem : items = [] → emptyOf g = valOfTop g []) :
    implTop g items = valOfTop g items := by
  by_cases hne : items = []
  · subst hne; simpa [implTop, emptyOr, cutEvent, cutFrom] using hem rfl
  · have hie : items.isEmpty = false := by simpa using hne
    simp only [implTop, valOfTop, cutEvent_of_eventFree hef, emptyOr, hie, Bool.false_eq_true, if_false]
    rw [← implOf_eq_refOf g items hne h hef hnf]
    exact (unskip_of_not_skip ((valOf_not_sentinel g true items hne h hef).2 rfl)).symm

theorem groupEval_spec (g : GSpec) (items : List V) (h : Hyp true g items) (hef : eventFree g items = true)
    (hnf : nestedFree g items = true) (hem : items = [] → emptyOf g = valOfTop g []) :
    groupEval g items = .ok (valOfTop g items) := by
  rw [groupEval_exact g items ⟨h.wf, h.sa, noSkipBelow_weaken g items h.ns⟩,
    implTop_eq_valOfTop g items h hef hnf hem]

/-! ### top-level Limit(n) and First -/

theorem cutFrom_limit (oid n : Nat) (sub : GSpec) : ∀ (xs done : List V), done.length ≤ n →
    eventFreeFrom sub done xs = true → cutFrom (.limit oid n sub) done xs = (done ++ xs).take n := by
  intro xs
  induction xs with
  | nil => intro done hlen _; simp [cutFrom, List.take_of_length_le hlen]
  | cons x xs ih =>
    intro done hlen h
    simp only [eventFreeFrom, Bool.and_eq_true, Bool.not_eq_true'] at h
    simp only [cutFrom, stopsAt, h.1, Bool.or_false]
    by_cases hge : n ≤ done.length
    · have heq : done.length = n := by omega
      simp only [hge, decide_true, if_true]
      rw [← heq]; exact (List.take_left' rfl).symm
    · simp only [hge, decide_false, Bool.false_eq_true, if_false]
      rw [ih (done ++ [x]) (by simp; omega) h.2]
      simp

/-- a top-level `Limit(n, sub)` ends the evaluation after `n` items -/
theorem cutEvent_limit (oid n : Nat) (sub : GSpec) (items : List V) (h : eventFree sub items = true) :
    cutEvent (.limit oid n sub) items = items.take n := by
  simpa [cutEvent] using cutFrom_limit oid n sub items [] (Nat.zero_le _) h

/-- `Group(Limit(n, sub))`, n ≥ 1, over at least one item: `sub` over the first `n` items -/
theorem limit_spec (oid n : Nat) (sub : GSpec) (items : List V) (hn : n ≠ 0) (hne : items ≠ [])
    (h : Hyp true sub items) (hef : eventFree sub items = true) (hnf : nestedFree sub items = true) :
    groupEval (.limit oid n sub) items = .ok (valOfTop sub (items.take n)) := by
  rw [groupEval_exact (.limit oid n sub) items ⟨h.wf, h.sa, noSkipBelow_weaken sub items h.ns⟩]
  congr 1
  have hpre : items = items.take n ++ items.drop n := (List.take_append_drop n items).symm
  have hH : Hyp true sub (items.take n) := by rw [hpre] at h; exact h.init
  have hef' : eventFree sub (items.take n) = true := by
    have := cutEvent_eventFree (.limit oid n sub) items
    rw [cutEvent_limit oid n sub items hef] at this
    exact (eventFree_limit oid n sub _ this).2
  have hnf' : nestedFree sub (items.take n) = true :=
    nestedFree_subset sub (fun i hi => List.mem_of_mem_take hi) hnf
  have hne' : items.take n ≠ [] := by
    cases items with
    | nil => exact absurd rfl hne
    | cons y ys => cases n with
      | zero => exact absurd rfl hn
      | succ m => simp
  have hie : (items.take n).isEmpty = false := by simpa using hne'
  have hn0 : (n == 0) = false := by simpa using hn
  have htt : (items.take n).take n = items.take n := by simp [List.take_take]
  simp only [implTop, emptyOr, cutEvent_limit oid n sub items hef, hie, Bool.false_eq_true, if_false, implOf, hn0, htt]
  rw [implOf_eq_refOf sub _ hne' hH hef' hnf', valOfTop]
  rw [← implOf_eq_refOf sub _ hne' hH hef' hnf']
  exact (unskip_of_not_skip ((valOf_not_sentinel sub true _ hne' hH hef').2 rfl)).symm

theorem first_spec (oid : Nat) (items : List V) (hp : ∀ x ∈ items, isStop x = false ∧ isSkip x = false) :
    groupEval (.agg oid .first) items = .ok (items.head?.getD .none) := by
  have hwf : wfRun (.agg oid .first) items = true := by
    simp only [wfRun, aggOk, List.all_eq_true, Bool.and_eq_true, Bool.not_eq_true']
    exact hp
  rw [groupEval_exact (.agg oid .first) items ⟨hwf, rfl, rfl⟩]
  cases items with
  | nil => rfl
  | cons x xs =>
    cases xs with
    | nil => rfl
    | cons y ys => rfl

/-! ### per-bucket independence -/

theorem bhas_eq_bucketOf {bs : List (V × List V)} (hne : ∀ b ∈ bs, b.2 ≠ []) (k : V) :
    bhas bs k = !(bucketOf bs k).isEmpty := by
  induction bs with
  | nil => rfl
  | cons b0 bs ih =>
    obtain ⟨k', its⟩ := b0
    by_cases h : keyEq k' k = true
    · have : its ≠ [] := hne (k', its) List.mem_cons_self
      cases its with
      | nil => exact absurd rfl this
      | cons y ys => simp [bhas, bucketOf, h]
    · have h' : keyEq k' k = false := by simpa using h
      simp [bhas, bucketOf, h', ih (fun b hb => hne b (List.mem_cons_of_mem _ hb))]

/-- the entry of bucket `k` in the reference dictionary of a key level: the reference of the
    value spec over the items routed to `k` — nothing else enters -/
theorem dget_buckets (key : Fn) (g : List V → V) (its : List V) (k : V) :
    dget ((buckets key its).map (fun b => (b.1, g b.2))) k =
      if (routed key k its).isEmpty then none else some (g (routed key k its)) := by
  have hne : ∀ b ∈ buckets key its, b.2 ≠ [] := fun b hb =>
    (buckets_inv key (Q := fun _ => True) its (fun _ _ _ => trivial) b hb).2.1
  rw [dget_map, bhas_eq_bucketOf hne, bucketOf_buckets]
  cases (routed key k its).isEmpty <;> rfl

/-! ### Sample: the reservoir -/

theorem refSample_length (size : Nat) (tbl : List Nat) (its : List V) :
    (refSample size tbl its).2.length = min size its.length := by
  induction its using snoc_induction with
  | h0 => simp [refSample]
  | hs its x ih =>
    rw [refSample_snoc]
    unfold sampleStep
    by_cases hlt : (refSample size tbl its).2.length < size
    · simp only [hlt, if_true, List.length_append, List.length_cons, List.length_nil]
      omega
    · simp only [hlt, if_false]
      split <;> simp only [List.length_set, List.length_append, List.length_cons, List.length_nil] <;> omega

theorem refSample_mem (size : Nat) (tbl : List Nat) (its : List V) :
    ∀ v ∈ (refSample size tbl its).2, v ∈ its := by
  induction its using snoc_induction with
  | h0 => simp [refSample]
  | hs its x ih =>
    rw [refSample_snoc]
    unfold sampleStep
    intro v hv
    by_cases hlt : (refSample size tbl its).2.length < size
    · simp only [hlt, if_true] at hv
      rcases List.mem_append.mp hv with h | h
      · exact List.mem_append_left _ (ih v h)
      · exact List.mem_append_right _ h
    · simp only [hlt, if_false] at hv
      split at hv
      · rcases List.mem_or_eq_of_mem_set hv with h | h
        · exact List.mem_append_left _ (ih v h)
        · subst h; simp
      · exact List.mem_append_left _ (ih v hv)

theorem refSample_small (size : Nat) (tbl : List Nat) (its : List V) (h : its.length ≤ size) :
    (refSample size tbl its).2 = its := by
  induction its using snoc_induction with
  | h0 => rfl
  | hs its x ih =>
    have hl : its.length < size := by simp at h; omega
    have ih' := ih (by omega)
    rw [refSample_snoc]
    unfold sampleStep
    simp [ih', hl]

theorem sample_eventFree (oid size : Nat) (tbl : List Nat) (its : List V) :
    eventFree (.agg oid (.sample size tbl)) its = true := by
  induction its using snoc_induction with
  | h0 => rfl
  | hs its x ih => rw [eventFree_snoc, ih]; rfl

/-! ### histories -/

theorem evalHistory_append (specs : List GSpec) (targets : List (List V)) (a b : List (Nat × Nat)) :
    evalHistory specs targets (a ++ b) = evalHistory specs targets a ++ evalHistory specs targets b := by
  simp [evalHistory]

end Glom.C16
