import Glom.Lemmas.C16
/-
  C16 — consequences of `groupEval_exact`: runs on which the cut at the first STOP event
  makes no difference (no event; a top-level Limit / First), the earlier hypotheses H1' / H2
  imply the present ones, per-bucket independence, Sample, histories.
-/
set_option linter.unusedSimpArgs false
set_option linter.unusedVariables false
set_option linter.unnecessarySimpa false

namespace Glom.C16

/-! ### without STOP events in nested runs, `valOfC true` is the property's reference -/

theorem cutStop_subset (f : Fn) (its : List V) : ∀ i ∈ cutStop f its, i ∈ its := by
  intro i hi
  exact (List.takeWhile_sublist _).subset hi

theorem bucketize_subset (key : Fn) (its : List V) : ∀ b ∈ bucketize key its, ∀ i ∈ b.2, i ∈ its := by
  intro b hb i hi
  have := foldl_buckets_inv key (Q := fun _ => True) its (cutStop key its) [] (cutStop_subset key its)
    (fun _ _ _ => trivial) (by simp) b hb
  exact this.2.2 i hi

theorem map_congr_mem {α β : Type} {f g : α → β} : ∀ {xs : List α}, (∀ x ∈ xs, f x = g x) → xs.map f = xs.map g := by
  intro xs
  induction xs with
  | nil => intro _; rfl
  | cons x xs ih =>
    intro h
    simp only [List.map_cons]
    rw [h x List.mem_cons_self, ih (fun y hy => h y (List.mem_cons_of_mem _ hy))]

theorem nestedFree_subset : ∀ (s : GSpec) {xs ys : List V}, (∀ i ∈ ys, i ∈ xs) →
    nestedFree s xs = true → nestedFree s ys = true
  | .agg .., _, _, _, _ => rfl
  | .fn _, _, _, _, _ => rfl
  | .list .., _, _, _, _ => rfl
  | .limit _ _ sub, _, _, h, hx => nestedFree_subset sub h hx
  | .nested _, _, _, h, hx => all_subset h hx
  | .dict _ _ _ sub, _, _, h, hx => nestedFree_subset sub h hx

theorem valOfC_eq : ∀ (s : GSpec) (its : List V), nestedFree s its = true → valOfC true s its = valOfC false s its
  | .agg .., _, _ => rfl
  | .fn _, _, _ => rfl
  | .list .., _, _ => rfl
  | .limit oid n sub, its, h => by
    simp only [valOfC]
    rw [valOfC_eq sub (its.take n) (nestedFree_subset sub (fun i hi => List.mem_of_mem_take hi) h)]
  | .dict id kid key sub, its, h => by
    simp only [valOfC]
    congr 1
    apply map_congr_mem
    intro b hb
    have hbm := bucketize_subset key its b (List.mem_filter.mp hb).1
    rw [valOfC_eq sub b.2 (nestedFree_subset sub hbm h)]
  | .nested g, its, h => by
    simp only [valOfC]
    cases hl : its.getLast? with
    | none => rfl
    | some x =>
      have hxm : x ∈ its := List.mem_of_getLast? hl
      simp only [nestedFree, List.all_eq_true, Bool.and_eq_true] at h
      obtain ⟨hef, hnf⟩ := h x hxm
      simp only [if_true, cutEvent_of_eventFree hef, emptyOr, Bool.false_eq_true, if_false]
      split
      · rfl
      · exact valOfC_eq g _ hnf

/-- **no STOP event, neither in nested runs**: what the code computes is the hand-written loop -/
theorem implTop_eq_valOfTop (g : GSpec) (items : List V) (hef : eventFree g items = true)
    (hnf : nestedFree g items = true) : implTop g items = valOfTop g items := by
  simp only [implTop, valOfTop, cutEvent_of_eventFree hef, emptyOr]
  split
  · rfl
  · exact valOfC_eq g items hnf

theorem groupEval_spec (g : GSpec) (items : List V) (h : Hyp false g items) (hef : eventFree g items = true)
    (hnf : nestedFree g items = true) : groupEval g items = .ok (valOfTop g items) := by
  rw [groupEval_exact g items h, implTop_eq_valOfTop g items hef hnf]

/-! ### the earlier hypotheses (H1' `stopFree`, H2 `keysApart`) imply the present ones -/

theorem slotApart_of_keysApart : ∀ (s : GSpec) (its : List V), keysApart s its = true → slotApart s its = true
  | .agg .., _, _ => rfl
  | .fn _, _, _ => rfl
  | .list .., _, _ => rfl
  | .limit _ _ sub, its, h => slotApart_of_keysApart sub its h
  | .nested g, its, h => by
    simp only [keysApart, slotApart, List.all_eq_true] at h ⊢
    exact fun x hx => slotApart_of_keysApart g _ (h x hx)
  | .dict id kid key sub, its, h => by
    simp only [keysApart, slotApart, Bool.and_eq_true, List.all_eq_true, Bool.not_eq_true'] at h ⊢
    exact ⟨fun x hx => (h.1 x hx).1, slotApart_of_keysApart sub its h.2⟩

theorem stopFree_subset : ∀ (b : Bool) (s : GSpec) {xs ys : List V}, (∀ i ∈ ys, i ∈ xs) →
    stopFree b s xs = true → stopFree b s ys = true
  | _, .agg _ a, _, _, _, hx => by cases a <;> simpa [stopFree] using hx
  | _, .fn _, _, _, h, hx => all_subset h hx
  | _, .list _ _, _, _, h, hx => all_subset h hx
  | _, .limit .., _, _, _, hx => by simp [stopFree] at hx
  | _, .nested _, _, _, h, hx => by
    simp only [stopFree, Bool.and_eq_true] at hx ⊢
    exact ⟨hx.1, all_subset h hx.2⟩
  | _, .dict _ _ _ sub, _, _, h, hx => by
    simp only [stopFree, Bool.and_eq_true] at hx ⊢
    exact ⟨all_subset h hx.1, stopFree_subset true sub h hx.2⟩

theorem buckets_subset (key : Fn) (its : List V) : ∀ b ∈ buckets key its, ∀ i ∈ b.2, i ∈ its := by
  intro b hb
  exact (buckets_inv key (Q := fun _ => True) its (fun _ _ _ => trivial) b hb).2.2

theorem bucketOf_subset (key : Fn) (its : List V) (k : V) : ∀ i ∈ bucketOf (buckets key its) k, i ∈ its := by
  rcases bucketOf_mem_or_nil (buckets key its) k with h0 | ⟨b, hb, h0⟩
  · rw [h0]; intro i hi; simp at hi
  · rw [← h0]; exact buckets_subset key its b hb

/-- a STOP-free spec never says STOP -/
theorem stopsAt_of_stopFree : ∀ (s : GSpec) (b : Bool) (its p : List V) (x : V), stopFree b s its = true →
    (∀ i ∈ p, i ∈ its) → x ∈ its → stopsAt s p x = false
  | .agg _ a, _, _, _, _, h, _, _ => by cases a <;> simp [stopFree, stopsAt] at h ⊢
  | .fn f, _, _, _, x, h, _, hx => by
    simp only [stopFree, List.all_eq_true, Bool.and_eq_true, Bool.not_eq_true'] at h
    simpa [stopsAt] using (h x hx).1
  | .list _ f, _, _, _, x, h, _, hx => by
    simp only [stopFree, List.all_eq_true, Bool.not_eq_true'] at h
    simpa [stopsAt] using h x hx
  | .limit .., _, _, _, _, h, _, _ => by simp [stopFree] at h
  | .nested _, _, _, _, _, _, _, _ => rfl
  | .dict id kid key sub, _, its, p, x, h, hp, hx => by
    simp only [stopFree, Bool.and_eq_true, List.all_eq_true, Bool.not_eq_true'] at h
    have hsub := stopsAt_of_stopFree sub true its (bucketOf (buckets key p) (key.val x)) x h.2
      (fun i hi => hp i (bucketOf_subset key p _ i hi)) hx
    simp [stopsAt, h.1 x hx, hsub]

theorem eventFreeFrom_of_stopFree (s : GSpec) (b : Bool) (its : List V) (h : stopFree b s its = true) :
    ∀ (rest done : List V), (∀ i ∈ done, i ∈ its) → (∀ i ∈ rest, i ∈ its) → eventFreeFrom s done rest = true := by
  intro rest
  induction rest with
  | nil => intro _ _ _; rfl
  | cons x xs ih =>
    intro done hd hr
    have hx : x ∈ its := hr x List.mem_cons_self
    simp only [eventFreeFrom, stopsAt_of_stopFree s b its done x h hd hx, Bool.not_false, Bool.true_and]
    exact ih _ (fun i hi => by
      rcases List.mem_append.mp hi with h1 | h1
      · exact hd i h1
      · simp at h1; subst h1; exact hx) (fun i hi => hr i (List.mem_cons_of_mem _ hi))

theorem eventFree_of_stopFree (s : GSpec) (b : Bool) (its : List V) (h : stopFree b s its = true) :
    eventFree s its = true :=
  eventFreeFrom_of_stopFree s b its h its [] (by simp) (fun _ hi => hi)

theorem nestedFree_of_stopFree : ∀ (s : GSpec) (b : Bool) (its : List V), stopFree b s its = true →
    nestedFree s its = true
  | .agg .., _, _, _ => rfl
  | .fn _, _, _, _ => rfl
  | .list .., _, _, _ => rfl
  | .limit .., _, _, h => by simp [stopFree] at h
  | .dict _ _ _ sub, _, its, h => by
    simp only [stopFree, Bool.and_eq_true] at h
    exact nestedFree_of_stopFree sub true its h.2
  | .nested g, _, its, h => by
    simp only [stopFree, Bool.and_eq_true, List.all_eq_true] at h
    simp only [nestedFree, List.all_eq_true, Bool.and_eq_true]
    exact fun x hx => ⟨eventFree_of_stopFree g false _ (h.2 x hx), nestedFree_of_stopFree g false _ (h.2 x hx)⟩

theorem noSkipBelow_of_stopFree : ∀ (s : GSpec) (b : Bool) (its : List V), stopFree b s its = true →
    noSkipBelow b s its = true
  | .agg .., _, _, _ => rfl
  | .list .., _, _, _ => rfl
  | .limit .., _, _, h => by simp [stopFree] at h
  | .fn f, b, its, h => by
    simp only [stopFree, List.all_eq_true, Bool.and_eq_true, Bool.not_eq_true'] at h
    cases b with
    | false => simp [noSkipBelow]
    | true =>
      simp only [noSkipBelow, Bool.not_true, Bool.false_or, List.all_eq_true, Bool.not_eq_true']
      intro x hx
      simpa using (h x hx).2
  | .dict _ _ _ sub, _, its, h => by
    simp only [stopFree, Bool.and_eq_true] at h
    exact noSkipBelow_of_stopFree sub true its h.2
  | .nested g, b, its, h => by
    simp only [stopFree, Bool.and_eq_true, List.all_eq_true] at h
    simp only [noSkipBelow, Bool.and_eq_true, List.all_eq_true, Bool.or_eq_true]
    refine ⟨?_, fun x hx => noSkipBelow_of_stopFree g false _ (h.2 x hx)⟩
    cases its with
    | nil => left; rfl
    | cons y ys =>
      right
      have hy := h.2 y List.mem_cons_self
      have h1 := h.1
      cases g with
      | fn f => simp at h1; simp [h1]
      | nested g2 => simp at h1; simp [h1]
      | limit oid n sub => simp [stopFree] at hy
      | agg oid a => simp [canSkip]
      | list id f => simp [canSkip]
      | dict id kid key sub => simp [canSkip]

/-! ### top-level Limit(n) and First -/

theorem cutFrom_limit (oid n : Nat) (sub : GSpec) : ∀ (xs done : List V), done.length ≤ n →
    eventFreeFrom sub done xs = true → cutFrom (.limit oid n sub) done xs = (done ++ xs).take n := by
  intro xs
  induction xs with
  | nil => intro done hlen _; simp [cutFrom, List.take_of_length_le hlen]
  | cons x xs ih =>
    intro done hlen h
    simp only [eventFreeFrom, Bool.and_eq_true, Bool.not_eq_true'] at h
    simp only [cutFrom, stopsAt, h.1, Bool.or_false]
    by_cases hge : n ≤ done.length
    · have heq : done.length = n := by omega
      simp only [hge, decide_true, if_true]
      rw [← heq]; exact (List.take_left' rfl).symm
    · simp only [hge, decide_false, Bool.false_eq_true, if_false]
      rw [ih (done ++ [x]) (by simp; omega) h.2]
      simp

/-- a top-level `Limit(n, sub)` ends the evaluation after `n` items -/
theorem cutEvent_limit (oid n : Nat) (sub : GSpec) (items : List V) (h : eventFree sub items = true) :
    cutEvent (.limit oid n sub) items = items.take n := by
  simpa [cutEvent] using cutFrom_limit oid n sub items [] (Nat.zero_le _) h

theorem limit_spec (oid n : Nat) (sub : GSpec) (items : List V) (h : Hyp false sub items)
    (hef : eventFree sub items = true) (hnf : nestedFree sub items = true) :
    groupEval (.limit oid n sub) items = .ok (valOfTop (.limit oid n sub) items) := by
  rw [groupEval_exact (.limit oid n sub) items ⟨h.wf, h.sa, h.ns⟩]
  congr 1
  simp only [implTop, valOfTop, emptyOr, cutEvent_limit oid n sub items hef, emptyOf, valOfC]
  have htt : (items.take n).take n = items.take n := by simp [List.take_take]
  rw [htt, valOfC_eq sub (items.take n) (nestedFree_subset sub (fun i hi => List.mem_of_mem_take hi) hnf)]
  cases items with
  | nil => simp
  | cons y ys =>
    cases n with
    | zero => simp
    | succ m => simp

theorem first_spec (oid : Nat) (items : List V) (hp : ∀ x ∈ items, isStop x = false ∧ isSkip x = false) :
    groupEval (.agg oid .first) items = .ok (items.head?.getD .none) := by
  have hwf : wfRun (.agg oid .first) items = true := by
    simp only [wfRun, aggOk, List.all_eq_true, Bool.and_eq_true, Bool.not_eq_true']
    exact hp
  rw [groupEval_exact (.agg oid .first) items ⟨hwf, rfl, rfl⟩]
  cases items with
  | nil => rfl
  | cons x xs =>
    cases xs with
    | nil => rfl
    | cons y ys => rfl

/-! ### per-bucket independence -/

theorem keyEq_trans (a b c : V) (h1 : keyEq a b = true) (h2 : keyEq b c = true) : keyEq a c = true := by
  cases a <;> cases b <;> simp [keyEq] at h1 <;> cases c <;> simp [keyEq] at h2 ⊢ <;>
    (try subst_vars) <;> (try simp_all) <;> (try (split at * <;> simp_all <;> omega))

/-- the items a hand-written loop routes to the bucket of key `k` -/
def routed (key : Fn) (k : V) (its : List V) : List V :=
  its.filter (fun x => !(isSkip (key.val x)) && keyEq (key.val x) k)

theorem bucketOf_addTo_gen (bs : List (V × List V)) (kx k x : V) :
    bucketOf (addTo bs kx x) k = if keyEq kx k then bucketOf bs k ++ [x] else bucketOf bs k := by
  induction bs with
  | nil => by_cases h : keyEq kx k = true <;> simp [addTo, bucketOf, h]
  | cons b0 bs ih =>
    obtain ⟨k', its⟩ := b0
    by_cases h1 : keyEq k' kx = true
    · simp only [addTo, h1, if_true, bucketOf]
      by_cases h2 : keyEq kx k = true
      · simp [h2, keyEq_trans _ _ _ h1 h2]
      · have h3 : keyEq k' k = false := by
          cases h3 : keyEq k' k with
          | false => rfl
          | true =>
            exact absurd (keyEq_trans _ _ _ (by rw [keyEq_symm]; exact h1) h3) h2
        simp [h2, h3]
    · have h1' : keyEq k' kx = false := by simpa using h1
      simp only [addTo, h1', Bool.false_eq_true, if_false, bucketOf, ih]
      by_cases h3 : keyEq k' k = true
      · have h2 : keyEq kx k = false := by
          cases h2 : keyEq kx k with
          | false => rfl
          | true =>
            exact absurd (keyEq_trans _ _ _ h3 (by rw [keyEq_symm]; exact h2)) h1
        simp [h3, h2]
      · simp [h3]

/-- **the bucket of `k` holds exactly the items whose key equals `k`, in encounter order** -/
theorem bucketOf_buckets (key : Fn) (k : V) : ∀ its, bucketOf (buckets key its) k = routed key k its := by
  intro its
  induction its using snoc_induction with
  | h0 => rfl
  | hs its x ih =>
    rw [buckets_snoc, bucketStep_eq]
    by_cases hs : isSkip (key.val x) = true
    · simp [hs, ih, routed, List.filter_append]
    · have hs' : isSkip (key.val x) = false := by simpa using hs
      simp only [hs', Bool.false_eq_true, if_false, bucketOf_addTo_gen, ih, routed, List.filter_append,
        List.filter_cons, List.filter_nil, Bool.not_false, Bool.true_and]
      by_cases hk : keyEq (key.val x) k = true <;> simp [hk]

theorem bhas_eq_bucketOf {bs : List (V × List V)} (hne : ∀ b ∈ bs, b.2 ≠ []) (k : V) :
    bhas bs k = !(bucketOf bs k).isEmpty := by
  induction bs with
  | nil => rfl
  | cons b0 bs ih =>
    obtain ⟨k', its⟩ := b0
    by_cases h : keyEq k' k = true
    · have : its ≠ [] := hne (k', its) List.mem_cons_self
      cases its with
      | nil => exact absurd rfl this
      | cons y ys => simp [bhas, bucketOf, h]
    · have h' : keyEq k' k = false := by simpa using h
      simp [bhas, bucketOf, h', ih (fun b hb => hne b (List.mem_cons_of_mem _ hb))]

/-- the entry of bucket `k` in the reference dictionary of a key level: the reference of the
    value spec over the items routed to `k` — nothing else enters -/
theorem dget_buckets (key : Fn) (g : List V → V) (its : List V) (k : V) :
    dget ((buckets key its).map (fun b => (b.1, g b.2))) k =
      if (routed key k its).isEmpty then none else some (g (routed key k its)) := by
  have hne : ∀ b ∈ buckets key its, b.2 ≠ [] := fun b hb =>
    (buckets_inv key (Q := fun _ => True) its (fun _ _ _ => trivial) b hb).2.1
  rw [dget_map, bhas_eq_bucketOf hne, bucketOf_buckets]
  cases (routed key k its).isEmpty <;> rfl

/-! ### Sample: the reservoir -/

theorem refSample_length (size : Nat) (tbl : List Nat) (its : List V) :
    (refSample size tbl its).2.length = min size its.length := by
  induction its using snoc_induction with
  | h0 => simp [refSample]
  | hs its x ih =>
    rw [refSample_snoc]
    unfold sampleStep
    by_cases hlt : (refSample size tbl its).2.length < size
    · simp only [hlt, if_true, List.length_append, List.length_cons, List.length_nil]
      omega
    · simp only [hlt, if_false]
      split <;> simp only [List.length_set, List.length_append, List.length_cons, List.length_nil] <;> omega

theorem refSample_mem (size : Nat) (tbl : List Nat) (its : List V) :
    ∀ v ∈ (refSample size tbl its).2, v ∈ its := by
  induction its using snoc_induction with
  | h0 => simp [refSample]
  | hs its x ih =>
    rw [refSample_snoc]
    unfold sampleStep
    intro v hv
    by_cases hlt : (refSample size tbl its).2.length < size
    · simp only [hlt, if_true] at hv
      rcases List.mem_append.mp hv with h | h
      · exact List.mem_append_left _ (ih v h)
      · exact List.mem_append_right _ h
    · simp only [hlt, if_false] at hv
      split at hv
      · rcases List.mem_or_eq_of_mem_set hv with h | h
        · exact List.mem_append_left _ (ih v h)
        · subst h; simp
      · exact List.mem_append_left _ (ih v hv)

theorem refSample_small (size : Nat) (tbl : List Nat) (its : List V) (h : its.length ≤ size) :
    (refSample size tbl its).2 = its := by
  induction its using snoc_induction with
  | h0 => rfl
  | hs its x ih =>
    have hl : its.length < size := by simp at h; omega
    have ih' := ih (by omega)
    rw [refSample_snoc]
    unfold sampleStep
    simp [ih', hl]

theorem sample_eventFree (oid size : Nat) (tbl : List Nat) (its : List V) :
    eventFree (.agg oid (.sample size tbl)) its = true := by
  induction its using snoc_induction with
  | h0 => rfl
  | hs its x ih => rw [eventFree_snoc, ih]; rfl

/-! ### histories -/

theorem evalHistory_append (specs : List GSpec) (targets : List (List V)) (a b : List (Nat × Nat)) :
    evalHistory specs targets (a ++ b) = evalHistory specs targets a ++ evalHistory specs targets b := by
  simp [evalHistory]

end Glom.C16
