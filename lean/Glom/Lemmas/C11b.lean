import Glom.Lemmas.C11
/-
  Helper lemmas for C11, part 2: unfolding of `Assign.glomit`, the `missing`
  recursion (= `buildTail`), congruence of the reference walk under heap
  extension, and the main refinement.
-/
namespace Glom.C11
open Glom Glom.Mut

theorem assignAux_fetch_ok {env : MEnv} {sroot : Bool} {sref : Val} {missing : Missing} {fuel : Nat}
    {st st' : St} {target : Val} {orig : List Step} {vs : ValSpec} {op : String} {arg val : Val}
    {nest : Nest}
    (hl : orig.getLast? = some (op, arg)) (hf : finalOk op = true)
    (hv : evalVal env st target vs = (st', .ok val))
    (hfe : fetch env st'.heap orig.dropLast 0 (if sroot then sref else target) = .ok nest) :
    assignAux env sroot sref missing (fuel + 1) st target orig vs =
      match applyForEach (stars orig.dropLast) nest (assignOp env op arg val) st' with
      | (st'', .ok _) => (st'', .ok target)
      | (st'', .error e) => (st'', .error e) := by
  simp only [assignAux, hl, hf, hv, hfe]
  rfl

theorem assignAux_fetch_pae {env : MEnv} {sroot : Bool} {sref : Val} {kind : String} {fuel : Nat}
    {st st' : St} {target : Val} {orig : List Step} {vs : ValSpec} {op : String} {arg val : Val}
    {k : Nat} {e : PyExc}
    (hl : orig.getLast? = some (op, arg)) (hf : finalOk op = true)
    (hv : evalVal env st target vs = (st', .ok val))
    (hfe : fetch env st'.heap orig.dropLast 0 (if sroot then sref else target) = .error (.pae k e)) :
    assignAux env sroot sref (.factory kind) (fuel + 1) st target orig vs =
      match callFactory kind st' with
      | (st1, .error e') => (st1, .error e')
      | (st1, .ok fresh) =>
        match assignAux env false sref (.factory kind) fuel st1 fresh (orig.drop (k + 1)) (.val val) with
        | (st2, .error e') => (st2, .error e')
        | (st2, .ok val') =>
          match orig[k]? with
          | none => (st2, .error .badSpec)
          | some (op', arg') =>
            match fetch env st2.heap (orig.take k) 0 (if sroot then sref else target) with
            | .error e' => (st2, .error e')
            | .ok nest' =>
              match applyForEach (stars (orig.take k)) nest' (assignOp env op' arg' val') st2 with
              | (st3, .ok _) => (st3, .ok target)
              | (st3, .error e') => (st3, .error e') := by
  simp only [assignAux, hl, hf, hv, hfe]
  rfl
end Glom.C11

namespace Glom.C11
open Glom Glom.Mut

theorem wfStar_cons {s : Step} {r : List Step} (h : wfStar (s :: r) = true) :
    (s.1 = "x" ∨ C01.wfSteps [s] = true) ∧ wfStar r = true := by
  obtain ⟨op, arg⟩ := s
  simpa [wfStar] using h

theorem getLast?_cons_cons {α} (a b : α) (r : List α) : (a :: b :: r).getLast? = (b :: r).getLast? := by
  simp [List.getLast?_cons_cons]

theorem finalOk_of_wfSteps {s : Step} (h : C01.wfSteps [s] = true) : finalOk s.1 = true := by
  rcases (wfSteps_op (op := s.1) (arg := s.2) h).1 with h1 | h1 | h1 <;> simp [finalOk, h1]

/-- the `missing` recursion with a factory that returns a non-container (`0`, `''`, `None`): one
    factory call per segment until a step that needs an object — the final assignment, or the
    attachment of an inner value — fails; only a wildcard (no matches on a scalar) lets the call go
    through, the scalar itself being what is attached.  No cell is created or changed. -/
theorem tail_spec_scalar {env : MEnv} (hwf : WF env = true) (hc : classesOK env = true)
    (sref : Val) (kind : String) (v c : Val) (hfo : freshObj kind = none) (hsc : freshScalar kind = some c) :
    ∀ (rem : List Step), wfStar rem = true → (∀ s, rem.getLast? = some s → finalOk s.1 = true) →
    rem ≠ [] → ∀ (fuel : Nat), rem.length ≤ fuel → ∀ (st : St),
    match buildTail env kind v rem st.heap with
    | some (h', c', hid, n) =>
      ∃ st2, tailRun env sref kind fuel st rem v = (st2, .ok c') ∧ st2.heap = h' ∧
        st2.calls = st.calls + n ∧ st2.hidden = (st.hidden || hid) ∧ Pres st.heap h' ∧
        st.heap.length ≤ h'.length ∧ LogExt st.heap.length st.log st2.log
    | none =>
      ∃ st2 e, tailRun env sref kind fuel st rem v = (st2, .error e) ∧ Pres st.heap st2.heap ∧
        st.heap.length ≤ st2.heap.length ∧ LogExt st.heap.length st.log st2.log := by
  obtain ⟨hwf1, hx, _, _, _, _⟩ := WF_parts hwf
  have hce := freshScalar_empty hsc
  have hnr := emptyScalar_not_ref hce
  intro rem
  induction rem with
  | nil => intro _ _ hne; exact absurd rfl hne
  | cons s rest ih =>
    intro hw hlast _ fuel hfuel st
    obtain ⟨hs, hwr⟩ := wfStar_cons hw
    cases fuel with
    | zero => simp at hfuel
    | succ f =>
    simp only [tailRun, callFactory_eq, hfo, hsc]
    generalize hst1 : ({ st with calls := st.calls + 1 } : St) = st1
    have h1h : st1.heap = st.heap := by subst hst1; rfl
    have h1c : st1.calls = st.calls + 1 := by subst hst1; rfl
    have h1hid : st1.hidden = st.hidden := by subst hst1; rfl
    have h1log : st1.log = st.log := by subst hst1; rfl
    have hev : evalVal env st1 c (.val v) = (st1, .ok v) := rfl
    cases rest with
    | nil =>
      have hl : [s].getLast? = some (s.1, s.2) := rfl
      have hfin : finalOk s.1 = true := hlast s rfl
      have hfe : fetch env st1.heap ([s] : List Step).dropLast 0
          (if false then sref else c) = .ok (.leaf c) := rfl
      rw [assignAux_fetch_ok hl hfin hev hfe]
      simp only [show ([s] : List Step).dropLast = [] from rfl, stars, List.filter_nil,
        List.length_nil, applyForEach, beq_self_eq_true, if_true, buildTail, hfo]
      rw [assignOp_eq hwf hfin]
      cases hr : refAssignOp env st1.heap s.1 c s.2 v with
      | none => exact ⟨_, _, rfl, by rw [h1h]; exact Pres.refl _, by rw [h1h]; exact Nat.le_refl _,
          by rw [h1log]; exact LogExt.refl _ _⟩
      | some r =>
        cases r with
        | error e => exact ⟨_, _, rfl, by rw [h1h]; exact Pres.refl _, by rw [h1h]; exact Nat.le_refl _,
            by rw [h1log]; exact LogExt.refl _ _⟩
        | ok w => exact absurd hr (refAssignOp_scalar hnr w)
    | cons s' rest' =>
      cases hl : (s :: s' :: rest').getLast? with
      | none => simp at hl
      | some t =>
      obtain ⟨lop, larg⟩ := t
      have hfin : finalOk lop = true := hlast _ hl
      have hdl : (s :: s' :: rest').dropLast = s :: (s' :: rest').dropLast := rfl
      rcases hs with hsx | hsw
      · -- a wildcard over a scalar: no matches; the scalar itself is the result
        obtain ⟨sop, sarg⟩ := s
        simp only at hsx; subst hsx
        have hfe : fetch env st1.heap (("x", sarg) :: s' :: rest').dropLast 0
            (if false then sref else c) = .ok (.node []) := by
          rw [hdl]
          simp only [Bool.false_eq_true, if_false]
          rw [fetch_star_eq hx _ _ _ _ _ (isScope_scalar hnr), children_scalar hnr]
          rfl
        rw [assignAux_fetch_ok hl hfin hev hfe]
        simp only [hdl, stars_cons_x, applyForEach, Nat.add_eq_zero_iff, Nat.one_ne_zero, and_false,
          beq_iff_eq, if_false, Nat.add_sub_cancel, flattenN_nil, forEach, buildTail, hfo, hsc,
          beq_self_eq_true, if_true]
        exact ⟨_, rfl, h1h, h1c, by simp [h1hid], Pres.refl _, Nat.le_refl _,
          by rw [h1log]; exact LogExt.refl _ _⟩
      · -- an access step on the scalar fails: the next factory call; whatever it builds cannot be attached
        obtain ⟨r, hr, hf⟩ := fetch_access hwf1 hc st1.heap s.1 s.2 (s' :: rest').dropLast 0 c hsw
        obtain ⟨e, rfl⟩ := refAccess_scalar hce s.1 s.2 r hr
        have hfe : fetch env st1.heap (s :: s' :: rest').dropLast 0
            (if false then sref else c) = .error (.pae 0 e) := by
          rw [hdl]; simpa using hf
        rw [assignAux_fetch_pae hl hfin hev hfe]
        have hop := (wfSteps_op (op := s.1) (arg := s.2) hsw)
        have hnx : (s.1 == "x") = false := by simpa using hop.2.1
        have hlast' : ∀ t, (s' :: rest').getLast? = some t → finalOk t.1 = true := by
          intro t ht; exact hlast t (by rw [getLast?_cons_cons]; exact ht)
        have ihs := ih hwr hlast' (by simp) f (by simpa using hfuel) st1
        simp only [Nat.zero_add, List.drop_one, List.tail_cons, List.getElem?_cons_zero,
          List.take_zero, buildTail, hfo, hsc, hnx, Bool.false_eq_true, if_false]
        simp only [tailRun, callFactory_eq, hfo, hsc] at ihs
        simp only [callFactory_eq, hfo, hsc]
        cases hbt : buildTail env kind v (s' :: rest') st1.heap with
        | none =>
          rw [hbt] at ihs
          obtain ⟨st2, e', hrun, hp2, hl2, hlg2⟩ := ihs
          simp only [hrun]
          refine ⟨_, _, rfl, ?_, ?_, ?_⟩
          · rw [← h1h]; exact hp2
          · rw [← h1h]; exact hl2
          · rw [← h1h, ← h1log]; exact hlg2
        | some res =>
          obtain ⟨h1', inner, hid, n⟩ := res
          rw [hbt] at ihs
          obtain ⟨st2, hrun, hh2, hc2, hhid2, hp2, hl2, hlg2⟩ := ihs
          simp only [hrun]
          have hfe2 : fetch env st2.heap [] 0 c = .ok (.leaf c) := rfl
          simp only [hfe2, stars, List.filter_nil, List.length_nil, applyForEach, beq_self_eq_true, if_true]
          rw [assignOp_eq hwf (finalOk_of_wfSteps hsw)]
          cases hra : refAssignOp env st2.heap s.1 c s.2 inner with
          | none =>
            refine ⟨_, _, rfl, ?_, ?_, ?_⟩
            · rw [← h1h, hh2]; exact hp2
            · rw [← h1h, hh2]; exact hl2
            · rw [← h1h, ← h1log]; exact hlg2
          | some ra =>
            cases ra with
            | error e' =>
              refine ⟨_, _, rfl, ?_, ?_, ?_⟩
              · rw [← h1h, hh2]; exact hp2
              · rw [← h1h, hh2]; exact hl2
              · rw [← h1h, ← h1log]; exact hlg2
            | ok w => exact absurd hra (refAssignOp_scalar hnr w)

/-- **the `missing` recursion is `buildTail`**: one factory call per absent segment, the tail is
    built on fresh cells only (every pre-existing cell is preserved, also on failure) -/
theorem tail_spec {env : MEnv} (hwf : WF env = true) (hc : classesOK env = true)
    (hfs : freshNotScope env = true) (sref : Val) (kind : String) (v : Val) :
    ∀ (rem : List Step), wfStar rem = true → (∀ s, rem.getLast? = some s → finalOk s.1 = true) →
    rem ≠ [] → ∀ (fuel : Nat), rem.length ≤ fuel → ∀ (st : St),
    match buildTail env kind v rem st.heap with
    | some (h', c, hid, n) =>
      ∃ st2, tailRun env sref kind fuel st rem v = (st2, .ok c) ∧ st2.heap = h' ∧
        st2.calls = st.calls + n ∧ st2.hidden = (st.hidden || hid) ∧ Pres st.heap h' ∧
        st.heap.length ≤ h'.length ∧ LogExt st.heap.length st.log st2.log
    | none =>
      ∃ st2 e, tailRun env sref kind fuel st rem v = (st2, .error e) ∧ Pres st.heap st2.heap ∧
        st.heap.length ≤ st2.heap.length ∧ LogExt st.heap.length st.log st2.log := by
  obtain ⟨hwf1, hx, _, _, _, _⟩ := WF_parts hwf
  intro rem
  induction rem with
  | nil => intro _ _ hne; exact absurd rfl hne
  | cons s rest ih =>
    intro hw hlast _ fuel hfuel st
    obtain ⟨hs, hwr⟩ := wfStar_cons hw
    cases fuel with
    | zero => simp at hfuel
    | succ f =>
    simp only [tailRun, callFactory_eq]
    cases hfo : freshObj kind with
    | none =>
      cases hsc : freshScalar kind with
      | some c =>
        have := tail_spec_scalar hwf hc sref kind v c hfo hsc (s :: rest) hw hlast (by simp) (f + 1) hfuel st
        simpa only [tailRun, callFactory_eq, hfo, hsc] using this
      | none =>
      have : buildTail env kind v (s :: rest) st.heap = none := by
        cases rest <;> simp [buildTail, hfo, hsc]
      rw [this]
      exact ⟨_, _, rfl, Pres.refl _, Nat.le_refl _, LogExt.refl _ _⟩
    | some o =>
      simp only []
      have hoe := freshObj_empty hfo
      -- the state after the factory call
      generalize hst1 : allocSt st o = st1
      have h1h : st1.heap = st.heap ++ [o] := by subst hst1; rfl
      have h1c : st1.calls = st.calls + 1 := by subst hst1; rfl
      have h1hid : st1.hidden = st.hidden := by subst hst1; rfl
      have hfresh : st1.heap[st.heap.length]? = some o := by simp [h1h]
      have hp1 : Pres st.heap st1.heap := by rw [h1h]; exact Pres.append _ _
      have hev : evalVal env st1 (.ref st.heap.length) (.val v) = (st1, .ok v) := rfl
      have hlog1 : LogExt st.heap.length st.log st1.log := by
        subst hst1
        exact ⟨[.alloc st.heap.length], rfl, by simp [evNew]⟩
      cases rest with
      | nil =>
        -- the final step on the fresh object
        have hl : [s].getLast? = some (s.1, s.2) := rfl
        have hfin : finalOk s.1 = true := hlast s rfl
        have hfe : fetch env st1.heap ([s] : List Step).dropLast 0
            (if false then sref else (.ref st.heap.length)) = .ok (.leaf (.ref st.heap.length)) := rfl
        rw [assignAux_fetch_ok hl hfin hev hfe]
        simp only [show ([s] : List Step).dropLast = [] from rfl, stars, List.filter_nil,
          List.length_nil, applyForEach, beq_self_eq_true, if_true, buildTail, hfo]
        rw [assignOp_eq hwf hfin, h1h]
        cases hr : refAssignOp env (st.heap ++ [o]) s.1 (.ref st.heap.length) s.2 v with
        | none => exact ⟨_, _, rfl, hp1, by simp [h1h], hlog1⟩
        | some r =>
          cases r with
          | error e => exact ⟨_, _, rfl, hp1, by simp [h1h], hlog1⟩
          | ok w =>
            have hfr := refAssignOp_frame hr
            refine ⟨_, rfl, rfl, by simp [St.wrote, h1c], by simp [St.wrote, h1hid], ?_, ?_, ?_⟩
            · exact frameAt_pres hfr (Nat.le_refl _) (Pres.append _ _)
            · rw [hfr.1]; simp
            · exact wrote_logExt (refAssignOp_cell hr) (Nat.le_refl _) hlog1
      | cons s' rest' =>
        cases hl : (s :: s' :: rest').getLast? with
        | none => simp at hl
        | some t =>
        obtain ⟨lop, larg⟩ := t
        have hfin : finalOk lop = true := hlast _ hl
        have hdl : (s :: s' :: rest').dropLast = s :: (s' :: rest').dropLast := rfl
        rcases hs with hsx | hsw
        · -- a wildcard over the fresh, empty object: no matches
          obtain ⟨sop, sarg⟩ := s
          simp only at hsx; subst hsx
          have hch : children env st1.heap (.ref st.heap.length) = [] := children_empty hfresh hoe
          have hfe : fetch env st1.heap (("x", sarg) :: s' :: rest').dropLast 0
              (if false then sref else (.ref st.heap.length)) = .ok (.node []) := by
            rw [hdl]
            simp only [Bool.false_eq_true, if_false]
            rw [fetch_star_eq hx _ _ _ _ _ (fresh_isScope hfs hfo hfresh), hch]
            rfl
          rw [assignAux_fetch_ok hl hfin hev hfe]
          simp only [hdl, stars_cons_x, applyForEach, Nat.add_eq_zero_iff, Nat.one_ne_zero, and_false,
            beq_iff_eq, if_false, Nat.add_sub_cancel, flattenN_nil, forEach, buildTail, hfo,
            beq_self_eq_true, if_true]
          exact ⟨_, rfl, h1h, h1c, by simp [h1hid], Pres.append _ _, by simp, hlog1⟩
        · -- an access step on the fresh, empty object fails: the next factory call
          obtain ⟨r, hr, hf⟩ := fetch_access hwf1 hc st1.heap s.1 s.2 (s' :: rest').dropLast 0
            (.ref st.heap.length) hsw
          obtain ⟨e, rfl⟩ := refAccess_empty hfresh hoe s.1 s.2 r hr
          have hfe : fetch env st1.heap (s :: s' :: rest').dropLast 0
              (if false then sref else (.ref st.heap.length)) = .error (.pae 0 e) := by
            rw [hdl]; simpa using hf
          rw [assignAux_fetch_pae hl hfin hev hfe]
          have hop := (wfSteps_op (op := s.1) (arg := s.2) hsw)
          have hopb : (s.1 == "." || s.1 == "[" || s.1 == "P") = true := by
            rcases hop.1 with h1 | h1 | h1 <;> simp [h1]
          have hnx : (s.1 == "x") = false := by simpa using hop.2.1
          have hlast' : ∀ t, (s' :: rest').getLast? = some t → finalOk t.1 = true := by
            intro t ht; exact hlast t (by rw [getLast?_cons_cons]; exact ht)
          have ihs := ih hwr hlast' (by simp) f (by simpa using hfuel) st1
          simp only [Nat.zero_add, List.drop_one, List.tail_cons, List.getElem?_cons_zero,
            List.take_zero, buildTail, hfo, hnx, hopb, if_true, Bool.false_eq_true, if_false]
          simp only [tailRun, callFactory_eq, hfo] at ihs
          simp only [callFactory_eq, hfo]
          rw [← h1h]
          cases hbt : buildTail env kind v (s' :: rest') st1.heap with
          | none =>
            rw [hbt] at ihs
            obtain ⟨st2, e', hrun, hp2, hl2, hlg2⟩ := ihs
            simp only [hrun]
            exact ⟨_, _, rfl, Pres.trans hp1 hp2 (by rw [h1h]; simp), by rw [h1h] at hl2; simp at hl2; omega,
              hlog1.trans hlg2 (by rw [h1h]; simp)⟩
          | some res =>
            obtain ⟨h1', inner, hid, n⟩ := res
            rw [hbt] at ihs
            obtain ⟨st2, hrun, hh2, hc2, hhid2, hp2, hl2, hlg2⟩ := ihs
            have hlog2 : LogExt st.heap.length st.log st2.log := hlog1.trans hlg2 (by rw [h1h]; simp)
            simp only [hrun]
            have hfe2 : fetch env st2.heap [] 0 (.ref st.heap.length) = .ok (.leaf (.ref st.heap.length)) := rfl
            simp only [hfe2, stars, List.filter_nil, List.length_nil, applyForEach, beq_self_eq_true, if_true]
            rw [assignOp_eq hwf (finalOk_of_wfSteps hsw), hh2]
            cases hra : refAssignOp env h1' s.1 (.ref st.heap.length) s.2 inner with
            | none =>
              refine ⟨_, _, rfl, ?_, ?_, hlog2⟩
              · rw [hh2]; exact Pres.trans hp1 hp2 (by rw [h1h]; simp)
              · rw [hh2]; rw [h1h] at hl2; simp at hl2; omega
            | some ra =>
              cases ra with
              | error e' =>
                refine ⟨_, _, rfl, ?_, ?_, hlog2⟩
                · rw [hh2]; exact Pres.trans hp1 hp2 (by rw [h1h]; simp)
                · rw [hh2]; rw [h1h] at hl2; simp at hl2; omega
              | ok w =>
                have hfr := refAssignOp_frame hra
                have hp12 : Pres st.heap h1' := Pres.trans hp1 hp2 (by rw [h1h]; simp)
                refine ⟨_, rfl, rfl, ?_, ?_, ?_, ?_, ?_⟩
                · simp [St.wrote, hc2, h1c]; omega
                · simp [St.wrote, hhid2, h1hid, Bool.or_assoc]
                · exact frameAt_pres hfr (Nat.le_refl _) hp12
                · rw [hfr.1]; rw [h1h] at hl2; simp at hl2; omega
                · exact wrote_logExt (refAssignOp_cell hra) (Nat.le_refl _) hlog2

end Glom.C11

namespace Glom.C11
open Glom Glom.Mut

/-! ### the reference walk only reads the cells it visits -/

theorem hashable_scalar {h h' : Heap} {k : Val} (hk : ∀ a, k ≠ .ref a) : k.hashable h' = k.hashable h := by
  cases k with
  | ref a => exact absurd rfl (hk a)
  | _ => rfl

theorem pyGetattr_congr {h h' : Heap} {cur name : Val} (hcur : ∀ a, cur = .ref a → h'[a]? = h[a]?) :
    pyGetattr h' cur name = pyGetattr h cur name := by
  cases cur with
  | ref a => simp only [pyGetattr, hcur a rfl]
  | _ => rfl

theorem pyGetitem_congr {h h' : Heap} {cur key : Val} (hcur : ∀ a, cur = .ref a → h'[a]? = h[a]?)
    (hk : ∀ a, key ≠ .ref a) : pyGetitem h' cur key = pyGetitem h cur key := by
  cases cur with
  | ref a => simp only [pyGetitem, hcur a rfl, hashable_scalar (h := h) (h' := h') hk]
  | _ => rfl

theorem pyInt_congr (h h' : Heap) (v : Val) : pyInt h' v = pyInt h v := by
  cases v <;> rfl

theorem refAccess_congr {env : MEnv} {h h' : Heap} {op : String} {cur arg : Val}
    (hcur : ∀ a, cur = .ref a → h'[a]? = h[a]?) (hk : ∀ a, arg ≠ .ref a) :
    C01.refAccess env.t h' op cur arg = C01.refAccess env.t h op cur arg := by
  have hcls : cur.clsName h' = cur.clsName h := by
    cases cur with
    | ref a => simp only [Val.clsName, hcur a rfl]
    | _ => rfl
  have hgh : C01.getHandler env.t h' cur = C01.getHandler env.t h cur := by
    simp only [C01.getHandler, hcls]
  have hap : ∀ hn, C01.applyHandler h' hn cur arg = C01.applyHandler h hn cur arg := by
    intro hn
    simp only [C01.applyHandler, pySeqGet, pyGetitem_congr hcur hk, pyGetattr_congr hcur, pyInt_congr h h']
    split
    · rfl
    · split
      · cases pyInt h arg with
        | ok i => exact pyGetitem_congr hcur (by intro a; simp)
        | error e => rfl
      · rfl
  simp only [C01.refAccess, pyGetattr_congr hcur, pyGetitem_congr hcur hk, hgh, hap]

theorem pyGetattr_dangling {h : Heap} {a : Nat} (ha : h[a]? = none) (name : Val) :
    ∃ e, pyGetattr h (.ref a) name = .error e := by
  unfold pyGetattr
  cases name <;> simp only [ha] <;> exact ⟨_, rfl⟩

theorem pyGetitem_dangling {h : Heap} {a : Nat} (ha : h[a]? = none) (key : Val) :
    ∃ e, pyGetitem h (.ref a) key = .error e := by
  unfold pyGetitem
  simp only [ha]
  exact ⟨_, rfl⟩

theorem refAccess_dangling {env : MEnv} {h : Heap} {a : Nat} (ha : h[a]? = none) (op : String)
    (arg : Val) (r : Except PyExc Val) (hr : C01.refAccess env.t h op (.ref a) arg = some r) :
    ∃ e, r = .error e := by
  unfold C01.refAccess at hr
  split at hr
  · injection hr with hr; subst hr; exact pyGetattr_dangling ha arg
  · split at hr
    · injection hr with hr; subst hr; exact pyGetitem_dangling ha arg
    · split at hr
      · cases hg : C01.getHandler env.t h (.ref a) with
        | none => simp [hg] at hr
        | some hn =>
          simp [hg] at hr; subst hr
          unfold C01.applyHandler
          split
          · exact pyGetitem_dangling ha arg
          · split
            · unfold pySeqGet
              split
              · exact pyGetitem_dangling ha _
              · exact ⟨_, rfl⟩
            · split
              · exact pyGetattr_dangling ha arg
              · exact ⟨_, rfl⟩
      · contradiction

theorem argsScalar_cons {s : Step} {r : List Step} (h : argsScalar (s :: r) = true) :
    (∀ a, s.2 ≠ .ref a) ∧ argsScalar r = true := by
  obtain ⟨op, arg⟩ := s
  cases arg <;> simp_all [argsScalar]

/-- a successful wildcard-free walk reads only cells that exist, so it is the same walk in every
    heap that preserves them -/
theorem matchesOf_pres {env : MEnv} {h h' : Heap} (hp : Pres h h') :
    ∀ (steps : List Step), hasStar steps = false → argsScalar steps = true →
    ∀ (k : Nat) (cur : Val) (ds : List Val), matchesOf env h steps k cur = .ok ds →
    matchesOf env h' steps k cur = .ok ds := by
  intro steps
  induction steps with
  | nil => intro _ _ k cur ds hm; simpa [matchesOf] using hm
  | cons s r ih =>
    obtain ⟨op, arg⟩ := s
    intro hst has k cur ds hm
    obtain ⟨hnx, _, hst'⟩ := hasStar_cons hst
    obtain ⟨hk, has'⟩ := argsScalar_cons has
    simp only at hnx hk
    simp only [matchesOf, hnx, beq_iff_eq, if_false] at hm ⊢
    split at hm
    · rename_i hop
      simp only [hop, if_true]
      cases hr : C01.refAccess env.t h op cur arg with
      | none => simp [hr] at hm
      | some r' =>
        cases r' with
        | error e => simp [hr] at hm
        | ok v =>
          simp only [hr] at hm
          have hcur : ∀ a, cur = .ref a → h'[a]? = h[a]? := by
            intro a ha
            subst ha
            by_cases hlt : a < h.length
            · exact hp a hlt
            · have hnone : h[a]? = none := by simp; omega
              obtain ⟨e, he⟩ := refAccess_dangling hnone op arg _ hr
              cases he
          rw [refAccess_congr hcur hk, hr]
          exact ih hst' has' (k + 1) v ds hm
    · contradiction

/-- where a wildcard-free walk fails: the prefix before the failing segment succeeds and ends at `stop` -/
theorem matchesOf_fail_split {env : MEnv} {h : Heap} :
    ∀ (steps : List Step), hasStar steps = false →
    ∀ (k0 : Nat) (cur : Val) (k : Nat) (e : PyExc) (stop : Val),
    matchesOf env h steps k0 cur = .fail k e stop →
    k0 ≤ k ∧ k - k0 < steps.length ∧ matchesOf env h (steps.take (k - k0)) k0 cur = .ok [stop] ∧
      ∃ s, steps[k - k0]? = some s ∧ C01.refAccess env.t h s.1 stop s.2 = some (.error e) := by
  intro steps
  induction steps with
  | nil => intro _ k0 cur k e stop hm; simp [matchesOf] at hm
  | cons s r ih =>
    obtain ⟨op, arg⟩ := s
    intro hst k0 cur k e stop hm
    obtain ⟨hnx, _, hst'⟩ := hasStar_cons hst
    simp only at hnx
    simp only [matchesOf, hnx, beq_iff_eq, if_false] at hm
    split at hm
    · rename_i hop
      cases hr : C01.refAccess env.t h op cur arg with
      | none => simp [hr] at hm
      | some r' =>
        cases r' with
        | error e' =>
          simp only [hr] at hm
          injection hm with hk he hs
          subst hk; subst he; subst hs
          exact ⟨Nat.le_refl _, by simp, by simp [matchesOf], (op, arg), by simp, hr⟩
        | ok v =>
          simp only [hr] at hm
          obtain ⟨hle, hlt, hpre, s, hs, hacc⟩ := ih hst' (k0 + 1) v k e stop hm
          refine ⟨by omega, by simp; omega, ?_, s, ?_, hacc⟩
          · rw [show k - k0 = (k - (k0 + 1)) + 1 by omega, List.take_succ_cons]
            simp only [matchesOf, hnx, beq_iff_eq, if_false, hop, if_true, hr]
            exact hpre
          · rw [show k - k0 = (k - (k0 + 1)) + 1 by omega, List.getElem?_cons_succ]; exact hs
    · contradiction

end Glom.C11

namespace Glom.C11
open Glom Glom.Mut

/-! ### bookkeeping on step lists -/

theorem wfSteps_iff (l : List Step) : C01.wfSteps l = true ↔ ∀ s ∈ l, C01.wfSteps [s] = true := by
  induction l with
  | nil => simp [C01.wfSteps]
  | cons s r ih =>
    obtain ⟨op, arg⟩ := s
    simp only [C01.wfSteps, Bool.and_eq_true, List.mem_cons, forall_eq_or_imp, ih, Bool.and_true]

theorem wfSteps_wfStar {l : List Step} (h : C01.wfSteps l = true) : wfStar l = true := by
  induction l with
  | nil => rfl
  | cons s r ih =>
    obtain ⟨op, arg⟩ := s
    rw [wfSteps_iff] at h
    have h1 := h (op, arg) (by simp)
    have h2 : C01.wfSteps r = true := (wfSteps_iff r).2 (fun s hs => h s (by simp [hs]))
    simp [wfStar, h1, ih h2]

theorem wfSteps_noStar {l : List Step} (h : C01.wfSteps l = true) : hasStar l = false := by
  rw [wfSteps_iff] at h
  simp only [hasStar, List.any_eq_false, Bool.or_eq_true, beq_iff_eq, not_or]
  intro s hs
  have := wfSteps_op (op := s.1) (arg := s.2) (h s hs)
  exact ⟨this.2.1, this.2.2⟩

theorem stars_zero {l : List Step} (h : hasStar l = false) : stars l = 0 := by
  simp only [hasStar, List.any_eq_false] at h
  simp only [stars, List.length_eq_zero_iff, List.filter_eq_nil_iff]
  exact h

theorem uniform0_leaf {n : Nest} (h : n.uniform 0 = true) : ∃ v, n = .leaf v := by
  cases n with
  | leaf v => exact ⟨v, rfl⟩
  | node xs => simp [Nest.uniform] at h

theorem wfSteps_sub {l l' : List Step} (h : C01.wfSteps l = true) (hsub : ∀ s ∈ l', s ∈ l) :
    C01.wfSteps l' = true :=
  (wfSteps_iff l').2 (fun s hs => (wfSteps_iff l).1 h s (hsub s hs))

theorem argsScalar_sub {l : List Step} (h : argsScalar l = true) : ∀ s ∈ l, ∀ a, s.2 ≠ .ref a := by
  induction l with
  | nil => simp
  | cons s r ih =>
    obtain ⟨h1, h2⟩ := argsScalar_cons h
    intro t ht
    rcases List.mem_cons.1 ht with rfl | ht
    · exact h1
    · exact ih h2 t ht

theorem argsScalar_of {l : List Step} (h : ∀ s ∈ l, ∀ a, s.2 ≠ .ref a) : argsScalar l = true := by
  induction l with
  | nil => rfl
  | cons s r ih =>
    obtain ⟨op, arg⟩ := s
    have h1 := h (op, arg) (by simp)
    have h2 := ih (fun s hs => h s (by simp [hs]))
    cases arg <;> simp_all [argsScalar]

/-! ### unfolding `Assign.glomit`: the remaining exits -/

theorem assignAux_nil {env : MEnv} {sroot : Bool} {sref : Val} {missing : Missing} {fuel : Nat}
    {st : St} {target : Val} {vs : ValSpec} :
    assignAux env sroot sref missing (fuel + 1) st target [] vs = (st, .error .valueError) := by
  simp [assignAux]

theorem assignAux_val_err {env : MEnv} {sroot : Bool} {sref : Val} {missing : Missing} {fuel : Nat}
    {st st' : St} {target : Val} {orig : List Step} {vs : ValSpec} {op : String} {arg : Val} {e : MErr}
    (hl : orig.getLast? = some (op, arg)) (hf : finalOk op = true)
    (hv : evalVal env st target vs = (st', .error e)) :
    assignAux env sroot sref missing (fuel + 1) st target orig vs = (st', .error e) := by
  simp only [assignAux, hl, hf, hv]
  rfl

theorem assignAux_fetch_pae_none {env : MEnv} {sroot : Bool} {sref : Val} {fuel : Nat}
    {st st' : St} {target : Val} {orig : List Step} {vs : ValSpec} {op : String} {arg val : Val}
    {k : Nat} {e : PyExc}
    (hl : orig.getLast? = some (op, arg)) (hf : finalOk op = true)
    (hv : evalVal env st target vs = (st', .ok val))
    (hfe : fetch env st'.heap orig.dropLast 0 (if sroot then sref else target) = .error (.pae k e)) :
    assignAux env sroot sref .none (fuel + 1) st target orig vs = (st', .error (.pae k e)) := by
  simp only [assignAux, hl, hf, hv, hfe]
  rfl

theorem assignAux_fetch_pae_tail {env : MEnv} {sroot : Bool} {sref : Val} {kind : String} {fuel : Nat}
    {st st' : St} {target : Val} {orig : List Step} {vs : ValSpec} {op : String} {arg val : Val}
    {k : Nat} {e : PyExc}
    (hl : orig.getLast? = some (op, arg)) (hf : finalOk op = true)
    (hv : evalVal env st target vs = (st', .ok val))
    (hfe : fetch env st'.heap orig.dropLast 0 (if sroot then sref else target) = .error (.pae k e)) :
    assignAux env sroot sref (.factory kind) (fuel + 1) st target orig vs =
      match tailRun env sref kind fuel st' (orig.drop (k + 1)) val with
      | (st2, .error e') => (st2, .error e')
      | (st2, .ok val') =>
        match orig[k]? with
        | none => (st2, .error .badSpec)
        | some (op', arg') =>
          match fetch env st2.heap (orig.take k) 0 (if sroot then sref else target) with
          | .error e' => (st2, .error e')
          | .ok nest' =>
            match applyForEach (stars (orig.take k)) nest' (assignOp env op' arg' val') st2 with
            | (st3, .ok _) => (st3, .ok target)
            | (st3, .error e') => (st3, .error e') := by
  rw [assignAux_fetch_pae hl hf hv hfe]
  simp only [tailRun]
  cases hcf : callFactory kind st' with
  | mk st1 r => cases r <;> rfl

end Glom.C11
