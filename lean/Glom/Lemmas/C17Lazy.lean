import Glom.Lemmas.C17
/-
  C17 — closed-form laziness bounds: how many upstream items a stage needs for `n` outputs,
  for the stages whose lookahead does not depend on the data, and for their compositions.
-/
namespace Glom.C17

/-- `b n` upstream items (or the end of the upstream) are enough for the stage to determine
    `n` outputs (or its own end) -/
def StageBound (k : Kind) (b : Nat → Nat) : Prop :=
  ∀ (d : Tr) (n : Nat), d.answers (b n) = true → (stageTr k d).answers n = true

/-- on an open-ended input: `n` items are determined, or the stage has ended -/
def Enough (t : Tr) (n : Nat) : Prop := n ≤ t.items.length ∨ t.term.isMore = false

theorem Enough.answers {t : Tr} {n : Nat} (h : Enough t n) : t.answers n = true := by
  rcases h with h | h
  · simp [Tr.answers, h]
  · simp [Tr.answers, h]

theorem enough_prepend {o : List V} {t : Tr} {n : Nat} (h : Enough t (n - o.length)) : Enough (t.prepend o) n := by
  rcases h with h | h
  · left; simp only [Tr.prepend, List.length_append]; omega
  · right; exact h

theorem enough_zero (t : Tr) : Enough t 0 := Or.inl (Nat.zero_le _)

theorem stageBound_of_fold (k : Kind) (b : Nat → Nat)
    (h : ∀ (us : List V) (n : Nat), b n ≤ us.length → Enough (foldCore (Core.init k) us .more) n) : StageBound k b := by
  intro d n hd
  rcases hm : d.term.isMore with _ | _
  · -- the input has ended: so has the stage
    have : (stageTr k d).term.isMore = false := by
      rcases hs : (stageTr k d).term.isMore with _ | _
      · rfl
      · rw [stageTr_isMore k d hs] at hm; cases hm
    simp [Tr.answers, this]
  · have hlen : b n ≤ d.items.length := by
      simp only [Tr.answers, hm, Bool.not_true, Bool.or_false, decide_eq_true_eq] at hd
      exact hd
    simp only [stageTr]
    by_cases hi : k.initStopped = true
    · simp only [hi, ↓reduceIte]
      rcases k.initErr with _ | e <;> simp [Tr.answers, Term.isMore]
    · simp only [hi, Bool.false_eq_true, ↓reduceIte]
      rw [isMore_eq hm]
      exact (h d.items n hlen).answers

/-! ### one output per input: `Iter(subspec)` without SKIP, `map`, `takewhile` -/

theorem enough_map (f : Fn) : ∀ (us : List V) (c : Core), c.kind = .map f → Enough (foldCore c us .more) us.length := by
  intro us
  induction us with
  | nil => intro c _; exact enough_zero _
  | cons u us ih =>
    intro c hc
    cases hy : f u with
    | error e => right; simp [foldCore, Core.push, hc, hy, Term.isMore]
    | ok y =>
      have : foldCore c (u :: us) .more = (foldCore c us .more).prepend [y] := by
        simp [foldCore, Core.push, hc, hy]
      rw [this]
      exact enough_prepend (by simpa using ih c hc)

theorem enough_takewhile (key : Fn) : ∀ (us : List V) (c : Core), c.kind = .takewhile key →
    Enough (foldCore c us .more) us.length := by
  intro us
  induction us with
  | nil => intro c _; exact enough_zero _
  | cons u us ih =>
    intro c hc
    cases hy : key u with
    | error e => right; simp [foldCore, Core.push, hc, hy, Term.isMore]
    | ok y =>
      by_cases ht : y.truthy = true
      · have : foldCore c (u :: us) .more = (foldCore c us .more).prepend [u] := by
          simp [foldCore, Core.push, hc, hy, ht]
        rw [this]
        exact enough_prepend (by simpa using ih c hc)
      · right; simp [foldCore, Core.push, hc, hy, ht, Term.isMore]

/-- `Iter(subspec)`: the subspec never answers SKIP -/
def NoSkip (sub : BaseFn) : Prop := ∀ x, sub x ≠ .ok .skip

theorem enough_base (sub : BaseFn) (s : Option V) (hns : NoSkip sub) : ∀ (us : List V) (c : Core),
    c.kind = .base sub s → Enough (foldCore c us .more) us.length := by
  intro us
  induction us with
  | nil => intro c _; exact enough_zero _
  | cons u us ih =>
    intro c hc
    cases hy : sub u with
    | error e => right; simp [foldCore, Core.push, hc, hy, Term.isMore]
    | ok y =>
      cases y with
      | skip => exact absurd hy (hns u)
      | stop => right; simp [foldCore, Core.push, hc, hy, Term.isMore]
      | val v =>
        have hgo : foldCore c (u :: us) .more = (foldCore c us .more).prepend [v] ∨
            (foldCore c (u :: us) .more).term.isMore = false := by
          cases s with
          | none => left; simp [foldCore, Core.push, hc, hy]
          | some sv =>
            by_cases hv : v.is sv = true
            · right; simp [foldCore, Core.push, hc, hy, hv, Term.isMore]
            · left; simp [foldCore, Core.push, hc, hy, hv]
        rcases hgo with h | h
        · rw [h]; exact enough_prepend (by simpa using ih c hc)
        · right; exact h

/-! ### `chunked(size)`: `n * size` items for `n` chunks -/

theorem enough_chunked (size : Nat) (fill : Option V) : ∀ (us : List V) (c : Core) (n : Nat),
    c.kind = .chunked size fill → c.buf.length < size → n * size ≤ us.length + c.buf.length →
    Enough (foldCore c us .more) n := by
  intro us
  induction us with
  | nil =>
    intro c n _ hb hn
    cases n with
    | zero => exact enough_zero _
    | succ n =>
      exfalso
      simp only [List.length_nil, Nat.zero_add] at hn
      have : size ≤ (n + 1) * size := Nat.le_mul_of_pos_left _ (Nat.succ_pos n)
      omega
  | cons u us ih =>
    intro c n hc hb hn
    by_cases hfull : size ≤ c.buf.length + 1
    · have : foldCore c (u :: us) .more = (foldCore { c with buf := [] } us .more).prepend [.list (c.buf ++ [u])] := by
        simp [foldCore, Core.push, hc, hfull, Tr.prepend]
      rw [this]
      apply enough_prepend
      cases n with
      | zero => exact enough_zero _
      | succ n =>
        simp only [List.length_cons] at hn
        have hs : c.buf.length + 1 = size := by omega
        have hm : (n + 1) * size = n * size + size := Nat.succ_mul n size
        refine ih { c with buf := [] } n hc (by simp; omega) ?_
        simp only [List.length_nil, Nat.add_zero]
        omega
    · have : foldCore c (u :: us) .more = (foldCore { c with buf := c.buf ++ [u] } us .more).prepend [] := by
        simp [foldCore, Core.push, hc, hfull, Tr.prepend]
      rw [this]
      apply enough_prepend
      simp only [List.length_cons, List.length_nil, Nat.sub_zero] at hn ⊢
      exact ih { c with buf := c.buf ++ [u] } n hc (by simp; omega) (by simp; omega)

/-! ### `windowed(size)`: `n + size - 1` items for `n` windows -/

theorem enough_windowed (size : Nat) : ∀ (us : List V) (c : Core) (n : Nat),
    c.kind = .windowed size → c.buf.length < size → (n = 0 ∨ n + size - 1 ≤ us.length + c.buf.length) →
    Enough (foldCore c us .more) n := by
  intro us
  induction us with
  | nil =>
    intro c n _ hb hn
    rcases hn with rfl | hn
    · exact enough_zero _
    · cases n with
      | zero => exact enough_zero _
      | succ n => simp only [List.length_nil, Nat.zero_add] at hn; omega
  | cons u us ih =>
    intro c n hc hb hn
    rcases hn with rfl | hn
    · exact enough_zero _
    by_cases hfull : size ≤ c.buf.length + 1
    · have : foldCore c (u :: us) .more =
          (foldCore { c with buf := (c.buf ++ [u]).tail } us .more).prepend [.tup (c.buf ++ [u])] := by
        simp [foldCore, Core.push, hc, hfull, Tr.prepend]
      rw [this]
      apply enough_prepend
      simp only [List.length_cons] at hn ⊢
      refine ih { c with buf := (c.buf ++ [u]).tail } (n - 1) hc (by simp; omega) ?_
      by_cases hn0 : n - 1 = 0
      · left; exact hn0
      · right; simp only [List.length_tail, List.length_append, List.length_singleton]; omega
    · have : foldCore c (u :: us) .more = (foldCore { c with buf := c.buf ++ [u] } us .more).prepend [] := by
        simp [foldCore, Core.push, hc, hfull, Tr.prepend]
      rw [this]
      apply enough_prepend
      simp only [List.length_cons, List.length_nil, Nat.sub_zero] at hn ⊢
      exact ih { c with buf := c.buf ++ [u] } n hc (by simp; omega) (Or.inr (by simp; omega))

/-! ### `slice(start, stop, step)`: `start + (n - 1) * step + 1` items for `n` outputs -/

theorem enough_slice (a : Nat) (stop : Option Nat) (step : Nat) (hstep : 1 ≤ step) : ∀ (us : List V) (c : Core) (n : Nat),
    c.kind = .slice a stop step → c.cnt ≤ c.nxt → (n = 0 ∨ (c.nxt - c.cnt) + (n - 1) * step + 1 ≤ us.length) →
    Enough (foldCore c us .more) n := by
  intro us
  induction us with
  | nil =>
    intro c n _ _ hn
    rcases hn with rfl | hn
    · exact enough_zero _
    · simp at hn
  | cons u us ih =>
    intro c n hc hle hn
    rcases hn with rfl | hn
    · exact enough_zero _
    simp only [List.length_cons] at hn
    by_cases hlt : c.cnt < c.nxt
    · -- an item that is skipped
      cases stop with
      | none =>
        have : foldCore c (u :: us) .more = (foldCore { c with cnt := c.cnt + 1 } us .more).prepend [] := by
          simp [foldCore, Core.push, hc, hlt, sliceStatus, Tr.prepend]
        rw [this]
        apply enough_prepend
        simp only [List.length_nil, Nat.sub_zero]
        exact ih { c with cnt := c.cnt + 1 } n hc (by simp; omega) (Or.inr (by simp; omega))
      | some s =>
        by_cases hstop : c.cnt + 1 ≥ c.nxt ∧ c.cnt + 1 ≥ s
        · right; simp [foldCore, Core.push, hc, hlt, sliceStatus, hstop, Term.isMore]
        · have : foldCore c (u :: us) .more = (foldCore { c with cnt := c.cnt + 1 } us .more).prepend [] := by
            simp [foldCore, Core.push, hc, hlt, sliceStatus, hstop, Tr.prepend]
          rw [this]
          apply enough_prepend
          simp only [List.length_nil, Nat.sub_zero]
          exact ih { c with cnt := c.cnt + 1 } n hc (by simp; omega) (Or.inr (by simp; omega))
    · -- an item that is yielded
      have heq : c.cnt = c.nxt := by omega
      have hm : n - 1 = 0 ∨ (n - 1) * step = (n - 1 - 1) * step + step := by
        by_cases h0 : n - 1 = 0
        · left; exact h0
        · right
          have : n - 1 = (n - 1 - 1) + 1 := by omega
          rw [this, Nat.succ_mul]; simp
      cases stop with
      | none =>
        have : foldCore c (u :: us) .more =
            (foldCore { c with cnt := c.cnt + 1, nxt := c.nxt + step } us .more).prepend [u] := by
          simp [foldCore, Core.push, hc, hlt, sliceStatus, Tr.prepend]
        rw [this]
        apply enough_prepend
        simp only [List.length_singleton]
        refine ih { c with cnt := c.cnt + 1, nxt := c.nxt + step } (n - 1) hc (by simp; omega) ?_
        rcases hm with h0 | hm
        · left; exact h0
        · right; simp only; omega
      | some s =>
        let n' := if c.nxt + step > s then s else c.nxt + step
        by_cases hstop : c.cnt + 1 ≥ n' ∧ c.cnt + 1 ≥ s
        · right
          simp only [n'] at hstop
          simp [foldCore, Core.push, hc, hlt, sliceStatus, hstop, Term.isMore]
        · have hn' : c.cnt + 1 ≤ n' := by
            simp only [n'] at hstop ⊢
            split
            · next hcap => simp only [hcap, ↓reduceIte] at hstop; omega
            · omega
          have hn'le : n' ≤ c.nxt + step := by simp only [n']; split <;> omega
          have : foldCore c (u :: us) .more =
              (foldCore { c with cnt := c.cnt + 1, nxt := n' } us .more).prepend [u] := by
            simp only [n'] at hstop
            simp [foldCore, Core.push, hc, hlt, sliceStatus, hstop, Tr.prepend, n']
          rw [this]
          apply enough_prepend
          simp only [List.length_singleton]
          refine ih { c with cnt := c.cnt + 1, nxt := n' } (n - 1) hc (by simpa using hn') ?_
          rcases hm with h0 | hm
          · left; exact h0
          · right; simp only; omega

/-! ### the bounds, stage by stage -/

theorem stageBound_base (sub : BaseFn) (s : Option V) (hns : NoSkip sub) : StageBound (.base sub s) id :=
  stageBound_of_fold _ _ fun us n hn => by
    rcases enough_base sub s hns us (Core.init (.base sub s)) rfl with h | h
    · left; simp only [id] at hn; omega
    · right; exact h

theorem stageBound_map (f : Fn) : StageBound (.map f) id :=
  stageBound_of_fold _ _ fun us n hn => by
    rcases enough_map f us (Core.init (.map f)) rfl with h | h
    · left; simp only [id] at hn; omega
    · right; exact h

theorem stageBound_takewhile (key : Fn) : StageBound (.takewhile key) id :=
  stageBound_of_fold _ _ fun us n hn => by
    rcases enough_takewhile key us (Core.init (.takewhile key)) rfl with h | h
    · left; simp only [id] at hn; omega
    · right; exact h

theorem stageBound_chunked (size : Nat) (fill : Option V) (hsize : 1 ≤ size) :
    StageBound (.chunked size fill) (· * size) :=
  stageBound_of_fold _ _ fun us n hn =>
    enough_chunked size fill us (Core.init (.chunked size fill)) n rfl (by simp [Core.init]; omega)
      (by simp [Core.init]; exact hn)

theorem stageBound_windowed (size : Nat) (hsize : 1 ≤ size) :
    StageBound (.windowed size) (fun n => if n = 0 then 0 else n + size - 1) :=
  stageBound_of_fold _ _ fun us n hn =>
    enough_windowed size us (Core.init (.windowed size)) n rfl (by simp [Core.init]; omega)
      (by
        by_cases h0 : n = 0
        · left; exact h0
        · right; simp only [h0, ↓reduceIte] at hn; simp [Core.init]; omega)

theorem stageBound_slice (a : Nat) (stop : Option Nat) (step : Nat) (hstep : 1 ≤ step) :
    StageBound (.slice a stop step) (fun n => if n = 0 then 0 else a + (n - 1) * step + 1) :=
  stageBound_of_fold _ _ fun us n hn =>
    enough_slice a stop step hstep us (Core.init (.slice a stop step)) n rfl (by simp [Core.init])
      (by
        by_cases h0 : n = 0
        · left; exact h0
        · right; simp only [h0, ↓reduceIte] at hn; simp [Core.init]; exact hn)

/-! ### compositions -/

/-- the bound of a pipeline: the stages' bounds composed, the FIRST stage's bound applied last
    (`n` outputs of the last stage need `b_last n` outputs of the stage before it, …) -/
def pipeBound : List (Nat → Nat) → Nat → Nat
  | [], n => n
  | b :: bs, n => b (pipeBound bs n)

/-- stage by stage: `kinds[i]` has the bound `bs[i]` -/
inductive StageBounds : List Kind → List (Nat → Nat) → Prop
  | nil : StageBounds [] []
  | cons {k : Kind} {b : Nat → Nat} {ks : List Kind} {bs : List (Nat → Nat)} :
      StageBound k b → StageBounds ks bs → StageBounds (k :: ks) (b :: bs)

theorem pipeBound_answers : ∀ (ks : List Kind) (bs : List (Nat → Nat)), StageBounds ks bs →
    ∀ (d : Tr) (n : Nat), d.answers (pipeBound bs n) = true → (pipeTr ks d).answers n = true := by
  intro ks bs h
  induction h with
  | nil => intro d n hd; exact hd
  | cons hb _ ih => intro d n hd; exact ih _ n (hb d _ hd)

theorem stageBounds_take : ∀ (ks : List Kind) (bs : List (Nat → Nat)), StageBounds ks bs → ∀ m,
    StageBounds (ks.take m) (bs.take m) := by
  intro ks bs h
  induction h with
  | nil => intro m; simp; exact .nil
  | cons hb _ ih =>
    intro m
    cases m with
    | zero => exact .nil
    | succ m => exact .cons hb (ih m)

theorem answers_mono {d : Tr} {a b : Nat} (h : d.answers b = true) (hab : a ≤ b) : d.answers a = true := by
  simp only [Tr.answers, Bool.or_eq_true, decide_eq_true_eq] at h ⊢
  rcases h with h | h
  · left; omega
  · right; exact h

theorem pfx_answers (src : Src) (N : Nat) : (src.pfx N).answers N = true := by
  cases src with
  | fin xs tail =>
    simp only [Src.pfx]
    split
    · cases tail <;> simp [Tr.answers, Term.isMore]
    · simp [Tr.answers]; omega
  | inf f => simp [Src.pfx, Tr.answers]

end Glom.C17
