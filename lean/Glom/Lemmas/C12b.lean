import Glom.Lemmas.C12
import Glom.Lemmas.C11i
/-
  Helper lemmas for C11 / C12: the algebra of one step — delete after assign.
  Deleting the slot that was just assigned is the deletion of the original slot where there was
  one, and restores the original cell exactly where the assignment had created the slot.
-/
namespace Glom.C12
open Glom Glom.Mut Glom.C11

theorem delEntry_setEntry (k v : Val) : ∀ es : List (Val × Val),
    delEntry (setEntry es k v) k = some ((delEntry es k).getD es) := by
  intro es
  induction es with
  | nil => simp [setEntry, delEntry, pyKeyEq_refl]
  | cons e r ih =>
    obtain ⟨k', v'⟩ := e
    simp only [setEntry]
    by_cases hk : pyKeyEq k' k = true
    · simp [hk, delEntry]
    · simp only [hk, Bool.false_eq_true, if_false, delEntry, ih, Option.map_some]
      cases delEntry r k <;> simp

theorem delAttr_setAttr (n : String) (v : Val) : ∀ as : List (String × Val),
    delAttr (setAttr as n v) n = some ((delAttr as n).getD as) := by
  intro as
  induction as with
  | nil => simp [setAttr, delAttr]
  | cons e r ih =>
    obtain ⟨n', v'⟩ := e
    simp only [setAttr]
    by_cases hk : (n' == n) = true
    · simp [hk, delAttr]
    · simp only [hk, Bool.false_eq_true, if_false, delAttr, ih, Option.map_some]
      cases delAttr r n <;> simp

theorem set_self {h : Heap} {a : Nat} {o : Obj} (ha : h[a]? = some o) : h.set a o = h := by
  apply List.ext_getElem?
  intro i
  by_cases hi : a = i
  · subst hi
    have hal : a < h.length := (List.getElem?_eq_some_iff.1 ha).1
    rw [List.getElem?_set_self hal, ha]
  · rw [List.getElem?_set_ne hi]

/-- the two statements about a deletion primitive applied after the matching assignment primitive -/
abbrev AfterAssign (h : Heap) (r0 r1 : Except PyExc Wr) : Prop :=
  (∀ w0, r0 = .ok w0 → ∃ w', r1 = .ok w' ∧ w'.heap = w0.heap ∧ w'.hidden = w0.hidden) ∧
  (∀ e, r0 = .error e → missingExc e = true → ∃ w', r1 = .ok w' ∧ w'.heap = h ∧ w'.hidden = false)

theorem pyDelitem_after {env : MEnv} {h : Heap} {d key v : Val} {w1 : Wr} (hk : ∀ a, key ≠ .ref a)
    (hsc : isScope env h d = false) (h1 : pySetitem env h d key v = .ok w1) :
    AfterAssign h (pyDelitem env h d key) (pyDelitem env w1.heap d key) := by
  cases d with
  | ref a =>
    simp only [pySetitem] at h1
    simp only [pyDelitem]
    cases ho : h[a]? with
    | none => simp [ho] at h1
    | some o =>
      have hal : a < h.length := (List.getElem?_eq_some_iff.1 ho).1
      cases o with
      | dict c es =>
        simp only [ho] at h1 ⊢
        have hscope : env.flag c "scope" = false := by simpa [isScope, ho, Obj.cls] using hsc
        by_cases hf : env.flag c "raise_setitem" = true
        · simp [hf] at h1
        · simp only [hf, Bool.false_eq_true, if_false] at h1
          by_cases hh : (!key.hashable h) = true
          · simp [hh] at h1
          · simp only [hh, Bool.false_eq_true, if_false] at h1
            injection h1 with h1
            subst h1
            simp only [List.getElem?_set_self hal, hashable_scalar (h := h) hk, hh, Bool.false_eq_true,
              if_false, delEntry_setEntry, hscope, List.set_set]
            by_cases hg : env.flag c "raise_delitem" = true
            · simp only [hg, if_true]
              refine ⟨(fun w0 hw => by cases hw), fun e he hm => ?_⟩
              injection he with he; subst he; simp [missingExc, exc] at hm
            · simp only [hg, Bool.false_eq_true, if_false]
              cases hde : delEntry es key with
              | none =>
                refine ⟨(fun w0 hw => by cases hw), fun e _ _ => ⟨_, rfl, ?_, rfl⟩⟩
                simp [set_self ho]
              | some es' =>
                refine ⟨fun w0 hw => ?_, fun e he _ => by cases he⟩
                injection hw with hw; subst hw
                exact ⟨_, rfl, by simp, rfl⟩
      | list c xs =>
        simp only [ho] at h1 ⊢
        by_cases hf : env.flag c "raise_setitem" = true
        · simp [hf] at h1
        · simp only [hf, Bool.false_eq_true, if_false] at h1
          cases hi : asIndex key with
          | none => simp [hi] at h1
          | some i =>
            simp only [hi] at h1 ⊢
            cases hj : pyIdx xs.length i with
            | none => simp [hj] at h1
            | some j =>
              simp only [hj] at h1 ⊢
              injection h1 with h1
              subst h1
              simp only [List.getElem?_set_self hal, hi, List.length_set, hj, List.set_set,
                List.eraseIdx_set_eq]
              by_cases hg : env.flag c "raise_delitem" = true
              · simp only [hg, if_true]
                refine ⟨(fun w0 hw => by cases hw), fun e he hm => ?_⟩
                injection he with he; subst he; simp [missingExc, exc] at hm
              · simp only [hg, Bool.false_eq_true, if_false]
                refine ⟨fun w0 hw => ?_, fun e he _ => by cases he⟩
                injection hw with hw; subst hw
                exact ⟨_, rfl, rfl, rfl⟩
      | tuple c xs => simp [ho] at h1
      | set c xs => simp [ho] at h1
      | inst c as => simp [ho] at h1
  | _ => simp [pySetitem] at h1

theorem pyDelattr_after {env : MEnv} {h : Heap} {d name v : Val} {w1 : Wr}
    (hsc : isScope env h d = false) (hnh : w1.hidden = false) (h1 : pySetattr env h d name v = .ok w1) :
    AfterAssign h (pyDelattr env h d name) (pyDelattr env w1.heap d name) := by
  cases name with
  | str n =>
    cases d with
    | ref a =>
      simp only [pySetattr] at h1
      simp only [pyDelattr]
      cases ho : h[a]? with
      | none => simp [ho] at h1
      | some o =>
        have hal : a < h.length := (List.getElem?_eq_some_iff.1 ho).1
        have hscope : env.flag o.cls "scope" = false := by simpa [isScope, ho] using hsc
        cases o with
        | inst c as =>
          simp only [ho] at h1 ⊢
          by_cases hf : env.flag c "raise_setattr" = true
          · simp [hf] at h1
          · simp only [hf, Bool.false_eq_true, if_false] at h1
            by_cases hr : env.flag c ("ro:" ++ n) = true
            · simp [hr] at h1
            · simp only [hr, Bool.false_eq_true, if_false] at h1
              injection h1 with h1
              subst h1
              simp only [List.getElem?_set_self hal, hr, Bool.false_eq_true, if_false, delAttr_setAttr,
                List.set_set]
              by_cases hg : env.flag c "raise_delattr" = true
              · simp only [hg, if_true]
                refine ⟨(fun w0 hw => by cases hw), fun e he hm => ?_⟩
                injection he with he; subst he; simp [missingExc, exc] at hm
              · simp only [hg, Bool.false_eq_true, if_false]
                cases hde : delAttr as n with
                | none =>
                  refine ⟨(fun w0 hw => by cases hw), fun e _ _ => ⟨_, rfl, ?_, rfl⟩⟩
                  simp [set_self ho]
                | some as' =>
                  refine ⟨fun w0 hw => ?_, fun e he _ => by cases he⟩
                  injection hw with hw; subst hw
                  exact ⟨_, rfl, by simp, rfl⟩
        | dict c es =>
          simp only [ho, Obj.cls] at h1 hscope
          simp only [hscope, Bool.false_eq_true, if_false] at h1
          by_cases hd : env.flag c "has_dict" = true
          · simp only [hd, if_true] at h1
            injection h1 with h1; subst h1; simp at hnh
          · simp [hd] at h1
        | list c xs =>
          simp only [ho, Obj.cls] at h1 hscope
          simp only [hscope, Bool.false_eq_true, if_false] at h1
          by_cases hd : env.flag c "has_dict" = true
          · simp only [hd, if_true] at h1
            injection h1 with h1; subst h1; simp at hnh
          · simp [hd] at h1
        | tuple c xs =>
          simp only [ho, Obj.cls] at h1 hscope
          simp only [hscope, Bool.false_eq_true, if_false] at h1
          by_cases hd : env.flag c "has_dict" = true
          · simp only [hd, if_true] at h1
            injection h1 with h1; subst h1; simp at hnh
          · simp [hd] at h1
        | set c xs =>
          simp only [ho, Obj.cls] at h1 hscope
          simp only [hscope, Bool.false_eq_true, if_false] at h1
          by_cases hd : env.flag c "has_dict" = true
          · simp only [hd, if_true] at h1
            injection h1 with h1; subst h1; simp at hnh
          · simp [hd] at h1
    | _ => simp [pySetattr] at h1
  | _ => simp [pySetattr] at h1

theorem pyDelSeqItem_after {env : MEnv} {h : Heap} {d idx v : Val} {w1 : Wr}
    (hsc : isScope env h d = false) (h1 : pySetSeqItem env h d idx v = .ok w1) :
    AfterAssign h (pyDelSeqItem env h d idx) (pyDelSeqItem env w1.heap d idx) := by
  simp only [pySetSeqItem] at h1
  simp only [pyDelSeqItem, pyInt_congr h w1.heap]
  cases hi : pyInt h idx with
  | error e => simp [hi] at h1
  | ok i =>
    simp only [hi] at h1 ⊢
    exact pyDelitem_after (by intro a; simp) hsc h1

/-- the `assign` and `delete` handlers of an object's type are a pair (item / sequence item /
    attribute) — true of the default registrations -/
def adPair (a d : String) : Bool :=
  (a == "setitem" && d == "delitem") || (a == "_set_sequence_item" && d == "_del_sequence_item") ||
    (a == "setattr" && d == "delattr")

/-- **delete after assign, one step**: on the object `d`, deleting the slot `(op, arg)` right after a
    (visible) assignment to it gives the heap of deleting the original slot where `del` on the
    original succeeds, and gives back the original heap exactly where the original had no such
    slot (`del` on the original raises KeyError / AttributeError: the assignment created it) -/
theorem refDelOp_after_assign {env : MEnv} {h : Heap} {op : String} {d arg v : Val} {w1 : Wr}
    (hk : ∀ a, arg ≠ .ref a) (hsc : isScope env h d = false) (hnh : w1.hidden = false)
    (hpair : ∀ ha hd, nearestHandler env.t.ct env.assignReg (d.clsName h) = some ha →
      nearestHandler env.t.ct env.deleteReg (d.clsName h) = some hd → adPair ha hd = true)
    (hdel : op = "P" → (nearestHandler env.t.ct env.deleteReg (d.clsName h)).isSome)
    (h1 : refAssignOp env h op d arg v = some (.ok w1)) :
    ∃ r0 r1, refDelOp env h op d arg = some r0 ∧ refDelOp env w1.heap op d arg = some r1 ∧
      AfterAssign h r0 r1 := by
  unfold refAssignOp at h1
  unfold refDelOp
  split at h1
  · rename_i hop
    injection h1 with h1
    simp only [hop, if_true]
    exact ⟨_, _, rfl, rfl, pyDelitem_after hk hsc h1⟩
  · split at h1
    · rename_i hop1 hop
      injection h1 with h1
      simp only [hop1, hop, if_true, Bool.false_eq_true, if_false]
      exact ⟨_, _, rfl, rfl, pyDelattr_after hsc hnh h1⟩
    · split at h1
      · rename_i hop1 hop2 hop
        have hopP : op = "P" := by simpa using hop
        cases hn : nearestHandler env.t.ct env.assignReg (d.clsName h) with
        | none => simp [hn] at h1
        | some na =>
          simp only [hn, Option.map_some] at h1
          injection h1 with h1
          have hcls : ∀ x, Val.clsName w1.heap x = Val.clsName h x := by
            intro x
            unfold applyAssignHandler at h1
            split at h1
            · exact pySetitem_cls h1 x
            · split at h1
              · exact pySetSeqItem_cls h1 x
              · split at h1
                · exact pySetattr_cls h1 x
                · contradiction
          cases hnd : nearestHandler env.t.ct env.deleteReg (d.clsName h) with
          | none => have := hdel hopP; simp [hnd] at this
          | some nd =>
            have hp := hpair na nd hn hnd
            simp only [hop1, hop2, hop, if_true, Bool.false_eq_true, if_false, hcls, hnd, Option.map_some]
            refine ⟨_, _, rfl, rfl, ?_⟩
            simp only [adPair, Bool.or_eq_true, Bool.and_eq_true, beq_iff_eq] at hp
            rcases hp with (⟨rfl, rfl⟩ | ⟨rfl, rfl⟩) | ⟨rfl, rfl⟩
            · simp only [applyAssignHandler, beq_self_eq_true, if_true] at h1
              simp only [applyDeleteHandler, beq_self_eq_true, if_true]
              exact pyDelitem_after hk hsc h1
            · simp [applyAssignHandler] at h1
              simp only [applyDeleteHandler]
              simp
              exact pyDelSeqItem_after hsc h1
            · simp [applyAssignHandler] at h1
              simp only [applyDeleteHandler]
              simp
              exact pyDelattr_after hsc hnh h1
      · contradiction

/-- a wildcard-free assignment of an evaluated value whose parent exists is the final step's primitive on the parent -/
theorem assign_exact_val {env : MEnv} (hwf : C11.WF env = true) (hc : classesOK env = true)
    {h : Heap} {target : Val} {sroot : Bool} {orig : List Step} {missing : Missing} (v : Val)
    (hs : C01.wfSteps orig = true) (sref d : Val) (op : String) (arg : Val)
    (hl : orig.getLast? = some (op, arg))
    (hm : matchesOf env h orig.dropLast 0 (if sroot then sref else target) = .ok [d]) :
    assign env sroot sref missing h target orig (.val v) =
      match refAssignOp env h op d arg v with
      | some (.ok w) => (({ heap := h } : St).wrote w, .ok target)
      | some (.error e) => ({ heap := h }, .error (assignErr env op arg e))
      | none => ({ heap := h }, .error .unregistered) := by
  have hlastw : C01.wfSteps [(op, arg)] = true := (wfSteps_iff orig).1 hs _ (getLast?_mem hl)
  have hfin : finalOk op = true := finalOk_of_wfSteps hlastw
  have hev : evalVal env ({ heap := h } : St) target (.val v) = ({ heap := h }, .ok v) := rfl
  have hpw : C01.wfSteps orig.dropLast = true := wfSteps_sub hs (fun s hs' => mem_of_mem_dropLast hs')
  have hpns := wfSteps_noStar hpw
  have hspec := fetch_spec hwf hc h orig.dropLast (wfSteps_wfStar hpw) (.inl hpns) 0
    (if sroot then sref else target)
  rw [hm] at hspec
  obtain ⟨nest, hf, hu, hlv⟩ := hspec
  rw [stars_zero hpns] at hu
  obtain ⟨d', rfl⟩ := uniform0_leaf hu
  simp only [Nest.leaves] at hlv
  injection hlv with hlv _
  subst hlv
  unfold assign
  rw [assignAux_fetch_ok hl hfin hev hf]
  simp only [stars_zero hpns, applyForEach, beq_self_eq_true, if_true]
  rw [assignOp_eq hwf hfin]
  cases refAssignOp env h op d' arg v with
  | none => rfl
  | some r => cases r <;> rfl

/-- the prescription for a wildcard-free delete whose parent exists and whose `del` succeeds -/
theorem refDelete_ok_of {env : MEnv} {h : Heap} {root : Val} {orig : List Step} {ignore : Bool}
    {op : String} {arg d : Val} {w : Wr} (hl : orig.getLast? = some (op, arg)) (hfin : finalOk op = true)
    (hns : hasStar orig.dropLast = false) (hm : matchesOf env h orig.dropLast 0 root = .ok [d])
    (hr : refDelOp env h op d arg = some (.ok w)) :
    refDelete env h root orig ignore = .ok w.heap w.hidden := by
  simp [refDelete, hl, hfin, hm, hns, hr]

end Glom.C12
