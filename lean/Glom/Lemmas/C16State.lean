import Glom.Model.C16State
/-
  C16 — with quiet state facts a history is the list of the stand-alone evaluations.
-/
set_option linter.unusedSimpArgs false
set_option linter.unusedVariables false

namespace Glom.C16

theorem aggCalls_runtime (oid : Nat) (a : Agg) : ∀ c ∈ aggCalls oid a, runtimeMethods.contains c.1 = true := by
  cases a <;> simp [aggCalls, runtimeMethods]

theorem callsIn_runtime : ∀ (g : GSpec), ∀ c ∈ callsIn g, runtimeMethods.contains c.1 = true
  | .agg oid a, c, hc => by
    simp only [callsIn, List.mem_cons] at hc
    rcases hc with rfl | hc
    · simp [runtimeMethods]
    · exact aggCalls_runtime oid a c hc
  | .fn _, c, hc => by simp only [callsIn, List.mem_singleton] at hc; subst hc; decide
  | .list .., c, hc => by simp only [callsIn, List.mem_singleton] at hc; subst hc; decide
  | .dict _ _ _ sub, c, hc => by
    simp only [callsIn, List.mem_cons] at hc
    rcases hc with rfl | hc
    · simp [runtimeMethods]
    · exact callsIn_runtime sub c hc
  | .limit _ _ sub, c, hc => by
    simp only [callsIn, List.mem_cons] at hc
    rcases hc with rfl | hc
    · simp [runtimeMethods]
    · exact callsIn_runtime sub c hc
  | .foldG _ _ _ g, c, hc => by
    simp only [callsIn, List.mem_cons] at hc
    rcases hc with rfl | rfl | rfl | rfl | rfl | rfl | hc
    · simp [runtimeMethods]
    · simp [runtimeMethods]
    · simp [runtimeMethods]
    · simp [runtimeMethods]
    · simp [runtimeMethods]
    · simp [runtimeMethods]
    · exact callsIn_runtime g c hc
  | .nested _ g, c, hc => by
    simp only [callsIn, List.mem_cons] at hc
    rcases hc with rfl | rfl | rfl | hc
    · simp [runtimeMethods]
    · simp [runtimeMethods]
    · simp [runtimeMethods]
    · exact callsIn_runtime g c hc

theorem callsOf_runtime (gid : Nat) (g : GSpec) : ∀ c ∈ callsOf gid g, runtimeMethods.contains c.1 = true := by
  intro c hc
  simp only [callsOf, List.mem_cons] at hc
  rcases hc with rfl | rfl | hc
  · simp [runtimeMethods]
  · simp [runtimeMethods]
  · exact callsIn_runtime g c hc

/-- no method that sets up an object runs during an evaluation -/
theorem init_not_runtime : ∀ m, initMethods.contains m = true → runtimeMethods.contains m = false := by
  intro m hm
  simp only [initMethods, List.contains_cons, List.contains_nil, Bool.or_false, Bool.or_eq_true, beq_iff_eq] at hm
  rcases hm with h | h | h | h | h | h | h | h <;> subst h <;> decide

theorem writesOf_quiet {sf : StateFacts} (hq : sf.quiet = true) {c : String × Nat}
    (hc : runtimeMethods.contains c.1 = true) : writesOf sf c = [] := by
  simp only [StateFacts.quiet, Bool.and_eq_true, List.all_eq_true, List.isEmpty_iff] at hq
  obtain ⟨⟨⟨hs, hg⟩, _⟩, _⟩ := hq
  have h1 : sf.selfWrites.filter (fun w => w.1 == c.1) = [] := by
    rw [List.filter_eq_nil_iff]
    intro w hw hwc
    have : w.1 = c.1 := by simpa using hwc
    have hi := init_not_runtime w.1 (hs w hw)
    rw [this, hc] at hi
    cases hi
  simp [writesOf, h1, hg]

theorem evalS_quiet {sf : StateFacts} (hq : sf.quiet = true) (gid : Nat) (g : GSpec) (items : List V) :
    evalS sf [] gid g items = (some (groupEval g items), []) := by
  have hw : (callsOf gid g).flatMap (writesOf sf) = [] := by
    rw [List.flatMap_eq_nil_iff]
    exact fun c hc => writesOf_quiet hq (callsOf_runtime gid g c hc)
  simp [evalS, hw]

theorem evalHistoryS_quiet {sf : StateFacts} (hq : sf.quiet = true) (gidOf : Nat → Nat) (specs : List GSpec)
    (targets : List (List V)) : ∀ evals,
    evalHistoryS sf gidOf specs targets evals [] = (evalHistory specs targets evals, []) := by
  intro evals
  induction evals with
  | nil => rfl
  | cons e es ih =>
    simp only [evalHistoryS, evalHistory, List.map_cons]
    cases hg : specs[e.1]? with
    | none => simp [ih, evalHistory]
    | some g =>
      cases ht : targets[e.2]? with
      | none => simp [ih, evalHistory]
      | some its => simp [evalS_quiet hq, ih, evalHistory]

end Glom.C16
