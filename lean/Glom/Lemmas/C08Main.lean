import Glom.Lemmas.C08
/-
  C08 — main induction: every probe the interpreter records carries the static
  (lexical) mode of its position.
-/
set_option linter.unusedSimpArgs false
set_option linter.unusedSectionVars false
namespace Glom.Interp
open ScopeAlg

section
variable {σ : Type} [ScopeAlg σ] [LawfulScope σ]

/-- the induction hypothesis on the recursive evaluator -/
def IH (rec : Rec σ) (fuel : Nat) : Prop :=
  ∀ s t (sc : σ), noRefF fuel s = true → Hoare (LogOK (annotF fuel (mode sc) s)) (rec s t sc)

/-- "`s` may be handed to `rec` in mode `m'`": it has no free Ref and its static probes lie in `A` -/
def PA (fuel : Nat) (m' : Mode) (A : List (Nat × Mode)) (s : Spec) : Prop :=
  noRefF fuel s = true ∧ ∀ x ∈ annotF fuel m' s, x ∈ A

theorem stepOK_of_ih {rec : Rec σ} {fuel} (h : IH rec fuel) (m' : Mode) (A : List (Nat × Mode)) :
    StepOK rec m' A (PA fuel m' A) := by
  intro s t sc hP hm
  have := h s t sc hP.1
  rw [hm] at this
  exact this.mono hP.2

theorem PA_of_mem_flatMap {fuel m'} {xs : List Spec} {s : Spec} (hs : s ∈ xs)
    (hno : xs.all (noRefF fuel) = true) {A} (hA : ∀ x ∈ xs.flatMap (annotF fuel m'), x ∈ A) :
    PA fuel m' A s :=
  ⟨List.all_eq_true.mp hno s hs, fun x hx => hA x (List.mem_flatMap.mpr ⟨s, hs, hx⟩)⟩

theorem mem_append_l {α} {x : α} {a b : List α} (h : x ∈ a) : x ∈ a ++ b := List.mem_append.mpr (Or.inl h)
theorem mem_append_r {α} {x : α} {a b : List α} (h : x ∈ b) : x ∈ a ++ b := List.mem_append.mpr (Or.inr h)

theorem PA_mono {fuel m' A B s} (h : PA fuel m' A s) (hs : ∀ x ∈ A, x ∈ B) : PA fuel m' B s :=
  ⟨h.1, fun x hx => hs x (h.2 x hx)⟩

theorem PA_self {fuel m' s} (hno : noRefF fuel s = true) : PA fuel m' (annotF fuel m' s) s :=
  ⟨hno, fun _ hx => hx⟩

theorem PA_opt {fuel m' A} {d : Option Spec} {s : Spec} (hd : d = some s)
    (hno : (optSpecs d).all (noRefF fuel) = true) (hA : ∀ x ∈ (optSpecs d).flatMap (annotF fuel m'), x ∈ A) :
    PA fuel m' A s := by
  subst hd
  exact PA_of_mem_flatMap (by simp [optSpecs]) hno hA

theorem PA_pairs {fuel m' A} {es : List (Spec × Spec)} {e : Spec × Spec} (he : e ∈ es)
    (hno : es.all (fun e => noRefF fuel e.1 && noRefF fuel e.2) = true)
    (hA : ∀ x ∈ es.flatMap (fun e => annotF fuel m' e.1 ++ annotF fuel m' e.2), x ∈ A) :
    PA fuel m' A e.1 ∧ PA fuel m' A e.2 := by
  have h1 := List.all_eq_true.mp hno e he
  simp only [Bool.and_eq_true] at h1
  exact ⟨⟨h1.1, fun x hx => hA x (List.mem_flatMap.mpr ⟨e, he, mem_append_l hx⟩)⟩,
         ⟨h1.2, fun x hx => hA x (List.mem_flatMap.mpr ⟨e, he, mem_append_r hx⟩)⟩⟩

theorem PA_kws {fuel m' A} {bs : List (String × Spec)} {b : String × Spec} (hb : b ∈ bs)
    (hno : bs.all (fun b => noRefF fuel b.2) = true)
    (hA : ∀ x ∈ bs.flatMap (fun b => annotF fuel m' b.2), x ∈ A) : PA fuel m' A b.2 :=
  ⟨List.all_eq_true.mp hno b hb, fun x hx => hA x (List.mem_flatMap.mpr ⟨b, hb, hx⟩)⟩

theorem withDefault_ok {p : Prims} {rec : Rec σ} {m A P} (hrec : StepOK rec m A P) (target : V)
    (dflt : Option Spec) (hd : ∀ d, dflt = some d → P d) (sc : σ) (hm : mode sc = m) (body : M V)
    (hb : Hoare (LogOK A) body) : Hoare (LogOK A) (withDefault p rec target dflt sc body) := by
  unfold withDefault
  apply Hoare.bind (logOK_rel _) (Hoare.attempt hb)
  intro r
  split
  · hauto
  · split
    · split
      · exact argVal_ok hrec target _ (hd _ rfl) sc hm
      · hauto
    · hauto

theorem glomit_ok (p : Prims) {rec : Rec σ} {fuel} (hIH : IH rec fuel) (spec : Spec) (target : V) (sc : σ)
    (hno : noRefF (fuel + 1) spec = true) :
    Hoare (LogOK (annotF (fuel + 1) (mode sc) spec)) (glomit p rec spec target sc) := by
  have S := fun m' A => stepOK_of_ih hIH m' A
  cases spec with
  | str _ => simp only [glomit]; hauto
  | lit _ => simp only [glomit]; hauto
  | tuple _ => simp only [glomit]; hauto
  | list _ => simp only [glomit]; hauto
  | dict o es => simp only [glomit]; hauto
  | set f xs => simp only [glomit]; hauto
  | fn n k => simp only [glomit]; hauto
  | ty _ => simp only [glomit]; hauto
  | t steps => simp only [glomit]; hauto
  | sRead name steps => simp only [glomit]; hauto
  | sGlobRead name =>
    simp only [glomit]
    split
    · apply Hoare.bind (logOK_rel _) (gvarGet_ok ..); hauto
    · hauto
  | sVarRead var name =>
    simp only [glomit]
    split
    · apply Hoare.bind (logOK_rel _) (gvarGet_ok ..); hauto
    · hauto
  | sBind bs =>
    simp only [glomit, annotF, noRefF] at *
    apply Hoare.bind (logOK_rel _)
    · apply kwLoop_ok (m := mode sc) (P := PA fuel (mode sc) _) _ target sc rfl bs []
        (fun b hb => PA_kws hb hno (fun _ hx => hx))
      intro s t c hP hm
      apply Hoare.bind (logOK_rel _) (argVal_ok (S _ _) t s hP c hm)
      hauto
    · hauto
  | aBind name => simp only [glomit]; hauto
  | aGlob name =>
    simp only [glomit]
    split
    · apply Hoare.bind (logOK_rel _) (gvarSet_ok ..); hauto
    · hauto
  | aVar var name =>
    simp only [glomit]
    split
    · apply Hoare.bind (logOK_rel _) (gvarSet_ok ..); hauto
    · hauto
    · hauto
  | pipe steps =>
    simp only [glomit, annotF, noRefF] at *
    apply Hoare.bind (logOK_rel _)
      (tupleLoop_ok (S (mode sc) _) steps target sc Option.none rfl
        (fun s hs => PA_of_mem_flatMap hs hno (fun _ hx => hx)))
    hauto
  | val v => simp only [glomit]; hauto
  | specW s bindings =>
    simp only [glomit, annotF, noRefF] at *
    apply Hoare.bind (logOK_rel _)
      (S (mode sc) _ s target _ (PA_self hno) (by
        induction bindings generalizing sc with
        | nil => rfl
        | cons b r ih => simp only [List.foldl_cons]; rw [ih, LawfulScope.mode_bind]))
    hauto
  | coalesce subs dflt fac sk se =>
    simp only [glomit, annotF, noRefF, Bool.and_eq_true] at *
    apply Hoare.bind (logOK_rel _)
      (coalesceLoop_ok (S (mode sc) _) target sc rfl sk se subs
        (fun s hs => PA_of_mem_flatMap hs hno.1 (fun _ hx => mem_append_l hx)))
    intro r
    split
    · hauto
    · split
      · apply Hoare.bind (logOK_rel _)
          (argVal_ok (S (mode sc) _) target _ (PA_opt rfl hno.2 (fun _ hx => mem_append_r hx)) sc rfl)
        hauto
      · apply Hoare.bind (logOK_rel _) (callFn_ok ..); hauto
      · hauto
  | call func args kwargs =>
    simp only [glomit, annotF, noRefF, Bool.and_eq_true] at *
    apply Hoare.bind (logOK_rel _)
      (argVal_ok (S (mode sc) _) target func ⟨hno.1.1, fun _ hx => mem_append_l (mem_append_l hx)⟩ sc rfl)
    intro f
    apply Hoare.bind (logOK_rel _)
      (argVal_ok (S (mode sc) _) target args ⟨hno.1.2, fun _ hx => mem_append_l (mem_append_r hx)⟩ sc rfl)
    intro a
    apply Hoare.bind (logOK_rel _)
      (argVal_ok (S (mode sc) _) target kwargs ⟨hno.2, fun _ hx => mem_append_r hx⟩ sc rfl)
    intro kw
    split
    · split
      · apply Hoare.bind (logOK_rel _) (callValue_ok ..); hauto
      · hauto
      · hauto
    · hauto
  | invoke func fis blocks =>
    simp only [glomit, annotF, noRefF, Bool.and_eq_true] at *
    apply Hoare.bind (logOK_rel _)
    · split
      · apply Hoare.bind (logOK_rel _)
          (S (mode sc) _ func target sc ⟨hno.1, fun _ hx => mem_append_l hx⟩ rfl)
        hauto
      · hauto
    · intro f
      apply Hoare.bind (logOK_rel _)
      · apply invokeLoop_ok (S (mode sc) _) target sc rfl blocks [] []
        intro b hb
        have hb1 := List.all_eq_true.mp hno.2 b hb
        simp only [Bool.and_eq_true] at hb1
        constructor
        · intro s hs
          exact ⟨List.all_eq_true.mp hb1.1 s hs, fun x hx => mem_append_r
            (List.mem_flatMap.mpr ⟨b, hb, mem_append_l (List.mem_flatMap.mpr ⟨s, hs, hx⟩)⟩)⟩
        · intro kv hkv
          exact ⟨List.all_eq_true.mp hb1.2 kv hkv, fun x hx => mem_append_r
            (List.mem_flatMap.mpr ⟨b, hb, mem_append_r (List.mem_flatMap.mpr ⟨kv, hkv, hx⟩)⟩)⟩
      · intro r
        apply Hoare.bind (logOK_rel _) (callValue_ok ..); hauto
  | ref name sub =>
    cases sub with
    | none => simp [noRefF] at hno
    | some s =>
      simp only [glomit, annotF, noRefF] at *
      apply Hoare.bind (logOK_rel _)
        (S (mode sc) _ s target _ (PA_self hno) (LawfulScope.mode_bindRef ..))
      hauto
  | vars defaults => simp only [glomit]; hauto
  | letB bs =>
    simp only [glomit, annotF, noRefF] at *
    apply Hoare.bind (logOK_rel _)
      (kwLoop_ok (S (mode sc) _) target sc rfl bs [] (fun b hb => PA_kws hb hno (fun _ hx => hx)))
    hauto
  | auto s =>
    simp only [glomit, annotF, noRefF] at *
    apply Hoare.bind (logOK_rel _) (S .auto _ s target _ (PA_self hno) (LawfulScope.mode_setMode ..))
    hauto
  | fill s =>
    simp only [glomit, annotF, noRefF] at *
    apply Hoare.bind (logOK_rel _) (S .fill _ s target _ (PA_self hno) (LawfulScope.mode_setMode ..))
    hauto
  | group s =>
    simp only [glomit, annotF, noRefF] at *
    apply Hoare.bind (logOK_rel _) (Hoare.lift (logOK_rel _) _)
    intro items
    apply Hoare.bind (logOK_rel _)
      (groupLoop_ok (S .group _) s (PA_self hno) _ (LawfulScope.mode_setMode ..) items _)
    hauto
  | mtch s dflt =>
    simp only [glomit, annotF, noRefF, Bool.and_eq_true] at *
    apply Hoare.bind (logOK_rel _)
    · apply withDefault_ok (S .mtch _) target dflt
        (fun d hd => PA_opt hd hno.2 (fun _ hx => mem_append_r hx)) _ (LawfulScope.mode_setMode ..)
      apply Hoare.bind (logOK_rel _)
        (S .mtch _ s target _ ⟨hno.1, fun _ hx => mem_append_l hx⟩ (LawfulScope.mode_setMode ..))
      hauto
    · hauto
  | and cs dflt =>
    simp only [glomit, annotF, noRefF, Bool.and_eq_true] at *
    apply Hoare.bind (logOK_rel _)
    · apply withDefault_ok (S (mode sc) _) target dflt
        (fun d hd => PA_opt hd hno.2 (fun _ hx => mem_append_r hx)) sc rfl
      exact andLoop_ok (S (mode sc) _) target sc rfl cs target
        (fun s hs => PA_of_mem_flatMap hs hno.1 (fun _ hx => mem_append_l hx))
    · hauto
  | or cs dflt =>
    simp only [glomit, annotF, noRefF, Bool.and_eq_true] at *
    apply Hoare.bind (logOK_rel _)
    · apply withDefault_ok (S (mode sc) _) target dflt
        (fun d hd => PA_opt hd hno.2 (fun _ hx => mem_append_r hx)) sc rfl
      exact orLoop_ok (S (mode sc) _) target sc rfl cs
        (fun s hs => PA_of_mem_flatMap hs hno.1 (fun _ hx => mem_append_l hx))
    · hauto
  | not c =>
    simp only [glomit, annotF, noRefF] at *
    apply Hoare.bind (logOK_rel _) (Hoare.attempt (S (mode sc) _ c target sc (PA_self hno) rfl))
    hauto
  | switch cases dflt =>
    simp only [glomit, annotF, noRefF, Bool.and_eq_true] at *
    apply Hoare.bind (logOK_rel _)
      (switchLoop_ok (S (mode sc) _) target sc rfl cases
        (fun e he => PA_pairs he hno.1 (fun _ hx => mem_append_l hx)))
    intro r
    split
    · hauto
    · split
      · apply Hoare.bind (logOK_rel _)
          (argVal_ok (S (mode sc) _) target _ (PA_opt rfl hno.2 (fun _ hx => mem_append_r hx)) sc rfl)
        hauto
      · hauto
  | probe id =>
    simp only [glomit, annotF]
    apply Hoare.bind (logOK_rel _) (hoare_logProbe _ id (mode sc) (by simp))
    hauto
  | iter s vm =>
    simp only [glomit, annotF, noRefF] at *
    apply Hoare.bind (logOK_rel _) (Hoare.lift (logOK_rel _) _)
    intro items
    apply Hoare.bind (logOK_rel _)
    · split
      · exact zipLoop_ok (S (mode sc) _) sc rfl items _ []
          (fun s' hs' => by rw [List.eq_of_mem_replicate hs']; exact PA_self hno)
      · exact listLoop_ok (S (mode sc) _) s (PA_self hno) sc rfl items []
    · hauto
  | optKey k => simp only [glomit]; split <;> hauto
  | reqKey k =>
    simp only [glomit, annotF, noRefF] at *
    exact S (mode sc) _ k target sc (PA_self hno) rfl
  | reenter vs s =>
    simp only [glomit, annotF, noRefF] at *
    apply Hoare.bind (logOK_rel _) (S (mode sc) _ s target sc (PA_self hno) rfl)
    hauto
  | rprobe id s =>
    simp only [glomit, annotF, noRefF] at *
    apply Hoare.bind (logOK_rel _) (Hoare.attempt (S (mode sc) _ s target sc (PA_self hno) rfl))
    hauto
  | inspect s bp pm =>
    simp only [glomit, annotF, noRefF] at *
    apply Hoare.bind (logOK_rel _) (callOpt_ok ..)
    intro _
    apply Hoare.bind (logOK_rel _) (Hoare.attempt (S (mode sc) _ s target sc (PA_self hno) rfl))
    intro r
    split
    · hauto
    · split
      · hauto
      · apply Hoare.bind (logOK_rel _) (callOpt_ok ..)
        hauto

/-- the four mode functions and the argument mode on a plain object: sub-specs are evaluated in
    the same scope, hence in the same mode -/
theorem modeFns_ok (p : Prims) {rec : Rec σ} {fuel} (hIH : IH rec fuel) (spec : Spec) (target : V) (own : σ)
    (hno : noRefF (fuel + 1) spec = true) (hplain : spec.isSpecLike = false) :
    Hoare (LogOK (annotF (fuel + 1) (mode own) spec)) (argModeFn p rec spec target own) ∧
    Hoare (LogOK (annotF (fuel + 1) (mode own) spec)) (autoFn p rec spec target own) ∧
    Hoare (LogOK (annotF (fuel + 1) (mode own) spec)) (fillFn p rec spec target own) ∧
    Hoare (LogOK (annotF (fuel + 1) (mode own) spec)) (matchFn p rec spec target own) ∧
    Hoare (LogOK (annotF (fuel + 1) (mode own) spec)) (groupFn p spec target) := by
  have S := stepOK_of_ih hIH (mode own)
  cases spec with
  | str s =>
    refine ⟨?_, ?_, ?_, ?_, ?_⟩ <;> simp only [argModeFn, autoFn, fillFn, matchFn, groupFn, reify] <;> hauto
  | lit v =>
    refine ⟨?_, ?_, ?_, ?_, ?_⟩ <;> simp only [argModeFn, autoFn, fillFn, matchFn, groupFn, reify] <;> hauto
  | fn n k =>
    refine ⟨?_, ?_, ?_, ?_, ?_⟩ <;> simp only [argModeFn, autoFn, fillFn, matchFn, groupFn, reify]
    · hauto
    · exact callFn_ok ..
    · exact callFn_ok ..
    · apply Hoare.bind (logOK_rel _) (Hoare.attempt (callFn_ok ..)); hauto
    · exact callFn_ok ..
  | ty n =>
    refine ⟨?_, ?_, ?_, ?_, ?_⟩ <;> simp only [argModeFn, autoFn, fillFn, matchFn, groupFn, reify] <;> hauto
  | tuple xs =>
    simp only [annotF, noRefF] at *
    have hP : ∀ s ∈ xs, PA fuel (mode own) (xs.flatMap (annotF fuel (mode own))) s :=
      fun s hs => PA_of_mem_flatMap hs hno (fun _ hx => hx)
    refine ⟨?_, ?_, ?_, ?_, ?_⟩ <;> simp only [argModeFn, autoFn, fillFn, matchFn, groupFn, reify]
    · apply Hoare.bind (logOK_rel _) (mapLoop_ok (S _) target own rfl xs [] hP); hauto
    · exact tupleLoop_ok (S _) xs target own Option.none rfl hP
    · apply Hoare.bind (logOK_rel _) (mapLoop_ok (S _) target own rfl xs [] hP); hauto
    · split
      · split
        · hauto
        · apply Hoare.bind (logOK_rel _) (zipLoop_ok (S _) own rfl _ xs [] hP); hauto
      · hauto
    · hauto
  | list xs =>
    simp only [annotF, noRefF] at *
    have hP : ∀ s ∈ xs, PA fuel (mode own) (xs.flatMap (annotF fuel (mode own))) s :=
      fun s hs => PA_of_mem_flatMap hs hno (fun _ hx => hx)
    refine ⟨?_, ?_, ?_, ?_, ?_⟩ <;> simp only [argModeFn, autoFn, fillFn, matchFn, groupFn, reify]
    · apply Hoare.bind (logOK_rel _) (mapLoop_ok (S _) target own rfl xs [] hP); hauto
    · split
      · hauto
      · rename_i sub rest
        apply Hoare.bind (logOK_rel _) (Hoare.lift (logOK_rel _) _)
        intro items
        apply Hoare.bind (logOK_rel _) (listLoop_ok (S _) sub (hP sub (by simp)) own rfl items [])
        hauto
    · apply Hoare.bind (logOK_rel _) (mapLoop_ok (S _) target own rfl xs [] hP); hauto
    · split
      · apply Hoare.bind (logOK_rel _) (matchItemsLoop_ok (p := p) (S _) own rfl xs hP _ [])
        hauto
      · hauto
    · hauto
  | set f xs =>
    simp only [annotF, noRefF] at *
    have hP : ∀ s ∈ xs, PA fuel (mode own) (xs.flatMap (annotF fuel (mode own))) s :=
      fun s hs => PA_of_mem_flatMap hs hno (fun _ hx => hx)
    refine ⟨?_, ?_, ?_, ?_, ?_⟩ <;> simp only [argModeFn, autoFn, fillFn, matchFn, groupFn, reify]
    · apply Hoare.bind (logOK_rel _) (mapLoop_ok (S _) target own rfl xs [] hP); hauto
    · hauto
    · apply Hoare.bind (logOK_rel _) (mapLoop_ok (S _) target own rfl xs [] hP); hauto
    · split
      · split
        · apply Hoare.bind (logOK_rel _) (matchItemsLoop_ok (p := p) (S _) own rfl xs hP _ [])
          hauto
        · hauto
      · hauto
    · hauto
  | dict o es =>
    simp only [annotF, noRefF] at *
    have hP : ∀ e ∈ es, PA fuel (mode own) _ e.1 ∧ PA fuel (mode own) _ e.2 :=
      fun e he => PA_pairs he hno (fun _ hx => hx)
    refine ⟨?_, ?_, ?_, ?_, ?_⟩
    · cases o <;> simp only [argModeFn, reify]
      · apply Hoare.bind (logOK_rel _) (pairLoop_ok (p := p) (S _) target own rfl es [] hP); hauto
      · hauto
    · simp only [autoFn]
      apply Hoare.bind (logOK_rel _) (dictLoop_ok (p := p) (S _) target own rfl es [] hP); hauto
    · cases o <;> simp only [fillFn, reify]
      · apply Hoare.bind (logOK_rel _) (pairLoop_ok (p := p) (S _) target own rfl es [] hP); hauto
      · hauto
    · simp only [matchFn]
      split
      · apply Hoare.bind (logOK_rel _) (matchDictLoop_ok (p := p) (S _) own rfl es hP _ [] [])
        hauto
      · hauto
    · simp only [groupFn]; hauto
  | _ => simp [Spec.isSpecLike] at hplain

/-- **Main lemma.**  Every probe event `interp` appends carries the static mode of its position. -/
theorem interp_ok (p : Prims) : ∀ (fuel : Nat), IH (interp (σ := σ) p fuel) fuel := by
  intro fuel
  induction fuel with
  | zero => intro s t sc _; simp only [interp]; hauto
  | succ fuel ih =>
    intro spec target parent hno
    simp only [interp]
    split
    · have := glomit_ok p ih spec target (setArgMode (child parent) false) hno
      rwa [LawfulScope.mode_setArgMode, LawfulScope.mode_child] at this
    · rename_i hplain
      have hplain' : spec.isSpecLike = false := by simpa using hplain
      obtain ⟨h1, h2, h3, h4, h5⟩ := modeFns_ok p ih spec target (child parent) hno hplain'
      rw [LawfulScope.mode_child] at h1 h2 h3 h4 h5
      apply Hoare.bind (logOK_rel _)
      · split
        · exact h1
        · split <;> assumption
      · hauto

end
end Glom.Interp
