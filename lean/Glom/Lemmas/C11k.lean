import Glom.Lemmas.C11j
/-
  Helper lemmas for C11, part 11: overlapping evaluations on records that share nothing — the
  hypotheses of `assignAuxR_first` follow from a condition on the heap before the calls.
-/
namespace Glom.C11
open Glom Glom.Mut

/-- a wildcard-free walk is the same walk in every heap that keeps the cells it visits -/
theorem fetch_congr_visits {env : MEnv} (hwf : WF env = true) (hc : classesOK env = true) {h h' : Heap}
    (steps : List Step) (hw : C01.wfSteps steps = true) (has : argsScalar steps = true) (cur : Val)
    (hv : ∀ c ∈ visits env h steps cur, ∀ a, c = .ref a → h'[a]? = h[a]?) :
    fetch env h' steps 0 cur = fetch env h steps 0 cur := by
  have hns := wfSteps_noStar hw
  have hm := matchesOf_congr_visits steps hns has 0 cur hv
  have s1 := fetch_spec hwf hc h steps (wfSteps_wfStar hw) (.inl hns) 0 cur
  have s2 := fetch_spec hwf hc h' steps (wfSteps_wfStar hw) (.inl hns) 0 cur
  rw [hm] at s2
  cases hmo : matchesOf env h steps 0 cur with
  | ok ds =>
    rw [hmo] at s1 s2
    obtain ⟨n1, f1, u1, l1⟩ := s1
    obtain ⟨n2, f2, u2, l2⟩ := s2
    rw [stars_zero hns] at u1 u2
    obtain ⟨v1, rfl⟩ := uniform0_leaf u1
    obtain ⟨v2, rfl⟩ := uniform0_leaf u2
    simp only [Nest.leaves] at l1 l2
    rw [f1, f2]
    have : [v2] = [v1] := by rw [l2, l1]
    injection this with this _
    rw [this]
  | fail k e stop => rw [hmo] at s1 s2; rw [s1, s2]
  | unreg => rw [hmo] at s1; exact s1.elim
  | unsupported => rw [hmo] at s1; exact s1.elim

/-- the value of a `val` spec is the same in every heap that keeps the cells its path visits -/
theorem evalVal_congr_visits {env : MEnv} (hwf : WF env = true) (hc : classesOK env = true) {st st' : St}
    (target : Val) (vs : ValSpec) (hvw : valWf vs = true)
    (hvl : ∀ v, vs = .lit v → rebuilds st'.heap v = rebuilds st.heap v)
    (has : ∀ s, vs = .path s → argsScalar s = true)
    (hv : ∀ s, vs = .path s → ∀ c ∈ visits env st.heap s target, ∀ a, c = .ref a → st'.heap[a]? = st.heap[a]?) :
    (evalVal env st' target vs).2 = (evalVal env st target vs).2 := by
  cases vs with
  | val v => rfl
  | lit v => simp only [evalVal, hvl v rfl]; split <;> rfl
  | path s =>
    simp only [evalVal]
    rw [fetch_congr_visits hwf hc s hvw (has s rfl) target (hv s rfl)]
    cases fetch env st.heap s 0 target with
    | error e => rfl
    | ok n => cases n <;> rfl

end Glom.C11
