import Glom.Spec.C05Tree
/-
  C05 — the reference notions of Spec/C05 (`callsOf`, `spine`) on the events of a tree.
-/
namespace Glom.C05

abbrev ciOf (n : Nat) (i : Info) (o r : Option Nat) : CallInfo :=
  { idx := n, spec := i.spec, target := i.target, tlen := i.tlen, slen := i.slen, outer := o, result := r }

theorem callsK_idx_ge : ∀ (K : Kids) (o : Option Nat) (n : Nat) (c : CallInfo), c ∈ callsK o n K → n ≤ c.idx := by
  intro K
  induction K with
  | nil => intro o n c h; simp [callsK] at h
  | cons ch i ks res rest ihks ihrest =>
    intro o n c h
    simp only [callsK, List.mem_cons, List.mem_append] at h
    rcases h with h | h | h
    · subst h; simp
    · have := ihks _ _ _ h; omega
    · have := ihrest _ _ _ h; omega

theorem callsK_idx_lt : ∀ (K : Kids) (o : Option Nat) (n : Nat) (c : CallInfo), c ∈ callsK o n K → c.idx < n + K.size := by
  intro K
  induction K with
  | nil => intro o n c h; simp [callsK] at h
  | cons ch i ks res rest ihks ihrest =>
    intro o n c h
    simp only [callsK, List.mem_cons, List.mem_append] at h
    simp only [Kids.size]
    rcases h with h | h | h
    · subst h; simp; omega
    · have := ihks _ _ _ h; omega
    · have := ihrest _ _ _ h; omega

theorem map_upd_of_ne (l : List CallInfo) (c e : Nat) (h : ∀ x, x ∈ l → x.idx ≠ c) :
    l.map (fun ci => if ci.idx == c then { ci with result := some e } else ci) = l := by
  induction l with
  | nil => rfl
  | cons a r ih =>
    have ha : a.idx ≠ c := h a (by simp)
    simp only [List.map_cons]
    rw [ih (fun x hx => h x (List.mem_cons_of_mem _ hx))]
    simp [ha]

theorem callsOf_go_evKids : ∀ (K : Kids) (p : Nat) (prev : Option Nat) (n : Nat) (stack : List Nat)
    (acc : List CallInfo) (tail : List Ev), (∀ c, c ∈ acc → c.idx < n) →
    callsOf.go (evKids p prev n K ++ tail) n stack acc =
      callsOf.go tail (n + K.size) stack (acc ++ callsK stack.head? n K) := by
  intro K
  induction K with
  | nil => intro p prev n stack acc tail _; simp [evKids, callsK, Kids.size]
  | cons ch i ks res rest ihks ihrest =>
    intro p prev n stack acc tail hacc
    simp only [evKids, List.cons_append, List.append_assoc, callsOf.go]
    rw [ihks n none (n + 1) (n :: stack) _ _ (by
      intro c hc
      simp only [List.mem_append, List.mem_singleton] at hc
      rcases hc with hc | hc
      · have := hacc c hc; omega
      · subst hc; simp)]
    have hnext : n + 1 + ks.size + rest.size = n + (Kids.cons ch i ks res rest).size := by
      simp [Kids.size]; omega
    have haccr : ∀ (r : Option Nat) c, c ∈ (acc ++ [ciOf n i stack.head? r] ++ callsK (some n) (n + 1) ks) → c.idx < n + 1 + ks.size := by
      intro r c hc
      simp only [List.mem_append, List.mem_singleton] at hc
      rcases hc with (hc | hc) | hc
      · have := hacc c hc; omega
      · subst hc; simp [ciOf]; omega
      · have := callsK_idx_lt _ _ _ _ hc; omega
    cases res with
    | none =>
      simp only [exitEv, callsOf.go, List.tail_cons, List.head?_cons]
      rw [ihrest p (some n) (n + 1 + ks.size) stack _ tail (haccr none)]
      rw [hnext]
      simp [callsK, List.append_assoc]
    | some e =>
      simp only [exitEv, callsOf.go, List.head?_cons]
      have hmap : (acc ++ [ciOf n i stack.head? none] ++ callsK (some n) (n + 1) ks).map
          (fun ci => if ci.idx == n then { ci with result := some e } else ci) =
          acc ++ [ciOf n i stack.head? (some e)] ++ callsK (some n) (n + 1) ks := by
        simp only [List.map_append]
        rw [map_upd_of_ne acc n e (fun x hx => by have := hacc x hx; omega),
          map_upd_of_ne (callsK (some n) (n + 1) ks) n e (fun x hx => by have := callsK_idx_ge _ _ _ _ hx; omega)]
        simp [ciOf]
      rw [hmap, ihrest p (some n) (n + 1 + ks.size) stack _ tail (haccr (some e))]
      rw [hnext]
      simp [callsK, List.append_assoc]

theorem callsOf_events (t : Tree) : callsOf (events t) = callsK none 1 t.root := by
  have := callsOf_go_evKids t.root 0 none 1 [] [] [] (by simp)
  simpa [callsOf, events, callsOf.go] using this


theorem filter_callsK_none (e : Nat) : ∀ (K : Kids) (o : Option Nat) (n : Nat), ¬ e ∈ errsOf K →
    (callsK o n K).filter (fun c => c.result == some e) = [] := by
  intro K
  induction K with
  | nil => intro o n _; rfl
  | cons ch i ks res rest ihks ihrest =>
    intro o n h
    simp only [errsOf, List.mem_append, not_or] at h
    obtain ⟨⟨h1, h2⟩, h3⟩ := h
    have hres : (res == some e) = false := by
      cases res with
      | none => rfl
      | some x => simp at h1 ⊢; exact fun h => h1 h.symm
    simp only [callsK, List.filter_cons, hres, Bool.false_eq_true, if_false, List.filter_append,
      ihks _ _ h2, ihrest _ _ h3, List.append_nil]

/-- under `onePath` the reference `spine` of the calls of `K` is `spineK` -/
theorem spine_callsK (e : Nat) : ∀ (K : Kids) (o : Option Nat) (n : Nat), onePath e K = true →
    ((callsK o n K).filter (fun c => c.result == some e)).map (·.idx) = spineK e n K := by
  intro K
  induction K with
  | nil => intro o n _; rfl
  | cons ch i ks res rest ihks ihrest =>
    intro o n h
    cases rest with
    | nil =>
      simp only [onePath] at h
      simp only [callsK, spineK, List.append_nil]
      by_cases hr : res = some e
      · subst hr
        simp only [if_true] at h ⊢
        simp only [List.filter_cons, beq_self_eq_true, if_true, List.map_cons]
        rw [ihks _ _ h]
      · simp only [if_neg hr] at h ⊢
        have hres : (res == some e) = false := by simpa using hr
        simp only [List.filter_cons, hres, Bool.false_eq_true, if_false]
        rw [filter_callsK_none e ks _ _ (by simpa using h)]
        rfl
    | cons ch2 i2 ks2 res2 rest2 =>
      simp only [onePath, Bool.and_eq_true, Bool.not_eq_true', List.contains_eq_mem, decide_eq_false_iff_not,
        List.mem_append, not_or] at h
      obtain ⟨⟨h1, h2⟩, h3⟩ := h
      have hres : (res == some e) = false := by
        cases res with
        | none => rfl
        | some x => simp at h1 ⊢; exact fun h => h1 h.symm
      rw [show callsK o n (.cons ch i ks res (.cons ch2 i2 ks2 res2 rest2)) =
          ciOf n i o res :: (callsK (some n) (n + 1) ks ++ callsK o (n + 1 + ks.size) (.cons ch2 i2 ks2 res2 rest2)) from rfl,
        show spineK e n (.cons ch i ks res (.cons ch2 i2 ks2 res2 rest2)) =
          spineK e (n + 1 + ks.size) (.cons ch2 i2 ks2 res2 rest2) from rfl]
      simp only [List.filter_cons, hres, Bool.false_eq_true, if_false, List.filter_append,
        filter_callsK_none e ks _ _ h2, List.nil_append]
      exact ihrest _ _ h3

/-- **the reference spine of a well-formed tree**: the calls whose outcome is the root error are the
    root call and `spineK` below it -/
theorem spine_events (t : Tree) (h : onePath t.err t.kids = true) :
    (spine (callsOf (events t)) t.err).map (·.idx) = 1 :: spineK t.err 2 t.kids := by
  rw [callsOf_events]
  have := spine_callsK t.err t.root none 1 (by simpa [Tree.root, onePath] using h)
  simpa [spine, Tree.root, spineK] using this

end Glom.C05
