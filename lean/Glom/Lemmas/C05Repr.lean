import Glom.Spec.C05Repr
/-
  C05 — lemmas about the model of `bbrepr` (Model/C05Repr.lean) and Python's `repr` (Spec/C05Repr.lean).
-/
set_option linter.unusedSimpArgs false
namespace Glom.C05

/-! ### leaves -/

theorem elide_of_le (lim : Nat) (s : Str) (h : s.length ≤ lim) : elide lim s = s := by
  unfold elide
  rw [if_neg (by omega)]

theorem escChar_ne_nil (P : Char → Bool) (q c : Char) : 1 ≤ (escChar P q c).length := by
  unfold escChar
  repeat' split
  all_goals simp

theorem escBody_length (P : Char → Bool) (q : Char) : ∀ s : Str, s.length ≤ (escBody P q s).length
  | [] => by simp [escBody]
  | c :: r => by
    have h1 := escChar_ne_nil P q c
    have h2 := escBody_length P q r
    simp only [escBody, List.length_cons, List.length_append]
    omega

theorem pyStrRepr_length (P : Char → Bool) (s : Str) : s.length + 2 ≤ (pyStrRepr P s).length := by
  have := escBody_length P (quoteOf s) s
  simp only [pyStrRepr, List.length_cons, List.length_append, List.length_nil]
  omega

theorem reprStr_of_le (P : Char → Bool) (lim : Nat) (s : Str) (h : (pyStrRepr P s).length ≤ lim) :
    reprStr P lim s = pyStrRepr P s := by
  have h2 := pyStrRepr_length P s
  have ht : s.take lim = s := List.take_of_length_le (by omega)
  unfold reprStr
  simp only [ht]
  rw [if_neg (by omega)]

/-! ### sorting keeps the length -/

theorem insertBy_length {α} (le : α → α → Bool) (x : α) : ∀ l : List α, (insertBy le x l).length = l.length + 1
  | [] => rfl
  | y :: r => by
    simp only [insertBy]
    split
    · simp
    · simp [insertBy_length le x r]

theorem sortBy_length {α} (le : α → α → Bool) : ∀ l : List α, (sortBy le l).length = l.length
  | [] => rfl
  | x :: r => by simp [sortBy, insertBy_length, sortBy_length le r]

theorem possiblySorted_length (ps : List (RV × Str)) : (possiblySorted ps).length = ps.length := by
  unfold possiblySorted
  split
  · exact sortBy_length _ _
  · rfl

theorem reprItems_length (L : Limits) (P : Char → Bool) : ∀ (v : RV) (l : Nat), (reprItems L P v l).length = v.count
  | .cons x rest, l => by simp [reprItems, RV.count, reprItems_length L P rest l]
  | .nil, _ => by simp [reprItems, RV.count]
  | .int _, _ => by simp [reprItems, RV.count]
  | .str _, _ => by simp [reprItems, RV.count]
  | .other _ _, _ => by simp [reprItems, RV.count]
  | .seq _ _, _ => by simp [reprItems, RV.count]
  | .dict _, _ => by simp [reprItems, RV.count]

theorem reprEntries_length (L : Limits) (P : Char → Bool) : ∀ (v : RV) (l : Nat), 2 * (reprEntries L P v l).length ≤ v.count
  | .cons _ (.cons _ rest), l => by
    have := reprEntries_length L P rest l
    simp only [reprEntries, RV.count, List.length_cons]
    omega
  | .cons _ .nil, _ => by simp [reprEntries]
  | .cons _ (.int _), _ => by simp [reprEntries]
  | .cons _ (.str _), _ => by simp [reprEntries]
  | .cons _ (.other _ _), _ => by simp [reprEntries]
  | .cons _ (.seq _ _), _ => by simp [reprEntries]
  | .cons _ (.dict _), _ => by simp [reprEntries]
  | .nil, _ => by simp [reprEntries]
  | .int _, _ => by simp [reprEntries]
  | .str _, _ => by simp [reprEntries]
  | .other _ _, _ => by simp [reprEntries]
  | .seq _ _, _ => by simp [reprEntries]
  | .dict _, _ => by simp [reprEntries]

theorem pieces_length (c : Bool) (ps : List (RV × Str)) :
    ((if c = true then possiblySorted ps else ps).map (·.2)).length = ps.length := by
  cases c <;> simp [possiblySorted_length]

/-- no `...` piece, nothing cut: the pieces are joined as Python's `repr` joins them -/
theorem wrapPieces_of_le (b : Brackets) (lim : Nat) (pieces : List Str) (h : pieces.length ≤ lim) :
    wrapPieces b lim pieces =
      b.left ++ joinSep pieces ++ (if pieces.length == 1 then b.trail else []) ++ b.right := by
  unfold wrapPieces
  rw [List.take_of_length_le h, if_neg (by omega)]
  simp

/-! ### a value within the limits is rendered exactly -/

/-- the three statements proved together by induction over the (single) value type -/
def ExactStmt (L : Limits) (P : Char → Bool) (v : RV) : Prop :=
  (∀ lvl, fitsAt L P v lvl = true → repr1 L P v lvl = refRepr P v) ∧
  (∀ l, fitsItems L P v l = true → reprItems L P v l = refItems P v) ∧
  (∀ l, fitsItems L P v l = true → reprEntries L P v l = refEntries P v) ∧
  (∀ k l, (∀ lvl, fitsAt L P k lvl = true → repr1 L P k lvl = refRepr P k) →
      fitsItems L P (.cons k v) l = true → reprEntries L P (.cons k v) l = refEntries P (.cons k v))

theorem exact_all (L : Limits) (P : Char → Bool) : ∀ v : RV, ExactStmt L P v := by
  intro v
  induction v with
  | int n =>
    refine ⟨?_, by intros; simp [reprItems, refItems], by intros; simp [reprEntries, refEntries],
      by intros; simp [reprEntries, refEntries]⟩
    intro lvl h
    simp only [fitsAt, decide_eq_true_eq] at h
    simp only [repr1, refRepr]
    exact elide_of_le _ _ h
  | str s =>
    refine ⟨?_, by intros; simp [reprItems, refItems], by intros; simp [reprEntries, refEntries],
      by intros; simp [reprEntries, refEntries]⟩
    intro lvl h
    simp only [fitsAt, decide_eq_true_eq] at h
    simp only [repr1, refRepr]
    exact reprStr_of_le P _ s h
  | other r bn =>
    refine ⟨?_, by intros; simp [reprItems, refItems], by intros; simp [reprEntries, refEntries],
      by intros; simp [reprEntries, refEntries]⟩
    intro lvl h
    simp only [fitsAt, decide_eq_true_eq] at h
    simp only [repr1, refRepr, elide_of_le _ _ h]
  | nil =>
    exact ⟨by intros; simp [repr1, refRepr], by intros; simp [reprItems, refItems],
      by intros; simp [reprEntries, refEntries], by intros; simp [reprEntries, refEntries]⟩
  | cons x rest ihx ihr =>
    refine ⟨by intros; simp [repr1, refRepr], ?_, ?_, ?_⟩
    · intro l h
      simp only [fitsItems, Bool.and_eq_true] at h
      simp only [reprItems, refItems, ihx.1 l h.1, ihr.2.1 l h.2]
    · intro l h
      exact ihr.2.2.2 x l ihx.1 h
    · intro k l hk h
      simp only [fitsItems, Bool.and_eq_true] at h
      simp only [reprEntries, refEntries, hk l h.1, ihx.1 l h.2.1, ihr.2.2.1 l h.2.2]
  | seq k items ih =>
    refine ⟨?_, by intros; simp [reprItems, refItems], by intros; simp [reprEntries, refEntries],
      by intros; simp [reprEntries, refEntries]⟩
    intro lvl h
    by_cases hc : items.count = 0
    · simp [repr1, refRepr, hc]
    · cases lvl with
      | zero => simp [fitsAt, hc] at h
      | succ l =>
        simp only [fitsAt, Bool.and_eq_true, decide_eq_true_eq, Nat.add_sub_cancel] at h
        have hit := ih.2.1 l h.2
        have hlen : (refItems P items).length = items.count := by
          rw [← hit]; exact reprItems_length L P _ l
        simp only [repr1, refRepr, hit, beq_iff_eq, hc, if_false]
        rw [wrapPieces_of_le _ _ _ (by rw [pieces_length]; omega)]
        simp only [beq_iff_eq]
  | dict entries ih =>
    refine ⟨?_, by intros; simp [reprItems, refItems], by intros; simp [reprEntries, refEntries],
      by intros; simp [reprEntries, refEntries]⟩
    intro lvl h
    by_cases hc : entries.count = 0
    · simp [repr1, refRepr, hc]
    · cases lvl with
      | zero => simp [fitsAt, hc] at h
      | succ l =>
        simp only [fitsAt, Bool.and_eq_true, decide_eq_true_eq, Nat.add_sub_cancel] at h
        have hit := ih.2.2.1 l h.2
        simp only [repr1, refRepr, hit, beq_iff_eq, hc, if_false]
        have hl := reprEntries_length L P entries l
        rw [hit] at hl
        rw [wrapPieces_of_le _ _ _ (by simp only [List.length_map, possiblySorted_length]; omega)]
        simp

/-- **a value within the limits is rendered as Python's `repr` renders it** -/
theorem repr1_exact (L : Limits) (P : Char → Bool) (v : RV) (lvl : Nat) (h : fitsAt L P v lvl = true) :
    repr1 L P v lvl = refRepr P v := (exact_all L P v).1 lvl h


/-! ### larger limits keep a value within the limits -/

/-- every limit of `L'` is at least that of `L` -/
def Limits.le (L L' : Limits) : Prop :=
  L.maxlevel ≤ L'.maxlevel ∧ L.maxtuple ≤ L'.maxtuple ∧ L.maxlist ≤ L'.maxlist ∧ L.maxarray ≤ L'.maxarray ∧
  L.maxdict ≤ L'.maxdict ∧ L.maxset ≤ L'.maxset ∧ L.maxfrozenset ≤ L'.maxfrozenset ∧ L.maxdeque ≤ L'.maxdeque ∧
  L.maxstring ≤ L'.maxstring ∧ L.maxlong ≤ L'.maxlong ∧ L.maxother ≤ L'.maxother

theorem SeqKind.limit_le (L L' : Limits) (h : L.le L') (k : SeqKind) : k.limit L ≤ k.limit L' := by
  obtain ⟨_, h2, h3, h4, _, h6, h7, h8, _, _, _⟩ := h
  cases k <;> simp [SeqKind.limit] <;> assumption

theorem fits_mono (L L' : Limits) (P : Char → Bool) (hL : L.le L') : ∀ v : RV,
    (∀ lvl lvl', lvl ≤ lvl' → fitsAt L P v lvl = true → fitsAt L' P v lvl' = true) ∧
    (∀ l l', l ≤ l' → fitsItems L P v l = true → fitsItems L' P v l' = true) := by
  intro v
  induction v with
  | int n =>
    refine ⟨?_, by intros; simp [fitsItems]⟩
    intro lvl lvl' _ h
    simp only [fitsAt, decide_eq_true_eq] at h ⊢
    exact Nat.le_trans h hL.2.2.2.2.2.2.2.2.2.1
  | str s =>
    refine ⟨?_, by intros; simp [fitsItems]⟩
    intro lvl lvl' _ h
    simp only [fitsAt, decide_eq_true_eq] at h ⊢
    exact Nat.le_trans h hL.2.2.2.2.2.2.2.2.1
  | other r bn =>
    refine ⟨?_, by intros; simp [fitsItems]⟩
    intro lvl lvl' _ h
    simp only [fitsAt, decide_eq_true_eq] at h ⊢
    exact Nat.le_trans h hL.2.2.2.2.2.2.2.2.2.2
  | nil => exact ⟨by intros; simp [fitsAt], by intros; simp [fitsItems]⟩
  | cons x rest ihx ihr =>
    refine ⟨by intros; simp [fitsAt], ?_⟩
    intro l l' hl h
    simp only [fitsItems, Bool.and_eq_true] at h ⊢
    exact ⟨ihx.1 l l' hl h.1, ihr.2 l l' hl h.2⟩
  | seq k items ih =>
    refine ⟨?_, by intros; simp [fitsItems]⟩
    intro lvl lvl' hl h
    simp only [fitsAt, Bool.and_eq_true, Bool.or_eq_true, beq_iff_eq, bne_iff_ne, ne_eq, decide_eq_true_eq] at h ⊢
    refine ⟨⟨?_, Nat.le_trans h.1.2 (SeqKind.limit_le L L' hL k)⟩, ih.2 _ _ (by omega) h.2⟩
    rcases h.1.1 with h' | h'
    · exact Or.inl h'
    · exact Or.inr (by omega)
  | dict entries ih =>
    refine ⟨?_, by intros; simp [fitsItems]⟩
    intro lvl lvl' hl h
    simp only [fitsAt, Bool.and_eq_true, Bool.or_eq_true, beq_iff_eq, bne_iff_ne, ne_eq, decide_eq_true_eq] at h ⊢
    refine ⟨⟨?_, by have := hL.2.2.2.2.1; omega⟩, ih.2 _ _ (by omega) h.2⟩
    rcases h.1.1 with h' | h'
    · exact Or.inl h'
    · exact Or.inr (by omega)

/-- all limits equal to `b` -/
def Limits.uniform (b : Nat) : Limits :=
  { maxlevel := b, maxtuple := b, maxlist := b, maxarray := b, maxdict := b, maxset := b, maxfrozenset := b,
    maxdeque := b, maxstring := b, maxlong := b, maxother := b }

theorem uniform_le_of_allGe (L : Limits) (b : Nat) (h : L.allGe b = true) : (Limits.uniform b).le L := by
  simp only [Limits.allGe, Limits.toList, List.all_cons, List.all_nil, Bool.and_true, Bool.and_eq_true,
    decide_eq_true_eq] at h
  obtain ⟨h1, h2, h3, h4, h5, h6, h7, h8, h9, h10, h11⟩ := h
  exact ⟨h1, h2, h3, h4, h5, h6, h7, h8, h9, h10, h11⟩


/-! ### the text of a value is a single line -/

/-- no line break in the string -/
def OneLine (s : Str) : Prop := ∀ c, c ∈ s → c ≠ '\n'

theorem OneLine_append {a b : Str} (ha : OneLine a) (hb : OneLine b) : OneLine (a ++ b) := by
  intro c hc
  rcases List.mem_append.mp hc with h | h
  · exact ha c h
  · exact hb c h

theorem OneLine_take {s : Str} (h : OneLine s) (n : Nat) : OneLine (s.take n) :=
  fun c hc => h c (List.mem_of_mem_take hc)

theorem OneLine_drop {s : Str} (h : OneLine s) (n : Nat) : OneLine (s.drop n) :=
  fun c hc => h c (List.mem_of_mem_drop hc)

theorem OneLine_lit (s : String) (h : s.toList.all (fun c => c != '\n') = true) : OneLine s.toList := by
  intro c hc hn
  subst hn
  have := List.all_eq_true.mp h _ hc
  simp at this

theorem hexDigit_ne_nl (n : Nat) (h : n < 16) : hexDigit n ≠ '\n' := by
  unfold hexDigit
  have : ∀ k, k < 16 → (if k < 10 then Char.ofNat (48 + k) else Char.ofNat (87 + k)) ≠ '\n' := by decide
  exact this n h

theorem hexN_OneLine : ∀ (k n : Nat), OneLine (hexN k n)
  | 0, _ => by intro c hc; simp [hexN] at hc
  | k + 1, n => by
    unfold hexN
    apply OneLine_append (hexN_OneLine k (n / 16))
    intro c hc
    simp only [List.mem_singleton] at hc
    subst hc
    exact hexDigit_ne_nl _ (Nat.mod_lt _ (by omega))

theorem escChar_OneLine (P : Char → Bool) (q : Char) (hq : q ≠ '\n') (c : Char) : OneLine (escChar P q c) := by
  have hcons : ∀ (a b : Char) (r : Str), a ≠ '\n' → b ≠ '\n' → OneLine r → OneLine (a :: b :: r) := by
    intro a b r ha hb hr x hx
    simp only [List.mem_cons] at hx
    rcases hx with h | h | h
    · subst h; exact ha
    · subst h; exact hb
    · exact hr x h
  have hnil : OneLine ([] : Str) := by intro x hx; simp at hx
  unfold escChar
  split
  · rename_i h
    have hc : c ≠ '\n' := by
      intro h0; subst h0
      simp only [Bool.or_eq_true, beq_iff_eq] at h
      rcases h with h | h
      · exact hq h.symm
      · exact absurd h (by decide)
    intro x hx
    simp only [List.mem_cons, List.mem_nil_iff, or_false] at hx
    rcases hx with h' | h'
    · subst h'; decide
    · subst h'; exact hc
  · split
    · exact hcons _ _ _ (by decide) (by decide) hnil
    · split
      · exact hcons _ _ _ (by decide) (by decide) hnil
      · split
        · exact hcons _ _ _ (by decide) (by decide) hnil
        · rename_i h1 h2 h3 h4
          have hc : c ≠ '\n' := by intro h0; subst h0; simp at h3
          have hsingle : OneLine [c] := by intro x hx; simp at hx; subst hx; exact hc
          split
          · exact hcons _ _ _ (by decide) (by decide) (hexN_OneLine 2 _)
          · split
            · exact hsingle
            · split
              · exact hsingle
              · split
                · exact hcons _ _ _ (by decide) (by decide) (hexN_OneLine 2 _)
                · split
                  · exact hcons _ _ _ (by decide) (by decide) (hexN_OneLine 4 _)
                  · exact hcons _ _ _ (by decide) (by decide) (hexN_OneLine 8 _)

theorem escBody_OneLine (P : Char → Bool) (q : Char) (hq : q ≠ '\n') : ∀ s : Str, OneLine (escBody P q s)
  | [] => by intro c hc; simp [escBody] at hc
  | c :: r => by
    unfold escBody
    exact OneLine_append (escChar_OneLine P q hq c) (escBody_OneLine P q hq r)

theorem quoteOf_ne_nl (s : Str) : quoteOf s ≠ '\n' := by
  unfold quoteOf; split <;> decide

/-- **`str.__repr__` has no line break** (line breaks are escaped), whatever is printable -/
theorem pyStrRepr_OneLine (P : Char → Bool) (s : Str) : OneLine (pyStrRepr P s) := by
  unfold pyStrRepr
  intro c hc
  simp only [List.mem_cons, List.mem_append, List.mem_nil_iff, or_false] at hc
  rcases hc with h | h | h
  · subst h; exact quoteOf_ne_nl s
  · exact escBody_OneLine P _ (quoteOf_ne_nl s) s c h
  · subst h; exact quoteOf_ne_nl s


theorem OneLine_nil : OneLine ([] : Str) := by intro c hc; simp at hc

theorem natRepr_OneLine (n : Nat) : OneLine (Nat.repr n).toList := by
  intro c hc hn
  subst hn
  have h1 : (Nat.repr n).toList = Nat.toDigits 10 n := by unfold Nat.repr; simp
  rw [h1] at hc
  have := Nat.isDigit_of_mem_toDigits (by decide) (by decide) hc
  simp [Char.isDigit] at this

theorem intRepr_OneLine (v : Int) : OneLine (toString v).toList := by
  cases v with
  | ofNat n => exact natRepr_OneLine n
  | negSucc n =>
    show OneLine ("-" ++ Nat.repr (n + 1)).toList
    rw [String.toList_append]
    exact OneLine_append (OneLine_lit "-" (by decide)) (natRepr_OneLine _)

theorem fill_OneLine : OneLine fill := OneLine_lit "..." (by decide)

theorem pySliceFrom_OneLine {s : Str} (h : OneLine s) (k : Int) : OneLine (pySliceFrom s k) := by
  unfold pySliceFrom
  split <;> exact OneLine_drop h _

theorem elide_OneLine (lim : Nat) {s : Str} (h : OneLine s) : OneLine (elide lim s) := by
  unfold elide
  split
  · exact OneLine_append (OneLine_append (OneLine_take h _) fill_OneLine) (pySliceFrom_OneLine h _)
  · exact h

theorem reprStr_OneLine (P : Char → Bool) (lim : Nat) (x : Str) : OneLine (reprStr P lim x) := by
  unfold reprStr
  simp only []
  split
  · exact OneLine_append (OneLine_append (OneLine_take (pyStrRepr_OneLine P _) _) fill_OneLine)
      (pySliceFrom_OneLine (pyStrRepr_OneLine P _) _)
  · exact pyStrRepr_OneLine P _

theorem joinSep_OneLine : ∀ (ps : List Str), (∀ p, p ∈ ps → OneLine p) → OneLine (joinSep ps)
  | [], _ => OneLine_nil
  | [x], h => by simpa [joinSep] using h x (by simp)
  | x :: y :: r, h => by
    show OneLine (x ++ ',' :: ' ' :: joinSep (y :: r))
    apply OneLine_append (h x (by simp))
    intro c hc
    simp only [List.mem_cons] at hc
    rcases hc with h' | h' | h'
    · subst h'; decide
    · subst h'; decide
    · exact joinSep_OneLine (y :: r) (fun p hp => h p (List.mem_cons_of_mem _ hp)) c h'

theorem mem_insertBy {α} (le : α → α → Bool) (x : α) : ∀ (l : List α) (y : α), y ∈ insertBy le x l → y = x ∨ y ∈ l
  | [], y, h => by simp [insertBy] at h; exact Or.inl h
  | z :: r, y, h => by
    simp only [insertBy] at h
    split at h
    · rcases List.mem_cons.mp h with h | h
      · exact Or.inl h
      · exact Or.inr h
    · rcases List.mem_cons.mp h with h | h
      · exact Or.inr (by simp [h])
      · rcases mem_insertBy le x r y h with h' | h'
        · exact Or.inl h'
        · exact Or.inr (List.mem_cons_of_mem _ h')

theorem mem_sortBy {α} (le : α → α → Bool) : ∀ (l : List α) (y : α), y ∈ sortBy le l → y ∈ l
  | [], y, h => by simp [sortBy] at h
  | x :: r, y, h => by
    simp only [sortBy] at h
    rcases mem_insertBy le x _ y h with h' | h'
    · simp [h']
    · exact List.mem_cons_of_mem _ (mem_sortBy le r y h')

theorem mem_possiblySorted (ps : List (RV × Str)) (p : RV × Str) (h : p ∈ possiblySorted ps) : p ∈ ps := by
  unfold possiblySorted at h
  split at h
  · exact mem_sortBy _ _ _ h
  · exact h

/-- the texts of the leaves the model takes as given have no line break -/
def leavesOneLine : RV → Prop
  | .other r bn => OneLine r ∧ ∀ n, bn = some n → OneLine n
  | .seq k items => (∀ tc, k = .array tc → tc ≠ '\n') ∧ leavesOneLine items
  | .dict e => leavesOneLine e
  | .cons x r => leavesOneLine x ∧ leavesOneLine r
  | _ => True

theorem brackets_OneLine (k : SeqKind) (hk : ∀ tc, k = .array tc → tc ≠ '\n') :
    OneLine k.brackets.left ∧ OneLine k.brackets.right ∧ OneLine k.brackets.trail ∧
      (∀ e, k.brackets.empty = some e → OneLine e) := by
  cases k with
  | list =>
    exact ⟨OneLine_lit "[" (by decide), OneLine_lit "]" (by decide), OneLine_nil, fun e h => by cases h⟩
  | tuple =>
    exact ⟨OneLine_lit "(" (by decide), OneLine_lit ")" (by decide), OneLine_lit "," (by decide), fun e h => by cases h⟩
  | set =>
    refine ⟨OneLine_lit "{" (by decide), OneLine_lit "}" (by decide), OneLine_nil, ?_⟩
    intro e h; cases h; exact OneLine_lit "set()" (by decide)
  | frozenset =>
    refine ⟨OneLine_lit "frozenset({" (by decide), OneLine_lit "})" (by decide), OneLine_nil, ?_⟩
    intro e h; cases h; exact OneLine_lit "frozenset()" (by decide)
  | deque =>
    exact ⟨OneLine_lit "deque([" (by decide), OneLine_lit "])" (by decide), OneLine_nil, fun e h => by cases h⟩
  | array tc =>
    have htc : OneLine [tc] := by
      intro c hc
      simp only [List.mem_singleton] at hc
      rw [hc]; exact hk tc rfl
    refine ⟨?_, OneLine_lit "])" (by decide), OneLine_nil, ?_⟩
    · show OneLine ("array('".toList ++ tc :: "', [".toList)
      exact OneLine_append (OneLine_lit "array('" (by decide)) (OneLine_append htc (OneLine_lit "', [" (by decide)))
    · intro e h
      cases h
      exact OneLine_append (OneLine_lit "array('" (by decide)) (OneLine_append htc (OneLine_lit "')" (by decide)))

theorem wrapPieces_OneLine (b : Brackets) (lim : Nat) (ps : List Str) (hl : OneLine b.left) (hr : OneLine b.right)
    (ht : OneLine b.trail) (hp : ∀ p, p ∈ ps → OneLine p) : OneLine (wrapPieces b lim ps) := by
  unfold wrapPieces
  apply OneLine_append _ hr
  apply OneLine_append
  · apply OneLine_append hl
    apply joinSep_OneLine
    intro p hp'
    rcases List.mem_append.mp hp' with h | h
    · exact hp p (List.mem_of_mem_take h)
    · split at h
      · simp only [List.mem_singleton] at h; subst h; exact fill_OneLine
      · simp at h
  · split
    · exact ht
    · exact OneLine_nil

/-- **the model's text of a value has no line break** (for every limits record and every
    printability predicate): the three statements proved together over the value type -/
theorem repr1_OneLine_all (L : Limits) (P : Char → Bool) : ∀ v : RV, leavesOneLine v →
    (∀ lvl, OneLine (repr1 L P v lvl)) ∧
    (∀ l p, p ∈ reprItems L P v l → OneLine p.2) ∧
    (∀ l p, p ∈ reprEntries L P v l → OneLine p.2) ∧
    (∀ k l, (∀ lvl, OneLine (repr1 L P k lvl)) → ∀ p, p ∈ reprEntries L P (.cons k v) l → OneLine p.2) := by
  intro v
  induction v with
  | int n =>
    intro _
    refine ⟨fun lvl => ?_, by intro l p hp; simp [reprItems] at hp, by intro l p hp; simp [reprEntries] at hp,
      by intro k l _ p hp; simp [reprEntries] at hp⟩
    simp only [repr1]
    exact elide_OneLine _ (intRepr_OneLine n)
  | str s =>
    intro _
    refine ⟨fun lvl => ?_, by intro l p hp; simp [reprItems] at hp, by intro l p hp; simp [reprEntries] at hp,
      by intro k l _ p hp; simp [reprEntries] at hp⟩
    simp only [repr1]
    exact reprStr_OneLine P _ s
  | other r bn =>
    intro h
    refine ⟨fun lvl => ?_, by intro l p hp; simp [reprItems] at hp, by intro l p hp; simp [reprEntries] at hp,
      by intro k l _ p hp; simp [reprEntries] at hp⟩
    simp only [repr1]
    split
    · cases bn with
      | none => exact elide_OneLine _ h.1
      | some n => exact h.2 n rfl
    · exact elide_OneLine _ h.1
  | nil =>
    intro _
    exact ⟨fun lvl => by simp only [repr1]; exact OneLine_nil, by intro l p hp; simp [reprItems] at hp,
      by intro l p hp; simp [reprEntries] at hp, by intro k l _ p hp; simp [reprEntries] at hp⟩
  | cons x rest ihx ihr =>
    intro h
    obtain ⟨hx, hr⟩ := h
    refine ⟨fun lvl => by simp only [repr1]; exact OneLine_nil, ?_, ?_, ?_⟩
    · intro l p hp
      simp only [reprItems, List.mem_cons] at hp
      rcases hp with hp | hp
      · subst hp; exact (ihx hx).1 l
      · exact (ihr hr).2.1 l p hp
    · intro l p hp
      exact (ihr hr).2.2.2 x l (ihx hx).1 p hp
    · intro k l hk p hp
      simp only [reprEntries, List.mem_cons] at hp
      rcases hp with hp | hp
      · subst hp
        apply OneLine_append (hk l)
        intro c hc
        simp only [List.mem_cons] at hc
        rcases hc with h' | h' | h'
        · subst h'; decide
        · subst h'; decide
        · exact (ihx hx).1 l c h'
      · exact (ihr hr).2.2.1 l p hp
  | seq k items ih =>
    intro h
    obtain ⟨hk, hi⟩ := h
    obtain ⟨hl, hr, ht, he⟩ := brackets_OneLine k hk
    refine ⟨fun lvl => ?_, by intro l p hp; simp [reprItems] at hp, by intro l p hp; simp [reprEntries] at hp,
      by intro k l _ p hp; simp [reprEntries] at hp⟩
    simp only [repr1]
    split
    · cases hbe : k.brackets.empty with
      | none => exact OneLine_append hl hr
      | some e => exact he e hbe
    · cases lvl with
      | zero => exact OneLine_append (OneLine_append hl fill_OneLine) hr
      | succ l =>
        simp only []
        apply wrapPieces_OneLine _ _ _ hl hr ht
        intro p hp
        obtain ⟨q, hq, rfl⟩ := List.mem_map.mp hp
        split at hq
        · exact (ih hi).2.1 l q (mem_possiblySorted _ q hq)
        · exact (ih hi).2.1 l q hq
  | dict entries ih =>
    intro h
    refine ⟨fun lvl => ?_, by intro l p hp; simp [reprItems] at hp, by intro l p hp; simp [reprEntries] at hp,
      by intro k l _ p hp; simp [reprEntries] at hp⟩
    simp only [repr1]
    split
    · exact OneLine_lit "{}" (by decide)
    · cases lvl with
      | zero =>
        exact OneLine_append (OneLine_append (OneLine_lit "{" (by decide)) fill_OneLine) (OneLine_lit "}" (by decide))
      | succ l =>
        simp only []
        apply wrapPieces_OneLine _ _ _ (OneLine_lit "{" (by decide)) (OneLine_lit "}" (by decide)) OneLine_nil
        intro p hp
        obtain ⟨q, hq, rfl⟩ := List.mem_map.mp hp
        exact (ih h).2.2.1 l q (mem_possiblySorted _ q hq)

/-- `.replace("\\'", "'")` only removes characters -/
theorem mem_replQ : ∀ (s : Str) (c : Char), c ∈ replQ s → c ∈ s := by
  intro s
  fun_induction replQ s with
  | case1 r ih =>
    intro c hc
    rcases List.mem_cons.mp hc with h | h
    · subst h; simp
    · have := ih c h; simp [this]
  | case2 c r hne ih =>
    intro x hx
    rcases List.mem_cons.mp hx with h | h
    · subst h; simp
    · have := ih x h; simp [this]
  | case3 => intro c hc; simp at hc

theorem replQ_OneLine (s : Str) (h : OneLine s) : OneLine (replQ s) :=
  fun c hc => h c (mem_replQ s c hc)

end Glom.C05
