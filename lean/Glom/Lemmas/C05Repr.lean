import Glom.Spec.C05Repr
/-
  C05 — lemmas about the model of `bbrepr` (Model/C05Repr.lean) and Python's `repr` (Spec/C05Repr.lean).
-/
set_option linter.unusedSimpArgs false
namespace Glom.C05

/-! ### leaves -/

theorem elide_of_le (lim : Nat) (s : Str) (h : s.length ≤ lim) : elide lim s = s := by
  unfold elide
  rw [if_neg (by omega)]

theorem escChar_ne_nil (P : Char → Bool) (q c : Char) : 1 ≤ (escChar P q c).length := by
  unfold escChar
  repeat' split
  all_goals simp

theorem escBody_length (P : Char → Bool) (q : Char) : ∀ s : Str, s.length ≤ (escBody P q s).length
  | [] => by simp [escBody]
  | c :: r => by
    have h1 := escChar_ne_nil P q c
    have h2 := escBody_length P q r
    simp only [escBody, List.length_cons, List.length_append]
    omega

theorem pyStrRepr_length (P : Char → Bool) (s : Str) : s.length + 2 ≤ (pyStrRepr P s).length := by
  have := escBody_length P (quoteOf s) s
  simp only [pyStrRepr, List.length_cons, List.length_append, List.length_nil]
  omega

theorem reprStr_of_le (P : Char → Bool) (lim : Nat) (s : Str) (h : (pyStrRepr P s).length ≤ lim) :
    reprStr P lim s = pyStrRepr P s := by
  have h2 := pyStrRepr_length P s
  have ht : s.take lim = s := List.take_of_length_le (by omega)
  unfold reprStr
  simp only [ht]
  rw [if_neg (by omega)]

/-! ### sorting keeps the length -/

theorem insertBy_length {α} (le : α → α → Bool) (x : α) : ∀ l : List α, (insertBy le x l).length = l.length + 1
  | [] => rfl
  | y :: r => by
    simp only [insertBy]
    split
    · simp
    · simp [insertBy_length le x r]

theorem sortBy_length {α} (le : α → α → Bool) : ∀ l : List α, (sortBy le l).length = l.length
  | [] => rfl
  | x :: r => by simp [sortBy, insertBy_length, sortBy_length le r]

theorem possiblySorted_length (ps : List (RV × Str)) : (possiblySorted ps).length = ps.length := by
  unfold possiblySorted
  split
  · exact sortBy_length _ _
  · rfl

theorem reprItems_length (L : Limits) (P : Char → Bool) : ∀ (v : RV) (l : Nat), (reprItems L P v l).length = v.count
  | .cons x rest, l => by simp [reprItems, RV.count, reprItems_length L P rest l]
  | .nil, _ => by simp [reprItems, RV.count]
  | .int _, _ => by simp [reprItems, RV.count]
  | .str _, _ => by simp [reprItems, RV.count]
  | .other _ _, _ => by simp [reprItems, RV.count]
  | .seq _ _, _ => by simp [reprItems, RV.count]
  | .dict _, _ => by simp [reprItems, RV.count]

theorem reprEntries_length (L : Limits) (P : Char → Bool) : ∀ (v : RV) (l : Nat), 2 * (reprEntries L P v l).length ≤ v.count
  | .cons _ (.cons _ rest), l => by
    have := reprEntries_length L P rest l
    simp only [reprEntries, RV.count, List.length_cons]
    omega
  | .cons _ .nil, _ => by simp [reprEntries]
  | .cons _ (.int _), _ => by simp [reprEntries]
  | .cons _ (.str _), _ => by simp [reprEntries]
  | .cons _ (.other _ _), _ => by simp [reprEntries]
  | .cons _ (.seq _ _), _ => by simp [reprEntries]
  | .cons _ (.dict _), _ => by simp [reprEntries]
  | .nil, _ => by simp [reprEntries]
  | .int _, _ => by simp [reprEntries]
  | .str _, _ => by simp [reprEntries]
  | .other _ _, _ => by simp [reprEntries]
  | .seq _ _, _ => by simp [reprEntries]
  | .dict _, _ => by simp [reprEntries]

theorem pieces_length (c : Bool) (ps : List (RV × Str)) :
    ((if c = true then possiblySorted ps else ps).map (·.2)).length = ps.length := by
  cases c <;> simp [possiblySorted_length]

/-- no `...` piece, nothing cut: the pieces are joined as Python's `repr` joins them -/
theorem wrapPieces_of_le (b : Brackets) (lim : Nat) (pieces : List Str) (h : pieces.length ≤ lim) :
    wrapPieces b lim pieces =
      b.left ++ joinSep pieces ++ (if pieces.length == 1 then b.trail else []) ++ b.right := by
  unfold wrapPieces
  rw [List.take_of_length_le h, if_neg (by omega)]
  simp

/-! ### a value within the limits is rendered exactly -/

/-- the three statements proved together by induction over the (single) value type -/
def ExactStmt (L : Limits) (P : Char → Bool) (v : RV) : Prop :=
  (∀ lvl, fitsAt L P v lvl = true → repr1 L P v lvl = refRepr P v) ∧
  (∀ l, fitsItems L P v l = true → reprItems L P v l = refItems P v) ∧
  (∀ l, fitsItems L P v l = true → reprEntries L P v l = refEntries P v) ∧
  (∀ k l, (∀ lvl, fitsAt L P k lvl = true → repr1 L P k lvl = refRepr P k) →
      fitsItems L P (.cons k v) l = true → reprEntries L P (.cons k v) l = refEntries P (.cons k v))

theorem exact_all (L : Limits) (P : Char → Bool) : ∀ v : RV, ExactStmt L P v := by
  intro v
  induction v with
  | int n =>
    refine ⟨?_, by intros; simp [reprItems, refItems], by intros; simp [reprEntries, refEntries],
      by intros; simp [reprEntries, refEntries]⟩
    intro lvl h
    simp only [fitsAt, decide_eq_true_eq] at h
    simp only [repr1, refRepr]
    exact elide_of_le _ _ h
  | str s =>
    refine ⟨?_, by intros; simp [reprItems, refItems], by intros; simp [reprEntries, refEntries],
      by intros; simp [reprEntries, refEntries]⟩
    intro lvl h
    simp only [fitsAt, decide_eq_true_eq] at h
    simp only [repr1, refRepr]
    exact reprStr_of_le P _ s h
  | other r bn =>
    refine ⟨?_, by intros; simp [reprItems, refItems], by intros; simp [reprEntries, refEntries],
      by intros; simp [reprEntries, refEntries]⟩
    intro lvl h
    simp only [fitsAt, decide_eq_true_eq] at h
    simp only [repr1, refRepr, elide_of_le _ _ h]
  | nil =>
    exact ⟨by intros; simp [repr1, refRepr], by intros; simp [reprItems, refItems],
      by intros; simp [reprEntries, refEntries], by intros; simp [reprEntries, refEntries]⟩
  | cons x rest ihx ihr =>
    refine ⟨by intros; simp [repr1, refRepr], ?_, ?_, ?_⟩
    · intro l h
      simp only [fitsItems, Bool.and_eq_true] at h
      simp only [reprItems, refItems, ihx.1 l h.1, ihr.2.1 l h.2]
    · intro l h
      exact ihr.2.2.2 x l ihx.1 h
    · intro k l hk h
      simp only [fitsItems, Bool.and_eq_true] at h
      simp only [reprEntries, refEntries, hk l h.1, ihx.1 l h.2.1, ihr.2.2.1 l h.2.2]
  | seq k items ih =>
    refine ⟨?_, by intros; simp [reprItems, refItems], by intros; simp [reprEntries, refEntries],
      by intros; simp [reprEntries, refEntries]⟩
    intro lvl h
    by_cases hc : items.count = 0
    · simp [repr1, refRepr, hc]
    · cases lvl with
      | zero => simp [fitsAt, hc] at h
      | succ l =>
        simp only [fitsAt, Bool.and_eq_true, decide_eq_true_eq, Nat.add_sub_cancel] at h
        have hit := ih.2.1 l h.2
        have hlen : (refItems P items).length = items.count := by
          rw [← hit]; exact reprItems_length L P _ l
        simp only [repr1, refRepr, hit, beq_iff_eq, hc, if_false]
        rw [wrapPieces_of_le _ _ _ (by rw [pieces_length]; omega)]
        simp only [beq_iff_eq]
  | dict entries ih =>
    refine ⟨?_, by intros; simp [reprItems, refItems], by intros; simp [reprEntries, refEntries],
      by intros; simp [reprEntries, refEntries]⟩
    intro lvl h
    by_cases hc : entries.count = 0
    · simp [repr1, refRepr, hc]
    · cases lvl with
      | zero => simp [fitsAt, hc] at h
      | succ l =>
        simp only [fitsAt, Bool.and_eq_true, decide_eq_true_eq, Nat.add_sub_cancel] at h
        have hit := ih.2.2.1 l h.2
        simp only [repr1, refRepr, hit, beq_iff_eq, hc, if_false]
        have hl := reprEntries_length L P entries l
        rw [hit] at hl
        rw [wrapPieces_of_le _ _ _ (by simp only [List.length_map, possiblySorted_length]; omega)]
        simp

/-- **a value within the limits is rendered as Python's `repr` renders it** -/
theorem repr1_exact (L : Limits) (P : Char → Bool) (v : RV) (lvl : Nat) (h : fitsAt L P v lvl = true) :
    repr1 L P v lvl = refRepr P v := (exact_all L P v).1 lvl h

end Glom.C05
