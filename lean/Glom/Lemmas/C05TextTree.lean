import Glom.Lemmas.C05Text
import Glom.Lemmas.C05Spine
/-
  C05 — the rendered text of an evaluation tree: the frame store of a tree can be rendered
  (`Renderable`), and what the rows of `_unpack_stack` are at every start that is rendered.
-/
set_option linter.unusedSimpArgs false
namespace Glom.C05

/-! ### ranges -/

theorem rowsAt_frame_range : ∀ (K : Kids) (n j : Nat) (r : Row), r ∈ rowsAt n K j → n ≤ j →
    j ≤ r.frame ∧ r.frame < n + K.size := by
  intro K
  induction K with
  | nil => intro n j r h; simp [rowsAt] at h
  | cons ch i ks res rest ihks ihrest =>
    intro n j r h hnj
    simp only [Kids.size]
    rw [rowsAt] at h
    split at h
    · rename_i hj
      subst hj
      split at h
      · rcases List.mem_cons.mp h with h | h
        · subst h; simp; omega
        · have h2 := mem_of_mem_ite _ _ _ h
          have := ihrest _ _ r h2 (Nat.le_refl _)
          omega
      · split at h
        · simp at h; subst h; simp; omega
        · rename_i h' hlh
          have hr := lastHead_range ks none (j + 1) h' hlh
          rcases List.mem_cons.mp h with h | h
          · subst h; simp; omega
          · have h2 := mem_of_mem_ite _ _ _ (mem_of_mem_ite _ _ _ h)
            have := ihks _ _ r h2 hr.1
            omega
    · rename_i hj
      split at h
      · have := ihks _ _ r h (by omega)
        omega
      · have := ihrest _ _ r h (by omega)
        omega

theorem rowsAt_ne_nil : ∀ (K : Kids) (n j : Nat), n ≤ j → j < n + K.size → rowsAt n K j ≠ [] := by
  intro K
  induction K with
  | nil => intro n j h1 h2; simp [Kids.size] at h2; omega
  | cons ch i ks res rest ihks ihrest =>
    intro n j h1 h2
    simp only [Kids.size] at h2
    rw [rowsAt]
    split
    · split
      · simp
      · split <;> simp
    · split
      · exact ihks _ _ (by omega) (by omega)
      · exact ihrest _ _ (by omega) (by omega)

theorem frameAt_isSome : ∀ (K : Kids) (p : Nat) (prev : Option Nat) (n j : Nat), n ≤ j → j < n + K.size →
    (frameAt p prev n K j).isSome = true := by
  intro K
  induction K with
  | nil => intro p prev n j h1 h2; simp [Kids.size] at h2; omega
  | cons ch i ks res rest ihks ihrest =>
    intro p prev n j h1 h2
    simp only [Kids.size] at h2
    rw [frameAt]
    split
    · simp
    · split
      · exact ihks _ _ _ _ (by omega) (by omega)
      · exact ihrest _ _ _ _ (by omega) (by omega)

theorem failedHeads_range : ∀ (K : Kids) (h0 : Nat) (prev : Option Nat) (n b : Nat), b ∈ failedHeads h0 prev n K →
    b = h0 ∨ (n ≤ b ∧ b < n + K.size) := by
  intro K
  induction K with
  | nil => intro h0 prev n b h; simp [failedHeads] at h
  | cons ch i ks res rest _ ihrest =>
    intro h0 prev n b h
    simp only [Kids.size]
    simp only [failedHeads, List.mem_append] at h
    rcases h with h | h
    · split at h
      · simp only [List.mem_singleton] at h
        split at h
        · exact Or.inl h
        · exact Or.inr (by omega)
      · simp at h
    · rcases ihrest _ _ _ b h with h' | h'
      · split at h'
        · exact Or.inl h'
        · exact Or.inr (by omega)
      · exact Or.inr (by omega)

/-- CHILD_ERRORS of a frame are frames entered after it -/
theorem frameAt_childErrors_range : ∀ (K : Kids) (p : Nat) (prev : Option Nat) (n j : Nat) (f : Frame),
    frameAt p prev n K j = some f → n ≤ j → ∀ b, b ∈ f.childErrors → j < b ∧ b < n + K.size := by
  intro K
  induction K with
  | nil => intro p prev n j f h; simp [frameAt] at h
  | cons ch i ks res rest ihks ihrest =>
    intro p prev n j f h hnj b hb
    simp only [Kids.size]
    rw [frameAt] at h
    split at h
    · rename_i hj
      subst hj
      simp only [Option.some.injEq] at h
      split at h
      · rename_i hrs
        subst h
        simp only at hb
        have hrsz : 0 < rest.size := by
          cases rest with
          | nil => simp [Kids.startsChained] at hrs
          | cons _ _ _ _ _ => simp [Kids.size]; omega
        split at hb
        · simp only [List.mem_singleton] at hb; omega
        · simp at hb
      · subst h
        simp only at hb
        rcases failedHeads_range ks j none (j + 1) b hb with h' | h'
        · -- the head `j` itself is not among the heads of its own sub-evaluations
          exfalso
          have : ∀ (K : Kids) (n' : Nat), j < n' → j ∉ failedHeads j none n' K := by
            intro K
            induction K with
            | nil => intro n' _ hm; simp [failedHeads] at hm
            | cons ch' i' ks' res' rest' _ ih' =>
              intro n' hlt hm
              simp only [failedHeads, Option.isSome_none, Bool.and_false, Bool.false_eq_true, if_false,
                List.mem_append] at hm
              rcases hm with hm | hm
              · split at hm
                · simp at hm; omega
                · simp at hm
              · rcases failedHeads_range rest' n' (some n') (n' + 1 + ks'.size) j hm with h'' | h''
                · omega
                · omega
          exact this ks (j + 1) (by omega) (h' ▸ hb)
        · omega
    · rename_i hj
      split at h
      · have := ihks _ _ _ _ f h (by omega) b hb
        omega
      · have := ihrest _ _ _ _ f h (by omega) b hb
        omega


/-! ### the frame store of a tree can be rendered -/

theorem replay_frames (t : Tree) (h : chainOk true t.root = true) :
    (replay (events t)).size = 1 + t.root.size ∧
    ∀ j, 1 ≤ j → (replay (events t))[j]? = frameAt 0 none 1 t.root j := by
  have key := runKids t.root 0 [] 1 { frames := #[rootFrame] } rfl (by omega)
    (by simp [noPyOf, rootFrame]) trivial (by simp) (by simpa using h)
  simp only [List.head?_nil] at key
  obtain ⟨_, hsz, hf⟩ := key
  rw [replay_eq_run, events]
  refine ⟨hsz, ?_⟩
  intro j hj
  rw [hf j, if_pos hj]

/-- the loop of `_unpack_stack` from a call of the tree -/
theorem loop_rowsAt (t : Tree) (h : chainOk true t.root = true) (j : Nat) (hj : 1 ≤ j) (hj2 : j < 1 + t.root.size) :
    unpackLoop (replay (events t)) (replay (events t)).size j [] = rowsAt 1 t.root j := by
  obtain ⟨hsz, hf⟩ := replay_frames t h
  rw [unpackLoop_rowsAt (replay (events t)) t.root 0 none 1 (fun j h1 _ => hf j h1) j hj hj2 _ (by omega) []]
  simp

theorem unpack_rowsAt (t : Tree) (h : chainOk true t.root = true) (j : Nat) (hj : 1 ≤ j) (hj2 : j < 1 + t.root.size) :
    unpack (replay (events t)) j = trimTail (pushDown (rowsAt 1 t.root j)) := by
  unfold unpack
  rw [loop_rowsAt t h j hj hj2]

theorem trimTail_ne_nil (l : List Row) (h : l ≠ []) : trimTail l ≠ [] := by
  unfold trimTail
  have key : ∀ (l : List Row), l ≠ [] → dropNoneKeepOne l ≠ [] := by
    intro l
    induction l with
    | nil => intro h; exact absurd rfl h
    | cons x r ih =>
      intro _
      cases r with
      | nil => simp [dropNoneKeepOne]
      | cons y r' =>
        simp only [dropNoneKeepOne]
        split
        · exact ih (by simp)
        · simp
  have := key l.reverse (by simpa using h)
  simpa using this

theorem pushDown_ne_nil (l : List Row) (h : l ≠ []) : pushDown l ≠ [] := by
  intro h0
  have := congrArg List.length (pushDown_frames l)
  rw [h0] at this
  simp at this
  exact h (List.eq_nil_of_length_eq_zero this.symm)

/-- a row of `_unpack_stack` is a row of its loop, up to the error it shows -/
theorem unpack_mem_rowsAt (t : Tree) (h : chainOk true t.root = true) (j : Nat) (hj : 1 ≤ j) (hj2 : j < 1 + t.root.size)
    (r : Row) (hr : r ∈ unpack (replay (events t)) j) :
    ∃ r', r' ∈ rowsAt 1 t.root j ∧ r.frame = r'.frame ∧ r.branches = r'.branches ∧ (r.error = none ∨ r.error = r'.error) := by
  rw [unpack_rowsAt t h j hj hj2] at hr
  exact pushDown_mem _ r ((trimTail_prefix _).subset hr)

/-- **the text of a tree can be rendered**: from every call `h`, with fuel that covers the frames
    entered after it, every row has a frame and every branch is again such a call -/
theorem renderable_tree (t : Tree) (hc : chainOk true t.root = true) :
    ∀ (fuel h : Nat), 1 ≤ h → h < 1 + t.root.size → 1 + t.root.size ≤ h + fuel →
      Renderable (replay (events t)) fuel h
  | 0, h, _, h2, h3 => by omega
  | fuel + 1, h, h1, h2, h3 => by
    obtain ⟨hsz, hf⟩ := replay_frames t hc
    refine ⟨?_, ?_⟩
    · rw [unpack_rowsAt t hc h h1 h2]
      exact trimTail_ne_nil _ (pushDown_ne_nil _ (rowsAt_ne_nil t.root 1 h h1 h2))
    · intro r hr
      obtain ⟨r', hm, hfr, hbr, _⟩ := unpack_mem_rowsAt t hc h h1 h2 r hr
      have hrange := rowsAt_frame_range t.root 1 h r' hm h1
      rw [← hfr] at hrange
      have hsome := frameAt_isSome t.root 0 none 1 r.frame (by omega) hrange.2
      refine ⟨by rw [hf r.frame (by omega)]; exact hsome, ?_⟩
      intro b hb
      obtain ⟨f, hff⟩ := Option.isSome_iff_exists.mp hsome
      have hbo := unpack_branches _ h r hr
      have hbm : b ∈ f.childErrors := by
        rw [hbo] at hb
        simp only [branchesOf, hf r.frame (by omega), hff] at hb
        cases hlc : f.lastChild with
        | none => rw [hlc] at hb; simp at hb
        | some c =>
          rw [hlc] at hb
          simp only at hb
          split at hb
          · simp at hb
          · exact hb
      have hb2 := frameAt_childErrors_range t.root 0 none 1 r.frame f hff (by omega) b hbm
      exact renderable_tree t hc fuel b (by omega) hb2.2 (by omega)


/-! ### the rows at a start on the path of the root error -/

/-- (frame, branches) of a row: what its `Spec:` line and the texts below it depend on -/
def fb (r : Row) : Nat × List Nat := (r.frame, r.branches)

theorem pushDown_fb : ∀ (l : List Row), (pushDown l).map fb = l.map fb
  | [] => rfl
  | [_] => rfl
  | a :: b :: l => by
    simp only [pushDown, List.map_cons, pushDown_fb (b :: l)]
    split <;> rfl

theorem rowsAt_all_error (e : Nat) (K : Kids) (n j : Nat) (hop : onePath e K = true) (hs : startOK e n K j = true) :
    ∀ r, r ∈ rowsAt n K j → r.error ≠ none := by
  obtain ⟨A, B, k, h1, h2, h3, _⟩ := rowsAt_spine e K n j hop hs
  intro r hr
  rw [h1] at hr
  rcases List.mem_append.mp hr with h | h
  · rw [h3 r h]; simp
  · apply rowsAt_tail_error K n j r
    rw [h1]
    cases A with
    | nil => exact absurd rfl h2
    | cons a A' => simp [h]

theorem trimTail_all_error (l : List Row) (h : ∀ r, r ∈ l → r.error ≠ none) : trimTail (pushDown l) = pushDown l := by
  by_cases hl : l = []
  · subst hl; rfl
  · obtain ⟨r, hr⟩ : ∃ r, l.getLast? = some r := ⟨_, List.getLast?_eq_some_getLast hl⟩
    exact trimTail_of_last _ r (by rw [pushDown_getLast]; exact hr) (h r (List.mem_of_getLast? hr))

/-- at a start on the path of the root error nothing is trimmed -/
theorem unpack_startOK (t : Tree) (hwf : t.wf = true) (h : Nat) (hs : startOK t.err 1 t.root h = true) :
    unpack (replay (events t)) h = pushDown (rowsAt 1 t.root h) := by
  simp only [Tree.wf, Bool.and_eq_true] at hwf
  have hr := startOK_range t.err t.root 1 h hs
  have hop : onePath t.err t.root = true := by simpa [Tree.root, onePath] using hwf.2
  rw [unpack_rowsAt t hwf.1 h hr.1 hr.2]
  exact trimTail_all_error _ (rowsAt_all_error t.err t.root 1 h hop hs)

/-! ### clause 2: the path of the root error, in order -/

/-- a `Spec:` line shows the spec of frame `j` -/
def MF (fs : Array Frame) (j : Nat) (shown : Str) : Bool :=
  match fs[j]? with
  | some f => showsValue f.spec f.slen shown
  | none => false

/-- the `Spec:` texts of the rendered rows -/
def specTexts (fs : Array Frame) (width fuel h d : Nat) : List Str :=
  (shownRows fs fuel h d).filterMap (specOfShown fs width)

/-- what one row contributes, as a function of its frame and branches -/
def rowTexts (fs : Array Frame) (width fuel d : Nat) (p : Nat × List Nat) : List Str :=
  ((fs[p.1]?).map (fun f => specShown width f d)).toList ++ p.2.flatMap (fun b => specTexts fs width fuel b (d + 1))

theorem specTexts_succ (fs : Array Frame) (width fuel h d : Nat) :
    specTexts fs width (fuel + 1) h d = ((unpack fs h).map fb).flatMap (rowTexts fs width fuel d) := by
  unfold specTexts
  rw [shownRows_succ, List.filterMap_flatMap, List.flatMap_map]
  congr 1
  funext r
  simp only [List.filterMap_cons, List.filterMap_flatMap, rowTexts, fb, specOfShown, specTexts]
  cases fs[r.frame]? <;> simp

/-- a sublist of the frames of the rows is matched by the texts of these rows -/
theorem subseqBy_rowTexts (fs : Array Frame) (width fuel d : Nat) : ∀ (R : List (Nat × List Nat)) (l : List Nat),
    List.Sublist l (R.map (·.1)) → (∀ p, p ∈ R → (fs[p.1]?).isSome = true) →
    subseqBy (MF fs) l (R.flatMap (rowTexts fs width fuel d)) = true
  | [], l, hs, _ => by
    have : l = [] := by simpa using hs
    subst this; rfl
  | p :: R, l, hs, hf => by
    have ih := subseqBy_rowTexts fs width fuel d R
    have hfR : ∀ q, q ∈ R → (fs[q.1]?).isSome = true := fun q hq => hf q (List.mem_cons_of_mem _ hq)
    simp only [List.map_cons] at hs
    simp only [List.flatMap_cons]
    cases hs with
    | cons _ hs' => exact subseqBy_append_left _ _ _ _ (ih l hs' hfR)
    | cons_cons _ hs' =>
      rename_i l'
      obtain ⟨f, hff⟩ := Option.isSome_iff_exists.mp (hf p (by simp))
      simp only [rowTexts, hff, Option.map_some, Option.toList_some, List.cons_append, List.nil_append, subseqBy]
      have hm : MF fs p.1 (specShown width f d) = true := by
        simp only [MF, hff, specShown]
        exact showsValue_formatValue _ _ _
      rw [if_pos hm]
      exact subseqBy_append_left _ _ _ _ (ih l' hs' hfR)


theorem mem_map_fb_unpack (t : Tree) (hwf : t.wf = true) (h : Nat) (hs : startOK t.err 1 t.root h = true)
    (r : Row) (hr : r ∈ rowsAt 1 t.root h) : ∃ r', r' ∈ unpack (replay (events t)) h ∧ fb r' = fb r := by
  have : fb r ∈ (unpack (replay (events t)) h).map fb := by
    rw [unpack_startOK t hwf h hs, pushDown_fb]
    exact List.mem_map_of_mem hr
  obtain ⟨r', h1, h2⟩ := List.mem_map.mp this
  exact ⟨r', h1, h2⟩

/-- **the calls the root error propagated through have their `Spec:` lines in the text, in
    evaluation order** (from every start on the path of the error) -/
theorem spine_in_text (t : Tree) (hwf : t.wf = true) (width : Nat) :
    ∀ (m fuel h d : Nat), startOK t.err 1 t.root h = true → (spineAt t.err 1 t.root h).length ≤ m →
      Renderable (replay (events t)) fuel h →
      subseqBy (MF (replay (events t))) (spineAt t.err 1 t.root h)
        (specTexts (replay (events t)) width fuel h d) = true := by
  intro m
  induction m with
  | zero =>
    intro fuel h d _ hl _
    have : spineAt t.err 1 t.root h = [] := List.eq_nil_of_length_eq_zero (by omega)
    rw [this]
    exact subseqBy_nil _ _
  | succ m ih =>
    intro fuel h d hs hl hr
    cases fuel with
    | zero => simp [Renderable] at hr
    | succ fuel =>
      have hwf' := hwf
      simp only [Tree.wf, Bool.and_eq_true] at hwf'
      have hop : onePath t.err t.root = true := by simpa [Tree.root, onePath] using hwf'.2
      obtain ⟨_, hrows⟩ := hr
      obtain ⟨A, B, k, h1, h2, h3, h4, h5, h6, h7, h8, hx, hy, h9⟩ := rowsAt_spine t.err t.root 1 h hop hs
      rw [specTexts_succ, unpack_startOK t hwf h hs, pushDown_fb, h1, List.map_append, List.flatMap_append]
      have hframes : ∀ p, p ∈ (A ++ B).map fb → ((replay (events t))[p.1]?).isSome = true := by
        intro p hp
        obtain ⟨r, hrm, rfl⟩ := List.mem_map.mp hp
        obtain ⟨r', hr', hfb⟩ := mem_map_fb_unpack t hwf h hs r (by rw [h1]; exact hrm)
        have := (hrows r' hr').1
        have hfr : r'.frame = r.frame := congrArg Prod.fst hfb
        rw [hfr] at this
        exact this
      rcases h9 with h9 | ⟨hB, last, h', hl1, hl2, hn1, hn2⟩
      · -- all of the path is listed by these rows
        apply subseqBy_append_right
        have hsp : (spineAt t.err 1 t.root h).take k = spineAt t.err 1 t.root h := List.take_of_length_le (by omega)
        rw [hsp] at h7
        apply subseqBy_rowTexts _ _ _ _ _ _ (by simpa [fb, Function.comp_def] using h7)
        intro p hp
        exact hframes p (by rw [List.map_append]; exact List.mem_append_left _ hp)
      · -- the rows stop at a call that shows its branches; the path goes on in the last one
        subst hB
        obtain ⟨A0, rfl⟩ : ∃ A0, A = A0 ++ [last] := by
          rcases List.getLast?_eq_some_iff.mp hl1 with ⟨A0, hA0⟩
          exact ⟨A0, hA0⟩
        obtain ⟨init, hinit⟩ : ∃ init, last.branches = init ++ [h'] := List.getLast?_eq_some_iff.mp hl2
        simp only [List.map_nil, List.flatMap_nil, List.append_nil]
        have hsplit : ((A0 ++ [last]).map fb).flatMap (rowTexts (replay (events t)) width fuel d) =
            ((A0.map fb ++ [(last.frame, [])]).flatMap (rowTexts (replay (events t)) width fuel d)) ++
              (init.flatMap (fun b => specTexts (replay (events t)) width fuel b (d + 1)) ++
                specTexts (replay (events t)) width fuel h' (d + 1)) := by
          simp [rowTexts, fb, hinit]
        rw [hsplit, ← List.take_append_drop k (spineAt t.err 1 t.root h)]
        apply subseqBy_append
        · apply subseqBy_rowTexts
          · simpa [fb, Function.comp_def] using h7
          · intro p hp
            rcases List.mem_append.mp hp with hp | hp
            · exact hframes p (by simp only [List.append_nil, List.map_append]; exact List.mem_append_left _ hp)
            · simp only [List.mem_singleton] at hp
              subst hp
              exact hframes (fb last) (by simp)
        · apply subseqBy_append_left
          rw [← hn2]
          apply ih fuel h' (d + 1) hn1
          · rw [hn2, List.length_drop]; omega
          · obtain ⟨r', hr', hfb⟩ := mem_map_fb_unpack t hwf h hs last (by rw [h1]; simp)
            have hbr : r'.branches = last.branches := congrArg Prod.snd hfb
            exact (hrows r' hr').2 h' (by rw [hbr, hinit]; simp)


/-! ### frames and calls -/

/-- the frame of a call shows the call's spec and target -/
def SameInfo (c : CallInfo) (f : Frame) : Prop :=
  c.spec = f.spec ∧ c.target = f.target ∧ c.tlen = f.tlen ∧ c.slen = f.slen

theorem call_frameAt : ∀ (K : Kids) (o : Option Nat) (p : Nat) (prev : Option Nat) (n : Nat) (c : CallInfo),
    c ∈ callsK o n K → ∃ f, frameAt p prev n K c.idx = some f ∧ SameInfo c f := by
  intro K
  induction K with
  | nil => intro o p prev n c h; simp [callsK] at h
  | cons ch i ks res rest ihks ihrest =>
    intro o p prev n c h
    simp only [callsK, List.mem_cons, List.mem_append] at h
    rcases h with h | h | h
    · subst h
      simp only [frameAt, if_true]
      split <;> exact ⟨_, rfl, rfl, rfl, rfl, rfl⟩
    · have h1 := callsK_idx_ge ks _ _ c h
      have h2 := callsK_idx_lt ks _ _ c h
      obtain ⟨f, hf, hs⟩ := ihks (some n) n none (n + 1) c h
      exact ⟨f, by simp only [frameAt, if_neg (by omega : ¬ c.idx = n), if_pos h2]; exact hf, hs⟩
    · have h1 := callsK_idx_ge rest _ _ c h
      obtain ⟨f, hf, hs⟩ := ihrest o p (some n) (n + 1 + ks.size) c h
      exact ⟨f, by simp only [frameAt, if_neg (by omega : ¬ c.idx = n), if_neg (by omega : ¬ c.idx < n + 1 + ks.size)]; exact hf, hs⟩

theorem frameAt_call : ∀ (K : Kids) (o : Option Nat) (p : Nat) (prev : Option Nat) (n j : Nat) (f : Frame),
    frameAt p prev n K j = some f → ∃ c, c ∈ callsK o n K ∧ c.idx = j ∧ SameInfo c f := by
  intro K
  induction K with
  | nil => intro o p prev n j f h; simp [frameAt] at h
  | cons ch i ks res rest ihks ihrest =>
    intro o p prev n j f h
    rw [frameAt] at h
    split at h
    · rename_i hj
      refine ⟨_, by simp only [callsK]; exact List.mem_cons_self, hj.symm, ?_⟩
      simp only [Option.some.injEq] at h
      subst h
      split <;> exact ⟨rfl, rfl, rfl, rfl⟩
    · split at h
      · obtain ⟨c, hc, h1, h2⟩ := ihks (some n) n none (n + 1) j f h
        exact ⟨c, by simp only [callsK]; exact List.mem_cons_of_mem _ (List.mem_append_left _ hc), h1, h2⟩
      · obtain ⟨c, hc, h1, h2⟩ := ihrest o p (some n) (n + 1 + ks.size) j f h
        exact ⟨c, by simp only [callsK]; exact List.mem_cons_of_mem _ (List.mem_append_right _ hc), h1, h2⟩

/-- the frame store of a tree: frame 0 is glom()'s root scope, every other frame is a call's -/
theorem replay_frame_cases (t : Tree) (hc : chainOk true t.root = true) (j : Nat) (f : Frame)
    (hf : (replay (events t))[j]? = some f) :
    (j = 0 ∧ f.spec = [] ∧ f.target = []) ∨
    (1 ≤ j ∧ ∃ c, c ∈ callsOf (events t) ∧ c.idx = j ∧ SameInfo c f) := by
  by_cases hj : j = 0
  · subst hj
    left
    have key := runKids t.root 0 [] 1 { frames := #[rootFrame] } rfl (by omega)
      (by simp [noPyOf, rootFrame]) trivial (by simp) (by simpa using hc)
    simp only [List.head?_nil] at key
    obtain ⟨_, _, hfr⟩ := key
    have h0 := hfr 0
    rw [replay_eq_run, events] at hf
    rw [hf] at h0
    simp only [Nat.le_zero_eq, Nat.succ_ne_zero, if_false, show ¬ (1 ≤ 0) by omega] at h0
    simp [oldUpd, pUpd, rootFrame] at h0
    subst h0
    exact ⟨rfl, rfl, rfl⟩
  · right
    refine ⟨by omega, ?_⟩
    rw [(replay_frames t hc).2 j (by omega)] at hf
    rw [callsOf_events]
    exact frameAt_call t.root none 0 none 1 j f hf


/-! ### clause 5: every row shows a call that raised, or a completed step of a chain that raised -/

/-- the error a row of the loop shows is the CUR_ERROR of its frame -/
theorem unpackLoop_error (fs : Array Frame) : ∀ (fuel cur : Nat) (acc : List Row),
    (∀ r, r ∈ acc → r.error = (fs[r.frame]?).bind (·.curError)) →
    ∀ r, r ∈ unpackLoop fs fuel cur acc → r.error = (fs[r.frame]?).bind (·.curError) := by
  intro fuel
  induction fuel with
  | zero => intro cur acc hacc r hr; exact hacc r (by simpa [unpackLoop] using hr)
  | succ fuel ih =>
    intro cur acc hacc r hr
    unfold unpackLoop at hr
    cases hf : fs[cur]? with
    | none => rw [hf] at hr; exact hacc r hr
    | some f =>
      rw [hf] at hr
      simp only at hr
      cases hlc : f.lastChild with
      | none =>
        rw [hlc] at hr
        simp only [List.mem_append, List.mem_singleton] at hr
        rcases hr with hr | hr
        · exact hacc r hr
        · subst hr; simp [hf]
      | some child =>
        rw [hlc] at hr
        simp only at hr
        generalize (if f.childErrors == [child] then [] else f.childErrors) = br at hr
        have hacc' : ∀ r, r ∈ acc ++ [⟨cur, f.curError, br⟩] → r.error = (fs[r.frame]?).bind (·.curError) := by
          intro r hr
          simp only [List.mem_append, List.mem_singleton] at hr
          rcases hr with hr | hr
          · exact hacc r hr
          · subst hr; simp [hf]
        cases hc : br.contains child with
        | true => rw [hc] at hr; exact hacc' r hr
        | false =>
          rw [hc] at hr
          simp only [Bool.false_eq_true, if_false] at hr
          split at hr
          · exact hacc' r hr
          · exact ih child _ hacc' r hr

/-- the chained enters of a tree: (frame of the previous step, frame of the chained step) -/
def chainK (prev : Option Nat) (n : Nat) : Kids → List (Nat × Nat)
  | .nil => []
  | .cons ch _ ks _ rest =>
    (match ch, prev with
     | true, some q => [(q, n)]
     | _, _ => []) ++ chainK none (n + 1) ks ++ chainK (some n) (n + 1 + ks.size) rest

theorem chainedEnters_go_append : ∀ (evs : List Ev) (next : Nat) (acc : List (Nat × Nat)),
    chainedEnters.go evs next acc = acc ++ chainedEnters.go evs next []
  | [], _, acc => by simp [chainedEnters.go]
  | .enter p fl _ _ _ _ _ :: rest, next, acc => by
    simp only [chainedEnters.go]
    rw [chainedEnters_go_append rest (next + 1) (if fl = true then acc ++ [(p, next)] else acc),
      chainedEnters_go_append rest (next + 1) (if fl = true then [] ++ [(p, next)] else [])]
    cases fl <;> simp
  | .exitOk :: rest, next, acc => by
    simp only [chainedEnters.go]
    exact chainedEnters_go_append rest next acc
  | .exitErr _ :: rest, next, acc => by
    simp only [chainedEnters.go]
    exact chainedEnters_go_append rest next acc

theorem chainedEnters_go_evKids : ∀ (K : Kids) (p : Nat) (prev : Option Nat) (n : Nat) (tail : List Ev),
    chainedEnters.go (evKids p prev n K ++ tail) n [] =
      chainK prev n K ++ chainedEnters.go tail (n + K.size) [] := by
  intro K
  induction K with
  | nil => intro p prev n tail; simp [evKids, chainK, Kids.size]
  | cons ch i ks res rest ihks ihrest =>
    intro p prev n tail
    simp only [evKids, List.cons_append, List.append_assoc, chainedEnters.go]
    rw [chainedEnters_go_append, ihks n none (n + 1)]
    have hnext : n + 1 + ks.size + rest.size = n + (Kids.cons ch i ks res rest).size := by
      simp [Kids.size]; omega
    have hexit : ∀ tl, chainedEnters.go (exitEv res :: tl) (n + 1 + ks.size) [] = chainedEnters.go tl (n + 1 + ks.size) [] := by
      intro tl; cases res <;> simp [exitEv, chainedEnters.go]
    rw [hexit, ihrest p (some n) (n + 1 + ks.size), hnext]
    simp only [chainK, List.append_assoc]
    congr 1
    cases ch <;> cases prev <;> simp

theorem chainedEnters_events (t : Tree) : chainedEnters (events t) = chainK none 1 t.root := by
  have := chainedEnters_go_evKids t.root 0 none 1 []
  simpa [chainedEnters, events, chainedEnters.go] using this


theorem callsK_length : ∀ (K : Kids) (o : Option Nat) (n : Nat), (callsK o n K).length = K.size := by
  intro K
  induction K with
  | nil => intro o n; rfl
  | cons ch i ks res rest ihks ihrest =>
    intro o n
    simp only [callsK, List.length_cons, List.length_append, ihks, ihrest, Kids.size]
    omega

/-- a frame with a CUR_ERROR is a call that raised, or a completed step of a chain a later step of
    which raised -/
theorem roc_of_curError (calls : List CallInfo) (chn : List (Nat × Nat)) :
    ∀ (K : Kids) (o : Option Nat) (p : Nat) (prev : Option Nat) (n j : Nat) (f : Frame) (fuel : Nat),
    frameAt p prev n K j = some f → f.curError ≠ none → n ≤ j → n + K.size ≤ j + fuel →
    (∀ c, c ∈ callsK o n K → c ∈ calls) → (∀ pd, pd ∈ chainK prev n K → pd ∈ chn) →
    raisedOrChain calls chn fuel j = true := by
  intro K
  induction K with
  | nil => intro o p prev n j f fuel h; simp [frameAt] at h
  | cons ch i ks res rest ihks ihrest =>
    intro o p prev n j f fuel h hcur hnj hfuel hcalls hchn
    simp only [Kids.size] at hfuel
    have hcalls_ks : ∀ c, c ∈ callsK (some n) (n + 1) ks → c ∈ calls :=
      fun c hc => hcalls c (by simp only [callsK]; exact List.mem_cons_of_mem _ (List.mem_append_left _ hc))
    have hcalls_rest : ∀ c, c ∈ callsK o (n + 1 + ks.size) rest → c ∈ calls :=
      fun c hc => hcalls c (by simp only [callsK]; exact List.mem_cons_of_mem _ (List.mem_append_right _ hc))
    have hchn_ks : ∀ pd, pd ∈ chainK none (n + 1) ks → pd ∈ chn :=
      fun pd hpd => hchn pd (by simp only [chainK]; exact List.mem_append_left _ (List.mem_append_right _ hpd))
    have hchn_rest : ∀ pd, pd ∈ chainK (some n) (n + 1 + ks.size) rest → pd ∈ chn :=
      fun pd hpd => hchn pd (by simp only [chainK]; exact List.mem_append_right _ hpd)
    rw [frameAt] at h
    split at h
    · rename_i hj
      subst hj
      obtain ⟨fuel', rfl⟩ : ∃ k, fuel = k + 1 := ⟨fuel - 1, by omega⟩
      simp only [Option.some.injEq] at h
      simp only [raisedOrChain, Bool.or_eq_true, List.any_eq_true, Bool.and_eq_true, beq_iff_eq]
      split at h
      · -- handed on by chain_child: the chain's later step raised
        rename_i hrs
        right
        subst h
        simp only at hcur
        cases rest with
        | nil => simp [Kids.startsChained] at hrs
        | cons ch2 i2 ks2 res2 rest2 =>
          simp only [Kids.startsChained] at hrs
          subst hrs
          refine ⟨(j, j + 1 + ks.size), hchn_rest _ (by simp [chainK]), rfl, ?_⟩
          have hfr := frameAt_isSome (.cons true i2 ks2 res2 rest2) p (some j) (j + 1 + ks.size) (j + 1 + ks.size)
            (Nat.le_refl _) (by simp [Kids.size]; omega)
          obtain ⟨f', hf'⟩ := Option.isSome_iff_exists.mp hfr
          have hc' := frameAt_cur_first p (some j) (j + 1 + ks.size) (.cons true i2 ks2 res2 rest2)
          rw [hf'] at hc'
          simp only [Option.bind_some] at hc'
          apply ihrest o p (some j) (j + 1 + ks.size) (j + 1 + ks.size) f' fuel' hf' (by rw [hc']; exact hcur)
            (Nat.le_refl _) (by omega) hcalls_rest hchn_rest
      · -- the call raised
        left
        subst h
        simp only at hcur
        refine ⟨_, hcalls _ (by simp only [callsK]; exact List.mem_cons_self), rfl, ?_⟩
        cases res with
        | none => exact absurd rfl hcur
        | some x => rfl
    · rename_i hj
      split at h
      · exact ihks (some n) n none (n + 1) j f fuel h hcur (by omega) (by omega) hcalls_ks hchn_ks
      · exact ihrest o p (some n) (n + 1 + ks.size) j f fuel h hcur (by omega) (by omega) hcalls_rest hchn_rest

theorem foldl_ok_true {β} (P Q : β → Bool) : ∀ (l : List β) (ok : Bool), ok = true → (∀ x, x ∈ l → P x = true ∨ Q x = true) →
    l.foldl (fun ok x => if P x then true else ok && Q x) ok = true
  | [], ok, h, _ => h
  | x :: l, ok, h, hall => by
    simp only [List.foldl_cons]
    apply foldl_ok_true P Q l _ _ (fun y hy => hall y (List.mem_cons_of_mem _ hy))
    rcases hall x (by simp) with h1 | h1
    · simp [h1]
    · subst h; simp [h1]


/-! ### clause 4: the failed sub-evaluations of a call on the path -/

/-- the direct sub-evaluations (frame, outcome) of a sibling list -/
def topIdx (n : Nat) : Kids → List (Nat × Option Nat)
  | .nil => []
  | .cons _ _ ks res rest => (n, res) :: topIdx (n + 1 + ks.size) rest

/-- **a sub-evaluation that raised is listed by the rows started at the head of its chain
    segment**, and that head is among the failed heads (CHILD_ERRORS) of the enclosing call.
    (`h0`: the head of the segment the first sibling continues, when it is chained after `prev`) -/
theorem raised_kid_rows : ∀ (K : Kids) (h0 : Nat) (prev : Option Nat) (n : Nat) (first : Bool) (b x : Nat),
    chainOk first K = true → (b, some x) ∈ topIdx n K →
    ∃ hb, hb ∈ failedHeads h0 prev n K ∧
      ((hb = h0 ∧ (K.startsChained && prev.isSome) = true ∧ segRes K = some x ∧ ∃ br, (⟨b, some x, br⟩ : Row) ∈ rowsAt n K n) ∨
       (n ≤ hb ∧ segResAt n K hb = some x ∧ ∃ br, (⟨b, some x, br⟩ : Row) ∈ rowsAt n K hb)) := by
  intro K
  induction K with
  | nil => intro h0 prev n first b x _ h; simp [topIdx] at h
  | cons ch i ks res rest _ ihrest =>
    intro h0 prev n first b x hck hb
    simp only [chainOk, Bool.and_eq_true, Bool.or_eq_true, Bool.not_eq_true'] at hck
    obtain ⟨⟨⟨_, _⟩, hres⟩, hckr⟩ := hck
    simp only [topIdx, List.mem_cons, Prod.mk.injEq] at hb
    rcases hb with ⟨rfl, hrx⟩ | hb
    · -- the first sibling raised: the chain segment ends here
      subst hrx
      have hrs : rest.startsChained = false := by
        rcases hres with h | h
        · exact h
        · simp at h
      have hrow : ∃ br, (⟨b, some x, br⟩ : Row) ∈ rowsAt b (.cons ch i ks (some x) rest) b := by
        rw [rowsAt]
        simp only [if_true, hrs, Bool.false_eq_true, if_false]
        cases lastHead none (b + 1) ks with
        | none => exact ⟨[], by simp⟩
        | some h => exact ⟨_, List.mem_cons_self⟩
      refine ⟨if (ch && prev.isSome) = true then h0 else b, ?_, ?_⟩
      · simp only [failedHeads, Option.isSome_some, if_true, List.mem_append, List.mem_singleton]
        left; trivial
      · by_cases hc : (ch && prev.isSome) = true
        · left
          rw [if_pos hc]
          refine ⟨rfl, ?_, ?_, hrow⟩
          · simpa [Kids.startsChained] using hc
          · simp [segRes, hrs]
        · right
          rw [if_neg hc]
          exact ⟨Nat.le_refl _, by simp [segResAt, segRes, hrs], hrow⟩
    · -- a later sibling raised
      obtain ⟨hb', hmem, hcase⟩ := ihrest (if (ch && prev.isSome) = true then h0 else n) (some n) (n + 1 + ks.size) false b x hckr hb
      refine ⟨hb', ?_, ?_⟩
      · simp only [failedHeads, List.mem_append]
        right; exact hmem
      · rcases hcase with ⟨hh, hcont, hseg, br, hrow⟩ | ⟨hge, hseg, br, hrow⟩
        · -- it belongs to the segment this sibling belongs to
          have hrs : rest.startsChained = true := by
            simp only [Bool.and_eq_true, Option.isSome_some, and_true] at hcont; exact hcont
          have hrow' : (⟨b, some x, br⟩ : Row) ∈ rowsAt n (.cons ch i ks res rest) n := by
            rw [rowsAt]
            simp only [if_true, hrs, hseg, Option.isNone_some, Bool.false_eq_true, if_false]
            exact List.mem_cons_of_mem _ hrow
          by_cases hc : (ch && prev.isSome) = true
          · left
            rw [if_pos hc] at hh
            refine ⟨hh, by simpa [Kids.startsChained] using hc, by simp [segRes, hrs, hseg], br, hrow'⟩
          · right
            rw [if_neg hc] at hh
            subst hh
            exact ⟨Nat.le_refl _, by simp [segResAt, segRes, hrs, hseg], br, hrow'⟩
        · right
          refine ⟨by omega, ?_, br, ?_⟩
          · simp only [segResAt, if_neg (by omega : ¬ hb' = n), if_neg (by omega : ¬ hb' < n + 1 + ks.size)]
            exact hseg
          · simp only [rowsAt, if_neg (by omega : ¬ hb' = n), if_neg (by omega : ¬ hb' < n + 1 + ks.size)]
            exact hrow


theorem callsK_outer : ∀ (K : Kids) (o : Option Nat) (n : Nat) (c : CallInfo), c ∈ callsK o n K →
    c.outer = o ∨ ∃ m, n ≤ m ∧ m < n + K.size ∧ c.outer = some m := by
  intro K
  induction K with
  | nil => intro o n c h; simp [callsK] at h
  | cons ch i ks res rest ihks ihrest =>
    intro o n c h
    simp only [Kids.size]
    simp only [callsK, List.mem_cons, List.mem_append] at h
    rcases h with h | h | h
    · subst h; exact Or.inl rfl
    · rcases ihks _ _ c h with h' | ⟨m, h1, h2, h3⟩
      · exact Or.inr ⟨n, by omega, by omega, h'⟩
      · exact Or.inr ⟨m, by omega, by omega, h3⟩
    · rcases ihrest _ _ c h with h' | ⟨m, h1, h2, h3⟩
      · exact Or.inl h'
      · exact Or.inr ⟨m, by omega, by omega, h3⟩

/-- a call whose enclosing call is the enclosing call of the sibling list is one of the siblings -/
theorem callsK_top : ∀ (K : Kids) (o : Option Nat) (n : Nat) (c : CallInfo), c ∈ callsK o n K → c.outer = o →
    (∀ q, o = some q → q < n) → (c.idx, c.result) ∈ topIdx n K := by
  intro K
  induction K with
  | nil => intro o n c h; simp [callsK] at h
  | cons ch i ks res rest _ ihrest =>
    intro o n c h ho hq
    simp only [callsK, List.mem_cons, List.mem_append] at h
    simp only [topIdx, List.mem_cons]
    rcases h with h | h | h
    · subst h; exact Or.inl rfl
    · exfalso
      rcases callsK_outer ks _ _ c h with h' | ⟨m, h1, _, h3⟩
      · rw [h'] at ho; have := hq n ho.symm; omega
      · rw [h3] at ho; have := hq m ho.symm; omega
    · exact Or.inr (ihrest o _ c h ho (fun q hq' => by have := hq q hq'; omega))

theorem callsK_split (ch : Bool) (i : Info) (ks : Kids) (res : Option Nat) (rest : Kids) (o : Option Nat) (n : Nat)
    (c : CallInfo) (h : c ∈ callsK o n (.cons ch i ks res rest)) :
    (c.idx = n ∧ c.result = res ∧ c.outer = o) ∨
    (n + 1 ≤ c.idx ∧ c.idx < n + 1 + ks.size ∧ c ∈ callsK (some n) (n + 1) ks) ∨
    (n + 1 + ks.size ≤ c.idx ∧ c ∈ callsK o (n + 1 + ks.size) rest) := by
  simp only [callsK, List.mem_cons, List.mem_append] at h
  rcases h with h | h | h
  · subst h; exact Or.inl ⟨rfl, rfl, rfl⟩
  · exact Or.inr (Or.inl ⟨callsK_idx_ge _ _ _ _ h, callsK_idx_lt _ _ _ _ h, h⟩)
  · exact Or.inr (Or.inr ⟨callsK_idx_ge _ _ _ _ h, h⟩)

/-- rows started at the head of a chain segment that raised all show an error -/
theorem rowsAt_seg_all_error (K : Kids) (n j x : Nat) (h : segResAt n K j = some x) :
    ∀ r, r ∈ rowsAt n K j → r.error ≠ none := by
  intro r hr
  have hh := rowsAt_head_error K n j x h
  cases hl : rowsAt n K j with
  | nil => rw [hl] at hr; simp at hr
  | cons a l =>
    rw [hl] at hr hh
    rcases List.mem_cons.mp hr with hr | hr
    · subst hr; simp at hh; simp [hh]
    · exact rowsAt_tail_error K n j r (by rw [hl]; exact hr)


/-- what is shown of a failed sub-evaluation `b` of the call of row `r` -/
def BranchShown (n : Nat) (K : Kids) (j : Nat) (r : Row) (b x : Nat) : Prop :=
  ∃ hb br, r.frame < hb ∧ hb < n + K.size ∧ (⟨b, some x, br⟩ : Row) ∈ rowsAt n K hb ∧
    (∀ r', r' ∈ rowsAt n K hb → r'.error ≠ none) ∧
    (hb ∈ r.branches ∨ (r.branches = [] ∧ ∀ r', r' ∈ rowsAt n K hb → r' ∈ rowsAt n K j))

theorem BranchShown_lift_ks (ch : Bool) (i : Info) (ks : Kids) (res : Option Nat) (rest : Kids) (n j j' : Nat)
    (r : Row) (b x : Nat) (hrf : n + 1 ≤ r.frame)
    (hsub : ∀ r', r' ∈ rowsAt (n + 1) ks j' → r' ∈ rowsAt n (.cons ch i ks res rest) j)
    (h : BranchShown (n + 1) ks j' r b x) : BranchShown n (.cons ch i ks res rest) j r b x := by
  obtain ⟨hb, br, h1, h2, h3, h4, h5⟩ := h
  have heq : rowsAt n (.cons ch i ks res rest) hb = rowsAt (n + 1) ks hb := by
    simp only [rowsAt, if_neg (by omega : ¬ hb = n), if_pos h2]
  refine ⟨hb, br, h1, by simp only [Kids.size]; omega, by rw [heq]; exact h3, by rw [heq]; exact h4, ?_⟩
  rcases h5 with h5 | ⟨h5, h6⟩
  · exact Or.inl h5
  · exact Or.inr ⟨h5, fun r' hr' => hsub r' (h6 r' (by rw [← heq]; exact hr'))⟩

theorem BranchShown_lift_rest (ch : Bool) (i : Info) (ks : Kids) (res : Option Nat) (rest : Kids) (n j j' : Nat)
    (r : Row) (b x : Nat) (hrf : n + 1 + ks.size ≤ r.frame)
    (hsub : ∀ r', r' ∈ rowsAt (n + 1 + ks.size) rest j' → r' ∈ rowsAt n (.cons ch i ks res rest) j)
    (h : BranchShown (n + 1 + ks.size) rest j' r b x) : BranchShown n (.cons ch i ks res rest) j r b x := by
  obtain ⟨hb, br, h1, h2, h3, h4, h5⟩ := h
  have heq : rowsAt n (.cons ch i ks res rest) hb = rowsAt (n + 1 + ks.size) rest hb := by
    simp only [rowsAt, if_neg (by omega : ¬ hb = n), if_neg (by omega : ¬ hb < n + 1 + ks.size)]
  refine ⟨hb, br, h1, by simp only [Kids.size]; omega, by rw [heq]; exact h3, by rw [heq]; exact h4, ?_⟩
  rcases h5 with h5 | ⟨h5, h6⟩
  · exact Or.inl h5
  · exact Or.inr ⟨h5, fun r' hr' => hsub r' (h6 r' (by rw [← heq]; exact hr'))⟩

/-- **every failed direct sub-evaluation `b` of a call that raised and has a row**: the rows started
    at the head `hb` of `b`'s chain segment list `b` with its error; they all show errors; and `hb`
    is a branch of the row, or the row has no branches and the rows go on with those of `hb` -/
theorem row_branches_shown : ∀ (K : Kids) (o : Option Nat) (n j : Nat) (first : Bool), n ≤ j →
    (∀ q, o = some q → q < n) → chainOk first K = true →
    ∀ r, r ∈ rowsAt n K j → ∀ c, c ∈ callsK o n K → c.idx = r.frame → c.result ≠ none →
    ∀ b, b ∈ callsK o n K → b.outer = some r.frame → ∀ x, b.result = some x →
    BranchShown n K j r b.idx x := by
  intro K
  induction K with
  | nil => intro o n j first _ _ _ r hr; simp [rowsAt] at hr
  | cons ch i ks res rest ihks ihrest =>
    intro o n j first hnj hq hck r hr c hc hci hcr b hb hbo x hbx
    have hck' := hck
    simp only [chainOk, Bool.and_eq_true, Bool.or_eq_true, Bool.not_eq_true'] at hck'
    obtain ⟨⟨⟨_, hckk⟩, hres⟩, hckr⟩ := hck'
    -- the two recursive situations
    have in_ks : ∀ j', n + 1 ≤ j' → r ∈ rowsAt (n + 1) ks j' →
        (∀ r', r' ∈ rowsAt (n + 1) ks j' → r' ∈ rowsAt n (.cons ch i ks res rest) j) →
        BranchShown n (.cons ch i ks res rest) j r b.idx x := by
      intro j' hj' hr' hsub
      have hrange := rowsAt_frame_range ks (n + 1) j' r hr' hj'
      have hc' : c ∈ callsK (some n) (n + 1) ks := by
        rcases callsK_split ch i ks res rest o n c hc with h | h | h
        · omega
        · exact h.2.2
        · omega
      have hb' : b ∈ callsK (some n) (n + 1) ks := by
        rcases callsK_split ch i ks res rest o n b hb with h | h | h
        · rw [h.2.2] at hbo
          have := hq r.frame hbo
          omega
        · exact h.2.2
        · rcases callsK_outer rest _ _ b h.2 with h' | ⟨m, h1, _, h3⟩
          · rw [h'] at hbo; have := hq r.frame hbo; omega
          · rw [h3] at hbo; simp at hbo; omega
      exact BranchShown_lift_ks ch i ks res rest n j j' r b.idx x (by omega) hsub
        (ihks (some n) (n + 1) j' true hj' (fun q hq' => by simp at hq'; omega) hckk r hr' c hc' hci hcr b hb' hbo x hbx)
    have in_rest : ∀ j', n + 1 + ks.size ≤ j' → r ∈ rowsAt (n + 1 + ks.size) rest j' →
        (∀ r', r' ∈ rowsAt (n + 1 + ks.size) rest j' → r' ∈ rowsAt n (.cons ch i ks res rest) j) →
        BranchShown n (.cons ch i ks res rest) j r b.idx x := by
      intro j' hj' hr' hsub
      have hrange := rowsAt_frame_range rest (n + 1 + ks.size) j' r hr' hj'
      have hc' : c ∈ callsK o (n + 1 + ks.size) rest := by
        rcases callsK_split ch i ks res rest o n c hc with h | h | h
        · omega
        · omega
        · exact h.2
      have hb' : b ∈ callsK o (n + 1 + ks.size) rest := by
        rcases callsK_split ch i ks res rest o n b hb with h | h | h
        · rw [h.2.2] at hbo
          have := hq r.frame hbo
          omega
        · rcases callsK_outer ks _ _ b h.2.2 with h' | ⟨m, _, h2, h3⟩
          · rw [h'] at hbo; simp at hbo; omega
          · rw [h3] at hbo; simp at hbo; omega
        · exact h.2
      exact BranchShown_lift_rest ch i ks res rest n j j' r b.idx x (by omega) hsub
        (ihrest o (n + 1 + ks.size) j' false hj' (fun q hq' => by have := hq q hq'; omega) hckr r hr' c hc' hci hcr b hb' hbo x hbx)
    by_cases hjn : j = n
    · subst hjn
      cases hrs : rest.startsChained with
      | true =>
        have hrows : rowsAt j (.cons ch i ks res rest) j =
            ⟨j, segRes rest, []⟩ :: (if (segRes rest).isNone then [] else rowsAt (j + 1 + ks.size) rest (j + 1 + ks.size)) := by
          rw [rowsAt]; simp only [if_true, hrs]
        rw [hrows] at hr
        rcases List.mem_cons.mp hr with hr | hr
        · -- a completed step: it returned normally
          exfalso
          subst hr
          simp only at hci
          rcases callsK_split ch i ks res rest o j c hc with h | h | h
          · rcases hres with h' | h'
            · rw [hrs] at h'; simp at h'
            · rw [h.2.1] at hcr
              cases res with
              | none => exact hcr rfl
              | some _ => simp at h'
          · omega
          · omega
        · by_cases hsn : (segRes rest).isNone = true
          · rw [if_pos hsn] at hr; simp at hr
          · rw [if_neg hsn] at hr
            apply in_rest (j + 1 + ks.size) (Nat.le_refl _) hr
            intro r' hr'
            rw [hrows, if_neg hsn]
            exact List.mem_cons_of_mem _ hr'
      | false =>
        cases hlh : lastHead none (j + 1) ks with
        | none =>
          have hrows : rowsAt j (.cons ch i ks res rest) j = [⟨j, res, []⟩] := by
            rw [rowsAt]; simp only [if_true, hrs, Bool.false_eq_true, if_false, hlh]
          rw [hrows] at hr
          simp only [List.mem_singleton] at hr
          subst hr
          -- no sub-evaluation at all
          exfalso
          have hk := lastHead_none_first _ _ hlh
          subst hk
          rcases callsK_split ch i .nil res rest o j b hb with h | h | h
          · rw [h.2.2] at hbo; have := hq _ hbo; simp at this
          · simp [callsK] at h
          · rcases callsK_outer rest _ _ b h.2 with h' | ⟨m, h1, _, h3⟩
            · rw [h'] at hbo; have := hq _ hbo; simp at this
            · rw [h3] at hbo; simp [Kids.size] at hbo h1; omega
        | some h =>
          generalize hbr : (if failedHeads j none (j + 1) ks == [h] then [] else failedHeads j none (j + 1) ks) = br
          have hrows : rowsAt j (.cons ch i ks res rest) j =
              ⟨j, res, br⟩ :: (if br.contains h then [] else if (lastRes ks).isNone then [] else rowsAt (j + 1) ks h) := by
            rw [rowsAt]
            simp only [if_true, hrs, Bool.false_eq_true, if_false, hlh, hbr]
          rw [hrows] at hr
          have hlr := lastHead_range ks none (j + 1) h hlh
          rcases List.mem_cons.mp hr with hr | hr
          · -- the row of the call itself: `b` is one of its direct sub-evaluations
            subst hr
            simp only at hbo hci ⊢
            have hb' : b ∈ callsK (some j) (j + 1) ks := by
              rcases callsK_split ch i ks res rest o j b hb with h' | h' | h'
              · rw [h'.2.2] at hbo; have := hq _ hbo; omega
              · exact h'.2.2
              · rcases callsK_outer rest _ _ b h'.2 with h'' | ⟨m, h1, _, h3⟩
                · rw [h''] at hbo; have := hq _ hbo; omega
                · rw [h3] at hbo; simp at hbo; omega
            have htop := callsK_top ks (some j) (j + 1) b hb' hbo (fun q hq' => by simp at hq'; omega)
            rw [hbx] at htop
            obtain ⟨hb0, hmem, hcase⟩ := raised_kid_rows ks j none (j + 1) true b.idx x hckk htop
            rcases hcase with ⟨_, hcont, _⟩ | ⟨hge, hseg, br', hrow⟩
            · simp at hcont
            · have hrg : hb0 < j + 1 + ks.size := by
                rcases failedHeads_range ks j none (j + 1) hb0 hmem with h' | h'
                · omega
                · exact h'.2
              have heq : rowsAt j (.cons ch i ks res rest) hb0 = rowsAt (j + 1) ks hb0 := by
                simp only [rowsAt, if_neg (by omega : ¬ hb0 = j), if_pos hrg]
              refine ⟨hb0, br', by simp only; omega, by simp only [Kids.size]; omega, by rw [heq]; exact hrow,
                by rw [heq]; exact rowsAt_seg_all_error ks (j + 1) hb0 x hseg, ?_⟩
              by_cases hfh : (failedHeads j none (j + 1) ks == [h]) = true
              · -- the only failed segment is the last one: shown linearly below the row
                right
                have hbn : br = [] := by rw [← hbr, if_pos hfh]
                have hfe : failedHeads j none (j + 1) ks = [h] := by simpa using hfh
                rw [hfe] at hmem
                simp only [List.mem_singleton] at hmem
                subst hmem
                refine ⟨hbn, ?_⟩
                intro r' hr'
                rw [heq] at hr'
                have hlast : lastRes ks = some x := by rw [← segResAt_lastHead ks none (j + 1) hb0 hlh]; exact hseg
                rw [hrows, hbn]
                simp [hlast, hr']
              · left
                have hbn : br = failedHeads j none (j + 1) ks := by rw [← hbr, if_neg hfh]
                simp only [hbn]
                exact hmem
          · by_cases hc1 : br.contains h = true
            · rw [if_pos hc1] at hr; simp at hr
            · rw [if_neg hc1] at hr
              by_cases hc2 : (lastRes ks).isNone = true
              · rw [if_pos hc2] at hr; simp at hr
              · rw [if_neg hc2] at hr
                apply in_ks h hlr.1 hr
                intro r' hr'
                rw [hrows, if_neg hc1, if_neg hc2]
                exact List.mem_cons_of_mem _ hr'
    · by_cases hjk : j < n + 1 + ks.size
      · have heq : rowsAt n (.cons ch i ks res rest) j = rowsAt (n + 1) ks j := by
          simp only [rowsAt, if_neg hjn, if_pos hjk]
        rw [heq] at hr
        exact in_ks j (by omega) hr (fun r' hr' => by rw [heq]; exact hr')
      · have heq : rowsAt n (.cons ch i ks res rest) j = rowsAt (n + 1 + ks.size) rest j := by
          simp only [rowsAt, if_neg hjn, if_neg hjk]
        rw [heq] at hr
        exact in_rest j (by omega) hr (fun r' hr' => by rw [heq]; exact hr')


theorem shownRows_nested (fs : Array Frame) (fuel h d : Nat) (r : Row) (b : Nat) (hr : r ∈ unpack fs h) (hb : b ∈ r.branches) :
    ∀ p, p ∈ shownRows fs fuel b (d + 1) → p ∈ shownRows fs (fuel + 1) h d := by
  intro p hp
  rw [shownRows_succ]
  exact List.mem_flatMap.mpr ⟨r, hr, List.mem_cons_of_mem _ (List.mem_flatMap.mpr ⟨b, hb, hp⟩)⟩

theorem shownRows_row (fs : Array Frame) (fuel h d : Nat) (r : Row) (hr : r ∈ unpack fs h) :
    (d, r) ∈ shownRows fs (fuel + 1) h d := by
  rw [shownRows_succ]
  exact List.mem_flatMap.mpr ⟨r, hr, by simp⟩

theorem pushDown_error_exists : ∀ (l : List Row) (r : Row) (x : Nat), r ∈ l → r.error = some x →
    ∃ r', r' ∈ pushDown l ∧ r'.error = some x
  | [], r, _, h, _ => by simp at h
  | [a], r, x, h, he => by
    simp only [List.mem_singleton] at h; subst h
    exact ⟨r, by simp [pushDown], he⟩
  | a :: b :: l, r, x, h, he => by
    simp only [pushDown]
    rcases List.mem_cons.mp h with h | h
    · subst h
      by_cases hab : (r.error == b.error) = true
      · have hb : b.error = some x := by
          have : r.error = b.error := by simpa using hab
          rw [← this]; exact he
        obtain ⟨r', hr', he'⟩ := pushDown_error_exists (b :: l) b x (by simp) hb
        exact ⟨r', List.mem_cons_of_mem _ hr', he'⟩
      · exact ⟨r, by rw [if_neg hab]; simp, he⟩
    · obtain ⟨r', hr', he'⟩ := pushDown_error_exists (b :: l) r x h he
      exact ⟨r', List.mem_cons_of_mem _ hr', he'⟩

/-- **every call on the path of the root error has a row at a start that is rendered** -/
theorem spine_row_context (t : Tree) (hwf : t.wf = true) :
    ∀ (m fuel h d : Nat), startOK t.err 1 t.root h = true → (spineAt t.err 1 t.root h).length ≤ m →
      Renderable (replay (events t)) fuel h → ∀ j, j ∈ spineAt t.err 1 t.root h →
      ∃ fuel' h' d', startOK t.err 1 t.root h' = true ∧ Renderable (replay (events t)) (fuel' + 1) h' ∧
        (∀ p, p ∈ shownRows (replay (events t)) (fuel' + 1) h' d' → p ∈ shownRows (replay (events t)) fuel h d) ∧
        ∃ r, r ∈ rowsAt 1 t.root h' ∧ r.frame = j := by
  intro m
  induction m with
  | zero =>
    intro fuel h d _ hl _ j hj
    have : spineAt t.err 1 t.root h = [] := List.eq_nil_of_length_eq_zero (by omega)
    rw [this] at hj; simp at hj
  | succ m ih =>
    intro fuel h d hs hl hr j hj
    cases fuel with
    | zero => simp [Renderable] at hr
    | succ fuel =>
      have hwf' := hwf
      simp only [Tree.wf, Bool.and_eq_true] at hwf'
      have hop : onePath t.err t.root = true := by simpa [Tree.root, onePath] using hwf'.2
      obtain ⟨A, B, k, h1, h2, h3, h4, h5, h6, h7, h8, hx, hy, h9⟩ := rowsAt_spine t.err t.root 1 h hop hs
      rw [← List.take_append_drop k (spineAt t.err 1 t.root h)] at hj
      rcases List.mem_append.mp hj with hj | hj
      · have hjA : j ∈ A.map (·.frame) := h7.subset hj
        obtain ⟨r, hrA, hrf⟩ := List.mem_map.mp hjA
        exact ⟨fuel, h, d, hs, hr, fun p hp => hp, r, by rw [h1]; exact List.mem_append_left _ hrA, hrf⟩
      · rcases h9 with h9 | ⟨hB, last, h', hl1, hl2, hn1, hn2⟩
        · rw [h9, List.drop_length] at hj; simp at hj
        · obtain ⟨_, hrows⟩ := hr
          obtain ⟨r', hr', hfb⟩ := mem_map_fb_unpack t hwf h hs last
            (by rw [h1]; exact List.mem_append_left _ (List.mem_of_getLast? hl1))
          have hbr : r'.branches = last.branches := congrArg Prod.snd hfb
          have hh' : h' ∈ r'.branches := by rw [hbr]; exact List.mem_of_getLast? hl2
          obtain ⟨fuel', h'', d', hs'', hr'', hsub, hrow⟩ := ih fuel h' (d + 1) hn1
            (by rw [hn2, List.length_drop]; omega) ((hrows r' hr').2 h' hh') j (by rw [hn2]; exact hj)
          exact ⟨fuel', h'', d', hs'', hr'', fun p hp => shownRows_nested _ fuel h d r' h' hr' hh' p (hsub p hp), hrow⟩


theorem mem_pushDown_frame (l : List Row) (r : Row) (hr : r ∈ l) : ∃ r', r' ∈ pushDown l ∧ r'.frame = r.frame := by
  have : r.frame ∈ (pushDown l).map (·.frame) := by
    rw [pushDown_frames]; exact List.mem_map_of_mem hr
  obtain ⟨r', h1, h2⟩ := List.mem_map.mp this
  exact ⟨r', h1, h2⟩

/-- **a failed direct sub-evaluation of a call on the path is rendered, and so is its error** -/
theorem failed_branch_shown (t : Tree) (hwf : t.wf = true) (fuel : Nat)
    (hren : Renderable (replay (events t)) fuel 1)
    (c b : CallInfo) (x : Nat) (hc : c ∈ callsOf (events t)) (hcr : c.result = some t.err)
    (hb : b ∈ callsOf (events t)) (hbo : b.outer = some c.idx) (hbx : b.result = some x) :
    (∃ p, p ∈ shownRows (replay (events t)) fuel 1 0 ∧ p.2.frame = b.idx) ∧
    (∃ p, p ∈ shownRows (replay (events t)) fuel 1 0 ∧ p.2.error = some x) := by
  have hwf' := hwf
  simp only [Tree.wf, Bool.and_eq_true] at hwf'
  obtain ⟨hck, ho⟩ := hwf'
  have hstart : startOK t.err 1 t.root 1 = true := by simp [startOK, Tree.root, segRes, Kids.startsChained]
  -- the call is on the path: it has a row at a rendered start
  have hsp : (spine (callsOf (events t)) t.err).map (·.idx) = spineAt t.err 1 t.root 1 := by
    rw [spine_events t ho]
    simp [spineAt, Tree.root, spineK]
  have hcs : c.idx ∈ spineAt t.err 1 t.root 1 := by
    rw [← hsp]
    exact List.mem_map_of_mem (List.mem_filter.mpr ⟨hc, by simp [hcr]⟩)
  obtain ⟨fuel', h', d', hs', hr', hsub, rc, hrc, hrcf⟩ :=
    spine_row_context t hwf _ fuel 1 0 hstart (Nat.le_refl _) hren c.idx hcs
  rw [callsOf_events] at hc hb
  have hrange' := startOK_range t.err t.root 1 h' hs'
  obtain ⟨hb0, br, h1, h2, h3, h4, h5⟩ := row_branches_shown t.root none 1 h' true hrange'.1 (by simp) hck rc hrc
    c hc hrcf.symm (by rw [hcr]; simp) b hb (by rw [hrcf]; exact hbo) x hbx
  have hunp := unpack_startOK t hwf h' hs'
  obtain ⟨_, hrows⟩ := hr'
  rcases h5 with h5 | ⟨_, h6⟩
  · -- the head of its chain segment is a branch of the row
    obtain ⟨r', hr'm, hfb⟩ := mem_map_fb_unpack t hwf h' hs' rc hrc
    have hbr : r'.branches = rc.branches := congrArg Prod.snd hfb
    have hbm : hb0 ∈ r'.branches := by rw [hbr]; exact h5
    have hrb := (hrows r' hr'm).2 hb0 hbm
    cases fuel' with
    | zero => simp [Renderable] at hrb
    | succ f =>
      have hrcge : 1 ≤ rc.frame := (rowsAt_frame_range t.root 1 h' rc hrc hrange'.1).1 |> fun h => by omega
      have hunb : unpack (replay (events t)) hb0 = pushDown (rowsAt 1 t.root hb0) := by
        rw [unpack_rowsAt t hck hb0 (by omega) (by omega)]
        exact trimTail_all_error _ h4
      have hin : ∀ p, p ∈ shownRows (replay (events t)) (f + 1) hb0 (d' + 1) → p ∈ shownRows (replay (events t)) fuel 1 0 :=
        fun p hp => hsub p (shownRows_nested _ (f + 1) h' d' r' hb0 hr'm hbm p hp)
      obtain ⟨rb, hrb1, hrb2⟩ := mem_pushDown_frame _ _ h3
      obtain ⟨re, hre1, hre2⟩ := pushDown_error_exists _ _ x h3 rfl
      exact ⟨⟨(d' + 1, rb), hin _ (shownRows_row _ f hb0 (d' + 1) rb (by rw [hunb]; exact hrb1)), hrb2⟩,
        ⟨(d' + 1, re), hin _ (shownRows_row _ f hb0 (d' + 1) re (by rw [hunb]; exact hre1)), hre2⟩⟩
  · -- the row has no branches: the rows go on with those of the head
    have h3' := h6 _ h3
    obtain ⟨rb, hrb1, hrb2⟩ := mem_pushDown_frame _ _ h3'
    obtain ⟨re, hre1, hre2⟩ := pushDown_error_exists _ _ x h3' rfl
    exact ⟨⟨(d', rb), hsub _ (shownRows_row _ fuel' h' d' rb (by rw [hunp]; exact hrb1)), hrb2⟩,
      ⟨(d', re), hsub _ (shownRows_row _ fuel' h' d' re (by rw [hunp]; exact hre1)), hre2⟩⟩


/-! ### the text of a tree (helpers of Props/C05Text) -/

/-- the text of the model's trace, as the list of its lines -/
def traceLines (t : Tree) (errText : Nat → Str) (width : Nat) : List Str :=
  splitLines (traceText (events t) errText t.err width).toList

theorem traceText_toList (evs : List Ev) (errText : Nat → Str) (e width : Nat) :
    (traceText evs errText e width).toList =
      formatTrace (replay evs) errText e width ((replay evs).size + 2) 1 0 none true := by
  simp [traceText]

/-- the frame store of a well-formed tree can be rendered with the fuel `traceText` gives -/
theorem renderable_top (t : Tree) (hc : chainOk true t.root = true) :
    Renderable (replay (events t)) ((replay (events t)).size + 2) 1 := by
  apply renderable_tree t hc
  · omega
  · simp [Tree.root, Kids.size]; omega
  · rw [(replay_frames t hc).1]; omega

theorem frames_NoNL_spec (t : Tree) (hc : chainOk true t.root = true)
    (hrepr : ∀ c, c ∈ callsOf (events t) → NoNL c.spec) (j : Nat) (f : Frame)
    (hf : (replay (events t))[j]? = some f) : NoNL f.spec := by
  rcases replay_frame_cases t hc j f hf with ⟨_, h, _⟩ | ⟨_, c, hcm, _, hs⟩
  · rw [h]; intro c hc; simp at hc
  · rw [← hs.1]; exact hrepr c hcm


theorem unpack_root_head (t : Tree) (hwf : t.wf = true) :
    ∃ r rest, unpack (replay (events t)) 1 = r :: rest ∧ r.frame = 1 := by
  have hstart : startOK t.err 1 t.root 1 = true := by simp [startOK, Tree.root, segRes, Kids.startsChained]
  rw [unpack_startOK t hwf 1 hstart]
  have hne : (rowsAt 1 t.root 1).head?.map (·.frame) = some 1 := by
    simp only [rowsAt, Tree.root, if_true, Kids.startsChained, Bool.false_eq_true, if_false]
    cases lastHead none (1 + 1) t.kids <;> simp
  have hfr := pushDown_frames (rowsAt 1 t.root 1)
  cases hp : pushDown (rowsAt 1 t.root 1) with
  | nil =>
    rw [hp] at hfr
    cases hr : rowsAt 1 t.root 1 with
    | nil => rw [hr] at hne; simp at hne
    | cons a l => rw [hr] at hfr; simp at hfr
  | cons r rest =>
    refine ⟨r, rest, rfl, ?_⟩
    rw [hp] at hfr
    cases hr : rowsAt 1 t.root 1 with
    | nil => rw [hr] at hne; simp at hne
    | cons a l =>
      rw [hr] at hfr hne
      simp only [List.map_cons, List.cons.injEq] at hfr
      simp only [List.head?_cons, Option.map_some, Option.some.injEq] at hne
      rw [hfr.1, hne]


theorem frames_one_line (t : Tree) (hc : chainOk true t.root = true)
    (hrepr : ∀ c, c ∈ callsOf (events t) → NoNL c.spec ∧ NoNL c.target) : FramesOneLine (replay (events t)) := by
  intro j f hf
  rcases replay_frame_cases t hc j f hf with ⟨_, h1, h2⟩ | ⟨_, c, hcm, _, hs⟩
  · rw [h1, h2]; exact ⟨fun c hc => by simp at hc, fun c hc => by simp at hc⟩
  · rw [← hs.1, ← hs.2.1]; exact hrepr c hcm



/-! ### more about the rows of a tree (for clause 3) -/

/-- a row of `_unpack_stack` from a call `h`: its frame is entered at or after `h`, its branches after it -/
theorem unpack_row_facts (t : Tree) (hc : chainOk true t.root = true) (h : Nat) (h1 : 1 ≤ h) (h2 : h < 1 + t.root.size)
    (r : Row) (hr : r ∈ unpack (replay (events t)) h) :
    h ≤ r.frame ∧ r.frame < 1 + t.root.size ∧ ∀ b, b ∈ r.branches → r.frame < b ∧ b < 1 + t.root.size := by
  obtain ⟨hsz, hf⟩ := replay_frames t hc
  obtain ⟨r', hm, hfr, hbr, _⟩ := unpack_mem_rowsAt t hc h h1 h2 r hr
  have hrange := rowsAt_frame_range t.root 1 h r' hm h1
  rw [← hfr] at hrange
  refine ⟨hrange.1, hrange.2, ?_⟩
  intro b hb
  have hsome := frameAt_isSome t.root 0 none 1 r.frame (by omega) hrange.2
  obtain ⟨f, hff⟩ := Option.isSome_iff_exists.mp hsome
  have hbo := unpack_branches _ h r hr
  have hbm : b ∈ f.childErrors := by
    rw [hbo] at hb
    simp only [branchesOf, hf r.frame (by omega), hff] at hb
    cases hlc : f.lastChild with
    | none => rw [hlc] at hb; simp at hb
    | some c =>
      rw [hlc] at hb
      simp only at hb
      split at hb
      · simp at hb
      · exact hb
  exact frameAt_childErrors_range t.root 0 none 1 r.frame f hff (by omega) b hbm

/-- every rendered row's frame is entered at or after the start -/
theorem shownRows_frame_ge (t : Tree) (hc : chainOk true t.root = true) :
    ∀ (fuel h d : Nat), 1 ≤ h → h < 1 + t.root.size → ∀ p, p ∈ shownRows (replay (events t)) fuel h d → h ≤ p.2.frame
  | 0, _, _, _, _, p, hp => by simp [shownRows] at hp
  | fuel + 1, h, d, h1, h2, p, hp => by
    rw [shownRows_succ] at hp
    obtain ⟨r, hr, hp⟩ := List.mem_flatMap.mp hp
    obtain ⟨hr1, hr2, hr3⟩ := unpack_row_facts t hc h h1 h2 r hr
    rcases List.mem_cons.mp hp with hp | hp
    · subst hp; exact hr1
    · obtain ⟨b, hb, hp⟩ := List.mem_flatMap.mp hp
      have := shownRows_frame_ge t hc fuel b (d + 1) (by have := hr3 b hb; omega) (hr3 b hb).2 p hp
      have := hr3 b hb
      omega

/-- a row rendered `k` levels below the start is entered at least `k` calls after it -/
theorem shownRows_depth_le (t : Tree) (hc : chainOk true t.root = true) :
    ∀ (fuel h d : Nat), 1 ≤ h → h < 1 + t.root.size → ∀ p, p ∈ shownRows (replay (events t)) fuel h d →
      p.1 + h ≤ d + p.2.frame
  | 0, _, _, _, _, p, hp => by simp [shownRows] at hp
  | fuel + 1, h, d, h1, h2, p, hp => by
    rw [shownRows_succ] at hp
    obtain ⟨r, hr, hp⟩ := List.mem_flatMap.mp hp
    obtain ⟨hr1, hr2, hr3⟩ := unpack_row_facts t hc h h1 h2 r hr
    rcases List.mem_cons.mp hp with hp | hp
    · subst hp; simp only; omega
    · obtain ⟨b, hb, hp⟩ := List.mem_flatMap.mp hp
      have := shownRows_depth_le t hc fuel b (d + 1) (by have := hr3 b hb; omega) (hr3 b hb).2 p hp
      have := hr3 b hb
      omega

theorem mem_dropLast_cons {α} (a : α) (X : List α) (r : α) (h : r ∈ (a :: X).dropLast) :
    X ≠ [] ∧ (r = a ∨ r ∈ X.dropLast) := by
  cases X with
  | nil => simp at h
  | cons b Y =>
    simp only [List.dropLast_cons_cons, List.mem_cons] at h
    exact ⟨by simp, h⟩

/-- **only the last row of the loop can have branches** (the loop goes on below a row only when the
    row's single failed segment is its last one) -/
theorem rowsAt_nonlast_branches : ∀ (K : Kids) (n j : Nat) (r : Row), r ∈ (rowsAt n K j).dropLast → r.branches = [] := by
  intro K
  induction K with
  | nil => intro n j r h; simp [rowsAt] at h
  | cons ch i ks res rest ihks ihrest =>
    intro n j r h
    by_cases hjn : j = n
    · subst hjn
      cases hrs : rest.startsChained with
      | true =>
        have hrows : rowsAt j (.cons ch i ks res rest) j =
            ⟨j, segRes rest, []⟩ :: (if (segRes rest).isNone then [] else rowsAt (j + 1 + ks.size) rest (j + 1 + ks.size)) := by
          rw [rowsAt]; simp only [if_true, hrs]
        rw [hrows] at h
        obtain ⟨_, h'⟩ := mem_dropLast_cons _ _ r h
        rcases h' with h' | h'
        · subst h'; rfl
        · by_cases hsn : (segRes rest).isNone = true
          · rw [if_pos hsn] at h'; simp at h'
          · rw [if_neg hsn] at h'; exact ihrest _ _ r h'
      | false =>
        cases hlh : lastHead none (j + 1) ks with
        | none =>
          have hrows : rowsAt j (.cons ch i ks res rest) j = [⟨j, res, []⟩] := by
            rw [rowsAt]; simp only [if_true, hrs, Bool.false_eq_true, if_false, hlh]
          rw [hrows] at h; simp at h
        | some h0 =>
          generalize hbr : (if failedHeads j none (j + 1) ks == [h0] then [] else failedHeads j none (j + 1) ks) = br
          have hrows : rowsAt j (.cons ch i ks res rest) j =
              ⟨j, res, br⟩ :: (if br.contains h0 then [] else if (lastRes ks).isNone then [] else rowsAt (j + 1) ks h0) := by
            rw [rowsAt]
            simp only [if_true, hrs, Bool.false_eq_true, if_false, hlh, hbr]
          rw [hrows] at h
          obtain ⟨hne, h'⟩ := mem_dropLast_cons _ _ r h
          by_cases hc1 : br.contains h0 = true
          · rw [if_pos hc1] at hne; exact absurd rfl hne
          · rw [if_neg hc1] at hne h'
            by_cases hc2 : (lastRes ks).isNone = true
            · rw [if_pos hc2] at hne; exact absurd rfl hne
            · rw [if_neg hc2] at h'
              rcases h' with h' | h'
              · subst h'
                simp only
                -- the loop goes on: the last sub-evaluation raised, so its head is a failed head
                by_cases hfh : (failedHeads j none (j + 1) ks == [h0]) = true
                · rw [← hbr, if_pos hfh]
                · exfalso
                  cases hlk : lastRes ks with
                  | none => rw [hlk] at hc2; simp at hc2
                  | some x =>
                    have hgl := failedHeads_getLast x ks j none (j + 1) hlk
                    rw [hlh] at hgl
                    have hmem : h0 ∈ failedHeads j none (j + 1) ks := List.mem_of_getLast? hgl
                    rw [← hbr, if_neg hfh] at hc1
                    exact hc1 (by simpa using hmem)
              · exact ihks _ _ r h'
    · by_cases hjk : j < n + 1 + ks.size
      · have heq : rowsAt n (.cons ch i ks res rest) j = rowsAt (n + 1) ks j := by
          simp only [rowsAt, if_neg hjn, if_pos hjk]
        rw [heq] at h; exact ihks _ _ r h
      · have heq : rowsAt n (.cons ch i ks res rest) j = rowsAt (n + 1 + ks.size) rest j := by
          simp only [rowsAt, if_neg hjn, if_neg hjk]
        rw [heq] at h; exact ihrest _ _ r h

/-- the frames of the rows of the loop increase -/
theorem rowsAt_sorted : ∀ (K : Kids) (n j : Nat), n ≤ j → ((rowsAt n K j).map (·.frame)).Pairwise (· < ·) := by
  intro K
  induction K with
  | nil => intro n j _; simp [rowsAt]
  | cons ch i ks res rest ihks ihrest =>
    intro n j hnj
    by_cases hjn : j = n
    · subst hjn
      cases hrs : rest.startsChained with
      | true =>
        have hrows : rowsAt j (.cons ch i ks res rest) j =
            ⟨j, segRes rest, []⟩ :: (if (segRes rest).isNone then [] else rowsAt (j + 1 + ks.size) rest (j + 1 + ks.size)) := by
          rw [rowsAt]; simp only [if_true, hrs]
        rw [hrows]
        simp only [List.map_cons, List.pairwise_cons]
        by_cases hsn : (segRes rest).isNone = true
        · rw [if_pos hsn]; simp
        · rw [if_neg hsn]
          refine ⟨?_, ihrest _ _ (Nat.le_refl _)⟩
          intro a ha
          obtain ⟨r, hr, rfl⟩ := List.mem_map.mp ha
          have := rowsAt_frame_range rest _ _ r hr (Nat.le_refl _)
          omega
      | false =>
        cases hlh : lastHead none (j + 1) ks with
        | none =>
          have hrows : rowsAt j (.cons ch i ks res rest) j = [⟨j, res, []⟩] := by
            rw [rowsAt]; simp only [if_true, hrs, Bool.false_eq_true, if_false, hlh]
          rw [hrows]; simp
        | some h0 =>
          generalize hbr : (if failedHeads j none (j + 1) ks == [h0] then [] else failedHeads j none (j + 1) ks) = br
          have hrows : rowsAt j (.cons ch i ks res rest) j =
              ⟨j, res, br⟩ :: (if br.contains h0 then [] else if (lastRes ks).isNone then [] else rowsAt (j + 1) ks h0) := by
            rw [rowsAt]
            simp only [if_true, hrs, Bool.false_eq_true, if_false, hlh, hbr]
          rw [hrows]
          have hlr := lastHead_range ks none (j + 1) h0 hlh
          simp only [List.map_cons, List.pairwise_cons]
          by_cases hc1 : br.contains h0 = true
          · rw [if_pos hc1]; simp
          · rw [if_neg hc1]
            by_cases hc2 : (lastRes ks).isNone = true
            · rw [if_pos hc2]; simp
            · rw [if_neg hc2]
              refine ⟨?_, ihks _ _ hlr.1⟩
              intro a ha
              obtain ⟨r, hr, rfl⟩ := List.mem_map.mp ha
              have := rowsAt_frame_range ks _ _ r hr hlr.1
              omega
    · by_cases hjk : j < n + 1 + ks.size
      · have heq : rowsAt n (.cons ch i ks res rest) j = rowsAt (n + 1) ks j := by
          simp only [rowsAt, if_neg hjn, if_pos hjk]
        rw [heq]; exact ihks _ _ (by omega)
      · have heq : rowsAt n (.cons ch i ks res rest) j = rowsAt (n + 1 + ks.size) rest j := by
          simp only [rowsAt, if_neg hjn, if_neg hjk]
        rw [heq]; exact ihrest _ _ (by omega)

theorem clearErr_append_singleton : ∀ (A0 : List Row) (last : Row),
    clearErr (A0 ++ [last]) = A0.map (fun r => { r with error := none }) ++ [last]
  | [], last => rfl
  | [a], last => rfl
  | a :: b :: r, last => by
    have := clearErr_append_singleton (b :: r) last
    simp only [List.cons_append] at this ⊢
    simp only [clearErr, this, List.map_cons]
    rfl

end Glom.C05
