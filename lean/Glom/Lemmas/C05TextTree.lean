import Glom.Lemmas.C05Text
import Glom.Lemmas.C05Spine
/-
  C05 — the rendered text of an evaluation tree: the frame store of a tree can be rendered
  (`Renderable`), and what the rows of `_unpack_stack` are at every start that is rendered.
-/
set_option linter.unusedSimpArgs false
namespace Glom.C05

/-! ### ranges -/

theorem rowsAt_frame_range : ∀ (K : Kids) (n j : Nat) (r : Row), r ∈ rowsAt n K j → n ≤ j →
    j ≤ r.frame ∧ r.frame < n + K.size := by
  intro K
  induction K with
  | nil => intro n j r h; simp [rowsAt] at h
  | cons ch i ks res rest ihks ihrest =>
    intro n j r h hnj
    simp only [Kids.size]
    rw [rowsAt] at h
    split at h
    · rename_i hj
      subst hj
      split at h
      · rcases List.mem_cons.mp h with h | h
        · subst h; simp; omega
        · have h2 := mem_of_mem_ite _ _ _ h
          have := ihrest _ _ r h2 (Nat.le_refl _)
          omega
      · split at h
        · simp at h; subst h; simp; omega
        · rename_i h' hlh
          have hr := lastHead_range ks none (j + 1) h' hlh
          rcases List.mem_cons.mp h with h | h
          · subst h; simp; omega
          · have h2 := mem_of_mem_ite _ _ _ (mem_of_mem_ite _ _ _ h)
            have := ihks _ _ r h2 hr.1
            omega
    · rename_i hj
      split at h
      · have := ihks _ _ r h (by omega)
        omega
      · have := ihrest _ _ r h (by omega)
        omega

theorem rowsAt_ne_nil : ∀ (K : Kids) (n j : Nat), n ≤ j → j < n + K.size → rowsAt n K j ≠ [] := by
  intro K
  induction K with
  | nil => intro n j h1 h2; simp [Kids.size] at h2; omega
  | cons ch i ks res rest ihks ihrest =>
    intro n j h1 h2
    simp only [Kids.size] at h2
    rw [rowsAt]
    split
    · split
      · simp
      · split <;> simp
    · split
      · exact ihks _ _ (by omega) (by omega)
      · exact ihrest _ _ (by omega) (by omega)

theorem frameAt_isSome : ∀ (K : Kids) (p : Nat) (prev : Option Nat) (n j : Nat), n ≤ j → j < n + K.size →
    (frameAt p prev n K j).isSome = true := by
  intro K
  induction K with
  | nil => intro p prev n j h1 h2; simp [Kids.size] at h2; omega
  | cons ch i ks res rest ihks ihrest =>
    intro p prev n j h1 h2
    simp only [Kids.size] at h2
    rw [frameAt]
    split
    · simp
    · split
      · exact ihks _ _ _ _ (by omega) (by omega)
      · exact ihrest _ _ _ _ (by omega) (by omega)

theorem failedHeads_range : ∀ (K : Kids) (h0 : Nat) (prev : Option Nat) (n b : Nat), b ∈ failedHeads h0 prev n K →
    b = h0 ∨ (n ≤ b ∧ b < n + K.size) := by
  intro K
  induction K with
  | nil => intro h0 prev n b h; simp [failedHeads] at h
  | cons ch i ks res rest _ ihrest =>
    intro h0 prev n b h
    simp only [Kids.size]
    simp only [failedHeads, List.mem_append] at h
    rcases h with h | h
    · split at h
      · simp only [List.mem_singleton] at h
        split at h
        · exact Or.inl h
        · exact Or.inr (by omega)
      · simp at h
    · rcases ihrest _ _ _ b h with h' | h'
      · split at h'
        · exact Or.inl h'
        · exact Or.inr (by omega)
      · exact Or.inr (by omega)

/-- CHILD_ERRORS of a frame are frames entered after it -/
theorem frameAt_childErrors_range : ∀ (K : Kids) (p : Nat) (prev : Option Nat) (n j : Nat) (f : Frame),
    frameAt p prev n K j = some f → n ≤ j → ∀ b, b ∈ f.childErrors → j < b ∧ b < n + K.size := by
  intro K
  induction K with
  | nil => intro p prev n j f h; simp [frameAt] at h
  | cons ch i ks res rest ihks ihrest =>
    intro p prev n j f h hnj b hb
    simp only [Kids.size]
    rw [frameAt] at h
    split at h
    · rename_i hj
      subst hj
      simp only [Option.some.injEq] at h
      split at h
      · rename_i hrs
        subst h
        simp only at hb
        have hrsz : 0 < rest.size := by
          cases rest with
          | nil => simp [Kids.startsChained] at hrs
          | cons _ _ _ _ _ => simp [Kids.size]; omega
        split at hb
        · simp only [List.mem_singleton] at hb; omega
        · simp at hb
      · subst h
        simp only at hb
        rcases failedHeads_range ks j none (j + 1) b hb with h' | h'
        · -- the head `j` itself is not among the heads of its own sub-evaluations
          exfalso
          have : ∀ (K : Kids) (n' : Nat), j < n' → j ∉ failedHeads j none n' K := by
            intro K
            induction K with
            | nil => intro n' _ hm; simp [failedHeads] at hm
            | cons ch' i' ks' res' rest' _ ih' =>
              intro n' hlt hm
              simp only [failedHeads, Option.isSome_none, Bool.and_false, Bool.false_eq_true, if_false,
                List.mem_append] at hm
              rcases hm with hm | hm
              · split at hm
                · simp at hm; omega
                · simp at hm
              · rcases failedHeads_range rest' n' (some n') (n' + 1 + ks'.size) j hm with h'' | h''
                · omega
                · omega
          exact this ks (j + 1) (by omega) (h' ▸ hb)
        · omega
    · rename_i hj
      split at h
      · have := ihks _ _ _ _ f h (by omega) b hb
        omega
      · have := ihrest _ _ _ _ f h (by omega) b hb
        omega


/-! ### the frame store of a tree can be rendered -/

theorem replay_frames (t : Tree) (h : chainOk true t.root = true) :
    (replay (events t)).size = 1 + t.root.size ∧
    ∀ j, 1 ≤ j → (replay (events t))[j]? = frameAt 0 none 1 t.root j := by
  have key := runKids t.root 0 [] 1 { frames := #[rootFrame] } rfl (by omega)
    (by simp [noPyOf, rootFrame]) trivial (by simp) (by simpa using h)
  simp only [List.head?_nil] at key
  obtain ⟨_, hsz, hf⟩ := key
  rw [replay_eq_run, events]
  refine ⟨hsz, ?_⟩
  intro j hj
  rw [hf j, if_pos hj]

/-- the loop of `_unpack_stack` from a call of the tree -/
theorem loop_rowsAt (t : Tree) (h : chainOk true t.root = true) (j : Nat) (hj : 1 ≤ j) (hj2 : j < 1 + t.root.size) :
    unpackLoop (replay (events t)) (replay (events t)).size j [] = rowsAt 1 t.root j := by
  obtain ⟨hsz, hf⟩ := replay_frames t h
  rw [unpackLoop_rowsAt (replay (events t)) t.root 0 none 1 (fun j h1 _ => hf j h1) j hj hj2 _ (by omega) []]
  simp

theorem unpack_rowsAt (t : Tree) (h : chainOk true t.root = true) (j : Nat) (hj : 1 ≤ j) (hj2 : j < 1 + t.root.size) :
    unpack (replay (events t)) j = trimTail (pushDown (rowsAt 1 t.root j)) := by
  unfold unpack
  rw [loop_rowsAt t h j hj hj2]

theorem trimTail_ne_nil (l : List Row) (h : l ≠ []) : trimTail l ≠ [] := by
  unfold trimTail
  have key : ∀ (l : List Row), l ≠ [] → dropNoneKeepOne l ≠ [] := by
    intro l
    induction l with
    | nil => intro h; exact absurd rfl h
    | cons x r ih =>
      intro _
      cases r with
      | nil => simp [dropNoneKeepOne]
      | cons y r' =>
        simp only [dropNoneKeepOne]
        split
        · exact ih (by simp)
        · simp
  have := key l.reverse (by simpa using h)
  simpa using this

theorem pushDown_ne_nil (l : List Row) (h : l ≠ []) : pushDown l ≠ [] := by
  intro h0
  have := congrArg List.length (pushDown_frames l)
  rw [h0] at this
  simp at this
  exact h (List.eq_nil_of_length_eq_zero this.symm)

/-- a row of `_unpack_stack` is a row of its loop, up to the error it shows -/
theorem unpack_mem_rowsAt (t : Tree) (h : chainOk true t.root = true) (j : Nat) (hj : 1 ≤ j) (hj2 : j < 1 + t.root.size)
    (r : Row) (hr : r ∈ unpack (replay (events t)) j) :
    ∃ r', r' ∈ rowsAt 1 t.root j ∧ r.frame = r'.frame ∧ r.branches = r'.branches ∧ (r.error = none ∨ r.error = r'.error) := by
  rw [unpack_rowsAt t h j hj hj2] at hr
  exact pushDown_mem _ r ((trimTail_prefix _).subset hr)

/-- **the text of a tree can be rendered**: from every call `h`, with fuel that covers the frames
    entered after it, every row has a frame and every branch is again such a call -/
theorem renderable_tree (t : Tree) (hc : chainOk true t.root = true) :
    ∀ (fuel h : Nat), 1 ≤ h → h < 1 + t.root.size → 1 + t.root.size ≤ h + fuel →
      Renderable (replay (events t)) fuel h
  | 0, h, _, h2, h3 => by omega
  | fuel + 1, h, h1, h2, h3 => by
    obtain ⟨hsz, hf⟩ := replay_frames t hc
    refine ⟨?_, ?_⟩
    · rw [unpack_rowsAt t hc h h1 h2]
      exact trimTail_ne_nil _ (pushDown_ne_nil _ (rowsAt_ne_nil t.root 1 h h1 h2))
    · intro r hr
      obtain ⟨r', hm, hfr, hbr, _⟩ := unpack_mem_rowsAt t hc h h1 h2 r hr
      have hrange := rowsAt_frame_range t.root 1 h r' hm h1
      rw [← hfr] at hrange
      have hsome := frameAt_isSome t.root 0 none 1 r.frame (by omega) hrange.2
      refine ⟨by rw [hf r.frame (by omega)]; exact hsome, ?_⟩
      intro b hb
      obtain ⟨f, hff⟩ := Option.isSome_iff_exists.mp hsome
      have hbo := unpack_branches _ h r hr
      have hbm : b ∈ f.childErrors := by
        rw [hbo] at hb
        simp only [branchesOf, hf r.frame (by omega), hff] at hb
        cases hlc : f.lastChild with
        | none => rw [hlc] at hb; simp at hb
        | some c =>
          rw [hlc] at hb
          simp only at hb
          split at hb
          · simp at hb
          · exact hb
      have hb2 := frameAt_childErrors_range t.root 0 none 1 r.frame f hff (by omega) b hbm
      exact renderable_tree t hc fuel b (by omega) hb2.2 (by omega)


/-! ### the rows at a start on the path of the root error -/

/-- (frame, branches) of a row: what its `Spec:` line and the texts below it depend on -/
def fb (r : Row) : Nat × List Nat := (r.frame, r.branches)

theorem pushDown_fb : ∀ (l : List Row), (pushDown l).map fb = l.map fb
  | [] => rfl
  | [_] => rfl
  | a :: b :: l => by
    simp only [pushDown, List.map_cons, pushDown_fb (b :: l)]
    split <;> rfl

theorem rowsAt_all_error (e : Nat) (K : Kids) (n j : Nat) (hop : onePath e K = true) (hs : startOK e n K j = true) :
    ∀ r, r ∈ rowsAt n K j → r.error ≠ none := by
  obtain ⟨A, B, k, h1, h2, h3, _⟩ := rowsAt_spine e K n j hop hs
  intro r hr
  rw [h1] at hr
  rcases List.mem_append.mp hr with h | h
  · rw [h3 r h]; simp
  · apply rowsAt_tail_error K n j r
    rw [h1]
    cases A with
    | nil => exact absurd rfl h2
    | cons a A' => simp [h]

theorem trimTail_all_error (l : List Row) (h : ∀ r, r ∈ l → r.error ≠ none) : trimTail (pushDown l) = pushDown l := by
  by_cases hl : l = []
  · subst hl; rfl
  · obtain ⟨r, hr⟩ : ∃ r, l.getLast? = some r := ⟨_, List.getLast?_eq_some_getLast hl⟩
    exact trimTail_of_last _ r (by rw [pushDown_getLast]; exact hr) (h r (List.mem_of_getLast? hr))

/-- at a start on the path of the root error nothing is trimmed -/
theorem unpack_startOK (t : Tree) (hwf : t.wf = true) (h : Nat) (hs : startOK t.err 1 t.root h = true) :
    unpack (replay (events t)) h = pushDown (rowsAt 1 t.root h) := by
  simp only [Tree.wf, Bool.and_eq_true] at hwf
  have hr := startOK_range t.err t.root 1 h hs
  have hop : onePath t.err t.root = true := by simpa [Tree.root, onePath] using hwf.2
  rw [unpack_rowsAt t hwf.1 h hr.1 hr.2]
  exact trimTail_all_error _ (rowsAt_all_error t.err t.root 1 h hop hs)

/-! ### clause 2: the path of the root error, in order -/

/-- a `Spec:` line shows the spec of frame `j` -/
def MF (fs : Array Frame) (j : Nat) (shown : Str) : Bool :=
  match fs[j]? with
  | some f => showsValue f.spec f.slen shown
  | none => false

/-- the `Spec:` texts of the rendered rows -/
def specTexts (fs : Array Frame) (width fuel h d : Nat) : List Str :=
  (shownRows fs fuel h d).filterMap (specOfShown fs width)

/-- what one row contributes, as a function of its frame and branches -/
def rowTexts (fs : Array Frame) (width fuel d : Nat) (p : Nat × List Nat) : List Str :=
  ((fs[p.1]?).map (fun f => specShown width f d)).toList ++ p.2.flatMap (fun b => specTexts fs width fuel b (d + 1))

theorem specTexts_succ (fs : Array Frame) (width fuel h d : Nat) :
    specTexts fs width (fuel + 1) h d = ((unpack fs h).map fb).flatMap (rowTexts fs width fuel d) := by
  unfold specTexts
  rw [shownRows_succ, List.filterMap_flatMap, List.flatMap_map]
  congr 1
  funext r
  simp only [List.filterMap_cons, List.filterMap_flatMap, rowTexts, fb, specOfShown, specTexts]
  cases fs[r.frame]? <;> simp

/-- a sublist of the frames of the rows is matched by the texts of these rows -/
theorem subseqBy_rowTexts (fs : Array Frame) (width fuel d : Nat) : ∀ (R : List (Nat × List Nat)) (l : List Nat),
    List.Sublist l (R.map (·.1)) → (∀ p, p ∈ R → (fs[p.1]?).isSome = true) →
    subseqBy (MF fs) l (R.flatMap (rowTexts fs width fuel d)) = true
  | [], l, hs, _ => by
    have : l = [] := by simpa using hs
    subst this; rfl
  | p :: R, l, hs, hf => by
    have ih := subseqBy_rowTexts fs width fuel d R
    have hfR : ∀ q, q ∈ R → (fs[q.1]?).isSome = true := fun q hq => hf q (List.mem_cons_of_mem _ hq)
    simp only [List.map_cons] at hs
    simp only [List.flatMap_cons]
    cases hs with
    | cons _ hs' => exact subseqBy_append_left _ _ _ _ (ih l hs' hfR)
    | cons_cons _ hs' =>
      rename_i l'
      obtain ⟨f, hff⟩ := Option.isSome_iff_exists.mp (hf p (by simp))
      simp only [rowTexts, hff, Option.map_some, Option.toList_some, List.cons_append, List.nil_append, subseqBy]
      have hm : MF fs p.1 (specShown width f d) = true := by
        simp only [MF, hff, specShown]
        exact showsValue_formatValue _ _ _
      rw [if_pos hm]
      exact subseqBy_append_left _ _ _ _ (ih l' hs' hfR)


theorem mem_map_fb_unpack (t : Tree) (hwf : t.wf = true) (h : Nat) (hs : startOK t.err 1 t.root h = true)
    (r : Row) (hr : r ∈ rowsAt 1 t.root h) : ∃ r', r' ∈ unpack (replay (events t)) h ∧ fb r' = fb r := by
  have : fb r ∈ (unpack (replay (events t)) h).map fb := by
    rw [unpack_startOK t hwf h hs, pushDown_fb]
    exact List.mem_map_of_mem hr
  obtain ⟨r', h1, h2⟩ := List.mem_map.mp this
  exact ⟨r', h1, h2⟩

/-- **the calls the root error propagated through have their `Spec:` lines in the text, in
    evaluation order** (from every start on the path of the error) -/
theorem spine_in_text (t : Tree) (hwf : t.wf = true) (width : Nat) :
    ∀ (m fuel h d : Nat), startOK t.err 1 t.root h = true → (spineAt t.err 1 t.root h).length ≤ m →
      Renderable (replay (events t)) fuel h →
      subseqBy (MF (replay (events t))) (spineAt t.err 1 t.root h)
        (specTexts (replay (events t)) width fuel h d) = true := by
  intro m
  induction m with
  | zero =>
    intro fuel h d _ hl _
    have : spineAt t.err 1 t.root h = [] := List.eq_nil_of_length_eq_zero (by omega)
    rw [this]
    exact subseqBy_nil _ _
  | succ m ih =>
    intro fuel h d hs hl hr
    cases fuel with
    | zero => simp [Renderable] at hr
    | succ fuel =>
      have hwf' := hwf
      simp only [Tree.wf, Bool.and_eq_true] at hwf'
      have hop : onePath t.err t.root = true := by simpa [Tree.root, onePath] using hwf'.2
      obtain ⟨_, hrows⟩ := hr
      obtain ⟨A, B, k, h1, h2, h3, h4, h5, h6, h7, h8, hx, hy, h9⟩ := rowsAt_spine t.err t.root 1 h hop hs
      rw [specTexts_succ, unpack_startOK t hwf h hs, pushDown_fb, h1, List.map_append, List.flatMap_append]
      have hframes : ∀ p, p ∈ (A ++ B).map fb → ((replay (events t))[p.1]?).isSome = true := by
        intro p hp
        obtain ⟨r, hrm, rfl⟩ := List.mem_map.mp hp
        obtain ⟨r', hr', hfb⟩ := mem_map_fb_unpack t hwf h hs r (by rw [h1]; exact hrm)
        have := (hrows r' hr').1
        have hfr : r'.frame = r.frame := congrArg Prod.fst hfb
        rw [hfr] at this
        exact this
      rcases h9 with h9 | ⟨hB, last, h', hl1, hl2, hn1, hn2⟩
      · -- all of the path is listed by these rows
        apply subseqBy_append_right
        have hsp : (spineAt t.err 1 t.root h).take k = spineAt t.err 1 t.root h := List.take_of_length_le (by omega)
        rw [hsp] at h7
        apply subseqBy_rowTexts _ _ _ _ _ _ (by simpa [fb, Function.comp_def] using h7)
        intro p hp
        exact hframes p (by rw [List.map_append]; exact List.mem_append_left _ hp)
      · -- the rows stop at a call that shows its branches; the path goes on in the last one
        subst hB
        obtain ⟨A0, rfl⟩ : ∃ A0, A = A0 ++ [last] := by
          rcases List.getLast?_eq_some_iff.mp hl1 with ⟨A0, hA0⟩
          exact ⟨A0, hA0⟩
        obtain ⟨init, hinit⟩ : ∃ init, last.branches = init ++ [h'] := List.getLast?_eq_some_iff.mp hl2
        simp only [List.map_nil, List.flatMap_nil, List.append_nil]
        have hsplit : ((A0 ++ [last]).map fb).flatMap (rowTexts (replay (events t)) width fuel d) =
            ((A0.map fb ++ [(last.frame, [])]).flatMap (rowTexts (replay (events t)) width fuel d)) ++
              (init.flatMap (fun b => specTexts (replay (events t)) width fuel b (d + 1)) ++
                specTexts (replay (events t)) width fuel h' (d + 1)) := by
          simp [rowTexts, fb, hinit]
        rw [hsplit, ← List.take_append_drop k (spineAt t.err 1 t.root h)]
        apply subseqBy_append
        · apply subseqBy_rowTexts
          · simpa [fb, Function.comp_def] using h7
          · intro p hp
            rcases List.mem_append.mp hp with hp | hp
            · exact hframes p (by simp only [List.append_nil, List.map_append]; exact List.mem_append_left _ hp)
            · simp only [List.mem_singleton] at hp
              subst hp
              exact hframes (fb last) (by simp)
        · apply subseqBy_append_left
          rw [← hn2]
          apply ih fuel h' (d + 1) hn1
          · rw [hn2, List.length_drop]; omega
          · obtain ⟨r', hr', hfb⟩ := mem_map_fb_unpack t hwf h hs last (by rw [h1]; simp)
            have hbr : r'.branches = last.branches := congrArg Prod.snd hfb
            exact (hrows r' hr').2 h' (by rw [hbr, hinit]; simp)


/-! ### frames and calls -/

/-- the frame of a call shows the call's spec and target -/
def SameInfo (c : CallInfo) (f : Frame) : Prop :=
  c.spec = f.spec ∧ c.target = f.target ∧ c.tlen = f.tlen ∧ c.slen = f.slen

theorem call_frameAt : ∀ (K : Kids) (o : Option Nat) (p : Nat) (prev : Option Nat) (n : Nat) (c : CallInfo),
    c ∈ callsK o n K → ∃ f, frameAt p prev n K c.idx = some f ∧ SameInfo c f := by
  intro K
  induction K with
  | nil => intro o p prev n c h; simp [callsK] at h
  | cons ch i ks res rest ihks ihrest =>
    intro o p prev n c h
    simp only [callsK, List.mem_cons, List.mem_append] at h
    rcases h with h | h | h
    · subst h
      simp only [frameAt, if_true]
      split <;> exact ⟨_, rfl, rfl, rfl, rfl, rfl⟩
    · have h1 := callsK_idx_ge ks _ _ c h
      have h2 := callsK_idx_lt ks _ _ c h
      obtain ⟨f, hf, hs⟩ := ihks (some n) n none (n + 1) c h
      exact ⟨f, by simp only [frameAt, if_neg (by omega : ¬ c.idx = n), if_pos h2]; exact hf, hs⟩
    · have h1 := callsK_idx_ge rest _ _ c h
      obtain ⟨f, hf, hs⟩ := ihrest o p (some n) (n + 1 + ks.size) c h
      exact ⟨f, by simp only [frameAt, if_neg (by omega : ¬ c.idx = n), if_neg (by omega : ¬ c.idx < n + 1 + ks.size)]; exact hf, hs⟩

theorem frameAt_call : ∀ (K : Kids) (o : Option Nat) (p : Nat) (prev : Option Nat) (n j : Nat) (f : Frame),
    frameAt p prev n K j = some f → ∃ c, c ∈ callsK o n K ∧ c.idx = j ∧ SameInfo c f := by
  intro K
  induction K with
  | nil => intro o p prev n j f h; simp [frameAt] at h
  | cons ch i ks res rest ihks ihrest =>
    intro o p prev n j f h
    rw [frameAt] at h
    split at h
    · rename_i hj
      refine ⟨_, by simp only [callsK]; exact List.mem_cons_self, hj.symm, ?_⟩
      simp only [Option.some.injEq] at h
      subst h
      split <;> exact ⟨rfl, rfl, rfl, rfl⟩
    · split at h
      · obtain ⟨c, hc, h1, h2⟩ := ihks (some n) n none (n + 1) j f h
        exact ⟨c, by simp only [callsK]; exact List.mem_cons_of_mem _ (List.mem_append_left _ hc), h1, h2⟩
      · obtain ⟨c, hc, h1, h2⟩ := ihrest o p (some n) (n + 1 + ks.size) j f h
        exact ⟨c, by simp only [callsK]; exact List.mem_cons_of_mem _ (List.mem_append_right _ hc), h1, h2⟩

/-- the frame store of a tree: frame 0 is glom()'s root scope, every other frame is a call's -/
theorem replay_frame_cases (t : Tree) (hc : chainOk true t.root = true) (j : Nat) (f : Frame)
    (hf : (replay (events t))[j]? = some f) :
    (j = 0 ∧ f.spec = [] ∧ f.target = []) ∨
    (1 ≤ j ∧ ∃ c, c ∈ callsOf (events t) ∧ c.idx = j ∧ SameInfo c f) := by
  by_cases hj : j = 0
  · subst hj
    left
    have key := runKids t.root 0 [] 1 { frames := #[rootFrame] } rfl (by omega)
      (by simp [noPyOf, rootFrame]) trivial (by simp) (by simpa using hc)
    simp only [List.head?_nil] at key
    obtain ⟨_, _, hfr⟩ := key
    have h0 := hfr 0
    rw [replay_eq_run, events] at hf
    rw [hf] at h0
    simp only [Nat.le_zero_eq, Nat.succ_ne_zero, if_false, show ¬ (1 ≤ 0) by omega] at h0
    simp [oldUpd, pUpd, rootFrame] at h0
    subst h0
    exact ⟨rfl, rfl, rfl⟩
  · right
    refine ⟨by omega, ?_⟩
    rw [(replay_frames t hc).2 j (by omega)] at hf
    rw [callsOf_events]
    exact frameAt_call t.root none 0 none 1 j f hf

end Glom.C05
