import Glom.Lemmas.C11d
/-
  Helper lemmas for C11, part 5: the model is a state transformer that only *reads* the heap
  component of its state; calls / log / hidden / made are bookkeeping that is appended to.  So a
  run from any state is the run from the bare heap with the bookkeeping prefixed (`St.shift`):
  every theorem about `assign … h …` (a run from `{ heap := h }`) transfers to a run from an
  arbitrary state — the second evaluation of a spec, the evaluation after `arg_val` has rebuilt a
  literal, the evaluation nested in a factory.
-/
namespace Glom.Mut
open Glom

/-- `st` with the bookkeeping of `b` in front of its own (the heap of `b` is ignored) -/
def St.shift (b st : St) : St :=
  { heap := st.heap, calls := b.calls + st.calls, log := b.log ++ st.log,
    hidden := b.hidden || st.hidden, made := b.made ++ st.made }

/-- the bare heap of a state -/
def St.bare (st : St) : St := { heap := st.heap }

@[simp] theorem St.shift_heap (b st : St) : (St.shift b st).heap = st.heap := rfl

theorem St.shift_bare (st : St) : St.shift st st.bare = st := by
  cases st; simp [St.shift, St.bare]

/-- a state transformer commutes with prefixing bookkeeping -/
def Sh {α} (f : St → St × α) : Prop := ∀ b st, f (St.shift b st) = (St.shift b (f st).1, (f st).2)

theorem Sh.from {α} {f : St → St × α} (h : Sh f) (st : St) :
    f st = (St.shift st (f st.bare).1, (f st.bare).2) := by
  have := h st st.bare
  rwa [St.shift_bare] at this

theorem shift_wrote (b st : St) (w : Wr) : (St.shift b st).wrote w = St.shift b (st.wrote w) := by
  simp only [St.wrote, St.shift]
  cases w.cell <;> simp [Bool.or_assoc]

end Glom.Mut

namespace Glom.C11
open Glom Glom.Mut

theorem Sh_assignOp (env : MEnv) (op : String) (arg val dest : Val) :
    Sh (fun st => assignOp env op arg val st dest) := by
  intro b st
  simp only [assignOp, St.shift_heap]
  split
  · split <;> (try split) <;> simp [shift_wrote]
  · split <;> (try split) <;> simp [shift_wrote]
  · split
    · rfl
    · split <;> (try split) <;> simp [shift_wrote]
  · rfl

theorem Sh_forEach {f : St → Val → St × Except MErr Unit} (hf : ∀ v, Sh (fun st => f st v)) :
    ∀ ys, Sh (fun st => forEach f st ys) := by
  intro ys
  induction ys with
  | nil => intro b st; rfl
  | cons y ys ih =>
    intro b st
    cases y with
    | node xs => rfl
    | leaf v =>
      simp only [forEach]
      have := hf v b st
      simp only at this
      rw [this]
      cases hr : f st v with
      | mk st' r =>
        cases r with
        | error e => rfl
        | ok u => exact ih b st'

theorem Sh_applyForEach {f : St → Val → St × Except MErr Unit} (hf : ∀ v, Sh (fun st => f st v))
    (layers : Nat) (nest : Nest) : Sh (fun st => applyForEach layers nest f st) := by
  intro b st
  simp only [applyForEach]
  split
  · cases nest with
    | leaf v => exact hf v b st
    | node xs => rfl
  · cases nest with
    | leaf v => rfl
    | node xs =>
      simp only
      cases flattenN (layers - 1) xs with
      | ok ys => exact Sh_forEach hf ys b st
      | error e => rfl

theorem Sh_callFactory (kind : String) : Sh (callFactory kind) := by
  intro b st
  simp only [callFactory, St.shift]
  repeat' split
  all_goals simp [Nat.add_assoc]

theorem evalVal_fst (env : MEnv) (st : St) (target : Val) (vs : ValSpec) :
    (evalVal env st target vs).1 = st := by
  cases vs with
  | lit v => simp only [evalVal]; split <;> rfl
  | val v => rfl
  | path s => simp only [evalVal]; repeat' split <;> rfl

theorem evalVal_snd_heap (env : MEnv) (st st' : St) (target : Val) (vs : ValSpec) (h : st.heap = st'.heap) :
    (evalVal env st target vs).2 = (evalVal env st' target vs).2 := by
  cases vs with
  | lit v => simp only [evalVal, h]; split <;> rfl
  | val v => rfl
  | path s => simp only [evalVal, h]; repeat' split <;> rfl

theorem Sh_evalVal (env : MEnv) (target : Val) (vs : ValSpec) : Sh (fun st => evalVal env st target vs) := by
  intro b st
  have h1 := evalVal_fst env (St.shift b st) target vs
  have h2 := evalVal_fst env st target vs
  have h3 := evalVal_snd_heap env (St.shift b st) st target vs rfl
  simp only
  rw [Prod.ext_iff]
  exact ⟨by rw [h1, h2], h3⟩

/-- **the model only reads the heap of its state** -/
theorem Sh_assignAux (env : MEnv) (sref : Val) (missing : Missing) :
    ∀ (fuel : Nat) (sroot : Bool) (target : Val) (orig : List Step) (vs : ValSpec),
    Sh (fun st => assignAux env sroot sref missing fuel st target orig vs) := by
  intro fuel
  induction fuel with
  | zero => intro sroot target orig vs b st; rfl
  | succ f ih =>
    intro sroot target orig vs b st
    simp only [assignAux]
    cases hl : orig.getLast? with
    | none => rfl
    | some last =>
      obtain ⟨op, arg⟩ := last
      simp only
      split
      · rfl
      · have hev := Sh_evalVal env target vs b st
        simp only at hev
        rw [hev]
        cases hv : evalVal env st target vs with
        | mk st1 r =>
          cases r with
          | error e => rfl
          | ok val =>
            simp only [St.shift_heap]
            cases hf : fetch env st1.heap orig.dropLast 0 (if sroot = true then sref else target) with
            | ok nest =>
              simp only
              have := Sh_applyForEach (fun v => Sh_assignOp env op arg val v) (stars orig.dropLast) nest b st1
              simp only at this
              rw [this]
              cases applyForEach (stars orig.dropLast) nest (assignOp env op arg val) st1 with
              | mk st' r' => cases r' <;> rfl
            | error e =>
              cases e with
              | pae k e' =>
                simp only
                cases missing with
                | none => rfl
                | factory kind =>
                  simp only
                  rw [Sh_callFactory kind b st1]
                  cases hcf : callFactory kind st1 with
                  | mk st2 r2 =>
                    cases r2 with
                    | error e2 => rfl
                    | ok fresh =>
                      simp only
                      have := ih false fresh (orig.drop (k + 1)) (.val val) b st2
                      simp only at this
                      rw [this]
                      cases hin : assignAux env false sref (.factory kind) f st2 fresh (orig.drop (k + 1)) (.val val) with
                      | mk st3 r3 =>
                        cases r3 with
                        | error e3 => rfl
                        | ok val' =>
                          simp only
                          cases hk : orig[k]? with
                          | none => rfl
                          | some s =>
                            obtain ⟨op', arg'⟩ := s
                            simp only [St.shift_heap]
                            cases hf2 : fetch env st3.heap (orig.take k) 0 (if sroot = true then sref else target) with
                            | error e4 => rfl
                            | ok nest' =>
                              simp only
                              have := Sh_applyForEach (fun v => Sh_assignOp env op' arg' val' v)
                                (stars (orig.take k)) nest' b st3
                              simp only at this
                              rw [this]
                              cases applyForEach (stars (orig.take k)) nest' (assignOp env op' arg' val') st3 with
                              | mk st' r' => cases r' <;> rfl
              | _ => rfl

/-- a run of `Assign.glomit` from any state is the run from the bare heap, bookkeeping prefixed -/
theorem assignAux_from (env : MEnv) (sroot : Bool) (sref : Val) (missing : Missing) (fuel : Nat) (st : St)
    (target : Val) (orig : List Step) (vs : ValSpec) :
    assignAux env sroot sref missing fuel st target orig vs =
      (St.shift st (assignAux env sroot sref missing fuel st.bare target orig vs).1,
       (assignAux env sroot sref missing fuel st.bare target orig vs).2) :=
  (Sh_assignAux env sref missing fuel sroot target orig vs).from st

end Glom.C11
