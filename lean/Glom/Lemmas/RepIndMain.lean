import Glom.Lemmas.RepInd
/-
  Representation independence, main induction.
-/
set_option linter.unusedSimpArgs false
set_option linter.unusedSectionVars false
namespace Glom.Interp
open ScopeAlg

section
variable {σ : Type} [ScopeAlg σ] [LawfulScope σ]

theorem mapSc_pure (f : σ → Obs) (v : V) (sc : σ) : mapSc f (pure (v, sc) : M (V × σ)) = pure (v, f sc) := by
  simp [mapSc]

theorem mapSc_bind_left {α : Type} (f : σ → Obs) (m : M α) (k : α → M (V × σ)) :
    mapSc f (m >>= k) = m >>= fun a => mapSc f (k a) := by
  simp [mapSc]

theorem mapSc_fail (f : σ → Obs) (c : String) : mapSc f (M.fail c : M (V × σ)) = M.fail c := by
  simp [mapSc]

theorem mapSc_throw (f : σ → Obs) (e : Err) : mapSc f (M.throw e : M (V × σ)) = M.throw e := by
  simp [mapSc]

theorem glomit_sim (p : Prims) {recO : Rec Obs} {rec : Rec σ} (h : Sim recO rec) (spec : Spec) (t : V) (sc : σ) :
    glomit p recO spec t (obsOf sc) = mapSc obsOf (glomit p rec spec t sc) := by
  cases spec with
  | str _ => simp only [glomit, mapSc_fail]
  | lit _ => simp only [glomit, mapSc_fail]
  | tuple _ => simp only [glomit, mapSc_fail]
  | list _ => simp only [glomit, mapSc_fail]
  | dict o es => simp only [glomit, mapSc_fail]
  | set f xs => simp only [glomit, mapSc_fail]
  | fn n k => simp only [glomit, mapSc_fail]
  | ty _ => simp only [glomit, mapSc_fail]
  | t steps => simp only [glomit, mapSc_bind_left, mapSc_pure]
  | sRead name steps =>
    simp only [glomit, obsOf_lookup]
    split <;> simp only [mapSc_fail, mapSc_bind_left, mapSc_pure]
  | sGlobRead name =>
    simp only [glomit, obsOf_lookup]
    split <;> simp only [mapSc_fail, mapSc_bind_left, mapSc_pure]
  | sVarRead var name =>
    simp only [glomit, obsOf_lookup]
    split <;> simp only [mapSc_fail, mapSc_bind_left, mapSc_pure]
  | sBind bs =>
    simp only [glomit, mapSc_bind_left, mapSc_pure, obsOf_foldl_bind]
    congr 1
    apply kwLoop_sim
    intro s t' c
    simp only [argVal_sim h, mapSc_bind, M.bind_assoc', M.pure_bind', mapSc]
  | aBind name => simp only [glomit, mapSc_pure, obsOf_bind]
  | aGlob name =>
    simp only [glomit, obsOf_lookup]
    split <;> simp only [mapSc_fail, mapSc_bind_left, mapSc_pure]
  | aVar var name =>
    simp only [glomit, obsOf_lookup]
    split <;> simp only [mapSc_fail, mapSc_bind_left, mapSc_pure]
  | pipe steps =>
    simp only [glomit, mapSc_bind_left, mapSc_pure]
    have := tupleLoop_sim h steps t sc Option.none
    simp only [Option.map_none] at this
    rw [this]
  | val v => simp only [glomit, mapSc_pure]
  | specW s bindings =>
    simp only [glomit, mapSc_bind_left, mapSc_pure, ← obsOf_foldl_bind, h, mapSc_bind]
  | coalesce subs dflt fac sk se =>
    simp only [glomit, mapSc_bind_left, coalesceLoop_sim p h]
    congr 1; funext r
    split
    · simp only [mapSc_pure]
    · split <;> simp only [mapSc_fail, mapSc_bind_left, mapSc_pure, argVal_sim h]
  | call func args kwargs =>
    simp only [glomit, mapSc_bind_left, argVal_sim h]
    congr 1; funext f; congr 1; funext a; congr 1; funext kw
    split
    · split <;> simp only [mapSc_fail, mapSc_bind_left, mapSc_pure]
    · simp only [mapSc_fail]
  | invoke func fis blocks =>
    simp only [glomit, mapSc_bind_left, invokeLoop_sim h]
    congr 1
    · split
      · simp only [h, mapSc_bind]
      · rfl
  | ref name sub =>
    cases sub with
    | none =>
      simp only [glomit, obsOf_lookupRef]
      split <;> simp only [mapSc_fail, mapSc_bind_left, mapSc_pure, h, mapSc_bind]
    | some s => simp only [glomit, mapSc_bind_left, mapSc_pure, ← obsOf_bindRef, h, mapSc_bind]
  | vars defaults => simp only [glomit, mapSc_bind_left, mapSc_pure]
  | letB bs => simp only [glomit, mapSc_bind_left, mapSc_pure, kwLoop_sim h, obsOf_foldl_bind]
  | auto s => simp only [glomit, mapSc_bind_left, mapSc_pure, ← obsOf_setMode, h, mapSc_bind]
  | fill s => simp only [glomit, mapSc_bind_left, mapSc_pure, ← obsOf_setMode, h, mapSc_bind]
  | group s =>
    simp only [glomit, mapSc_bind_left, mapSc_pure, ← obsOf_setMode, groupLoop_sim h]
  | mtch s dflt =>
    simp only [glomit, mapSc_bind_left, mapSc_pure, ← obsOf_setMode, withDefault_sim p h, h, mapSc_bind]
  | and cs dflt => simp only [glomit, mapSc_bind_left, mapSc_pure, withDefault_sim p h, andLoop_sim h]
  | or cs dflt => simp only [glomit, mapSc_bind_left, mapSc_pure, withDefault_sim p h, orLoop_sim p h]
  | not c =>
    simp only [glomit, mapSc_bind_left, h, attempt_mapSc_bind]
    congr 1; funext r
    cases r with
    | ok x => simp only [mapSc_fail]
    | error e => simp only; split <;> simp only [mapSc_pure, mapSc_throw]
  | switch cases dflt =>
    simp only [glomit, mapSc_bind_left, switchLoop_sim p h]
    congr 1; funext r
    split
    · simp only [mapSc_pure]
    · split <;> simp only [mapSc_fail, mapSc_bind_left, mapSc_pure, argVal_sim h]
  | probe id => simp only [glomit, mapSc_bind_left, mapSc_pure, obsOf_mode]
  | iter s vm => simp only [glomit, mapSc_bind_left, mapSc_pure, listLoop_sim h, zipLoop_sim h]
  | optKey k => simp only [glomit]; split <;> simp only [mapSc_pure, mapSc_fail]
  | reqKey k => simp only [glomit, h]
  | reenter vs s => simp only [glomit, mapSc_bind_left, mapSc_pure, h, mapSc_bind]
  | rprobe id s =>
    simp only [glomit, mapSc_bind_left, h, attempt_mapSc_bind]
    congr 1; funext r
    cases r with
    | ok x => simp only [mapSc_bind_left, mapSc_pure]
    | error e => simp only [mapSc_bind_left, mapSc_throw]
  | inspect s bp pm =>
    simp only [glomit, mapSc_bind_left, h, attempt_mapSc_bind]
    congr 1; funext _; congr 1; funext r
    cases r with
    | ok x => simp only [mapSc_pure]
    | error e => simp only; split <;> simp only [mapSc_bind_left, mapSc_throw]

theorem modeFns_sim (p : Prims) {recO : Rec Obs} {rec : Rec σ} (h : Sim recO rec) (spec : Spec) (t : V) (own : σ) :
    argModeFn p recO spec t (obsOf own) = argModeFn p rec spec t own ∧
    autoFn p recO spec t (obsOf own) = autoFn p rec spec t own ∧
    fillFn p recO spec t (obsOf own) = fillFn p rec spec t own ∧
    matchFn p recO spec t (obsOf own) = matchFn p rec spec t own := by
  refine ⟨?_, ?_, ?_, ?_⟩
  · unfold argModeFn
    split <;> simp only [mapLoop_sim h, pairLoop_sim p h]
  · unfold autoFn
    split <;> first
      | rfl
      | simp only [dictLoop_sim p h]
      | (split <;> simp only [listLoop_sim h])
      | (have := tupleLoop_sim h ‹List Spec› t own Option.none
         simp only [Option.map_none] at this
         exact this)
  · unfold fillFn
    split <;> simp only [mapLoop_sim h, pairLoop_sim p h]
  · unfold matchFn
    split <;> first
      | rfl
      | (split <;> simp only [matchDictLoop_sim p h, matchItemsLoop_sim p h, zipLoop_sim h])
      | (split <;> first | rfl | (split <;> simp only [matchItemsLoop_sim p h, zipLoop_sim h]))

/-- **Representation independence.**  For every lawful scope representation, `_glom` run on a
    scope `sc` and then abstracted equals `_glom` run on the canonical lexical scope `obsOf sc`:
    same state, same value or error, corresponding scopes. -/
theorem interp_sim (p : Prims) : ∀ (fuel : Nat), Sim (interp (σ := Obs) p fuel) (interp (σ := σ) p fuel) := by
  intro fuel
  induction fuel with
  | zero => intro s t c; simp only [interp, mapSc_fail]
  | succ fuel ih =>
    intro spec t parent
    simp only [interp]
    split
    · have := glomit_sim p ih spec t (setArgMode (child parent) false)
      simp only [obsOf_setArgMode, obsOf_child] at this
      exact this
    · obtain ⟨h1, h2, h3, h4⟩ := modeFns_sim p ih spec t (child parent)
      simp only [obsOf_child] at h1 h2 h3 h4
      simp only [mapSc_bind_left, mapSc_pure, obsOf_child]
      have hm : mode (child (obsOf parent)) = mode (child parent) := by
        rw [← obsOf_child]; rfl
      have ha : argMode (child (obsOf parent)) = argMode (child parent) := by
        rw [← obsOf_child]; rfl
      rw [hm, ha]
      congr 1
      split
      · exact h1
      · split <;> first | exact h2 | exact h3 | exact h4 | rfl

end
end Glom.Interp
