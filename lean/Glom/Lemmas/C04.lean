import Glom.Spec.C04
/-
  Helper lemmas for C04: what `WF` pins down, the MRO of the wrapper class,
  the case analysis of `glom()`'s handler, propagation through plain frames.
-/
namespace Glom.C04

structure WFParts (F : Facts) : Prop where
  defIfSkip : F.defIfSkip = some .none_
  defElse : F.defElse = none
  skipIfMissing : F.skipIfMissing = []
  skipElse : F.skipElse = ["GlomError"]
  debugDefault : F.debugDefault = false
  outerCatch : F.outerCatch = ["Exception"]
  copyArgsCheck : F.copyArgsCheck = true
  copyFallback : F.copyFallback = true
  wrapArgsCheck : F.wrapArgsCheck = true
  wrapFallback : F.wrapFallback = true
  errTest : F.errTestTruthy = false
  tmeCopy : F.tmeCopyFixed = false
  frameCatch : F.frameCatch = ["Exception"]
  coalesceSkip : F.coalesceSkipDefault = ["GlomError"]

theorem WF_parts {F : Facts} (h : WF F = true) : WFParts F := by
  simp only [WF, Bool.and_eq_true, beq_iff_eq, Bool.not_eq_true'] at h
  obtain ⟨⟨⟨⟨⟨⟨⟨⟨⟨⟨⟨⟨⟨⟨_, h1⟩, h2⟩, h3⟩, h4⟩, h5⟩, h6⟩, h7⟩, h8⟩, h9⟩, h10⟩, h11⟩, h12⟩, h13⟩, h14⟩ := h
  exact ⟨h1, h2, h3, h4, h5, h6, h7, h8, h9, h10, h11, h12, h13, h14⟩

/-! ### effective settings = documented settings -/

theorem effDefault_eq_ref {F : Facts} (w : WFParts F) (s : Settings) : effDefault F s = refDefault s := by
  unfold effDefault refDefault
  cases s.default <;> simp [w.defIfSkip, w.defElse]

theorem effSkip_eq_ref {F : Facts} (w : WFParts F) (s : Settings) : effSkip F s = refSkip s := by
  unfold effSkip refSkip
  rw [effDefault_eq_ref w]
  unfold refDefault
  cases hs : s.skipExc <;> cases hd : s.default <;> simp [w.skipIfMissing, w.skipElse]

theorem effDebug_eq {F : Facts} (w : WFParts F) (s : Settings) : effDebug F s = s.debug.getD false := by
  unfold effDebug; rw [w.debugDefault]

/-! ### class chains -/

theorem isInst_self (e : ExcObj) : isInst e e.cls.name = true := by
  simp [isInst, ClassInfo.mro]

theorem mem_insertGlom {x : String} {l : List String} (h : x ∈ l) : x ∈ insertGlom l := by
  induction l with
  | nil => cases h
  | cons c r ih =>
    unfold insertGlom
    split
    · simp only [List.mem_cons] at h ⊢; rcases h with h | h <;> simp [h]
    · split
      · simp only [List.mem_cons] at h ⊢; rcases h with h | h <;> simp [h]
      · simp only [List.mem_cons] at h ⊢
        rcases h with h | h
        · exact Or.inl h
        · exact Or.inr (ih h)

theorem glom_mem_insertGlom (l : List String) : "GlomError" ∈ insertGlom l := by
  induction l with
  | nil => simp [insertGlom, glomMro]
  | cons c r ih =>
    unfold insertGlom
    split
    · simp
    · split
      · simp
      · simp [ih]

theorem wrapClass_has_orig (c : ClassInfo) : (wrapClass c).mro.contains c.name = true := by
  unfold wrapClass
  split
  · rename_i h; simp only [ClassInfo.mro, List.contains_cons, h, Bool.or_true]
  · simp only [ClassInfo.mro, List.contains_cons, Bool.or_eq_true, List.contains_iff_mem]
    exact Or.inr (mem_insertGlom (by simp))

theorem wrapClass_has_glom (c : ClassInfo) : (wrapClass c).mro.contains "GlomError" = true := by
  unfold wrapClass
  split
  · simp [ClassInfo.mro, glomMro]
  · simp only [ClassInfo.mro, List.contains_cons, Bool.or_eq_true, List.contains_iff_mem]
    exact Or.inr (glom_mem_insertGlom _)

/-- an exception that may leave `glom()` in place of `e`: an instance of `e`'s class with `e`'s args -/
def Faithful (e out : ExcObj) : Prop := isInst out e.cls.name = true ∧ out.args = e.args

theorem Faithful.refl (e : ExcObj) : Faithful e e := ⟨isInst_self e, rfl⟩

/-! ### `GlomError.wrap` and `copy.copy` under the guards -/

theorem wrap_cases {F : Facts} (w : WFParts F) (e : ExcObj) :
    wrap F e = .ok e ∨
    ∃ a, (wrapClass e.cls).ctor e.args = some a ∧ a = e.args ∧
      wrap F e = .ok { id := e.id + 1, cls := wrapClass e.cls, args := a } := by
  unfold wrap
  simp only [w.wrapArgsCheck, w.wrapFallback, Bool.true_and, if_true]
  cases h : (wrapClass e.cls).ctor e.args with
  | none => simp
  | some a =>
    by_cases ha : a = e.args
    · right; exact ⟨a, rfl, ha, by simp [ha]⟩
    · left; simp [ha]

theorem pyCopy_cls {F : Facts} (w : WFParts F) {e c : ExcObj} (h : pyCopy F e = some c) :
    c.cls = e.cls := by
  unfold pyCopy at h
  simp only [w.tmeCopy] at h
  split at h
  · split at h
    · simp only [Bool.false_eq_true, if_false, Option.map_eq_some_iff] at h
      obtain ⟨a, _, rfl⟩ := h; rfl
    · cases h
  · simp only [Option.map_eq_some_iff] at h
    obtain ⟨a, _, rfl⟩ := h; rfl

/-- the `err` of the GlomError branch: the copy when it has the same args, else the original -/
theorem copy_branch_faithful {F : Facts} (w : WFParts F) (e : ExcObj) :
    ∃ err, copyBranch F e = .ok err ∧ err.cls = e.cls ∧ err.args = e.args := by
  unfold copyBranch
  simp only [w.copyArgsCheck, w.copyFallback, Bool.true_and, if_true]
  cases h : pyCopy F e with
  | none => exact ⟨e, rfl, rfl, rfl⟩
  | some c =>
    by_cases ha : c.args = e.args
    · exact ⟨c, by simp [ha], pyCopy_cls w h, ha⟩
    · exact ⟨e, by simp [ha], rfl, rfl⟩

/-! ### the handler -/

/-- with `glom_debug` on, the handler re-raises the object it caught -/
theorem handler_debug {F : Facts} (s : Settings) (e : ExcObj) (hd : effDebug F s = true) :
    handler F s e = .exc e := by
  unfold handler; simp [hd]

/-- with `glom_debug` off, the handler raises a faithful exception; it is a GlomError
    whenever `e` is one or can be rebuilt from its args -/
theorem handler_nodebug {F : Facts} (w : WFParts F) (s : Settings) (e : ExcObj)
    (hd : effDebug F s = false) :
    ∃ out, handler F s e = .exc out ∧ Faithful e out ∧
      ((isInst e "GlomError" || rebuildable e) = true → isInst out "GlomError" = true) := by
  unfold handler
  simp only [hd, Bool.false_eq_true, if_false, w.errTest, Bool.false_and]
  by_cases hg : isInst e "GlomError" = true
  · simp only [hg, if_true]
    obtain ⟨err, herr, hcls, hargs⟩ := copy_branch_faithful w e
    rw [herr]
    have hig : isInst err "GlomError" = true := by
      simpa [isInst, hcls] using hg
    simp only [hig, if_true]
    refine ⟨err, rfl, ⟨?_, hargs⟩, fun _ => hig⟩
    simp [isInst, hcls, ClassInfo.mro]
  · simp only [hg, Bool.false_eq_true, if_false]
    rcases wrap_cases w e with h | ⟨a, hc, ha, h⟩
    · rw [h]
      simp only [hg, Bool.false_eq_true, if_false]
      refine ⟨e, rfl, Faithful.refl e, ?_⟩
      intro hr
      simp only [Bool.false_or] at hr
      -- rebuildable, yet `wrap` returned the original: impossible
      exfalso
      unfold wrap at h
      simp only [w.wrapArgsCheck, w.wrapFallback, Bool.true_and, if_true] at h
      have hctor : (wrapClass e.cls).ctor e.args = some e.args := by
        unfold wrapClass
        split
        · rfl
        · simpa [rebuildable] using hr
      rw [hctor] at h
      simp only [bne_self_eq_false, Bool.false_eq_true, if_false, Built.ok.injEq] at h
      have := congrArg ExcObj.id h
      simp at this
    · rw [h]
      have hig : isInst { id := e.id + 1, cls := wrapClass e.cls, args := a : ExcObj } "GlomError" = true :=
        wrapClass_has_glom e.cls
      simp only [hig, if_true]
      exact ⟨_, rfl, ⟨wrapClass_has_orig e.cls, ha⟩, fun _ => hig⟩

/-- in every case the handler raises a faithful exception -/
theorem handler_faithful {F : Facts} (w : WFParts F) (s : Settings) (e : ExcObj) :
    ∃ out, handler F s e = .exc out ∧ Faithful e out := by
  cases hd : effDebug F s with
  | true => exact ⟨e, handler_debug s e hd, Faithful.refl e⟩
  | false =>
    obtain ⟨out, h, hf, _⟩ := handler_nodebug w s e hd
    exact ⟨out, h, hf⟩

theorem outer_faithful {F : Facts} (w : WFParts F) (s : Settings) (e : ExcObj) :
    ∃ out, outer F s e = .exc out ∧ Faithful e out := by
  unfold outer
  split
  · exact handler_faithful w s e
  · exact ⟨e, rfl, Faithful.refl e⟩

/-- `glom()` either returns the default — exactly when the caller selected this error — or
    lets the outer handler decide -/
theorem glomTop_cases {F : Facts} (w : WFParts F) (s : Settings) (e : ExcObj) :
    (selected s e = true ∧ ∃ d, refDefault s = some d ∧ glomTop F s (.exc e) = .dflt d) ∨
    (selected s e = false ∧ glomTop F s (.exc e) = outer F s e) := by
  unfold glomTop selected
  simp only [effSkip_eq_ref w, effDefault_eq_ref w]
  cases hm : matchesAny e (refSkip s) with
  | false => right; simp
  | true =>
    cases hd : refDefault s with
    | none => right; simp
    | some d => left; simp

/-! ### frames -/

theorem frameG_id (E : EvalEnv) (o : Outc) : frameG E o = o := by
  unfold frameG
  cases o with
  | val => rfl
  | exc x => simp

theorem evalSeq_append_exc (E : EvalEnv) (pre post : List Sp) (x : Sp) (o : Origin)
    (hpre : ∀ p ∈ pre, eval E p = .val) (hx : eval E x = .exc o) :
    evalSeq E (pre ++ x :: post) = .exc o := by
  induction pre with
  | nil => simp [evalSeq, hx]
  | cons p r ih =>
    have hp : eval E p = .val := hpre p (by simp)
    simp only [List.cons_append, evalSeq, hp]
    exact ih (fun q hq => hpre q (by simp [hq]))

theorem evalCoal_absorb (E : EvalEnv) (pre post : List Sp) (x : Sp) (sk : List String) (d : Bool)
    (hpre : ∀ p ∈ pre, ∃ o, eval E p = .exc o ∧ E.caught o sk = true) :
    evalCoal E (pre ++ x :: post) sk d = evalCoal E (x :: post) sk d := by
  induction pre with
  | nil => rfl
  | cons p r ih =>
    obtain ⟨o, ho, hc⟩ := hpre p (by simp)
    simp only [List.cons_append, evalCoal, ho, hc, if_true]
    exact ih (fun q hq => hpre q (by simp [hq]))

end Glom.C04

namespace Glom.C04

/-! ### contexts made of plain frames (tuple / dict / list / Spec), of any depth -/

inductive Ctx where
  | hole
  | tup (pre : List Sp) (c : Ctx) (post : List Sp)
  | dct (pre : List Sp) (c : Ctx) (post : List Sp)
  | lst (c : Ctx)
  | frame (c : Ctx)
  | first (c : Ctx)

def Ctx.plug : Ctx → Sp → Sp
  | .hole, x => x
  | .tup pre c post, x => .tup (pre ++ c.plug x :: post)
  | .dct pre c post, x => .dct (pre ++ c.plug x :: post)
  | .lst c, x => .lst (c.plug x)
  | .frame c, x => .frame (c.plug x)
  | .first c, x => .first (c.plug x)

def Ctx.depth : Ctx → Nat
  | .hole => 0
  | .tup _ c _ | .dct _ c _ | .lst c | .frame c | .first c => c.depth + 1

/-- everything evaluated before the hole returns; a `First(key)` frame is not crossed by a
    StopIteration (`next(filter(key, …))` takes it for the end of the iteration) -/
def Ctx.PreOk (E : EvalEnv) (o : Origin) : Ctx → Prop
  | .hole => True
  | .tup pre c _ | .dct pre c _ => (∀ p ∈ pre, eval E p = .val) ∧ c.PreOk E o
  | .lst c | .frame c => c.PreOk E o
  | .first c => E.caught o ["StopIteration"] = false ∧ c.PreOk E o

theorem plug_propagates (E : EvalEnv) (c : Ctx) (x : Sp) (o : Origin)
    (hpre : c.PreOk E o) (hx : eval E x = .exc o) : eval E (c.plug x) = .exc o := by
  induction c with
  | hole => exact hx
  | tup pre c post ih =>
    simp only [Ctx.plug, eval, frameG_id]
    exact evalSeq_append_exc E pre post _ o hpre.1 (ih hpre.2)
  | dct pre c post ih =>
    simp only [Ctx.plug, eval, frameG_id]
    exact evalSeq_append_exc E pre post _ o hpre.1 (ih hpre.2)
  | lst c ih =>
    simp only [Ctx.plug, eval, frameG_id, ih hpre]
  | frame c ih =>
    simp only [Ctx.plug, eval, frameG_id, ih hpre]
  | first c ih =>
    simp only [Ctx.plug, eval, frameG_id, ih hpre.2, hpre.1]
    simp

/-! ### the only exception objects an evaluation can end with -/

mutual
def hasFault : Sp → Bool
  | .ok | .badPath | .badMatch => false
  | .fault => true
  | .tup xs | .dct xs => hasFaultL xs
  | .lst x | .frame x | .first x => hasFault x
  | .coal xs _ _ => hasFaultL xs
def hasFaultL : List Sp → Bool
  | [] => false
  | x :: r => hasFault x || hasFaultL r
end

def internalClasses : List String := ["PathAccessError", "TypeMatchError", "CoalesceError"]

def OriginOk (s : Bool) (o : Outc) : Prop :=
  match o with
  | .val => True
  | .exc .injected => s = true
  | .exc (.internal c) => c ∈ internalClasses

theorem eval_origin (E : EvalEnv) :
    (∀ s, OriginOk (hasFault s) (eval E s)) ∧
    (∀ xs sk d, OriginOk (hasFaultL xs) (evalCoal E xs sk d)) ∧
    (∀ xs, OriginOk (hasFaultL xs) (evalSeq E xs)) := by
  apply eval.mutual_induct E
    (fun s => OriginOk (hasFault s) (eval E s))
    (fun xs sk d => OriginOk (hasFaultL xs) (evalCoal E xs sk d))
    (fun xs => OriginOk (hasFaultL xs) (evalSeq E xs))
  case case1 => simp [eval, frameG_id, OriginOk]
  case case2 => simp [eval, frameG_id, OriginOk, hasFault]
  case case3 => simp [eval, frameG_id, OriginOk, internalClasses]
  case case4 => simp [eval, frameG_id, OriginOk, internalClasses]
  case case5 => intro a ih; simpa [eval, frameG_id, hasFault] using ih
  case case6 => intro a ih; simpa [eval, frameG_id, hasFault] using ih
  case case7 =>
    intro a ih
    simp only [eval, frameG_id, hasFault]
    cases h : eval E a with
    | val => simpa [h] using ih
    | exc o => simpa [h] using ih
  case case8 => intro a ih; simpa [eval, frameG_id, hasFault] using ih
  case case9 =>
    intro a ih
    simp only [eval, frameG_id, hasFault]
    cases h : eval E a with
    | val => simp [OriginOk]
    | exc o =>
      rw [h] at ih
      by_cases hc : E.caught o ["StopIteration"] = true
      · simp [hc, OriginOk]
      · simpa [hc] using ih
  case case10 => intro a sk d ih; simpa [eval, frameG_id, hasFault] using ih
  case case11 => intro x; simp [evalCoal, OriginOk]
  case case12 => intro x d hd; simp [evalCoal, hd, OriginOk, internalClasses]
  case case13 => intro x r sk d hx _; simp [evalCoal, hx, OriginOk]
  case case14 =>
    intro x r sk d a hx hc _ ih
    simp only [evalCoal, hx, hc, if_true]
    revert ih
    cases evalCoal E r sk d with
    | val => simp [OriginOk]
    | exc o => cases o <;> simp [OriginOk, hasFaultL] <;> intro h <;> simp [h]
  case case15 =>
    intro x r sk d a hx hc ih
    simp only [evalCoal, hx, hc]
    rw [hx] at ih
    revert ih
    cases a <;> simp [OriginOk, hasFaultL] <;> intro h <;> simp [h]
  case case16 => simp [evalSeq, OriginOk]
  case case17 =>
    intro x r hx _ ih
    simp only [evalSeq, hx]
    revert ih
    cases evalSeq E r with
    | val => simp [OriginOk]
    | exc o => cases o <;> simp [OriginOk, hasFaultL] <;> intro h <;> simp [h]
  case case18 =>
    intro x r a hx ih
    simp only [evalSeq, hx]
    rw [hx] at ih
    revert ih
    cases a <;> simp [OriginOk, hasFaultL] <;> intro h <;> simp [h]

end Glom.C04
